/-
  C01 (fragment): signer dispatch — the module that signs a file is the same whether `relic sign` runs standalone or
  through the server.

  Model: Relic.Model.Magic (`byFile`, `signDispatch` = the first lines of both `signCmd`s, `serverDispatch` = what
  `serveSign` does with the query, `remoteDispatch` = the client's query handed to the server, `verifyDispatch` =
  `verifyOne`).  The tables are re-extracted from the Go source on every run (Relic.Generated.Magic).
-/
import Relic.Proofs.Magic
import Relic.Proofs.MagicDispatch
import Relic.Proofs.MagicExpected
import Relic.Generated.Magic
namespace Relic.Props.C01
open Relic Relic.Magic

/-! ### the tables as they are in the source now -/

/-- the decision list of `Detect` in the source is the model's (same tests, same order, same verdicts), nothing was left
    unparsed, the constants are declared in the order the model numbers them -/
theorem generated_rules_eq :
    Generated.Magic.rules = rules ∧ Generated.Magic.unknown = [] ∧
    Generated.Magic.detectOther = ["br := bufio.NewReaderSize(r, 0x10000+4)", "return FileTypeUnknown"] ∧
    Generated.Magic.typeNames = ["FileTypeUnknown", "FileTypeRPM", "FileTypeDEB", "FileTypePGP", "FileTypeJAR", "FileTypePKCS7",
      "FileTypePECOFF", "FileTypeMSI", "FileTypeCAB", "FileTypeAppManifest", "FileTypeCAT", "FileTypeAPPX", "FileTypeVSIX",
      "FileTypeXAP", "FileTypeAPK", "FileTypeMachO", "FileTypeMachOFat", "FileTypeIPA", "FileTypeXAR"] ∧
    Generated.Magic.compNames = ["CompressedNone", "CompressedGzip", "CompressedXz"] := by
  decide

/-- the member names `detectZip` reacts to are the model's -/
theorem generated_zip_eq :
    Generated.Magic.zipMarkers = markers ∧ Generated.Magic.zipFlagNames = [nManifest] ∧
    Generated.Magic.zipIpaSuffixes = ipaSuffixes ∧ Generated.Magic.zipOther = [] := by
  decide

/-- the `signers.Signer{…}` literals under signers/ are exactly the rows of the model's table (in some order: the order is
    read back from the running binary by the `table` op, and `dispatch_order_independent` shows it does not matter);
    `psExtMap` has the model's keys -/
theorem generated_signers_eq :
    Generated.Magic.signers.length = registered.length ∧ (∀ s ∈ Generated.Magic.signers, s ∈ registered) ∧
    (Generated.Magic.signers.map (·.name)).Nodup ∧
    Generated.Magic.psExts.length = psExts.length ∧ (∀ e ∈ Generated.Magic.psExts, e ∈ psExts) ∧ Generated.Magic.psExts.Nodup := by
  decide

/-- the hand-modelled functions still read as they did when the model was written -/
theorem generated_sources_eq :
    Generated.Magic.mzBody = Expected.mzBody ∧ Generated.Magic.helpers = Expected.helpers ∧
    Generated.Magic.lookups = Expected.lookups ∧ Generated.Magic.getSigStyle = Expected.getSigStyle :=
  ⟨rfl, rfl, rfl, rfl⟩

/-- both sign commands pick the module with `signers.ByFile(argFile, argSigType)` and refuse a module without `Sign`; the
    remote client sends `mod.Name` as `sigtype` and the base name as `filename`; the server looks up
    `ByName(query.Get("sigtype"))` and nothing else, and answers "unknown signature type" exactly when that is nil or has
    no `Sign` (the repair of FM5); `verifyOne` uses
    `DetectCompressed`, `ByMagic`, then `ByFileName` -/
theorem generated_frontends_ok :
    Generated.Magic.tokenMod = ["signers.ByFile(argFile, argSigType)"] ∧
    Generated.Magic.remoteMod = ["signers.ByFile(argFile, argSigType)"] ∧
    Generated.Magic.tokenNilTest = true ∧ Generated.Magic.remoteNilTest = true ∧
    Generated.Magic.serverRefuse = ["mod == nil || mod.Sign == nil"] ∧
    Generated.Magic.remoteSigtype = ["mod.Name"] ∧ Generated.Magic.remoteFilename = ["filepath.Base(argFile)"] ∧
    Generated.Magic.serverMod = ["signers.ByName(sigType)"] ∧ Generated.Magic.serverSigType = ["query.Get(\"sigtype\")"] ∧
    Generated.Magic.serverFilename = ["query.Get(\"filename\")"] ∧
    Generated.Magic.verifyMod = ["signers.ByMagic(fileType)", "signers.ByFileName(path)"] ∧
    Generated.Magic.verifyDetect = ["magic.DetectCompressed(f)"] ∧
    Generated.Magic.verifyStreamTest = true ∧ Generated.Magic.verifyCompressedTest = true := by
  decide

/-! ### standalone = through the server -/

/-- For ALL file names, `--sig-type` values, contents and ZIP member lists: when the sign command (standalone or remote
    client — they share the code) resolves to module `m`, the server, handed the client's query (`sigtype = m.Name`, any
    non-empty `filename`), enters `m.Sign`: the same module signs. -/
theorem dispatch_standalone_eq_server (name sigtype bs base : Bytes) (zn : Option (List Bytes)) (m : Signer)
    (hb : base ≠ []) (h : signDispatch name sigtype bs zn = .ok m) : serverDispatch m.name base = .sign m := by
  obtain ⟨hf, hs⟩ := signDispatchIn_ok h
  have hm : m ∈ registered := byFileIn_mem hf
  have hn : byNameIn registered m.name = some m := byName_self m hm
  simp [serverDispatch, serverDispatchIn, hb, hn, hs]

/-- the remote path as a whole: the client's outcome, and behind it the server entering that very module -/
theorem remote_eq_standalone (name sigtype bs base : Bytes) (zn : Option (List Bytes)) (hb : base ≠ []) :
    remoteDispatch name sigtype bs zn base =
      match signDispatch name sigtype bs zn with
      | .error e => .error e
      | .ok m => .ok (.sign m) := by
  unfold remoteDispatch remoteDispatchIn
  cases h : signDispatchIn registered name sigtype bs zn with
  | error e => simp [signDispatch, h]
  | ok m =>
    have := dispatch_standalone_eq_server name sigtype bs base zn m hb h
    simp [signDispatch, h, serverDispatch] at this ⊢
    exact this

example : signDispatch [102] [109, 115, 105, 45, 116, 97, 114] [] none = .ok sMsi ∧
    remoteDispatch [102] [109, 115, 105, 45, 116, 97, 114] [] none [102] = .ok (.sign sMsi) := by decide

/-- the server never looks at the file name (beyond requiring one), nor at the content: `sigtype` alone decides -/
theorem server_dispatch_ignores_filename (sigtype f1 f2 : Bytes) (h1 : f1 ≠ []) (h2 : f2 ≠ []) :
    serverDispatch sigtype f1 = serverDispatch sigtype f2 := by
  simp [serverDispatch, serverDispatchIn, h1, h2]

/-- The three look-ups do not depend on the order in which the modules registered (Go package initialisation order): no two
    modules share a name or alias, a magic, or accept a common file name.  Hence every dispatch function of the model is
    the same for every permutation of the table. -/
theorem dispatch_order_independent (l : List Signer) (h : l.Perm registered) :
    (∀ n, byNameIn l n = byName n) ∧ (∀ t, byMagicIn l t = byMagic t) ∧ (∀ p, byFileNameIn l p = byFileName p) := by
  refine ⟨?_, ?_, ?_⟩
  · intro n
    unfold byName byNameIn
    symm
    apply find?_perm_unique _ h.symm
    intro a ha b hb pa pb
    by_cases hab : a = b
    · exact hab
    · exact absurd ((answers_iff b n).mp pb) (keys_disjoint a ha b hb hab n ((answers_iff a n).mp pa))
  · intro t
    unfold byMagic byMagicIn
    by_cases ht : t = .unknown
    · simp [ht]
    · simp only [ht, if_false]
      symm
      apply find?_perm_unique _ h.symm
      intro a ha b hb pa pb
      have ea : a.magic = t := by simpa using pa
      have eb : b.magic = t := by simpa using pb
      exact magics_distinct a ha b hb (ea.trans eb.symm) (by rw [ea]; exact ht)
  · intro p
    unfold byFileName byFileNameIn
    symm
    apply find?_perm_unique _ h.symm
    intro a ha b hb pa pb
    rcases testPath_kinds a ha with ka | ka | ka
    · simp [ka] at pa
    · rcases testPath_kinds b hb with kb | kb | kb
      · simp [kb] at pb
      · exact testPaths_distinct a ha b hb (by simp [ka]) (by simp [kb]) (by rw [ka, kb])
      · simp only [ka, kb] at pa pb
        exact absurd ⟨pa, pb⟩ (pathTests_disjoint p)
    · rcases testPath_kinds b hb with kb | kb | kb
      · simp [kb] at pb
      · simp only [ka, kb] at pa pb
        exact absurd ⟨pb, pa⟩ (pathTests_disjoint p)
      · exact testPaths_distinct a ha b hb (by simp [ka]) (by simp [kb]) (by rw [ka, kb])

example : registered.reverse.Perm registered := List.reverse_perm _

/-- hence: whatever the registration order, the sign commands, the server and `verify` pick the same modules -/
theorem dispatch_functions_order_independent (l : List Signer) (h : l.Perm registered) (name sigtype bs base : Bytes)
    (zn : Option (List Bytes)) :
    signDispatchIn l name sigtype bs zn = signDispatch name sigtype bs zn ∧
    serverDispatchIn l sigtype base = serverDispatch sigtype base ∧
    verifyDispatchIn l name bs zn = verifyDispatch name bs zn := by
  obtain ⟨h1, h2, h3⟩ := dispatch_order_independent l h
  have e1 : byNameIn l = byNameIn registered := funext h1
  have e2 : byMagicIn l = byMagicIn registered := funext h2
  have e3 : byFileNameIn l = byFileNameIn registered := funext h3
  unfold signDispatch serverDispatch verifyDispatch signDispatchIn serverDispatchIn verifyDispatchIn byFileIn
  rw [e1, e2, e3]
  exact ⟨rfl, rfl, rfl⟩

/-! ### the server refuses what the commands refuse -/

/-- the statement, for a server dispatch function `srv`: whenever the sign command refuses an explicit `--sig-type`
    ("no signer with that name", "can't sign files of type"), the server answers that `sigtype` with the error response
    "unknown signature type" (or "missing parameter" when no file name was sent) — it neither signs nor panics -/
def ServerRefusesWhatStandaloneRefuses (srv : Bytes → Bytes → SrvOut) : Prop :=
  ∀ (name sigtype bs fn : Bytes) (zn : Option (List Bytes)), sigtype ≠ [] →
    (∃ e, signDispatch name sigtype bs zn = .error e) → srv sigtype fn = .unknownSigtype ∨ srv sigtype fn = .missingParameter

/-- with an explicit type the server and the commands agree completely: same module entered, or refused on both sides -/
theorem server_eq_standalone_for_explicit_sigtype (name sigtype bs fn : Bytes) (zn : Option (List Bytes))
    (hs : sigtype ≠ []) (hf : fn ≠ []) :
    serverDispatch sigtype fn =
      match signDispatch name sigtype bs zn with
      | .ok m => .sign m
      | .error _ => .unknownSigtype := by
  simp only [serverDispatch, serverDispatchIn, signDispatch, signDispatchIn, byFileIn, hs, hf, ne_eq, not_false_eq_true, if_true, if_false]
  cases hb : byNameIn registered sigtype with
  | none => rfl
  | some m =>
    simp only
    cases hsn : m.hasSign <;> simp

/-- **(full strength, the code as repaired.)**  For ALL names, types, contents: what the sign command refuses, the server
    refuses with an error response. -/
theorem server_refuses_what_standalone_refuses : ServerRefusesWhatStandaloneRefuses serverDispatch := by
  intro name sigtype bs fn zn hs ⟨e, he⟩
  by_cases hf : fn = []
  · right; simp [serverDispatch, serverDispatchIn, hf]
  · left
    rw [server_eq_standalone_for_explicit_sigtype name sigtype bs fn zn hs hf, he]

/-- the repaired handler never calls a nil `Sign` -/
theorem server_never_panics (sigtype fn : Bytes) (m : Signer) : serverDispatch sigtype fn ≠ .panicNilSign m := by
  unfold serverDispatch serverDispatchIn
  split
  · intro h; cases h
  · split
    · intro h; cases h
    · split <;> (intro h; cases h)

example : signDispatch [102] sPkcs7.name [] none = .error (.cantsign sPkcs7.name) ∧
    serverDispatch sPkcs7.name [102] = .unknownSigtype := by decide

/-- **the original code (finding FM5).**  `sigtype=pkcs7` (likewise `mach-o-fat`, `ipa`: modules that only verify) made
    `serveSign` call the nil `mod.Sign`; the commands answer "can't sign files of type: pkcs7". -/
theorem server_nil_sign_panic :
    signDispatch [102] sPkcs7.name [] none = .error (.cantsign sPkcs7.name) ∧
    serverDispatchOrig sPkcs7.name [102] = .panicNilSign sPkcs7 ∧
    serverDispatchOrig sFat.name [102] = .panicNilSign sFat ∧ serverDispatchOrig sIpa.name [102] = .panicNilSign sIpa := by
  decide

theorem server_refuses_what_standalone_refuses_orig_false : ¬ ServerRefusesWhatStandaloneRefuses serverDispatchOrig := by
  intro h
  have := h [102] sPkcs7.name [] [102] none (by decide) ⟨_, server_nil_sign_panic.1⟩
  rw [server_nil_sign_panic.2.1] at this
  rcases this with h | h <;> cases h

/-- the original code panicked on exactly the names of modules without `Sign` -/
theorem server_orig_panics_only_for_verify_only_modules (sigtype fn : Bytes) (m : Signer)
    (h : serverDispatchOrig sigtype fn = .panicNilSign m) : m ∈ [sFat, sIpa, sPkcs7] ∧ m.answers sigtype = true := by
  unfold serverDispatchOrig serverDispatchOrigIn at h
  split at h
  · cases h
  · split at h
    · cases h
    · rename_i m' hm
      split at h
      · cases h
      · rename_i hs
        injection h with h; subst h
        have hmem : m' ∈ registered := List.mem_of_find?_eq_some hm
        have hans : m'.answers sigtype = true := by
          unfold byNameIn at hm
          have := List.find?_some (p := fun x : Signer => x.answers sigtype) hm
          exact this
        refine ⟨?_, hans⟩
        have : ∀ s ∈ registered, s.hasSign = false → s ∈ [sFat, sIpa, sPkcs7] := by decide
        exact this m' hmem (by simpa using hs)

/-! ### `verify` picks the module `sign` picks -/

/-- no dispatched module lacks both verifiers (only `cosign` does, and nothing detects as cosign) -/
theorem verify_never_nil (name bs : Bytes) (zn : Option (List Bytes)) (m : Signer) :
    verifyDispatch name bs zn ≠ .panicNil m := by
  have key : ∀ s ∈ registered, (s.magic ≠ .unknown ∨ s.testPath.isSome) → s.hasVerifyStream = true ∨ s.hasVerify = true := by decide
  intro h
  unfold verifyDispatch verifyDispatchIn at h
  simp only at h
  split at h
  · cases h
  · rename_i m' hm
    split at h
    · cases h
    · split at h
      · cases h
      · split at h
        · cases h
        · rename_i hvs _ hv
          have hmem : m' ∈ registered ∧ (m'.magic ≠ .unknown ∨ m'.testPath.isSome) := by
            revert hm
            cases hbm : byMagicIn registered (detectCompressed bs zn).1 with
            | some x =>
              intro hm
              injection hm with hm; subst hm
              unfold byMagicIn at hbm
              split at hbm
              · cases hbm
              · rename_i hne
                have hp := List.find?_some hbm
                have : x.magic = (detectCompressed bs zn).1 := by simpa using hp
                exact ⟨List.mem_of_find?_eq_some hbm, Or.inl (by rw [this]; exact hne)⟩
            | none =>
              intro hm
              simp only at hm
              have hp := List.find?_some hm
              refine ⟨List.mem_of_find?_eq_some hm, Or.inr ?_⟩
              cases htp : m'.testPath with
              | none => simp [htp] at hp
              | some _ => rfl
          rcases key m' hmem.1 hmem.2 with k | k
          · exact hvs k
          · exact hv k

/-- a compressed file never reaches a stream verifier: `Decompress` is only ever called with `CompressedNone` (so the
    `return err` slip after it in `verifyOne` cannot be reached) -/
theorem verify_stream_uncompressed (name bs : Bytes) (zn : Option (List Bytes)) (m : Signer) (c : Compression)
    (h : verifyDispatch name bs zn = .stream m c) : c = .none := by
  have key : ∀ s ∈ registered, s.testPath.isSome → s.hasVerifyStream = false := by decide
  have hc : (detectCompressed bs zn).2 ≠ .none → (detectCompressed bs zn).1 = .unknown := by
    unfold detectCompressed
    split
    · intro _; rfl
    · split
      · intro _; rfl
      · split <;> intro h <;> exact absurd rfl h
  unfold verifyDispatch verifyDispatchIn at h
  simp only at h
  split at h
  · cases h
  · rename_i m' hm
    split at h
    · rename_i hvs
      injection h with h1 h2
      subst h1
      by_cases hcn : (detectCompressed bs zn).2 = .none
      · rw [← h2]; exact hcn
      · exfalso
        have ht := hc hcn
        rw [ht] at hm
        simp only [byMagicIn, if_true] at hm
        have hp := List.find?_some hm
        have hmem := List.mem_of_find?_eq_some hm
        have : m'.testPath.isSome := by
          cases htp : m'.testPath with
          | none => simp [htp] at hp
          | some _ => rfl
        rw [key m' hmem this] at hvs
        cases hvs
    · split at h <;> (try split at h) <;> cases h

/-- for a file that is not gzip/xz and not named `-`: `verify` enters a verifier of module `m` exactly when `sign`
    (without `--sig-type`) resolves to `m` -/
theorem verify_dispatch_eq_sign_dispatch (name bs : Bytes) (zn : Option (List Bytes)) (m : Signer)
    (hn : name ≠ [45]) (hc : (detectCompressed bs zn).2 = .none) :
    byFile name [] bs zn = .ok m ↔ (verifyDispatch name bs zn = .stream m .none ∨ verifyDispatch name bs zn = .file m) := by
  have hnil := verify_never_nil name bs zn
  unfold byFile byFileIn verifyDispatch verifyDispatchIn at *
  simp only [hn, hc, ne_eq, not_true_eq_false, if_false] at *
  cases hbm : byMagicIn registered (detectCompressed bs zn).1 with
  | some x =>
    simp only [hbm] at hnil ⊢
    by_cases hvs : x.hasVerifyStream = true
    · simp [hvs]
    · by_cases hv : x.hasVerify = true
      · simp [hvs, hv]
      · exact absurd (by simp [hvs, hv]) (hnil x)
  | none =>
    simp only [hbm] at hnil ⊢
    cases hfn : byFileNameIn registered name with
    | none => simp
    | some x =>
      simp only [hfn] at hnil ⊢
      by_cases hvs : x.hasVerifyStream = true
      · simp [hvs]
      · by_cases hv : x.hasVerify = true
        · simp [hvs, hv]
        · exact absurd (by simp [hvs, hv]) (hnil x)

example : byFile [97, 46, 112, 115, 49] [] [120] none = .ok sPs ∧ verifyDispatch [97, 46, 112, 115, 49] [120] none = .file sPs := by
  decide

end Relic.Props.C01

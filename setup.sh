#!/bin/sh
# Build the framework from files on disk only (offline): Lean library (all property modules) + native driver,
# Go harness and extractors warm-up.
set -e
cd "$(dirname "$0")"
export GOFLAGS=-mod=mod GOPROXY=off GOSUMDB=off GOTOOLCHAIN=local CGO_ENABLED=0
mkdir -p .build evidence
mods=$(cd lean && ls Relic/Props/*.lean | sed 's/\.lean$//; s#/#.#g')
(cd lean && lake build $mods relic_driver)
cp /repo/go.sum harness/go.sum
(cd harness && go build -tags verif -o ../.build/vh ./cmd/vh && go build -tags verif -o ../.build/vh13 ./cmd/vh13)
for t in tools/*/; do
  [ -f "$t/go.mod" ] && (cd "$t" && go build -o "../../.build/$(basename "$t")" .)
done
echo setup-ok

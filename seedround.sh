#!/bin/bash
# seedround.sh <listfile>: each line "name n pkgdir runpattern prop"; confirms the demo in the scratch worktree
# (fails with / passes without the change, suite green with it), stores it under seeded/, then applies the change to
# /repo, runs ./check <prop> --tier quick, reverts.  Serial: only one change is ever applied to /repo.
export GOFLAGS=-mod=mod GOPROXY=off GOSUMDB=off GOTOOLCHAIN=local
while read name n pkg pat prop; do
  [ -z "$name" ] && continue
  id=$name-$n
  ./confirm_seed.sh $name $n $pkg "$pat" $prop "pending" 2>&1 | tail -1
  m=/tmp/mut/$name/out/$n
  if git -C /repo apply --check $m/patch.diff 2>/dev/null; then
    git -C /repo apply $m/patch.diff
    out=$(cd /verif && timeout 1800 ./check $prop --tier quick 2>&1 | grep -v '^warning\|^Hint\|^Note\|^\s*$\|apply\]\|KNOWN-FINDING')
    git -C /repo checkout -- .
    echo "$out" > /verif/seeded/$id/check_output.txt
    echo "== $id check: $(echo "$out" | grep -c VIOLATION) violation lines :: $(echo "$out" | grep -m1 -A4 'VIOLATION' | tr '\n' ' ' | cut -c1-700)"
    echo "$out" | tail -1 | cut -c1-200
  else
    echo "== $id PATCH DOES NOT APPLY to /repo"
  fi
done < "$1"
git -C /repo status --short | head -3

package ps

// Scripts that were signed and then went through a line-ending conversion (git core.autocrlf=input, dos2unix, an editor):
// the stale signature block sits on LF-only lines, completely or in part.  Every comment style x UTF-8 / UTF-8 with BOM /
// UTF-16LE with BOM x script text with CRLF or LF x with / without a final line break x which part was converted.
// The unchanged code does not recognise an LF-only marker line: the whole file is script text and a new block is appended.

import (
	"bufio"
	"bytes"
	"fmt"

	"verifharness/hx"
)

// crlfToLF converts every CRLF in b[from:] to LF; code-unit aware for UTF-16LE (from must be even there)
func crlfToLF(b []byte, from int, utf16 bool) []byte {
	out := append([]byte{}, b[:from]...)
	if !utf16 {
		return append(out, bytes.ReplaceAll(b[from:], []byte("\r\n"), []byte("\n"))...)
	}
	i := from
	for ; i+4 <= len(b); i += 2 {
		if b[i] == '\r' && b[i+1] == 0 && b[i+2] == '\n' && b[i+3] == 0 {
			continue // drop the CR unit
		}
		out = append(out, b[i], b[i+1])
	}
	return append(out, b[i:]...)
}

func genLF(w *bufio.Writer, r *hx.Rng, tier string, prop string) {
	rounds := 1
	if tier == "thorough" {
		rounds = 12
	}
	for round := 0; round < rounds; round++ {
		for style := 1; style <= 3; style++ {
			for enc := 0; enc < 3; enc++ {
				for conv := 0; conv < 4; conv++ {
					p := Params{Style: style, Utf16: enc == 2, Utf8Bom: enc == 1, Eol: []string{"\r\n", "\n"}[r.Intn(2)],
						Lines: r.Pick(1, 2, 3, 5), NonASCII: r.Pick(0, 0, 1, 3), NoFinalEol: r.Bool()}
					text := Encode(p, Text(r, p))
					if round == 0 && conv == 0 { // every run: a text that ends in a letter, so that a lost character shows
						p.NoFinalEol = true
						text = Encode(p, "Write-Host 'hello'"+p.Eol+"exit 0")
					}
					signed := FakeSigned(text, style, r.Bytes(r.Pick(1, 47, 48, 100)))
					if len(signed) <= len(text) {
						continue
					}
					eol := 2
					if p.Utf16 {
						eol = 4
					}
					var f []byte
					switch conv {
					case 0: // dos2unix over the whole file
						from := 0
						if p.Utf16 {
							from = 2
						}
						f = crlfToLF(signed, from, p.Utf16)
					case 1: // the script text keeps its line endings, the block (with the line break in front of it) is converted
						f = crlfToLF(signed, len(text), p.Utf16)
					case 2: // only the block's own lines are converted, the line break in front of it stays CRLF
						f = crlfToLF(signed, len(text)+eol, p.Utf16)
					default: // only the line break in front of the block is converted (block lines stay CRLF)
						f = append(crlfToLF(signed[:len(text)+eol], len(text), p.Utf16), signed[len(text)+eol:]...)
					}
					sig := hx.Hex(r.Bytes(r.Pick(1, 48, 96)))
					fmt.Fprintf(w, "PS digest %d %s\n", style, hx.Hex(f))
					fmt.Fprintf(w, "PS sign %d %s %s\n", style, hx.Hex(f), sig)
					if conv == 0 || prop == "C08" {
						fmt.Fprintf(w, "PS resign %d %s %s %s\n", style, hx.Hex(f), hx.Hex(r.Bytes(r.Pick(1, 48))), sig)
					}
					fmt.Fprintf(w, "PS locate %d %s\n", style, hx.Hex(f))
				}
			}
		}
	}
}

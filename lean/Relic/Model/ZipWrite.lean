/-
  Relic.Model.ZipWrite — the rewrite the C17 harness drives on lib/zipslicer, as one function:
  `zipslicer.Read`, then for every member `GetTotalSize` and either a cut range (deleted) or
  `Directory.AddFile` into a new directory (this is the loop of `Directory.Mangle` without its layout
  check — the primitives are exercised directly), then `Directory.NewFile` for every added member, then
  `WriteDirectory`; the output is the retained bytes up to the old directory, the added members, the new
  directory.  `rewriteKeep` (Model/Zip.lean) is the instance without additions.
  Core Lean only.
-/
import Relic.Model.ZipRewrite
namespace Relic.Zip
open Relic

def rewriteWith (z : Bytes) (mask : List Bool) (force : Bool) (mt md : Nat) (news : List NewMember) : Res Bytes :=
  let r : Rd := ⟨z, false, 0⟩
  match read r with
  | .ok d =>
    match mangle r d.files mask { files := [], size := 0, dirLoc := 0 } [] with
    | .ok (nd, dels) =>
      let p := addNews mt md news ([], nd)
      if !headersOK p.2.files then .err "extratoolong" else   -- fix-F7g: `WriteDirectory` fails, nothing is produced
      let w := writeDirectory p.2 force
      .ok (dropRanges z d.dirLoc dels ++ p.1 ++ w.1 ++ w.2.1)
    | .err x => .err x
    | .panic s => .panic s
    | .diverge => .diverge
  | .err x => .err x
  | .panic s => .panic s
  | .diverge => .diverge

/-- members laid out back to back from `pos` up to the central directory, in directory order, descriptor
    widths under the contiguous reading (the layout `AddFile` assumes; `Props.C17.contigFrom`) -/
def contigSpec (a : SpecZip.Archive) : Nat → List SpecZip.Member → Bool
  | pos, [] => pos == a.ends.cdOff
  | pos, m :: ms =>
    m.entry.hoff == pos &&
    match m.descWidths with
    | [] => contigSpec a (m.dataOff + m.entry.csize) ms
    | _ => match SpecZip.trueWidth a m with
      | some w => contigSpec a (m.dataOff + m.entry.csize + w) ms
      | none => false

/-- the end records of `z` have the form `WriteDirectory` gives them: ZIP64 records present exactly when
    `WriteDirectory` would emit them, and then version-made-by = version-needed = 4.5 in the ZIP64 end record
    and every field of the classic end record at its maximum (disk numbers 0) -/
def canonEnds (z : Bytes) (a : SpecZip.Archive) (minV : Nat) : Prop :=
  a.ends.zip64 = needZip64 a.ends.count a.ends.cdSize a.ends.cdOff false minV ∧
  (a.ends.zip64 = true →
    fld (z.drop a.ends.first) 12 2 = 45 ∧ fld (z.drop a.ends.first) 14 2 = 45 ∧
    fld (z.drop (a.ends.first + 76)) 4 2 = 0 ∧ fld (z.drop (a.ends.first + 76)) 6 2 = 0 ∧
    fld (z.drop (a.ends.first + 76)) 8 2 = 0xffff ∧ fld (z.drop (a.ends.first + 76)) 10 2 = 0xffff ∧
    fld (z.drop (a.ends.first + 76)) 12 4 = 0xffffffff ∧ fld (z.drop (a.ends.first + 76)) 16 4 = 0xffffffff)

instance (z : Bytes) (a : SpecZip.Archive) (minV : Nat) : Decidable (canonEnds z a minV) := by unfold canonEnds; infer_instance


end Relic.Zip

/-
  C01 — Every signature relic produces verifies.   Mach-O part, the load-command-walk half of the end-to-end statement:
  for every regular thin image `machos.Sign` accepts, the file the patch set produces exists, the verifier's locator
  (`debug/macho.NewFile` + `readSigBlob`) finds exactly the region the signer reserved, the bytes in front of it are the
  bytes that were hashed, and the region holds the signature blob.  (The other half — given these four facts
  `verifyFile` succeeds with all comparisons true — is in Props/C01_MachOFull.lean.)

  The statement `macho_sign_then_verify_full` of C01_MachO.lean is FALSE as written (`not_macho_sign_then_verify_full`),
  for a reason that lies in the MODEL (its `loadLoop` is partial), not in relic.  The regularity conditions that relic
  itself needs are collected in `Regular`.

  `sign` is the current tree.  Two former fields of `Regular` were genuine defects of relic and are now DERIVED from a
  successful `sign`, since relic tests them itself:
    noSlack  (F-MACHO-4, fixed in /repo bd2b0c4)  `regular_noSlack`  — `scanFile` refuses unused bytes behind the last load
             command when a command is going to be added (`macho_slack_refused`); the old behaviour: `macho_slack_breaks_orig`
    small    (F-MACHO-3 / F-MACHO-3b, fixed in /repo 5805b39 / e678460)  `regular_small`  — `Sign` refuses when the region it
             is going to use, fresh or reused, exceeds 10^7 bytes (`macho_sign_refuses_oversize_region`, C01_MachOFull.lean).
             No size hypothesis is left (the intermediate field `oldSmall` is gone with fix F-MACHO-3b).
-/
import Relic.Proofs.MachOSigned
import Relic.Proofs.MachOGuards
import Relic.Proofs.MachODemo
import Relic.Props.C01_MachO
namespace Relic.Props.C01
open Relic Relic.MachO Relic.CodeDir Relic.Binpatch

/-- the load commands `(position, cmd, cmdsize)` the verifier's parser (`debug/macho.NewFile`) sees in `f` -/
def loadsOf (f : Bytes) : List (Nat × Nat × Nat) :=
  match newFile f with
  | .ok (_, l) => l
  | _ => []

/-- **RegularImage**: what the signer silently assumes about the shape of the input image, in terms of the scanner's
    markers `so.plan.m`, the patch `so.plan.po` and the input's load commands.  Every field is a decidable condition. -/
structure RegularImage (f : Bytes) (so : SignOut) : Prop where
  /-- the verifier's parser accepts the INPUT's load commands.  (Modelling artefact: the model of `debug/macho` answers
      "unmodelled" for LC_SYMTAB / LC_DYSYMTAB / LC_LOAD_DYLIB-type / LC_RPATH commands and for sections with
      relocations, which `scanFile` accepts; genuinely needed: segment commands whose 64-bit offset or size is
      negative as int64 are refused by `NewFile` but accepted by `scanFile`.) -/
  accepts : newFile f = .ok (so.plan.m.be, loadsOf f)
  /-- at most one LC_CODE_SIGNATURE command, and its cmdsize is 16: the scanner records the LAST one, `readSigBlob`
      takes the FIRST one; `patchLoadCmd` writes `cmdsize = 16` over whatever size the command had. -/
  oneSig : ∀ e ∈ loadsOf f, e.2.1 = 0x1d → e.1 = so.plan.m.loadCsStart ∧ e.2.2 = 16
  /-- the recorded __LINKEDIT command is LC_SEGMENT_64 exactly in a 64-bit image: `patchLinkEdit` picks the field
      layout by the file magic, `scanFile` reads the command by its own `cmd` -/
  leKind : rd32 so.plan.m.be f so.plan.m.lePos = 0x19 ↔ so.plan.m.is64 = true
  /-- the (possibly extended) header buffer ends at or before the end of code: the signature region does not overlap
      the load commands -/
  hdrBelow : (so.plan.po.newHeader.length : Int) ≤ so.plan.m.codeSize
  /-- the end of code and the old signature lie inside the file (`scanFile` never looks at the file size) -/
  oldInside : so.plan.m.codeSize + so.plan.m.sigLen ≤ f.length

/-- **Regular** = `RegularImage`: since the fixes F-MACHO-3 / F-MACHO-3b (`Sign` tests the size of the region it is going to
    use, fresh or reused) no size condition is left to assume.  (The name is kept for the theorems that use it.) -/
abbrev Regular (f : Bytes) (so : SignOut) : Prop := RegularImage f so

/-- **regular_noSlack** (the former field `noSlack`, finding F-MACHO-4): when a command is going to be added the commands
    fill `sizeofcmds` exactly — `scanFile` has tested it -/
theorem regular_noSlack (f : Bytes) (p : SignParams) (so : SignOut) (hs : sign f p = .ok so) (R : RegularImage f so) :
    so.plan.m.loadCsStart = 0 →
      hdrEndOf so.plan.m.magic + ((loadsOf f).map (fun e => e.2.2)).sum = so.plan.m.nextLc :=
  scan_noSlack f so.plan.m (loadsOf f) (sign_inv' f p so hs).2.1 R.accepts

/-- **regular_small** (the former fields `small` / `oldSmall`, findings F-MACHO-3 / F-MACHO-3b): the region `Sign` uses is at
    most 10^7 bytes — `Sign` has tested it, in both branches of `PatchSignature`; follows from a successful `Sign` alone.
    (The bound also keeps `uint32(sigStart)` / `uint32(sigSize)` in `patchLoadCmd` from truncating: `MachO.cs_lt_of_small`.) -/
theorem regular_small (f : Bytes) (p : SignParams) (so : SignOut) (hs : sign f p = .ok so) :
    so.plan.po.sigBufLen ≤ 10000000 :=
  sign_small f p so hs

/-- **macho_sign_then_locate.**  Both branches of `PatchSignature` (old region reused / fresh region with the header
    patched: LC_CODE_SIGNATURE appended, or an existing one overwritten — behind or in front of the __LINKEDIT command;
    in the last case the `patch.Add` calls come out of order and `Dump`'s sort repairs it).  No hypothesis on what lies
    behind the end of code (`padding = 0 ∨ f.length = codeSize` of the older statement is not needed on this tree:
    `Sign` cuts the hashed stream at the end of code; trailing bytes stay behind the signature). -/
theorem macho_sign_then_locate (f : Bytes) (p : SignParams) (so : SignOut) (blob : Bytes)
    (hs : sign f p = .ok so) (R : Regular f so) (hb : blob.length ≤ so.plan.po.sigBufLen) :
    ∃ g, signedFile f so.plan.po blob = .ok g ∧
      locate g = .ok (so.plan.po.sigStart, so.plan.po.sigBufLen) ∧
      g.take so.plan.po.sigStart = so.plan.stream ∧
      MachO.sliceOf g so.plan.po.sigStart so.plan.po.sigBufLen = blob ++ zeros (so.plan.po.sigBufLen - blob.length) := by
  have hsmall := regular_small f p so hs
  obtain ⟨g, h1, h2, h3, h4, _⟩ := sign_then_locate_core f p so blob (loadsOf f) (sign_orig_of_sign f p so hs) R.accepts
    R.oneSig (regular_noSlack f p so hs R) R.leKind R.hdrBelow R.oldInside (Or.inl hsmall) hb
  exact ⟨g, h1, by rw [h2, sigAnswer_small _ _ hsmall], h3, h4⟩

/-- the code limit the signer puts into the code directory is the start of the signature region -/
theorem macho_sign_limit (f : Bytes) (p : SignParams) (so : SignOut) (hs : sign f p = .ok so) (R : Regular f so) :
    so.signed.pages.limit = so.plan.po.sigStart := by
  obtain ⟨g, _, _, _, _, h⟩ := sign_then_locate_core f p so [] (loadsOf f) (sign_orig_of_sign f p so hs) R.accepts R.oneSig
    (regular_noSlack f p so hs R) R.leKind R.hdrBelow R.oldInside (Or.inl (regular_small f p so hs)) (Nat.zero_le _)
  exact h

/-- **macho_sign_then_verify_regular**: the three conjuncts of `macho_sign_then_verify_full` under `Regular` -/
theorem macho_sign_then_verify_regular (f : Bytes) (p : SignParams) (so : SignOut) (blob : Bytes)
    (hs : sign f p = .ok so) (R : Regular f so) (hb : blob.length ≤ so.plan.po.sigBufLen) :
    ∃ g, signedFile f so.plan.po blob = .ok g ∧ locate g = .ok (so.plan.po.sigStart, so.plan.po.sigBufLen) ∧
      pages 4096 (g.take so.signed.pages.limit) = pages 4096 so.plan.stream := by
  obtain ⟨g, h1, h2, h3, _⟩ := macho_sign_then_locate f p so blob hs R hb
  exact ⟨g, h1, h2, by rw [macho_sign_limit f p so hs R, h3]⟩

/-- the two marker hypotheses of `macho_sign_then_verify_full` are derivable: since the fix of F-MACHO-1 `scanFile`
    refuses an image without __LINKEDIT, and the recorded command has `cmdsize ≥ 56` and ends inside the command area -/
theorem macho_markers_derivable (f : Bytes) (p : SignParams) (so : SignOut) (hs : sign f p = .ok so) :
    so.plan.m.lePos ≠ 0 ∧ so.plan.m.lePos + 56 ≤ so.plan.m.nextLc := by
  obtain ⟨_, _, _, hpl, _⟩ := sign_inv f p so (sign_orig_of_sign f p so hs)
  exact scan_lePos f _ (plan_inv f _ _ _ _ hpl).1

/-! ### concrete images -/


open Demo in
/-- non-vacuity of `macho_sign_then_locate`: the minimal image is signed and is `Regular` (fresh-region branch, a load
    command is added; 16392 bytes are reserved at offset 120) -/
theorem macho_regular_demo : ∃ so, sign fGood p0 = .ok so ∧ Regular fGood so ∧ so.plan.po.sigStart = 120 ∧ so.plan.po.sigBufLen = 16392 := by
  cases hso : signOrig fGood p0 with
  | err e => have := sign_fGood_ok; rw [hso] at this; cases this
  | panic e => have := sign_fGood_ok; rw [hso] at this; cases this
  | diverge => have := sign_fGood_ok; rw [hso] at this; cases this
  | ok so =>
    have hsn := signNew_of fGood mGood so hso scan_fGood scanNew_fGood (by decide +kernel) (by decide +kernel)
    obtain ⟨hm, F, HS⟩ := sign_fresh_facts fGood p0 so mGood hso scan_fGood (by decide +kernel)
    have e1 : so.plan.po.sigStart = 120 := by rw [F.sigStart]; decide +kernel
    have e2 : so.plan.po.sigBufLen = 16392 := by rw [F.sigBufLen]; decide +kernel
    have e3 : so.plan.po.newHeader.length = 120 := by rw [HS.len]; decide +kernel
    refine ⟨so, hsn, ⟨?_, ?_, ?_, ?_, ?_⟩, e1, e2⟩
    · rw [hm]; decide +kernel
    · rw [hm]; decide +kernel
    · rw [hm]; decide +kernel
    · rw [hm, e3]; decide +kernel
    · rw [hm]; decide +kernel

open Demo in
/-- non-vacuity, fresh region with an EXISTING LC_CODE_SIGNATURE command: the old region (16 bytes at offset 136) is too
    small, the command at 104 is overwritten in place, the old region is replaced by 16392 bytes -/
example : ∃ so, sign (fSigned 16) p0 = .ok so ∧ Regular (fSigned 16) so ∧ so.plan.m.loadCsStart = 104 ∧
    so.plan.po.sigStart = 136 ∧ so.plan.po.sigBufLen = 16392 := by
  cases hso : signOrig (fSigned 16) p0 with
  | err e => have := sign_fOld_ok; rw [hso] at this; cases this
  | panic e => have := sign_fOld_ok; rw [hso] at this; cases this
  | diverge => have := sign_fOld_ok; rw [hso] at this; cases this
  | ok so =>
    have hsn := signNew_of (fSigned 16) (mSigned 16) so hso scan_fOld scanNew_fOld (by decide +kernel) (by decide +kernel)
    obtain ⟨hm, F, HS⟩ := sign_fresh_facts (fSigned 16) p0 so (mSigned 16) hso scan_fOld (by decide +kernel)
    have e1 : so.plan.po.sigStart = 136 := by rw [F.sigStart]; decide +kernel
    have e2 : so.plan.po.sigBufLen = 16392 := by rw [F.sigBufLen]; decide +kernel
    have e3 : so.plan.po.newHeader.length = 120 := by rw [HS.len]; decide +kernel
    refine ⟨so, hsn, ⟨?_, ?_, ?_, ?_, ?_⟩, by rw [hm]; rfl, e1, e2⟩
    · rw [hm]; decide +kernel
    · rw [hm]; decide +kernel
    · rw [hm]; decide +kernel
    · rw [hm, e3]; decide +kernel
    · rw [hm]; decide +kernel

open Demo in
/-- non-vacuity, reuse branch: the old region (16392 bytes at offset 136) is big enough, the header is not touched -/
example : ∃ so, sign (fSigned 16392) p0 = .ok so ∧ Regular (fSigned 16392) so ∧
    so.plan.po.newHeader = (fSigned 16392).take 120 ∧ so.plan.po.sigStart = 136 ∧ so.plan.po.sigBufLen = 16392 := by
  cases hso : signOrig (fSigned 16392) p0 with
  | err e => have := sign_fReuse_ok; rw [hso] at this; cases this
  | panic e => have := sign_fReuse_ok; rw [hso] at this; cases this
  | diverge => have := sign_fReuse_ok; rw [hso] at this; cases this
  | ok so =>
    have hsn := signNew_of (fSigned 16392) (mSigned 16392) so hso scan_fReuse scanNew_fReuse (by decide +kernel) (by decide +kernel)
    obtain ⟨hm, hpo⟩ := sign_reuse_facts (fSigned 16392) p0 so (mSigned 16392) hso scan_fReuse (by decide +kernel)
    refine ⟨so, hsn, ⟨?_, ?_, ?_, ?_, ?_⟩, by rw [hpo]; rfl, by rw [hpo]; rfl, by rw [hpo]; rfl⟩
    · rw [hm]; decide +kernel
    · rw [hm]; decide +kernel
    · rw [hm]; decide +kernel
    · rw [hm, hpo]; decide +kernel
    · rw [hm]; decide +kernel

open Demo in
/-- **not_macho_sign_then_verify_full.**  The statement `macho_sign_then_verify_full` (C01_MachO.lean) is FALSE in the
    model.  Witness: `Demo.fSym`, a 144-byte 64-bit image with an (empty) LC_SYMTAB command in front of the __LINKEDIT
    segment command.  `sign` succeeds, all hypotheses of the statement hold (`lePos = 56`, `nextLc = 128`, `padding = 0`),
    the signed file exists — and the model's `locate` answers `err "unmodelled"`, because the model of
    `debug/macho.NewFile` does not decode LC_SYMTAB (`loadLoop` says so explicitly).
    This refutes only the STATEMENT (it lacks the hypothesis "the model's parser accepts the input", `Regular.accepts`):
    the real `debug/macho` parses LC_SYMTAB and relic verifies such a file.  It is NOT a finding about relic. -/
theorem not_macho_sign_then_verify_full : ¬ macho_sign_then_verify_full := by
  intro H
  cases hso : signOrig fSym p0 with
  | err e => have := sign_fSym_ok; rw [hso] at this; cases this
  | panic e => have := sign_fSym_ok; rw [hso] at this; cases this
  | diverge => have := sign_fSym_ok; rw [hso] at this; cases this
  | ok so =>
    have hsn := signNew_of fSym mSym so hso scan_fSym scanNew_fSym (by decide +kernel) (by decide +kernel)
    obtain ⟨hm, F, HS⟩ := sign_fresh_facts fSym p0 so mSym hso scan_fSym (by decide +kernel)
    have hpad : so.plan.po.padding = 0 := by rw [F.padding]; decide +kernel
    have hx : so.plan.po.newHeader.length = 144 := by rw [HS.len]; decide +kernel
    obtain ⟨g, hsf, hloc, _⟩ := H fSym p0 so [] hsn (by rw [hm]; decide) (by rw [hm]; decide) (Or.inl hpad) (Nat.zero_le _)
    obtain ⟨L, hw⟩ := fresh_signedFile fSym mSym _ so.plan.po [] F HS (by decide) (by decide) (by decide +kernel)
      (by rw [hx]; decide +kernel) (by decide +kernel) (Nat.zero_le _)
    rw [hw] at hsf
    injection hsf with hg
    subst hg
    have G := fun i (hi : i < 144) => written_header fSym so.plan.po.newHeader (hdrRanges mSym) mSym.codeSize.toNat mSym.sigLen
      so.plan.po.padding ([] ++ zeros (so.plan.po.sigBufLen - ([] : Bytes).length)) L i (by rw [hx]; exact hi)
    have glen := written_length fSym so.plan.po.newHeader (hdrRanges mSym) mSym.codeSize.toNat mSym.sigLen
      so.plan.po.padding ([] ++ zeros (so.plan.po.sigBufLen - ([] : Bytes).length)) L
    generalize written fSym so.plan.po.newHeader (hdrRanges mSym) mSym.codeSize.toNat mSym.sigLen
      so.plan.po.padding ([] ++ zeros (so.plan.po.sigBufLen - ([] : Bytes).length)) = g at G glen hloc
    have hbe : mSym.be = false := rfl
    have same : ∀ i, i < 56 → ¬ (16 ≤ i ∧ i < 24) → g[i]? = fSym[i]? := by
      intro i h1 h2
      rw [G i (by omega)]
      refine HS.same i (by show i < 128; omega) (fun h => h2 h.2) ?_ ?_
      · unfold leField; show ¬ (if true then (56 + 32 ≤ i ∧ i < 56 + 40) ∨ (56 + 48 ≤ i ∧ i < 56 + 56) else _)
        simp only [↓reduceIte]; omega
      · show ¬ (128 ≤ i ∧ i < 128 + 16); omega
    obtain ⟨k1, k2⟩ := HS.cnt rfl (by decide)
    have r16 : rd32 false g 16 = 2 + 1 := by
      rw [rd32_of_bytes false g 16 _ (fun j hj => by rw [G _ (by omega)]; exact k1 j hj)]
      decide +kernel
    have r20 : rd32 false g 20 = 112 := by
      rw [rd32_of_bytes false g 20 _ (fun j hj => by rw [G _ (by omega)]; exact k2 j hj)]
      decide +kernel
    have r32 : rd32 false g 32 = 2 := by
      rw [rd32_congr false fSym g 32 (fun i h1 h2 => same i (by omega) (by omega))]; decide +kernel
    have r36 : rd32 false g 36 = 24 := by
      rw [rd32_congr false fSym g 36 (fun i h1 h2 => same i (by omega) (by omega))]; decide +kernel
    have hE : hdrEndOf 0xfeedfacf = 32 := rfl
    have hl : 144 ≤ g.length := by
      rw [glen]; have : fSym.length = 144 := by decide +kernel
      have : mSym.sigLen = 0 := rfl
      omega
    have := locate_unmodelled g false 0xfeedfacf 2
      (by rw [readMagic_congr fSym g (fun i hi => same i (by omega) (by omega))]; decide +kernel)
      (by omega) (by rw [hE, r20]; omega) r16 (by rw [hE, r36]; omega) (by rw [hE, r36, r20]; omega)
      (by rw [hE, r32]; omega)
    rw [this] at hloc
    cases hloc

open Demo in
/-- **macho_slack_breaks_orig** (finding F-MACHO-4, fixed in /repo bd2b0c4; about the tree BEFORE the fix: `signOrig`).
    `Demo.fSlack` is the minimal image with `sizeofcmds = 80` while its only command has 72 bytes.  All fields of `Regular`
    hold; the old `Sign` succeeded; it put LC_CODE_SIGNATURE at `header + sizeofcmds = 112` and raised `ncmds` to 2 — and the
    parser, which looks for the second command behind the first one (at 104), reads `cmdsize = 0` from the slack:
    `locate` fails with "cmdsize" (`debug/macho`: "invalid command block size").  Replayed on the real
    `debug/macho.NewFile` with the header this model predicts: same error.  The current `scanFile` refuses the image:
    `macho_slack_refused`. -/
theorem macho_slack_breaks_orig : ∃ so, signOrig fSlack p0 = .ok so ∧
    newFile fSlack = .ok (so.plan.m.be, loadsOf fSlack) ∧
    (∀ e ∈ loadsOf fSlack, e.2.1 = 0x1d → e.1 = so.plan.m.loadCsStart ∧ e.2.2 = 16) ∧
    (rd32 so.plan.m.be fSlack so.plan.m.lePos = 0x19 ↔ so.plan.m.is64 = true) ∧
    (so.plan.po.newHeader.length : Int) ≤ so.plan.m.codeSize ∧
    so.plan.m.codeSize + so.plan.m.sigLen ≤ fSlack.length ∧
    so.plan.po.sigBufLen ≤ 10000000 ∧
    ∃ g, signedFile fSlack so.plan.po [] = .ok g ∧ locate g = .err "cmdsize" := by
  cases hso : signOrig fSlack p0 with
  | err e => have := sign_fSlack_ok; rw [hso] at this; cases this
  | panic e => have := sign_fSlack_ok; rw [hso] at this; cases this
  | diverge => have := sign_fSlack_ok; rw [hso] at this; cases this
  | ok so =>
    obtain ⟨hm, F, HS⟩ := sign_fresh_facts fSlack p0 so mSlack hso scan_fSlack (by decide +kernel)
    have e2 : so.plan.po.sigBufLen = 16392 := by rw [F.sigBufLen]; decide +kernel
    have hx : so.plan.po.newHeader.length = 128 := by rw [HS.len]; decide +kernel
    obtain ⟨L, hw⟩ := fresh_signedFile fSlack mSlack _ so.plan.po [] F HS (by decide) (by decide) (by decide +kernel)
      (by rw [hx]; decide +kernel) (by decide +kernel) (Nat.zero_le _)
    refine ⟨so, rfl, by rw [hm]; decide +kernel, by rw [hm]; decide +kernel, by rw [hm]; decide +kernel,
      by rw [hm, hx]; decide +kernel, by rw [hm]; decide +kernel, by rw [e2]; decide, _, hw, ?_⟩
    have G := fun i (hi : i < 128) => written_header fSlack so.plan.po.newHeader (hdrRanges mSlack) mSlack.codeSize.toNat
      mSlack.sigLen so.plan.po.padding ([] ++ zeros (so.plan.po.sigBufLen - ([] : Bytes).length)) L i (by rw [hx]; exact hi)
    have glen := written_length fSlack so.plan.po.newHeader (hdrRanges mSlack) mSlack.codeSize.toNat mSlack.sigLen
      so.plan.po.padding ([] ++ zeros (so.plan.po.sigBufLen - ([] : Bytes).length)) L
    generalize written fSlack so.plan.po.newHeader (hdrRanges mSlack) mSlack.codeSize.toNat mSlack.sigLen
      so.plan.po.padding ([] ++ zeros (so.plan.po.sigBufLen - ([] : Bytes).length)) = g at G glen
    -- outside the count fields, the two __LINKEDIT size fields and the new command, `g` is `fSlack`
    have same : ∀ i, i < 112 → ¬ (16 ≤ i ∧ i < 24) → ¬ leField true 32 i → g[i]? = fSlack[i]? := by
      intro i h1 h2 h3
      rw [G i (by omega)]
      exact HS.same i h1 (fun h => h2 h.2) h3 (by show ¬ (112 ≤ i ∧ i < 112 + 16); omega)
    obtain ⟨k1, k2⟩ := HS.cnt rfl (by decide)
    have r16 : rd32 false g 16 = 1 + 1 := by
      rw [rd32_of_bytes false g 16 _ (fun j hj => by rw [G _ (by omega)]; exact k1 j hj)]
      decide +kernel
    have r20 : rd32 false g 20 = 96 := by
      rw [rd32_of_bytes false g 20 _ (fun j hj => by rw [G _ (by omega)]; exact k2 j hj)]
      decide +kernel
    have nl : ∀ i, (i < 64 ∨ 72 ≤ i ∧ i < 80 ∨ 88 ≤ i) → ¬ leField true 32 i := by
      intro i hi; unfold leField; simp only [↓reduceIte]; omega
    have r108 : rd32 false g (104 + 4) = 0 := by
      rw [rd32_congr false fSlack g _ (fun i h1 h2 => same i (by omega) (by omega) (nl i (by omega)))]; decide +kernel
    have hE : hdrEndOf 0xfeedfacf = 32 := rfl
    have hl : 128 ≤ g.length := by
      rw [glen]; have : fSlack.length = 128 := by decide +kernel
      have : mSlack.sigLen = 0 := rfl
      omega
    -- the walk of the input
    have hwalk : loadLoop false fSlack 112 1 32 = .ok [(32, 0x19, 72)] := by decide +kernel
    obtain ⟨_, hch, hok⟩ := loadLoop_sound _ _ _ _ _ _ hwalk
    have h48 : rd64 false g (32 + 48) < 2 ^ 63 := by
      rw [rd64_of_bytes false g _ _ (fun j hj => by
        rw [G _ (by omega)]; exact HS.fsz rfl (Or.inl (by decide)) j hj)]
      have := F.filesz
      rw [Nat.mod_eq_of_lt (by omega)]; omega
    have h1 := stepOK_patched false fSlack g 112 128 32 [(32, 0x19, 72)] true 32 0x19 72 112 (by omega) hch hok
      List.mem_cons_self (Or.inl ⟨rfl, rfl⟩)
      (fun e he _ => by rw [List.mem_singleton] at he; subst he; left; decide) (by decide)
      (fun i a1 a2 a3 _ => same i a2 (by omega) a3) (fun _ => h48) (32, 0x19, 72) List.mem_cons_self (by decide)
    have hw2 : loadLoop false g 128 (1 + 1) 32 = .err "cmdsize" :=
      loadLoop_cons_err false g 128 1 (32, 0x19, 72) "cmdsize" h1
        (loadLoop_cmdsize false g 128 0 104 (by omega) (by rw [r108]; omega))
    exact locate_err_of_walk g false 0xfeedfacf "cmdsize"
      (by rw [readMagic_congr fSlack g (fun i hi => same i (by omega) (by omega) (nl i (by omega)))]; decide +kernel)
      (by omega) (by rw [hE, r20]; omega) (by rw [hE, r20, r16]; exact hw2)

/-- **macho_slack_refused** (current tree, fix F-MACHO-4).  An image the old `scanFile` accepted, without an
    LC_CODE_SIGNATURE command, whose load commands do not fill `sizeofcmds` — `scanFile`'s loop over the `ncmds` commands
    ends before `header + sizeofcmds` — is refused by `scanFile`, hence by `Sign` with every parameter set: nothing is
    written.  (An image that already HAS an LC_CODE_SIGNATURE command is not affected by the guard, and does not need to
    be: that command is overwritten in place, no command is added — `noSlack` is only needed when `loadCsStart = 0`.) -/
theorem macho_slack_refused (f : Bytes) (m : Markers) (p : SignParams) (h : scanOrig f = .ok m) (hcs : m.loadCsStart = 0)
    (hsl : cmdEnd m.be f (rd32 m.be f 16) (hdrEndOf m.magic) < m.nextLc) :
    scan f = .err "slack" ∧ sign f p = .err "slack" := by
  have hr := scan_slack_refused f m h hcs (by omega)
  exact ⟨hr, sign_of_scan_err f p _ hr⟩

/-- with an LC_CODE_SIGNATURE command present the guard is inert: the scan is the old one -/
theorem macho_slack_with_signature_accepted (f : Bytes) (m : Markers) (h : scanOrig f = .ok m) (hcs : m.loadCsStart ≠ 0) :
    scan f = .ok m :=
  (scan_ok_iff f m).mpr ⟨h, fun c => hcs c.2⟩

open Demo in
/-- hypotheses of `macho_slack_refused` satisfiable: the witness of F-MACHO-4 -/
example : scanOrig fSlack = .ok mSlack ∧ mSlack.loadCsStart = 0 ∧
    cmdEnd mSlack.be fSlack (rd32 mSlack.be fSlack 16) (hdrEndOf mSlack.magic) < mSlack.nextLc ∧
    scan fSlack = .err "slack" ∧ sign fSlack p0 = .err "slack" :=
  ⟨scan_fSlack, rfl, by decide +kernel, (macho_slack_refused fSlack mSlack p0 scan_fSlack rfl (by decide +kernel)).1,
    (macho_slack_refused fSlack mSlack p0 scan_fSlack rfl (by decide +kernel)).2⟩

end Relic.Props.C01

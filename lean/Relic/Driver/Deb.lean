/- line-protocol handlers for the DEB model (used by C01, C02, C03, C08) -/
import Relic.Model.Deb
namespace Relic.Driver.Deb
open Relic Relic.Deb

def ascii (s : String) : Bytes := s.toList.map fun c => UInt8.ofNat c.toNat

/-- `exthex:bodyhex,…` — the control members `parseControl` accepts -/
def parseCtl (s : String) : Option (List (Bytes × Bytes)) :=
  if s = "-" then some [] else
  (s.splitOn ",").mapM fun item =>
    match item.splitOn ":" with
    | [a, b] => do pure ((← fromHex a), (← fromHex b))
    | _ => none

/-- `off:len:md5:sha1,…` — digests of byte ranges of the op's file (checked by the python side) -/
def parseH (f : Bytes) (s : String) : Option (List (Bytes × Bytes × Bytes)) :=
  if s = "-" then some [] else
  (s.splitOn ",").mapM fun item =>
    match item.splitOn ":" with
    | [o, l, m, h] => do pure ((f.drop (← o.toNat?)).take (← l.toNat?), ascii m, ascii h)
    | _ => none

/-- `off:len:bad|texthex,…` — what `pgptools.VerifyClearSign` says about byte ranges of the op's file -/
def parseP (f : Bytes) (s : String) : Option (List (Bytes × Option Bytes)) :=
  if s = "-" then some [] else
  (s.splitOn ",").mapM fun item =>
    match item.splitOn ":" with
    | [o, l, v] => do
      let body := (f.drop (← o.toNat?)).take (← l.toNat?)
      if v = "bad" then pure (body, none) else pure (body, some (← fromHex v))
    | _ => none

def tabH1 (t : List (Bytes × Bytes × Bytes)) (b : Bytes) : Bytes :=
  match t.find? (·.1 = b) with
  | some e => e.2.1
  | none => ascii "?md5?"
def tabH2 (t : List (Bytes × Bytes × Bytes)) (b : Bytes) : Bytes :=
  match t.find? (·.1 = b) with
  | some e => e.2.2
  | none => ascii "?sha1?"
def tabP (t : List (Bytes × Option Bytes)) (b : Bytes) : Option Bytes :=
  match t.find? (·.1 = b) with
  | some e => e.2
  | none => none
def tabCtl (t : List (Bytes × Bytes)) (ext body : Bytes) : Bool := t.contains (ext, body)

def showSeg : Seg → String
  | .lit b => s!"l{toHex b}"
  | .md5 b => s!"m{toHex b}"
  | .sha1 b => s!"s{toHex b}"

def showRes {α} (r : Res α) (f : α → String) : String :=
  match r with
  | .ok a => f a
  | .err e => s!"err {e}"
  | .panic p => s!"panic {p}"
  | .diverge => "diverge"

def showOutcome : Res Unit → Option String
  | .ok _ => none
  | .err e => some s!"err {e}"
  | .panic p => some s!"panic {p}"
  | .diverge => some "diverge"

def showVerify (r : Res (List (Bytes × Res Unit))) : String :=
  showRes r fun rs =>
    let bad := rs.filterMap fun x => showOutcome x.2
    if bad.isEmpty then
      (if rs.isEmpty then "ok none" else s!"ok {",".intercalate (rs.map fun x => toHex x.1)}")
    else "|".intercalate bad.eraseDups

def mark1 : Bytes := List.replicate 15 0xA1
def mark2 : Bytes := List.replicate 16 0xA2
def mt0 : Bytes := [49]
def dateAt : Bytes := [64]

/-- skeleton of an archive: members as name:size:body -/
def skeleton (f : Bytes) : String :=
  let p := entries f
  let one (e : Entry) : String :=
    if e.body = mark1 then s!"{toHex e.name}:NEW1" else if e.body = mark2 then s!"{toHex e.name}:NEW2"
    else s!"{toHex e.name}:{e.size}:{toHex e.body}"
  let stop := match p.2 with
    | .eof => "eof" | .short => "short" | .octal => "octal" | .fuel => "fuel"
  s!"{",".intercalate (p.1.map one)};{stop}"

def b01 (b : Bool) : String := if b then "1" else "0"

/-- which of the hypotheses of `deb_sign_then_verify` hold for the op's input -/
def regTag (H1 H2 : Bytes → Bytes) (pgp : Bytes → Option Bytes) (f role : Bytes) : String :=
  let es := (entries f).1
  s!"tight={b01 (tightB f)} role={b01 (roleRegular role)} plain={b01 (es.all fun e => plainName e.name)} distinct={b01 (distinctNames es)} pre={b01 (match verify H1 H2 pgp f with
    | .ok rs => rs.all fun r => r.1 == role || r.2 == .ok ()
    | _ => false)} nsig={(sigsOf es).length}"

def handle : List String → String
  | ["sign", fhex, rolehex, signerhex, ctls, hs] =>
    match fromHex fhex, fromHex rolehex, fromHex signerhex, parseCtl ctls with
    | some f, some role, some signer, some ct =>
      match parseH f hs with
      | some ht =>
        let H1 := tabH1 ht
        let H2 := tabH2 ht
        showRes (sign H1 H2 (fun _ => mark1) (tabCtl ct) mt0 signer dateAt role f) fun o =>
          s!"ok {o.off} {o.old} hdr={toHex (o.blob.take 16 ++ (o.blob.drop 28).take 20)} canon={toHex (canonText (render H1 H2 o.msg))}"
      | none => "bad-op"
    | _, _, _, _ => "bad-op"
  | "verify" :: ghex :: hs :: ps :: _label =>
    match fromHex ghex with
    | none => "bad-op"
    | some g =>
      match parseH g hs, parseP g ps with
      | some ht, some pt => showVerify (verify (tabH1 ht) (tabH2 ht) (tabP pt) g)
      | _, _ => "bad-op"
  | ["roundtrip", fhex, rolehex, signerhex, ctls, hs, ps] =>
    match fromHex fhex, fromHex rolehex, fromHex signerhex, parseCtl ctls with
    | some f, some role, some signer, some ct =>
      match parseH f hs, parseP f ps with
      | some ht, some pt =>
        let H1 := tabH1 ht
        let H2 := tabH2 ht
        showRes (sign H1 H2 (fun _ => mark1) (tabCtl ct) mt0 signer dateAt role f) fun o =>
          match applyPatch f o with
          | .ok g =>
            let pgp (b : Bytes) : Option Bytes := if b = mark1 then some (canonText (render H1 H2 o.msg)) else tabP pt b
            s!"ok {toHex (g.take o.off)} {toHex (g.drop (o.off + o.blob.length))} V {if tightB f then showVerify (verify H1 H2 pgp g) else "any"} #{regTag H1 H2 (tabP pt) f role} off={o.off} old={o.old}"
          | .err e => s!"err apply-{e}"
          | _ => "bad-op"
      | _, _ => "bad-op"
    | _, _, _, _ => "bad-op"
  | ["resign", fhex, r1hex, r2hex, signerhex, ctls, hs, ps] =>
    match fromHex fhex, fromHex r1hex, fromHex r2hex, fromHex signerhex, parseCtl ctls with
    | some f, some r1, some r2, some signer, some ct =>
      match parseH f hs, parseP f ps with
      | some ht, some pt =>
        let H1 := tabH1 ht
        let H2 := tabH2 ht
        let round (x role mark : Bytes) : Res (Bytes × SignOut) :=
          match sign H1 H2 (fun _ => mark) (tabCtl ct) mt0 signer dateAt role x with
          | .ok o => match applyPatch x o with
            | .ok g => .ok (g, o)
            | .err e => .err s!"apply-{e}"
            | _ => .err "apply"
          | .err e => .err e
          | .panic p => .panic p
          | .diverge => .diverge
        showRes (round f r1 mark1) fun (g1, o1) =>
          -- not tight: what the second round makes of the result depends on the length of the first signature document
          if !tightB f then s!"any #{regTag H1 H2 (tabP pt) f r1}" else
          match round g1 r2 mark2 with
          | .ok (g2, o2) =>
            let pgp (b : Bytes) : Option Bytes :=
              if b = mark1 then some (canonText (render H1 H2 o1.msg))
              else if b = mark2 then some (canonText (render H1 H2 o2.msg)) else tabP pt b
            s!"ok {if tightB f then skeleton g2 else "any"} V {if tightB f then showVerify (verify H1 H2 pgp g2) else "any"} #{regTag H1 H2 (tabP pt) f r1} role2={b01 (roleRegular r2)} same={b01 (r1 == r2)}"
          | .err e => s!"err second-{e}"
          | .panic p => s!"panic second-{p}"
          | .diverge => "diverge"
      | _, _ => "bad-op"
    | _, _, _, _, _ => "bad-op"
  | "mutate" :: ghex :: hs :: ps :: _n :: muts =>
    match fromHex ghex with
    | none => "bad-op"
    | some g =>
      match parseH g hs, parseP g ps with
      | some ht, some pt =>
        let sigBodies := pt.map (·.1)
        let one (m : String) : String :=
          match m.splitOn ":" with
          | [p, b] =>
            match p.toNat?, b.toNat? with
            | some pos, some byte =>
              let g' := g.set pos (UInt8.ofNat byte)
              if g' = g then "same" else
              -- a change inside a signature member's body is the PGP layer's business
              if (sigsOf (entries g').1).any (fun s => !sigBodies.contains s.2) then "any" else
              match verify (tabH1 ht) (tabH2 ht) (tabP pt) g' with
              | .ok rs => if rs.all (fun r => r.2 == .ok ()) then (if rs.isEmpty then "unsigned" else "pass") else "fail"
              | .panic _ => "panic"
              | _ => "fail"
            | _, _ => "bad"
          | _ => "bad"
        s!"ok {" ".intercalate (muts.map one)}"
      | _, _ => "bad-op"
  | ["canon", mhex] =>
    match fromHex mhex with
    | some m => s!"ok {toHex (canonText m)}"
    | none => "bad-op"
  | ["clean", nhex] =>
    match fromHex nhex with
    | some n => s!"ok {toHex (pathClean n)}"
    | none => "bad-op"
  | _ => "bad-op"

end Relic.Driver.Deb

/-
  Re-synthesised nodes round-trip iff their headers are DER (C16, `resynth_nodes_need_der`).

  `parseMix` is the reader that insists on Go's strict (minimal definite) length form exactly at the headers
  that get re-synthesised (`prim`, `node`, `rawc`) and is BER-tolerant at the headers of raw-captured nodes
  (`raw`, emitted verbatim).  For an input read the BER way, `emit f = bs ↔ parseMix sh bs = .ok f`;
  for shapes without raw-captured nodes `parseMix` is `parse false`.
-/
import Relic.Proofs.DerTree
namespace Relic.Der
open Relic

/-- strict at re-synthesised headers, lax at raw-captured ones -/
def parseMix : Shape → Bytes → Res Forest
  | .done, bs => if bs.isEmpty then .ok .nil else .err "trailing"
  | .tail, _ => .ok .nil
  | .raw next, bs =>
    match untlvWith decLenLax bs with
    | .ok (_, _, rest) =>
      match parseMix next rest with
      | .ok f => .ok (.raw (bs.take (bs.length - rest.length)) f)
      | e => e
    | .err e => .err e
    | .panic s => .panic s
    | .diverge => .diverge
  | .rawc next, bs =>
    match untlvWith decLen bs with
    | .ok (t, _, rest) =>
      match parseMix next rest with
      | .ok f => .ok (.rawc t (bs.take (bs.length - rest.length)) f)
      | e => e
    | .err e => .err e
    | .panic s => .panic s
    | .diverge => .diverge
  | .prim next, bs =>
    match untlvWith decLen bs with
    | .ok (t, c, rest) =>
      match parseMix next rest with
      | .ok f => .ok (.prim t c f)
      | e => e
    | .err e => .err e
    | .panic s => .panic s
    | .diverge => .diverge
  | .node kids next, bs =>
    match untlvWith decLen bs with
    | .ok (t, c, rest) =>
      match parseMix kids c with
      | .ok k =>
        match parseMix next rest with
        | .ok f => .ok (.node t k f)
        | e => e
      | e => e
    | .err e => .err e
    | .panic s => .panic s
    | .diverge => .diverge

/-- no raw-captured node in the schema -/
def Shape.noRaw : Shape → Bool
  | .done => true
  | .tail => true
  | .raw _ => false
  | .rawc n => n.noRaw
  | .prim n => n.noRaw
  | .node k n => k.noRaw && n.noRaw

theorem parseMix_eq_strict (sh : Shape) (hr : sh.noRaw = true) (bs : Bytes) : parseMix sh bs = parse false sh bs := by
  induction sh generalizing bs with
  | done => simp [parseMix, parse]
  | tail => simp [parseMix, parse]
  | raw next _ => simp [Shape.noRaw] at hr
  | rawc next ih =>
    simp only [Shape.noRaw] at hr
    simp only [parseMix, parse, Bool.false_eq_true, if_false, ih hr]
    rcases untlvWith decLen bs with ⟨t, c, rest⟩ | _ | _ | _ <;> rfl
  | prim next ih =>
    simp only [Shape.noRaw] at hr
    simp only [parseMix, parse, Bool.false_eq_true, if_false, ih hr]
    rcases untlvWith decLen bs with ⟨t, c, rest⟩ | _ | _ | _ <;> rfl
  | node kids next ihk ihn =>
    simp only [Shape.noRaw, Bool.and_eq_true] at hr
    simp only [parseMix, parse, Bool.false_eq_true, if_false, ihk hr.1, ihn hr.2]
    rcases untlvWith decLen bs with ⟨t, c, rest⟩ | _ | _ | _ <;> rfl

/-- element level: if the BER reader takes `(t, c, rest)` off the front of `bs` and `bs` *is* a freshly written
    element `tlv t c'` followed by `x`, then the strict reader takes the same element, and `c' = c`, `x = rest`:
    the header in `bs` was the minimal one. -/
theorem lax_of_fresh (bs : Bytes) (t : UInt8) (c rest c' x : Bytes) (hb : bs.length < 2 ^ 31)
    (hl : untlvWith decLenLax bs = .ok (t, c, rest)) (e : tlv t c' ++ x = bs) :
    untlv bs = .ok (t, c, rest) ∧ c' = c ∧ x = rest := by
  obtain ⟨_, _, ht⟩ := untlvWith_head _ _ _ _ _ hl
  have hc' : c'.length < 2 ^ 31 := by
    have : (tlv t c' ++ x).length = bs.length := by rw [e]
    simp only [List.length_append, tlv_length] at this
    omega
  have hs := untlv_tlv t c' x ht hc'
  rw [e] at hs
  have h2 := untlvLax_of_untlv _ _ hs
  rw [untlvLax, hl] at h2
  simp only [Res.ok.injEq, Prod.mk.injEq] at h2
  obtain ⟨_, rfl, rfl⟩ := h2
  exact ⟨hs, rfl, rfl⟩

theorem lax_parts (bs : Bytes) (t : UInt8) (c rest : Bytes) (h : untlvWith decLenLax bs = .ok (t, c, rest)) :
    ∃ hd, bs = hd ++ c ++ rest ∧ bs.take (bs.length - rest.length) = hd ++ c ∧ hd ≠ [] := by
  obtain ⟨hd, e1, e2⟩ := untlvWith_parts decLenLax (fun b n r h => decLenLax_suffix b n r h) bs t c rest h
  refine ⟨hd, e1, e2, ?_⟩
  rintro rfl
  obtain ⟨tl, e, _⟩ := untlvWith_head _ _ _ _ _ h
  -- the header holds at least the identifier octet: the content starts after it
  cases bs with
  | nil => cases e
  | cons b bs' =>
    simp only [untlvWith] at h
    split at h
    · cases h
    · split at h
      · rename_i n r hd'
        split at h
        · cases h
        · simp only [Res.ok.injEq, Prod.mk.injEq] at h
          obtain ⟨_, rfl, rfl⟩ := h
          have : (b :: bs').length = ([] ++ List.take n r ++ List.drop n r).length := by rw [← e1]
          obtain ⟨h0, e0⟩ := decLenLax_suffix _ _ _ hd'
          have hlen : bs'.length = h0.length + r.length := by rw [e0]; simp
          simp only [List.nil_append, List.take_append_drop, List.length_cons] at this
          omega
      all_goals cases h

theorem rest_lt (bs : Bytes) (t : UInt8) (c rest : Bytes) (h : untlvWith decLenLax bs = .ok (t, c, rest)) :
    c.length < bs.length ∧ rest.length < bs.length := by
  obtain ⟨hd, e, _, hne⟩ := lax_parts bs t c rest h
  have : 0 < hd.length := List.length_pos_iff.mpr hne
  rw [e]; simp only [List.length_append]; omega

/-- **the round trip of re-synthesised nodes needs DER, and only that.**  For an input `bs` (shorter than 2^31
    bytes, the limit of Go's parser) read the BER way into `f` under a schema without tolerated trailing
    elements: the re-encoding reproduces `bs` iff the reader that is strict exactly at the re-synthesised
    headers accepts `bs` (with the same tree). -/
theorem resynth_iff_mix (sh : Shape) (bs : Bytes) (f : Forest) (hs : sh.noTail = true) (hb : bs.length < 2 ^ 31)
    (hl : parse true sh bs = .ok f) : emit f = bs ↔ parseMix sh bs = .ok f := by
  induction sh generalizing bs f with
  | done =>
    simp only [parse] at hl
    split at hl
    · rename_i he
      simp only [Res.ok.injEq] at hl; subst hl
      simp at he; simp [emit, he, parseMix]
    · cases hl
  | tail => simp [Shape.noTail] at hs
  | raw next ih =>
    simp only [parse, if_true] at hl
    cases hu : untlvWith decLenLax bs with
    | ok p =>
      obtain ⟨t, c, rest⟩ := p
      rw [hu] at hl; simp only at hl
      cases hp : parse true next rest with
      | ok f' =>
        rw [hp] at hl; simp only [Res.ok.injEq] at hl; subst hl
        obtain ⟨hd, e1, e2, _⟩ := lax_parts bs t c rest hu
        have hr := (rest_lt bs t c rest hu).2
        have IH := ih rest f' (by simpa [Shape.noTail] using hs) (by omega) hp
        simp only [emit, parseMix, hu, e2]
        constructor
        · intro e
          have : emit f' = rest := by
            have e' : hd ++ c ++ emit f' = hd ++ c ++ rest := by rw [e, ← e1]
            exact List.append_cancel_left e'
          rw [IH.mp this]
        · intro e
          cases hm : parseMix next rest with
          | ok f'' =>
            rw [hm] at e; simp only [Res.ok.injEq, Forest.raw.injEq, true_and] at e; subst e
            rw [IH.mpr hm, ← e1]
          | err x => rw [hm] at e; cases e
          | panic x => rw [hm] at e; cases e
          | diverge => rw [hm] at e; cases e
      | err x => rw [hp] at hl; cases hl
      | panic x => rw [hp] at hl; cases hl
      | diverge => rw [hp] at hl; cases hl
    | err x => rw [hu] at hl; cases hl
    | panic x => rw [hu] at hl; cases hl
    | diverge => rw [hu] at hl; cases hl
  | rawc next ih =>
    simp only [parse, if_true] at hl
    cases hu : untlvWith decLenLax bs with
    | ok p =>
      obtain ⟨t, c, rest⟩ := p
      rw [hu] at hl; simp only at hl
      cases hp : parse true next rest with
      | ok f' =>
        rw [hp] at hl; simp only [Res.ok.injEq] at hl; subst hl
        obtain ⟨hd, e1, e2, hne⟩ := lax_parts bs t c rest hu
        have hr := (rest_lt bs t c rest hu).2
        have IH := ih rest f' (by simpa [Shape.noTail] using hs) (by omega) hp
        obtain ⟨tl, ebs, ht⟩ := untlvWith_head _ _ _ _ _ hu
        simp only [emit, e2]
        constructor
        · intro e
          -- the emitted element is fresh: the strict reader accepts it and its content is what was stripped
          obtain ⟨hst, ec, ex⟩ := lax_of_fresh bs t c rest _ _ hb hu e
          simp only [parseMix, untlv_def, hst, e2]
          rw [IH.mp ex]
        · intro e
          simp only [parseMix, untlv_def] at e
          cases hst : untlv bs with
          | ok q =>
            obtain ⟨t', c', rest'⟩ := q
            have h2 := untlvLax_of_untlv _ _ hst
            rw [untlvLax, hu] at h2
            simp only [Res.ok.injEq, Prod.mk.injEq] at h2
            obtain ⟨rfl, rfl, rfl⟩ := h2
            rw [hst] at e; simp only at e
            cases hm : parseMix next rest with
            | ok f'' =>
              rw [hm] at e; simp only [Res.ok.injEq, Forest.rawc.injEq, true_and] at e
              obtain ⟨_, rfl⟩ := e
              obtain ⟨e3, ht', hc'⟩ := untlv_inv _ _ _ _ hst
              rw [← e2, untlv_take _ _ _ _ hst, strip_tlv t c ht' hc', IH.mpr hm]
              exact e3.symm
            | err x => rw [hm] at e; cases e
            | panic x => rw [hm] at e; cases e
            | diverge => rw [hm] at e; cases e
          | err x => rw [hst] at e; cases e
          | panic x => rw [hst] at e; cases e
          | diverge => rw [hst] at e; cases e
      | err x => rw [hp] at hl; cases hl
      | panic x => rw [hp] at hl; cases hl
      | diverge => rw [hp] at hl; cases hl
    | err x => rw [hu] at hl; cases hl
    | panic x => rw [hu] at hl; cases hl
    | diverge => rw [hu] at hl; cases hl
  | prim next ih =>
    simp only [parse, if_true] at hl
    cases hu : untlvWith decLenLax bs with
    | ok p =>
      obtain ⟨t, c, rest⟩ := p
      rw [hu] at hl; simp only at hl
      cases hp : parse true next rest with
      | ok f' =>
        rw [hp] at hl; simp only [Res.ok.injEq] at hl; subst hl
        have hr := (rest_lt bs t c rest hu).2
        have IH := ih rest f' (by simpa [Shape.noTail] using hs) (by omega) hp
        simp only [emit]
        constructor
        · intro e
          obtain ⟨hst, _, ex⟩ := lax_of_fresh bs t c rest _ _ hb hu e
          simp only [parseMix, untlv_def, hst]
          rw [IH.mp ex]
        · intro e
          simp only [parseMix, untlv_def] at e
          cases hst : untlv bs with
          | ok q =>
            obtain ⟨t', c', rest'⟩ := q
            have h2 := untlvLax_of_untlv _ _ hst
            rw [untlvLax, hu] at h2
            simp only [Res.ok.injEq, Prod.mk.injEq] at h2
            obtain ⟨rfl, rfl, rfl⟩ := h2
            rw [hst] at e; simp only at e
            cases hm : parseMix next rest with
            | ok f'' =>
              rw [hm] at e; simp only [Res.ok.injEq, Forest.prim.injEq, true_and] at e; subst e
              obtain ⟨e3, _, _⟩ := untlv_inv _ _ _ _ hst
              rw [IH.mpr hm]; exact e3.symm
            | err x => rw [hm] at e; cases e
            | panic x => rw [hm] at e; cases e
            | diverge => rw [hm] at e; cases e
          | err x => rw [hst] at e; cases e
          | panic x => rw [hst] at e; cases e
          | diverge => rw [hst] at e; cases e
      | err x => rw [hp] at hl; cases hl
      | panic x => rw [hp] at hl; cases hl
      | diverge => rw [hp] at hl; cases hl
    | err x => rw [hu] at hl; cases hl
    | panic x => rw [hu] at hl; cases hl
    | diverge => rw [hu] at hl; cases hl
  | node kids next ihk ihn =>
    simp only [Shape.noTail, Bool.and_eq_true] at hs
    simp only [parse, if_true] at hl
    cases hu : untlvWith decLenLax bs with
    | ok p =>
      obtain ⟨t, c, rest⟩ := p
      rw [hu] at hl; simp only at hl
      cases hk : parse true kids c with
      | ok k =>
        rw [hk] at hl; simp only at hl
        cases hp : parse true next rest with
        | ok f' =>
          rw [hp] at hl; simp only [Res.ok.injEq] at hl; subst hl
          have hr := rest_lt bs t c rest hu
          have IHk := ihk c k hs.1 (by omega) hk
          have IHn := ihn rest f' hs.2 (by omega) hp
          simp only [emit]
          constructor
          · intro e
            obtain ⟨hst, ec, ex⟩ := lax_of_fresh bs t c rest _ _ hb hu e
            simp only [parseMix, untlv_def, hst]
            rw [IHk.mp ec, IHn.mp ex]
          · intro e
            simp only [parseMix, untlv_def] at e
            cases hst : untlv bs with
            | ok q =>
              obtain ⟨t', c', rest'⟩ := q
              have h2 := untlvLax_of_untlv _ _ hst
              rw [untlvLax, hu] at h2
              simp only [Res.ok.injEq, Prod.mk.injEq] at h2
              obtain ⟨rfl, rfl, rfl⟩ := h2
              rw [hst] at e; simp only at e
              cases hmk : parseMix kids c with
              | ok k'' =>
                rw [hmk] at e; simp only at e
                cases hm : parseMix next rest with
                | ok f'' =>
                  rw [hm] at e; simp only [Res.ok.injEq, Forest.node.injEq, true_and] at e
                  obtain ⟨rfl, rfl⟩ := e
                  obtain ⟨e3, _, _⟩ := untlv_inv _ _ _ _ hst
                  rw [IHk.mpr hmk, IHn.mpr hm]; exact e3.symm
                | err x => rw [hm] at e; cases e
                | panic x => rw [hm] at e; cases e
                | diverge => rw [hm] at e; cases e
              | err x => rw [hmk] at e; cases e
              | panic x => rw [hmk] at e; cases e
              | diverge => rw [hmk] at e; cases e
            | err x => rw [hst] at e; cases e
            | panic x => rw [hst] at e; cases e
            | diverge => rw [hst] at e; cases e
        | err x => rw [hp] at hl; cases hl
        | panic x => rw [hp] at hl; cases hl
        | diverge => rw [hp] at hl; cases hl
      | err x => rw [hk] at hl; cases hl
      | panic x => rw [hk] at hl; cases hl
      | diverge => rw [hk] at hl; cases hl
    | err x => rw [hu] at hl; cases hl
    | panic x => rw [hu] at hl; cases hl
    | diverge => rw [hu] at hl; cases hl

end Relic.Der

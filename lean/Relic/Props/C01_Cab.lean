/-
  C01 — Every signature relic produces verifies.   CAB part (model `Relic.Model.Cab`): the chain
  digest → patch → apply → (verifier) locate + re-digest.  The cryptographic step is outside the model.
-/
import Relic.Proofs.CabSign
import Relic.Props.C08_Cab
namespace Relic.Props.C01
open Relic Relic.Cab

/-- **cab_sign_then_verify.** For every cabinet `cabfile.Digest` accepts (regular layout, < 4 GiB − 24) and every
    non-empty signature blob: the file `Sign → Apply` writes (through the real patch path) is `signedBytes d sig`; on it
    the verifier's `Parse` finds exactly the embedded blob (zero-padded to a multiple of 8 as `MakePatch` stores it),
    and the verifier's re-digest succeeds and hashes exactly the stream that was signed – so for every hash function
    the imprint inside the signature equals the recomputed one. -/
theorem cab_sign_then_verify (H : Bytes → Bytes) (f : Bytes) (d : Digest) (sig : Bytes) (e : DigestCab f = .ok d)
    (R : Regular d) (W : NoWrap d) (hne : sig ≠ []) (hs : (padded sig).length < 2 ^ 32) (M : Nat) :
    Binpatch.applyRewrite f (Binpatch.build M (makePatch d sig)) = .ok (signedBytes d sig) ∧
    locate (signedBytes d sig) = .ok (padded sig) ∧
    ∃ d', DigestCab (signedBytes d sig) = .ok d' ∧ H d'.hashed = H d.hashed := by
  have e' := DigestCab_signed f d sig (DigestCab_spec f d e) R W hs
  refine ⟨C08.cab_signed_file f d sig e R W M, ?_, resigned d sig, e', rfl⟩
  unfold locate
  rw [e']
  have : (resigned d sig).signature = padded sig := rfl
  simp only [this]
  have : (padded sig).isEmpty = false := by
    cases sig with
    | nil => exact absurd rfl hne
    | cons x xs => rfl
  rw [this]
  rfl

/-- **cab_unsigned_not_located.** A cabinet without signature header is reported as unsigned by the locator. -/
theorem cab_unsigned_not_located (f : Bytes) (d : Digest) (e : DigestCab f = .ok d) (h : d.oldSigSize = 0) :
    locate f = .err "notsigned" := by
  have H := DigestCab_spec f d e
  unfold locate
  rw [e]
  have : d.signature = [] := by
    rw [H.sig]
    have := H.stop
    rw [h, Nat.add_zero] at this
    rw [this, PE.seg_self]
  simp [this]

set_option maxRecDepth 100000 in
example : C08.cabOk C08.minimalCab = true ∧ locate C08.minimalCab = .err "notsigned" := by decide

end Relic.Props.C01

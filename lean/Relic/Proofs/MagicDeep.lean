/-
  Relic.Proofs.MagicDeep — `Detect` on an `MZ` file whose 16-bit `e_lfanew` is 65535 (the largest possible), computed
  structurally (the file is too long for `decide`): the witnesses that the 65539-byte bound is attained.
-/
import Relic.Props.C01_Magic
namespace Relic.Magic
open Relic Relic.Props.C01

/-- DOS header: `MZ`, zeros, `e_lfanew` (low half) = 0xFFFF -/
def deepHead : Bytes := [77, 90] ++ List.replicate 58 0 ++ [0xff, 0xff]

/-- header, zeros up to offset 65535, then four bytes -/
def deepFile (k : Nat) (tail : Bytes) : Bytes := deepHead ++ (List.replicate k 0 ++ tail)

theorem deepHead_length : deepHead.length = 62 := by decide

theorem deepFile_length (k : Nat) (hk : 62 + k = 65535) (tail : Bytes) : (deepFile k tail).length = 65535 + tail.length := by
  simp only [deepFile, List.length_append, deepHead_length, List.length_replicate]; omega

/-- the first 262 bytes do not depend on the tail -/
theorem deepFile_take262 (k : Nat) (hk : 62 + k = 65535) (tail : Bytes) : (deepFile k tail).take 262 = deepHead ++ List.replicate 200 0 := by
  unfold deepFile
  rw [List.take_append, deepHead_length]
  have h1 : List.take 262 deepHead = deepHead := List.take_of_length_le (by rw [deepHead_length]; decide)
  have h2 : List.take (262 - 62) (List.replicate k (0 : UInt8) ++ tail) = List.replicate 200 0 := by
    rw [List.take_append, List.length_replicate, List.take_replicate]
    have e1 : min (262 - 62) k = 200 := by omega
    have e2 : 262 - 62 - k = 0 := by omega
    rw [e1, e2]; simp
  rw [h1, h2]

theorem deepFile_take62 (k : Nat) (hk : 62 + k = 65535) (tail : Bytes) : (deepFile k tail).take 62 = deepHead := by
  unfold deepFile
  rw [List.take_append, deepHead_length]
  have : List.take 62 deepHead = deepHead := List.take_of_length_le (by rw [deepHead_length]; decide)
  rw [this]; simp

theorem deepFile_drop (k : Nat) (hk : 62 + k = 65535) (tail : Bytes) : (deepFile k tail).drop 65535 = tail := by
  unfold deepFile
  rw [← List.append_assoc]
  have hl : (deepHead ++ List.replicate k (0 : UInt8)).length = 65535 := by
    simp only [List.length_append, deepHead_length, List.length_replicate]; exact hk
  rw [List.drop_append, hl]
  have : List.drop 65535 (deepHead ++ List.replicate k (0 : UInt8)) = [] := List.drop_of_length_le (by rw [hl]; decide)
  rw [this]; simp

set_option maxRecDepth 100000 in
/-- everything the rules other than the probe look at -/
theorem deepFile_window (k : Nat) (hk : 62 + k = 65535) (tail : Bytes) :
    hasCtl (deepFile k tail) = false ∧ hasSignedData (deepFile k tail) = false ∧ isTar (deepFile k tail) = false ∧
    isMZ (deepFile k tail) = true := by
  have h : (deepFile k tail).take 262 = (deepHead ++ List.replicate 200 0).take 262 := by
    rw [deepFile_take262 k hk]
    exact (List.take_of_length_le (by simp only [List.length_append, deepHead_length, List.length_replicate]; decide)).symm
  refine ⟨?_, ?_, ?_, ?_⟩
  · rw [show hasCtl (deepFile k tail) = hasCtl (deepHead ++ List.replicate 200 0) from containsIn_congr h _ _ (by decide)]; decide
  · rw [show hasSignedData (deepFile k tail) = hasSignedData (deepHead ++ List.replicate 200 0) from containsIn_congr h _ _ (by decide)]; decide
  · rw [show isTar (deepFile k tail) = isTar (deepHead ++ List.replicate 200 0) from atPos_congr h _ _ (by decide)]; decide
  · rw [show isMZ (deepFile k tail) = isMZ (deepHead ++ List.replicate 200 0) from atPos_congr h _ _ (by decide)]; decide

set_option maxRecDepth 100000 in
theorem deepFile_reloc (k : Nat) (hk : 62 + k = 65535) (tail : Bytes) : reloc (deepFile k tail) = 65535 := by
  unfold reloc peekAny
  have : min 62 bufSize = 62 := by decide
  rw [this, deepFile_take62 k hk]
  decide

theorem deepFile_probe (k : Nat) (hk : 62 + k = 65535) (tail : Bytes) (h4 : tail.length = 4) : mzProbe (deepFile k tail) = (tail == pPE) := by
  have hiff := mzProbe_iff (deepFile k tail)
  rw [deepFile_reloc k hk, deepFile_length k hk, deepFile_drop k hk, h4] at hiff
  have ht : tail.take 4 = tail := List.take_of_length_le (by omega)
  rw [ht] at hiff
  cases hp : mzProbe (deepFile k tail)
  · cases he : (tail == pPE)
    · rfl
    · have : tail = pPE := by simpa using he
      have := hiff.mpr ⟨by omega, by decide, by omega, this⟩
      rw [hp] at this; cases this
  · have := (hiff.mp hp).2.2.2
    simp [this]

theorem deepFile_detect (k : Nat) (hk : 62 + k = 65535) (tail : Bytes) (h4 : tail.length = 4) :
    detect (deepFile k tail) = if tail == pPE then .pecoff else .unknown := by
  obtain ⟨h1, h2, h3, hmz⟩ := deepFile_window k hk tail
  cases he : (tail == pPE)
  · simp only [Bool.false_eq_true, if_false]
    rw [detect_unknown_iff]
    refine ⟨atPos0_excl hmz (by decide), atPos0_excl hmz (by decide), atPos0_excl hmz (by decide), h1, h2, Or.inr ⟨h3, Or.inl ⟨hmz, ?_⟩⟩⟩
    rw [deepFile_probe k hk tail h4, he]
  · simp only [if_true]
    rw [detect_pecoff_iff]
    exact ⟨h1, h2, h3, hmz, by rw [deepFile_probe k hk tail h4, he]⟩

theorem deepFile_inspected (k : Nat) (hk : 62 + k = 65535) (tail : Bytes) : inspected (deepFile k tail) = 65539 := by
  have hmz := (deepFile_window k hk tail).2.2.2
  have hl : 0x3e ≤ (deepFile k tail).length := by rw [deepFile_length k hk]; omega
  have hr := deepFile_reloc k hk tail
  unfold reloc peekAny at hr
  have : min 62 bufSize = 62 := by decide
  rw [this] at hr
  unfold inspected
  simp only [hmz, hl, and_self, if_true, hr]
  decide

/-- two such files that differ only in their last byte agree on everything before it -/
theorem deepFile_take_init (k : Nat) (hk : 62 + k = 65535) (a : Bytes) (x y : UInt8) (ha : a.length = 3) :
    (deepFile k (a ++ [x])).take 65538 = (deepFile k (a ++ [y])).take 65538 := by
  have e : ∀ z : UInt8, deepFile k (a ++ [z]) = deepFile k a ++ [z] := by
    intro z; simp only [deepFile, List.append_assoc]
  have hl : (deepFile k a).length = 65538 := by rw [deepFile_length k hk, ha]
  rw [e x, e y, List.take_left' hl, List.take_left' hl]

end Relic.Magic

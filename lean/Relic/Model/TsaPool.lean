/-
  Relic.Model.TsaPool — what surrounds relic's time-stamping client (properties C10, C14, C16):

    internal/signinit/signinit.go    Init: (Timestamp || Timestamper != "") && !no-timestamp, GetTimestamper
    internal/signinit/timestamper.go newTimestamper (no `timestamp:` section = error), namedTimestamper (copy of the request, Name set)
    signers/options.go               FlagValues.GetBool (strconv.ParseBool, errors ignored)
    lib/pkcs9/tsclient/tsclient.go   New (client, then limiter, then cache: the cache is outermost), Timestamp (choice of the URL list)
    lib/pkcs9/ratelimit/ratelimit.go New (rate 0 = no limiter, burst < 1 = 1), limiter.Timestamp
    golang.org/x/time/rate           Limiter.WaitN / reserveN / advance / Reservation.CancelAt (n = 1)
    lib/pkcs9/timestampcache         cacheKey, Timestamp; bradfitz/gomemcache legalKey
    lib/pkcs9/pkcs7.go               TimestampAndMarshal (CMS attach sites, both attribute OIDs)
    signers/vsix/oxmlsig.go          makeSignature (pkcs9.Verify before the token is embedded: fix a163120; `…Orig` = before), checkTimestamp
    signers/appmanifest, lib/appmanifest   sign (legacy / RFC 3161), AddTimestamp -> VerifyTimestamp
    signers/cosign/signer.go         attachTimestamp (pkcs9.Verify before the annotation is written)
    signers/apk, pgp, deb, rpm       cert.Timestamper is never consulted

  Built on Relic.Model.Tsa (requests, tokens, the failover loop, token verification, chain judgement).
  Time is counted in ticks (the harness uses milliseconds); one limiter token is worth `period` ticks, so the
  bucket level is kept in ticks and the float arithmetic of x/time/rate becomes integer arithmetic (its rounding
  is not modelled).  Digests are parameters: `H` on signature values as in Model.Tsa, `D` = the 64 hex characters of
  SHA-256 that go into the memcache key.  Core Lean only: linked into the native driver.
-/
import Relic.Model.Tsa
namespace Relic.TsaX
open Relic Relic.Tsa

/-! ## 1. Which authorities: key configuration, request flag, `timestamp:` section -/

abbrev Url := Nat            -- a configured URL (the harness numbers them over all lists)
abbrev Name := List Char     -- pool name; `[]` = Go's empty string

/-- `strconv.ParseBool`, error ignored (`b, _ :=`): anything else is false -/
def parseBool (s : String) : Bool :=
  s = "1" || s = "t" || s = "T" || s = "TRUE" || s = "true" || s = "True"

/-- `config.TimestampConfig` as far as the selection reads it -/
structure TsConf where
  urls : List Url
  msUrls : List Url
  named : List (Name × List Url)     -- `NamedURLs map[string][]string` (keys distinct)
  deriving Repr, DecidableEq

/-- `conf.NamedURLs[name]`: a missing key reads as nil -/
def lookupNamed : List (Name × List Url) → Name → List Url
  | [], _ => []
  | (n, us) :: rest, name => if n = name then us else lookupNamed rest name

/-- the `switch` at the top of `tsClient.Timestamp` -/
def selectPool (c : TsConf) (name : Name) (legacy : Bool) : Res (List Url) :=
  if name ≠ [] then
    match lookupNamed c.named name with
    | [] => .err "empty-named"
    | u :: us => .ok (u :: us)
  else if legacy then
    match c.msUrls with
    | [] => .err "empty-ms"
    | u :: us => .ok (u :: us)
  else
    match c.urls with
    | [] => .err "empty-urls"
    | u :: us => .ok (u :: us)

/-- key configuration: `timestamp: bool`, `timestamper: name` -/
structure KeyConf where
  timestamp : Bool
  timestamper : Name
  deriving Repr, DecidableEq

/-- `(kconf.Timestamp || kconf.Timestamper != "") && !flags.GetBool("no-timestamp")`; `flag` is the query value,
`""` when absent (the flag's default is "false") -/
def wanted (k : KeyConf) (flag : String) : Bool :=
  (k.timestamp || k.timestamper ≠ []) && !parseBool flag

/-- what `signinit.Init` leaves in `cert.Timestamper` -/
inductive Plan where
  | off                                   -- nil: the signer modules do not time-stamp
  | stamp (conf : TsConf) (name : Name)   -- namedTimestamper{client built from conf, name}
  deriving Repr, DecidableEq

/-- `signinit.Init`'s time-stamping part; `sect = none`: no `timestamp:` section in the configuration -/
def initPlan (sect : Option TsConf) (k : KeyConf) (flag : String) : Res Plan :=
  if wanted k flag then
    match sect with
    | none => .err "no-timestamp-config"
    | some c => .ok (.stamp c k.timestamper)
  else .ok .off

/-- renumber an outcome of the failover loop (positions in the chosen list) to configured URLs -/
def globalise (us : List Url) (o : Outcome) : Outcome :=
  { res := match o.res with
      | .ok (.url i, t) => .ok (.url (us.getD i 0), t)
      | r => r,
    contacted := o.contacted.map fun i => us.getD i 0,
    errs := o.errs }

/-- `tsClient.Timestamp`: choose the list, then the failover loop of Model.Tsa over it.  `world u` is what the
authority at URL `u` does with this request. -/
def clientTs (c : Cfg) (conf : TsConf) (name : Name) (r : Req) (pre : Bool) (world : Url → Wire) : Outcome :=
  match selectPool conf name r.legacy with
  | .ok us => globalise us (timestamp c r pre (us.map world))
  | .err e => ⟨.err e, [], []⟩
  | .panic s => ⟨.panic s, [], []⟩
  | .diverge => ⟨.diverge, [], []⟩

/-! ## 2. The rate limiter -/

/-- `rate.Limiter` for n = 1.  `period = some p`: one token per `p` ticks (limit > 0); `none`: limit ≤ 0, the bucket
never refills.  `level` is the bucket content in ticks (tokens × unit, may be negative: reservations ahead). -/
structure Lim where
  period : Option Nat
  burst : Nat
  level : Int
  last : Nat
  deriving Repr, DecidableEq

def Lim.unit (l : Lim) : Nat := l.period.getD 1

/-- `ratelimit.New`: rate 0 = no limiter; burst < 1 becomes 1; `rate.NewLimiter` starts with a full bucket -/
def mkLim (rateZero : Bool) (period : Option Nat) (burst : Int) (now : Nat) : Option Lim :=
  if rateZero then none
  else
    let b := if burst < 1 then 1 else burst.toNat
    some ⟨period, b, (b * period.getD 1 : Nat), now⟩

/-- the caller's context -/
structure Ctx where
  cancelAt : Option Nat     -- time at which the caller cancels (≤ now: already cancelled)
  deadline : Option Nat
  deriving Repr, DecidableEq

def Ctx.background : Ctx := ⟨none, none⟩

/-- `ctx.Err()` at time `t` -/
def Ctx.errAt (c : Ctx) (t : Nat) : Option String :=
  match c.cancelAt with
  | some k => if k ≤ t then some "canceled" else
      match c.deadline with
      | some d => if d ≤ t then some "deadline" else none
      | none => none
  | none =>
      match c.deadline with
      | some d => if d ≤ t then some "deadline" else none
      | none => none

/-- `Limiter.advance`: bucket content at `now` -/
def Lim.advance (l : Lim) (now : Nat) : Int :=
  let gained : Int := if l.period.isSome then ((now - l.last : Nat) : Int) else 0
  let cap : Int := (l.burst * l.unit : Nat)
  if l.level + gained > cap then cap else l.level + gained

inductive Wait where
  | proceed (t : Nat)                  -- `Wait` returned nil at this time
  | refused (e : String) (t : Nat)     -- `Wait` returned an error at this time; the inner time-stamper is not called
  | forever                            -- limit ≤ 0, bucket empty, nobody cancels
  deriving Repr, DecidableEq

/-- bucket content after taking one token at `now` (negative: the token is owed) -/
def Lim.after (l : Lim) (now : Nat) : Int := l.advance now - l.unit

/-- `waitDuration` of the reservation; `none` = InfDuration (limit ≤ 0 and no token left) -/
def Lim.waitDur (l : Lim) (now : Nat) : Option Nat :=
  if l.after now < 0 then (if l.period.isSome then some (-(l.after now)).toNat else none) else some 0

/-- `waitDuration <= maxFutureReserve` where maxFutureReserve = deadline - now (InfDuration without a deadline) -/
def withinDeadline (deadline : Option Nat) (now : Nat) (w : Option Nat) : Bool :=
  match deadline, w with
  | none, _ => true
  | some _, none => false
  | some d, some k => decide (k ≤ d - now)

/-- state after a successful reservation -/
def Lim.reserved (l : Lim) (now : Nat) : Lim := { l with level := l.after now, last := now }

/-- `r.Cancel()` at time `c` when nobody reserved in between: the token goes back (capped at the burst) -/
def Lim.cancelled (l : Lim) (now c : Nat) : Lim :=
  let back : Int := (l.reserved now).advance c + l.unit
  let cap : Int := (l.burst * l.unit : Nat)
  { l.reserved now with level := if back > cap then cap else back, last := c }

/-- `Limiter.WaitN(ctx, 1)` called at `now` -/
def Lim.wait (l : Lim) (now : Nat) (ctx : Ctx) : Wait × Lim :=
  match ctx.errAt now with
  | some e => (.refused e now, l)                       -- "Check if ctx is already cancelled"
  | none =>
    if withinDeadline ctx.deadline now (l.waitDur now) = false then
      (.refused "rate-deadline" now, l)                 -- reservation not ok: state untouched
    else
      match l.waitDur now with
      | some 0 => (.proceed now, l.reserved now)
      | some k =>
        match ctx.cancelAt with
        | some c => if c < now + k then (.refused "canceled" c, l.cancelled now c) else (.proceed (now + k), l.reserved now)
        | none => (.proceed (now + k), l.reserved now)
      | none =>
        match ctx.cancelAt with
        | some c => (.refused "canceled" c, l.cancelled now c)
        | none => (.forever, l.reserved now)

structure Timed where
  outcome : Outcome
  time : Nat               -- when the call returned (meaningless for a divergent outcome)
  deriving Repr, DecidableEq

/-- `limiter.Timestamp`: wait, then hand the request to the wrapped time-stamper, whose behaviour when entered at
time `t` is `inner t` -/
def limited (l : Lim) (now : Nat) (ctx : Ctx) (inner : Nat → Outcome) : Timed × Lim :=
  match l.wait now ctx with
  | (.proceed t, l') => (⟨inner t, t⟩, l')
  | (.refused e t, l') => (⟨⟨.err e, [], []⟩, t⟩, l')
  | (.forever, l') => (⟨⟨.diverge, [], []⟩, now⟩, l')

/-- with or without a limiter -/
def limitedOpt (l : Option Lim) (now : Nat) (ctx : Ctx) (inner : Nat → Outcome) : Timed × Option Lim :=
  match l with
  | none => (⟨inner now, now⟩, none)
  | some l => let r := limited l now ctx inner; (r.1, some r.2)

/-! ## 3. The cache -/

/-- the request as the middleware sees it -/
structure XReq where
  legacy : Bool
  name : Name
  hash : Nat              -- `crypto.Hash` as an integer (`%d`)
  ed : Nat                -- the signature value (abstract, as in Model.Tsa)
  deriving Repr, DecidableEq

def pfxRfc : List Char := ['p', 'k', 'c', 's', '9']
def pfxMs : List Char := ['m', 's', 'f', 't']

/-- `cacheKey`: `fmt.Sprintf("%s-%d-%x", prefix + req.Name, req.Hash, sha256(req.EncryptedDigest))` -/
def cacheKey (D : Nat → List Char) (r : XReq) : List Char :=
  (if r.legacy then pfxMs else pfxRfc) ++ r.name ++ '-' :: (Nat.toDigits 10 r.hash ++ '-' :: D r.ed)

/-- gomemcache `legalKey` (names are ASCII: one character = one byte) -/
def legalKey (k : List Char) : Bool :=
  decide (k.length ≤ 250) && k.all fun c => decide (c.toNat > 32) && decide (c.toNat ≠ 127)

def expirySeconds : Nat := 604800     -- memcacheExpiry = 7 days

abbrev StoreX := List (List Char × CacheVal)

def lookupX : StoreX → List Char → Option CacheVal
  | [], _ => none
  | (k', v) :: rest, k => if k' = k then some v else lookupX rest k

/-- `timestampCache.Timestamp`.  `up = false`: memcached unreachable.  An illegal key is refused by the client
library before anything is sent: Get and Set both fail, which the cache only logs. -/
def cachedX (D : Nat → List Char) (up : Bool) (st : StoreX) (r : XReq) (inner : Outcome) : Outcome × StoreX :=
  let key := cacheKey D r
  let usable := up && legalKey key
  match (if usable then lookupX st key else none) with
  | some (.tok t) => (⟨.ok (.cache, t), [], []⟩, st)        -- parsed: returned as found
  | _ =>                                                     -- miss, or an entry that does not parse
    match inner.res with
    | .ok (_, t) => (inner, if usable then (key, .tok t) :: st else st)
    | _ => (inner, st)

/-! ## 4. The whole time-stamper: namedTimestamper → cache → limiter → client -/

structure Shared where
  store : StoreX
  lim : Option Lim
  deriving Repr, DecidableEq

/-- one call of `cert.Timestamper.Timestamp` as built by `signinit.Init` + `tsclient.New`.  `memcache`: servers
configured; `up`: they answer. -/
def stamperCall (D : Nat → List Char) (H : Nat → Nat) (c : Cfg) (conf : TsConf) (name : Name) (memcache up : Bool)
    (sh : Shared) (now : Nat) (ctx : Ctx) (world : Url → Wire) (legacy : Bool) (hash nonce ed : Nat) : Timed × Shared :=
  let xr : XReq := ⟨legacy, name, hash, ed⟩
  let r : Req := ⟨legacy, nonce, if legacy then ed else H ed⟩
  let client (t : Nat) : Outcome := clientTs c conf name r (ctx.errAt t).isSome world
  if memcache then
    let key := cacheKey D xr
    let usable := up && legalKey key
    match (if usable then lookupX sh.store key else none) with
    | some (.tok t) => (⟨⟨.ok (.cache, t), [], []⟩, now⟩, sh)
    | _ =>
      let lr := limitedOpt sh.lim now ctx client
      let cr := cachedX D up sh.store xr lr.1.outcome
      (⟨cr.1, lr.1.time⟩, ⟨cr.2, lr.2⟩)
  else
    let lr := limitedOpt sh.lim now ctx client
    (lr.1, ⟨sh.store, lr.2⟩)

/-! ## 5. Attach sites -/

inductive Site where
  | cmsAuth        -- TimestampAndMarshal(authenticode = true): pe-coff, msi, cab, ps, xap, appx (two signatures), cat
  | cmsPlain       -- TimestampAndMarshal(authenticode = false): jar, dmg / macho (csblob), xar
  | manifest       -- ClickOnce manifest: as:Timestamp inside the authenticode XML signature
  | vsix           -- TimeStamp/EncodedTime object inside the XML signature
  | cosign         -- rfc3161timestamp annotation of the signature layer
  | unsupported    -- apk (v2 block), pgp, deb, rpm: the module never looks at cert.Timestamper
  deriving Repr, DecidableEq

/-- the unauthenticated attribute under which a CMS site stores the token: Authenticode's `SPC_RFC3161` OID
1.3.6.1.4.1.311.3.3.1 ("spc") or id-aa-timeStampToken 1.2.840.113549.1.9.16.2.14 ("tst") -/
def Site.oid : Site → Option String
  | .cmsAuth => some "spc"
  | .cmsPlain => some "tst"
  | _ => none

/-- the request style: only the manifest signer has a legacy mode (`rfc3161-timestamp=false`) -/
def Site.legacy (s : Site) (rfcFlag : Bool) : Bool :=
  match s with
  | .manifest => !rfcFlag
  | _ => false

/-- a signed artefact as far as time-stamping goes -/
structure ArtX where
  site : Site
  sigValue : Nat               -- EncryptedDigest of the signer info / SignatureValue bytes / raw signature
  leaf : Nat
  token : Option Token
  deriving Repr, DecidableEq

def liftCs (r : Res CounterSig) : Res (Option CounterSig) :=
  match r with
  | .ok cs => .ok (some cs)
  | .err e => .err e
  | .panic s => .panic s
  | .diverge => .diverge

/-- the verifier of each site: `VerifyOptionalTimestamp` (token attributes), `appmanifest.VerifyTimestamp`,
`vsix.checkTimestamp`, and for cosign (relic has no verifier) the check its signer applies, `pkcs9.Verify` -/
def verifyX (H : Nat → Nat) (g : Bool) (a : ArtX) : Res (Option CounterSig) :=
  match a.token with
  | none => .ok none
  | some t =>
    match a.site with
    | .manifest => liftCs (verifyManifestTs H g t a.sigValue)
    | _ => liftCs (verifyRfcToken H g t a.sigValue)

/-- what the signer module does with the token it was given: every site compares it with the signature value before
the artefact is emitted (`TimestampAndMarshal`'s self-verification, `AddTimestamp` → `VerifyTimestamp`, cosign's and,
since fix a163120, the VSIX signer's `pkcs9.Verify`) -/
def attachX (H : Nat → Nat) (g : Bool) (site : Site) (ed leaf : Nat) (t : Token) : Res ArtX :=
  let a : ArtX := ⟨site, ed, leaf, some t⟩
  match verifyX H g a with
  | .ok _ => .ok a
  | .err e => .err ("selfcheck:" ++ e)
  | .panic s => .panic s
  | .diverge => .diverge

/-- one signature of a signer module: `ts = none` is `cert.Timestamper == nil`; otherwise the behaviour of
`cert.Timestamper.Timestamp` for the request this site makes -/
def signSite (H : Nat → Nat) (g : Bool) (site : Site) (ed leaf : Nat) (ts : Option Outcome) : Res ArtX × Bool :=
  match site, ts with
  | .unsupported, _ => (.ok ⟨site, ed, leaf, none⟩, false)
  | _, none => (.ok ⟨site, ed, leaf, none⟩, false)
  | _, some o =>
    match o.res with
    | .ok (_, t) => (attachX H g site ed leaf t, true)
    | .err e => (.err e, true)
    | .panic s => (.panic s, true)
    | .diverge => (.diverge, true)

/-- the operation as a whole: `signinit.Init`, then the signer module with the time-stamper Init built -/
def signOp (D : Nat → List Char) (H : Nat → Nat) (c : Cfg) (sect : Option TsConf) (k : KeyConf) (flag : String)
    (memcache up : Bool) (sh : Shared) (now : Nat) (ctx : Ctx) (world : Url → Wire)
    (site : Site) (rfcFlag : Bool) (hash nonce ed leaf : Nat) : Res ArtX × Outcome :=
  match initPlan sect k flag with
  | .err e => (.err e, noOutcome)
  | .panic s => (.panic s, noOutcome)
  | .diverge => (.diverge, noOutcome)
  | .ok .off => ((signSite H c.guards site ed leaf none).1, noOutcome)
  | .ok (.stamp conf name) =>
    match site with
    | .unsupported => ((signSite H c.guards site ed leaf none).1, noOutcome)
    | _ =>
      let call := stamperCall D H c conf name memcache up sh now ctx world (site.legacy rfcFlag) hash nonce ed
      ((signSite H c.guards site ed leaf (some call.1.outcome)).1, call.1.outcome)

/-! ### the code before fix a163120 (finding F52): the VSIX signer embedded the token without a check

Kept so that the defect stays a theorem about the code it was found in (`Relic.Props.C10.attach_site_vsix_unchecked_orig`)
and so that the driver can say when an implementation behaves like the unrepaired tree. -/

/-- which sites compared the token with the signature value before the repair -/
def Site.selfChecksOrig : Site → Bool
  | .vsix => false
  | _ => true

def attachXOrig (H : Nat → Nat) (g : Bool) (site : Site) (ed leaf : Nat) (t : Token) : Res ArtX :=
  if site.selfChecksOrig then attachX H g site ed leaf t else .ok ⟨site, ed, leaf, some t⟩

def signSiteOrig (H : Nat → Nat) (g : Bool) (site : Site) (ed leaf : Nat) (ts : Option Outcome) : Res ArtX × Bool :=
  match site, ts with
  | .unsupported, _ => (.ok ⟨site, ed, leaf, none⟩, false)
  | _, none => (.ok ⟨site, ed, leaf, none⟩, false)
  | _, some o =>
    match o.res with
    | .ok (_, t) => (attachXOrig H g site ed leaf t, true)
    | .err e => (.err e, true)
    | .panic s => (.panic s, true)
    | .diverge => (.diverge, true)

def signOpOrig (D : Nat → List Char) (H : Nat → Nat) (c : Cfg) (sect : Option TsConf) (k : KeyConf) (flag : String)
    (memcache up : Bool) (sh : Shared) (now : Nat) (ctx : Ctx) (world : Url → Wire)
    (site : Site) (rfcFlag : Bool) (hash nonce ed leaf : Nat) : Res ArtX × Outcome :=
  match initPlan sect k flag with
  | .err e => (.err e, noOutcome)
  | .panic s => (.panic s, noOutcome)
  | .diverge => (.diverge, noOutcome)
  | .ok .off => ((signSiteOrig H c.guards site ed leaf none).1, noOutcome)
  | .ok (.stamp conf name) =>
    match site with
    | .unsupported => ((signSiteOrig H c.guards site ed leaf none).1, noOutcome)
    | _ =>
      let call := stamperCall D H c conf name memcache up sh now ctx world (site.legacy rfcFlag) hash nonce ed
      ((signSiteOrig H c.guards site ed leaf (some call.1.outcome)).1, call.1.outcome)

/-- signer type (relic's module names) → attach site and number of signatures it time-stamps -/
def siteOfType : String → Option (Site × Nat)
  | "pe-coff" => some (.cmsAuth, 1)
  | "msi" => some (.cmsAuth, 1)
  | "cab" => some (.cmsAuth, 1)
  | "ps" => some (.cmsAuth, 1)
  | "xap" => some (.cmsAuth, 1)
  | "cat" => some (.cmsAuth, 1)
  | "appx" => some (.cmsAuth, 2)       -- AppxSignature.p7x and the CodeIntegrity catalog
  | "jar" => some (.cmsPlain, 1)
  | "dmg" => some (.cmsPlain, 1)
  | "macho" => some (.cmsPlain, 1)
  | "xar" => some (.cmsPlain, 1)
  | "appmanifest" => some (.manifest, 1)
  | "vsix" => some (.vsix, 1)
  | "cosign" => some (.cosign, 1)
  | "apk" => some (.unsupported, 0)
  | "pgp" => some (.unsupported, 0)
  | "deb" => some (.unsupported, 0)
  | "rpm" => some (.unsupported, 0)
  | _ => none

end Relic.TsaX

/- expected outcome of an end-to-end sign/verify op, from the option table -/
import Relic.Model.Options
namespace Relic.Driver.E2E
open Relic Relic.Options

partial def handle : List String → String
  | "repeat" :: _n :: rest => handle ("sign" :: rest)     -- the same history n times: same expected outcome
  | ["sign", t, fixture, h, keys, flags] =>
    -- relic's JAR signer refuses an archive that has no manifest at all (explicit error, input untouched)
    if fixture = "gen:jar:nomanifest.jar" then "refused input" else
    match parseType t, parseHash h with
    | some ty, some hs =>
      let ks := keys.splitOn ","
      -- flags: one set for all rounds, or one per round separated by '|'
      let sets := flags.splitOn "|"
      let phAt (i : Nat) : Bool := ((sets.getD i (sets.getLast?.getD "-")).splitOn ";").contains "page-hashes=true"
      let rec go : Nat → List String → Option Verdict
        | _, [] => some .ok
        | i, k :: rest =>
          match parseKey k with
          | none => none
          | some kk => match verdict ty kk hs (phAt i) with
            | .ok => go (i + 1) rest
            | v => some v
      match go 0 ks with
      | none => "bad-op"
      | some .refusedKey => "refused key"
      | some .refusedHash => "refused hash"
      | some .ok => s!"ok sigs=1 hash={h} cert=match payload=same rounds={ks.length}"
    | _, _ => "bad-op"
  -- a signature block grafted into another archive must never be accepted (C02)
  | ["graft", "jar", _, _] => "ok rejected"
  | _ => "bad-op"

end Relic.Driver.E2E

/-
  C01 — Every signature relic produces verifies.   XML-DSig part (model `Relic.Model.XmlSig` of lib/xmldsig Sign/Verify):
  for every element tree, every hash, key type and option set and every *correct* abstract scheme, `Verify` on the tree
  `Sign` returns finds exactly the appended Signature, reads back the algorithms `Sign` wrote, recomputes the same
  SignedInfo stream and the same reference stream, and accepts.
-/
import Relic.Proofs.XmlSig
namespace Relic.Props.C01
open Relic Relic.Xml Relic.XmlSig

/-- the scheme is correct for the signer's key `pk` of type `kt` -/
structure Correct (S : Scheme) (pk : Bytes) (kt : KeyType) : Prop where
  b64sig : ∀ h s, S.b64ok (S.sigtext h s) = true
  b64dig : ∀ h s, S.b64ok (S.dtext h s) = true
  diglen : ∀ h s, S.digestLen h (S.dtext h s) = true
  digok : ∀ h s, S.digestOk h s (S.dtext h s) = true
  sigok : ∀ h s, S.sigOk pk kt h s (S.sigtext h s) = true

/-- the KeyInfo the signer writes is plain (no attributes: RSA KeyValue, X509Data) and carries a KeyValue that the
    verifier maps back to the signer's key; the certificates in it parse -/
structure KeyBack (S : Scheme) (o : SignOptions) (kt : KeyType) (pk : Bytes) : Prop where
  plain : plainL (S.keyInfo o) = true
  kv : ∃ kv, (decKeyInfoKids {} (S.keyInfo o)).keyValue = some kv ∧ S.parseKey kt kv = some pk
  certs : ∃ cs, parseCerts S (decKeyInfoKids {} (S.keyInfo o)).certs = some cs

theorem parseAlgs_hashAlgs (h : HashId) (kt : KeyType) (o : SignOptions) :
    parseAlgs (hashAlgs h kt o).1 (hashAlgs h kt o).2 = .ok (h, kt) := by
  obtain ⟨ms, ur, x5, kv⟩ := o
  have e : hashAlgs h kt ⟨ms, ur, x5, kv⟩ = hashAlgs h kt ⟨ms, false, false, false⟩ := rfl
  rw [e]
  cases h <;> cases kt <;> cases ms <;> decide

theorem isC14n_c14nNs (o : SignOptions) : isC14n (c14nNs o) = true := by
  unfold c14nNs
  cases o.useRec <;> decide

/-- ancestors without attributes (the etree Document) contribute nothing -/
theorem collectSpaces_append_empty (x ctx0 : List (List Attr)) (h : ∀ c ∈ ctx0, c = []) :
    collectSpaces (x ++ ctx0) = collectSpaces x := by
  unfold collectSpaces
  rw [List.foldl_append]
  generalize List.foldl collectAttrs [] x = m
  induction ctx0 generalizing m with
  | nil => rfl
  | cons c cs ih =>
    have hc : c = [] := h c List.mem_cons_self
    subst hc
    simp only [List.foldl_cons, collectAttrs]
    exact ih (fun c hc => h c (List.mem_cons_of_mem _ hc)) m

theorem canon_append_empty (x ctx0 : List (List Attr)) (h : ∀ c ∈ ctx0, c = []) (n : Node) :
    canon (x ++ ctx0) n = canon x n := by
  unfold canon pullDown
  rw [collectSpaces_append_empty x ctx0 h]

theorem plain_signedInfo (o : SignOptions) (a b d : Bytes) : plain (signedInfo o [] a b d) = true := by
  have h1 : decide (sAlgorithm ≠ sXmlns) = true := by decide
  have h2 : decide (sURI ≠ sXmlns) = true := by decide
  simp [signedInfo, el, at_, txt, plain, plainL, plainAttrs]
  exact ⟨by decide, by decide, by decide⟩

theorem eraseIdx_append_last {α} (x : α) : ∀ l : List α, (l ++ [x]).eraseIdx l.length = l
  | [] => rfl
  | a :: l => by simp [List.eraseIdx, eraseIdx_append_last x l]

/-- what the decoder has read when it reaches `<KeyInfo>` -/
def sigInfo0 (o : SignOptions) (h : HashId) (kt : KeyType) (dv sv : Bytes) : SigInfo :=
  { c14nAlg := c14nNs o, sigAlg := (hashAlgs h kt o).2,
    ref := { uri := [], transforms := [algEnveloped, c14nNs o], digestAlg := (hashAlgs h kt o).1, digestValue := dv },
    sigValue := sv }

/-- **central step**: `Verify` on `parent-children ++ [Signature built by Sign]` -/
theorem verify_signed (S : Scheme) (pk : Bytes) (kt : KeyType) (h : HashId) (o : SignOptions) (K : KeyBack S o kt pk)
    (sp tag : Bytes) (as : List Attr) (clean : List Node) (hc : ∀ k ∈ clean, isElemTag sSignature k = false)
    (dv sv : Bytes)
    (hb1 : S.b64ok sv = true)
    (hs : S.sigOk pk kt h (canon [[xmlnsAttr], as] (signedInfo o [] (hashAlgs h kt o).1 (hashAlgs h kt o).2 dv)) sv = true)
    (hb2 : S.b64ok dv = true) (hl : S.digestLen h dv = true)
    (hd : S.digestOk h (canon [] (.elem sp tag as clean)) dv = true) :
    verify S (.elem sp tag as (clean ++ [signatureNode S o (signedInfo o [] (hashAlgs h kt o).1 (hashAlgs h kt o).2 dv) sv]))
      [sSignature] =
    .ok { hash := h, keyType := kt, key := pk,
          siStream := canon [[xmlnsAttr], as] (signedInfo o [] (hashAlgs h kt o).1 (hashAlgs h kt o).2 dv),
          refStream := canon [] (.elem sp tag as clean) } := by
  obtain ⟨kv, hkv, hpk⟩ := K.kv
  obtain ⟨cs, hcs⟩ := K.certs
  have hne : (S.keyInfo o).isEmpty = false := by
    cases hki : S.keyInfo o with
    | nil => rw [hki] at hkv; simp [decKeyInfoKids] at hkv
    | cons _ _ => rfl
  generalize hsi : signedInfo o [] (hashAlgs h kt o).1 (hashAlgs h kt o).2 dv = si at *
  have hsig : signatureNode S o si sv = el sSignature [xmlnsAttr] [si, el sSignatureValue [] [txt sv], el sKeyInfo [] (S.keyInfo o)] := by
    simp [signatureNode, hne]
  have hplain : plainL [si, el sSignatureValue [] [txt sv], el sKeyInfo [] (S.keyInfo o)] = true := by
    have : plain si = true := by rw [← hsi]; exact plain_signedInfo o _ _ _
    simp [plainL, this, plain, el, txt, plainAttrs, K.plain]
  have hfind : findElems [sSignature] (.elem sp tag as (clean ++ [signatureNode S o si sv])) = [[clean.length]] :=
    findElems_last sSignature sp tag as clean _ hc (by rw [hsig]; simp [el, isElemTag])
  have hget : getAt [clean.length] (.elem sp tag as (clean ++ [signatureNode S o si sv])) = some (signatureNode S o si sv) := by
    simp [getAt]
  have hanc : ancestorsAttrs [clean.length] (.elem sp tag as (clean ++ [signatureNode S o si sv])) = [as] := by
    simp [ancestorsAttrs, attrsAlong]
  have hdec0 := decKeyInfoKids_fields (S.keyInfo o) (sigInfo0 o h kt dv sv)
  have hdec : decodeSig (el sSignature [xmlnsAttr] [si, el sSignatureValue [] [txt sv], el sKeyInfo [] (S.keyInfo o)]) =
      some (decKeyInfoKids (sigInfo0 o h kt dv sv) (S.keyInfo o)) := by
    rw [← hsi]
    simp +decide [decodeSig, decSigKids, decSignedInfoKids, decRefKids, decTransforms, attrVal, textOf, elemNs, signedInfo, el,
      at_, txt, xmlnsAttr, sigInfo0]
  obtain ⟨d1, d2, d3, d4, d5, d6⟩ := hdec0
  have z1 : (sigInfo0 o h kt dv sv).keyValue = none := rfl
  have z2 : (sigInfo0 o h kt dv sv).certs = [] := rfl
  rw [z1, z2] at d5 d6
  have d1' : (decKeyInfoKids (sigInfo0 o h kt dv sv) (S.keyInfo o)).c14nAlg = c14nNs o := d1
  have d2' : (decKeyInfoKids (sigInfo0 o h kt dv sv) (S.keyInfo o)).sigAlg = (hashAlgs h kt o).2 := d2
  have d3' : (decKeyInfoKids (sigInfo0 o h kt dv sv) (S.keyInfo o)).ref =
      { uri := [], transforms := [algEnveloped, c14nNs o], digestAlg := (hashAlgs h kt o).1, digestValue := dv } := d3
  have d4' : (decKeyInfoKids (sigInfo0 o h kt dv sv) (S.keyInfo o)).sigValue = sv := d4
  have d5' : (decKeyInfoKids (sigInfo0 o h kt dv sv) (S.keyInfo o)).keyValue = some kv := d5.trans hkv
  have d6' : parseCerts S (decKeyInfoKids (sigInfo0 o h kt dv sv) (S.keyInfo o)).certs = some cs := by rw [d6]; exact hcs
  have hrm : removeAt [clean.length] (.elem sp tag as (clean ++ [signatureNode S o si sv])) = .elem sp tag as clean := by
    simp [removeAt, eraseIdx_append_last]
  have hfirst : (kidsOf (signatureNode S o si sv)).filter (isElemTag sSignedInfo) = [si] := by
    rw [hsig, ← hsi]
    rfl
  have hattrs : attrsOf (signatureNode S o si sv) = [xmlnsAttr] := by rw [hsig]; rfl
  unfold verify
  simp only [hfind, hget, hanc]
  rw [hsig] at hfirst hattrs ⊢
  rw [canonTree_signature _ _ hplain, hdec]
  simp only [d1', d2', d3', d4', d5', d6', isC14n_c14nNs, parseAlgs_hashAlgs, hpk, hfirst, hattrs, hb1, hs, hb2, hl,
    Bool.not_true, Bool.false_eq_true, if_false]
  rw [← hsig, hrm]
  have ht : isC14n (c14nNs o) = true := isC14n_c14nNs o
  simp [ht, hd, hb2, hl]

/-- **xml_sign_then_verify.** For every element `<sp:tag as>ks</…>` (whatever it already contains, old Signature children
    included), every hash, key type, option set, and every correct scheme whose KeyInfo is plain and leads back to the
    signer's key: `Verify(Sign(root, root), "Signature")` accepts, having hashed exactly the two streams `Sign` hashed.
    Ancestors of the root must not carry attributes (the etree Document); see `xml_sign_then_verify_ctx_gap`. -/
theorem xml_sign_then_verify (S : Scheme) (pk : Bytes) (kt : KeyType) (h : HashId) (o : SignOptions)
    (C : Correct S pk kt) (K : KeyBack S o kt pk) (ctx0 : List (List Attr)) (hctx : ∀ c ∈ ctx0, c = [])
    (sp tag : Bytes) (as : List Attr) (ks : List Node) :
    verify S (sign S ctx0 (.elem sp tag as ks) [] h kt o).out [sSignature] =
      .ok { hash := h, keyType := kt, key := pk,
            siStream := (sign S ctx0 (.elem sp tag as ks) [] h kt o).siStream,
            refStream := (sign S ctx0 (.elem sp tag as ks) [] h kt o).refStream } := by
  have e1 : canon ctx0 (.elem sp tag as (removeElements sSignature ks)) = canon [] (.elem sp tag as (removeElements sSignature ks)) :=
    canon_append_empty [] ctx0 hctx _
  have e2 : ∀ n, canon ([xmlnsAttr] :: ([as] ++ ctx0)) n = canon [[xmlnsAttr], as] n :=
    fun n => canon_append_empty [[xmlnsAttr], as] ctx0 hctx n
  simp only [sign, mapKidsAt, attrsAlong, attrsOf, e1, e2]
  exact verify_signed S pk kt h o K sp tag as _ (removeElements_none sSignature ks) _ _ (C.b64sig _ _) (C.sigok _ _)
    (C.b64dig _ _) (C.diglen _ _) (C.digok _ _)

end Relic.Props.C01

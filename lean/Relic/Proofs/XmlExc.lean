/-
  Agreement of relic's canonical form with Exclusive C14N (`Relic.Spec.ExcC14N`) on the class of trees without
  deviation trigger: helper lemmas and the main induction.
-/
import Relic.Spec.ExcC14N
import Relic.Proofs.XmlPermFull
import Relic.Proofs.XmlUnused
namespace Relic.Xml
open Relic Relic.ExcC14N

/-! ### the spec's insertion sort on prefixes -/

theorem insBy_perm {α} (lt : α → α → Bool) (a : α) (l : List α) : (insBy lt a l).Perm (a :: l) := by
  induction l with
  | nil => exact List.Perm.refl _
  | cons b bs ih =>
    simp only [insBy]
    split
    · exact List.Perm.refl _
    · exact (List.Perm.cons b ih).trans (List.Perm.swap a b bs)

theorem sortBy_perm {α} (lt : α → α → Bool) (l : List α) : (sortBy lt l).Perm l := by
  induction l with
  | nil => exact List.Perm.refl _
  | cons a as ih =>
    show (insBy lt a (sortBy lt as)).Perm (a :: as)
    exact (insBy_perm lt a _).trans (List.Perm.cons a ih)

def BSorted (l : List Bytes) : Prop := l.Pairwise (fun a b => bytesLt a b = true)

theorem insBy_bsorted (a : Bytes) (l : List Bytes) (hs : BSorted l) (hn : a ∉ l) : BSorted (insBy bytesLt a l) := by
  induction l with
  | nil => simp [insBy, BSorted]
  | cons b bs ih =>
    unfold BSorted at hs ⊢
    rw [List.pairwise_cons] at hs
    simp only [insBy]
    split
    · rename_i hab
      rw [List.pairwise_cons]
      refine ⟨?_, List.pairwise_cons.mpr hs⟩
      intro c hc
      rcases List.mem_cons.mp hc with e | e
      · rw [e]; exact hab
      · exact bytesLt_trans a b c hab (hs.1 c e)
    · rename_i hab
      have hne : a ≠ b := fun e => hn (e ▸ List.mem_cons_self)
      have hba : bytesLt b a = true := by
        rcases bytesLt_total a b hne with h | h
        · exact absurd h hab
        · exact h
      rw [List.pairwise_cons]
      refine ⟨?_, ih hs.2 (fun h => hn (List.mem_cons_of_mem _ h))⟩
      intro c hc
      have := (insBy_perm bytesLt a bs).mem_iff.mp hc
      rcases List.mem_cons.mp this with e | e
      · rw [e]; exact hba
      · exact hs.1 c e

theorem sortBy_bsorted (l : List Bytes) (hn : l.Nodup) : BSorted (sortBy bytesLt l) := by
  induction l with
  | nil => simp [sortBy, BSorted]
  | cons a as ih =>
    rw [List.nodup_cons] at hn
    show BSorted (insBy bytesLt a (sortBy bytesLt as))
    exact insBy_bsorted a _ (ih hn.2) (fun h => hn.1 ((sortBy_perm bytesLt as).mem_iff.mp h))

theorem mem_dedup (a : Bytes) (l : List Bytes) : a ∈ dedup l ↔ a ∈ l := by
  induction l with
  | nil => simp [dedup]
  | cons b bs ih =>
    simp only [dedup]
    split
    · rename_i h
      have hb : b ∈ bs := by simpa using h
      rw [ih, List.mem_cons]
      constructor
      · exact Or.inr
      · rintro (e | e)
        · rw [e]; exact hb
        · exact e
    · rw [List.mem_cons, List.mem_cons, ih]

theorem dedup_nodup (l : List Bytes) : (dedup l).Nodup := by
  induction l with
  | nil => simp [dedup]
  | cons b bs ih =>
    simp only [dedup]
    split
    · exact ih
    · rename_i h
      rw [List.nodup_cons]
      refine ⟨?_, ih⟩
      rw [mem_dedup]
      simpa using h

/-! ### `lookup` / `bindDecls` -/

theorem lookup_cons_ne (m : NsMap) (q v p : Bytes) (h : q ≠ p) : lookup ((q, v) :: m) p = lookup m p := by
  simp [lookup, h]

theorem lookup_cons_eq (m : NsMap) (p v : Bytes) : lookup ((p, v) :: m) p = some v := by
  simp [lookup]

theorem bindDecls_cons (m : NsMap) (a : Attr) (as : List Attr) :
    bindDecls m (a :: as) = bindDecls (match getDecl a with | some p => (p, a.value) :: m | none => m) as := rfl

theorem lookup_bind_none (p : Bytes) : ∀ (attrs : List Attr) (m : NsMap), (∀ a ∈ attrs, getDecl a ≠ some p) →
    lookup (bindDecls m attrs) p = lookup m p := by
  intro attrs
  induction attrs with
  | nil => intro m _; rfl
  | cons a as ih =>
    intro m h
    rw [bindDecls_cons, ih _ (fun b hb => h b (List.mem_cons_of_mem _ hb))]
    have ha := h a List.mem_cons_self
    cases hg : getDecl a with
    | none => rfl
    | some q =>
      simp only
      exact lookup_cons_ne m q a.value p (fun e => ha (by rw [hg, e]))

theorem lookup_bind_some (p v : Bytes) : ∀ (attrs : List Attr) (m : NsMap),
    (∀ b ∈ attrs, getDecl b = some p → b.value = v) → (∃ b ∈ attrs, getDecl b = some p) →
    lookup (bindDecls m attrs) p = some v := by
  intro attrs
  induction attrs with
  | nil => intro m _ h; obtain ⟨b, hb, _⟩ := h; cases hb
  | cons a as ih =>
    intro m hv hex
    rw [bindDecls_cons]
    by_cases hr : ∃ b ∈ as, getDecl b = some p
    · exact ih _ (fun b hb => hv b (List.mem_cons_of_mem _ hb)) hr
    · have hr' : ∀ b ∈ as, getDecl b ≠ some p := fun b hb e => hr ⟨b, hb, e⟩
      rw [lookup_bind_none p as _ hr']
      obtain ⟨b, hb, hg⟩ := hex
      rcases List.mem_cons.mp hb with e | e
      · subst e
        rw [hg]
        simp only
        rw [hv b List.mem_cons_self hg]
        exact lookup_cons_eq m p v
      · exact absurd hg (hr' b e)

theorem namesNodup_unique : ∀ (l : List Attr), NamesNodup l → ∀ a ∈ l, ∀ b ∈ l, sameName a b → a = b := by
  intro l
  induction l with
  | nil => intro _ a ha; cases ha
  | cons x xs ih =>
    intro hn a ha b hb hs
    unfold NamesNodup at hn
    rw [List.pairwise_cons] at hn
    rcases List.mem_cons.mp ha with e1 | e1
    · rcases List.mem_cons.mp hb with e2 | e2
      · rw [e1, e2]
      · subst e1; exact absurd hs (hn.1 b e2)
    · rcases List.mem_cons.mp hb with e2 | e2
      · subst e2; exact absurd (sameName_symm hs) (hn.1 a e1)
      · exact ih hn.2 a e1 b e2 hs

/-- under `AttrsOK` an element declares a prefix at most once -/
theorem decl_unique (l : List Attr) (hl : AttrsOK l) (a b : Attr) (ha : a ∈ l) (hb : b ∈ l) (p : Bytes)
    (hga : getDecl a = some p) (hgb : getDecl b = some p) : a = b := by
  apply namesNodup_unique l hl.1 a ha b hb
  have n1 := getDecl_name a p hga (hl.2 a ha)
  have n2 := getDecl_name b p hgb (hl.2 b hb)
  exact ⟨n1.1.trans n2.1.symm, n1.2.trans n2.2.symm⟩

theorem lookup_bind_own (l : List Attr) (hl : AttrsOK l) (m : NsMap) (a : Attr) (ha : a ∈ l) (p : Bytes)
    (hg : getDecl a = some p) : lookup (bindDecls m l) p = some a.value := by
  apply lookup_bind_some p a.value l m
  · intro b hb hgb
    rw [decl_unique l hl b a hb ha p hgb hg]
  · exact ⟨a, ha, hg⟩

/-! ### closed form of `renderNs` -/

def emitP (inScope rendered : NsMap) (p : Bytes) : Bool :=
  if p = [] then decide ((lookup inScope p).getD [] ≠ (lookup rendered p).getD [])
  else decide (lookup rendered p ≠ some ((lookup inScope p).getD []))

theorem renderNs_cons (inScope rendered : NsMap) (p : Bytes) (ps : List Bytes) :
    renderNs inScope rendered (p :: ps) =
      if emitP inScope rendered p then
        ((renderNs inScope ((p, (lookup inScope p).getD []) :: rendered) ps).1,
          mkDecl p ((lookup inScope p).getD []) :: (renderNs inScope ((p, (lookup inScope p).getD []) :: rendered) ps).2)
      else renderNs inScope rendered ps := by
  simp only [renderNs, emitP, mkDecl]
  rfl

theorem renderNs_closed (inScope : NsMap) : ∀ (ps : List Bytes) (rendered : NsMap), ps.Nodup →
    (renderNs inScope rendered ps).2 =
      (ps.filter (emitP inScope rendered)).map (fun p => mkDecl p ((lookup inScope p).getD [])) ∧
    ∀ q, lookup (renderNs inScope rendered ps).1 q =
      if q ∈ ps ∧ emitP inScope rendered q = true then some ((lookup inScope q).getD []) else lookup rendered q := by
  intro ps
  induction ps with
  | nil => intro rendered _; simp [renderNs]
  | cons p ps ih =>
    intro rendered hn
    rw [List.nodup_cons] at hn
    rw [renderNs_cons]
    cases he : emitP inScope rendered p with
    | false =>
      simp only [Bool.false_eq_true, if_false]
      obtain ⟨i1, i2⟩ := ih rendered hn.2
      refine ⟨?_, ?_⟩
      · rw [i1, List.filter_cons, he]; simp
      · intro q
        rw [i2 q]
        by_cases hq : q = p
        · subst hq
          simp [hn.1, he]
        · simp [hq]
    | true =>
      simp only [if_true]
      obtain ⟨i1, i2⟩ := ih ((p, (lookup inScope p).getD []) :: rendered) hn.2
      have hcong : ∀ q ∈ ps, emitP inScope ((p, (lookup inScope p).getD []) :: rendered) q = emitP inScope rendered q := by
        intro q hq
        have hne : p ≠ q := fun e => hn.1 (e ▸ hq)
        unfold emitP
        rw [lookup_cons_ne _ _ _ _ hne]
      refine ⟨?_, ?_⟩
      · rw [i1, List.filter_congr hcong, List.filter_cons, he]; simp
      · intro q
        rw [i2 q]
        by_cases hq : q = p
        · subst hq
          simp [hn.1, he, lookup_cons_eq]
        · have hne : p ≠ q := fun e => hq e.symm
          rw [lookup_cons_ne _ _ _ _ hne]
          by_cases hm : q ∈ ps
          · simp [hm, hq, hcong q hm]
          · simp [hm, hq]

/-! ### visibly utilised prefixes -/

theorem mem_utilised (sp : Bytes) (attrs : List Attr) (p : Bytes) :
    p ∈ utilised sp attrs ↔ p ≠ sXml ∧ (p = sp ∨ ∃ a ∈ attrs, getDecl a = none ∧ a.space ≠ [] ∧ a.space = p) := by
  unfold utilised
  rw [(sortBy_perm bytesLt _).mem_iff, mem_dedup, List.mem_filter, List.mem_cons, List.mem_map]
  simp only [plainAttrs, isDecl, List.mem_filter, decide_eq_true_eq, Bool.not_eq_true', Option.isSome_eq_false_iff,
    Option.isNone_iff_eq_none, ne_eq, Bool.decide_eq_true, Bool.not_eq_eq_eq_not, Bool.not_true, decide_eq_false_iff_not]
  constructor
  · rintro ⟨h1, h2⟩
    refine ⟨h2, ?_⟩
    rcases h1 with h | ⟨a, ⟨⟨ha, hg⟩, hs⟩, rfl⟩
    · exact Or.inl h
    · exact Or.inr ⟨a, ha, hg, hs, rfl⟩
  · rintro ⟨h2, h1⟩
    refine ⟨?_, h2⟩
    rcases h1 with h | ⟨a, ha, hg, hs, rfl⟩
    · exact Or.inl h
    · exact Or.inr ⟨a, ⟨⟨ha, hg⟩, hs⟩, rfl⟩

theorem utilised_nodup (sp : Bytes) (attrs : List Attr) : (utilised sp attrs).Nodup := by
  unfold utilised
  rw [(sortBy_perm bytesLt _).nodup_iff]
  exact dedup_nodup _

theorem utilised_sorted (sp : Bytes) (attrs : List Attr) : BSorted (utilised sp attrs) := by
  unfold utilised
  exact sortBy_bsorted _ (dedup_nodup _)

/-! ### hypotheses -/

/-- namespace declarations of a namespace-well-formed element: non-empty value (`xmlns=""` is the listed deviation
    F16-empty-default, `xmlns:p=""` is forbidden by Namespaces in XML 1.0), and the prefix `xml` is not declared
    (legal, but a deviation: `canon_ne_excc14n_xml_decl`) -/
def DeclsOK (l : List Attr) : Prop := ∀ a ∈ l, ∀ p, getDecl a = some p → a.value ≠ [] ∧ p ≠ sXml

/-- no attribute `xmlns:xmlns`, no attribute `p:xmlns` (the trigger `xmlns-name`) -/
def NoXmlnsName (l : List Attr) : Prop :=
  ∀ a ∈ l, ¬ ((a.space = sXmlns ∧ a.key = sXmlns) ∨ (a.space ≠ [] ∧ a.key = sXmlns))

mutual
def WF : Node → Prop
  | .elem _ _ as ks => AttrsOK as ∧ DeclsOK as ∧ WFL ks
  | _ => True
def WFL : List Node → Prop
  | [] => True
  | n :: ns => WF n ∧ WFL ns
end

/-- the pending declarations `ds`, the namespace context in scope and the context rendered by the output ancestors -/
structure Inv (ds : Env) (inScope rendered : NsMap) : Prop where
  ok : EnvOK ds
  noxml : ∀ e ∈ ds, e.1 ≠ sXml
  pend : ∀ e ∈ ds, lookup inScope e.1 = some e.2 ∧ e.2 ≠ [] ∧ lookup rendered e.1 ≠ some e.2
  sync : ∀ p, (∀ e ∈ ds, e.1 ≠ p) → lookup inScope p = lookup rendered p

theorem elemDevs_nil (inScope' rendered : NsMap) (sp : Bytes) (attrs : List Attr)
    (h : elemDevs inScope' rendered sp attrs = []) :
    (∀ p ∈ utilised sp attrs, p ≠ [] → lookup inScope' p ≠ none) ∧
    sortBy (attrLt inScope') (plainAttrs attrs) = sortAttrs (plainAttrs attrs) ∧
    (∀ a ∈ attrs, ∀ p, getDecl a = some p → a.value ≠ [] → lookup rendered p ≠ some a.value) ∧
    NoXmlnsName attrs := by
  unfold elemDevs at h
  simp only [List.append_eq_nil_iff] at h
  obtain ⟨⟨⟨⟨h1, h2⟩, h3⟩, _⟩, h5⟩ := h
  refine ⟨?_, ?_, ?_, ?_⟩
  · intro p hp hne hnone
    rw [mem_utilised] at hp
    have : (List.filter (fun p => decide (p ≠ sXml ∧ p ≠ []))
        (sp :: List.map (fun x => x.space) (List.filter (fun x => decide (x.space ≠ [])) (plainAttrs attrs)))).any
        (fun p => (lookup inScope' p).isNone) = true := by
      rw [List.any_eq_true]
      refine ⟨p, ?_, by simp [hnone]⟩
      rw [List.mem_filter]
      refine ⟨?_, by simpa using ⟨hp.1, hne⟩⟩
      rcases hp.2 with e | ⟨a, ha, hg, hs, rfl⟩
      · rw [e]; exact List.mem_cons_self
      · apply List.mem_cons_of_mem
        rw [List.mem_map]
        refine ⟨a, ?_, rfl⟩
        rw [List.mem_filter]
        refine ⟨?_, by simpa using hs⟩
        unfold plainAttrs
        rw [List.mem_filter]
        exact ⟨ha, by simp [isDecl, hg]⟩
    rw [if_pos this] at h1
    cases h1
  · by_cases hc : sortBy (attrLt inScope') (plainAttrs attrs) ≠ sortAttrs (plainAttrs attrs)
    · rw [if_pos hc] at h2; cases h2
    · exact Classical.not_not.mp hc
  · intro a ha p hg hv heq
    split at h3
    · cases h3
    · rename_i hn
      apply hn
      rw [List.any_eq_true]
      refine ⟨a, ha, ?_⟩
      rw [hg]
      simpa using ⟨hv, heq⟩
  · intro a ha hbad
    have : attrs.any (fun a => decide ((a.space = sXmlns ∧ a.key = sXmlns) ∨ (a.space ≠ [] ∧ a.key = sXmlns))) = true := by
      rw [List.any_eq_true]
      exact ⟨a, ha, by simpa using hbad⟩
    rw [if_pos this] at h5
    cases h5

/-! ### relic's `usesSpace` and the spec's "visibly utilised" -/

theorem uses_iff_utilised (sp : Bytes) (attrs : List Attr) (p : Bytes) (h1 : p ≠ sXmlns) (h2 : p ≠ sXml) :
    usesSpace sp attrs p = true ↔ p ∈ utilised sp attrs := by
  rw [mem_utilised]
  unfold usesSpace
  by_cases hsp : sp = p
  · simp [hsp, h2]
  · rw [if_neg hsp]
    have hsp' : ¬ p = sp := fun e => hsp e.symm
    by_cases hp : p = []
    · subst hp
      rw [if_pos rfl]
      constructor
      · intro h; cases h
      · rintro ⟨_, h | ⟨a, _, _, hs, he⟩⟩
        · exact absurd h hsp'
        · exact absurd he hs
    · rw [if_neg hp, List.any_eq_true]
      constructor
      · rintro ⟨a, ha, hs⟩
        have hs' : a.space = p := by simpa using hs
        refine ⟨h2, Or.inr ⟨a, ha, ?_, by rw [hs']; exact hp, hs'⟩⟩
        cases hg : getDecl a with
        | none => rfl
        | some q =>
          rcases getDecl_space a q hg with e | e
          · exact absurd (hs'.symm.trans e) hp
          · exact absurd (hs'.symm.trans e) h1
      · rintro ⟨_, h | ⟨a, ha, _, _, hs⟩⟩
        · exact absurd h hsp'
        · exact ⟨a, ha, by simpa using hs⟩

theorem getDecl_xmlns_name (a : Attr) (h : getDecl a = some sXmlns) : a.space = sXmlns ∧ a.key = sXmlns := by
  have hs := getDecl_xmlns a h
  unfold getDecl at h
  have h1 : ¬ (a.space = [] ∧ a.key = sXmlns) := fun hh => sXmlns_ne_nil (hs.symm.trans hh.1)
  rw [if_neg h1, if_pos hs] at h
  exact ⟨hs, Option.some.inj h⟩

/-- a hit of `SelectAttr(putDecl p)` is a declaration of `p` (no attribute `q:xmlns`) -/
theorem select_imp_own (attrs : List Attr) (hx : NoXmlnsName attrs) (p : Bytes)
    (h : selectAttr (declName p) attrs = true) : ∃ a ∈ attrs, getDecl a = some p := by
  unfold selectAttr at h
  rw [List.any_eq_true] at h
  obtain ⟨a, ha, hm⟩ := h
  have hm' : ((declName p).1 = [] ∨ (declName p).1 = a.space) ∧ (declName p).2 = a.key := by simpa using hm
  refine ⟨a, ha, ?_⟩
  unfold declName at hm'
  by_cases hp : p = []
  · rw [if_pos hp] at hm'
    simp only [true_or, true_and] at hm'
    by_cases hs : a.space = []
    · unfold getDecl; rw [if_pos ⟨hs, hm'.symm⟩, hp]
    · exact absurd (Or.inr ⟨hs, hm'.symm⟩) (hx a ha)
  · rw [if_neg hp] at hm'
    simp only at hm'
    rcases hm'.1 with e | e
    · exact absurd e sXmlns_ne_nil
    · unfold getDecl
      have : ¬ (a.space = [] ∧ a.key = sXmlns) := fun hh => sXmlns_ne_nil (e.trans hh.1)
      rw [if_neg this, if_pos e.symm, hm'.2]

theorem own_imp_select (attrs : List Attr) (hk : ∀ a ∈ attrs, a.key ≠ []) (p : Bytes) (a : Attr) (ha : a ∈ attrs)
    (hg : getDecl a = some p) : selectAttr (declName p) attrs = true := by
  unfold selectAttr
  rw [List.any_eq_true]
  have nm := getDecl_name a p hg (hk a ha)
  exact ⟨a, ha, by simpa using ⟨Or.inr nm.1.symm, nm.2.symm⟩⟩

theorem attr_eq_mkDecl (a : Attr) (p : Bytes) (hg : getDecl a = some p) (hk : a.key ≠ []) : a = mkDecl p a.value := by
  have nm := getDecl_name a p hg hk
  cases a with
  | mk s k v =>
    simp only at nm
    unfold mkDecl
    rw [← nm.1, ← nm.2]

theorem emitP_of_ne (inScope' rendered : NsMap) (p v : Bytes) (hl : lookup inScope' p = some v) (hv : v ≠ [])
    (hr : lookup rendered p ≠ some v) : emitP inScope' rendered p = true := by
  unfold emitP
  rw [hl]
  by_cases hp : p = []
  · rw [if_pos hp]
    cases hlr : lookup rendered p with
    | none => simpa using hv
    | some w =>
      rw [hlr] at hr
      have : ¬ v = w := fun e => hr (by rw [e])
      simpa using this
  · rw [if_neg hp]; simpa using hr

theorem emitP_of_sync (inScope' rendered : NsMap) (p : Bytes) (hs : lookup inScope' p = lookup rendered p)
    (hd : p ≠ [] → lookup inScope' p ≠ none) : emitP inScope' rendered p = false := by
  unfold emitP
  by_cases hp : p = []
  · rw [if_pos hp, hs]; simp
  · rw [if_neg hp]
    cases hl : lookup inScope' p with
    | none => exact absurd hl (hd hp)
    | some u => rw [← hs, hl]; simp

/-! ### sortedness of the spec's attribute output -/

theorem attrLess_mkDecl (p q u w : Bytes) (h : bytesLt p q = true) : attrLess (mkDecl p u) (mkDecl q w) = true := by
  by_cases hp : p = []
  · unfold attrLess mkDecl declName
    simp [hp]
  · have hq : q ≠ [] := by
      intro e; subst e
      cases p with
      | nil => exact hp rfl
      | cons _ _ => simp [bytesLt] at h
    unfold attrLess mkDecl declName
    simp [hp, hq, sXmlns_ne_nil, h]

theorem attrLess_decl_plain (d x : Attr) (p : Bytes) (hd : getDecl d = some p) (hx : getDecl x = none) :
    attrLess d x = true := by
  rw [attrLess_iff]
  unfold AL
  have cx : cls x = 2 := by
    unfold getDecl at hx
    unfold cls
    split at hx
    · cases hx
    · rename_i h1
      split at hx
      · cases hx
      · rename_i h2; rw [if_neg h1, if_neg h2]
  have cd : cls d = 0 ∨ cls d = 1 := by
    unfold getDecl at hd
    unfold cls
    split at hd
    · rename_i h1; left; rw [if_pos h1]
    · rename_i h1
      split at hd
      · rename_i h2; right; rw [if_neg h1, if_pos h2]
      · cases hd
  rcases cd with c | c
  · exact Or.inl c
  · right; rw [c, cx]; exact ⟨by omega, Or.inl (by omega)⟩

theorem namesNodup_nodup (l : List Attr) (h : NamesNodup l) : l.Nodup := by
  unfold NamesNodup at h
  exact List.Pairwise.imp (fun {a b} hn e => hn (by rw [e]; exact ⟨rfl, rfl⟩)) h

/-! ### one element -/

/-- the hypotheses at one element -/
structure ElemHyp (sp : Bytes) (attrs : List Attr) (ds : Env) (inScope rendered : NsMap) : Prop where
  inv : Inv ds inScope rendered
  aok : AttrsOK attrs
  dok : DeclsOK attrs
  und : ∀ p ∈ utilised sp attrs, p ≠ [] → lookup (bindDecls inScope attrs) p ≠ none
  red : ∀ a ∈ attrs, ∀ p, getDecl a = some p → a.value ≠ [] → lookup rendered p ≠ some a.value
  nox : NoXmlnsName attrs

section
variable {sp : Bytes} {attrs : List Attr} {ds : Env} {inScope rendered : NsMap}

theorem own_facts (H : ElemHyp sp attrs ds inScope rendered) (a : Attr) (ha : a ∈ attrs) (p : Bytes)
    (hg : getDecl a = some p) :
    lookup (bindDecls inScope attrs) p = some a.value ∧ emitP (bindDecls inScope attrs) rendered p = true ∧
    a = mkDecl p a.value ∧ p ≠ sXmlns ∧ p ≠ sXml := by
  have hl := lookup_bind_own attrs H.aok inScope a ha p hg
  have hd := H.dok a ha p hg
  refine ⟨hl, emitP_of_ne _ _ p a.value hl hd.1 (H.red a ha p hg hd.1), attr_eq_mkDecl a p hg (H.aok.2 a ha), ?_, hd.2⟩
  intro hx
  rw [hx] at hg
  exact H.nox a ha (Or.inl (getDecl_xmlns_name a hg))

theorem pend_facts (H : ElemHyp sp attrs ds inScope rendered) (e : Bytes × Bytes) (he : e ∈ ds)
    (hno : ∀ a ∈ attrs, getDecl a ≠ some e.1) :
    lookup (bindDecls inScope attrs) e.1 = some e.2 ∧ emitP (bindDecls inScope attrs) rendered e.1 = true ∧
    selectAttr (declName e.1) attrs = false := by
  have hp := H.inv.pend e he
  have hl : lookup (bindDecls inScope attrs) e.1 = some e.2 := by rw [lookup_bind_none e.1 attrs inScope hno]; exact hp.1
  refine ⟨hl, emitP_of_ne _ _ e.1 e.2 hl hp.2.1 hp.2.2, ?_⟩
  cases hs : selectAttr (declName e.1) attrs with
  | false => rfl
  | true =>
    obtain ⟨a, ha, hg⟩ := select_imp_own attrs H.nox e.1 hs
    exact absurd hg (hno a ha)

theorem none_facts (H : ElemHyp sp attrs ds inScope rendered) (p : Bytes)
    (hno : ∀ a ∈ attrs, getDecl a ≠ some p) (hnd : ∀ e ∈ ds, e.1 ≠ p) :
    lookup (bindDecls inScope attrs) p = lookup rendered p ∧
    (p ∈ utilised sp attrs → emitP (bindDecls inScope attrs) rendered p = false) := by
  have hs : lookup (bindDecls inScope attrs) p = lookup rendered p := by
    rw [lookup_bind_none p attrs inScope hno]; exact H.inv.sync p hnd
  exact ⟨hs, fun hu => emitP_of_sync _ _ p hs (H.und p hu)⟩

theorem uses_A (H : ElemHyp sp attrs ds inScope rendered) (p : Bytes) (hx : p ≠ sXmlns) :
    usesSpace sp (attrs ++ created sp attrs ds) p = usesSpace sp attrs p :=
  usesSpace_append_decls sp p attrs _ hx (created_space sp attrs ds)

theorem mem_created (d : Attr) :
    d ∈ created sp attrs ds ↔ ∃ e ∈ ds, selP sp attrs e = true ∧ d = mkDecl e.1 e.2 := by
  unfold created
  rw [List.mem_map]
  constructor
  · rintro ⟨e, he, rfl⟩
    exact ⟨e, (List.mem_filter.mp he).1, (List.mem_filter.mp he).2, rfl⟩
  · rintro ⟨e, he, hp, rfl⟩
    exact ⟨e, List.mem_filter.mpr ⟨he, hp⟩, rfl⟩

theorem selP_true_iff (e : Bytes × Bytes) :
    selP sp attrs e = true ↔ selectAttr (declName e.1) attrs = false ∧ usesSpace sp attrs e.1 = true := by
  unfold selP
  cases selectAttr (declName e.1) attrs <;> cases usesSpace sp attrs e.1 <;> simp

theorem selQ_true_iff (e : Bytes × Bytes) :
    selQ sp attrs e = true ↔ selectAttr (declName e.1) attrs = false ∧ usesSpace sp attrs e.1 = false := by
  unfold selQ
  cases selectAttr (declName e.1) attrs <;> cases usesSpace sp attrs e.1 <;> simp

theorem mem_dropped_of (A : List Attr) (a : Attr) (p : Bytes) (ha : a ∈ A) (hg : getDecl a = some p)
    (hu : usesSpace sp A p = false) : (p, a.value) ∈ dropped sp A := by
  unfold dropped
  rw [List.mem_filterMap]
  refine ⟨a, ha, ?_⟩
  unfold dropF
  rw [hg]
  simp only
  rw [hu]
  simp

/-- the declarations relic keeps or creates on the element are exactly those Exclusive C14N renders -/
theorem mem_decls_iff (H : ElemHyp sp attrs ds inScope rendered) (d : Attr) :
    (d ∈ keepAttrs sp (attrs ++ created sp attrs ds) ∧ isDecl d = true) ↔
      d ∈ (renderNs (bindDecls inScope attrs) rendered (utilised sp attrs)).2 := by
  rw [(renderNs_closed (bindDecls inScope attrs) (utilised sp attrs) rendered (utilised_nodup sp attrs)).1]
  rw [List.mem_map]
  unfold keepAttrs
  rw [List.mem_filter]
  constructor
  · rintro ⟨⟨hdA, hk⟩, hdecl⟩
    unfold isDecl at hdecl
    cases hg : getDecl d with
    | none => rw [hg] at hdecl; cases hdecl
    | some p =>
      unfold keepP at hk
      rw [hg] at hk
      simp only at hk
      rcases List.mem_append.mp hdA with h | h
      · obtain ⟨f1, f2, f3, f4, f5⟩ := own_facts H d h p hg
        rw [uses_A H p f4] at hk
        have hu := (uses_iff_utilised sp attrs p f4 f5).mp hk
        refine ⟨p, List.mem_filter.mpr ⟨hu, f2⟩, ?_⟩
        rw [f1]; exact f3.symm
      · obtain ⟨e, he, hP, rfl⟩ := (mem_created d).mp h
        rw [getDecl_mkDecl] at hg
        have hpe : e.1 = p := Option.some.inj hg
        obtain ⟨hsel, huse⟩ := (selP_true_iff e).mp hP
        have hno : ∀ a ∈ attrs, getDecl a ≠ some e.1 := by
          intro a ha hga
          rw [own_imp_select attrs H.aok.2 e.1 a ha hga] at hsel
          cases hsel
        obtain ⟨g1, g2, _⟩ := pend_facts H e he hno
        have hu := (uses_iff_utilised sp attrs e.1 (H.inv.ok.2 e he) (H.inv.noxml e he)).mp huse
        refine ⟨e.1, List.mem_filter.mpr ⟨hu, g2⟩, ?_⟩
        rw [g1]; rfl
  · rintro ⟨p, hp, rfl⟩
    obtain ⟨hu, hemit⟩ := List.mem_filter.mp hp
    have hpx : p ≠ sXml := ((mem_utilised sp attrs p).mp hu).1
    refine ⟨?_, by unfold isDecl; rw [getDecl_mkDecl]; rfl⟩
    by_cases hown : ∃ a ∈ attrs, getDecl a = some p
    · obtain ⟨a, ha, hg⟩ := hown
      obtain ⟨f1, f2, f3, f4, f5⟩ := own_facts H a ha p hg
      rw [f1]
      simp only [Option.getD_some]
      rw [← f3]
      refine ⟨List.mem_append_left _ ha, ?_⟩
      unfold keepP
      rw [hg]
      simp only
      rw [uses_A H p f4]
      exact (uses_iff_utilised sp attrs p f4 f5).mpr hu
    · have hno : ∀ a ∈ attrs, getDecl a ≠ some p := fun a ha hg => hown ⟨a, ha, hg⟩
      by_cases hpend : ∃ e ∈ ds, e.1 = p
      · obtain ⟨e, he, rfl⟩ := hpend
        obtain ⟨g1, g2, g3⟩ := pend_facts H e he hno
        have hx := H.inv.ok.2 e he
        have huse := (uses_iff_utilised sp attrs e.1 hx hpx).mpr hu
        rw [g1]
        simp only [Option.getD_some]
        refine ⟨List.mem_append_right _ ((mem_created _).mpr ⟨e, he, (selP_true_iff e).mpr ⟨g3, huse⟩, rfl⟩), ?_⟩
        unfold keepP
        rw [getDecl_mkDecl]
        simp only
        rw [uses_A H e.1 hx]
        exact huse
      · have hnd : ∀ e ∈ ds, e.1 ≠ p := fun e he h => hpend ⟨e, he, h⟩
        have := (none_facts H p hno hnd).2 hu
        rw [this] at hemit
        cases hemit

theorem plain_of_keep (H : ElemHyp sp attrs ds inScope rendered) :
    (keepAttrs sp (attrs ++ created sp attrs ds)).filter (fun a => !isDecl a) = plainAttrs attrs := by
  unfold keepAttrs plainAttrs
  rw [List.filter_filter, List.filter_append]
  have h1 : List.filter (fun a => !isDecl a && keepP sp (attrs ++ created sp attrs ds) a) (created sp attrs ds) = [] := by
    rw [List.filter_eq_nil_iff]
    intro a ha
    obtain ⟨e, _, _, rfl⟩ := (mem_created (sp := sp) (attrs := attrs) (ds := ds) a).mp ha
    unfold isDecl
    rw [getDecl_mkDecl]
    simp
  rw [h1, List.append_nil]
  apply List.filter_congr
  intro a _
  unfold isDecl keepP
  cases getDecl a <;> simp

theorem attrs_agree (H : ElemHyp sp attrs ds inScope rendered) :
    sortAttrs (keepAttrs sp (attrs ++ created sp attrs ds)) =
      (renderNs (bindDecls inScope attrs) rendered (utilised sp attrs)).2 ++ sortAttrs (plainAttrs attrs) := by
  have hOK := AttrsOK_step sp attrs ds H.aok H.inv.ok
  have hnK : NamesNodup (keepAttrs sp (attrs ++ created sp attrs ds)) :=
    List.Pairwise.sublist List.filter_sublist hOK.1
  have hnP : NamesNodup (plainAttrs attrs) := List.Pairwise.sublist List.filter_sublist H.aok.1
  have cf := (renderNs_closed (bindDecls inScope attrs) (utilised sp attrs) rendered (utilised_nodup sp attrs)).1
  -- sortedness of the spec's output
  have hs1 : Sorted (renderNs (bindDecls inScope attrs) rendered (utilised sp attrs)).2 := by
    rw [cf]
    unfold Sorted
    rw [List.pairwise_map]
    refine List.Pairwise.imp ?_ (List.Pairwise.sublist List.filter_sublist (utilised_sorted sp attrs))
    intro p q hpq
    exact attrLess_mkDecl p q _ _ hpq
  have hs : Sorted ((renderNs (bindDecls inScope attrs) rendered (utilised sp attrs)).2 ++ sortAttrs (plainAttrs attrs)) := by
    unfold Sorted
    rw [List.pairwise_append]
    refine ⟨hs1, sortAttrs_sorted _ hnP, ?_⟩
    intro d hd x hx
    rw [cf] at hd
    obtain ⟨p, _, rfl⟩ := List.mem_map.mp hd
    have hx' := (sortAttrs_perm_self _).mem_iff.mp hx
    unfold plainAttrs at hx'
    have hxd := (List.mem_filter.mp hx').2
    have : getDecl x = none := by
      unfold isDecl at hxd
      cases hg : getDecl x with
      | none => rfl
      | some q => rw [hg] at hxd; simp at hxd
    exact attrLess_decl_plain _ x p (getDecl_mkDecl _ _) this
  -- the two lists are permutations of each other
  have hnd2 : (renderNs (bindDecls inScope attrs) rendered (utilised sp attrs)).2.Nodup := by
    rw [cf]
    refine List.Pairwise.map _ ?_ (List.Nodup.sublist List.filter_sublist (utilised_nodup sp attrs))
    intro p q hpq e
    apply hpq
    have := congrArg getDecl e
    rw [getDecl_mkDecl, getDecl_mkDecl] at this
    exact Option.some.inj this
  have hp1 : ((keepAttrs sp (attrs ++ created sp attrs ds)).filter isDecl).Perm
      (renderNs (bindDecls inScope attrs) rendered (utilised sp attrs)).2 := by
    rw [List.perm_ext_iff_of_nodup (List.Nodup.sublist List.filter_sublist (namesNodup_nodup _ hnK)) hnd2]
    intro d
    rw [List.mem_filter]
    exact mem_decls_iff H d
  have hp : ((renderNs (bindDecls inScope attrs) rendered (utilised sp attrs)).2 ++ sortAttrs (plainAttrs attrs)).Perm
      (keepAttrs sp (attrs ++ created sp attrs ds)) := by
    refine List.Perm.trans ?_ (List.filter_append_perm isDecl _)
    rw [plain_of_keep H]
    exact List.Perm.append hp1.symm (sortAttrs_perm_self _)
  have hnq : NamesNodup ((renderNs (bindDecls inScope attrs) rendered (utilised sp attrs)).2 ++ sortAttrs (plainAttrs attrs)) :=
    (hp.pairwise_iff (fun {_ _} h hs => h (sameName_symm hs))).mpr hnK
  exact (sorted_perm_unique _ _ hs (sortAttrs_sorted _ hnK) (hp.trans (sortAttrs_perm_self _).symm) hnq).symm

/-- the invariant holds for the children -/
theorem inv_kids (H : ElemHyp sp attrs ds inScope rendered) :
    Inv (ds.filter (selQ sp attrs) ++ dropped sp (attrs ++ created sp attrs ds)) (bindDecls inScope attrs)
      (renderNs (bindDecls inScope attrs) rendered (utilised sp attrs)).1 := by
  have cl := (renderNs_closed (bindDecls inScope attrs) (utilised sp attrs) rendered (utilised_nodup sp attrs)).2
  -- a dropped declaration is one of the element's own, unused
  have hdrop : ∀ e ∈ dropped sp (attrs ++ created sp attrs ds),
      ∃ a ∈ attrs, getDecl a = some e.1 ∧ e.2 = a.value ∧ usesSpace sp attrs e.1 = false := by
    intro e he
    obtain ⟨a, haA, hg, hu, hv⟩ := mem_dropped sp _ e he
    rcases List.mem_append.mp haA with h | h
    · have hx := (own_facts H a h e.1 hg).2.2.2.1
      rw [uses_A H e.1 hx] at hu
      exact ⟨a, h, hg, hv, hu⟩
    · obtain ⟨g, hgm, hP, rfl⟩ := (mem_created a).mp h
      rw [getDecl_mkDecl] at hg
      have hge : g.1 = e.1 := Option.some.inj hg
      have huse := ((selP_true_iff g).mp hP).2
      rw [hge] at huse
      rw [usesSpace_mono sp e.1 attrs _ huse] at hu
      cases hu
  constructor
  · exact EnvOK_kids sp attrs ds H.aok H.inv.ok
  · intro e he
    rcases List.mem_append.mp he with h | h
    · exact H.inv.noxml e (List.mem_filter.mp h).1
    · obtain ⟨a, ha, hg, _, _⟩ := hdrop e h
      exact (H.dok a ha e.1 hg).2
  · intro e he
    rcases List.mem_append.mp he with h | h
    · obtain ⟨hed, hQ⟩ := List.mem_filter.mp h
      obtain ⟨hsel, huse⟩ := (selQ_true_iff e).mp hQ
      have hno : ∀ a ∈ attrs, getDecl a ≠ some e.1 := by
        intro a ha hga
        rw [own_imp_select attrs H.aok.2 e.1 a ha hga] at hsel
        cases hsel
      obtain ⟨g1, _, _⟩ := pend_facts H e hed hno
      refine ⟨g1, (H.inv.pend e hed).2.1, ?_⟩
      rw [cl e.1]
      have hnu : e.1 ∉ utilised sp attrs := by
        intro hu
        rw [(uses_iff_utilised sp attrs e.1 (H.inv.ok.2 e hed) (H.inv.noxml e hed)).mpr hu] at huse
        cases huse
      rw [if_neg (fun hh => hnu hh.1)]
      exact (H.inv.pend e hed).2.2
    · obtain ⟨a, ha, hg, hv, hu⟩ := hdrop e h
      obtain ⟨f1, _, _, f4, f5⟩ := own_facts H a ha e.1 hg
      have hd := H.dok a ha e.1 hg
      rw [hv]
      refine ⟨f1, hd.1, ?_⟩
      rw [cl e.1]
      have hnu : e.1 ∉ utilised sp attrs := by
        intro hu'
        rw [(uses_iff_utilised sp attrs e.1 f4 f5).mpr hu'] at hu
        cases hu
      rw [if_neg (fun hh => hnu hh.1)]
      exact H.red a ha e.1 hg hd.1
  · intro p hp
    rw [cl p]
    by_cases hown : ∃ a ∈ attrs, getDecl a = some p
    · obtain ⟨a, ha, hg⟩ := hown
      obtain ⟨f1, f2, _, f4, f5⟩ := own_facts H a ha p hg
      have huse : usesSpace sp (attrs ++ created sp attrs ds) p = true := by
        cases hu : usesSpace sp (attrs ++ created sp attrs ds) p with
        | true => rfl
        | false =>
          exact absurd rfl (hp _ (List.mem_append_right _ (mem_dropped_of _ a p (List.mem_append_left _ ha) hg hu)))
      rw [uses_A H p f4] at huse
      have hu := (uses_iff_utilised sp attrs p f4 f5).mp huse
      rw [if_pos ⟨hu, f2⟩, f1]
      rfl
    · have hno : ∀ a ∈ attrs, getDecl a ≠ some p := fun a ha hg => hown ⟨a, ha, hg⟩
      by_cases hpend : ∃ e ∈ ds, e.1 = p
      · obtain ⟨e, he, rfl⟩ := hpend
        obtain ⟨g1, g2, g3⟩ := pend_facts H e he hno
        have huse : usesSpace sp attrs e.1 = true := by
          cases hu : usesSpace sp attrs e.1 with
          | true => rfl
          | false =>
            exact absurd rfl (hp e (List.mem_append_left _ (List.mem_filter.mpr ⟨he, (selQ_true_iff e).mpr ⟨g3, hu⟩⟩)))
        have hu := (uses_iff_utilised sp attrs e.1 (H.inv.ok.2 e he) (H.inv.noxml e he)).mp huse
        rw [if_pos ⟨hu, g2⟩, g1]
        rfl
      · have hnd : ∀ e ∈ ds, e.1 ≠ p := fun e he h => hpend ⟨e, he, h⟩
        obtain ⟨n1, n2⟩ := none_facts H p hno hnd
        by_cases hu : p ∈ utilised sp attrs
        · rw [n2 hu]
          simp only [Bool.false_eq_true, and_false, if_false]
          exact n1
        · rw [if_neg (fun hh => hu hh.1)]
          exact n1
end

theorem serAttrs_append (a b : List Attr) : serAttrs (a ++ b) = serAttrs a ++ serAttrs b := by
  unfold serAttrs; rw [List.flatMap_append]

/-! ### the induction over the tree -/

mutual
theorem elem_agree : ∀ (n : Node) (ds : Env) (inScope rendered : NsMap), Inv ds inScope rendered → WF n →
    nodeDevs inScope rendered n = [] → serKids (walkKidsE ds [n]) = renderKids inScope rendered [n]
  | .elem sp tag attrs kids, ds, inScope, rendered, hinv, hwf, hdev => by
    simp only [WF] at hwf
    simp only [nodeDevs, List.append_eq_nil_iff] at hdev
    obtain ⟨d1, d2, d3, d5⟩ := elemDevs_nil _ _ _ _ hdev.1
    have H : ElemHyp sp attrs ds inScope rendered := ⟨hinv, hwf.1, hwf.2.1, d1, d3, d5⟩
    have ik := kids_agree kids _ _ _ (inv_kids H) hwf.2.2 hdev.2
    rw [walkKidsE_elem]
    simp only [walkKidsE, serKids, renderKids, List.append_nil, walkE, ser, render]
    rw [localStep_closed sp ds attrs hinv.ok]
    simp only
    rw [attrs_agree H, ik, d2, serAttrs_append]
    simp only [List.append_assoc, List.cons_append]
  | .text d c, ds, inScope, rendered, _, _, hdev => by
    cases c with
    | true => simp [nodeDevs] at hdev
    | false => simp [walkKidsE, serKids, renderKids, ser, render]
  | .comment d, ds, inScope, rendered, _, _, _ => by
    simp [walkKidsE, serKids, renderKids, render]
  | .procinst a b, ds, inScope, rendered, _, _, hdev => by simp [nodeDevs] at hdev
  | .directive d, ds, inScope, rendered, _, _, hdev => by simp [nodeDevs] at hdev
theorem kids_agree : ∀ (ns : List Node) (ds : Env) (inScope rendered : NsMap), Inv ds inScope rendered → WFL ns →
    kidsDevs inScope rendered ns = [] → serKids (walkKidsE ds ns) = renderKids inScope rendered ns
  | [], ds, inScope, rendered, _, _, _ => by simp [walkKidsE, serKids, renderKids]
  | n :: rest, ds, inScope, rendered, hinv, hwf, hdev => by
    simp only [WFL] at hwf
    simp only [kidsDevs, List.append_eq_nil_iff] at hdev
    have h1 := elem_agree n ds inScope rendered hinv hwf.1 hdev.1
    have h2 := kids_agree rest ds inScope rendered hinv hwf.2 hdev.2
    have split : ∀ (ds : Env) (n : Node) (rest : List Node),
        serKids (walkKidsE ds (n :: rest)) = serKids (walkKidsE ds [n]) ++ serKids (walkKidsE ds rest) := by
      intro ds n rest
      cases n with
      | elem sp tag attrs kids => simp [walkKidsE, serKids]
      | text d c => simp [walkKidsE, serKids]
      | comment d => simp [walkKidsE, serKids]
      | procinst a b => simp [walkKidsE, serKids]
      | directive d => simp [walkKidsE, serKids]
    rw [split, h1, h2]
    simp [renderKids]
end

/-! ### top level -/

theorem dedupS_nil : ∀ (l : List String), dedupS l = [] → l = []
  | [], _ => rfl
  | a :: as, h => by
    simp only [dedupS] at h
    split at h
    · rename_i hc
      have := dedupS_nil as h
      subst this
      simp at hc
    · cases h

theorem agree_unpack (ctx : List (List Attr)) (root : Node) (h : agree ctx root = true) :
    (∀ attrs ∈ ctx, ∀ a ∈ attrs, ¬ (getDecl a = some [] ∧ a.value = [])) ∧
    (∀ attrs ∈ ctx, NoXmlnsName attrs) ∧ nodeDevs (ctxMap ctx) [] root = [] := by
  unfold agree at h
  have h' : devs ctx root = [] := by simpa using h
  unfold devs at h'
  have h2 := dedupS_nil _ h'
  simp only [List.append_eq_nil_iff] at h2
  obtain ⟨⟨c1, c2⟩, c3⟩ := h2
  refine ⟨?_, ?_, c3⟩
  · intro attrs hat a ha hbad
    split at c1
    · cases c1
    · rename_i hn
      apply hn
      rw [List.any_eq_true]
      refine ⟨attrs, hat, ?_⟩
      rw [List.any_eq_true]
      exact ⟨a, ha, by simpa using hbad⟩
  · intro attrs hat a ha hbad
    split at c2
    · cases c2
    · rename_i hn
      apply hn
      rw [List.any_eq_true]
      refine ⟨attrs, hat, ?_⟩
      rw [List.any_eq_true]
      exact ⟨a, ha, by simpa using hbad⟩

theorem canon_eq_excC14N_of_inv (ctx : List (List Attr)) (sp tag : Bytes) (attrs : List Attr) (kids : List Node)
    (hinv : Inv (collectSpaces ctx) (ctxMap ctx) []) (hwf : WF (.elem sp tag attrs kids))
    (hdev : nodeDevs (ctxMap ctx) [] (.elem sp tag attrs kids) = []) :
    canon ctx (.elem sp tag attrs kids) = excC14N ctx (.elem sp tag attrs kids) := by
  rw [canon_eq_walkE]
  unfold excC14N
  have := elem_agree _ _ _ _ hinv hwf hdev
  rw [walkKidsE_elem] at this
  simpa [walkKidsE, serKids, renderKids] using this

theorem inv_nil : Inv [] [] [] where
  ok := ⟨List.Pairwise.nil, fun e he => by cases he⟩
  noxml := fun e he => by cases he
  pend := fun e he => by cases he
  sync := fun _ _ => rfl

end Relic.Xml

/-
  C13 — Interrupted output never leaves a torn or missing file.
  Property theorems about `Relic.Model.FS` (model of the system calls issued by lib/atomicfile,
  lib/binpatch.applyRewrite, signers.fileProducer.Apply, signers/msi and signers/pgp `Apply`).
  The tie to the real code is by system-call traces: `checklib/props/c13.py` records every scenario
  under strace, evaluates `atomicShape` and `firstBad` (the invariant on every prefix) on the recorded
  trace in the native driver, and compares the real directory after a SIGKILL at every call with
  `run` of the calls that completed.
-/
import Relic.Proofs.FS
namespace Relic.Props.C13
open Relic Relic.FS

/-- **trace_shape_sound.** Any observed trace that passes the decidable shape test keeps, at every
    system-call boundary, `dest` = complete old or complete final content, `dest` present if it was,
    and `input` untouched – from every initial state with no open descriptors. -/
theorem trace_shape_sound (dest input : String) (s0 : State) (h0 : Init s0) (tr : List Op)
    (hs : atomicShape dest input tr = true) :
    ∀ k, Inv dest input s0 (run (tr.take k) s0) (run tr s0) := by
  simp only [atomicShape, Bool.and_eq_true, decide_eq_true_eq] at hs
  exact shape_sound_from dest input hs.1 s0 h0.wf tr ⟨[], []⟩ s0 (relA_init dest input s0 h0) hs.2

/-- the initial state the trace checker builds from the real directory listing satisfies `Init`, so
    `trace_shape_sound` applies to every trace the driver evaluates -/
theorem mkState_init (l : List (String × Bytes)) : Init (mkState l) := by
  refine ⟨fun _ => rfl, ?_⟩
  intro p i h
  simp only [mkState] at h ⊢
  exact (List.findIdx?_eq_some_iff_getElem.mp h).1

/-- **checker_verdict_sound.** What a `shape=1` answer of the driver means for a recorded trace `tr` of a
    process started in a directory with listing `l`: at every system-call boundary the invariant holds. -/
theorem checker_verdict_sound (dest input : String) (l : List (String × Bytes)) (tr : List Op)
    (hs : atomicShape dest input tr = true) :
    ∀ k, FS.Inv dest input (mkState l) (run (tr.take k) (mkState l)) (run tr (mkState l)) :=
  trace_shape_sound dest input (mkState l) (mkState_init l) tr hs

/-- what the commit protocol leaves after normal completion: the new content at `dest`, no temp file,
    descriptor closed -/
theorem commit_final (tmp dest : String) (fd : Nat) (chunks : List Bytes) (s0 : State)
    (h0 : Init s0) (htd : tmp ≠ dest) (hfree : s0.names tmp = none) :
    lookup (run (commitProg tmp dest fd chunks) s0) dest = some chunks.flatten ∧
    (run (commitProg tmp dest fd chunks) s0).names tmp = none ∧
    (run (commitProg tmp dest fd chunks) s0).fds fd = none := by
  simp only [commitProg, run, run_append]
  generalize hs1 : step s0 (.openF tmp fd true true false) = s1
  have hn1 : s1.names tmp = some s0.next := by subst hs1; simp [step, hfree]
  have hd0 : s1.data s0.next = [] := by subst hs1; simp [step, hfree]
  have hf : s1.fds fd = some ⟨s0.next, (s1.data s0.next).length⟩ := by
    rw [hd0]; subst hs1; simp [step, hfree]
  obtain ⟨a, b, c, _⟩ := run_writes fd s0.next chunks s1 hf
  generalize run (chunks.map (Op.write fd)) s1 = s2 at a b c
  have hn2 : s2.names tmp = some s0.next := by rw [c]; exact hn1
  simp only [step, b]
  simp [lookup, hn2, htd, upd, Ne.symm htd, a, hd0]

/-- the commit program passes the shape test -/
theorem commit_shape (tmp dest input : String) (fd : Nat) (chunks : List Bytes)
    (hdi : dest ≠ input) (htd : tmp ≠ dest) (hti : tmp ≠ input) :
    atomicShape dest input (commitProg tmp dest fd chunks) = true := by
  simp only [atomicShape, commitProg, shapeFrom, isCommit, stepA]
  simp only [hdi, htd, hti, ne_eq, not_false_eq_true, decide_true, Bool.and_self, Bool.true_and,
    List.contains_nil, Bool.false_eq_true, if_false, if_true]
  rw [shape_writes]
  simp [shapeFrom, isCommit, stepA, htd, hti]

/-- **commit_atomic.** For `P = [create tmp (O_EXCL); write*; fchmod; close; rename tmp dest]` with ANY
    list of write chunks: every state reachable by a prefix of `P` has `dest` = old content or
    exactly the concatenation of all chunks, `dest` present if it was present, `input` untouched;
    after the whole program `dest` = new content and the temp file is gone. -/
theorem commit_atomic (tmp dest input : String) (fd : Nat) (chunks : List Bytes) (s0 : State)
    (h0 : Init s0) (hdi : dest ≠ input) (htd : tmp ≠ dest) (hti : tmp ≠ input)
    (hfree : s0.names tmp = none) :
    (∀ k, let s := run ((commitProg tmp dest fd chunks).take k) s0
          (lookup s dest = lookup s0 dest ∨ lookup s dest = some chunks.flatten) ∧
          (lookup s0 dest ≠ none → lookup s dest ≠ none) ∧
          lookup s input = lookup s0 input) ∧
    lookup (run (commitProg tmp dest fd chunks) s0) dest = some chunks.flatten ∧
    (run (commitProg tmp dest fd chunks) s0).names tmp = none := by
  obtain ⟨f1, f2, _⟩ := commit_final tmp dest fd chunks s0 h0 htd hfree
  refine ⟨?_, f1, f2⟩
  intro k
  have := trace_shape_sound dest input s0 h0 _ (commit_shape tmp dest input fd chunks hdi htd hti) k
  simp only [FS.Inv, f1] at this
  exact this

/-- a write cut short by the kill is covered: the state after the whole chunks `pre` plus a prefix `c₁`
    of the next chunk `c₁ ++ c₂` is a prefix state of the re-chunked program, which writes the same bytes -/
theorem partial_write_covered (tmp dest : String) (fd : Nat) (pre post : List Bytes) (c₁ c₂ : Bytes) :
    (commitProg tmp dest fd (pre ++ c₁ :: c₂ :: post)).take (pre.length + 2) =
      .openF tmp fd true true false :: (pre.map (.write fd) ++ [.write fd c₁]) ∧
    (pre ++ c₁ :: c₂ :: post).flatten = (pre ++ (c₁ ++ c₂) :: post).flatten := by
  constructor
  · have e : commitProg tmp dest fd (pre ++ c₁ :: c₂ :: post) =
        (.openF tmp fd true true false :: (pre.map (.write fd) ++ [.write fd c₁])) ++
          ((c₂ :: post).map (.write fd) ++ [.fchmod fd 420, .close fd, .rename tmp dest]) := by
      simp [commitProg]
    rw [e]
    exact List.take_left' (by simp)
  · simp

/-- **unlink_then_rename_not_atomic.** The program the unchanged tree runs (`atomicfile.Commit`:
    `… close; unlink dest; rename tmp dest`) violates the invariant whenever the destination existed:
    the prefix that ends after the `unlink` has no `dest`. -/
theorem unlink_then_rename_not_atomic (tmp dest input : String) (fd : Nat) (chunks : List Bytes) (s0 : State)
    (hex : lookup s0 dest ≠ none) :
    ¬ ∀ k, Inv dest input s0 (run ((commitProgUnlinkFirst tmp dest fd chunks).take k) s0)
                          (run (commitProgUnlinkFirst tmp dest fd chunks) s0) := by
  intro h
  have hk := (h (chunks.length + 4)).2.1 hex
  apply hk
  have e : (commitProgUnlinkFirst tmp dest fd chunks).take (chunks.length + 4) =
      (.openF tmp fd true true false :: (chunks.map (.write fd) ++ [.fchmod fd 420, .close fd])) ++ [.unlink dest] := by
    have e' : commitProgUnlinkFirst tmp dest fd chunks =
        ((.openF tmp fd true true false :: (chunks.map (.write fd) ++ [.fchmod fd 420, .close fd])) ++ [.unlink dest])
          ++ [.rename tmp dest] := by
      simp [commitProgUnlinkFirst]
    rw [e']
    exact List.take_left' (by simp)
  rw [e, run_append]
  simp [run, step, lookup, upd]

/-- the shape test rejects the unlink-first program -/
theorem unlink_first_shape_rejected (tmp dest input : String) (fd : Nat) (chunks : List Bytes)
    (hdi : dest ≠ input) (htd : tmp ≠ dest) (hti : tmp ≠ input) :
    atomicShape dest input (commitProgUnlinkFirst tmp dest fd chunks) = false := by
  simp only [atomicShape, commitProgUnlinkFirst, shapeFrom, isCommit, stepA]
  simp only [hdi, htd, hti, ne_eq, not_false_eq_true, decide_true, Bool.and_self, Bool.true_and,
    List.contains_nil, Bool.false_eq_true, if_false, if_true]
  rw [shape_writes]
  simp [shapeFrom, isCommit, stepA]

/-- **abort_path_clean.** A handled error after any number of writes followed by the deferred
    `atomicFile.Close` (`close; unlink tmp`): `dest` keeps its old content at every prefix, `input` is
    untouched, and no temp file remains at the end. -/
theorem abort_path_clean (tmp dest input : String) (fd : Nat) (chunks : List Bytes) (s0 : State)
    (h0 : Init s0) (hdi : dest ≠ input) (htd : tmp ≠ dest) (hti : tmp ≠ input) :
    (∀ k, lookup (run ((abortProg tmp fd chunks).take k) s0) dest = lookup s0 dest ∧
          lookup (run ((abortProg tmp fd chunks).take k) s0) input = lookup s0 input) ∧
    (run (abortProg tmp fd chunks) s0).names tmp = none := by
  have hshape : ∀ k, shapeFrom dest input ⟨[], []⟩ ((abortProg tmp fd chunks).take k) = true ∧
      ∀ op ∈ (abortProg tmp fd chunks).take k, isCommit dest input op = false := by
    intro k
    have hall : shapeFrom dest input ⟨[], []⟩ (abortProg tmp fd chunks) = true := by
      simp only [abortProg, shapeFrom, isCommit, stepA]
      simp only [htd, hti, ne_eq, not_false_eq_true, decide_true, Bool.and_self,
        List.contains_nil, Bool.false_eq_true, if_false, if_true]
      rw [shape_writes]
      simp [shapeFrom, isCommit, stepA, htd, hti]
    have hnc : ∀ op ∈ abortProg tmp fd chunks, isCommit dest input op = false := by
      intro op hop
      simp only [abortProg, List.mem_cons, List.mem_append, List.mem_map, List.mem_nil_iff, or_false] at hop
      rcases hop with rfl | ⟨c, _, rfl⟩ | rfl | rfl
      · rfl
      · rfl
      · rfl
      · rfl
    refine ⟨?_, fun op hop => hnc op (List.mem_of_mem_take hop)⟩
    -- a prefix of a commit-free well-shaped trace is well-shaped
    have pre : ∀ (tr : List Op) (sh : Sh) (k : Nat), (∀ op ∈ tr, isCommit dest input op = false) →
        shapeFrom dest input sh tr = true → shapeFrom dest input sh (tr.take k) = true := by
      intro tr
      induction tr with
      | nil => intro sh k _ h; simpa using h
      | cons op rest ih =>
        intro sh k hn h
        cases k with
        | zero => simp [shapeFrom]
        | succ k =>
          simp only [List.take_succ_cons, shapeFrom, hn op (List.mem_cons_self), Bool.false_eq_true, if_false] at h ⊢
          split at h
          · cases h
          next sh' hst =>
            exact ih sh' k (fun o ho => hn o (List.mem_cons_of_mem _ ho)) h
    exact pre _ _ k hnc hall
  constructor
  · intro k
    obtain ⟨hs, hn⟩ := hshape k
    obtain ⟨sh', r⟩ := relA_run hdi _ _ _ (relA_init dest input s0 h0) hs hn
    exact ⟨r.lookup_old h0.wf dest r.nd, r.lookup_old h0.wf input r.ni⟩
  · have e : abortProg tmp fd chunks =
        (.openF tmp fd true true false :: (chunks.map (.write fd) ++ [.close fd])) ++ [.unlink tmp] := by
      simp [abortProg]
    rw [e, run_append]
    simp [run, step]

/-- **leak_when_close_skipped.** An error return that skips `Close` (`signers.fileProducer.Apply` and
    `atomicfile.WriteInPlace` when their copy fails on the unchanged tree): the temp file stays. -/
theorem leak_when_close_skipped (tmp : String) (fd : Nat) (chunks : List Bytes) (s0 : State)
    (hfree : s0.names tmp = none) :
    (run (leakProg tmp fd chunks) s0).names tmp ≠ none := by
  simp only [leakProg, run]
  have h1 : (step s0 (.openF tmp fd true true false)).names tmp = some s0.next := by
    simp [step, hfree]
  have hf : (step s0 (.openF tmp fd true true false)).fds fd =
      some ⟨s0.next, ((step s0 (.openF tmp fd true true false)).data s0.next).length⟩ := by
    simp [step, hfree]
  obtain ⟨_, _, c, _⟩ := run_writes fd s0.next chunks _ hf
  rw [c, h1]
  simp

/-! ### non-vacuity: concrete states and traces -/

/-- a directory with `out.bin` (old content 1,2,3) and `in.bin`, nothing open -/
def s0ex : State :=
  { names := fun p => if p = "out.bin" then some 0 else if p = "in.bin" then some 1 else none,
    data := fun i => if i = 0 then [1, 2, 3] else if i = 1 then [9, 9] else [],
    mode := fun _ => 420, fds := fun _ => none, next := 2 }

example : Init s0ex := ⟨fun _ => rfl, by
  intro p i h
  simp only [s0ex] at h ⊢
  split at h
  · cases h; omega
  · split at h
    · cases h; omega
    · cases h⟩

example : lookup s0ex "out.bin" ≠ none := by simp [lookup, s0ex]

/-- hypotheses of `commit_atomic` are satisfiable with a pre-existing destination and three chunks -/
example : lookup (run (commitProg "out.bin.tmp1" "out.bin" 3 [[4], [], [5, 6]]) s0ex) "out.bin" = some [4, 5, 6] :=
  (commit_atomic "out.bin.tmp1" "out.bin" "in.bin" 3 [[4], [], [5, 6]] s0ex
    ⟨fun _ => rfl, by
      intro p i h
      simp only [s0ex] at h ⊢
      split at h
      · cases h; omega
      · split at h
        · cases h; omega
        · cases h⟩
    (by decide) (by decide) (by decide) (by simp [s0ex])).2.1

/-- a copy-then-edit trace (copy, positional write, truncate, commit) passes the shape test … -/
example : atomicShape "out.bin" "in.bin"
    [.openF "in.bin" 3 false false false, .openF "out.bin.tmp7" 4 true true false, .lseek 3 0, .copy 3 4 2,
     .lseek 4 0, .close 3, .pwrite 4 1 [7, 7], .ftruncate 4 2, .fchmod 4 420, .close 4,
     .rename "out.bin.tmp7" "out.bin"] = true := by decide

/-- … while writing into the destination, committing before the last write, or unlinking first do not -/
example : atomicShape "out.bin" "in.bin" [.openF "out.bin" 3 true false true, .write 3 [1], .close 3] = false := by decide
example : atomicShape "out.bin" "in.bin"
    [.openF "t" 3 true true false, .write 3 [1], .rename "t" "out.bin", .write 3 [2], .close 3] = false := by decide
example : atomicShape "out.bin" "in.bin"
    [.openF "t" 3 true true false, .write 3 [1], .close 3, .unlink "out.bin", .rename "t" "out.bin"] = false := by decide

/-- the concrete witness for F3: after `unlink` the destination that existed is gone -/
example : lookup (run ((commitProgUnlinkFirst "t" "out.bin" 3 [[4]]).take 5) s0ex) "out.bin" = none := by
  simp [commitProgUnlinkFirst, run, step, lookup, upd, s0ex]

end Relic.Props.C13

/-
  Relic.Model.PEChecksum — executable model of `peChecksum` in /repo/lib/authenticode/checksum.go
  (`NewPEChecksum`, `Write`, `Sum`).  16-bit folding and the `uint32` size are explicit `%`.

  `cksumPos : Option Nat` — `none` is Go's `-1` ("no checksum field / already passed").
-/
import Relic.Base.Bytes
namespace Relic.PEChecksum
open Relic

structure St where
  cksumPos : Option Nat
  sum : Nat
  size : Nat
  odd : Bool
  deriving Repr, DecidableEq

/-- `NewPEChecksum(peStart)` (`peStart` is an `int`; `≤ 0` means "no field") -/
def new (peStart : Int) : St :=
  ⟨if peStart ≤ 0 then none else some (peStart.toNat + 88), 0, 0, false⟩

/-- `sum += val; sum = 0xffff & (sum + (sum >> 16))` in `uint32` -/
def fold1 (sum val : Nat) : Nat :=
  let t := (sum + val) % 4294967296
  ((t + t / 65536) % 4294967296) % 65536

/-- the word loop `for i := 0; i < n; i += 2` over the (padded) data; `ck` is the local `ckpos`
    (`none` = `-1`), `i` the index of the first byte of `d` -/
def loop (ck : Option Nat) (i : Nat) (sum : Nat) : Bytes → Nat
  | a :: b :: rest =>
    let val := if ck = some i ∨ ck.map (· + 2) = some i then 0 else b.toNat * 256 + a.toNat
    loop ck (i + 2) (fold1 sum val) rest
  | _ => sum

/-- `Write`: `.err` is Go's `return 0, errors.New("odd write")` (state unchanged) -/
def write (s : St) (d : Bytes) : Res St :=
  if s.odd then .err "odd-write"
  else
    let n := d.length
    let d' := if n % 2 ≠ 0 then d ++ [0] else d
    let ck : Option Nat × Option Nat :=     -- (local ckpos, new h.cksumPos)
      match s.cksumPos with
      | some p => if p > n then (none, some (p - n)) else (some p, none)
      | none => (none, none)
    .ok ⟨ck.2, loop ck.1 0 s.sum d', (s.size + n) % 4294967296, decide (n % 2 ≠ 0)⟩

def writes (s : St) : List Bytes → Res St
  | [] => .ok s
  | d :: ds =>
    match write s d with
    | .ok s' => writes s' ds
    | .err e => .err e
    | .panic p => .panic p
    | .diverge => .diverge

/-- `Sum(nil)`: the 32-bit value (written little-endian by Go) -/
def sumVal (s : St) : Nat :=
  (((s.sum + s.sum / 65536) % 4294967296) % 65536 + s.size) % 4294967296

def sum (s : St) : Bytes := leBytes 4 (sumVal s)

end Relic.PEChecksum

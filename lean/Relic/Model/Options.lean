/-
  Relic.Model.Options — the table of which signer type accepts which key type and digest
  (C01 `option_table`).  Transcribed from the signers' source and validated *exhaustively*
  against the real signers on every run (harness/e2e).
-/
import Relic.Base.Bytes
namespace Relic.Options

inductive SigType | pecoff | msi | cab | ps | jar | apk | appx | vsix | xap | cat | deb | rpm | dmg | xar | pgp
  deriving Repr, DecidableEq
inductive KeyKind | rsa | p256 | p384 | p521
  deriving Repr, DecidableEq
inductive Hash | sha1 | sha224 | sha256 | sha384 | sha512
  deriving Repr, DecidableEq

inductive Verdict
  | ok
  | refusedKey    -- the signer needs a PGP certificate and the key has none (PGP entities exist for RSA keys only here)
  | refusedHash   -- the digest (possibly in combination with a flag) is not supported by the type
  deriving Repr, DecidableEq

def parseType : String → Option SigType
  | "pe-coff" => some .pecoff | "msi" => some .msi | "cab" => some .cab | "ps" => some .ps | "jar" => some .jar
  | "apk" => some .apk | "appx" => some .appx | "vsix" => some .vsix | "xap" => some .xap | "cat" => some .cat
  | "deb" => some .deb | "rpm" => some .rpm | "dmg" => some .dmg | "xar" => some .xar | "pgp" => some .pgp | _ => none
def parseKey : String → Option KeyKind
  | "rsa" => some .rsa | "p256" => some .p256 | "p384" => some .p384 | "p521" => some .p521 | _ => none
def parseHash : String → Option Hash
  | "sha1" => some .sha1 | "sha224" => some .sha224 | "sha256" => some .sha256 | "sha384" => some .sha384
  | "sha512" => some .sha512 | _ => none

/-- signers whose certificate type is PGP -/
def needsPgp : SigType → Bool
  | .deb | .rpm | .pgp => true
  | _ => false

def hashOk : SigType → Hash → Bool
  | .apk, h => h == .sha256 || h == .sha512                 -- APK signature scheme v2 algorithm ids
  | .appx, h => h == .sha256 || h == .sha384 || h == .sha512
  | .dmg, h => h == .sha1 || h == .sha256 || h == .sha384    -- code directory hash types
  | .xar, h => h == .sha1 || h == .sha256 || h == .sha512
  | .deb, h => h != .sha1                                    -- go-crypto refuses SHA-1 signatures
  | .pgp, h => h != .sha1
  | _, _ => true

/-- page hashes exist for SHA-1 and SHA-256 only -/
def pageHashOk (h : Hash) : Bool := h == .sha1 || h == .sha256

def verdict (t : SigType) (k : KeyKind) (h : Hash) (pageHashes : Bool) : Verdict :=
  if needsPgp t && k != .rsa then .refusedKey
  else if !hashOk t h then .refusedHash
  else if t == .pecoff && pageHashes && !pageHashOk h then .refusedHash
  else .ok

end Relic.Options

/-
  C09 — the stream a text-mode OpenPGP signature is computed over does not depend on how the document is split into
  reads / writes (standalone file, upload stream, HTTP chunks): the canonical-text writer carries its state across calls.
-/
import Relic.Proofs.PgpDetached
namespace Relic.Props.C09
open Relic Relic.PgpDetached

/-- **pgp_canon_split_independent.** Any two deliveries of the same document give the same hashed stream. -/
theorem pgp_canon_split_independent (t : SigType) (a b : List Bytes) (h : a.flatten = b.flatten) :
    signHashed t a = signHashed t b := by
  cases t <;> simp [signHashed, canonWrites_eq, h]

example : signHashed .text [[97, 13], [10, 98, 10]] = signHashed .text [[97, 13, 10, 98], [10]] := by decide

end Relic.Props.C09

/-
  C08 — Re-signing replaces the signature; digests ignore existing signatures.   xar / flat package part.

  What is signed is the hash of the compressed table of contents; the table of contents contains the signature ELEMENTS
  (sizes, certificates) but not the signature bytes.  `xar_digest_ignores_signature`: the document `Sign` serialises for an
  already signed archive is, node for node, the document it serialises for the archive before that signature — every
  document, every pair of keys / hashes, no hypothesis on its shape.  `xar_sigarea_is_sum`: the tiling test of the repaired `removeSigs` (5d6eee4) returns the same number.
  `xar_resign_replaces`: at the level of files the
  second signing removes exactly what the first one wrote (header, TOC, signature area) and the result is the file that
  signing the original once with the second key produces.  `xar_history`: hence for every sequence of successful signings.
  Hash kinds: one `hashType` drives the header field, the `style` of `<checksum>`, the TOC hash and the CMS digest; `Verify`
  takes the kind from the header and never compares it with the `style` attribute (`xar_checksum_style_unchecked`).
-/
import Relic.Proofs.XarSign
namespace Relic.Props.C08
open Relic Relic.Xar

/-- **xar_digest_ignores_signature.**  For every document `t` with a `/xar/toc`, every two keys / hashes: the second `Sign`
    finds as old signature size exactly what the first reserved, and serialises the document it serialises for `t` itself. -/
theorem xar_digest_ignores_signature (N : Num) (ea : Bool) (hN : N.Laws) (hk1 hk2 : HK) (ki1 ki2 : KeyInfo) (h1 : ki1.small) (t : Xml)
    (p1 p2 : Prep) (e1 : prep N hk1 ki1 t = some p1) (e2 : prep N hk2 ki2 t = some p2) :
    ∃ p2', prep N hk2 ki2 (p1.tree N ea) = some p2' ∧ p2'.origSig = p1.newSig ∧ p2'.newSig = p2.newSig ∧
      p2'.tree N ea = p2.tree N ea :=
  prep_resign N ea hN hk1 hk2 ki1 ki2 h1 t p1 p2 e1 e2

/-- **xar_sigarea_is_sum.**  The tiling test of the repaired `removeSigs` changes which archives are accepted, not the number
    it returns: the sum of the `<size>` values of the removed elements, as before. -/
theorem xar_sigarea_is_sum (N : Num) (hN : N.Laws) (ks : List Xml) (s : Int) (h : checkSigAreas N ks = .ok s) :
    s = (removeSigs N ks).1 := checkSigAreas_eq_sum N hN ks s h

/-- **xar_resign_layout_accepted.**  The layout tests fix 5d6eee4 put into `removeSigs` accept what `Sign` itself wrote: the
    three elements `reserveSignatures` inserted are readable, at most 10^6 bytes each (a fact about the key: `KeyInfo.fits`),
    and tile the heap from offset 0 to the reserved size.  So the etree surgery of the next `Sign` goes through and finds as
    old signature size exactly the space the previous one reserved. -/
theorem xar_resign_layout_accepted (N : Num) (ea : Bool) (hN : N.Laws) (hk1 hk2 : HK) (ki1 ki2 : KeyInfo) (h1 : ki1.small)
    (hfit : ki1.fits) (t : Xml) (p1 p2 : Prep) (e1 : prep N hk1 ki1 t = some p1) (e2 : prep N hk2 ki2 t = some p2) :
    ∃ q, prepFx N hk2 ki2 (p1.tree N ea) = .ok q ∧ q.origSig = p1.newSig ∧ q.newSig = p2.newSig ∧ q.tree N ea = p2.tree N ea := by
  obtain ⟨p2', hpp, ho, hns, htr⟩ := prep_resign N ea hN hk1 hk2 ki1 ki2 h1 t p1 p2 e1 e2
  obtain ⟨tks', htk, hck⟩ := tree_checkSigAreas N ea hN hk1 ki1 hfit t p1 e1
  refine ⟨p2', ?_, ho, hns, htr⟩
  unfold prepFx
  simp only [hpp, htk, hck, ← ho]

example (N : Num) (hk : HK) (ki : KeyInfo) :
    (prep N hk ki (.el "xar" [] [.el "toc" [] [.el "checksum" [] [], .el "file" [] []]])).isSome = true := by
  simp [prep, splitFirst]

/-- **xar_resign_replaces.**  Let `Sign` with key 1 succeed on `f` and its output be applied (`g`).  If `Sign` with key 2
    succeeds on `g` and on `f`, then on `g` it signs the same document, reserves the same space, takes as old signature size
    what key 1 reserved, and replaces exactly the bytes key 1 wrote: the new file is the file signing `f` with key 2 gives. -/
theorem xar_resign_replaces (C : Crypto) (E : Env) (hE : E.Laws) (hH : ∀ k b, (C.H k b).length = k.size)
    (f : Bytes) (hk1 hk2 : HK) (ki1 ki2 : KeyInfo) (hki1 : ki1.small) (so1 so2 so2' : SignOut) (rsa1 cms1 body1 : Bytes)
    (hs1 : (signPlan E f hk1 ki1).run C = .ok so1) (hb1 : newBytes C E so1 rsa1 cms1 = some body1)
    (hzl : (E.encode so1.tree).1.length < 2 ^ 40) (hul : (E.encode so1.tree).2 < 2 ^ 63)
    (hs2 : (signPlan E f hk2 ki2).run C = .ok so2)
    (hs2' : (signPlan E (written f so1.origTotal body1) hk2 ki2).run C = .ok so2') :
    so2'.tree = so2.tree ∧ so2'.newSig = so2.newSig ∧ so2'.origSig = so1.newSig ∧ so2'.origTotal = body1.length ∧
    so2.origTotal = so1.origTotal ∧
    ∀ rsa cms body2, newBytes C E so2 rsa cms = some body2 →
      newBytes C E so2' rsa cms = some body2 ∧
      written (written f so1.origTotal body1) so2'.origTotal body2 = written f so1.origTotal body2 := by
  obtain ⟨hd, k0, t, n, q1, hp, _, _, hdec, hfx1, hso1, _⟩ := signPlanG_ok true C E f hk1 ki1 so1 hs1
  obtain ⟨hd2, k02, t2, n2, q2, hp2, _, _, hdec2, hfx2, hso2, _⟩ := signPlanG_ok true C E f hk2 ki2 so2 hs2
  simp only [↓reduceIte] at hfx1 hfx2
  rw [hp] at hp2
  simp only [Except.ok.injEq, Prod.mk.injEq] at hp2
  obtain ⟨rfl, rfl⟩ := hp2
  rw [hdec] at hdec2
  simp only [Option.some.injEq, Prod.mk.injEq] at hdec2
  obtain ⟨rfl, rfl⟩ := hdec2
  obtain ⟨p1, tks1, s1, hprep1, htk1, hck1, rfl⟩ := prepFx_ok E.num hk1 ki1 t q1 hfx1.1
  obtain ⟨p2, tks2, s2, hprep2, htk2, hck2, rfl⟩ := prepFx_ok E.num hk2 ki2 t q2 hfx2.1
  have hc0 : 0 ≤ hd.clen := hfx1.2.1
  rw [htk1] at htk2
  simp only [Option.some.injEq] at htk2
  subst htk2
  rw [hck1] at hck2
  simp only [Except.ok.injEq] at hck2
  subst hck2
  have hs1sum := checkSigAreas_eq_sum E.num hE.num tks1 s1 hck1
  obtain ⟨hfit, hbody⟩ := newBytes_some C E so1 rsa1 cms1 body1 hb1
  obtain ⟨ras, pre, tas, tks, post, ht1eq, hpre1, hp1eq⟩ := prep_some E.num hk1 ki1 _ p1 hprep1
  obtain ⟨ras2, pre2, tas2, tks2, post2, ht2eq, hpre2, hp2eq⟩ := prep_some E.num hk2 ki2 _ p2 hprep2
  have htkeq : tks1 = tks := by
    rw [ht1eq, tocKids_build _ _ _ _ _ hpre1] at htk1
    simpa using htk1.symm
  have htkeq2 : tks1 = tks2 := by
    rw [ht2eq, tocKids_build _ _ _ _ _ hpre2] at htk1
    simpa using htk1.symm
  have ho1 : p1.origSig = w64 s1 := by rw [hp1eq, hs1sum, htkeq]
  have ho2 : p2.origSig = w64 s1 := by rw [hp2eq, hs1sum, htkeq2]
  have hk1e : so1.hk = hk1 := by rw [hso1]
  have ht1 : so1.tree = p1.tree E.num true := by rw [hso1]; exact tree_congr E.num true p1 s1 ho1
  have ht2 : so2.tree = p2.tree E.num true := by rw [hso2]; exact tree_congr E.num true p2 s1 ho2
  have hn1 : so1.newSig = p1.newSig := by rw [hso1]
  have hrb := reserve_size_bounds E.num hk1 ki1 hki1
  have hn1' : p1.newSig = (reserve E.num hk1 ki1).2 := by rw [hp1eq]
  have hsz := hk1.size_le
  -- the file key 1 wrote
  have hg : written f so1.origTotal body1 =
      (newHdr hk1 (E.encode so1.tree).1.length (E.encode so1.tree).2).enc ++ ((E.encode so1.tree).1 ++
        (C.H hk1 (E.encode so1.tree).1 ++ rsa1 ++ cms1 ++ zeros (so1.newSig.toNat - (so1.hk.size + rsa1.length + cms1.length)) ++
          f.drop so1.origTotal.toNat)) := by
    simp [written, hbody, hk1e, List.append_assoc]
  obtain ⟨hd', k0', t', n', q', hp', _, _, hdec', hfx', hso2', _⟩ := signPlanG_ok true C E _ hk2 ki2 so2' hs2'
  simp only [↓reduceIte] at hfx'
  obtain ⟨p', tks', s', hprep', htk', hck', rfl⟩ := prepFx_ok E.num hk2 ki2 t' q' hfx'.1
  rw [hg, parseHeader_newHdr hk1 _ _ (by omega) hul] at hp'
  simp only [Except.ok.injEq, Prod.mk.injEq] at hp'
  obtain ⟨rfl, rfl⟩ := hp'
  have hreg : region (written f so1.origTotal body1) 28 ((E.encode so1.tree).1.length : Int) = (E.encode so1.tree).1 := by
    rw [hg]
    unfold region
    split
    · rename_i h0
      have : (E.encode so1.tree).1 = [] := List.length_eq_zero_iff.mp (by omega)
      simp [this]
    · simp only [Int.toNat_natCast]
      exact sl_cat _ _ _ 28 _ (by simp [Hdr.enc_length]) rfl
  simp only [newHdr] at hdec'
  rw [hreg, hE.dec_enc so1.tree] at hdec'
  simp only [Option.some.injEq, Prod.mk.injEq] at hdec'
  obtain ⟨rfl, rfl⟩ := hdec'
  obtain ⟨p2'', hpp, ho, hns, htr⟩ := prep_resign E.num true hE.num hk1 hk2 ki1 ki2 hki1 t p1 p2 hprep1 hprep2
  rw [ht1, hpp] at hprep'
  simp only [Option.some.injEq] at hprep'
  subst hprep'
  obtain ⟨tksx, htx, hsumx⟩ := tree_tocKids E.num true hE.num hk1 ki1 hki1 t p1 hprep1
  rw [ht1, htx] at htk'
  simp only [Option.some.injEq] at htk'
  subst htk'
  have hs' : s' = p1.newSig := by rw [checkSigAreas_eq_sum E.num hE.num _ s' hck', hsumx]
  have ht2' : so2'.tree = p2''.tree E.num true := by
    rw [hso2']
    exact tree_congr E.num true p2'' s' (by rw [ho, hs']; exact (w64_id (by unfold inI64; omega)).symm)
  have hblen : body1.length = 28 + (E.encode so1.tree).1.length + so1.newSig.toNat := by
    rw [hbody]
    simp only [List.length_append, Hdr.enc_length, hH, zeros, List.length_replicate]
    omega
  have hot : so2'.origTotal = body1.length := by
    rw [hso2']
    simp only [newHdr, hs', ← hn1]
    rw [w64_id (by unfold inI64; omega), hblen]
    omega
  have hoo : so2.origTotal = so1.origTotal := by rw [hso2, hso1]
  refine ⟨by rw [ht2', ht2]; exact htr, by rw [hso2', hso2]; exact hns, by rw [hso2']; simp only [hs', hn1], hot, hoo, ?_⟩
  intro rsa cms body2 hb2
  have hnb : newBytes C E so2' rsa cms = newBytes C E so2 rsa cms := by
    have e1 : so2'.tree = so2.tree := by rw [ht2', ht2]; exact htr
    have e2 : so2'.newSig = so2.newSig := by rw [hso2', hso2]; exact hns
    have e3 : so2'.hk = so2.hk := by rw [hso2', hso2]
    unfold newBytes
    rw [e1, e2, e3]
  refine ⟨by rw [hnb]; exact hb2, ?_⟩
  rw [hot]
  unfold written
  simp only [Int.toNat_natCast, List.drop_append_of_le_length (Nat.le_refl _), List.drop_length, List.nil_append]

/-- one signing round as a partial function of the run-time parameters (blobs as the signer's key produces them) -/
structure XarRound where
  hk : HK
  ki : KeyInfo
  rsa : Bytes
  cms : Bytes

def xarSignFile (C : Crypto) (E : Env) (f : Bytes) (r : XarRound) : Option Bytes :=
  match (signPlan E f r.hk r.ki).run C with
  | .ok so => (newBytes C E so r.rsa r.cms).map (written f so.origTotal)
  | _ => none

def xarHistory (C : Crypto) (E : Env) : Bytes → List XarRound → Option Bytes
  | f, [] => some f
  | f, r :: rs => (xarSignFile C E f r).bind fun g => xarHistory C E g rs

/-- the shape every successfully signed file has: signed once, from `f0`, with round `r` -/
def XarSignedOnce (C : Crypto) (E : Env) (f0 : Bytes) (r : XarRound) (g : Bytes) : Prop :=
  ∃ so body, (signPlan E f0 r.hk r.ki).run C = .ok so ∧ newBytes C E so r.rsa r.cms = some body ∧ g = written f0 so.origTotal body ∧
    (E.encode so.tree).1.length < 2 ^ 40 ∧ (E.encode so.tree).2 < 2 ^ 63

/-- **xar_history** (stated for runs in which every `Sign` call succeeds, and in which the original can also be signed
    directly with each of the later keys).  After any non-empty sequence of signings the file is the original signed once with
    the last key: header, TOC and signature area of the last round, followed by the original's heap behind ITS old signature
    area — no trace of the intermediate signatures, every member where a single signing puts it. -/
theorem xar_history_partial (C : Crypto) (E : Env) (hE : E.Laws) (hH : ∀ k b, (C.H k b).length = k.size) (f0 : Bytes)
    (hsmall : ∀ r : XarRound, r.ki.small) (hsize : ∀ (so : SignOut), (E.encode so.tree).1.length < 2 ^ 40 ∧ (E.encode so.tree).2 < 2 ^ 63) :
    ∀ (rs : List XarRound) (r : XarRound) (g : Bytes), XarSignedOnce C E f0 r g →
      (∀ r' ∈ rs, (xarSignFile C E f0 r').isSome) →
      ∀ g', xarHistory C E g rs = some g' → XarSignedOnce C E f0 ((r :: rs).getLast (by simp)) g'
  | [], r, g, hg, _, g', h => by
    simp only [xarHistory, Option.some.injEq] at h
    subst h
    simpa using hg
  | r2 :: rs, r, g, hg, hdirect, g', h => by
    simp only [xarHistory] at h
    cases hs : xarSignFile C E g r2 with
    | none => simp [hs] at h
    | some g2 =>
      simp only [hs, Option.bind_some] at h
      have key : XarSignedOnce C E f0 r2 g2 := by
        obtain ⟨so1, body1, hs1, hb1, rfl, hz1, hu1⟩ := hg
        have hd2 := hdirect r2 List.mem_cons_self
        unfold xarSignFile at hd2 hs
        cases hrun2 : (signPlan E f0 r2.hk r2.ki).run C with
        | ok so2 =>
          simp only [hrun2] at hd2
          cases hb2 : newBytes C E so2 r2.rsa r2.cms with
          | none => simp [hb2] at hd2
          | some body2 =>
            cases hrun2' : (signPlan E (written f0 so1.origTotal body1) r2.hk r2.ki).run C with
            | ok so2' =>
              simp only [hrun2'] at hs
              obtain ⟨_, _, _, _, hoo, hfin⟩ := xar_resign_replaces C E hE hH f0 r.hk r2.hk r.ki r2.ki (hsmall r) so1 so2 so2' r.rsa r.cms
                body1 hs1 hb1 hz1 hu1 hrun2 hrun2'
              obtain ⟨e1, e2⟩ := hfin r2.rsa r2.cms body2 hb2
              rw [e1] at hs
              simp only [Option.map_some, Option.some.injEq] at hs
              exact ⟨so2, body2, hrun2, hb2, by rw [← hs, e2, hoo], (hsize so2).1, (hsize so2).2⟩
            | err e => simp [hrun2'] at hs
            | panic p => simp [hrun2'] at hs
            | diverge => simp [hrun2'] at hs
        | err e => simp [hrun2] at hd2
        | panic p => simp [hrun2] at hd2
        | diverge => simp [hrun2] at hd2
      have := xar_history_partial C E hE hH f0 hsmall hsize rs r2 g2 key (fun r' hr' => hdirect r' (List.mem_cons_of_mem _ hr')) g' h
      simpa using this

/-- the full statement (every signing of relic's own output SUCCEEDS, so the success hypotheses of `xar_history_partial` can
    be dropped).  Since fix 5d6eee4 the layout part is decided by `Sign` itself and proved: the old signature elements of `g`
    are the three `reserve` wrote, and they tile `[0, newSig)` (`xar_resign_layout_accepted`).  Hypotheses the statement
    needs: `regularDoc` (a member whose `<offset>` does not parse is read as offset 0 by `checkFiles` and left alone by
    `adjustOffsets`: accepted while there is no signature area, refused with `ffront` once there is one); `KeyInfo.fits`
    (RSA size and `6144 + len(certs)` at most 10^6, the new limit on a `<size>`) and the re-serialised TOC within `Sign`'s
    own 10^6 / 10^7 limits — facts about keys and the serialiser, not about the archive.  Still missing for a theorem: the
    forward-only member check of `Sign` (`checkAllStream`, an `io.Reader` that cannot seek back) passes on `g` whenever it
    passed on `f0` — a simulation over the sorted member list under a uniform shift. -/
def xar_history_full : Prop :=
  ∀ (C : Crypto) (E : Env), E.Laws → (∀ k b, (C.H k b).length = k.size) →
  ∀ (f0 : Bytes) (r : XarRound) (g : Bytes), XarSignedOnce C E f0 r g → r.ki.small → r.ki.fits →
    (∀ hd k t n, parseHeader f0 = .ok (hd, k) → E.decode (region f0 28 hd.clen) = some (t, n) → regularDoc E.num t = true) →
    (∀ hd k, parseHeader g = .ok (hd, k) → hd.clen ≤ 1000000 ∧ hd.ulen ≤ 10000000) →
    ∀ r2 : XarRound, (xarSignFile C E f0 r2).isSome → (xarSignFile C E g r2).isSome

/-- **xar_checksum_style_unchecked.**  `Open` compares the `<size>` of `<checksum>` with the size of the header's hash and
    reads the bytes; the `style` attribute plays no part (nor does the `style` of `<signature>` / `<x-signature>`). -/
theorem xar_checksum_style_unchecked (fx : Bool) (E : Env) (f : Bytes) (k : HK) (reg : Bytes) (n : Nat) (toc : XToc) (base : Int) (s : String) :
    (openBody fx E f k reg n { toc with ck := { toc.ck with style := s } } base).checks = (openBody fx E f k reg n toc base).checks ∧
    ((openBody fx E f k reg n { toc with ck := { toc.ck with style := s } } base).final.isOk = (openBody fx E f k reg n toc base).final.isOk) := by
  unfold openBody
  simp only
  split
  · simp [Plan.fail]
  · split
    · simp [Plan.fail]
    · simp only [openRest, true_and]
      cases readSig fx E f base toc.sig with
      | ok sg =>
        simp only [Res.bind]
        cases readXSig fx f base toc.xsig with
        | ok x =>
          simp only
          cases readTicket f toc.files base <;> rfl
        | err e => rfl
        | panic p => rfl
        | diverge => rfl
      | err e => rfl
      | panic p => rfl
      | diverge => rfl

end Relic.Props.C08

/-
  Relic.Model.AuditLog — the audit log file under concurrent appenders.

  Each successful `audit.(*Info).AppendTo` performs open(O_APPEND) / one write(2) of
  `marshal ++ "\n"` / close (this shape is re-checked on the extracted term, `appendShape`).
  With O_APPEND the kernel makes "seek to end + write" one atomic step with respect to other
  writers of the same file (trusted: POSIX O_APPEND on a local file system), so the file
  is what results from running *some interleaving* of the appenders' step lists.

  Core Lean only.
-/
namespace Relic.AuditLog

abbrev Bytes := List UInt8
def nl : UInt8 := 10

inductive Step
  | opn
  | write (b : Bytes)     -- one write(2) on an O_APPEND descriptor: atomically appends `b`
  | close
  deriving DecidableEq, Repr

/-- the steps of one AppendTo call for a marshalled record -/
def appender (r : Bytes) : List Step := [.opn, .write (r ++ [nl]), .close]

/-- the mutated shape "newline in a separate Write" (used only for the negative example) -/
def appenderSplit (r : Bytes) : List Step := [.opn, .write r, .write [nl], .close]

def stepFile (f : Bytes) : Step → Bytes
  | .write b => f ++ b
  | _ => f

def runFile (f : Bytes) (m : List Step) : Bytes := m.foldl stepFile f

/-- `m` is an interleaving (merge) of the lists `ls`: repeatedly take the head of any one list -/
inductive Interleaving {α : Type} : List (List α) → List α → Prop
  | done (ls : List (List α)) : (∀ l ∈ ls, l = []) → Interleaving ls []
  | step (l1 : List (List α)) (x : α) (t : List α) (l2 : List (List α)) (m : List α) :
      Interleaving (l1 ++ t :: l2) m → Interleaving (l1 ++ (x :: t) :: l2) (x :: m)

/-- complete lines of a file, and the unterminated rest -/
def splitLines : Bytes → List Bytes × Bytes
  | [] => ([], [])
  | b :: bs =>
    match splitLines bs with
    | (ls, r) =>
      if b = nl then ([] :: ls, r)
      else
        match ls with
        | [] => ([], b :: r)
        | l :: ls' => ((b :: l) :: ls', r)

/-- file made of complete lines -/
def ofLines (ls : List Bytes) : Bytes := (ls.map (· ++ [nl])).flatten

def payloads : List Step → List Bytes
  | [] => []
  | .write b :: m => b :: payloads m
  | _ :: m => payloads m

end Relic.AuditLog

/-
  C18 fragment — MSI digest walk (`Relic.Model.MsiDigest`, model of lib/authenticode/msiverify.go and msitar.go):
  `sortMsiFiles` is a permutation, total exactly outside its panic trigger; the digest does not depend on the
  signature streams of the root; the tar path feeds the hash the same bytes as the direct path.
  (C11 fact `sort_total_no_panic_partial` lives here: this copy of the framework has no Props/C11.lean.)
-/
import Relic.Proofs.MsiTree
import Relic.Proofs.MsiTar
import Relic.Proofs.MsiSortPanic
import Relic.Props.C05_Msi
namespace Relic.Props.C18
open Relic Relic.MsiDigest

variable {β : Type}

/-- **sort_is_permutation.** Whatever the name fields are: when `sortMsiFiles` returns, the slice is a
    permutation of what it was. -/
theorem sort_is_permutation (l s : List (Item β)) (h : sortItems l = .ok s) : s.Perm l :=
  sortRes_perm _ l s h

/-- **less_panics_iff.** The comparison closure of `sortMsiFiles` panics (`index out of range [32] with length
    32`) exactly when both `NameLength` fields exceed 32 and the two 32-slot name arrays are identical; in every
    other case it returns a boolean. -/
theorem less_panics_iff (a b : Meta) (ha : a.slots.length = 32) (hb : b.slots.length = 32) :
    (less a b = .panic "sortMsiFiles" ↔ Trigger a b) ∧ (¬ Trigger a b → ∃ r, less a b = .ok r) := by
  rcases less_cases a b ha hb with ⟨t, p⟩ | ⟨t, r, p⟩
  · exact ⟨⟨fun _ => t, fun _ => p⟩, fun nt => absurd t nt⟩
  · refine ⟨⟨fun h => ?_, fun h => absurd h t⟩, fun _ => ⟨r, p⟩⟩
    rw [p] at h; cases h

/-- **sort_total_no_panic_partial.** If no two entries of the list satisfy the trigger, `sortMsiFiles` returns
    (no panic, no error) – for the insertion sort Go runs on up to 12 elements, which only compares different
    entries.  Proved: absence of a trigger pair ⇒ total.  The converse (every list containing a trigger pair
    panics) is `sort_panics_iff` below. -/
theorem sort_total_no_panic_partial (l : List (Item β)) (hlen : ∀ a ∈ l, a.1.slots.length = 32)
    (h : l.Pairwise (fun a b => ¬ Trigger a.1 b.1)) : ∃ s, sortItems l = .ok s ∧ s.Perm l := by
  let lt : Item β → Item β → Bool := fun a b => match less a.1 b.1 with | .ok r => r | _ => false
  have hp : l.Pairwise (fun a b => less b.1 a.1 = .ok (lt b a)) := by
    refine h.imp_of_mem ?_
    intro a b ha hb hab
    have hba : ¬ Trigger b.1 a.1 := fun t => hab ⟨t.2.1, t.1, t.2.2.symm⟩
    obtain ⟨r, hr⟩ := (less_panics_iff b.1 a.1 (hlen b hb) (hlen a ha)).2 hba
    show less b.1 a.1 = .ok (match less b.1 a.1 with | .ok r => r | _ => false)
    rw [hr]
  have := sortRes_ok (fun a b : Item β => less a.1 b.1) lt l hp
  exact ⟨_, this, sortP_perm lt l⟩

/-- **sort_panics_iff** (was `sort_panics_iff_full`).  `sortMsiFiles` (the insertion sort Go runs on up to 12
    entries) panics on *exactly* the lists that hold a trigger pair anywhere: the comparator is, outside its
    trigger, the strict order of a key (`sortKey`) under which the two entries of a trigger pair are equal, the
    sorted prefix is sorted by that key, so the later entry of the pair cannot come to rest before it is compared
    with an entry of the same key and `NameLength > 32` – which panics.  No hypothesis on the names. -/
theorem sort_panics_iff (l : List (Item β)) (hlen : ∀ a ∈ l, a.1.slots.length = 32) :
    sortItems l = .panic "sortMsiFiles" ↔ ¬ l.Pairwise (fun a b => ¬ Trigger a.1 b.1) := by
  constructor
  · intro hp hpw
    obtain ⟨s, hs, _⟩ := sort_total_no_panic_partial l hlen hpw
    rw [hs] at hp
    cases hp
  · exact sortItems_panics l hlen

/-- the sort has exactly two outcomes: a permutation, or this panic -/
theorem sort_total_or_panics (l : List (Item β)) (hlen : ∀ a ∈ l, a.1.slots.length = 32) :
    (∃ s, sortItems l = .ok s ∧ s.Perm l) ∨ sortItems l = .panic "sortMsiFiles" := by
  by_cases h : l.Pairwise (fun a b => ¬ Trigger a.1 b.1)
  · exact Or.inl (sort_total_no_panic_partial l hlen h)
  · exact Or.inr ((sort_panics_iff l hlen).mpr h)

/-- two entries whose 32-slot arrays are identical ("aaaaaaaaaaaaaaaa…" twice) with `NameLength` 34 -/
def dupLong : Meta := C05.mkMeta (List.replicate 32 97) 34 2

/-- **sort_panics_witness.** The trigger is reachable: a storage listing the same 16-unit-or-longer name twice
    (a malformed file; `comdoc` does not reject it) makes `sortMsiFiles` – hence `DigestMSI`, `VerifyMSI`,
    `MsiToTar` – panic.  The same two names with `NameLength ≤ 32` do not. -/
theorem sort_panics_witness :
    sortItems [(dupLong, (.ok [1] : Res Bytes)), (dupLong, .ok [2])] = .panic "sortMsiFiles" ∧
    Trigger dupLong dupLong ∧
    (sortItems [({ dupLong with nameLen := 32 }, (.ok [1] : Res Bytes)), ({ dupLong with nameLen := 32 }, .ok [2])]).isOk = true := by
  refine ⟨by rfl, ⟨by decide, by decide, rfl⟩, by rfl⟩

/-- a trigger pair that is not adjacent, with different `NameLength`s (34 and 36), an unrelated entry between -/
example : sortItems [(dupLong, (.ok [1] : Res Bytes)), (C05.mkMeta [98] 4 2, .ok [2]), ({ dupLong with nameLen := 36 }, .ok [3])]
    = .panic "sortMsiFiles" := by rfl

/-- **sort_unique.** On siblings with well-formed, pairwise distinct names the comparator is a strict total
    order, so *any* sorting algorithm driven by it (Go's pdqsort beyond 12 elements) returns what the model
    returns: every permutation that the comparator calls sorted is the model's result. -/
theorem sort_unique (l s : List (Item β)) (h : SibsOk (l.map (·.1))) (hp : s.Perm l)
    (hs : s.Pairwise (fun a b => less a.1 b.1 = .ok true)) : sortItems l = .ok s := by
  obtain ⟨s', h1, h2, h3⟩ := sortItems_sorted l h
  rw [h1]
  congr 1
  refine (sorted_unique (keyOrderOf (fun it : Item β => nameKey it.1)) s s' ?_ h3 (hp.trans h2.symm)).symm
  have hd : l.Pairwise (fun a b => Spec.MsiDigest.specName a.1 ≠ Spec.MsiDigest.specName b.1) := pw_of_map l h.2
  have hd' : s.Pairwise (fun a b => Spec.MsiDigest.specName a.1 ≠ Spec.MsiDigest.specName b.1) :=
    hp.symm.pairwise hd (fun hab e => hab e.symm)
  have hw : ∀ a ∈ s, WfName a.1 := fun a ha => wfName_of_B a.1 (h.1 a.1 (List.mem_map_of_mem (hp.subset ha)))
  have both : s.Pairwise (fun a b => less a.1 b.1 = .ok true ∧
      Spec.MsiDigest.specName a.1 ≠ Spec.MsiDigest.specName b.1) := hs.and hd'
  refine both.imp_of_mem ?_
  intro a b ha hb hab
  have := less_eq_key a.1 b.1 (hw a ha) (hw b hb) hab.2
  rw [hab.1] at this
  injection this with e
  exact e.symm

/-- **msi_digest_ignores_signature.** Two root storages with the same root entry whose children, *apart from
    the entries named "\005DigitalSignature" / "\005MsiDigitalSignatureEx"*, are the same up to `ListDir` order
    (adding, replacing or deleting the signature streams – `InsertMSISignature` – and the re-balancing of the
    directory tree that goes with it; entries of those names *below* the root are content) feed the same bytes to the hash and to the pre-hash; both trees satisfying
    the hypotheses of `msi_order_eq_spec`. -/
theorem msi_digest_ignores_signature (m : Meta) (c₁ c₂ : Bytes) (kids₁ kids₂ : List Node)
    (h₁ : Node.okAt true (.mk m c₁ kids₁)) (h₂ : Node.okAt true (.mk m c₂ kids₂)) (hr : m.typ = typRoot)
    (hk : (kids₁.filter (fun n => !Spec.MsiDigest.isSignatureStream n.meta)).Perm
          (kids₂.filter (fun n => !Spec.MsiDigest.isSignatureStream n.meta))) :
    hashMsiDir (.mk m c₁ kids₁) = hashMsiDir (.mk m c₂ kids₂) ∧
    prehashMsiDir (.mk m c₁ kids₁) = prehashMsiDir (.mk m c₂ kids₂) ∧
    ∀ (H : Bytes → Bytes) ext, digestMSI H (.mk m c₁ kids₁) ext = digestMSI H (.mk m c₂ kids₂) ext := by
  have a₁ := h₁; have a₂ := h₂
  rw [Node.okAt] at a₁ a₂
  have e1 : Spec.MsiDigest.hashInput (.mk m c₁ kids₁) = Spec.MsiDigest.hashInput (.mk m c₂ kids₂) := by
    unfold Spec.MsiDigest.hashInput Spec.MsiDigest.dirInput
    simp only [Node.meta, Node.kids, Bool.true_and]
    rw [digestOrder_filter_congr (fun k => !Spec.MsiDigest.isSignatureStream k) _ _
      (by rw [entriesInput_fst]; exact a₁.1) (by rw [entriesInput_fst]; exact a₂.1)]
    rw [entriesInput_eq_map, entriesInput_eq_map,
      filter_entries _ entryInput_fst (fun k => !Spec.MsiDigest.isSignatureStream k),
      filter_entries _ entryInput_fst (fun k => !Spec.MsiDigest.isSignatureStream k)]
    exact hk.map _
  have e2 : Spec.MsiDigest.prehashInput (.mk m c₁ kids₁) = Spec.MsiDigest.prehashInput (.mk m c₂ kids₂) := by
    unfold Spec.MsiDigest.prehashInput Spec.MsiDigest.dirMetaInput
    simp only [Node.meta, Node.kids, Bool.true_and]
    rw [digestOrder_filter_congr (fun k => !Spec.MsiDigest.isSignatureStream k) _ _
      (by rw [entriesMeta_fst]; exact a₁.1) (by rw [entriesMeta_fst]; exact a₂.1)]
    rw [entriesMeta_eq_map, entriesMeta_eq_map,
      filter_entries _ entryMeta_fst (fun k => !Spec.MsiDigest.isSignatureStream k),
      filter_entries _ entryMeta_fst (fun k => !Spec.MsiDigest.isSignatureStream k)]
    exact hk.map _
  have r1 : hashMsiDir (.mk m c₁ kids₁) = hashMsiDir (.mk m c₂ kids₂) := by
    rw [hashMsiDir_eq _ h₁, hashMsiDir_eq _ h₂, e1]
  have r2 : prehashMsiDir (.mk m c₁ kids₁) = prehashMsiDir (.mk m c₂ kids₂) := by
    rw [prehashMsiDir_eq _ h₁ hr, prehashMsiDir_eq _ h₂ hr, e2]
  refine ⟨r1, r2, ?_⟩
  intro H ext
  unfold digestMSI
  rw [r1, r2]

/-- non-vacuity: the sample tree with its signature stream removed, and with both signature streams present in
    other positions -/
example : hashMsiDir C05.sampleRoot =
    hashMsiDir (.mk (C05.mkMeta [82] 4 5) [] [C05.leaf [98] [1], C05.leaf [97] [2], C05.leaf [97, 98] [3],
      C05.dir [83] [C05.leaf [122] [4], C05.leaf [121] [5]], C05.leaf sigExName [7], C05.leaf sigName [8]]) := by rfl

/-- **tar_equals_direct.** At full strength since the repair of Fmsi-tar: for every hash function `H`, plain and
    extended, and *every* tree: whenever `MsiToTar` succeeds, `DigestMSI` succeeds and the byte stream `DigestMsiTar` feeds
    to the hash from the tar members is the byte stream `DigestMSI` feeds to it.  (The direct walk skips the signature
    names in the root storage only, as the tar form does; `MsiToTar` refuses the root entries whose tar name is reserved,
    `tarRootOkB`.  archive/tar is taken to transport member names and contents unchanged.)  No well-formedness of the
    names is needed. -/
theorem tar_equals_direct (H : Bytes → Bytes) (ext : Bool) (root : Node)
    (ms : List Member) (ht : msiToTar root = .ok ms) :
    digestMSI H root ext = .ok (digestMsiTar H ext ms) :=
  msiToTar_digest H ext root ms ht

/-- **msiToTar_refuses.** `MsiToTar` refuses, with the tar-name error and before anything else, every tree with a
    reserved tar name in the root storage; a tree it converts has none. -/
theorem msiToTar_refuses (root : Node) :
    (tarRootOkB root.kids = false → msiToTar root = .err "tar-name") ∧
    (∀ ms, msiToTar root = .ok ms → tarRootOkB root.kids = true) := by
  refine ⟨fun h => by unfold msiToTar; simp [h], fun ms h => msiToTar_ok_rootOk root ms h⟩

/-- the statement for the ORIGINAL code (direct walk skipping the signature names in every storage, `MsiToTar`
    refusing nothing) without its hypothesis `tarSafeB` -/
def tar_equals_direct_tree_full_orig : Prop :=
  ∀ (H : Bytes → Bytes) (ext : Bool) (root : Node) (ms : List Member), msiToTarOrig root = .ok ms →
    digestMSIOrig H root ext = .ok (digestMsiTar H ext ms)

/-- a root holding the stream "Plain" and a stream whose *stored* name is U+0005 followed by the MSI encoding of
    "DigitalSignature" (0x430D "Di", 0x432A "gi", 0x4137 "ta", 0x3F2F "lS", 0x42AC "ig", 0x4131 "na", 0x4637 "tu",
    0x4235 "re"): `msiDecodeName` turns it into "\005DigitalSignature" -/
def encodedSigRoot : Node :=
  .mk (C05.mkMeta [82] 4 5) [] [C05.leaf [5, 0x430D, 0x432A, 0x4137, 0x3F2F, 0x42AC, 0x4131, 0x4637, 0x4235] [7, 7],
    C05.leaf [80] [1]]

/-- a root holding "Plain" and the sub-storage "S" with a stream named "\005DigitalSignature" (an embedded signed
    package) -/
def nestedSigRoot : Node :=
  .mk (C05.mkMeta [82] 4 5) [] [C05.dir [83] [C05.leaf sigName [9, 9], C05.leaf [120] [3]], C05.leaf [80] [1]]

/-- **tar_differs_encoded_signature_name.** FINDING Fmsi-tar (repaired), a statement about the original code: without
    the hypothesis the statement was false: `DigestMSI` hashed the content of that stream, `DigestMsiTar` takes its tar
    member for the signature and skips it.  The tree satisfies every hypothesis of `msi_order_eq_spec`.  (Likewise: a
    stream named "__exmeta"; a signature name below the root, `tar_differs_nested_signature_name`; a storage with a
    signature name – ops `tar-exmeta-name`, `nested-sig`, `sig-storage` of the harness.)  The repaired `MsiToTar` refuses
    this tree. -/
theorem tar_differs_encoded_signature_name : ¬ tar_equals_direct_tree_full_orig := by
  intro h
  have := h (fun _ => []) false encodedSigRoot _ rfl
  revert this
  decide

/-- **tar_differs_nested_signature_name.** The original code on an embedded signed package: the direct walk skipped the
    nested stream, the tar form (and the specification) hash it.  The repaired walk agrees with both. -/
theorem tar_differs_nested_signature_name :
    (∃ ms, msiToTarOrig nestedSigRoot = .ok ms ∧ digestMSIOrig (fun _ => []) nestedSigRoot false ≠ .ok (digestMsiTar (fun _ => []) false ms)) ∧
    hashMsiDirOrig nestedSigRoot ≠ .ok (Spec.MsiDigest.hashInput nestedSigRoot) ∧
    hashMsiDir nestedSigRoot = .ok (Spec.MsiDigest.hashInput nestedSigRoot) ∧
    (∃ ms, msiToTar nestedSigRoot = .ok ms ∧ digestMSI (fun _ => []) nestedSigRoot false = .ok (digestMsiTar (fun _ => []) false ms)) := by
  refine ⟨⟨_, rfl, by decide⟩, by decide, by decide, ⟨_, rfl, by decide⟩⟩

example : tarSafeB [] encodedSigRoot.kids = false := by decide
example : tarRootOkB encodedSigRoot.kids = false := by decide
example : msiToTar encodedSigRoot = .err "tar-name" := by decide
example : tarRootOkB C05.sampleRoot.kids = true ∧ tarRootOkB nestedSigRoot.kids = true := by decide
example : Node.okAt true encodedSigRoot := okAtB_sound true encodedSigRoot (by decide)
example : Node.okAt true nestedSigRoot := okAtB_sound true nestedSigRoot (by decide)
example : (msiToTar C05.sampleRoot).isOk = true := by decide

/-- **digestMsiTar_segments.** What the driver prints for the tar path (`tarSegments`) is `DigestMsiTar`'s stream. -/
theorem digestMsiTar_segments (H : Bytes → Bytes) (ext : Bool) : ∀ (ms : List Member),
    digestMsiTar H ext ms = (tarSegments ext ms).flatMap (fun s => if s.1 then H s.2 else s.2)
  | [] => rfl
  | mb :: r => by
    have ih := digestMsiTar_segments H ext r
    unfold digestMsiTar at ih ⊢
    rw [List.flatMap_cons, ih, tarSegments, List.flatMap_append]
    congr 1
    unfold tarContribution
    by_cases h1 : mb.1 = exmetaName
    · cases ext <;> simp [h1]
    · by_cases h2 : mb.1 = sigName ∨ mb.1 = sigExName
      · simp [h1, h2]
      · simp [h1, h2]

end Relic.Props.C18

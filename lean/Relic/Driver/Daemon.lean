/- line-protocol handlers for the daemon-layer model (first token DAEMON; used by C14, C20, C04, C11) -/
import Relic.Model.Daemon
namespace Relic.Driver.Daemon
open Relic Relic.Daemon

def field (fs : List String) (k : String) : Option String :=
  (fs.find? (·.startsWith (k ++ "="))).map fun s => (s.drop (k.length + 1)).toString

def strOfHex (s : String) : Option String :=
  if s = "-" then some "" else (fromHex s).map fun b => String.ofList (b.map fun c => Char.ofNat c.toNat)

/-! ### sh: shutdown histories -/

def parseNat? (s : String) : Option Nat := s.toNat?

/-- one scripted event ↦ model events -/
def scriptEv (e : String) : Option (List Ev) :=
  match e.toList with
  | ['s'] => some [.serve]
  | ['c'] => some [.close]
  | 'a' :: r =>
    match (String.ofList r).splitOn "." with
    | [i, id] => do pure [.accept (← parseNat? i) (← parseNat? id)]
    | _ => none
  | 't' :: r => do let id ← parseNat? (String.ofList r); pure [.token id, .respond id]
  | 'f' :: r => do pure [.lfail (← parseNat? (String.ofList r))]
  | _ => none

def showServe (s : St) : String :=
  if !s.serveCalled then "notcalled"
  else match s.serveRet with
    | none => "blocked"
    | some none => "nil"
    | some (some e) => "err:" ++ e

def joinOr (l : List String) : String := if l.isEmpty then "-" else ".".intercalate l

def showSt (s : St) : String :=
  "ok acc=" ++ joinOr (s.accepted.map toString) ++
  " resp=" ++ joinOr (s.responses.map fun p => toString p.1 ++ (if p.2 == .good then ":g" else ":c")) ++
  " serve=" ++ showServe s ++
  " closes=" ++ toString s.tokenCloses ++
  " tok=" ++ (if s.tokensOpen then "open" else "closed") ++
  " health=" ++ (if s.healthRunning then "running" else "exited") ++
  " crash=" ++ (if s.crashed.isSome then "1" else "0")

def runScript (n : Nat) (evs : List (List Ev)) : St :=
  evs.foldl (fun s es => settle (run s es)) (init n)

def handleSh (fs : List String) : String :=
  match field fs "n", field fs "S" with
  | some n, some sc =>
    match parseNat? n, (if sc = "-" then some [] else (sc.splitOn ",").mapM scriptEv) with
    | some n, some evs =>
      let s := runScript n evs
      showSt s ++ " #uac=" ++ (if s.tokenUseAfterClose then "1" else "0")
    | _, _ => "bad-op"
  | _, _ => "bad-op"

/-! ### mx: listener matrix -/

def fpKnown : String := "aa"
def fpUnknown : String := "bb"

def mxCfg (trusted : Bool) : Authz.Config :=
  { clients := [⟨fpKnown, true, "alice", ["r"], none⟩],
    keys := [⟨"k1", "tok", "", ["r"], false⟩],
    tokens := ["tok"], proxiesOK := true,
    inNets := fun a => trusted && a == "127.0.0.1" }

def chainOf (s : String) : Option (Option Authz.Chain) :=
  match s with
  | "none" => some none
  | "known" => some (some ⟨fpKnown, []⟩)
  | "unknown" => some (some ⟨fpUnknown, []⟩)
  | _ => none

def hdrOf (s : String) : Option Authz.HdrCert :=
  match s with
  | "none" => some .absent
  | "bad" => some .bad
  | "known" => some (.certs (some ⟨fpKnown, []⟩))
  | "unknown" => some (.certs (some ⟨fpUnknown, []⟩))
  | "empty" => some (.certs none)
  | _ => none

def epOf (s : String) : Option Authz.Endpoint :=
  match s with
  | "health" => some .health
  | "directory" => some .directory
  | "home" => some .home
  | "list" => some .listKeys
  | "getkey" => some (.getKey "k1")
  | "sign" => some (.sign "k1" false true)
  | _ => none

def handleMx (fs : List String) : String :=
  match field fs "T", field fs "X", field fs "L", (field fs "C").bind chainOf, (field fs "H").bind hdrOf, (field fs "E").bind epOf with
  | some t, some x, some l, some c, some h, some e =>
    let lk : Option Listener := if l = "tls" then some .tls else if l = "plain" then some .plain else none
    match lk with
    | none => "bad-op"
    | some lk =>
      let conn : Conn := { remoteAddr := "127.0.0.1:5555", clientCert := c, xff := if x = "1" then ["10.9.9.9"] else [], sslCert := h, ep := e }
      match serveOn (mxCfg (t = "1")) lk conn with
      | (.resp r) :: _ => "ok " ++ toString r.status ++ " #" ++ (if r.problem = "" then "-" else r.problem) ++ " user=" ++ (if r.user = "" then "-" else r.user)
      | (.panic _ _) :: _ => "ok 500 #panic"
      | (.startErr e) :: _ => "err start:" ++ e
      | [] => "bad-op"
  | _, _, _, _, _, _ => "bad-op"

/-! ### act: socket activation -/

def modelPid : Int := 1000
def modelPpid : Int := 999

def substPid (v : String) : String :=
  ((v.replace "@PID" (toString modelPid)).replace "@PPID" (toString modelPpid)).replace "@OTHER" "1001"

def parseEnv (s : String) : Option Env :=
  if s = "-" then some [] else
  (s.splitOn ",").mapM fun kv =>
    match kv.splitOn ":" with
    | [k, v] => do pure (← strOfHex k, substPid (← strOfHex v))
    | _ => none

def fdKindOf (c : Char) : FdKind :=
  match c with
  | 'T' => .tcpListener
  | 'U' => .unixListener
  | 'C' => .tcpConn
  | _ => .bad

def fdsOf (s : String) : Int → FdKind := fun fd =>
  if fd < 3 then .bad else
  match s.toList[(fd - 3).toNat]? with
  | some c => fdKindOf c
  | none => .bad

def showGot (g : Got) : String :=
  match g with
  | .listen => "listen"
  | .inherited fd k => "inh" ++ toString fd ++ (match k with | .tcpListener => "T" | .unixListener => "U" | .tcpConn => "C" | .bad => "B")

def roleName : Role → String
  | .tls => "tls" | .plain => "http" | .metrics => "metrics"

def errClass (e : String) : String := (e.splitOn ":").headD e

def handleAct (fs : List String) : String :=
  match field fs "P", (field fs "E").bind parseEnv, field fs "F" with
  | some p, some env, some f =>
    let cfg : Cfg := ⟨p.contains 't', p.contains 'h', p.contains 'm'⟩
    let w : World := ⟨env, modelPid, modelPpid, fdsOf f⟩
    let out := new { cfg, test := false, loggingOk := true, serverOk := true, tlsOk := true, netListenOk := fun _ => true, world := w }
    match out.res with
    | .daemon ls => "ok " ++ " ".intercalate (ls.map fun p => roleName p.1 ++ "=" ++ showGot p.2)
    | .testOk => "ok test"
    | .err e => "err " ++ errClass e
  | _, _, _ => "bad-op"

/-! ### newerr: error paths of daemon.New -/

def handleNewErr (fs : List String) : String :=
  match field fs "K" with
  | some k =>
    let w : World := ⟨[], modelPid, modelPpid, fun _ => .bad⟩
    let base : NewIn := { cfg := ⟨false, true, false⟩, test := false, loggingOk := true, serverOk := true, tlsOk := true,
                          netListenOk := fun _ => true, world := w }
    let i : Option NewIn := match k with
      | "tls" => some { base with cfg := ⟨true, false, false⟩, tlsOk := false }
      | "listen" => some { base with netListenOk := fun _ => false }
      | "none" => some { base with cfg := ⟨false, false, false⟩ }
      | "test" => some { base with test := true }
      | "server" => some { base with serverOk := false }
      | "metrics" => some { base with cfg := ⟨false, true, true⟩, netListenOk := fun r => r ≠ .metrics }
      | "loglevel" => some { base with loggingOk := false }
      | "ok" => some base
      | _ => none
    match i with
    | none => "bad-op"
    | some i =>
      let o := new i
      (match o.res with
       | .daemon _ => "ok daemon"
       | .testOk => "ok test"
       | .err e => "err " ++ errClass e) ++ " serverOpen=" ++ (if o.serverOpen then "1" else "0") ++ " #opened=" ++ toString o.opened
  | none => "bad-op"

/-! ### panic: a panic inside the handler chain -/

def handlePanic (fs : List String) : String :=
  match field fs "V" with
  | some v =>
    let pv := if v = "abort" then PanicVal.abortHandler else .other
    match onPanic .handlerGoroutine pv none 0 with
    | .status c _ => "ok " ++ toString c ++ " alive=1"
    | .connAborted => "ok aborted alive=1"
    | .truncated c => "ok truncated:" ++ toString c ++ " alive=1"
    | .processDies => "ok dies"
  | none => "bad-op"

/-! ### wt: WriteTimeout fires while the token is signing -/

def handleWt (fs : List String) : String :=
  match field fs "ctx" with
  | some c =>
    let eff := signEffects (c = "1") true false
    "ok sign=" ++ (if eff.contains .tokenSign then "1" else "0") ++ " audit=" ++ (if eff.contains .auditWritten then "1" else "0") ++
      " delivered=" ++ (if eff.contains .responseDelivered then "1" else "0")
  | none => "bad-op"

def handle (fs : List String) : String :=
  match fs with
  | "sh" :: r => handleSh r
  | "mx" :: r => handleMx r
  | "act" :: r => handleAct r
  | "newerr" :: r => handleNewErr r
  | "panic" :: r => handlePanic r
  | "wt" :: r => handleWt r
  | _ => "bad-op"

end Relic.Driver.Daemon

/-
  C08 (APPX): what `Sign` writes and hashes depends on the input only through the payload prefix `z[0, patchStart)` and the
  payload state of `DigestAppxTar`; nothing of the old tail (an earlier signature, catalog, block map, content types,
  directory) reaches the output or the digests.
-/
import Relic.Props.C05_Appx
namespace Relic.Props.C08
open Relic Relic.Zip Relic.Appx

/-- **appx_digest_ignores_signature.** Two inputs that agree on the payload prefix and on the payload state (for instance
    an unsigned package and the same package carrying any signature) are signed into the same file with the same five
    streams, given the same regenerated parts. -/
theorem appx_digest_ignores_signature (z z' : Bytes) (g : Digested) (ps : Parts)
    (h : z.take g.patchStart = z'.take g.patchStart) : assemble z g ps = assemble z' g ps := by
  unfold assemble
  simp only [h]

/-- **appx_resign_replaces.** The output is the payload prefix followed by bytes that are a function of the payload state
    and the parts only: everything from `patchStart` on is replaced. -/
theorem appx_resign_replaces (z : Bytes) (g : Digested) (ps : Parts) (r : Signed) (h : assemble z g ps = .ok r) :
    r.out = z.take g.patchStart ++ (partsBytes g ps ++ sigBytes ps ++
              ((writeDirectory (d5Of g ps) true).1 ++ (writeDirectory (d5Of g ps) true).2.1)) :=
  (assemble_ok h).2.1

/-- full statement as first written: re-reading relic's own output with `digest` yields the same payload state and
    `patchStart`, hence signing the output again with the same parts returns the same file and streams.  As stated (SOME
    codec `c'`, no claim that the second signing succeeds) it holds vacuously: `C08.appx_resign_replaces_vacuous` in
    C08_AppxFull.lean.  The meaningful statement (same codec, the second signing succeeds and reproduces file and streams)
    is proved there as `C08.appx_resign_idempotent`, on the round trip `ReadWithDirectory ∘ WriteDirectory`
    (`C17.read_write_directory_own_output`); also checked per op by the differential run (round 2 byte for byte). -/
def appx_resign_replaces_full : Prop :=
  ∀ (c : Codec) (z : Bytes) (ps : Parts) (r : Signed), sign c z ps = .ok r →
    (∀ x, c.inflate x = none → True) →
    ∃ c' : Codec, ∀ r', sign c' r.out ps = .ok r' → r'.out = r.out ∧ r'.streams = r.streams

example : assemble C05.zEx ⟨{}, 33, [], false⟩ C05.psEx = assemble (C05.zEx.take 33 ++ [1, 2, 3]) ⟨{}, 33, [], false⟩ C05.psEx :=
  appx_digest_ignores_signature _ _ _ _ (by decide)

end Relic.Props.C08

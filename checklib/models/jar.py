"""JAR manifest / signature-file model glue (Relic.Model.Jar vs lib/signjar): canonicalisation (the model leaves
digests of manifest byte ranges abstract; they are computed here with hashlib) and the per-property predicates
evaluated on the implementation's output."""
import base64, hashlib

TOKENS = ["JAR"]
RULE = ("JAR: generated manifests (attribute lines whose length hits 68..74 / 138..142 / 208..210 bytes, written unfolded, folded at "
        "70, at 72 (JDK) or at random widths; CRLF / LF / CR / mixed line ends; UTF-8 and Unicode white space; attribute names in "
        "any case, with spaces, empty; duplicate attributes and sections; sections without Name; missing / doubled / white-space-only "
        "separator lines; missing final newline) plus a malformed stream over a small alphabet; ops: split, section, parse, dump "
        "(+ re-parse), sf (DigestManifest + verifySigFile on it), keep (keepFile on plain and non-clean member names), signx "
        "(archive built with archive/zip from the op's members -> relic's real jar signer -> manifest / .SF / member list read back "
        "with archive/zip, then optionally: sign again, modify / delete / add / shadow a member, then the real verifier). "
        "Non-trivial = distinct op the model does not reject outright.")
TRUSTED = ["Relic.Model.Jar is hand-written from lib/signjar/{manifest,digest,sign,verify}.go; tied by differential execution",
           "digests of the byte ranges the model names are computed by the check (hashlib), never in Lean: hashes are parameters",
           "PKCS#7 creation / verification of the .SF is outside the model (parameter cmsOk)",
           "path.Clean is modelled as a component stack (equivalence with Go's byte loop is exercised by the keep ops, not proved)"]
ASSUMPTIONS = ["generated manifests never contain the bytes F5..FF (placeholder alphabet of the model driver; not valid UTF-8 anyway)",
               "key aliases are ASCII (strings.ToUpper is modelled on ASCII)",
               "digest attributes of algorithms other than the signing hash are not generated with correct values"]

_HASH = {"SHA-256": hashlib.sha256, "SHA1": hashlib.sha1, "SHA-384": hashlib.sha384, "SHA-512": hashlib.sha512}
_MASK = (1 << 64) - 1


def _fnv(b):
    h = 14695981039346656037
    for c in b:
        h = ((h ^ c) * 1099511628211) & _MASK
    return h


def _unhex(s):
    return b"" if s == "-" else bytes.fromhex(s)


def _hex(b):
    return b.hex() if b else "-"


def _kv(s):
    return dict(p.split("=", 1) for p in s.split(" ") if "=" in p)


def _subst(sf, mf, secs, hname, blen):
    """replace the placeholders of the model by the real digests of the byte ranges of `mf` they name"""
    H = _HASH[hname]
    ranges, off = [(0, len(mf))], 0
    for l in secs:
        ranges.append((off, off + l))
        off += l
    table = {}
    for lo, hi in ranges:
        table[_fnv(mf[lo:hi])] = base64.b64encode(H(mf[lo:hi]).digest())
    out = bytearray(sf)
    pos = [i for i, c in enumerate(sf) if c >= 0xF6]
    i = 0
    while i < len(pos):
        grp = pos[i:i + blen]
        i += blen
        if len(grp) < 23 or sf[grp[0]] != 0xFF:
            continue
        h = 0
        for k, p in enumerate(grp[1:23]):
            h |= (sf[p] - 0xF6) << (3 * k)
        rep = table.get(h & _MASK)
        if rep is None or len(rep) != len(grp):
            continue
        for p, ch in zip(grp, rep):
            out[p] = ch
    return bytes(out)


def _secs(kv):
    s = kv.get("secs", "_")
    return [] if s == "_" else [int(x) for x in s.split(",")]


def canon_model(op, mres):
    f = op.split()
    if not mres.startswith("ok "):
        return mres
    if f[1] == "sf":
        kv = _kv(mres)
        hname, blen = _unhex(f[2]).decode(), int(f[3])
        mf = _unhex(f[6])
        sf = _subst(_unhex(kv["sf"]), mf, _secs(kv), hname, blen)
        return "ok sf=%s selfverify=%s" % (_hex(sf), kv["selfverify"])
    if f[1] == "signx":
        kv = _kv(mres)
        hname, blen = _unhex(f[2]).decode(), int(f[3])
        mf = _unhex(kv["mf"])
        sf = _subst(_unhex(kv["sf"]), mf, _secs(kv), hname, blen)
        out = "ok names=%s mf=%s sf=%s verify=%s" % (kv["names"], kv["mf"], _hex(sf), kv["verify"])
        if "resign" in kv:
            out += " resign=" + kv["resign"]
        return out
    return mres


def equiv(op, il, m):
    if il == m:
        return True
    f = op.split()
    if f[1] == "signx" and il.startswith("ok ") and m.startswith("ok "):
        # Go ranges over maps in verifyManifest / Verify: with several failing sections the error *class* depends on the
        # iteration order; ok / not ok does not
        a, b = _kv(il), _kv(m)
        if a["verify"].startswith("err-") and b["verify"].startswith("err-"):
            a["verify"] = b["verify"] = "err"
            return a == b
    return False


def weight(op):
    return 1


def nontrivial(op, mres, tag):
    return mres.startswith("ok")


def branch(op, mres, tag):
    f = op.split()
    r = mres.split(" ")
    key = r[0] if r[0] == "ok" else " ".join(r[:2])
    if r[0] == "ok":
        if f[1] == "split":
            key += ":" + r[1] + ":" + tag.split(" ")[0]
        elif f[1] == "dump":
            key += ":" + tag.split(" ")[0]
        elif f[1] == "keep":
            key += ":" + r[1]
        elif f[1] == "signx":
            kv = _kv(mres)
            key += ":%s:%s:%s" % (f[10].split(":")[0], kv.get("verify"), _kv(tag).get("changed"))
        elif f[1] == "sf":
            key += ":" + _kv(mres).get("selfverify", "")
    return "jar-" + f[1] + ":" + key


_SIGEXT = (".SF", ".RSA", ".DSA", ".EC", ".SIG")


def _is_sigmeta(name):
    """JAR specification: signature-related files are direct children of META-INF/ (plain member names only)"""
    if name == b"META-INF/":
        return True
    if not name.startswith(b"META-INF/"):
        return False
    rest = name[len(b"META-INF/"):].decode("latin1")
    if "/" in rest or rest == "":
        return False
    if rest.startswith("SIG-") or rest == "MANIFEST.MF":
        return True
    i = rest.rfind(".")
    return i >= 0 and rest[i:] in _SIGEXT


def _members(field):
    if field == "_":
        return []
    out = []
    for p in field.split(","):
        n, d, g = p.split(":")
        out.append((_unhex(n), _unhex(d)))
    return out


def predicate(prop, op, il, mres, tag):
    f = op.split()
    if il.startswith("crash") or il.startswith("not-run") or il.startswith("FAIL"):
        return ("Relic.Props.%s (jar)" % prop, mres, "implementation process died / inconsistent: " + il[:120])
    if il.startswith("panic") and not mres.startswith("panic"):
        return ("Relic.Props.%s (jar no panic)" % prop, mres, "signjar panicked: " + il[:160])
    if f[1] == "split" and il.startswith("ok mal=0 ") and prop in ("C05", "C01"):
        # Relic.Props.C05.jar_manifest_roundtrip / jar_sections_minimal, evaluated on what splitManifest returned:
        # the sections concatenate to the manifest and each ends at the first separator the search finds in it
        secs = [] if il.split(" ")[2] == "_" else [_unhex(x) for x in il.split(" ")[2].split(",")]
        if b"".join(secs) != _unhex(f[2]):
            return ("Relic.Props.C05.jar_manifest_roundtrip", "sections concatenate to the manifest",
                    "splitManifest reports no malformation but its sections do not make up the manifest")
        for sct in secs:
            i1, i2 = sct.find(b"\r\n\r\n"), sct.find(b"\n\n")
            end = i1 + 4 if i1 >= 0 else (i2 + 2 if i2 >= 0 else -1)
            if end != len(sct):
                return ("Relic.Props.C05.jar_sections_minimal", "every section ends at its first separator",
                        "a section returned by splitManifest holds a separator before its end (or none): %r" % sct[:60])
    if f[1] == "dump" and il.startswith("ok ") and prop in ("C05", "C01"):
        d = _unhex(il.split(" ")[1])
        for line in d.split(b"\r\n"):
            if len(line) > 70:
                return ("Relic.Props.C05.jar_fold_line_le_72", "every physical line <= 70 bytes + CRLF",
                        "Dump wrote a physical line of %d bytes" % len(line))
    if f[1] == "sf" and il.startswith("ok ") and prop in ("C05", "C01"):
        kv = _kv(il)
        if kv.get("selfverify") != "ok":
            return ("Relic.Props.C01.jar_sf_verifies", "selfverify=ok",
                    "verifySigFile rejects the .SF that DigestManifest produced for the same manifest: " + kv.get("selfverify", "?"))
    if f[1] != "signx" or not il.startswith("ok "):
        return None
    kv = _kv(il)
    post = f[10].split(":")
    names = kv["names"].split(",")
    if prop in ("C01", "C08", "C05", "C03") and post[0] in ("none", "resign") and kv["verify"] != "ok":
        return ("Relic.Props.C01.jar_sign_then_verify", "verify=ok",
                "relic signed the JAR but its own verifier rejects the result: " + kv["verify"])
    if prop == "C02":
        if post[0] == "add" and kv["verify"] == "ok":
            return ("Relic.Props.C02.jar_unlisted_member_accepted", "verify fails",
                    "a member added to the signed JAR (%r) is not noticed by the verifier" % _unhex(post[1]))
        if post[0] == "mfadd" and kv["verify"] == "ok" and f[6][0] != "1":
            return ("Relic.Props.C02.jar_manifest_append_rejected", "verify fails (whole-manifest digest of the signature file)",
                    "a section for a new member %r was appended to the signed manifest and the verifier still accepts" % _unhex(post[1]))
        if post[0] in ("mod", "del") and kv["verify"] == "ok" and not _unhex(post[1]).endswith(b"/"):
            return ("Relic.Props.C02.jar_listed_member_protected", "verify fails",
                    "member %r was %s after signing and the verifier still accepts" % (_unhex(post[1]), post[0]))
    if prop in ("C03", "C01", "C08") and post[0] in ("none", "resign", "noneg"):
        want = ["%s:%x" % (_hex(n), _fnv(d)) for n, d in _members(f[9]) if not _is_sigmeta(n)]
        got = names[4:]
        if want != got:
            return ("Relic.Props.C03.jar_payload_members_kept", ",".join(want)[:300],
                    "payload members (everything that is not a direct child of META-INF/ with a signature name) changed, moved or vanished")
    if prop == "C08" and post[0] == "resign":
        up = [_unhex(n.split(":")[0]).upper() for n in names]
        sfs = [n for n in up if n.startswith(b"META-INF/") and b"/" not in n[9:] and n.endswith(b".SF")]
        if len(sfs) != 1:
            return ("Relic.Props.C08.jar_resign_replaces", "exactly one .SF",
                    "after signing twice the archive holds %d signature files" % len(sfs))
        if kv.get("resign") != "same":
            return ("Relic.Props.C08.jar_update_idempotent", "resign=same", "the second signing rewrote the manifest differently")
    return None


def matches_known(k, op, il, mres, tag):
    ident = k.get("identity", {})
    f = op.split()
    if f[1] != "signx" or not il.startswith("ok "):
        return False
    post = f[10].split(":")
    kv = _kv(il)
    if ident.get("jar_post") == "add-unlisted":
        # exactly: a member added after signing whose name the manifest does not list, and verification succeeds
        if post[0] != "add" or kv.get("verify") != "ok":
            return False
        listed = [n for n, _ in _members(f[9])]
        return _unhex(post[1]) not in listed
    if ident.get("jar_post") == "lowercase-stale-signature":
        names = [_unhex(n.split(":")[0]) for n in kv["names"].split(",")]
        return (post[0] in ("none", "resign") and kv.get("verify", "").startswith("err")
                and any(n.startswith(b"META-INF/") and n != n.upper() and n.upper().endswith((b".SF",)) for n in names))
    return False

/-
  C08 fragment — JAR: re-signing replaces the old signature; the manifest is not rewritten again.
-/
import Relic.Proofs.Jar
namespace Relic.Props.C08
open Relic Relic.Jar

/-- **jar_resign_removes_old_signature.** Whatever the input archive carried, the signed archive holds the four
    members signing writes and otherwise only members `keepFile` keeps: no `META-INF/*.SF`, `*.RSA`, `*.DSA`, `*.EC`,
    `*.SIG`, `SIG-*` (upper-case spelling, see finding F33) or old manifest survives a signing round. -/
theorem jar_resign_removes_old_signature (ms : List Member) (mf sf sig : Bytes) (kk : Nat) (alias : Bytes) :
    ∀ m ∈ (signedMembers ms mf sf sig kk alias).drop 4, keepFile m.name = true ∧ m ∈ ms := by
  intro m hm
  simp [signedMembers] at hm
  exact ⟨hm.2, hm.1⟩

/-- every digested member is listed in the files map with a non-empty digest equal to the computed one, and carries
    no `Magic` attribute -/
def AllListedMatching (key : Bytes) (digests : List (Bytes × Bytes)) (fm : FilesMap) : Prop :=
  ∀ nd ∈ digests, ∃ attrs, fm.files.lookup nd.1 = some attrs ∧ (hget attrs kMagic).isEmpty = true ∧
    hget attrs key = nd.2 ∧ nd.2 ≠ []

/-- **jar_update_idempotent_partial.** Decision level of `updateManifest`: when every digested member is already listed
    with the matching digest (the state a previous signing leaves behind), the loop changes nothing and does not
    set `changed`, so the manifest bytes are kept as they are (unless the manifest is `malformed`, which a manifest
    written by `Dump` is not – that last step is part of the unproved full statement). -/
theorem jar_update_idempotent_partial (key : Bytes) : ∀ (digests : List (Bytes × Bytes)) (fm : FilesMap) (ch : Bool),
    AllListedMatching key digests fm → updateLoop key digests fm ch = .ok (fm, ch)
  | [], fm, ch, _ => rfl
  | (name, dg) :: rest, fm, ch, h => by
    obtain ⟨attrs, hl, hm, hk, hne⟩ := h (name, dg) (by simp)
    unfold updateLoop
    simp only [hl]
    simp only at hk hne
    subst hk
    simp [hm, hne]
    exact jar_update_idempotent_partial key rest fm ch (fun nd hnd => h nd (by simp [hnd]))

example : AllListedMatching (asc "SHA-256-Digest") [(asc "a", asc "D")]
    { main := [], order := [asc "a"], files := [(asc "a", [(asc "Name", asc "a"), (asc "Sha-256-Digest", asc "D")])] } := by
  intro nd hnd
  simp at hnd
  subst hnd
  exact ⟨_, rfl, by decide, by decide, by decide⟩

/-- full strength, not proved: running `updateManifest` on the archive it produced returns the same manifest bytes with
    `changed = false` (needs: `parseManifest (dump fm)` is not malformed and lists every section of `fm` with the
    digests `updateLoop` wrote; the section-level round trip is now proved: `C05.jar_fold_unfold_section`).  Exercised on the
    real code by the `resign` ops (`resign=same`) and on the model by the `again=` tag. -/
def jar_update_idempotent_full : Prop :=
  ∀ (hash : Bytes → Bytes) (sign : Bytes → Bytes) (hn cb : Bytes) (so apk : Bool) (kk : Nat) (alias : Bytes)
    (ms out : List Member) (mf : Bytes),
    signJar hash sign hn cb so apk kk alias ms = .ok out → findManifest out = some mf →
    updateManifest hash hn out = .ok (mf, false)

end Relic.Props.C08

/- line-protocol handler for the APPX model (C01/C02/C03/C05/C08).

   APPX sign    <zip> <rounds> <tab>*                                  stage 1: does `DigestAppxTar` + `Sign` accept
   APPX signout <zip> <mt> <md> <5 parts: plain compd crc> <tab>*      stage 2 (model only): exact output, five streams,
                                                                       block map data, verifier on the model's output, spec
   APPX fixture <zip> <tab>*                                           spec + `verifyMeta` streams of a signed package
   APPX mutate  <signed> <k> {<pos>:<byte>}*k <tab>*                   verifier on one-byte mutants (signed streams = the
                                                                       unmutated package's)
   <tab>: I:<compd>:<plain> (inflate)  PX:<plain> (not a PE)  MX:<plain> / CX:<plain> (manifest / content types do not
          parse)  B:<xml>:<name,size,size;…> (parsed block map)  F41 (the source carries the repair of F41)                                                         -/
import Relic.Model.Appx
import Relic.Spec.AppxDigest
import Relic.Driver.C17
namespace Relic.Driver.Appx
open Relic Relic.Zip Relic.Appx

/-- tail-recursive hex codec (members of several hundred KiB) -/
def unhexTR : List Char → Bytes → Option Bytes
  | [], acc => some acc.reverse
  | [_], _ => none
  | a :: b :: rest, acc =>
    match hexVal a, hexVal b with
    | some x, some y => unhexTR rest (UInt8.ofNat (x * 16 + y) :: acc)
    | _, _ => none

def unhex (s : String) : Option Bytes := if s = "-" then some [] else unhexTR s.toList []

def hex (b : Bytes) : String :=
  if b.isEmpty then "-" else
  b.foldl (fun s x => (s.push (hexDigit (x.toNat / 16))).push (hexDigit (x.toNat % 16))) ""

structure Tab where
  inf : List (Bytes × Bytes) := []
  px : List Bytes := []
  mx : List Bytes := []
  cx : List Bytes := []
  bm : List (Bytes × List (Bytes × List Nat)) := []
  f41 : Bool := false

def parseBmData (s : String) : Option (List (Bytes × List Nat)) :=
  if s = "-" then some [] else
  (s.splitOn ";").mapM fun e =>
    match e.splitOn "," with
    | n :: szs => do
      let name ← unhex n
      let ss ← szs.mapM (·.toNat?)
      pure (name, ss)
    | [] => none

def parseTab : List String → Tab → Option Tab
  | [], t => some t
  | tok :: rest, t =>
    match tok.splitOn ":" with
    | ["I", a, b] => do parseTab rest { t with inf := t.inf ++ [(← unhex a, ← unhex b)] }
    | ["PX", a] => do parseTab rest { t with px := (← unhex a) :: t.px }
    | ["MX", a] => do parseTab rest { t with mx := (← unhex a) :: t.mx }
    | ["CX", a] => do parseTab rest { t with cx := (← unhex a) :: t.cx }
    | ["B", a, d] => do parseTab rest { t with bm := t.bm ++ [(← unhex a, ← parseBmData d)] }
    | ["F41"] => parseTab rest { t with f41 := true }      -- the source carries the repair of F41 (harness/appx reads it from blockmap.go)
    | _ => none

def codecOf (t : Tab) : Codec :=
  { inflate := fun c => (t.inf.find? fun e => e.1 == c).map (·.2),
    peOk := fun p => !t.px.contains p,
    manifestOk := fun p => !t.mx.contains p,
    ctypesOk := fun p => !t.cx.contains p,
    blockMap := fun x => (t.bm.find? fun e => e.1 == x).map (·.2),
    f41 := t.f41 }

def resTag {α} : Res α → String
  | .ok _ => "ok"
  | .err e => "err " ++ e
  | .panic s => "panic " ++ s
  | .diverge => "diverge"

def bmStr (bm : List BmFile) : String :=
  if bm.isEmpty then "-" else
  ";".intercalate (bm.map fun f =>
    let bl := if f.blocks.isEmpty then "-" else "|".intercalate (f.blocks.map fun b => s!"{hex b.1}:{b.2}")
    s!"{hex f.name},{f.size},{f.lfh},{bl}")

def streamsStr (out : Bytes) (s : Streams) : String :=
  let pc := if s.axpc == out.take s.axpc.length then s!"@{s.axpc.length}" else hex s.axpc
  let ci := match s.axci with
    | some b => hex b
    | none => "none"
  s!"axpc={pc} axcd={hex s.axcd} axct={hex s.axct} axbm={hex s.axbm} axci={ci}"

def specStreams (d : SpecAppx.Digests) : Streams := ⟨d.axpc, d.axcd, d.axct, d.axbm, d.axci⟩

def parseBlob (p c k : String) : Option Blob := do
  pure ⟨← unhex p, ← unhex c, ← k.toNat?⟩

def handle : List String → String
  | "sign" :: zh :: _rounds :: tab =>
    match unhex zh, parseTab tab {} with
    | some z, some t =>
      let c := codecOf t
      match digest c z with
      | .ok g =>
        let tag := s!"n={g.p.members.length} ps={g.patchStart} pe={if g.p.hasPE then 1 else 0} bmf={g.bm.length}"
        if g.unverified then s!"err unverified #{tag}" else s!"ok #{tag}"
      | x => resTag x
    | _, _ => "bad-op"
  | "signout" :: zh :: mt :: md :: mp :: mk :: bp :: bc :: bk :: cp :: cc :: ck :: ap :: ac :: ak :: sp :: sc :: sk :: tab =>
    match unhex zh, mt.toNat?, md.toNat?, unhex mp, mk.toNat?, parseBlob bp bc bk, parseBlob cp cc ck, parseBlob ap ac ak,
          parseBlob sp sc sk, parseTab tab {} with
    | some z, some mt, some md, some mp, some mk, some b, some ct, some cat, some sg, some t =>
      let c := codecOf t
      let parts : Parts := ⟨⟨mp, mp, mk⟩, b, ct, cat, sg, mt, md⟩
      match sign c z parts with
      | .ok r =>
        -- the codec of the output: the parts just written inflate to their contents
        let c2 : Codec := { c with inflate := fun x =>
          if x == b.compd then some b.plain else if x == ct.compd then some ct.plain
          else if x == cat.compd then some cat.plain else if x == sg.compd then some sg.plain else c.inflate x }
        let vm := match verifyMeta r.out with
          | .ok (pc, cd) => if pc == r.streams.axpc && cd == r.streams.axcd then "same" else "differs"
          | x => resTag x
        let v := resTag (verify c2 r.out r.streams (some r.bm))
        let spec := match SpecAppx.ofFile c2.inflate r.out with
          | some d => if specStreams d == r.streams then "same" else "differs"
          | none => "invalid"
        s!"ok {hex r.out} {streamsStr r.out r.streams} bm={bmStr r.bm} sigoff={r.sigOff} cdoff={r.cdOff} vm={vm} v={v.replace " " ":"} #spec={spec}"
      | x => resTag x
    | _, _, _, _, _, _, _, _, _, _ => "bad-op"
  | "fixture" :: zh :: tab =>
    match unhex zh, parseTab tab {} with
    | some z, some t =>
      let c := codecOf t
      let spec := match SpecAppx.ofFile c.inflate z with
        | some d => streamsStr z (specStreams d)
        | none => "invalid"
      let vm := match verifyMeta z with
        | .ok (pc, cd) => s!"ok axpc={if pc == z.take pc.length then s!"@{pc.length}" else hex pc} axcd={hex cd}"
        | x => resTag x
      s!"ok spec {spec} vm {vm.replace " " ","}"
    | _, _ => "bad-op"
  | "mutate" :: zh :: k :: rest =>
    match unhex zh, k.toNat? with
    | some z, some k =>
      match parseTab (rest.drop k) {} with
      | some t =>
        let c := codecOf t
        match streamsOf c z with
        | .ok (s, bm, d) =>
          match sigIndex d.files 0 none with
          | some (some n) =>
            let sigOff := ((d.files.drop n).head?.map (·.offset)).getD 0
            let sigEnt := d.dirLoc + ((d.files.take n).map (·.raw.length)).sum
            let one := fun (m : String) =>
              match m.splitOn ":" with
              | [p, v] =>
                match p.toNat?, v.toNat? with
                | some p, some v =>
                  let prot := decide (p < sigOff) || (decide (d.dirLoc ≤ p) && decide (p < sigEnt))
                  match verify c (z.set p (UInt8.ofNat v)) s (some bm) with
                  | .ok () => if prot then "pass" else "any"
                  | _ => "fail"
                | _, _ => "bad"
              | _ => "bad"
            s!"ok {" ".intercalate ((rest.take k).map one)} #sigoff={sigOff} cd={d.dirLoc} sigent={sigEnt} len={z.length}"
          | _ => "err nosig"
        | x => resTag x
      | none => "bad-op"
    | _, _ => "bad-op"
  | _ => "bad-op"

end Relic.Driver.Appx

// Package jar: generator and implementation runner for the JAR manifest / signature-file model
// (lib/signjar manifest.go, digest.go, sign.go, verify.go; signers/jar).
package jar

import (
	"archive/zip"
	"bufio"
	"bytes"
	"crypto"
	_ "crypto/sha1"
	_ "crypto/sha256"
	_ "crypto/sha512"
	"encoding/base64"
	"errors"
	"fmt"
	"io"
	"net/http"
	"os"
	"path/filepath"
	"sort"
	"strconv"
	"strings"

	"github.com/sassoftware/relic/v8/config"
	"github.com/sassoftware/relic/v8/lib/signjar"

	"verifharness/hx"
	"verifharness/sg"
)

// ---------------------------------------------------------------------------------------------
// canonical printing

func hexList(l [][]byte) string {
	if len(l) == 0 {
		return "_"
	}
	s := make([]string, len(l))
	for i, b := range l {
		s[i] = hx.Hex(b)
	}
	return strings.Join(s, ",")
}

func showHdr(h http.Header) string {
	if len(h) == 0 {
		return "_"
	}
	keys := make([]string, 0, len(h))
	for k := range h {
		keys = append(keys, k)
	}
	sort.Strings(keys)
	parts := make([]string, 0, len(keys))
	for _, k := range keys {
		v := ""
		if len(h[k]) > 0 {
			v = h[k][0]
		}
		parts = append(parts, hx.Hex([]byte(k))+":"+hx.Hex([]byte(v)))
	}
	return strings.Join(parts, ";")
}

func showFm(fm *signjar.FilesMap) string {
	order := make([][]byte, len(fm.Order))
	for i, n := range fm.Order {
		order[i] = []byte(n)
	}
	files := "_"
	if len(fm.Files) > 0 {
		names := make([]string, 0, len(fm.Files))
		for n := range fm.Files {
			names = append(names, n)
		}
		sort.Strings(names)
		parts := make([]string, 0, len(names))
		for _, n := range names {
			parts = append(parts, hx.Hex([]byte(n))+"/"+showHdr(fm.Files[n]))
		}
		files = strings.Join(parts, "|")
	}
	return fmt.Sprintf("main=%s order=%s files=%s", showHdr(fm.Main), hexList(order), files)
}

func bit(b bool) string {
	if b {
		return "1"
	}
	return "0"
}

// error classes of the manifest codec and of signing
func classify(err error) string {
	s := err.Error()
	switch {
	case errors.Is(err, signjar.ErrManifestLineEndings) || strings.Contains(s, "incorrect line ending"):
		return "lineendings"
	case strings.Contains(s, "manifest has no sections"):
		return "nosections"
	case strings.Contains(s, "jar manifest is malformed"):
		return "malformed"
	case strings.Contains(s, "no \"Name\" attribute") || strings.Contains(s, "missing Name attribute"):
		return "noname"
	case strings.Contains(s, "JAR did not contain a manifest"):
		return "nomanifest"
	case strings.Contains(s, "manifest is missing signed section"):
		return "missingsection"
	case strings.Contains(s, "unknown digest key"):
		return "unknowndigest"
	case strings.Contains(s, "no recognized digests"):
		return "nodigests"
	case strings.Contains(s, "mismatch"):
		return "mismatch"
	case strings.Contains(s, "is in manifest but not JAR"):
		return "notinjar"
	case strings.Contains(s, "with no matching signature"):
		return "noblock"
	case strings.Contains(s, "contains no META-INF/MANIFEST.MF"):
		return "nomanifest"
	case strings.Contains(s, "is not signed") || strings.Contains(s, "not signed"):
		return "notsigned"
	}
	return "cms"
}

// ---------------------------------------------------------------------------------------------
// hashes

type hashSpec struct {
	name string // x509tools.HashNames
	h    crypto.Hash
	blen int // length of the base64 text
}

var hashes = []hashSpec{
	{"SHA-256", crypto.SHA256, 44},
	{"SHA1", crypto.SHA1, 28},
	{"SHA-384", crypto.SHA384, 64},
	{"SHA-512", crypto.SHA512, 88},
}

func hashByName(n string) (hashSpec, bool) {
	for _, h := range hashes {
		if h.name == n {
			return h, true
		}
	}
	return hashSpec{}, false
}

func b64(h crypto.Hash, data []byte) string {
	d := h.New()
	d.Write(data)
	return base64.StdEncoding.EncodeToString(d.Sum(nil))
}

// ---------------------------------------------------------------------------------------------
// generator

// bytes the generator never emits into a manifest: F5..FF (placeholder alphabet of the model driver)
func clean(b []byte) []byte {
	for i, c := range b {
		if c >= 0xf5 {
			b[i] = 'z'
		}
	}
	return b
}

var attrNames = []string{
	"Created-By", "Class-Path", "X-Note", "Main-Class", "Implementation-Title", "Sealed", "Java-Bean",
	"x-lower-case", "UPPER-CASE-KEY", "mIxEd-cAsE", "a_b.c", "Key With Space", "K\xc3\xbcrzel", "A", "Magic-Not", "Ant-Version",
	"SHA-256-Digest-X", "Digest", "X-Digest-Y",
}

var uniSpaces = []string{" ", "\t", "\xc2\xa0", "\xc2\x85", "\xe2\x80\xa8", "\xe2\x80\x83", "\xe3\x80\x80", "\xe1\x9a\x80", "\x0b", "\x0c", "\r"}

func randValue(r *hx.Rng, n int) []byte {
	out := make([]byte, 0, n+4)
	for len(out) < n {
		switch r.Intn(12) {
		case 0:
			out = append(out, []byte("\xc3\xa9")...) // é
		case 1:
			out = append(out, []byte("\xe2\x82\xac")...) // €
		case 2:
			out = append(out, ' ')
		case 3:
			out = append(out, ':')
		default:
			out = append(out, byte('a'+r.Intn(26)))
		}
	}
	if len(out) > n {
		out = out[:n] // may cut a UTF-8 sequence: the codec works on bytes
	}
	if n > 0 && (out[0] == ' ') {
		out[0] = 'v'
	}
	if n > 0 && (out[n-1] == ' ') {
		out[n-1] = 'w'
	}
	return out
}

// a value such that len(key)+2+len(value) hits the folding boundaries
func boundaryValue(r *hx.Rng, key string) []byte {
	total := r.Pick(68, 69, 70, 71, 72, 73, 74, 138, 139, 140, 141, 142, 208, 209, 210, 3, 10, 30, 100, 300)
	n := total - len(key) - 2
	if n < 0 {
		n = 0
	}
	return randValue(r, n)
}

type eol struct {
	style int
	noCR  bool // no lone CR (relic does not treat it as a line end: finding F31; whole-JAR scenarios stay clear of it)
}

func (e eol) next(r *hx.Rng) string {
	switch e.style {
	case 0:
		return "\r\n"
	case 1:
		return "\n"
	case 2:
		return "\r"
	default:
		k := 5
		if e.noCR {
			k = 4
		}
		return []string{"\r\n", "\n", "\n", "\r\n", "\r"}[r.Intn(k)]
	}
}

// physical lines of one attribute: unfolded, folded like relic (70), like the JDK (72), or at random
func emitAttr(r *hx.Rng, b *bytes.Buffer, e eol, key string, value []byte, sepStyle int) {
	sep := ": "
	switch sepStyle {
	case 1:
		sep = ":"
	case 2:
		sep = ":  "
	case 3:
		sep = " : "
	}
	line := append([]byte(key+sep), value...)
	mode := r.Pick(0, 1, 1, 1, 2, 2, 3)
	first, rest := len(line)+1, 1
	switch mode {
	case 1:
		first, rest = 70, 69
	case 2:
		first, rest = 72, 71
	case 3:
		first, rest = 1+r.Intn(40), 1+r.Intn(40)
	}
	i := 0
	for i < len(line) {
		n := first
		if i > 0 {
			b.WriteByte(' ')
			n = rest
		}
		j := i + n
		if j > len(line) {
			j = len(line)
		}
		b.Write(line[i:j])
		b.WriteString(e.next(r))
		i = j
	}
}

type manifestOpts struct {
	names     []string // entry names to list (sections)
	digests   map[string]string
	hashName  string
	wellEnded bool // force proper endings
	noLoneCR  bool
}

// GenManifest: a mostly valid manifest; `defects` > 0 adds irregularities
func GenManifest(r *hx.Rng, o manifestOpts, defects int) []byte {
	var b bytes.Buffer
	style := r.Pick(0, 0, 0, 1, 1, 3)
	if defects > 0 && r.Intn(6) == 0 {
		style = 2
	}
	if o.wellEnded {
		style = r.Pick(0, 0, 1)
	}
	if o.noLoneCR && style == 2 {
		style = 1
	}
	e := eol{style, o.noLoneCR}
	section := func(first string, firstVal []byte, extra int) {
		if first != "" {
			emitAttr(r, &b, e, first, firstVal, 0)
		}
		for i := 0; i < extra; i++ {
			k := attrNames[r.Intn(len(attrNames))]
			sep := 0
			if defects > 0 && r.Intn(5) == 0 {
				sep = r.Intn(4)
			}
			v := boundaryValue(r, k)
			if defects > 0 && r.Intn(8) == 0 {
				v = append([]byte(uniSpaces[r.Intn(len(uniSpaces))]), v...)
			}
			if defects > 0 && r.Intn(8) == 0 {
				v = append(v, []byte(uniSpaces[r.Intn(len(uniSpaces))])...)
			}
			emitAttr(r, &b, e, k, v, sep)
		}
	}
	endSection := func(last bool) {
		if defects == 0 || o.wellEnded {
			b.WriteString(e.next(r))
			return
		}
		switch r.Intn(14) {
		case 0: // no blank line at all
		case 1:
			b.WriteString(e.next(r))
			b.WriteString(e.next(r))
		case 2:
			b.WriteString(" " + e.next(r)) // a line holding one space: a continuation of nothing
		case 3:
			b.WriteString(e.next(r) + "\t" + e.next(r) + e.next(r))
		case 4:
			if last {
				b.Truncate(b.Len() - 1) // missing final newline
			} else {
				b.WriteString(e.next(r))
			}
		case 5:
			b.WriteString(e.next(r) + uniSpaces[r.Intn(len(uniSpaces))] + e.next(r) + e.next(r))
		default:
			b.WriteString(e.next(r))
		}
	}
	if defects > 0 && r.Intn(10) == 0 {
		b.WriteString(e.next(r)) // leading blank line
	}
	mv := "Manifest-Version"
	if defects > 0 && r.Intn(10) == 0 {
		mv = []string{"manifest-version", "", "X-First"}[r.Intn(3)]
	}
	section(mv, []byte("1.0"), r.Pick(0, 1, 1, 2, 3, 5))
	endSection(len(o.names) == 0)
	for i, n := range o.names {
		nameKey := "Name"
		if defects > 0 && r.Intn(12) == 0 {
			nameKey = []string{"name", "NAME", "", "Nam"}[r.Intn(4)]
		}
		emitAttr(r, &b, e, nameKey, []byte(n), 0)
		if d, ok := o.digests[n]; ok {
			hk := o.hashName + "-Digest"
			if r.Intn(3) == 0 {
				hk = strings.ToLower(hk)
			}
			emitAttr(r, &b, e, hk, []byte(d), 0)
		}
		section("", nil, r.Pick(0, 0, 1, 2))
		if defects > 0 && r.Intn(15) == 0 { // duplicate attribute
			emitAttr(r, &b, e, "X-Note", []byte("again"), 0)
			emitAttr(r, &b, e, "x-note", []byte("and again"), 0)
		}
		endSection(i == len(o.names)-1)
	}
	return clean(b.Bytes())
}

var entryNames = []string{
	"com/example/A.class", "res/one.txt", "res/two.txt", "a", "dir/", "com/", "META-INF/services/x.Y", "META-INF/LICENSE",
	"very/long/path/that/goes/on/and/on/for/quite/a/while/so/that/the/name/line/needs/folding/Foo$Inner.class",
	"sp ace.txt", "uml\xc3\xa4ut.txt", "META-INF/sub/OTHER.EC", "b.SF", "x/META-INF/Y.RSA",
}

var metaNames = []string{
	"META-INF/OLD.SF", "META-INF/OLD.RSA", "META-INF/OLD.DSA", "META-INF/OLD.EC", "META-INF/SIG-FOO", "META-INF/SIG-X.SIG",
	"META-INF/x.SIG", "META-INF/old.sf", "META-INF/old.rsa", "META-INF/Old.Sf", "META-INF/INDEX.LIST", "META-INF/a.b.SF",
	"META-INF/.SF", "META-INF/SF", "META-INF/X.SFX", "META-INF/sig-lower", "META-INF/X.RSA.bak",
}

var keepNames = []string{
	"META-INF/", "META-INF", "META-INF/MANIFEST.MF", "META-INF/manifest.mf", "META-INF//A.SF", "./META-INF/A.SF", "META-INF/./A.SF",
	"x/../META-INF/A.SF", "/META-INF/A.SF", "META-INF/x/../A.SF", "META-INF/x/A.SF", "META-INF/A.SF/", "META-INF/x/..", "META-INF/x/../",
	"../META-INF/A.SF", "META-INF/../META-INF/A.RSA", "", "/", ".", "..", "A.SF", "META-INF/SIG-", "META-INF/SIG-/", "META-INF/.", "META-INF/..",
	"META-INF/A.SF.", "META-INF/A..SF", "META-INF/.EC", "META-INF/A.ec", "meta-inf/A.SF", "META-INF/A.SIG", "META-INF/A.DSA", "META-INF/MANIFEST.MF/",
	"META-INF/sub/MANIFEST.MF", "META-INF///", "//META-INF/A.SF", "META-INF/A.SF//", "./", "a/./b/../../META-INF/Z.RSA",
}

func randName(r *hx.Rng) string {
	parts := []string{"META-INF", "META-INF", "x", ".", "..", "", "A.SF", "B.RSA", "SIG-Q", "MANIFEST.MF", "c.txt", "y.EC", "z.DSA", "w.SIG", "sub"}
	n := 1 + r.Intn(4)
	s := make([]string, n)
	for i := range s {
		s[i] = parts[r.Intn(len(parts))]
	}
	return strings.Join(s, "/")
}

type member struct {
	name string
	data []byte
}

func membersField(ms []member, h crypto.Hash) string {
	if len(ms) == 0 {
		return "_"
	}
	parts := make([]string, len(ms))
	for i, m := range ms {
		parts[i] = hx.Hex([]byte(m.name)) + ":" + hx.Hex(m.data) + ":" + hx.Hex([]byte(b64(h, m.data)))
	}
	return strings.Join(parts, ",")
}

func createdBy() string { return fmt.Sprintf("%s (%s)", config.UserAgent, config.Author) }

// one whole-JAR scenario
func genJar(r *hx.Rng, kind string) (hs hashSpec, keyKind int, alias string, flags string, ms []member, post string) {
	hs = hashes[r.Pick(0, 0, 0, 0, 1, 2, 3)]
	keyKind = r.Pick(0, 1, 1)
	alias = []string{"RELIC", "RELIC", "myKey1", "a", "Signer_2"}[r.Intn(5)]
	flags = bit(r.Intn(4) == 0) + bit(r.Intn(4) == 0) + bit(r.Intn(6) == 0)
	// payload members
	n := 1 + r.Intn(5)
	used := map[string]bool{}
	var payload []member
	for len(payload) < n {
		nm := entryNames[r.Intn(len(entryNames))]
		if used[nm] {
			continue
		}
		used[nm] = true
		var data []byte
		if !strings.HasSuffix(nm, "/") {
			data = r.Bytes(r.Pick(0, 1, 5, 40, 300))
		}
		payload = append(payload, member{nm, data})
	}
	// which of them the manifest lists, with / without digest
	var listed []string
	digests := map[string]string{}
	mode := r.Intn(5) // 0: none listed, 1: all with digests, 2: all without, 3/4: mixture
	for _, m := range payload {
		switch {
		case mode == 0:
		case mode == 1:
			listed = append(listed, m.name)
			if !strings.HasSuffix(m.name, "/") {
				digests[m.name] = b64(hs.h, m.data)
			}
		case mode == 2:
			listed = append(listed, m.name)
		default:
			if r.Intn(3) > 0 {
				listed = append(listed, m.name)
				if r.Bool() && !strings.HasSuffix(m.name, "/") {
					digests[m.name] = b64(hs.h, m.data)
				}
			}
		}
	}
	if kind == "wrongdigest" && len(digests) > 0 {
		for k := range digests {
			used[k] = true
		}
		// deterministic choice: smallest name
		keys := make([]string, 0, len(digests))
		for k := range digests {
			keys = append(keys, k)
		}
		sort.Strings(keys)
		digests[keys[0]] = b64(hs.h, []byte("something else"))
	}
	if r.Intn(3) == 0 {
		r2 := listed
		for i := len(r2) - 1; i > 0; i-- { // listed order differs from archive order
			j := r.Intn(i + 1)
			r2[i], r2[j] = r2[j], r2[i]
		}
	}
	defects := 0
	if r.Intn(3) == 0 {
		defects = 1
	}
	manifest := GenManifest(r, manifestOpts{names: listed, digests: digests, hashName: hs.name, wellEnded: defects == 0, noLoneCR: true}, defects)
	ms = append(ms, member{"META-INF/MANIFEST.MF", manifest})
	if kind == "nomanifest" {
		ms = nil
	}
	if r.Intn(3) == 0 {
		ms = append([]member{{"META-INF/", nil}}, ms...)
	}
	// stale signature files and look-alikes
	nmeta := r.Pick(0, 0, 1, 2, 3)
	if kind == "resign" {
		nmeta = r.Pick(1, 2, 3)
	}
	for i := 0; i < nmeta; i++ {
		nm := metaNames[r.Intn(len(metaNames))]
		if kind != "lowercase" && strings.ToUpper(nm) != nm && (strings.HasSuffix(strings.ToUpper(nm), ".SF") || strings.HasSuffix(strings.ToUpper(nm), ".RSA")) {
			continue // lower-case signature names: only in the dedicated scenario (known finding)
		}
		if used[nm] {
			continue
		}
		used[nm] = true
		ms = append(ms, member{nm, []byte("stale " + nm)})
	}
	if kind == "lowercase" {
		ms = append(ms, member{"META-INF/old.sf", []byte("Signature-Version: 1.0\r\n\r\n")}, member{"META-INF/old.rsa", []byte("stale")})
	}
	ms = append(ms, payload...)
	post = "none"
	var files []member
	for _, m := range payload {
		if !strings.HasSuffix(m.name, "/") {
			files = append(files, m)
		}
	}
	some := func() member { return files[r.Intn(len(files))] }
	if len(files) == 0 && (kind == "mod" || kind == "del" || kind == "dup") {
		kind = "unlisted"
	}
	switch kind {
	case "unlisted":
		nm := []string{"evil/Injected.class", "zz.txt", "META-INF/services/injected", "com/example/B.class"}[r.Intn(4)]
		if used[nm] {
			nm += "2"
		}
		d := []byte("injected after signing")
		post = "add:" + hx.Hex([]byte(nm)) + ":" + hx.Hex(d) + ":" + hx.Hex([]byte(b64(hs.h, d)))
	case "mod":
		m := some()
		d := append(append([]byte{}, m.data...), 'X')
		post = "mod:" + hx.Hex([]byte(m.name)) + ":" + hx.Hex(d) + ":" + hx.Hex([]byte(b64(hs.h, d)))
	case "del":
		post = "del:" + hx.Hex([]byte(some().name))
	case "dup":
		m := some()
		d := []byte("shadow copy")
		post = "add:" + hx.Hex([]byte(m.name)) + ":" + hx.Hex(d) + ":" + hx.Hex([]byte(b64(hs.h, d)))
	case "mfadd":
		// a section for a new member appended to the signed manifest, with the member's correct digest: only the
		// whole-manifest digest of the signature file (or, with sections-only, nothing) stands against it
		nm := []string{"evil/Appended.class", "zz-appended.txt", "com/example/Extra.class"}[r.Intn(3)]
		if used[nm] {
			nm += "2"
		}
		d := []byte("appended after signing")
		sec := "Name: " + nm + "\r\n" + hs.name + "-Digest: " + b64(hs.h, d) + "\r\n\r\n"
		post = "mfadd:" + hx.Hex([]byte(nm)) + ":" + hx.Hex(d) + ":" + hx.Hex([]byte(b64(hs.h, d))) + ":" + hx.Hex([]byte(sec))
	case "resign":
		post = "resign"
	}
	// an irregular input manifest (merged sections, digests that belong to other entries, ...) is garbage in: the ops are
	// still compared with the model, but "what relic signs must verify" is only demanded for regular manifests
	if defects > 0 && (post == "none" || post == "resign") {
		post = "noneg"
	}
	return
}

func emitSignx(w *bufio.Writer, r *hx.Rng, kind string) {
	hs, kk, alias, flags, ms, post := genJar(r, kind)
	fmt.Fprintf(w, "JAR signx %s %d %d %s %s %s %s %s %s\n", hx.Hex([]byte(hs.name)), hs.blen, kk, hx.Hex([]byte(alias)), flags,
		hx.Hex([]byte(createdBy())), hx.Hex([]byte(b64(hs.h, nil))), membersField(ms, hs.h), post)
}

func emitCodec(w *bufio.Writer, r *hx.Rng, kinds ...string) {
	n := r.Pick(0, 1, 2, 3, 5)
	names := make([]string, n)
	for i := range names {
		names[i] = entryNames[r.Intn(len(entryNames))] // duplicates happen
	}
	defects := r.Pick(0, 0, 1, 1, 1)
	var m []byte
	if r.Intn(12) == 0 { // malformed stream: small alphabet
		alpha := []string{"\r", "\n", "\n", " ", ":", "A", "b", "-", "Name", "\xc2\xa0", "\xe2\x80\xa8", "\r\n", "\n\n", "\r\n\r\n", ": ", "1.0"}
		k := r.Intn(14)
		for i := 0; i < k; i++ {
			m = append(m, alpha[r.Intn(len(alpha))]...)
		}
	} else {
		hs := hashes[0]
		m = GenManifest(r, manifestOpts{names: names, hashName: hs.name, wellEnded: defects == 0}, defects)
	}
	for _, k := range kinds {
		switch k {
		case "split", "parse", "dump":
			fmt.Fprintf(w, "JAR %s %s\n", k, hx.Hex(m))
		case "section":
			secs, _ := signjar.VerifSplitManifest(m) // generator convenience only: any byte string is a valid op
			if len(secs) > 0 {
				fmt.Fprintf(w, "JAR section %s\n", hx.Hex(secs[r.Intn(len(secs))]))
			}
		case "sf":
			hs := hashes[r.Pick(0, 0, 1, 2, 3)]
			flags := bit(r.Intn(3) == 0) + "0" + bit(r.Intn(5) == 0)
			fmt.Fprintf(w, "JAR sf %s %d %s %s %s\n", hx.Hex([]byte(hs.name)), hs.blen, flags, hx.Hex([]byte(createdBy())), hx.Hex(m))
		}
	}
}

// Gen writes the ops of the JAR model for property `prop`.
func Gen(w *bufio.Writer, seed uint64, tier string, prop string) {
	r := hx.NewRng(seed ^ 0x4a41520000 ^ uint64(len(prop))<<40 ^ uint64(prop[2])<<48)
	scale := 1
	if tier == "thorough" {
		scale = 8
	}
	codec := func(n int, kinds ...string) {
		for i := 0; i < n*scale; i++ {
			emitCodec(w, r, kinds...)
		}
	}
	jars := func(n int, kinds ...string) {
		for i := 0; i < n*scale; i++ {
			emitSignx(w, r, kinds[i%len(kinds)])
		}
	}
	keeps := func() {
		for _, n := range keepNames {
			fmt.Fprintf(w, "JAR keep %s\n", hx.Hex([]byte(n)))
		}
		for _, n := range metaNames {
			fmt.Fprintf(w, "JAR keep %s\n", hx.Hex([]byte(n)))
		}
		for _, n := range entryNames {
			fmt.Fprintf(w, "JAR keep %s\n", hx.Hex([]byte(n)))
		}
		for i := 0; i < 150*scale; i++ {
			fmt.Fprintf(w, "JAR keep %s\n", hx.Hex([]byte(randName(r))))
		}
	}
	switch prop {
	case "C05":
		codec(250, "split", "section", "parse", "dump", "sf")
		jars(40, "plain", "plain", "resign")
	case "C01":
		codec(120, "dump", "sf")
		jars(70, "plain", "plain", "plain", "wrongdigest", "nomanifest", "lowercase")
	case "C02":
		jars(110, "mod", "del", "unlisted", "dup", "mod", "mfadd")
		codec(40, "sf")
	case "C03":
		keeps()
		jars(60, "plain", "resign")
		codec(60, "split", "dump")
	case "C08":
		keeps()
		jars(60, "resign", "resign", "plain", "lowercase")
	default:
		codec(50, "split", "parse", "dump", "sf")
	}
}

// ---------------------------------------------------------------------------------------------
// implementation runner

var tmpDir string

func scratch() string {
	if tmpDir == "" {
		d, err := os.MkdirTemp("", "vh-jar-")
		if err != nil {
			panic(err)
		}
		tmpDir = d
		hx.OnExit(func() { os.RemoveAll(d) })
	}
	return tmpDir
}

func fnv64(b []byte) uint64 {
	h := uint64(14695981039346656037)
	for _, c := range b {
		h = (h ^ uint64(c)) * 1099511628211
	}
	return h
}

func parseMembers(s string) ([]member, error) {
	if s == "_" {
		return nil, nil
	}
	var out []member
	for _, p := range strings.Split(s, ",") {
		f := strings.Split(p, ":")
		if len(f) != 3 {
			return nil, errors.New("bad member")
		}
		n, err := hx.UnHex(f[0])
		if err != nil {
			return nil, err
		}
		d, err := hx.UnHex(f[1])
		if err != nil {
			return nil, err
		}
		out = append(out, member{string(n), d})
	}
	return out, nil
}

func writeZip(path string, ms []member) error {
	var buf bytes.Buffer
	zw := zip.NewWriter(&buf)
	for _, m := range ms {
		method := zip.Deflate
		if strings.HasSuffix(m.name, "/") || len(m.data) == 0 {
			method = zip.Store
		}
		w, err := zw.CreateHeader(&zip.FileHeader{Name: m.name, Method: method})
		if err != nil {
			return err
		}
		if _, err := w.Write(m.data); err != nil {
			return err
		}
	}
	if err := zw.Close(); err != nil {
		return err
	}
	return os.WriteFile(path, buf.Bytes(), 0o644)
}

func readZip(path string) ([]member, error) {
	zr, err := zip.OpenReader(path)
	if err != nil {
		return nil, err
	}
	defer zr.Close()
	var out []member
	for _, f := range zr.File {
		rc, err := f.Open()
		if err != nil {
			return nil, err
		}
		d, err := io.ReadAll(rc)
		rc.Close()
		if err != nil {
			return nil, err
		}
		out = append(out, member{f.Name, d})
	}
	return out, nil
}

func unhexAll(ss ...string) ([][]byte, bool) {
	out := make([][]byte, len(ss))
	for i, s := range ss {
		b, err := hx.UnHex(s)
		if err != nil {
			return nil, false
		}
		out[i] = b
	}
	return out, true
}

var opCounter int

// Handle runs one JAR op on the real code.
func Handle(f []string) (res string) {
	if len(f) < 2 {
		return "bad-op"
	}
	defer func() {
		if r := recover(); r != nil {
			s := fmt.Sprint(r)
			if strings.Contains(s, "index out of range [0] with length 0") {
				res = "panic sections[0]"
				return
			}
			res = "panic " + strings.ReplaceAll(s, "\n", " ")
		}
	}()
	switch f[0] {
	case "split":
		m, err := hx.UnHex(f[1])
		if err != nil {
			return "bad-op"
		}
		secs, mal := signjar.VerifSplitManifest(m)
		return fmt.Sprintf("ok mal=%s %s", bit(mal), hexList(secs))
	case "section":
		s, err := hx.UnHex(f[1])
		if err != nil {
			return "bad-op"
		}
		h, err := signjar.VerifParseSection(s)
		if err != nil {
			return "err " + classify(err)
		}
		return "ok " + showHdr(h)
	case "parse":
		m, err := hx.UnHex(f[1])
		if err != nil {
			return "bad-op"
		}
		fm, mal, err := signjar.VerifParseManifest(m)
		if err != nil {
			return "err " + classify(err)
		}
		// the exported entry point must agree: error exactly when malformed
		_, err2 := signjar.ParseManifest(m)
		if (err2 != nil) != mal {
			return "FAIL ParseManifest-vs-parseManifest"
		}
		return fmt.Sprintf("ok mal=%s %s", bit(mal), showFm(fm))
	case "dump":
		m, err := hx.UnHex(f[1])
		if err != nil {
			return "bad-op"
		}
		fm, _, err := signjar.VerifParseManifest(m)
		if err != nil {
			return "err " + classify(err)
		}
		return "ok " + hx.Hex(fm.Dump())
	case "keep":
		n, err := hx.UnHex(f[1])
		if err != nil {
			return "bad-op"
		}
		return "ok " + bit(signjar.VerifKeepFile(string(n)))
	case "sf":
		if len(f) != 6 {
			return "bad-op"
		}
		b, ok := unhexAll(f[1], f[4], f[5])
		if !ok {
			return "bad-op"
		}
		hs, ok := hashByName(string(b[0]))
		if !ok {
			return "bad-op"
		}
		sf, err := signjar.DigestManifest(b[2], hs.h, f[3][0] == '1', f[3][2] == '1')
		if err != nil {
			return "err " + classify(err)
		}
		// the Created-By line is whatever this build says; the op carries the generator's value
		if string(b[1]) != createdBy() {
			return "bad-op created-by"
		}
		rt := "ok"
		if _, err := signjar.VerifVerifySigFile(sf, b[2]); err != nil {
			rt = "err-" + classify(err)
		}
		return fmt.Sprintf("ok sf=%s selfverify=%s", hx.Hex(sf), rt)
	case "signx":
		return signx(f)
	}
	return "bad-op"
}

func applyPost(ms []member, post string) ([]member, bool) {
	p := strings.Split(post, ":")
	switch p[0] {
	case "none", "resign", "noneg":
		return ms, true
	case "add", "mod":
		if len(p) != 4 {
			return nil, false
		}
		b, ok := unhexAll(p[1], p[2])
		if !ok {
			return nil, false
		}
		if p[0] == "add" {
			return append(append([]member{}, ms...), member{string(b[0]), b[1]}), true
		}
		out := append([]member{}, ms...)
		for i := range out {
			if out[i].name == string(b[0]) {
				out[i].data = b[1]
			}
		}
		return out, true
	case "mfadd":
		if len(p) != 5 {
			return nil, false
		}
		b, ok := unhexAll(p[1], p[2], p[4])
		if !ok {
			return nil, false
		}
		out := append([]member{}, ms...)
		for i := range out {
			if out[i].name == "META-INF/MANIFEST.MF" {
				out[i].data = append(append([]byte{}, out[i].data...), b[2]...)
			}
		}
		return append(out, member{string(b[0]), b[1]}), true
	case "del":
		if len(p) != 2 {
			return nil, false
		}
		b, ok := unhexAll(p[1])
		if !ok {
			return nil, false
		}
		var out []member
		for _, m := range ms {
			if m.name != string(b[0]) {
				out = append(out, m)
			}
		}
		return out, true
	}
	return nil, false
}

// signx <hashName> <b64len> <keykind> <alias> <flags> <createdBy> <emptyDigest> <members> <post>
func signx(f []string) string {
	if len(f) != 10 {
		return "bad-op"
	}
	b, ok := unhexAll(f[1], f[4], f[6])
	if !ok {
		return "bad-op"
	}
	hs, ok := hashByName(string(b[0]))
	if !ok {
		return "bad-op"
	}
	if string(b[2]) != createdBy() {
		return "bad-op created-by"
	}
	ms, err := parseMembers(f[8])
	if err != nil {
		return "bad-op"
	}
	key := "rsa"
	if f[3] == "1" {
		key = "p256"
	}
	flags := map[string]string{"key-alias": string(b[1])}
	if f[5][0] == '1' {
		flags["sections-only"] = "true"
	}
	if f[5][1] == '1' {
		flags["inline-signature"] = "true"
	}
	if f[5][2] == '1' {
		flags["apk-v2-present"] = "true"
	}
	opCounter++
	path := filepath.Join(scratch(), "j"+strconv.Itoa(opCounter)+".jar")
	defer os.Remove(path)
	if err := writeZip(path, ms); err != nil {
		return "bad-op zip:" + strings.ReplaceAll(err.Error(), " ", "_")
	}
	rounds := 1
	if f[9] == "resign" {
		rounds = 2
	}
	var firstMf []byte
	for i := 0; i < rounds; i++ {
		if err := sg.Sign("jar", path, path, sg.Cert(key), hs.h, flags); err != nil {
			return "err " + classify(err)
		}
		if i == 0 && rounds == 2 {
			out, err := readZip(path)
			if err != nil {
				return "FAIL unreadable-after-sign"
			}
			for _, m := range out {
				if m.name == "META-INF/MANIFEST.MF" {
					firstMf = m.data
				}
			}
		}
	}
	out, err := readZip(path)
	if err != nil {
		return "FAIL unreadable-after-sign:" + strings.ReplaceAll(err.Error(), " ", "_")
	}
	var mf, sf []byte
	names := make([]string, len(out))
	for i, m := range out {
		nm := hx.Hex([]byte(m.name))
		if i >= 4 {
			nm += ":" + strconv.FormatUint(fnv64(m.data), 16)
		}
		names[i] = nm
		if m.name == "META-INF/MANIFEST.MF" && mf == nil {
			mf = m.data
		}
		if i == 2 {
			sf = m.data
		}
	}
	resign := ""
	if rounds == 2 {
		resign = " resign=diff"
		if bytes.Equal(firstMf, mf) {
			resign = " resign=same"
		}
	}
	out2, ok := applyPost(out, f[9])
	if !ok {
		return "bad-op"
	}
	if len(out2) != len(out) || strings.HasPrefix(f[9], "mod") || strings.HasPrefix(f[9], "mfadd") {
		if err := writeZip(path, out2); err != nil {
			return "bad-op zip2:" + strings.ReplaceAll(err.Error(), " ", "_")
		}
	}
	v := "ok"
	if _, err := sg.Verify("jar", path, sg.Cert(key), false); err != nil {
		v = "err-" + classify(err)
	}
	return fmt.Sprintf("ok names=%s mf=%s sf=%s verify=%s%s", strings.Join(names, ","), hx.Hex(mf), hx.Hex(sf), v, resign)
}

/-
  The signer's output seen through the verifier's lookups: closed forms of the fixed part names, inversion of `sign`,
  where each name resolves in `kept ++ new parts`, evaluation of `readSignature` and `checkRefs` on it.
-/
import Relic.Proofs.Vsix
namespace Relic.Vsix
open Relic Relic.Xml Relic.XmlSig

/-- "_rels/.rels" -/
def sTopRels : Bytes := [0x5f, 0x72, 0x65, 0x6c, 0x73, 0x2f, 0x2e, 0x72, 0x65, 0x6c, 0x73]
/-- "package/services/digital-signature/_rels/origin.psdor.rels" -/
def sOriginRels : Bytes := [0x70, 0x61, 0x63, 0x6b, 0x61, 0x67, 0x65, 0x2f, 0x73, 0x65, 0x72, 0x76, 0x69, 0x63, 0x65, 0x73, 0x2f, 0x64, 0x69, 0x67, 0x69, 0x74, 0x61, 0x6c, 0x2d, 0x73, 0x69, 0x67, 0x6e, 0x61, 0x74, 0x75, 0x72, 0x65, 0x2f, 0x5f, 0x72, 0x65, 0x6c, 0x73, 0x2f, 0x6f, 0x72, 0x69, 0x67, 0x69, 0x6e, 0x2e, 0x70, 0x73, 0x64, 0x6f, 0x72, 0x2e, 0x72, 0x65, 0x6c, 0x73]

theorem relPath_nil : relPath [] = sTopRels := by decide
theorem relPath_origin : relPath sOrigin = sOriginRels := by decide
theorem origin_back : cleanRel (pathClean (47 :: sOrigin)) = sOrigin := by decide

/-! ### inversion of `sign` -/

/-- the parts `sign` appends to the kept members -/
def newsOf (E : Env) (c : Cfg) (obj : Node) (ct : CT) : Pkg :=
  fixedNews E c ++ certNews E c ++
    [⟨sigName c, E.xsign c.hash c.detach obj⟩, ⟨sContentTypes, E.marshalCT (sortMap ct.byExt) (sortMap ct.byOvr)⟩]

theorem sign_inv {fx : Bool} {E : Env} {c : Cfg} {pkg : Pkg} {s : Signed} (hs : sign fx E c pkg = .ok s) :
    ∃ m, mangle fx E pkg {} = .ok m ∧
      mkRefs fx m.ct (sortMap (addDigests m.digests (fixedNews E c))) = .ok s.refs ∧
      s.obj = objectNode E c.hash c.time s.refs ∧ s.kept = m.kept ∧ s.ctOut = newCtypes m.ct c.detach ∧
      s.parts = m.kept ++ newsOf E c s.obj s.ctOut := by
  unfold sign at hs
  cases hm : mangle fx E pkg {} with
  | ok m =>
    simp only [hm] at hs
    cases hr : mkRefs fx m.ct (sortMap (addDigests m.digests (fixedNews E c))) with
    | ok refs =>
      simp only [hr, Res.ok.injEq] at hs
      subst hs
      exact ⟨m, rfl, hr, rfl, rfl, rfl, by simp [newsOf, List.append_assoc]⟩
    | err x => simp [hr] at hs
    | panic x => simp [hr] at hs
    | diverge => simp [hr] at hs
  | err x => simp [hm] at hs
  | panic x => simp [hm] at hs
  | diverge => simp [hm] at hs

theorem newsOf_names (E : Env) (c : Cfg) (obj : Node) (ct : CT) : (newsOf E c obj ct).map (·.name) = newNames c := by
  unfold newsOf newNames fixedNews certNews
  cases c.detach <;> simp [Function.comp_def]

/-! ### where a name resolves in the signed package -/

structure CfgFacts (c : Cfg) : Prop where
  notKept : ∀ n ∈ newNames c, keepFile n = false
  nodup : (newNames c).Nodup
  sigRelsNotKept : keepFile (relPath (sigName c)) = false
  sigRelsAbsent : c.detach = false → relPath (sigName c) ∉ newNames c
  sigBack : cleanRel (pathClean (47 :: sigName c)) = sigName c
  certBack : ∀ x ∈ c.chain, cleanRel (pathClean (47 :: certPath x.1)) = certPath x.1

theorem cfgFacts_of_cfgOk {c : Cfg} (h : cfgOk c = true) : CfgFacts c := by
  simp only [cfgOk, targetBack, Bool.and_eq_true, List.all_eq_true, Bool.not_eq_true', decide_eq_true_eq, Bool.or_eq_true,
    List.contains_eq_mem] at h
  obtain ⟨⟨⟨⟨⟨h1, h2⟩, h3⟩, h4⟩, h5⟩, h6⟩ := h
  refine ⟨h1, h2, h3, ?_, h5, h6⟩
  intro hd
  rcases h4 with h4 | h4
  · rw [hd] at h4; cases h4
  · simpa using h4

theorem keptOf_keep {pkg : Pkg} {p : Part} (h : p ∈ keptOf pkg) : keepFile p.name = true := by
  simp only [keptOf, List.mem_filter] at h
  exact h.2

theorem look_new {c : Cfg} (F : CfgFacts c) {E : Env} {obj : Node} {ct : CT} (kept : Pkg) {p : Part}
    (hp : p ∈ newsOf E c obj ct) : findLast (kept ++ newsOf E c obj ct) p.name = some p := by
  rw [findLast_append, findLast_of_nodup (by rw [newsOf_names]; exact F.nodup) hp]

theorem look_kept {c : Cfg} (F : CfgFacts c) {E : Env} {obj : Node} {ct : CT} (kept : Pkg) {n : Bytes}
    (hn : keepFile n = true) : findLast (kept ++ newsOf E c obj ct) n = findLast kept n := by
  rw [findLast_append, findLast_none]
  intro p hp hpn
  have : p.name ∈ newNames c := by rw [← newsOf_names E c obj ct]; exact List.mem_map_of_mem hp
  have := F.notKept _ this
  rw [hpn, hn] at this
  cases this

theorem look_absent {c : Cfg} {E : Env} {obj : Node} {ct : CT} {pkg : Pkg} {n : Bytes}
    (hk : keepFile n = false) (hn : n ∉ newNames c) : findLast (keptOf pkg ++ newsOf E c obj ct) n = none := by
  apply findLast_none
  intro p hp hpn
  rcases List.mem_append.mp hp with h | h
  · have := keptOf_keep h
    rw [hpn, hk] at this
    cases this
  · exact hn (by rw [← newsOf_names E c obj ct, ← hpn]; exact List.mem_map_of_mem h)

/-! ### the signer's own parts, looked up by name -/

section files
variable {c : Cfg} (F : CfgFacts c) (E : Env) (obj : Node) (ct : CT) (kept : Pkg)
include F

theorem files_top : findLast (kept ++ newsOf E c obj ct) (relPath []) =
    some ⟨relPath [], marshalRels (appendRel E [] sOrigin sigOriginType)⟩ :=
  look_new F _ (p := ⟨relPath [], _⟩) (by simp [newsOf, fixedNews])

theorem files_originRels : findLast (kept ++ newsOf E c obj ct) (relPath sOrigin) =
    some ⟨relPath sOrigin, marshalRels (appendRel E [] (sigName c) sigType)⟩ :=
  look_new F _ (p := ⟨relPath sOrigin, _⟩) (by simp [newsOf, fixedNews])

theorem files_origin : findLast (kept ++ newsOf E c obj ct) sOrigin = some ⟨sOrigin, []⟩ :=
  look_new F _ (p := ⟨sOrigin, _⟩) (by simp [newsOf, fixedNews])

theorem files_sig : findLast (kept ++ newsOf E c obj ct) (sigName c) = some ⟨sigName c, E.xsign c.hash c.detach obj⟩ :=
  look_new F _ (p := ⟨sigName c, _⟩) (by simp [newsOf])

theorem files_sigRels (hd : c.detach = true) : findLast (kept ++ newsOf E c obj ct) (relPath (sigName c)) =
    some ⟨relPath (sigName c), marshalRels (certRels E c.chain [])⟩ :=
  look_new F _ (p := ⟨relPath (sigName c), _⟩) (by simp [newsOf, certNews, hd])

theorem files_cert (hd : c.detach = true) {x : Bytes × Bytes} (hx : x ∈ c.chain) :
    findLast (kept ++ newsOf E c obj ct) (certPath x.1) = some ⟨certPath x.1, x.2⟩ :=
  look_new F _ (p := ⟨certPath x.1, x.2⟩) (by
    simp only [newsOf, certNews, hd, if_true, List.mem_append, List.mem_map]
    exact Or.inl (Or.inr (Or.inl ⟨x, hx, rfl⟩)))

end files

theorem find_origin (E : Env) : relsFind (appendRel E [] sOrigin sigOriginType) sigOriginType = some sOrigin := by
  simp [relsFind, appendRel, origin_back]

theorem find_sig {c : Cfg} (F : CfgFacts c) (E : Env) : relsFind (appendRel E [] (sigName c) sigType) sigType = some (sigName c) := by
  simp [relsFind, appendRel, F.sigBack]

/-! ### the digest loop -/

theorem checkRefs_ok (E : Env) (files : Files) (h : HashId) (hd : ∀ s, E.digestCmp h s (E.dtext h s) = .ok) :
    ∀ refs : List Ref, (∀ r ∈ refs, uriPath r.uri = r.name ∧ files r.name = some ⟨r.name, r.stream⟩) →
      checkRefs E files (refs.map (refInfoOf E h)) = .ok (refs.map fun r => (r.name, r.stream)) := by
  intro refs
  induction refs with
  | nil => intro _; rfl
  | cons r rs ih =>
    intro hall
    obtain ⟨h1, h2⟩ := hall r List.mem_cons_self
    have ih' := ih (fun x hx => hall x (List.mem_cons_of_mem _ hx))
    simp only [List.map_cons, checkRefs, refInfoOf, h1, h2, hashOfName_hashUri, hd]
    rw [ih']

/-! ### the certificate loop -/

def CertRel (x : Bytes × Bytes) (r : Rel) : Prop := r.target = pathClean (47 :: certPath x.1) ∧ r.type = certType

inductive CertRels : List (Bytes × Bytes) → List Rel → Prop where
  | nil : CertRels [] []
  | cons {x : Bytes × Bytes} {r : Rel} {xs : List (Bytes × Bytes)} {tail : List Rel} :
      CertRel x r → CertRels xs tail → CertRels (x :: xs) (r :: tail)

theorem certRels_spec (E : Env) : ∀ (xs : List (Bytes × Bytes)) (rs : List Rel),
    ∃ tail, certRels E xs rs = rs ++ tail ∧ CertRels xs tail := by
  intro xs
  induction xs with
  | nil => intro rs; exact ⟨[], by simp [certRels], CertRels.nil⟩
  | cons x xs ih =>
    intro rs
    obtain ⟨tail, h1, h2⟩ := ih (appendRel E rs (certPath x.1) certType)
    refine ⟨⟨pathClean (47 :: certPath x.1), E.relId rs (certPath x.1) certType, certType⟩ :: tail, ?_, CertRels.cons ⟨rfl, rfl⟩ h2⟩
    rw [certRels, h1]
    simp [appendRel]

/-- public keys of the detached certificates, in chain order -/
def chainKeys (E : Env) (chain : List (Bytes × Bytes)) : List Bytes := chain.flatMap fun x => (E.parseCerts x.2).getD []

theorem readCerts_chain (E : Env) (files : Files) : ∀ (xs : List (Bytes × Bytes)) (tail : List Rel), CertRels xs tail →
    (∀ x ∈ xs, files (certPath x.1) = some ⟨certPath x.1, x.2⟩ ∧ cleanRel (pathClean (47 :: certPath x.1)) = certPath x.1 ∧
      ∃ ks, E.parseCerts x.2 = some ks) →
    readCerts E files tail = .ok (chainKeys E xs) := by
  intro xs tail hf
  induction hf with
  | nil => intro _; rfl
  | @cons x r xs tail hr _ ih =>
    intro hall
    obtain ⟨h1, h2, ks, h3⟩ := hall x List.mem_cons_self
    have ih' := ih (fun y hy => hall y (List.mem_cons_of_mem _ hy))
    simp only [readCerts, hr.2, ne_eq, not_true_eq_false, if_false, hr.1, h2, readZip, h1, h3, ih', chainKeys, List.flatMap_cons,
      Option.getD_some]

/-! ### which names the Manifest lists, repaired signer vs. the one before -/

/-- the Manifest lists the kept parts of the input and three of the parts the signer adds -/
theorem refs_names_iff {fx : Bool} {E : Env} {c : Cfg} {pkg : Pkg} {s : Signed} (hs : sign fx E c pkg = .ok s) (n : Bytes) :
    n ∈ s.refs.map (·.name) ↔
      (∃ p ∈ pkg, p.name = n ∧ keepFile n = true) ∨ n = relPath [] ∨ n = relPath sOrigin ∨ n = sOrigin := by
  obtain ⟨m, hm, hrefs, -, -, -, -⟩ := sign_inv hs
  obtain ⟨-, hdig⟩ := mangle_spec fx E pkg {} m hm
  have hpairs := mkRefs_spec _ _ _ _ hrefs
  have e1 : n ∈ s.refs.map (·.name) ↔ ∃ st, (n, st) ∈ sortMap (addDigests m.digests (fixedNews E c)) := by
    rw [← hpairs]
    simp only [List.mem_map, Prod.mk.injEq]
    constructor
    · rintro ⟨r, hr, rfl⟩; exact ⟨r.stream, r, hr, rfl, rfl⟩
    · rintro ⟨st, r, hr, h1, -⟩; exact ⟨r, hr, h1⟩
  rw [e1]
  simp only [mem_sortMap, addDigests, hdig, ← List.foldl_append, mem_digests, List.not_mem_nil, and_false, or_false]
  constructor
  · rintro ⟨st, h⟩
    rw [findLast_append] at h
    cases hq : findLast (fixedNews E c) n with
    | some q =>
      have := findLast_some hq
      simp only [fixedNews, List.mem_cons, List.not_mem_nil, or_false] at this
      rcases this with ⟨rfl | rfl | rfl, rfl⟩
      · exact Or.inr (Or.inl rfl)
      · exact Or.inr (Or.inr (Or.inl rfl))
      · exact Or.inr (Or.inr (Or.inr rfl))
    | none =>
      rw [hq] at h
      obtain ⟨h1, h2⟩ := findLast_some h
      simp only [keptOf, List.mem_filter] at h1
      exact Or.inl ⟨_, h1.1, h2, by simpa using h1.2⟩
  · rintro (⟨p, hp, rfl, hk⟩ | h)
    · rw [findLast_append]
      cases hq : findLast (fixedNews E c) p.name with
      | some q => exact ⟨q.data, by simp only; rw [← (findLast_some hq).2]⟩
      | none =>
        simp only
        have hmem : p ∈ keptOf pkg := by simp [keptOf, hp, hk]
        obtain ⟨q, hk2⟩ := findLast_of_mem hmem
        exact ⟨q.data, by rw [hk2, ← (findLast_some hk2).2]⟩
    · have hin : ∀ p ∈ fixedNews E c, ∃ st, findLast (keptOf pkg ++ fixedNews E c) p.name = some ⟨p.name, st⟩ := by
        intro p hp
        rw [findLast_append]
        have hnd : ((fixedNews E c).map (·.name)).Nodup := by
          simp only [fixedNews, List.map_cons, List.map_nil]
          decide
        rw [findLast_of_nodup hnd hp]
        exact ⟨p.data, rfl⟩
      rcases h with rfl | rfl | rfl
      · exact hin _ (by unfold fixedNews; exact List.mem_cons_self)
      · exact hin _ (by unfold fixedNews; exact List.mem_cons_of_mem _ List.mem_cons_self)
      · exact hin _ (by unfold fixedNews; exact List.mem_cons_of_mem _ (List.mem_cons_of_mem _ List.mem_cons_self))

/-- what the repaired signer returns: names the verifier finds again, no two kept members of one name -/
theorem sign_true_ok {E : Env} {c : Cfg} {pkg : Pkg} {s : Signed} (hs : sign true E c pkg = .ok s) :
    refsOk s.refs = true ∧ ((keptOf pkg).map (·.name)).Nodup := by
  obtain ⟨m, hm, hrefs, -, -, -, -⟩ := sign_inv hs
  exact ⟨mkRefs_refsOk _ _ _ hrefs, (mangle_nodup E pkg {} m hm).1⟩

/-- where the signer before the repairs succeeded, the repaired one returns the same result, or refuses: a second kept
    member of a name (`duplicate`), or — exactly when `refsOk` fails — a name the verifier would not find again -/
theorem sign_true_of_false {E : Env} {c : Cfg} {pkg : Pkg} {s : Signed} (hs : sign false E c pkg = .ok s)
    (hnd : ((keptOf pkg).map (·.name)).Nodup) :
    (refsOk s.refs = true → sign true E c pkg = .ok s) ∧ (refsOk s.refs = false → sign true E c pkg = .err "unreferencable") := by
  obtain ⟨m, hm, hrefs, hobj, hkept, hct, hparts⟩ := sign_inv hs
  have hm' := mangle_true_of_false E pkg {} m hm hnd (by simp [keys])
  obtain ⟨h1, h2⟩ := mkRefs_true_of_false _ _ _ hrefs
  constructor
  · intro hok
    have hs' := hs
    unfold sign at hs' ⊢
    simp only [hm, hm', hrefs, h1 hok] at hs' ⊢
    exact hs'
  · intro hbad
    unfold sign
    simp only [hm', h2 hbad]

end Relic.Vsix

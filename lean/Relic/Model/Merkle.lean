/-
  Relic.Model.Merkle — executable model of `merkleHasher` in /repo/signers/apk/merkle.go
  (`Write`, `flush`, the section structure of `Finish`).

  The block size `B` (Go: `const merkleBlock = 1048576`) is a parameter.  The per-block hash is
  abstract: the model records the *bytes of every block handed to `h.block`*, in order
  (DESIGN.md section 2, "hashes are parameters").  `h.buf[:h.n]` is the field `buf`.

  Precondition of the model: `0 < B` (with `B = 0` the Go loop `for len(d) >= merkleBlock`
  would not terminate; the constant is 2^20).
-/
import Relic.Base.Bytes
namespace Relic.Merkle
open Relic

/-- the specification: cut a byte string into consecutive blocks of `B` bytes, the last one
    possibly shorter, no empty block -/
def chunks {α : Type} (B : Nat) (l : List α) : List (List α) :=
  if _h : 0 < B ∧ l ≠ [] then l.take B :: chunks B (l.drop B) else []
termination_by l.length
decreasing_by
  have := List.length_pos_iff.mpr _h.2
  simp only [List.length_drop]; omega

structure St where
  /-- `h.buf[:h.n]`, the partially filled block -/
  buf : Bytes
  /-- arguments of the calls of `h.block` so far -/
  out : List Bytes
  deriving Repr, DecidableEq

def init : St := ⟨[], []⟩

/-- `for len(d) >= merkleBlock { h.block(d[:merkleBlock]); d = d[merkleBlock:] }`:
    the blocks hashed directly from the caller's slice, and the rest -/
def direct (B : Nat) (d : Bytes) : List Bytes × Bytes :=
  if _h : 0 < B ∧ B ≤ d.length then
    let r := direct B (d.drop B)
    (d.take B :: r.1, r.2)
  else ([], d)
termination_by d.length
decreasing_by simp only [List.length_drop]; omega

/-- `merkleHasher.Write` -/
def write (B : Nat) (s : St) (d : Bytes) : St :=
  if s.buf.length ≠ 0 ∧ B ≤ s.buf.length + d.length then
    -- completing previously buffered data: copy(h.buf[n:merkleBlock], d); h.block(h.buf); h.n = 0
    let k := B - s.buf.length
    let r := direct B (d.drop k)
    ⟨r.2, s.out ++ (s.buf ++ d.take k) :: r.1⟩
  else
    -- (nothing buffered, or still short of a block): direct blocks, then copy(h.buf[h.n:], d)
    let r := direct B d
    ⟨s.buf ++ r.2, s.out ++ r.1⟩

/-- `merkleHasher.flush` -/
def flush (s : St) : St :=
  if s.buf.length ≠ 0 then ⟨[], s.out ++ [s.buf]⟩ else s

/-- a sequence of `Write` calls -/
def run (B : Nat) (s : St) (ws : List Bytes) : St := ws.foldl (write B) s

/-- sections: each a list of writes followed by `flush` (zip contents; central directory; EOCD) -/
def sections (B : Nat) (s : St) (secs : List (List Bytes)) : St :=
  secs.foldl (fun s ws => flush (run B s ws)) s

/-- `Finish`: flush the contents, `Write(cdirEntries)`, flush, `Write(endOfDir)`, flush.
    Returns the blocks; `count` is their number. -/
def finishBlocks (B : Nat) (s : St) (cdir eod : Bytes) : List Bytes :=
  (flush (write B (flush (write B (flush s) cdir)) eod)).out

/-- the APK v2 top-level digest over a list of blocks for an arbitrary hash `H`:
    `H(0x5a ‖ le32 count ‖ H(0xa5 ‖ le32 len₁ ‖ block₁) ‖ …)` -/
def topDigest (H : Bytes → Bytes) (blocks : List Bytes) : Bytes :=
  H (0x5a :: leBytes 4 blocks.length ++
      (blocks.map fun b => H (0xa5 :: leBytes 4 b.length ++ b)).flatten)

/-! ### lengths-only executable form (multi-megabyte scripts at the real constant) -/

structure StL where
  n : Nat
  out : List Nat
  deriving Repr, DecidableEq

def directL (B len : Nat) : List Nat × Nat :=
  if _h : 0 < B ∧ B ≤ len then
    let r := directL B (len - B)
    (B :: r.1, r.2)
  else ([], len)
termination_by len
decreasing_by omega

def writeL (B : Nat) (s : StL) (len : Nat) : StL :=
  if s.n ≠ 0 ∧ B ≤ s.n + len then
    let k := B - s.n
    let r := directL B (len - k)
    ⟨r.2, s.out ++ (s.n + min k len) :: r.1⟩
  else
    let r := directL B len
    ⟨s.n + r.2, s.out ++ r.1⟩

def flushL (s : StL) : StL :=
  if s.n ≠ 0 then ⟨0, s.out ++ [s.n]⟩ else s

def runL (B : Nat) (s : StL) (ws : List Nat) : StL := ws.foldl (writeL B) s

def sectionsL (B : Nat) (s : StL) (secs : List (List Nat)) : StL :=
  secs.foldl (fun s ws => flushL (runL B s ws)) s

/-- the abstraction from the bytes form to the lengths form -/
def lens (s : St) : StL := ⟨s.buf.length, s.out.map List.length⟩

/-- lengths of the specification's blocks for a section of `total` bytes -/
def chunkLens (B total : Nat) : List Nat :=
  List.replicate (total / B) B ++ (if total % B = 0 then [] else [total % B])

end Relic.Merkle

// extractflow: re-emit the control flow of relic's signing entry points as Lean terms of
// Relic.SignFlow.Stmt (lean/Relic/Model/SignFlow.lean).
//
//	extractflow <repo> <out.lean>
//
// Functions translated:
//
//	server.(*Server).serveSign, cmdline/token.signCmd, internal/signinit.PublishAudit,
//	lib/audit.(*Info).AppendTo
//
// Rules (conservative; anything that cannot be translated faithfully is a hard error, so the
// obligation is "not generated" rather than generated from a wrong term):
//   - a call is classified by shape (table in classify); unknown calls are `other`;
//   - every use of the http.ResponseWriter parameter other than a pure rw.Header() chain is a
//     response write; the writer may not escape (be assigned, captured by a closure, ...);
//   - `err` is tracked as one flag: a call statement assigns it when `err` is on its left-hand
//     side; a block or if-statement that declares its own `err` is wrapped in `Stmt.block`;
//   - conditions: `err != nil`, `err == nil`, the two configuration tests guarding the sinks in
//     PublishAudit; everything else is opaque (both branches);
//   - return values: nil, err, shared.Fail(x) (= x: it exits non-zero iff x != nil),
//     errors.New/fmt.Errorf/httperror.* (non-nil), a classified call (call; return err), else unknown;
//   - for/range containing anything relevant becomes `Stmt.loop` (rejected by the checker);
//     switch/select/goto/labels/closures containing anything relevant are errors.
//
// stdlib only.
package main

import (
	"bytes"
	"fmt"
	"go/ast"
	"go/parser"
	"go/printer"
	"go/token"
	"os"
	"path/filepath"
	"sort"
	"strings"
)

type target struct {
	dir, recv, name, lean string
	data                  bool // also emit the opts/Audit data-flow facts
}

var targets = []target{
	{"server", "Server", "serveSign", "serveSign", true},
	{"cmdline/token", "", "signCmd", "signCmd", true},
	{"internal/signinit", "", "PublishAudit", "publishAudit", false},
	{"lib/audit", "Info", "AppendTo", "appendTo", false},
}

type unsupported struct{ msg string }

func fail(fset *token.FileSet, n ast.Node, format string, a ...interface{}) {
	pos := ""
	if n != nil {
		p := fset.Position(n.Pos())
		pos = fmt.Sprintf("%s:%d: ", filepath.Base(p.Filename), p.Line)
	}
	panic(unsupported{pos + fmt.Sprintf(format, a...)})
}

type tr struct {
	fset    *token.FileSet
	rw      string            // name of the http.ResponseWriter parameter ("" if none)
	sym     map[string]string // symbolic value of byte-slice variables
	alias   map[string]string // x := shared.CurrentConfig.<Field>
	initVar string            // second result of signinit.Init
	signArg string
	auditAr string
	reassig bool
}

func (t *tr) text(n ast.Node) string {
	var b bytes.Buffer
	printer.Fprint(&b, t.fset, n)
	s := strings.Join(strings.Fields(b.String()), " ")
	if len(s) > 70 {
		s = s[:67] + "..."
	}
	return s
}

func lstr(s string) string {
	s = strings.ReplaceAll(s, "\\", "\\\\")
	s = strings.ReplaceAll(s, "\"", "\\\"")
	return "\"" + s + "\""
}

// root identifier of a selector/call/index chain, and the first selector applied to it
func chainRoot(e ast.Expr) (root string, first string) {
	for {
		switch x := e.(type) {
		case *ast.Ident:
			return x.Name, first
		case *ast.SelectorExpr:
			first = x.Sel.Name
			e = x.X
		case *ast.CallExpr:
			e = x.Fun
		case *ast.IndexExpr:
			e = x.X
		case *ast.ParenExpr:
			e = x.X
		case *ast.StarExpr:
			e = x.X
		default:
			return "", ""
		}
	}
}

func (t *tr) mentionsRw(n ast.Node) bool {
	if t.rw == "" || n == nil {
		return false
	}
	found := false
	ast.Inspect(n, func(m ast.Node) bool {
		if id, ok := m.(*ast.Ident); ok && id.Name == t.rw {
			found = true
		}
		return !found
	})
	return found
}

func selName(e ast.Expr) (pkg, name string) {
	switch x := e.(type) {
	case *ast.SelectorExpr:
		if id, ok := x.X.(*ast.Ident); ok {
			return id.Name, x.Sel.Name
		}
		return "", x.Sel.Name
	case *ast.Ident:
		return "", x.Name
	}
	return "", ""
}

func flagsOf(e ast.Expr) []string {
	switch x := e.(type) {
	case *ast.BinaryExpr:
		if x.Op == token.OR {
			l, r := flagsOf(x.X), flagsOf(x.Y)
			if l == nil || r == nil {
				return nil
			}
			return append(l, r...)
		}
	case *ast.SelectorExpr:
		if id, ok := x.X.(*ast.Ident); ok && (id.Name == "os" || id.Name == "syscall") {
			return []string{x.Sel.Name}
		}
	case *ast.ParenExpr:
		return flagsOf(x.X)
	}
	return nil
}

// classify returns the Lean Prim term of a call and whether it is one of the named primitives
func (t *tr) classify(c *ast.CallExpr) (prim string, named bool) {
	if t.rw != "" {
		root, first := chainRoot(c.Fun)
		inArgs := false
		for _, a := range c.Args {
			if t.mentionsRw(a) {
				inArgs = true
			}
		}
		if root == t.rw && first == "Header" && !inArgs {
			return ".other " + lstr(t.text(c.Fun)), false
		}
		if root == t.rw || inArgs || t.mentionsRw(c.Fun) {
			return ".responseWrite", true
		}
	}
	pkg, name := selName(c.Fun)
	switch {
	case name == "PublishAudit":
		return ".publishAudit", true
	case name == "Init" && pkg == "signinit":
		return ".init", true
	case name == "Sign":
		return ".sign", true
	case name == "Publish":
		return ".publishAmqp", true
	case name == "AppendTo":
		return ".appendTo", true
	case name == "Apply":
		return ".apply", true
	case name == "Marshal":
		return ".marshal", true
	case name == "OpenFile" || (pkg == "os" && (name == "Create" || name == "Open")):
		fl := []string{"?"}
		if name == "OpenFile" && len(c.Args) >= 2 {
			if f := flagsOf(c.Args[1]); f != nil {
				fl = f
			}
		}
		q := make([]string, len(fl))
		for i, f := range fl {
			q[i] = lstr(f)
		}
		return "(.openFile [" + strings.Join(q, ", ") + "])", true
	case name == "Write" || name == "WriteString" || name == "WriteAt" || name == "ReadFrom":
		arg := "?"
		if name == "Write" && len(c.Args) == 1 {
			if id, ok := c.Args[0].(*ast.Ident); ok {
				if v, ok := t.sym[id.Name]; ok {
					arg = v
				}
			}
		}
		return "(.write " + lstr(arg) + ")", true
	}
	return ".other " + lstr(t.text(c.Fun)), false
}

// relevant: does the subtree contain a named primitive call or mention the response writer?
// (closure bodies included)
func (t *tr) relevant(n ast.Node, except *ast.CallExpr) bool {
	if n == nil {
		return false
	}
	found := false
	ast.Inspect(n, func(m ast.Node) bool {
		if found {
			return false
		}
		switch x := m.(type) {
		case *ast.CallExpr:
			if x != except {
				if _, named := t.classify(x); named {
					found = true
				}
			}
		case *ast.Ident:
			if t.rw != "" && x.Name == t.rw {
				found = true
			}
		}
		return !found
	})
	return found
}

func (t *tr) hasReturn(n ast.Node) bool {
	found := false
	ast.Inspect(n, func(m ast.Node) bool {
		switch m.(type) {
		case *ast.FuncLit:
			return false
		case *ast.ReturnStmt:
			found = true
		}
		return !found
	})
	return found
}

// the operands of a call (receiver chain below the outermost call, and arguments) must not hide
// further primitives
func (t *tr) checkOperands(c *ast.CallExpr, prim string) {
	for _, a := range c.Args {
		if prim == ".responseWrite" {
			// the writer itself may be an argument; nested primitives may not
			ast.Inspect(a, func(m ast.Node) bool {
				if cc, ok := m.(*ast.CallExpr); ok {
					if p, named := t.classify(cc); named && p != ".responseWrite" {
						fail(t.fset, cc, "primitive call nested in an argument: %s", t.text(cc))
					}
				}
				return true
			})
			continue
		}
		if t.relevant(a, nil) {
			fail(t.fset, a, "primitive call or response writer nested in an argument: %s", t.text(a))
		}
	}
	if sel, ok := c.Fun.(*ast.SelectorExpr); ok && prim != ".responseWrite" {
		// receiver chain: calls below the outermost one
		ast.Inspect(sel.X, func(m ast.Node) bool {
			if cc, ok := m.(*ast.CallExpr); ok {
				if _, named := t.classify(cc); named {
					fail(t.fset, cc, "primitive call in a receiver chain: %s", t.text(cc))
				}
			}
			return true
		})
	}
	if _, ok := c.Fun.(*ast.FuncLit); ok {
		fail(t.fset, c, "call of a function literal")
	}
}

type out struct {
	lines []string // one Lean Stmt term per entry (may span lines)
}

func indent(s, pad string) string {
	return strings.ReplaceAll(s, "\n", "\n"+pad)
}

func seqs(items []string) string {
	switch len(items) {
	case 0:
		return "Stmt.skip"
	case 1:
		return items[0]
	}
	var b strings.Builder
	b.WriteString("Stmt.seqs [\n")
	for i, it := range items {
		b.WriteString("  " + indent(it, "  "))
		if i+1 < len(items) {
			b.WriteString(",")
		}
		b.WriteString("\n")
	}
	b.WriteString("]")
	return b.String()
}

func paren(s string) string {
	if strings.ContainsAny(s, " \n") {
		return "(" + s + ")"
	}
	return s
}

func hasErr(lhs []ast.Expr) bool {
	for _, l := range lhs {
		if id, ok := l.(*ast.Ident); ok && id.Name == "err" {
			return true
		}
	}
	return false
}

// does the statement list declare its own `err` (":=" with err on the left, or `var err`)?
func declaresErr(list []ast.Stmt) bool {
	for _, s := range list {
		switch x := s.(type) {
		case *ast.AssignStmt:
			if x.Tok == token.DEFINE && hasErr(x.Lhs) {
				return true
			}
		case *ast.DeclStmt:
			if g, ok := x.Decl.(*ast.GenDecl); ok {
				for _, sp := range g.Specs {
					if vs, ok := sp.(*ast.ValueSpec); ok {
						for _, n := range vs.Names {
							if n.Name == "err" {
								return true
							}
						}
					}
				}
			}
		}
	}
	return false
}

func (t *tr) callStmt(c *ast.CallExpr, assigns bool) string {
	prim, _ := t.classify(c)
	t.checkOperands(c, prim)
	// data-flow facts
	_, name := selName(c.Fun)
	if name == "Sign" && len(c.Args) > 0 {
		t.signArg = t.text(c.Args[len(c.Args)-1])
	}
	if name == "PublishAudit" && len(c.Args) == 1 {
		t.auditAr = t.text(c.Args[0])
	}
	b := "false"
	if assigns {
		b = "true"
	}
	return "Stmt.call " + paren(prim) + " " + b
}

func (t *tr) block(list []ast.Stmt, nested bool) string {
	var items []string
	for _, s := range list {
		if it := t.stmt(s); it != "" {
			items = append(items, it+"   -- L"+fmt.Sprint(t.fset.Position(s.Pos()).Line)+": "+t.firstLine(s))
		}
	}
	// comments cannot sit before a separator: rebuild with comment after the comma
	res := t.seqsCommented(items)
	if nested && declaresErr(list) {
		return "Stmt.block " + paren(res)
	}
	return res
}

func (t *tr) firstLine(s ast.Stmt) string {
	x := t.text(s)
	if i := strings.Index(x, "{"); i > 0 && i < len(x)-1 {
		x = x[:i+1] + " ..."
	}
	return strings.ReplaceAll(x, "-/", "- /")
}

func (t *tr) seqsCommented(items []string) string {
	if len(items) == 0 {
		return "Stmt.skip"
	}
	split := func(it string) (string, string) {
		i := strings.LastIndex(it, "   -- L")
		return it[:i], it[i+3:]
	}
	if len(items) == 1 {
		term, _ := split(items[0])
		return term
	}
	var b strings.Builder
	b.WriteString("Stmt.seqs [\n")
	for i, it := range items {
		term, cm := split(it)
		b.WriteString("  " + cm + "\n")
		b.WriteString("  " + indent(term, "  "))
		if i+1 < len(items) {
			b.WriteString(",")
		}
		b.WriteString("\n")
	}
	b.WriteString("]")
	return b.String()
}

func (t *tr) cond(e ast.Expr) string {
	if t.relevant(e, nil) {
		fail(t.fset, e, "primitive call or response writer inside a condition: %s", t.text(e))
	}
	if b, ok := e.(*ast.BinaryExpr); ok {
		isErr := func(x ast.Expr) bool { id, ok := x.(*ast.Ident); return ok && id.Name == "err" }
		isNil := func(x ast.Expr) bool { id, ok := x.(*ast.Ident); return ok && id.Name == "nil" }
		isEmpty := func(x ast.Expr) bool { l, ok := x.(*ast.BasicLit); return ok && l.Value == `""` }
		if (isErr(b.X) && isNil(b.Y)) || (isNil(b.X) && isErr(b.Y)) {
			if b.Op == token.NEQ {
				return ".err"
			}
			if b.Op == token.EQL {
				return ".notErr"
			}
		}
		// logFile != ""   with   logFile := shared.CurrentConfig.AuditFile
		if b.Op == token.NEQ && isEmpty(b.Y) {
			if id, ok := b.X.(*ast.Ident); ok && t.alias[id.Name] == "AuditFile" {
				return "(.configured .file)"
			}
			if t.text(b.X) == "shared.CurrentConfig.AuditFile" {
				return "(.configured .file)"
			}
		}
		// aconf != nil && aconf.URL != ""   with   aconf := shared.CurrentConfig.Amqp
		if b.Op == token.LAND {
			l, lok := b.X.(*ast.BinaryExpr)
			r, rok := b.Y.(*ast.BinaryExpr)
			if lok && rok && l.Op == token.NEQ && r.Op == token.NEQ && isNil(l.Y) && isEmpty(r.Y) {
				if id, ok := l.X.(*ast.Ident); ok && t.alias[id.Name] == "Amqp" && t.text(r.X) == id.Name+".URL" {
					return "(.configured .amqp)"
				}
			}
		}
	}
	return "(.opaque " + lstr(t.text(e)) + ")"
}

func (t *tr) retExpr(e ast.Expr) (pre string, kind string) {
	switch x := e.(type) {
	case *ast.Ident:
		if x.Name == "nil" {
			return "", ".nil"
		}
		if x.Name == "err" {
			return "", ".lastErr"
		}
	case *ast.SelectorExpr:
		if pkg, _ := selName(x); pkg == "httperror" {
			return "", ".err"
		}
	case *ast.CallExpr:
		pkg, name := selName(x.Fun)
		if pkg == "shared" && name == "Fail" && len(x.Args) == 1 {
			return t.retExpr(x.Args[0])
		}
		if (pkg == "errors" && name == "New") || (pkg == "fmt" && name == "Errorf") || pkg == "httperror" {
			if t.relevant(x, nil) {
				fail(t.fset, x, "primitive inside an error constructor")
			}
			return "", ".err"
		}
		if _, named := t.classify(x); named {
			return t.callStmt(x, true), ".lastErr"
		}
	}
	if t.relevant(e, nil) {
		fail(t.fset, e, "primitive inside a return expression: %s", t.text(e))
	}
	return "", ".unknown"
}

func (t *tr) stmt(s ast.Stmt) string {
	switch x := s.(type) {
	case *ast.ExprStmt:
		if c, ok := x.X.(*ast.CallExpr); ok {
			prim, named := t.classify(c)
			if !named {
				t.checkOperands(c, prim)
				return "" // an unobservable call whose result is dropped
			}
			return t.callStmt(c, false)
		}
		if t.relevant(x.X, nil) {
			fail(t.fset, x, "unsupported expression statement")
		}
		return ""
	case *ast.AssignStmt:
		for _, l := range x.Lhs {
			if t.mentionsRw(l) {
				fail(t.fset, x, "response writer on the left of an assignment")
			}
			if id, ok := l.(*ast.Ident); ok && t.initVar != "" && id.Name == t.initVar {
				t.reassig = true
			}
		}
		if len(x.Rhs) == 1 {
			if c, ok := x.Rhs[0].(*ast.CallExpr); ok {
				// blob = append(blob, '\n')
				if id, ok := c.Fun.(*ast.Ident); ok && id.Name == "append" && len(x.Lhs) == 1 {
					if t.relevant(c, nil) {
						fail(t.fset, c, "primitive inside append")
					}
					if l, ok := x.Lhs[0].(*ast.Ident); ok {
						v := "?"
						if a0, ok := c.Args[0].(*ast.Ident); ok && a0.Name == l.Name && len(c.Args) == 2 {
							if lit, ok := c.Args[1].(*ast.BasicLit); ok && lit.Kind == token.CHAR && lit.Value == `'\n'` {
								if cur, ok := t.sym[l.Name]; ok {
									v = cur + "+nl"
								}
							}
						}
						t.sym[l.Name] = v
					}
					return ""
				}
				prim, named := t.classify(c)
				assigns := hasErr(x.Lhs)
				if l, ok := x.Lhs[0].(*ast.Ident); ok {
					if prim == ".marshal" {
						t.sym[l.Name] = "marshal"
					} else if _, tracked := t.sym[l.Name]; tracked {
						t.sym[l.Name] = "?"
					}
				}
				if prim == ".init" && len(x.Lhs) >= 2 {
					if l, ok := x.Lhs[1].(*ast.Ident); ok {
						t.initVar = l.Name
						t.reassig = false
					}
				}
				if !named && !assigns {
					t.checkOperands(c, prim)
					return ""
				}
				return t.callStmt(c, assigns)
			}
		}
		if hasErr(x.Lhs) {
			fail(t.fset, x, "err assigned from something that is not a single call: %s", t.text(x))
		}
		for _, r := range x.Rhs {
			if t.relevant(r, nil) {
				fail(t.fset, x, "primitive or response writer in an unsupported assignment: %s", t.text(x))
			}
		}
		// x := shared.CurrentConfig.Field
		if len(x.Lhs) == 1 && len(x.Rhs) == 1 {
			if l, ok := x.Lhs[0].(*ast.Ident); ok {
				delete(t.alias, l.Name)
				if _, tracked := t.sym[l.Name]; tracked {
					t.sym[l.Name] = "?"
				}
				if sel, ok := x.Rhs[0].(*ast.SelectorExpr); ok && t.text(sel.X) == "shared.CurrentConfig" {
					t.alias[l.Name] = sel.Sel.Name
				}
			}
		}
		return ""
	case *ast.DeclStmt, *ast.IncDecStmt, *ast.EmptyStmt, *ast.SendStmt:
		if t.relevant(x, nil) {
			fail(t.fset, x, "primitive or response writer in an unsupported statement")
		}
		return ""
	case *ast.ReturnStmt:
		if len(x.Results) == 0 {
			fail(t.fset, x, "naked return")
		}
		for _, r := range x.Results[:len(x.Results)-1] {
			if t.relevant(r, nil) {
				fail(t.fset, x, "primitive in a non-error result")
			}
		}
		pre, kind := t.retExpr(x.Results[len(x.Results)-1])
		if pre != "" {
			return "Stmt.seq " + paren(pre) + " (Stmt.ret " + kind + ")"
		}
		return "Stmt.ret " + kind
	case *ast.BlockStmt:
		return t.block(x.List, true)
	case *ast.IfStmt:
		var items []string
		scoped := false
		if x.Init != nil {
			if a, ok := x.Init.(*ast.AssignStmt); ok && a.Tok == token.DEFINE && hasErr(a.Lhs) {
				scoped = true
			}
			if it := t.stmt(x.Init); it != "" {
				items = append(items, it)
			}
		}
		c := t.cond(x.Cond)
		th := t.block(x.Body.List, true)
		el := "Stmt.skip"
		switch e := x.Else.(type) {
		case nil:
		case *ast.IfStmt:
			el = t.stmt(e)
		case *ast.BlockStmt:
			el = t.block(e.List, true)
		default:
			fail(t.fset, x, "unsupported else")
		}
		ite := "Stmt.ite " + c + "\n  " + paren(indent(th, "  ")) + "\n  " + paren(indent(el, "  "))
		items = append(items, ite)
		res := seqs(items)
		if scoped {
			return "Stmt.block " + paren(res)
		}
		return res
	case *ast.DeferStmt:
		if t.relevant(x.Call, nil) {
			fail(t.fset, x, "deferred primitive or response write: %s", t.text(x))
		}
		return ""
	case *ast.GoStmt:
		if t.relevant(x.Call, nil) {
			fail(t.fset, x, "primitive or response write in a goroutine: %s", t.text(x))
		}
		return ""
	case *ast.ForStmt, *ast.RangeStmt:
		if !t.relevant(x, nil) && !t.hasReturn(x) {
			return ""
		}
		var body *ast.BlockStmt
		if f, ok := x.(*ast.ForStmt); ok {
			if t.relevant(f.Init, nil) || t.relevant(f.Cond, nil) || t.relevant(f.Post, nil) {
				fail(t.fset, x, "primitive in a loop header")
			}
			body = f.Body
		} else {
			r := x.(*ast.RangeStmt)
			if t.relevant(r.X, nil) {
				fail(t.fset, x, "primitive in a range expression")
			}
			body = r.Body
		}
		ast.Inspect(body, func(m ast.Node) bool {
			if _, ok := m.(*ast.BranchStmt); ok {
				fail(t.fset, m, "break/continue/goto in a relevant loop")
			}
			return true
		})
		return "Stmt.loop " + paren(t.block(body.List, true))
	default:
		if t.relevant(s, nil) || t.hasReturn(s) {
			fail(t.fset, s, "unsupported statement containing a primitive, a response write or a return: %T", s)
		}
		return ""
	}
}

func findFunc(fset *token.FileSet, dir string, tg target) (*ast.FuncDecl, error) {
	pkgs, err := parser.ParseDir(fset, dir, func(fi os.FileInfo) bool {
		return !strings.HasSuffix(fi.Name(), "_test.go") && !strings.HasSuffix(fi.Name(), "_verif.go")
	}, parser.ParseComments)
	if err != nil {
		return nil, err
	}
	var hits []*ast.FuncDecl
	names := make([]string, 0, len(pkgs))
	for n := range pkgs {
		names = append(names, n)
	}
	sort.Strings(names)
	for _, n := range names {
		fns := make([]string, 0)
		for fn := range pkgs[n].Files {
			fns = append(fns, fn)
		}
		sort.Strings(fns)
		for _, fn := range fns {
			for _, d := range pkgs[n].Files[fn].Decls {
				fd, ok := d.(*ast.FuncDecl)
				if !ok || fd.Name.Name != tg.name || fd.Body == nil {
					continue
				}
				recv := ""
				if fd.Recv != nil && len(fd.Recv.List) == 1 {
					ty := fd.Recv.List[0].Type
					if st, ok := ty.(*ast.StarExpr); ok {
						ty = st.X
					}
					if id, ok := ty.(*ast.Ident); ok {
						recv = id.Name
					}
				}
				if recv == tg.recv {
					hits = append(hits, fd)
				}
			}
		}
	}
	if len(hits) != 1 {
		return nil, fmt.Errorf("%s: expected exactly one definition of %s, found %d", dir, tg.name, len(hits))
	}
	return hits[0], nil
}

func translate(repo string, tg target) (term string, data string, err error) {
	defer func() {
		if r := recover(); r != nil {
			if u, ok := r.(unsupported); ok {
				err = fmt.Errorf("%s.%s: %s", tg.dir, tg.name, u.msg)
				return
			}
			panic(r)
		}
	}()
	fset := token.NewFileSet()
	fd, e := findFunc(fset, filepath.Join(repo, tg.dir), tg)
	if e != nil {
		return "", "", e
	}
	t := &tr{fset: fset, sym: map[string]string{}, alias: map[string]string{}}
	// the function must return exactly one error-like last result
	if fd.Type.Results == nil || len(fd.Type.Results.List) == 0 {
		return "", "", fmt.Errorf("%s.%s: no result", tg.dir, tg.name)
	}
	for _, r := range fd.Type.Results.List {
		if len(r.Names) != 0 {
			return "", "", fmt.Errorf("%s.%s: named results", tg.dir, tg.name)
		}
	}
	for _, p := range fd.Type.Params.List {
		if sel, ok := p.Type.(*ast.SelectorExpr); ok && sel.Sel.Name == "ResponseWriter" {
			if len(p.Names) != 1 {
				return "", "", fmt.Errorf("%s.%s: response writer parameter must have one name", tg.dir, tg.name)
			}
			t.rw = p.Names[0].Name
		}
	}
	// closures that mention the writer or a primitive are not supported anywhere
	ast.Inspect(fd.Body, func(m ast.Node) bool {
		if fl, ok := m.(*ast.FuncLit); ok && t.relevant(fl, nil) {
			fail(fset, fl, "closure containing a primitive or the response writer")
		}
		return true
	})
	term = t.block(fd.Body.List, false)
	if tg.data {
		re := "false"
		if t.reassig {
			re = "true"
		}
		data = fmt.Sprintf("{ initOpts := %s, signArg := %s, auditArg := %s, reassigned := %s }",
			lstr(t.initVar), lstr(t.signArg), lstr(t.auditAr), re)
	}
	return term, data, nil
}

func main() {
	if len(os.Args) != 3 {
		fmt.Fprintln(os.Stderr, "usage: extractflow <repo> <out.lean>")
		os.Exit(2)
	}
	repo, outPath := os.Args[1], os.Args[2]
	var b strings.Builder
	b.WriteString("/- GENERATED by tools/extractflow from the relic working tree on every ./check C06 run. Do not edit. -/\n")
	b.WriteString("import Relic.Model.SignFlow\nnamespace Relic.Generated.SignFlow\nopen Relic.SignFlow\n\n")
	rc := 0
	for _, tg := range targets {
		term, data, err := translate(repo, tg)
		if err != nil {
			fmt.Fprintln(os.Stderr, "extractflow: NOT GENERATED:", err)
			fmt.Fprintf(&b, "-- %s: not generated: %s\n\n", tg.lean, strings.ReplaceAll(err.Error(), "\n", " "))
			rc = 1
			continue
		}
		recv := ""
		if tg.recv != "" {
			recv = "(*" + tg.recv + ")."
		}
		fmt.Fprintf(&b, "/-- %s: %s%s -/\ndef %s : Stmt :=\n  %s\n\n", tg.dir, recv, tg.name, tg.lean, indent(term, "  "))
		if tg.data {
			fmt.Fprintf(&b, "def %sData : DataFlow :=\n  %s\n\n", tg.lean, data)
		}
	}
	b.WriteString("end Relic.Generated.SignFlow\n")
	if err := os.WriteFile(outPath, []byte(b.String()), 0o644); err != nil {
		fmt.Fprintln(os.Stderr, err)
		os.Exit(2)
	}
	os.Exit(rc)
}

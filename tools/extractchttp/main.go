// extractchttp: reads lib/compresshttp/{compress,middleware}.go and cmdline/remotecmd/client.go of relic and emits
// the tables the Lean model of the compression layer depends on (Relic.Generated.CompressHttp):
//
//	consts           string constants of the package (header names, coding names, AcceptedEncodings resolved)
//	prefs            the composite literal of `prefs` (keys resolved through the constants)
//	vars             every package-level variable: name, type or initialiser, number of places outside init() where it is
//	                 assigned, has an element/field assigned, is incremented, has its address taken or has a method called on it
//	decompressCases  the case labels of the `switch encoding` in decompress() with the call each case returns
//	setupCases       the same for setupCompression()
//	middlewareErrors the (condition, status) pairs of the http.Error calls in Middleware()
//	errorSkip        the condition under which responseCompressor.WriteHeader clears the encoding
//	clientFallback   the status constant doRequest compares with before clearing `encodings`
//	clientDecodeBelow the bound of `response.StatusCode < N` that ends the loop
//	bufferingSigners for signers/appmanifest and signers/cat: the value of `const maxInputSize`, the argument of the
//	                 ReadAll call in sign() and the condition that refuses an over-long blob ("?"/0 when absent)
//
//	extractchttp <repo> <out.lean>
//
// Anything it does not understand is emitted as a "?..." entry so that the Lean obligation fails instead of passing.
package main

import (
	"fmt"
	"go/ast"
	"go/parser"
	"go/printer"
	"go/token"
	"os"
	"path/filepath"
	"sort"
	"strconv"
	"strings"
)

var fset = token.NewFileSet()

func str(e ast.Node) string {
	var sb strings.Builder
	_ = printer.Fprint(&sb, fset, e)
	return strings.Join(strings.Fields(sb.String()), " ")
}

func q(s string) string { return strconv.Quote(s) }

type pkgVar struct {
	name, typ string
	writes    int
}

func main() {
	if len(os.Args) != 3 {
		fmt.Fprintln(os.Stderr, "usage: extractchttp <repo> <out.lean>")
		os.Exit(2)
	}
	repo := os.Args[1]
	dir := filepath.Join(repo, "lib", "compresshttp")
	ents, err := os.ReadDir(dir)
	if err != nil {
		fmt.Fprintln(os.Stderr, err)
		os.Exit(1)
	}
	var files []*ast.File
	for _, e := range ents {
		n := e.Name()
		if !strings.HasSuffix(n, ".go") || strings.HasSuffix(n, "_test.go") {
			continue
		}
		f, err := parser.ParseFile(fset, filepath.Join(dir, n), nil, 0)
		if err != nil {
			fmt.Fprintln(os.Stderr, err)
			os.Exit(1)
		}
		files = append(files, f)
	}
	// ---- constants (string valued), resolved
	consts := map[string]string{}
	var constOrder []string
	var evalStr func(e ast.Expr) (string, bool)
	evalStr = func(e ast.Expr) (string, bool) {
		switch v := e.(type) {
		case *ast.BasicLit:
			if v.Kind == token.STRING {
				s, err := strconv.Unquote(v.Value)
				return s, err == nil
			}
		case *ast.Ident:
			s, ok := consts[v.Name]
			return s, ok
		case *ast.BinaryExpr:
			if v.Op == token.ADD {
				a, ok1 := evalStr(v.X)
				b, ok2 := evalStr(v.Y)
				return a + b, ok1 && ok2
			}
		case *ast.ParenExpr:
			return evalStr(v.X)
		}
		return "", false
	}
	var vars []*pkgVar
	varSpec := map[string]*ast.ValueSpec{}
	var prefsLit *ast.CompositeLit
	for _, f := range files {
		for _, d := range f.Decls {
			gd, ok := d.(*ast.GenDecl)
			if !ok {
				continue
			}
			for _, sp := range gd.Specs {
				vs, ok := sp.(*ast.ValueSpec)
				if !ok {
					continue
				}
				for i, id := range vs.Names {
					if gd.Tok == token.CONST {
						if i < len(vs.Values) {
							if s, ok := evalStr(vs.Values[i]); ok {
								consts[id.Name] = s
								constOrder = append(constOrder, id.Name)
							}
						}
					} else if gd.Tok == token.VAR {
						t := "?"
						if vs.Type != nil {
							t = str(vs.Type)
						} else if i < len(vs.Values) {
							switch v := vs.Values[i].(type) {
							case *ast.CompositeLit:
								t = str(v.Type)
								if id.Name == "prefs" {
									prefsLit = v
								}
							case *ast.CallExpr:
								t = str(v.Fun)
							default:
								t = str(v)
							}
						}
						vars = append(vars, &pkgVar{name: id.Name, typ: t})
						varSpec[id.Name] = vs
					}
				}
			}
		}
	}
	// ---- prefs
	type kv struct {
		k string
		v int
	}
	var prefs []kv
	if prefsLit != nil {
		for _, el := range prefsLit.Elts {
			p, ok := el.(*ast.KeyValueExpr)
			if !ok {
				prefs = append(prefs, kv{"?" + str(el), 0})
				continue
			}
			k, ok1 := evalStr(p.Key)
			n, err := strconv.Atoi(str(p.Value))
			if !ok1 || err != nil {
				prefs = append(prefs, kv{"?" + str(el), 0})
				continue
			}
			prefs = append(prefs, kv{k, n})
		}
	} else {
		prefs = append(prefs, kv{"?no prefs literal", 0})
	}
	sort.Slice(prefs, func(i, j int) bool { return prefs[i].k < prefs[j].k })
	// ---- writes to package-level variables outside init
	isPkgVar := func(e ast.Expr) *pkgVar {
		for {
			switch v := e.(type) {
			case *ast.ParenExpr:
				e = v.X
				continue
			case *ast.IndexExpr:
				e = v.X
				continue
			case *ast.SelectorExpr:
				e = v.X
				continue
			case *ast.StarExpr:
				e = v.X
				continue
			}
			break
		}
		id, ok := e.(*ast.Ident)
		if !ok {
			return nil
		}
		vs := varSpec[id.Name]
		if vs == nil {
			return nil
		}
		if id.Obj != nil && id.Obj.Decl != vs { // shadowed by a local declaration
			return nil
		}
		for _, v := range vars {
			if v.name == id.Name {
				return v
			}
		}
		return nil
	}
	funcs := map[string]*ast.FuncDecl{}
	for _, f := range files {
		for _, d := range f.Decls {
			fd, ok := d.(*ast.FuncDecl)
			if !ok || fd.Body == nil {
				continue
			}
			name := fd.Name.Name
			if fd.Recv != nil && len(fd.Recv.List) == 1 {
				name = strings.TrimPrefix(str(fd.Recv.List[0].Type), "*") + "." + name
			}
			funcs[name] = fd
			if fd.Name.Name == "init" && fd.Recv == nil {
				continue
			}
			ast.Inspect(fd.Body, func(n ast.Node) bool {
				switch v := n.(type) {
				case *ast.AssignStmt:
					for _, l := range v.Lhs {
						if pv := isPkgVar(l); pv != nil {
							pv.writes++
						}
					}
				case *ast.IncDecStmt:
					if pv := isPkgVar(v.X); pv != nil {
						pv.writes++
					}
				case *ast.UnaryExpr:
					if v.Op == token.AND {
						if pv := isPkgVar(v.X); pv != nil {
							pv.writes++
						}
					}
				case *ast.CallExpr:
					if sel, ok := v.Fun.(*ast.SelectorExpr); ok {
						if id, ok := sel.X.(*ast.Ident); ok {
							if pv := isPkgVar(id); pv != nil {
								pv.writes++ // method call on the variable itself (e.g. sync.Pool Get/Put)
							}
						}
					}
					if id, ok := v.Fun.(*ast.Ident); ok && id.Name == "delete" && len(v.Args) > 0 {
						if pv := isPkgVar(v.Args[0]); pv != nil {
							pv.writes++
						}
					}
				}
				return true
			})
		}
	}
	sort.Slice(vars, func(i, j int) bool { return vars[i].name < vars[j].name })
	// ---- switch cases of decompress / setupCompression
	type swCase struct {
		labels []string
		ret    string
	}
	switchOf := func(fn string) []swCase {
		fd := funcs[fn]
		if fd == nil {
			return []swCase{{[]string{"?no func " + fn}, ""}}
		}
		var out []swCase
		ast.Inspect(fd.Body, func(n ast.Node) bool {
			sw, ok := n.(*ast.SwitchStmt)
			if !ok {
				return true
			}
			if str(sw.Tag) != "encoding" {
				out = append(out, swCase{[]string{"?switch on " + str(sw.Tag)}, ""})
				return false
			}
			for _, c := range sw.Body.List {
				cc := c.(*ast.CaseClause)
				var labels []string
				if cc.List == nil {
					labels = []string{"default"}
				}
				for _, l := range cc.List {
					if s, ok := evalStr(l); ok {
						labels = append(labels, "="+s)
					} else {
						labels = append(labels, "?"+str(l))
					}
				}
				ret := "?"
				if len(cc.Body) == 1 {
					if rs, ok := cc.Body[0].(*ast.ReturnStmt); ok && len(rs.Results) > 0 {
						ret = str(rs.Results[0])
						if len(rs.Results) > 1 && str(rs.Results[1]) != "nil" {
							ret += " / " + str(rs.Results[1])
						}
					}
				}
				out = append(out, swCase{labels, ret})
			}
			return false
		})
		if out == nil {
			out = []swCase{{[]string{"?no switch in " + fn}, ""}}
		}
		return out
	}
	// ---- http.Error calls of Middleware with the enclosing if-condition
	type pair struct{ a, b string }
	var mwErrors []pair
	if fd := funcs["Middleware"]; fd != nil {
		var walkIf func(s ast.Stmt)
		walkIf = func(s ast.Stmt) {
			is, ok := s.(*ast.IfStmt)
			if !ok {
				return
			}
			for _, b := range is.Body.List {
				if es, ok := b.(*ast.ExprStmt); ok {
					if c, ok := es.X.(*ast.CallExpr); ok && str(c.Fun) == "http.Error" && len(c.Args) == 3 {
						mwErrors = append(mwErrors, pair{str(is.Cond), str(c.Args[2])})
					}
				}
			}
			if is.Else != nil {
				walkIf(is.Else)
			}
		}
		ast.Inspect(fd.Body, func(n ast.Node) bool {
			if is, ok := n.(*ast.IfStmt); ok && is.Init != nil && strings.Contains(str(is.Init), "DecompressRequest") {
				walkIf(is)
				return false
			}
			return true
		})
	}
	if mwErrors == nil {
		mwErrors = []pair{{"?", "?"}}
	}
	// ---- responseCompressor.WriteHeader: condition that clears the encoding
	errorSkip := "?"
	if fd := funcs["responseCompressor.WriteHeader"]; fd != nil {
		ast.Inspect(fd.Body, func(n ast.Node) bool {
			if is, ok := n.(*ast.IfStmt); ok {
				for _, b := range is.Body.List {
					if as, ok := b.(*ast.AssignStmt); ok && len(as.Lhs) == 1 && str(as.Lhs[0]) == "w.encoding" && str(as.Rhs[0]) == `""` {
						errorSkip = str(is.Cond)
					}
				}
			}
			return true
		})
	}
	// ---- client: fallback status and the bound that ends the loop
	clientFallback, clientBelow := "?", "?"
	cf, err := parser.ParseFile(fset, filepath.Join(repo, "cmdline", "remotecmd", "client.go"), nil, 0)
	if err == nil {
		for _, d := range cf.Decls {
			fd, ok := d.(*ast.FuncDecl)
			if !ok || fd.Name.Name != "doRequest" || fd.Body == nil {
				continue
			}
			ast.Inspect(fd.Body, func(n ast.Node) bool {
				is, ok := n.(*ast.IfStmt)
				if !ok {
					return true
				}
				clears := false
				for _, b := range is.Body.List {
					if as, ok := b.(*ast.AssignStmt); ok && len(as.Lhs) == 1 && str(as.Lhs[0]) == "encodings" && str(as.Rhs[0]) == `""` {
						clears = true
					}
				}
				if clears {
					clientFallback = str(is.Cond)
				}
				if be, ok := is.Cond.(*ast.BinaryExpr); ok && be.Op == token.LSS && str(be.X) == "response.StatusCode" {
					clientBelow = str(be.Y)
				}
				return true
			})
		}
	}
	// ---- the signers that buffer their input
	type bufSigner struct {
		pkg       string
		max       int64
		arg, cond string
	}
	var evalInt func(e ast.Expr) (int64, bool)
	evalInt = func(e ast.Expr) (int64, bool) {
		switch v := e.(type) {
		case *ast.BasicLit:
			if v.Kind == token.INT {
				n, err := strconv.ParseInt(v.Value, 0, 64)
				return n, err == nil
			}
		case *ast.ParenExpr:
			return evalInt(v.X)
		case *ast.BinaryExpr:
			a, ok1 := evalInt(v.X)
			b, ok2 := evalInt(v.Y)
			if ok1 && ok2 {
				switch v.Op {
				case token.MUL:
					return a * b, true
				case token.ADD:
					return a + b, true
				case token.SHL:
					return a << uint(b), true
				}
			}
		}
		return 0, false
	}
	var bufSigners []bufSigner
	for _, pkg := range []string{"signers/appmanifest", "signers/cat"} {
		bs := bufSigner{pkg: pkg, arg: "?", cond: "?"}
		sf, err := parser.ParseFile(fset, filepath.Join(repo, filepath.FromSlash(pkg), "signer.go"), nil, 0)
		if err == nil {
			for _, d := range sf.Decls {
				switch v := d.(type) {
				case *ast.GenDecl:
					if v.Tok != token.CONST {
						continue
					}
					for _, sp := range v.Specs {
						vs := sp.(*ast.ValueSpec)
						for i, id := range vs.Names {
							if id.Name == "maxInputSize" && i < len(vs.Values) {
								if n, ok := evalInt(vs.Values[i]); ok {
									bs.max = n
								}
							}
						}
					}
				case *ast.FuncDecl:
					if v.Name.Name != "sign" || v.Recv != nil || v.Body == nil {
						continue
					}
					ast.Inspect(v.Body, func(n ast.Node) bool {
						switch x := n.(type) {
						case *ast.CallExpr:
							if f := str(x.Fun); (f == "ioutil.ReadAll" || f == "io.ReadAll") && len(x.Args) == 1 && bs.arg == "?" {
								bs.arg = str(x.Args[0])
							}
						case *ast.IfStmt:
							if c := str(x.Cond); strings.HasPrefix(c, "len(blob) >") && len(x.Body.List) == 1 {
								if rs, ok := x.Body.List[0].(*ast.ReturnStmt); ok && len(rs.Results) == 2 && str(rs.Results[0]) == "nil" {
									bs.cond = c
								}
							}
						}
						return true
					})
				}
			}
		}
		bufSigners = append(bufSigners, bs)
	}
	// ---- output
	var sb strings.Builder
	sb.WriteString("/- GENERATED by tools/extractchttp (tables of lib/compresshttp and the client's fallback; properties C09, C14). Do not edit. -/\n")
	sb.WriteString("namespace Relic.Generated.CompressHttp\n\n")
	sb.WriteString("/-- string constants of the package, resolved -/\ndef consts : List (String × String) := [")
	for i, n := range constOrder {
		if i > 0 {
			sb.WriteString(", ")
		}
		fmt.Fprintf(&sb, "(%s, %s)", q(n), q(consts[n]))
	}
	sb.WriteString("]\n\n/-- the `prefs` literal, keys resolved, sorted -/\ndef prefs : List (String × Nat) := [")
	for i, p := range prefs {
		if i > 0 {
			sb.WriteString(", ")
		}
		fmt.Fprintf(&sb, "(%s, %d)", q(p.k), p.v)
	}
	sb.WriteString("]\n\n/-- package-level variables: ⟨name, type or initialiser, writes / address-taking / method calls outside init⟩ -/\ndef vars : List (String × String × Nat) := [")
	for i, v := range vars {
		if i > 0 {
			sb.WriteString(", ")
		}
		fmt.Fprintf(&sb, "(%s, %s, %d)", q(v.name), q(v.typ), v.writes)
	}
	sb.WriteString("]\n\n")
	emitCases := func(name, doc string, cs []swCase) {
		fmt.Fprintf(&sb, "/-- %s -/\ndef %s : List (List String × String) := [", doc, name)
		for i, c := range cs {
			if i > 0 {
				sb.WriteString(", ")
			}
			var ls []string
			for _, l := range c.labels {
				ls = append(ls, q(l))
			}
			fmt.Fprintf(&sb, "([%s], %s)", strings.Join(ls, ", "), q(c.ret))
		}
		sb.WriteString("]\n\n")
	}
	emitCases("decompressCases", "`switch encoding` of decompress(): labels (`=value` or `default`) and the value returned", switchOf("decompress"))
	emitCases("setupCases", "`switch encoding` of setupCompression()", switchOf("setupCompression"))
	sb.WriteString("/-- http.Error calls of Middleware(): (condition, status) -/\ndef middlewareErrors : List (String × String) := [")
	for i, p := range mwErrors {
		if i > 0 {
			sb.WriteString(", ")
		}
		fmt.Fprintf(&sb, "(%s, %s)", q(p.a), q(p.b))
	}
	sb.WriteString("]\n\n")
	fmt.Fprintf(&sb, "/-- condition under which responseCompressor.WriteHeader clears the encoding -/\ndef errorSkip : String := %s\n\n", q(errorSkip))
	fmt.Fprintf(&sb, "/-- condition under which doRequest clears `encodings` and starts over -/\ndef clientFallback : String := %s\n\n", q(clientFallback))
	fmt.Fprintf(&sb, "/-- `response.StatusCode < N` ends the loop; the answer is then decompressed -/\ndef clientBelow : String := %s\n\n", q(clientBelow))
	sb.WriteString("/-- signers whose sign() reads the whole input: ⟨package, maxInputSize, argument of ReadAll, refusing condition⟩ -/\ndef bufferingSigners : List (String × Nat × String × String) := [")
	for i, b := range bufSigners {
		if i > 0 {
			sb.WriteString(", ")
		}
		fmt.Fprintf(&sb, "(%s, %d, %s, %s)", q(b.pkg), b.max, q(b.arg), q(b.cond))
	}
	sb.WriteString("]\n\n")
	sb.WriteString("end Relic.Generated.CompressHttp\n")
	if err := os.WriteFile(os.Args[2], []byte(sb.String()), 0644); err != nil {
		fmt.Fprintln(os.Stderr, err)
		os.Exit(1)
	}
}

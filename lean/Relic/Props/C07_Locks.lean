/-
  C07 — "a key lookup that resolves to a different key than requested … results in an error": the worker's Sign request
  pins the id of the key whose certificate the client embedded; token/tokencache answers a pinned lookup with that id or
  not at all, from every cache state and hence under every interleaving of atomic lookups (C15: pinned_lookup_returns_pinned;
  atomicity = the generated obligation on Cache.GetKey's lock span).
-/
import Relic.Props.C15_Locks
namespace Relic.Props.C07
open Relic Relic.LockSpan Relic.KeyCache

theorem key_lookup_atomic_generated : heldThroughout Generated.Locks.cacheGetKey = true :=
  Relic.Props.C15.cache_getKey_atomic_generated

/-- **key_lookup_resolves_to_requested.** -/
theorem key_lookup_resolves_to_requested (expiry : Nat) (fetch : Nat → KeyId → Option KeyId) (s : State)
    (now : Nat) (want : KeyId) (name : Nat) (hw : want ≠ [])
    (hf : ∀ i, fetch name want = some i → i = want) (id : KeyId) (src : Src)
    (h : (getKey expiry fetch s now want name).1 = some (id, src)) : id = want :=
  Relic.Props.C15.pinned_lookup_returns_pinned expiry fetch s now want name hw hf id src h

end Relic.Props.C07

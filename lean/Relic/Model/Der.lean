/-
  Relic.Model.Der — definite-length TLV codec as Go's `encoding/asn1` (go1.23) emits and
  accepts it, and relic's own byte-level manipulations of CMS structures
  (/repo/lib/pkcs7/attributes.go, builder.go).  Core Lean only (linked into the driver).

  Scope notes
  * identifier octets: single-byte tags only (low five bits ≠ 31).  Every tag relic's CMS code
    touches is single-byte.  `untlv` answers `err "hightag"` on a multi-byte tag; the generator
    never puts one where the model parses.
  * lengths: Go's `parseTagAndLength` accepts *only* minimal definite lengths below 2^31
    (indefinite, leading zero octets, long form for < 128 are errors).  `decLen` models that;
    `decLenLax` is a BER decoder (any definite long form) used only to state what would happen
    to foreign non-minimal input if the parser were lax.
  * error classes: `syntax` = asn1.SyntaxError, `structural` = asn1.StructuralError.
-/
import Relic.Base.Bytes
namespace Relic.Der
open Relic

/-! ### lengths -/

/-- `lengthLength` of marshal.go: number of base-256 digits, at least one -/
def lenLen (n : Nat) : Nat :=
  if n < 256 then 1 else lenLen (n / 256) + 1
termination_by n
decreasing_by omega

/-- `appendTagAndLength`, length part: short form below 128, else 0x80|k followed by k big-endian octets -/
def encLen (n : Nat) : Bytes :=
  if n < 128 then [UInt8.ofNat n]
  else UInt8.ofNat (128 + lenLen n) :: beBytes (lenLen n) n

/-- the long-form loop of `parseTagAndLength` -/
def decLenLoop : Nat → Nat → Bytes → Res (Nat × Bytes)
  | 0, acc, bs => .ok (acc, bs)
  | _ + 1, _, [] => .err "syntax"              -- truncated tag or length
  | k + 1, acc, b :: bs =>
    if acc ≥ 2 ^ 23 then .err "structural"     -- length too large
    else
      let acc' := acc * 256 + b.toNat
      if acc' = 0 then .err "structural"       -- superfluous leading zeros in length
      else decLenLoop k acc' bs

/-- length octets as Go accepts them; returns the length and the remaining bytes -/
def decLen : Bytes → Res (Nat × Bytes)
  | [] => .err "syntax"
  | b :: bs =>
    if b.toNat < 128 then .ok (b.toNat, bs)
    else if b.toNat % 128 = 0 then .err "syntax"   -- indefinite length found (not DER)
    else
      match decLenLoop (b.toNat % 128) 0 bs with
      | .ok (n, rest) => if n < 128 then .err "structural" else .ok (n, rest)  -- non-minimal length
      | e => e

/-- BER: any definite long form, no minimality checks (not what Go does; used in statements only) -/
def decLenLaxLoop : Nat → Nat → Bytes → Res (Nat × Bytes)
  | 0, acc, bs => .ok (acc, bs)
  | _ + 1, _, [] => .err "syntax"
  | k + 1, acc, b :: bs => decLenLaxLoop k (acc * 256 + b.toNat) bs

def decLenLax : Bytes → Res (Nat × Bytes)
  | [] => .err "syntax"
  | b :: bs =>
    if b.toNat < 128 then .ok (b.toNat, bs)
    else if b.toNat % 128 = 0 then .err "syntax"
    else decLenLaxLoop (b.toNat % 128) 0 bs

/-! ### TLV -/

def tlv (tag : UInt8) (c : Bytes) : Bytes := tag :: (encLen c.length ++ c)

def highTag (t : UInt8) : Bool := t.toNat % 32 = 31

/-- one element off the front: (identifier octet, content, rest).  Parameterised by the length decoder. -/
def untlvWith (dl : Bytes → Res (Nat × Bytes)) : Bytes → Res (UInt8 × Bytes × Bytes)
  | [] => .err "syntax"                        -- sequence truncated
  | t :: bs =>
    if highTag t then .err "hightag"
    else
      match dl bs with
      | .ok (n, r) => if n > r.length then .err "syntax" else .ok (t, r.take n, r.drop n)  -- data truncated
      | .err e => .err e
      | .panic s => .panic s
      | .diverge => .diverge

def untlv : Bytes → Res (UInt8 × Bytes × Bytes) := untlvWith decLen
def untlvLax : Bytes → Res (UInt8 × Bytes × Bytes) := untlvWith decLenLax

/-! ### Go's `asn1.RawValue` and relic's attribute lists -/

/-- `asn1.RawValue`: `FullBytes` (if non-empty, emitted verbatim), else identifier octet + `Bytes` -/
structure RawVal where
  full : Bytes
  tag : UInt8
  bytes : Bytes
  deriving Repr, DecidableEq

/-- what `asn1.Marshal` emits for a RawValue -/
def encRaw (v : RawVal) : Bytes :=
  if v.full.isEmpty then tlv v.tag v.bytes else v.full

/-- `pkcs7.Attribute`; `oid` = content octets of the OBJECT IDENTIFIER -/
structure Attr where
  oid : Bytes
  values : RawVal
  deriving Repr, DecidableEq

def encAttr (a : Attr) : Bytes := tlv 0x30 (tlv 0x06 a.oid ++ encRaw a.values)

/-- contents of the SEQUENCE OF: attributes in list order -/
def attrsContent (l : List Attr) : Bytes := l.flatMap encAttr

/-- `asn1.Marshal(AttributeList)`: a slice without the `set` parameter is a SEQUENCE OF, never sorted -/
def encAttrList (l : List Attr) : Bytes := tlv 0x30 (attrsContent l)

/-- `marshalUnsortedSet`, the part after `asn1.Marshal`: check the tag number, then `encoded[0] |= 1` -/
def retagSet : Bytes → Res Bytes
  | [] => .ok []
  | b :: rest => if b &&& 0x1f ≠ 16 then .err "expected-sequence" else .ok ((b ||| 1) :: rest)

/-- `AttributeList.Bytes` -/
def attrListBytes (l : List Attr) : Res Bytes := retagSet (encAttrList l)

/-- `appendAttr`: append to the value set of the first attribute with that OID (its `Bytes`, leaving
    `FullBytes` as it is), else add a new attribute with a synthesised SET. -/
def appendAttr : List Attr → Bytes → Bytes → List Attr
  | [], oid, value => [⟨oid, ⟨[], 0x31, value⟩⟩]
  | a :: l, oid, value =>
    if a.oid = oid then { a with values := { a.values with bytes := a.values.bytes ++ value } } :: l
    else a :: appendAttr l oid value

/-! ### splitting a constructed value into its elements (`parseSequenceOf` for `[]asn1.RawValue`) -/

theorem untlvWith_rest_lt (dl) (bs : Bytes) (t : UInt8) (c rest : Bytes)
    (hdl : ∀ b n r, dl b = .ok (n, r) → r.length ≤ b.length)
    (h : untlvWith dl bs = .ok (t, c, rest)) : rest.length < bs.length := by
  cases bs with
  | nil => simp [untlvWith] at h
  | cons x xs =>
    simp only [untlvWith] at h
    split at h
    · cases h
    · split at h
      · rename_i n r hd
        split at h
        · cases h
        · injection h with h; injection h with _ h; injection h with _ h
          subst h
          have := hdl _ _ _ hd
          simp only [List.length_drop, List.length_cons]; omega
      all_goals cases h

theorem decLenLoop_le (k acc : Nat) (bs : Bytes) (n : Nat) (r : Bytes)
    (h : decLenLoop k acc bs = .ok (n, r)) : r.length ≤ bs.length := by
  induction k generalizing acc bs with
  | zero => simp [decLenLoop] at h; simp [h.2]
  | succ k ih =>
    cases bs with
    | nil => simp [decLenLoop] at h
    | cons b bs =>
      simp only [decLenLoop] at h
      split at h
      · cases h
      · split at h
        · cases h
        · have := ih _ _ h; simp only [List.length_cons]; omega

theorem decLen_le (bs : Bytes) (n : Nat) (r : Bytes) (h : decLen bs = .ok (n, r)) : r.length ≤ bs.length := by
  cases bs with
  | nil => simp [decLen] at h
  | cons b bs =>
    simp only [decLen] at h
    split at h
    · injection h with h; injection h with _ h; subst h; simp
    · split at h
      · cases h
      · split at h
        · rename_i n' r' hl
          split at h
          · cases h
          · injection h with h; injection h with h1 h2; subst h2
            have := decLenLoop_le _ _ _ _ _ hl; simp only [List.length_cons]; omega
        · rename_i hne
          cases hh : decLenLoop (b.toNat % 128) 0 bs with
          | ok p => exact absurd hh (by cases p; exact hne _ _)
          | err e => rw [hh] at h; cases h
          | panic s => rw [hh] at h; cases h
          | diverge => rw [hh] at h; cases h

theorem untlv_rest_lt (bs : Bytes) (t : UInt8) (c rest : Bytes)
    (h : untlv bs = .ok (t, c, rest)) : rest.length < bs.length :=
  untlvWith_rest_lt decLen bs t c rest decLen_le h

/-- elements of a constructed value, each with the exact bytes it occupied (`FullBytes`) -/
def splitTLVs (bs : Bytes) : Res (List RawVal) :=
  if bs.isEmpty then .ok []
  else
    match h : untlv bs with
    | .ok (t, c, rest) =>
      match splitTLVs rest with
      | .ok l => .ok (⟨bs.take (bs.length - rest.length), t, c⟩ :: l)
      | e => e
    | .err e => .err e
    | .panic s => .panic s
    | .diverge => .diverge
termination_by bs.length
decreasing_by exact untlv_rest_lt _ _ _ _ h

/-! ### SignerInfo -/

/-- the parts of `pkcs7.SignerInfo` that matter here; `rawContent = []` models `RawContent == nil` -/
structure SignerInfo where
  rawContent : Bytes
  attrs : List Attr

/-- `SignerInfo.AuthenticatedAttributesBytes` -/
def authAttrBytes (si : SignerInfo) : Res Bytes :=
  if si.rawContent.isEmpty then attrListBytes si.attrs
  else
    -- asn1.Unmarshal(i.RawContent, &seq) with seq []asn1.RawValue: outer element must be a
    -- universal constructed SEQUENCE; trailing bytes after it are ignored
    match untlv si.rawContent with
    | .ok (t, c, _) =>
      if t ≠ 0x30 then .err "structural"   -- tags don't match
      else
        match splitTLVs c with
        | .ok seq =>
          match seq[3]? with
          | none => .err "short"
          | some raw => retagSet (tlv 0x30 raw.bytes)
        | .err e => .err e
        | .panic s => .panic s
        | .diverge => .diverge
    | .err e => .err e
    | .panic s => .panic s
    | .diverge => .diverge

/-! ### builder rule (`SignatureBuilder.Sign`) -/

def oidContentType : Bytes := [0x2a, 0x86, 0x48, 0x86, 0xf7, 0x0d, 0x01, 0x09, 0x03]
def oidMessageDigest : Bytes := [0x2a, 0x86, 0x48, 0x86, 0xf7, 0x0d, 0x01, 0x09, 0x04]

/-- `authAttrs` is `none` for Go's nil slice.  When any authenticated attribute was added, Sign adds
    content-type (value: the OID element) and message-digest (value: the OCTET STRING element) through
    `AttributeList.Add`, and signs `AttributeList.Bytes`; otherwise it signs the content digest. -/
def builderAttrs (authAttrs : Option (List Attr)) (ctypeOid digest : Bytes) : Option (List Attr) :=
  match authAttrs with
  | none => none
  | some l => some (appendAttr (appendAttr l oidContentType (tlv 0x06 ctypeOid)) oidMessageDigest (tlv 0x04 digest))

/-- the stream that is hashed and signed: attribute bytes if there are attributes, else nothing extra
    (`none` = the content digest itself is signed) -/
def builderSigned (authAttrs : Option (List Attr)) (ctypeOid digest : Bytes) : Option (Res Bytes) :=
  (builderAttrs authAttrs ctypeOid digest).map attrListBytes

/-- how `asn1.Marshal` emits the `[0] IMPLICIT` authenticated attributes inside the SignerInfo:
    omitted for the nil slice, else the SEQUENCE OF encoding under identifier 0xA0 -/
def emitAuthAttrs : Option (List Attr) → Bytes
  | none => []
  | some l => tlv 0xA0 (attrsContent l)

/-- emitted SignerInfo: `pre` = version, issuerAndSerial, digestAlgorithm (three elements),
    `post` = digestEncryptionAlgorithm, encryptedDigest, optional unauthenticated attributes -/
def emitSignerInfo (pre : List (UInt8 × Bytes)) (attrs : Option (List Attr)) (post : List (UInt8 × Bytes)) : Bytes :=
  tlv 0x30 (pre.flatMap (fun p => tlv p.1 p.2) ++ emitAuthAttrs attrs ++ post.flatMap (fun p => tlv p.1 p.2))

/-! ### raw-captured vs re-synthesised nodes

  A forest in first-child / next-sibling form.  `raw` = `asn1.RawValue` with FullBytes (certificates,
  attribute value sets, issuer name, algorithm parameters): emitted verbatim.  `rawc` = struct whose
  first field is a non-empty `asn1.RawContent` (ContentInfo, SignerInfo, TBSCertList): Go strips the
  original header (`stripTagAndLength`, strict parser; on failure keeps everything) and writes a fresh
  header with the struct's identifier octet.  `prim`/`node` are re-synthesised from parsed fields. -/
inductive Forest where
  | nil
  | raw (full : Bytes) (next : Forest)
  | rawc (tag : UInt8) (full : Bytes) (next : Forest)
  | prim (tag : UInt8) (content : Bytes) (next : Forest)
  | node (tag : UInt8) (kids : Forest) (next : Forest)
  deriving Repr, DecidableEq

inductive Shape where
  | done                      -- nothing may follow
  | tail                      -- Go ignores extra elements at the end of a struct's SEQUENCE
  | raw (next : Shape)
  | rawc (next : Shape)
  | prim (next : Shape)
  | node (kids : Shape) (next : Shape)
  deriving Repr

/-- `stripTagAndLength`: `in[offset:]` after a successful strict `parseTagAndLength` (which does not
    look at whether the content is complete), else the input unchanged -/
def stripTagAndLength : Bytes → Bytes
  | [] => []
  | t :: bs =>
    if highTag t then t :: bs   -- multi-byte tags not modelled
    else
      match decLen bs with
      | .ok (_, r) => r
      | _ => t :: bs

def emit : Forest → Bytes
  | .nil => []
  | .raw full next => full ++ emit next
  | .rawc tag full next => tlv tag (stripTagAndLength full) ++ emit next
  | .prim tag c next => tlv tag c ++ emit next
  | .node tag kids next => tlv tag (emit kids) ++ emit next

/-- schema-directed parse; `lax = true` uses the BER length decoder (hypothetical), `false` Go's -/
def parse (lax : Bool) : Shape → Bytes → Res Forest
  | .done, bs => if bs.isEmpty then .ok .nil else .err "trailing"
  | .tail, _ => .ok .nil
  | .raw next, bs =>
    match untlvWith (if lax then decLenLax else decLen) bs with
    | .ok (_, _, rest) =>
      match parse lax next rest with
      | .ok f => .ok (.raw (bs.take (bs.length - rest.length)) f)
      | e => e
    | .err e => .err e
    | .panic s => .panic s
    | .diverge => .diverge
  | .rawc next, bs =>
    match untlvWith (if lax then decLenLax else decLen) bs with
    | .ok (t, _, rest) =>
      match parse lax next rest with
      | .ok f => .ok (.rawc t (bs.take (bs.length - rest.length)) f)
      | e => e
    | .err e => .err e
    | .panic s => .panic s
    | .diverge => .diverge
  | .prim next, bs =>
    match untlvWith (if lax then decLenLax else decLen) bs with
    | .ok (t, c, rest) =>
      match parse lax next rest with
      | .ok f => .ok (.prim t c f)
      | e => e
    | .err e => .err e
    | .panic s => .panic s
    | .diverge => .diverge
  | .node kids next, bs =>
    match untlvWith (if lax then decLenLax else decLen) bs with
    | .ok (t, c, rest) =>
      match parse lax kids c with
      | .ok k =>
        match parse lax next rest with
        | .ok f => .ok (.node t k f)
        | e => e
      | e => e
    | .err e => .err e
    | .panic s => .panic s
    | .diverge => .diverge

/-! ### walking a SignedData (tie only: what Unmarshal → Marshal → Unmarshal must present) -/

/-- `bytes.Compare a b < 0` -/
def bytesLt : Bytes → Bytes → Bool
  | [], [] => false
  | [], _ :: _ => true
  | _ :: _, [] => false
  | a :: as, b :: bs => if a < b then true else if b < a then false else bytesLt as bs

def insertSorted (x : Bytes) : List Bytes → List Bytes
  | [] => [x]
  | y :: ys => if bytesLt y x then y :: insertSorted x ys else x :: y :: ys

/-- the order in which `asn1.Marshal` emits a SET OF: encodings sorted bytewise (elements that
    compare equal are identical, so stability is irrelevant) -/
def sortBytes (l : List Bytes) : List Bytes := l.foldr insertSorted []

structure SD where
  ci : Bytes
  certs : List Bytes
  sis : List Bytes

def orParse {α} : Res α → Res α
  | .ok a => .ok a
  | .err _ => .err "parse"
  | .panic s => .panic s
  | .diverge => .diverge

def sdWalk (bs : Bytes) : Res SD := do
  let (t, c, _) ← orParse (untlv bs)
  if t ≠ 0x30 then .err "parse" else
  let outer ← orParse (splitTLVs c)
  match outer[1]? with
  | none => .err "parse"
  | some e1 =>
    if e1.tag ≠ 0xA0 then .err "parse" else
    let (t2, c2, _) ← orParse (untlv e1.bytes)
    if t2 ≠ 0x30 then .err "parse" else
    let kids ← orParse (splitTLVs c2)
    match kids with
    | v :: da :: ci :: rest =>
      if v.tag ≠ 0x02 || da.tag ≠ 0x31 || ci.tag ≠ 0x30 then .err "parse" else
      let (certs, rest) ← (match rest with
        | r :: rest' => if r.tag = 0xA0 then (do let cs ← orParse (splitTLVs r.bytes); pure (cs.map (·.full), rest')) else pure ([], rest)
        | [] => pure ([], rest) : Res (List Bytes × List RawVal))
      let rest := (match rest with
        | r :: rest' => if r.tag = 0xA1 then rest' else rest
        | [] => rest)
      match rest with
      | s :: _ =>
        if s.tag ≠ 0x31 then .err "parse" else
        let sis ← orParse (splitTLVs s.bytes)
        pure ⟨ci.full, certs, sis.map (·.full)⟩
      | [] => .err "parse"
    | _ => .err "parse"

/-- `AuthenticatedAttributesBytes` as `SignerInfo.Verify` uses it: only when the parsed attribute list is non-empty -/
def siAab (full : Bytes) : Res (Option Bytes) := do
  let (_, c, _) ← orParse (untlv full)
  let seq ← orParse (splitTLVs c)
  match seq[3]? with
  | some e =>
    if e.tag = 0xA0 && !e.bytes.isEmpty then (orParse (authAttrBytes ⟨full, []⟩)).bind (fun b => .ok (some b))
    else .ok none
  | none => .ok none

/-- `ContentInfo.Bytes`: content octets of the value inside `[0] EXPLICIT`, `none` when detached -/
def ciContent (ci : Bytes) : Res (Option Bytes) := do
  let (_, c, _) ← orParse (untlv ci)
  let els ← orParse (splitTLVs c)
  match els with
  | [] => .err "parse"
  | [_] => .ok none
  | _ :: v :: _ =>
    let (_, c', _) ← orParse (untlv v.bytes)
    .ok (some c')

/-- `Detach`: ContentInfo rebuilt with the content type only -/
def detachCI (ci : Bytes) : Res Bytes := do
  let (_, c, _) ← orParse (untlv ci)
  let els ← orParse (splitTLVs c)
  match els with
  | [] => .err "parse"
  | o :: _ => .ok (tlv 0x30 o.full)

/-! ### structural edits on the parsed SignedData tree (`Detach`, field replacement)

  `sibs f` lists what every top-level sibling of a forest contributes to the encoding, so a
  "field" of a Go struct is one entry of `sibs` of the children of its SEQUENCE node. -/
namespace Forest

/-- sibling-chain append -/
def append : Forest → Forest → Forest
  | .nil, g => g
  | .raw full next, g => .raw full (append next g)
  | .rawc t full next, g => .rawc t full (append next g)
  | .prim t c next, g => .prim t c (append next g)
  | .node t k next, g => .node t k (append next g)

/-- the emitted bytes of every top-level sibling, in order -/
def sibs : Forest → List Bytes
  | .nil => []
  | .raw full next => full :: sibs next
  | .rawc tag full next => tlv tag (stripTagAndLength full) :: sibs next
  | .prim tag c next => tlv tag c :: sibs next
  | .node tag kids next => tlv tag (emit kids) :: sibs next

def takeSibs : Nat → Forest → Forest
  | 0, _ => .nil
  | _ + 1, .nil => .nil
  | i + 1, .raw full next => .raw full (takeSibs i next)
  | i + 1, .rawc t full next => .rawc t full (takeSibs i next)
  | i + 1, .prim t c next => .prim t c (takeSibs i next)
  | i + 1, .node t k next => .node t k (takeSibs i next)

def dropSibs : Nat → Forest → Forest
  | 0, f => f
  | _ + 1, .nil => .nil
  | i + 1, .raw _ next => dropSibs i next
  | i + 1, .rawc _ _ next => dropSibs i next
  | i + 1, .prim _ _ next => dropSibs i next
  | i + 1, .node _ _ next => dropSibs i next

/-- `editField i new f`: field `i` replaced by the forest `new` (one node for a replacement, `.nil` for
    a removal); the siblings before and after are the very same subtrees -/
def editField (i : Nat) (new : Forest) (f : Forest) : Forest :=
  append (takeSibs i f) (append new (dropSibs (i + 1) f))

/-- apply `g` to the children of sibling `i` when that is a re-synthesised constructed node -/
def inKids : Nat → (Forest → Forest) → Forest → Forest
  | _, _, .nil => .nil
  | 0, g, .node t k next => .node t (g k) next
  | 0, _, .raw full next => .raw full next
  | 0, _, .rawc t full next => .rawc t full next
  | 0, _, .prim t c next => .prim t c next
  | i + 1, g, .raw full next => .raw full (inKids i g next)
  | i + 1, g, .rawc t full next => .rawc t full (inKids i g next)
  | i + 1, g, .prim t c next => .prim t c (inKids i g next)
  | i + 1, g, .node t k next => .node t k (inKids i g next)

end Forest

/-- content octets of the OBJECT IDENTIFIER a ContentInfo starts with (`ContentInfo.ContentType`) -/
def ciOid (full : Bytes) : Option Bytes :=
  match untlv full with
  | .ok (_, c, _) =>
    match untlv c with
    | .ok (t, o, _) => if t = 0x06 then some o else none
    | _ => none
  | _ => none

/-- `NewContentInfo(contentType, nil)`: `Raw` is nil, so the struct is emitted from its one field -/
def detachedCI (oid : Bytes) : Forest := .node 0x30 (.prim 0x06 oid .nil) .nil

/-- `Detach` on the children of the SignedData SEQUENCE (version, digestAlgorithms, contentInfo,
    [certificates], [crls], signerInfos): the third field – the ContentInfo, held with its RawContent –
    is replaced by the content-less one; nothing else is touched. -/
def detachKids (kids : Forest) : Forest :=
  match Forest.dropSibs 2 kids with
  | .rawc _ full _ =>
    match ciOid full with
    | some oid => Forest.editField 2 (detachedCI oid) kids
    | none => kids
  | _ => kids

/-- the `ContentInfoSignedData` tree: SEQUENCE { contentType, [0] EXPLICIT SEQUENCE { kids } } -/
def wrapSD (oid : Bytes) (kids : Forest) : Forest :=
  .node 0x30 (.prim 0x06 oid (.node 0xA0 (.node 0x30 kids .nil) .nil)) .nil

/-- `(*ContentInfoSignedData).Detach` on the whole tree -/
def detachSD (f : Forest) : Forest :=
  Forest.inKids 0 (Forest.inKids 1 (Forest.inKids 0 detachKids)) f

/-! ### the tree Go holds after `pkcs7.Unmarshal` (tie: what `Marshal` emits for it) -/

def rawsOf (l : List Bytes) : Forest := l.foldr (fun b f => .raw b f) .nil
def rawcsOf (l : List Bytes) : Forest := l.foldr (fun b f => .rawc 0x30 b f) .nil
def chain (l : List Forest) : Forest := l.foldr Forest.append .nil

/-- `pkix.AlgorithmIdentifier`: OID, optional raw parameters; further elements are dropped -/
def algForest (full : Bytes) : Res Forest := do
  let (_, c, _) ← orParse (untlv full)
  let els ← orParse (splitTLVs c)
  match els with
  | o :: rest =>
    .ok (.node 0x30 (.prim 0x06 o.bytes (match rest with | p :: _ => .raw p.full .nil | [] => .nil)) .nil)
  | [] => .err "parse"

/-- `pkix.CertificateList`: TBSCertList (RawContent), signatureAlgorithm, signatureValue -/
def crlForest (full : Bytes) : Res Forest := do
  let (_, c, _) ← orParse (untlv full)
  let els ← orParse (splitTLVs c)
  match els with
  | tbs :: alg :: sig :: _ =>
    let a ← algForest alg.full
    .ok (.node 0x30 (.rawc 0x30 tbs.full (Forest.append a (.prim 0x03 sig.bytes .nil))) .nil)
  | _ => .err "parse"

/-- optional `[n] IMPLICIT` field holding a list: absent → nothing is emitted -/
def optList (tag : UInt8) (mk : RawVal → Res Forest) : List RawVal → Res (Forest × List RawVal)
  | r :: rest =>
    if r.tag = tag then do
      let els ← orParse (splitTLVs r.bytes)
      let fs ← els.mapM mk
      .ok (.node tag (chain fs) .nil, rest)
    else .ok (.nil, r :: rest)
  | [] => .ok (.nil, [])

/-- the parsed `ContentInfoSignedData` as a tree, SET OF members in the order `asn1.Marshal` emits them -/
def sdForest (bs : Bytes) : Res Forest := do
  let (t, c, _) ← orParse (untlv bs)
  if t ≠ 0x30 then .err "parse" else
  let outer ← orParse (splitTLVs c)
  match outer with
  | o :: e1 :: _ =>
    if o.tag ≠ 0x06 || e1.tag ≠ 0xA0 then .err "parse" else
    let (t2, c2, _) ← orParse (untlv e1.bytes)
    if t2 ≠ 0x30 then .err "parse" else
    let kids ← orParse (splitTLVs c2)
    match kids with
    | v :: da :: ci :: rest =>
      if v.tag ≠ 0x02 || da.tag ≠ 0x31 || ci.tag ≠ 0x30 then .err "parse" else
      let das ← orParse (splitTLVs da.bytes)
      let daF ← (sortBytes (das.map (·.full))).mapM algForest
      let (certsF, rest) ← optList 0xA0 (fun r => .ok (.raw r.full .nil)) rest
      let (crlsF, rest) ← optList 0xA1 (fun r => crlForest r.full) rest
      match rest with
      | s :: _ =>
        if s.tag ≠ 0x31 then .err "parse" else
        let sis ← orParse (splitTLVs s.bytes)
        let sisF := rawcsOf (sortBytes (sis.map (·.full)))
        .ok (wrapSD o.bytes (.prim 0x02 v.bytes (.node 0x31 (chain daF) (.rawc 0x30 ci.full
          (Forest.append certsF (Forest.append crlsF (.node 0x31 sisF .nil)))))))
      | [] => .err "parse"
    | _ => .err "parse"
  | _ => .err "parse"

end Relic.Der

/-
  C02 — Any change to signed content or to the signature makes verification fail.   PowerShell part.
-/
import Relic.Proofs.PS
import Relic.Proofs.PSUtf8
import Relic.Props.C08_PS
namespace Relic.Props.C02
open Relic Relic.PS

/-- **ps_hashed_injective (UTF-16LE).** Two UTF-16 scripts whose digests succeed with the same hashed stream have the same
    text in front of the signature block, byte for byte (the stream *is* the text).  Not protected: the block itself
    and the line break in front of it. -/
theorem ps_hashed_injective_utf16 (a b : Bytes) (sa sb : Nat) (da db : Digest) (ea : DigestPS a sa = .ok da)
    (eb : DigestPS b sb = .ok db) (ua : da.utf16 = true) (ub : db.utf16 = true) (hs : da.hashed = db.hashed) :
    a.take da.textSize = b.take db.textSize := by
  rw [← (DigestPS_spec a sa da ea).stream16 ua, ← (DigestPS_spec b sb db eb).stream16 ub, hs]

/-- **ps_hashed_is_utf16 (UTF-8).** For a script that is not UTF-16 and whose text in front of the signature block is
    valid UTF-8 – the encoding of the characters `cs` – the stream fed to the hash is the UTF-16LE encoding of `cs`
    (surrogate pairs above U+FFFF), although the code converts the text line by line: a line feed byte is always a
    character of its own, so the division into lines never cuts a character. -/
theorem ps_hashed_is_utf16 (a : Bytes) (sa : Nat) (da : Digest) (ea : DigestPS a sa = .ok da) (ua : da.utf16 = false)
    (cs : List Char) (hv : a.take da.textSize = cs.flatMap String.utf8EncodeChar) :
    da.hashed = cs.flatMap (fun c => encUnit c.val.toNat) :=
  DigestPS_stream8 a sa da ea ua cs hv

/-- **ps_hashed_injective (UTF-8)** (was `ps_hashed_injective_utf8_full`).  For scripts that are valid UTF-8 the
    conversion to UTF-16 loses nothing (UTF-16 is a prefix code on Unicode scalar values), so equal streams mean equal
    text, byte for byte.  `ps_invalid_utf8_collides` is the exact exception. -/
theorem ps_hashed_injective_utf8 (a b : Bytes) (sa sb : Nat) (da db : Digest) (ea : DigestPS a sa = .ok da)
    (eb : DigestPS b sb = .ok db) (ua : da.utf16 = false) (ub : db.utf16 = false)
    (va : ∃ s : String, s.toUTF8.toList = a.take da.textSize) (vb : ∃ s : String, s.toUTF8.toList = b.take db.textSize)
    (hs : da.hashed = db.hashed) : a.take da.textSize = b.take db.textSize := by
  obtain ⟨ca, ha⟩ := isUtf8_of_string _ va
  obtain ⟨cb, hb⟩ := isUtf8_of_string _ vb
  have h1 := DigestPS_stream8 a sa da ea ua ca ha
  have h2 := DigestPS_stream8 b sb db eb ub cb hb
  have : ca = cb := enc16_inj ca cb (by rw [← h1, ← h2, hs])
  rw [ha, hb, this]

/-- the exact form: on valid UTF-8 the stream is a function of the text and determines it -/
theorem ps_hashed_eq_iff_utf8 (a b : Bytes) (sa sb : Nat) (da db : Digest) (ea : DigestPS a sa = .ok da)
    (eb : DigestPS b sb = .ok db) (ua : da.utf16 = false) (ub : db.utf16 = false)
    (va : ∃ s : String, s.toUTF8.toList = a.take da.textSize) (vb : ∃ s : String, s.toUTF8.toList = b.take db.textSize) :
    da.hashed = db.hashed ↔ a.take da.textSize = b.take db.textSize := by
  refine ⟨ps_hashed_injective_utf8 a b sa sb da db ea eb ua ub va vb, fun h => ?_⟩
  obtain ⟨ca, ha⟩ := isUtf8_of_string _ va
  obtain ⟨cb, hb⟩ := isUtf8_of_string _ vb
  rw [DigestPS_stream8 a sa da ea ua ca ha, DigestPS_stream8 b sb db eb ub cb hb]
  have e1 := toUtf16_enc8 ca []
  have e2 := toUtf16_enc8 cb []
  simp only [List.append_nil, toUtf16] at e1 e2
  rw [← e1, ← e2, ← ha, ← hb, h]

/-- non-vacuity: two-line script with a two-byte, a three-byte and a four-byte character (é, €, U+1F600), no signature
    block; the stream is the UTF-16LE text with a surrogate pair -/
example : (∃ s : String, s.toUTF8.toList = [0xC3, 0xA9, 10, 0xE2, 0x82, 0xAC, 0xF0, 0x9F, 0x98, 0x80]) ∧
    (match DigestPS [0xC3, 0xA9, 10, 0xE2, 0x82, 0xAC, 0xF0, 0x9F, 0x98, 0x80] 1 with
     | .ok d => some (d.hashed, d.textSize, d.utf16) | _ => none) =
      some ([0xE9, 0, 10, 0, 0xAC, 0x20, 0x3D, 0xD8, 0x00, 0xDE], 10, false) := by
  refine ⟨(isUtf8_iff_string _).mp ⟨['é', '\n', '€', Char.ofNat 0x1F600], by decide⟩, by decide⟩

/-- **ps_invalid_utf8_collides.** Without the validity hypothesis the statement is false, by the format's definition
    (scripts are digested as UTF-16): every invalid byte becomes U+FFFD, so two different byte strings that are not
    UTF-8 have the same digest. -/
theorem ps_invalid_utf8_collides :
    ∃ a b da db, a ≠ b ∧ DigestPS a 1 = .ok da ∧ DigestPS b 1 = .ok db ∧ da.hashed = db.hashed ∧
      a.take da.textSize = a ∧ b.take db.textSize = b :=
  ⟨[0x80], [0xff], ⟨[0xfd, 0xff], 1, 0, false, 1⟩, ⟨[0xfd, 0xff], 1, 0, false, 1⟩, by decide, by decide, by decide, rfl, rfl, rfl⟩

/-- **ps_no_trailing.** Everything after the begin marker belongs to the signature block (`SigSize` runs to the end of
    the file): text and block partition the file, nothing can hide behind the block unaccounted. -/
theorem ps_no_trailing (f : Bytes) (style : Nat) (d : Digest) (e : DigestPS f style = .ok d) :
    d.textSize + d.sigSize = f.length :=
  (DigestPS_spec f style d e).sizes

set_option maxRecDepth 1000000 in
example : (DigestPS C08.script16 1).isOk = true ∧ isUtf16 C08.script16 = true := by decide

end Relic.Props.C02

/-
  C03 — Signing never corrupts or alters the payload.   Mach-O part: which bytes of the image `PatchSignature` may
  change.  Everything outside the recorded header ranges and the signature region keeps its bytes and its order.
-/
import Relic.Proofs.MachOPatch
namespace Relic.Props.C03
open Relic Relic.MachO Relic.Binpatch

/-- **macho_payload_preserved.** In the written file
    * every byte below the end of code that is not in one of the recorded header ranges is the input's byte,
    * bytes inside a recorded range are the patched header buffer's,
    * the padding is zero, the signature buffer follows it,
    * everything behind the old signature region follows unchanged, in order.
    The recorded ranges are `[16,24)` (ncmds, sizeofcmds – only when a load command is added), the
    Memsz/Offset/Filesz triple of the __LINKEDIT command (24 or 12 bytes) and the 16 bytes of LC_CODE_SIGNATURE
    (see `patch_ranges` below). -/
theorem macho_payload_preserved (f h3 : Bytes) (rs : List (Nat × Nat)) (cs sigLen padding : Nat) (sigBuf : Bytes)
    (L : Layout f h3 rs cs sigLen) :
    let g := written f h3 rs cs sigLen padding sigBuf
    (∀ i, i < cs → inRanges rs i = false → g[i]? = f[i]?) ∧
    (∀ i, inRanges rs i = true → g[i]? = h3[i]?) ∧
    (∀ j, j < padding → g[cs + j]? = some 0) ∧
    (∀ j, j < sigBuf.length → g[cs + padding + j]? = sigBuf[j]?) ∧
    (∀ j, g[cs + padding + sigBuf.length + j]? = f[cs + sigLen + j]?) := by
  intro g
  have W := written_getElem? f h3 rs cs sigLen padding sigBuf L
  -- positions at or behind `cs` are in no header range
  have out : ∀ i, cs ≤ i → inRanges rs i = false := by
    intro i hi
    cases h : inRanges rs i with
    | false => rfl
    | true =>
      simp only [inRanges, List.any_eq_true, decide_eq_true_eq] at h
      obtain ⟨r, hr, h1, h2⟩ := h
      have := L.ranges r hr
      have := L.hdrBelow
      omega
  refine ⟨?_, ?_, ?_, ?_, ?_⟩
  · intro i hi hr
    show (written f h3 rs cs sigLen padding sigBuf)[i]? = _
    rw [W i]; simp [hr, hi]
  · intro i hr
    show (written f h3 rs cs sigLen padding sigBuf)[i]? = _
    rw [W i]; simp [hr]
  · intro j hj
    show (written f h3 rs cs sigLen padding sigBuf)[cs + j]? = _
    rw [W (cs + j), out _ (by omega)]
    have a : ¬ cs + j < cs := by omega
    have b : cs + j < cs + padding := by omega
    simp [a, b]
  · intro j hj
    show (written f h3 rs cs sigLen padding sigBuf)[cs + padding + j]? = _
    rw [W (cs + padding + j), out _ (by omega)]
    have a : ¬ cs + padding + j < cs := by omega
    have b : ¬ cs + padding + j < cs + padding := by omega
    have c : cs + padding + j < cs + padding + sigBuf.length := by omega
    simp only [Bool.false_eq_true, ↓reduceIte, a, b, c]
    congr 1; omega
  · intro j
    show (written f h3 rs cs sigLen padding sigBuf)[cs + padding + sigBuf.length + j]? = _
    rw [W (cs + padding + sigBuf.length + j), out _ (by omega)]
    have a : ¬ cs + padding + sigBuf.length + j < cs := by omega
    have b : ¬ cs + padding + sigBuf.length + j < cs + padding := by omega
    have c : ¬ cs + padding + sigBuf.length + j < cs + padding + sigBuf.length := by omega
    simp only [Bool.false_eq_true, ↓reduceIte, a, b, c]
    congr 1; omega

/-- **patch_reuse.** When the existing signature region is large enough (`sigLen ≥ sigSize`) the header is not
    touched at all: the only patch replaces the old region by a buffer of the same size. -/
theorem patch_reuse (m : Markers) (hdr : Bytes) (sigSize : Int) (h : (m.sigLen : Int) ≥ sigSize) :
    patchSignature m hdr sigSize = .ok ⟨hdr, m.sigLen, m.sigStart, 0, [⟨m.sigStart, m.sigLen, zeros m.sigLen⟩]⟩ := by
  simp [patchSignature, h]

/-- refusal instead of rewriting: no room for LC_CODE_SIGNATURE in front of the first section -/
theorem patch_refuses_overflow (m : Markers) (hdr : Bytes) (sigSize : Int) (h1 : ¬ (m.sigLen : Int) ≥ sigSize)
    (h2 : 0 ≤ m.codeSize ∧ m.codeSize ≤ 2 ^ 40) (h3 : m.loadCsStart = 0) (h4 : m.nextLc + 16 > m.firstSh)
    (h5 : ¬ (if m.sigStart = 0 then align m.codeSize.toNat 8 else m.sigStart) < m.codeSize.toNat) :
    patchSignature m hdr sigSize = .err "overflow" := by
  have a1 : 0 ≤ m.codeSize := h2.1
  have a2 : m.codeSize ≤ 1099511627776 := by have := h2.2; omega
  simp [patchSignature, h1, a1, a2, h3, h4, h5]

/-! ### non-vacuity: see C01_MachO (regular instance of `Layout`) -/

example : patchSignature ⟨false, 0xfeedfacf, 4096, 100, 200, 100, 4000, 196, 216, 300, 4096, 216⟩ [] 50 =
    .ok ⟨[], 100, 4096, 0, [⟨4096, 100, zeros 100⟩]⟩ := by decide

end Relic.Props.C03

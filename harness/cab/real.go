package cab

// Structured cabinets: real CFFOLDER / CFFILE / CFDATA layout behind the headers, with every combination of the three
// reserve sizes of the CFRESERVE header (cbCFHeader, cbCFFolder, cbCFData).  relic treats everything behind the folder
// headers as opaque bytes; a standard reader (cabextract, expand.exe) walks the CFDATA blocks using cbCFData from the
// header, so the check walks them too (checklib/models/cab.py: walk) on the input and on the file the signing path wrote.

import (
	"bufio"
	"bytes"
	"encoding/binary"
	"fmt"

	"github.com/sassoftware/relic/v8/lib/cabfile"

	"verifharness/hx"
)

type RealParams struct {
	Reserve   bool  // CFRESERVE present (flag 0x0004)
	HeaderRes int   // cbCFHeader
	FolderRes int   // cbCFFolder
	DataRes   int   // cbCFData
	SigHeader bool  // HeaderRes == 20: the reserve area is a signature header that agrees with cbCabinet (SignatureSize 0)
	Blocks    []int // CFDATA blocks per folder
	Files     int
}

func RandRealParams(r *hx.Rng) RealParams {
	p := RealParams{Files: r.Pick(1, 1, 2, 5)}
	for k := r.Pick(1, 1, 1, 2, 3); k > 0; k-- {
		p.Blocks = append(p.Blocks, r.Pick(1, 1, 2, 3, 6))
	}
	switch r.Intn(8) {
	case 0: // no reserve at all
	case 1: // a signature header already in place (what relic and signtool leave behind)
		p.Reserve, p.HeaderRes, p.SigHeader = true, 20, true
	case 2: // header reserve only, zero filled (ReservePerCabinetSize=…)
		p.Reserve, p.HeaderRes = true, r.Pick(24, 32, 100, 6144)
	case 3: // header reserve too small for a signature header, with or without the other two
		p.Reserve, p.HeaderRes, p.FolderRes, p.DataRes = true, r.Pick(0, 4, 19), r.Pick(0, 0, 4), r.Pick(0, 0, 4)
	default: // room for the signature plus a per-folder and/or per-datablock reserve
		p.Reserve, p.HeaderRes = true, r.Pick(20, 24, 32, 32, 100, 6144)
		switch r.Intn(4) {
		case 0:
			p.FolderRes = r.Pick(1, 4, 8, 255)
		case 1:
			p.FolderRes, p.DataRes = r.Pick(4, 8), r.Pick(1, 4, 8)
		default:
			p.DataRes = r.Pick(1, 2, 4, 4, 8, 255)
		}
	}
	return p
}

// BuildReal serialises a single well-formed cabinet with stored (uncompressed) folders.
func BuildReal(r *hx.Rng, p RealParams) []byte {
	le16 := func(b *bytes.Buffer, v int) { _ = binary.Write(b, binary.LittleEndian, uint16(v)) }
	le32 := func(b *bytes.Buffer, v int) { _ = binary.Write(b, binary.LittleEndian, uint32(v)) }
	nf := len(p.Blocks)
	// block sizes first, so that the file table can refer to real extents
	sizes := make([][]int, nf)
	totals := make([]int, nf)
	for i, nb := range p.Blocks {
		for k := 0; k < nb; k++ {
			n := r.Pick(1, 2, 7, 16, 33, 100)
			sizes[i] = append(sizes[i], n)
			totals[i] += n
		}
	}
	var files bytes.Buffer
	for i := 0; i < p.Files; i++ {
		fo := r.Intn(nf)
		off := r.Intn(totals[fo])
		le32(&files, 1+r.Intn(totals[fo]-off)) // cbFile
		le32(&files, off)                       // uoffFolderStart
		le16(&files, fo)                        // iFolder
		le16(&files, 0x5021)
		le16(&files, 0x6020)
		le16(&files, 0x20)
		fmt.Fprintf(&files, "f%d.txt", i)
		files.WriteByte(0)
	}
	hdrLen := 36
	if p.Reserve {
		hdrLen += 4 + p.HeaderRes
	}
	coffFiles := hdrLen + nf*(8+p.FolderRes)
	pos := coffFiles + files.Len()
	var folders, data bytes.Buffer
	for i := 0; i < nf; i++ {
		le32(&folders, pos)
		le16(&folders, len(sizes[i]))
		le16(&folders, 0) // tcompTYPE_NONE
		folders.Write(r.Bytes(p.FolderRes))
		for _, n := range sizes[i] {
			le32(&data, int(uint32(r.U64()))) // csum (not verified by relic; readers with csum != 0 would, so the walk only carries it)
			le16(&data, n)
			le16(&data, n)
			data.Write(r.Bytes(p.DataRes))
			data.Write(r.Bytes(n))
			pos += 8 + p.DataRes + n
		}
	}
	var b bytes.Buffer
	le32(&b, int(cabfile.Magic))
	le32(&b, 0)
	le32(&b, pos) // cbCabinet
	le32(&b, 0)
	le32(&b, coffFiles)
	le32(&b, 0)
	le16(&b, 0x0103)
	le16(&b, nf)
	le16(&b, p.Files)
	if p.Reserve {
		le16(&b, 4)
	} else {
		le16(&b, 0)
	}
	le16(&b, int(r.U64()&0xffff)) // setID
	le16(&b, 0)
	if p.Reserve {
		le16(&b, p.HeaderRes)
		b.WriteByte(byte(p.FolderRes))
		b.WriteByte(byte(p.DataRes))
		res := make([]byte, p.HeaderRes)
		if p.SigHeader && p.HeaderRes >= 20 {
			binary.LittleEndian.PutUint32(res[0:], 0x100000)
			binary.LittleEndian.PutUint32(res[4:], uint32(pos))
		}
		b.Write(res)
	}
	b.Write(folders.Bytes())
	b.Write(files.Bytes())
	b.Write(data.Bytes())
	return b.Bytes()
}

// genReal: digest / sign / resign / locate on structured cabinets (unsigned and already carrying a signature)
func genReal(w *bufio.Writer, r *hx.Rng, tier string, prop string) {
	n := 70
	if tier == "thorough" {
		n = 1200
	}
	for i := 0; i < n; i++ {
		p := RandRealParams(r)
		if i < 12 { // every run: the shapes that matter, whatever the seed
			p = RealParams{Reserve: true, HeaderRes: []int{32, 20, 6144, 100}[i%4], FolderRes: []int{0, 4, 4}[i/4], DataRes: []int{4, 0, 8}[i/4],
				Blocks: [][]int{{1}, {2, 1}, {3}}[i%3], Files: 1 + i%2}
		}
		f := BuildReal(r, p)
		if i%5 == 4 { // signed before (only takes effect on cabinets the code accepts)
			f = FakeSigned(f, r.Bytes(r.Pick(8, 15, 100)))
		}
		fmt.Fprintf(w, "CAB digest %s\n", hx.Hex(f))
		fmt.Fprintf(w, "CAB sign %s %s\n", hx.Hex(f), hx.Hex(r.Bytes(r.Pick(1, 8, 9, 64))))
		if prop == "C08" || i%4 == 0 {
			fmt.Fprintf(w, "CAB resign %s %s %s\n", hx.Hex(f), hx.Hex(r.Bytes(r.Pick(1, 8, 20))), hx.Hex(r.Bytes(r.Pick(1, 9, 77))))
		}
		if i%3 == 0 {
			fmt.Fprintf(w, "CAB locate %s\n", hx.Hex(f))
		}
	}
}

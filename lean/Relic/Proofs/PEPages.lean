/- lemmas about the page-hash part of the PE model: what `DigestPE` records for `pageHashInputs`
   (`d.extents`, `d.hdrLen`, `d.m`) in terms of the section table of the file -/
import Relic.Proofs.PE
import Relic.Spec.PageHashes
namespace Relic.PE
open Relic

/-! ### `pageChunks` in closed form -/

theorem pageChunks_zero (ps pos phys : Nat) : pageChunks ps pos phys 0 = [] := by
  rw [pageChunks]; simp

theorem pageChunks_small (ps pos phys rem : Nat) (hps : 0 < ps) (h0 : 0 < rem) (hle : rem ≤ ps) :
    pageChunks ps pos phys rem = [(pos % 2 ^ 32, phys, rem)] := by
  rw [pageChunks]
  have : ¬ rem > ps := by omega
  simp [hps, h0, this, pageChunks_zero]

theorem pageChunks_big (ps pos phys rem : Nat) (hps : 0 < ps) (hgt : ps < rem) :
    pageChunks ps pos phys rem = (pos % 2 ^ 32, phys, ps) :: pageChunks ps (pos + ps) (phys + ps) (rem - ps) := by
  rw [pageChunks]
  have h0 : 0 < rem := by omega
  simp [hps, h0, hgt]

/-- page `k` of an extent -/
def chunkAt (ps pos phys rem k : Nat) : Nat × Nat × Nat :=
  ((pos + k * ps) % 2 ^ 32, phys + k * ps, min ps (rem - k * ps))

theorem range_succ_map {β} (n : Nat) (g : Nat → β) :
    (List.range (n + 1)).map g = g 0 :: (List.range n).map (fun k => g (k + 1)) := by
  rw [List.range_succ_eq_map]
  simp [List.map_map, Function.comp_def]

theorem pageChunks_eq (ps : Nat) (hps : 0 < ps) (rem : Nat) : ∀ pos phys,
    pageChunks ps pos phys rem = (List.range ((rem + ps - 1) / ps)).map (chunkAt ps pos phys rem) := by
  induction rem using Nat.strongRecOn with
  | _ rem ih =>
    intro pos phys
    by_cases h0 : rem = 0
    · subst h0
      have : (0 + ps - 1) / ps = 0 := by
        apply Nat.div_eq_of_lt; omega
      rw [pageChunks_zero, this]; simp
    · by_cases hle : rem ≤ ps
      · have hn : (rem + ps - 1) / ps = 1 := by
          apply Nat.div_eq_of_lt_le <;> omega
        rw [pageChunks_small ps pos phys rem hps (by omega) hle, hn]
        simp [chunkAt, Nat.min_eq_right hle]
      · have hgt : ps < rem := by omega
        have hn : (rem + ps - 1) / ps = (rem - ps + ps - 1) / ps + 1 := by
          have : rem + ps - 1 = (rem - ps + ps - 1) + ps := by omega
          rw [this, Nat.add_div_right _ hps]
        rw [pageChunks_big ps pos phys rem hps hgt, ih (rem - ps) (by omega), hn, range_succ_map]
        congr 1
        · simp [chunkAt]; omega
        · apply List.map_congr_left
          intro k _
          simp only [chunkAt]
          have e1 : pos + ps + k * ps = pos + (k + 1) * ps := by rw [Nat.add_mul]; omega
          have e2 : phys + ps + k * ps = phys + (k + 1) * ps := by rw [Nat.add_mul]; omega
          have e3 : rem - ps - k * ps = rem - (k + 1) * ps := by rw [Nat.add_mul]; omega
          rw [e1, e2, e3]

/-- the label after the last page of a non-empty extent is its end (32-bit) -/
theorem pageChunks_last (ps : Nat) (hps : 0 < ps) (rem : Nat) : ∀ pos phys, 0 < rem →
    ∃ p q n, (pageChunks ps pos phys rem).getLast? = some (p, q, n) ∧ (p + n) % 2 ^ 32 = (pos + rem) % 2 ^ 32 := by
  induction rem using Nat.strongRecOn with
  | _ rem ih =>
    intro pos phys h0
    by_cases hle : rem ≤ ps
    · rw [pageChunks_small ps pos phys rem hps h0 hle]
      refine ⟨_, _, _, rfl, ?_⟩
      omega
    · have hgt : ps < rem := by omega
      rw [pageChunks_big ps pos phys rem hps hgt]
      obtain ⟨p, q, n, hl, hm⟩ := ih (rem - ps) (by omega) (pos + ps) (phys + ps) (by omega)
      refine ⟨p, q, n, ?_, ?_⟩
      · rw [List.getLast?_cons, hl]; rfl
      · rw [hm]; congr 1; omega

/-! ### the section table -/

def toPair (s : Section) : Nat × Nat := (s.ptr, s.size)

theorem rawSections_eq (f : Bytes) (n : Nat) : ∀ tbl,
    (rawSections f tbl n).map toPair =
      (List.range n).map fun i => (u32 f (tbl + 40 * i + 20), u32 f (tbl + 40 * i + 16)) := by
  induction n with
  | zero => intro tbl; simp [rawSections]
  | succ n ih =>
    intro tbl
    rw [range_succ_map]
    simp only [rawSections, List.map_cons, ih]
    have h1 : tbl + 40 * 0 + 20 = tbl + 20 := by omega
    have h2 : tbl + 40 * 0 + 16 = tbl + 16 := by omega
    rw [h1, h2]
    have hm : ∀ i, (u32 f (tbl + 40 + 40 * i + 20), u32 f (tbl + 40 + 40 * i + 16)) =
        (u32 f (tbl + 40 * (i + 1) + 20), u32 f (tbl + 40 * (i + 1) + 16)) := by
      intro i
      have e : tbl + 40 + 40 * i = tbl + 40 * (i + 1) := by omega
      rw [e]
    simp only [hm, toPair]

/-- on a regular table the fix-ups of `readSections` change nothing -/
theorem fixSections_regular (e fa : Nat) (ss : List Section) : ∀ (soh : Nat) (ss' : List Section) (soh' : Nat),
    fixSections e fa ss soh = .ok (ss', soh') →
    Spec.PageHashes.sizesAligned fa (ss.map toPair) = true →
    (∀ s ∈ ss, s.size = 0 ∨ soh ≤ s.ptr) → ss' = ss ∧ soh' = soh := by
  induction ss with
  | nil => intro soh ss' soh' h _ _; simp [fixSections] at h; exact ⟨h.1, h.2.symm⟩
  | cons s rest ih =>
    intro soh ss' soh' h ha hh
    have hrest : Spec.PageHashes.sizesAligned fa (rest.map toPair) = true := by
      cases rest with
      | nil => simp [Spec.PageHashes.sizesAligned]
      | cons t u =>
        simp only [List.map_cons, Spec.PageHashes.sizesAligned, Bool.and_eq_true] at ha
        simpa using ha.2
    have hh' : ∀ t ∈ rest, t.size = 0 ∨ soh ≤ t.ptr := fun t ht => hh t (by simp [ht])
    simp only [fixSections] at h
    split at h
    · split at h <;> try contradiction
      rename_i heq
      injection h with h; injection h with h1 h2; subst h1 h2
      obtain ⟨a, b⟩ := ih _ _ _ heq hrest hh'
      exact ⟨by rw [a], b⟩
    · rename_i hnz
      split at h
      · contradiction
      · have hs : soh ≤ s.ptr := by
          rcases hh s (by simp) with h0 | h0
          · exact absurd h0 hnz
          · exact h0
        have hsoh : (if s.ptr < soh then s.ptr else soh) = soh := by split <;> omega
        rw [hsoh] at h
        split at h
        · rename_i hemp
          injection h with h; injection h with h1 h2; subst h1 h2
          have : rest = [] := by simpa using hemp
          subst this
          exact ⟨rfl, rfl⟩
        · rename_i hne
          have hal : s.size % fa = 0 := by
            cases rest with
            | nil => simp at hne
            | cons t u =>
              simp only [List.map_cons, Spec.PageHashes.sizesAligned, Bool.and_eq_true, Bool.or_eq_true,
                decide_eq_true_eq, toPair] at ha
              rcases ha.1 with h0 | h0
              · exact absurd h0 hnz
              · exact h0
          split at h <;> try contradiction
          rename_i sz hsz
          have hszeq : sz = s.size := by
            unfold align32 at hsz
            split at hsz
            · contradiction
            · simp [hal] at hsz; exact hsz.symm
          split at h <;> try contradiction
          rename_i heq
          injection h with h; injection h with h1 h2; subst h1 h2
          obtain ⟨a, b⟩ := ih _ _ _ heq hrest hh'
          subst hszeq
          exact ⟨by rw [a], b⟩

/-- with the physical and logical positions equal, the extents are the non-empty sections -/
theorem readSectionData_extents (flen : Nat) (ss : List Section) : ∀ (i cur c n : Nat) (ex : List (Nat × Nat × Nat)),
    readSectionData flen ss i cur cur = .ok (c, n, ex) →
    ex = (ss.filter fun s => s.size ≠ 0).map fun s => (s.ptr, s.ptr, s.size) := by
  induction ss with
  | nil => intro i cur c n ex e; simp [readSectionData] at e; simp [e.2.2]
  | cons s rest ih =>
    intro i cur c n ex e
    simp only [readSectionData] at e
    split at e
    · rename_i hz
      rw [ih _ _ _ _ _ e]
      simp [hz]
    · rename_i hnz
      split at e
      · contradiction
      · rename_i hptr
        have hptr : s.ptr = cur := by simpa using hptr
        split at e
        · contradiction
        · split at e
          · rename_i c' n' ex' heq
            injection e with e; injection e with e1 e2; injection e2 with e2 e3
            subst e3
            rw [ih _ _ _ _ _ heq]
            simp [hnz, hptr]
          · rename_i hno
            exact absurd e (hno _ _ _)

/-! ### what `readHeaders` and `DigestPE` record for the page hashes -/

/-- the section list and `sizeOfHdr` of `readHeaders` are the fixed-up raw table -/
structure HeadersSec (f : Bytes) (h : Headers) : Prop where
  fix : fixSections (u32 f 0x3c + 24 + u16 f (u32 f 0x3c + 20) + u16 f (u32 f 0x3c + 6) * 40) (u32 f (u32 f 0x3c + 60))
          (rawSections f (u32 f 0x3c + 24 + u16 f (u32 f 0x3c + 20)) (u16 f (u32 f 0x3c + 6))) (u32 f (u32 f 0x3c + 84))
          = .ok (h.sections, h.m.sizeOfHdr)
  page : h.m.pageSize = if u16 f (u32 f 0x3c + 4) = 0x200 ∨ u16 f (u32 f 0x3c + 4) = 0x184 ∨ u16 f (u32 f 0x3c + 4) = 0x284
          then 8192 else 4096

theorem readHeaders_sections (f : Bytes) (h : Headers) (hp : 64 ≤ u32 f 0x3c) (e : readHeaders f = .ok h) :
    HeadersSec f h := by
  unfold readHeaders at e
  simp only [hp, if_true] at e
  generalize hP : u32 f 60 = P at e hp
  generalize hS : u16 f (P + 20) = S at e
  generalize hN : u16 f (P + 6) = N at e
  by_cases c1 : f.length < 64
  · simp [c1] at e
  rw [if_neg c1] at e
  by_cases c2 : seg f 0 2 ≠ [77, 90]
  · simp [c2] at e
  rw [if_neg c2] at e
  by_cases c3 : f.length < P
  · simp [c3] at e
  rw [if_neg c3] at e
  by_cases c4 : f.length < P + 4
  · simp [c4] at e
  rw [if_neg c4] at e
  by_cases c5 : seg f P (P + 4) ≠ [80, 69, 0, 0]
  · simp [c5] at e
  rw [if_neg c5] at e
  by_cases c6 : f.length < P + 24
  · simp [c6] at e
  rw [if_neg c6] at e
  by_cases c7 : f.length < P + 24 + S
  · simp [c7] at e
  rw [if_neg c7] at e
  by_cases c8 : S < 2
  · simp [c8] at e
  rw [if_neg c8] at e
  have key : ∀ need nrva dd4 : Nat,
      (if S < need then (Res.err "eof" : Res Headers)
       else if u32 f (P + 24 + nrva) < 5 then Res.err "noroom"
       else if u32 f (P + 24 + 60) < P + 24 + S + N * 40 then Res.err "secoverlap"
       else if f.length < P + 24 + S + N * 40 then Res.err "eof"
       else match fixSections (P + 24 + S + N * 40) (u32 f (P + 24 + 36)) (rawSections f (P + 24 + S) N) (u32 f (P + 24 + 60)) with
        | Res.err e => Res.err e
        | Res.panic p => Res.panic p
        | Res.diverge => Res.diverge
        | Res.ok (sections, sizeOfHdr) =>
          if f.length < P + 24 + S + N * 40 + (sizeOfHdr - (P + 24 + S + N * 40)) then Res.err "eof"
          else Res.ok
            { m := { peStart := P, hdrOff := P, soh := S, dd4Start := dd4, posDDCert := P + 24 + dd4,
                     secTblStart := P + 24 + S, sizeOfHdr := sizeOfHdr,
                     pageSize := if u16 f (P + 4) = 512 ∨ u16 f (P + 4) = 388 ∨ u16 f (P + 4) = 644 then 8192 else 4096,
                     fileAlign := u32 f (P + 24 + 36), certStart := u32 f (P + 24 + dd4),
                     certSize := u32 f (P + 24 + dd4 + 4), nsec := N },
              sections := sections,
              hashed := seg f 0 (P + 24 + 64) ++ seg f (P + 24 + 68) (P + 24 + dd4) ++
                seg f (P + 24 + dd4 + 8) (P + 24 + S + N * 40 + (sizeOfHdr - (P + 24 + S + N * 40))),
              cur := P + 24 + S + N * 40 + (sizeOfHdr - (P + 24 + S + N * 40)) }) = Res.ok h →
      HeadersSec f h := by
    intro need nrva dd4 e
    by_cases d1 : S < need
    · simp [d1] at e
    rw [if_neg d1] at e
    by_cases d2 : u32 f (P + 24 + nrva) < 5
    · simp [d2] at e
    rw [if_neg d2] at e
    by_cases d3 : u32 f (P + 24 + 60) < P + 24 + S + N * 40
    · simp [d3] at e
    rw [if_neg d3] at e
    by_cases d4 : f.length < P + 24 + S + N * 40
    · simp [d4] at e
    rw [if_neg d4] at e
    cases hfix : fixSections (P + 24 + S + N * 40) (u32 f (P + 24 + 36)) (rawSections f (P + 24 + S) N) (u32 f (P + 24 + 60)) with
    | err _ => simp [hfix] at e
    | panic _ => simp [hfix] at e
    | diverge => simp [hfix] at e
    | ok v =>
      obtain ⟨sections, soh'⟩ := v
      simp only [hfix] at e
      by_cases d5 : f.length < P + 24 + S + N * 40 + (soh' - (P + 24 + S + N * 40))
      · simp [d5] at e
      rw [if_neg d5] at e
      injection e with e
      subst e
      have a1 : P + 60 = P + 24 + 36 := by omega
      have a2 : P + 84 = P + 24 + 60 := by omega
      constructor
      · simp only [hP, hS, hN, a1, a2]; exact hfix
      · simp only [hP]
  by_cases m1 : u16 f (P + 24) = 267
  · simp only [m1, if_true] at e
    exact key 224 92 128 e
  · by_cases m2 : u16 f (P + 24) = 523
    · rw [if_neg m1, if_pos m2] at e
      exact key 240 108 144 e
    · simp [m1, m2] at e

/-- what `DigestPE` hands to `pageHashInputs` -/
structure DigestPages (f : Bytes) (d : Digest) (h : Headers) : Prop where
  hdrs : readHeaders f = .ok h
  m : d.m = h.m
  hdrLen : d.hdrLen = h.hashed.length
  prefix_ : d.hashed.take d.hdrLen = h.hashed
  extents : d.extents = (h.sections.filter fun s => s.size ≠ 0).map fun s => (s.ptr, s.ptr, s.size)

theorem DigestPE_pages (f : Bytes) (d : Digest) (hp : 64 ≤ u32 f 0x3c) (e : DigestPE f = .ok d) :
    ∃ h, DigestPages f d h := by
  unfold DigestPE at e
  cases hh : readHeaders f with
  | err _ => simp [hh] at e
  | panic _ => simp [hh] at e
  | diverge => simp [hh] at e
  | ok h =>
    refine ⟨h, ?_⟩
    have H := readHeaders_spec f h hp hh
    simp only [hh] at e
    generalize gapOf h.sections h.m.sizeOfHdr = gap at e
    by_cases g1 : f.length < h.cur + gap
    · simp [g1] at e
    rw [if_neg g1] at e
    have hnext : (if gap = 0 then h.m.sizeOfHdr else h.m.sizeOfHdr + gap) = h.cur + gap := by
      rw [H.cur]; split <;> omega
    rw [hnext] at e
    cases hs : readSectionData f.length h.sections 0 (h.cur + gap) (h.cur + gap) with
    | err _ => simp [hs] at e
    | panic _ => simp [hs] at e
    | diverge => simp [hs] at e
    | ok v =>
      obtain ⟨cur2, next2, extents⟩ := v
      simp only [hs] at e
      have hex := readSectionData_extents _ _ _ _ _ _ _ hs
      have fin : ∀ (orig c3 : Nat),
          (Res.ok { hashed := h.hashed ++ seg f h.cur c3 ++ List.replicate (if orig % 8 = 0 then 0 else 8 - orig % 8) 0,
                    origSize := orig, certStart := orig + (if orig % 8 = 0 then 0 else 8 - orig % 8), m := h.m,
                    extents := extents, hdrLen := h.hashed.length } : Res Digest) = Res.ok d → DigestPages f d h := by
        intro orig c3 e
        injection e with e
        subst e
        refine ⟨hh, rfl, rfl, ?_, hex⟩
        simp only [List.append_assoc, List.take_left']
      by_cases t1 : h.m.certSize = 0
      · rw [if_pos t1] at e
        exact fin _ _ e
      · rw [if_neg t1] at e
        by_cases t2 : h.m.certStart < next2
        · simp [t2] at e
        rw [if_neg t2] at e
        by_cases t3 : f.length < cur2 + (h.m.certStart - next2)
        · simp [t3] at e
        rw [if_neg t3] at e
        by_cases t4 : f.length < cur2 + (h.m.certStart - next2) + h.m.certSize
        · simp [t4] at e
        rw [if_neg t4] at e
        by_cases t5 : cur2 + (h.m.certStart - next2) + h.m.certSize < f.length
        · simp [t5] at e
        rw [if_neg t5] at e
        exact fin _ _ e

/-! ### the page-hash table in closed form -/

/-- the extents `DigestPE` records when physical = logical position -/
def extOf (ss : List Section) : List (Nat × Nat × Nat) :=
  (ss.filter fun s => s.size ≠ 0).map fun s => (s.ptr, s.ptr, s.size)

def mChunks (ps : Nat) (ex : List (Nat × Nat × Nat)) : List (Nat × Nat × Nat) :=
  ex.flatMap fun (ptr, phys, size) => pageChunks ps ptr phys size

def mPage (ps : Nat) (f : Bytes) : Nat × Nat × Nat → Nat × Bytes :=
  fun (pos, phys, n) => (pos, seg f phys (phys + n) ++ List.replicate (ps - n) 0)

def mLast (chunks : List (Nat × Nat × Nat)) : Nat :=
  match chunks.getLast? with
  | some (pos, _, n) => (pos + n) % 2 ^ 32
  | none => 0

theorem section_pages_eq (ps : Nat) (hps : 0 < ps) (f : Bytes) (ptr size : Nat) :
    (pageChunks ps ptr ptr size).map (mPage ps f) = Spec.PageHashes.sectionPages ps f ptr size := by
  rw [pageChunks_eq ps hps, List.map_map]
  unfold Spec.PageHashes.sectionPages
  apply List.map_congr_left
  intro k _
  simp [mPage, chunkAt]

theorem extOf_cons_zero (s : Section) (rest : List Section) (hz : s.size = 0) : extOf (s :: rest) = extOf rest := by
  simp [extOf, hz]

theorem extOf_cons_nz (s : Section) (rest : List Section) (hz : s.size ≠ 0) :
    extOf (s :: rest) = (s.ptr, s.ptr, s.size) :: extOf rest := by
  simp [extOf, hz]

theorem mChunks_cons (ps a b c : Nat) (ex : List (Nat × Nat × Nat)) :
    mChunks ps ((a, b, c) :: ex) = pageChunks ps a b c ++ mChunks ps ex := by
  simp [mChunks]

theorem specSecs_cons_zero (s : Section) (rest : List Section) (hz : s.size = 0) :
    ((s :: rest).map toPair).filter (fun s => s.2 ≠ 0) = (rest.map toPair).filter (fun s => s.2 ≠ 0) := by
  simp [toPair, hz]

theorem specSecs_cons_nz (s : Section) (rest : List Section) (hz : s.size ≠ 0) :
    ((s :: rest).map toPair).filter (fun s => s.2 ≠ 0) = (s.ptr, s.size) :: (rest.map toPair).filter (fun s => s.2 ≠ 0) := by
  simp [toPair, hz]

theorem pages_eq (ps : Nat) (hps : 0 < ps) (f : Bytes) (ss : List Section) :
    (mChunks ps (extOf ss)).map (mPage ps f) =
      ((ss.map toPair).filter fun s => s.2 ≠ 0).flatMap fun s => Spec.PageHashes.sectionPages ps f s.1 s.2 := by
  induction ss with
  | nil => simp [extOf, mChunks]
  | cons s rest ih =>
    by_cases hz : s.size = 0
    · rw [extOf_cons_zero s rest hz, specSecs_cons_zero s rest hz]; exact ih
    · rw [extOf_cons_nz s rest hz, specSecs_cons_nz s rest hz, mChunks_cons, List.map_append, ih,
        section_pages_eq ps hps, List.flatMap_cons]

theorem mLast_append (pre a : List (Nat × Nat × Nat)) (p q n : Nat) (h : a.getLast? = some (p, q, n)) :
    mLast (pre ++ a) = (p + n) % 2 ^ 32 := by
  unfold mLast
  rw [List.getLast?_append, h]
  rfl

theorem last_eq (ps : Nat) (hps : 0 < ps) (ss : List Section) : ∀ pre,
    mLast (pre ++ mChunks ps (extOf ss)) =
      ((ss.map toPair).filter fun s => s.2 ≠ 0).foldl (fun _ s => (s.1 + s.2) % 2 ^ 32) (mLast pre) := by
  induction ss with
  | nil => intro pre; simp [extOf, mChunks]
  | cons s rest ih =>
    intro pre
    by_cases hz : s.size = 0
    · rw [extOf_cons_zero s rest hz, specSecs_cons_zero s rest hz]; exact ih pre
    · rw [extOf_cons_nz s rest hz, specSecs_cons_nz s rest hz, mChunks_cons, ← List.append_assoc, ih,
        List.foldl_cons]
      obtain ⟨p, q, n, hl, hm⟩ := pageChunks_last ps hps s.size s.ptr s.ptr (by omega)
      rw [mLast_append pre _ p q n hl, hm]

theorem mLast_nil : mLast [] = 0 := rfl

end Relic.PE

// Package c18: generator and implementation runner for property C18
// (lib/comdoc writer, lib/redblack, MSI digest tar-vs-direct).
//
// The package owns a small compound-file *writer* (independent of relic's) that produces valid
// inputs with the shapes the property quantifies over; the implementation runner applies
// histories of AddFile / DeleteFile / InsertMSISignature + Close with the REAL relic code to a
// temp copy and prints the resulting file bytes.  Validity of input and output is decided by the
// Lean predicate Relic.Spec.Cfb.validate in the native driver, not here.
package c18

import (
	"bufio"
	"bytes"
	"crypto"
	_ "crypto/sha256"
	"encoding/binary"
	"fmt"
	"io"
	"os"
	"path/filepath"
	"sort"
	"strings"
	"unicode/utf16"

	"github.com/sassoftware/relic/v8/lib/authenticode"
	"github.com/sassoftware/relic/v8/lib/comdoc"
	"github.com/sassoftware/relic/v8/lib/redblack"

	"verifharness/hx"
)

const (
	freeSect   = 0xFFFFFFFF
	endOfChain = 0xFFFFFFFE
	fatSect    = 0xFFFFFFFD
	difSect    = 0xFFFFFFFC
	noStream   = 0xFFFFFFFF
)

const (
	sigName   = "\x05DigitalSignature"
	sigExName = "\x05MsiDigitalSignatureEx"
)

// ---------------------------------------------------------------------------------------------
// the harness' own CFB writer

type ent struct {
	name         []uint16
	data         []byte
	storage      bool
	kids         []*ent
	clsid        [16]byte
	state        uint32
	ctime, mtime uint64
	idx          int
	start        uint32
	left, right  uint32
	child        uint32
	color        byte
	// malformed name fields for the MSI digest ops (msi.go): garbage after the terminator, NameLength field override
	pad        []uint16
	nlOverride int // 0 = none; otherwise the value written to NameLength (use 0x10000 for 0)
}

type cfg struct {
	shift     int
	root      *ent
	gaps      int  // free big sectors scattered among the used ones
	miniGaps  int  // free mini sectors scattered among the used ones
	scatter   bool // random sector placement instead of sequential
	extraFat  int  // FAT sectors beyond the minimum (>= 110 in total forces a DIFAT sector)
	emptyDir  int  // empty directory slots interspersed
	trailFree int  // free entries are always present beyond EOF when the FAT has room
}

func units(s string) []uint16 { return utf16.Encode([]rune(s)) }

func upperASCII(u uint16) uint16 {
	if u >= 'a' && u <= 'z' {
		return u - 32
	}
	return u
}

// [MS-CFB] 2.6.4 order for the names this generator produces (only ASCII letters have case)
func cfbLess(a, b []uint16) bool {
	if len(a) != len(b) {
		return len(a) < len(b)
	}
	for i := range a {
		x, y := upperASCII(a[i]), upperASCII(b[i])
		if x != y {
			return x < y
		}
	}
	return false
}

func upperKey(a []uint16) string {
	var sb strings.Builder
	for _, u := range a {
		fmt.Fprintf(&sb, "%04x", upperASCII(u))
	}
	return sb.String()
}

// balanced tree over sorted siblings; deepest (incomplete) level red
func buildTree(sorted []*ent, depth int, redDepth int) uint32 {
	if len(sorted) == 0 {
		return noStream
	}
	m := len(sorted) / 2
	e := sorted[m]
	e.left = buildTree(sorted[:m], depth+1, redDepth)
	e.right = buildTree(sorted[m+1:], depth+1, redDepth)
	e.color = 1
	if depth == redDepth {
		e.color = 0
	}
	return uint32(e.idx)
}

func treeDepth(n int) int { // depth (0-based) of the deepest level of the median-split tree
	d := -1
	for n > 0 {
		d++
		n /= 2
	}
	return d
}

func isPerfect(n int) bool { return (n+1)&n == 0 }

func ceilDiv(a, b int) int { return (a + b - 1) / b }

func build(c *cfg, r *hx.Rng) []byte {
	ss := 1 << c.shift
	per := ss / 128
	perFat := ss / 4
	// 1. flatten and place directory entries
	var all []*ent
	var walk func(e *ent)
	walk = func(e *ent) {
		for _, k := range e.kids {
			all = append(all, k)
			if k.storage {
				walk(k)
			}
		}
	}
	walk(c.root)
	nslots := 1 + len(all) + c.emptyDir
	nslots = ceilDiv(nslots, per) * per
	perm := make([]int, nslots-1)
	for i := range perm {
		perm[i] = i + 1
	}
	for i := len(perm) - 1; i > 0; i-- {
		j := r.Intn(i + 1)
		perm[i], perm[j] = perm[j], perm[i]
	}
	if c.emptyDir == 0 { // keep used entries dense so that "exactly full" really has no hole
		sort.Ints(perm[:len(all)])
	}
	c.root.idx = 0
	slots := make([]*ent, nslots)
	slots[0] = c.root
	for i, e := range all {
		e.idx = perm[i]
		slots[e.idx] = e
	}
	// 2. sibling trees
	var mk func(e *ent)
	mk = func(e *ent) {
		ks := append([]*ent{}, e.kids...)
		sort.Slice(ks, func(i, j int) bool { return cfbLess(ks[i].name, ks[j].name) })
		rd := -1
		if !isPerfect(len(ks)) {
			rd = treeDepth(len(ks))
		}
		e.child = buildTree(ks, 0, rd)
		for _, k := range ks {
			if k.storage {
				mk(k)
			} else {
				k.child = noStream
			}
		}
	}
	mk(c.root)
	c.root.left, c.root.right, c.root.color = noStream, noStream, 1
	// 3. mini streams
	var miniOwners []*ent // one element per mini sector slot, nil = free
	for _, e := range all {
		if !e.storage && len(e.data) > 0 && len(e.data) < 4096 {
			for i := 0; i < ceilDiv(len(e.data), 64); i++ {
				miniOwners = append(miniOwners, e)
			}
		}
	}
	if len(miniOwners) > 0 {
		for i := 0; i < c.miniGaps; i++ {
			miniOwners = append(miniOwners, nil)
		}
		if c.scatter || c.miniGaps > 0 {
			for i := len(miniOwners) - 1; i > 0; i-- {
				j := r.Intn(i + 1)
				miniOwners[i], miniOwners[j] = miniOwners[j], miniOwners[i]
			}
			// the container ends with a used mini sector
			for i := len(miniOwners) - 1; i >= 0; i-- {
				if miniOwners[i] != nil {
					miniOwners[i], miniOwners[len(miniOwners)-1] = miniOwners[len(miniOwners)-1], miniOwners[i]
					break
				}
			}
		}
	}
	nMini := len(miniOwners)
	miniFat := make([]uint32, ceilDiv(nMini, perFat)*perFat)
	for i := range miniFat {
		miniFat[i] = freeSect
	}
	container := make([]byte, ceilDiv(nMini*64, ss)*ss)
	for i := range container {
		container[i] = 0xEE
	}
	last := map[*ent]int{}
	pos := map[*ent]int{}
	for i, e := range miniOwners {
		if e == nil {
			continue
		}
		if p, ok := last[e]; ok {
			miniFat[p] = uint32(i)
		} else {
			e.start = uint32(i)
		}
		last[e] = i
		miniFat[i] = endOfChain
		off := pos[e]
		n := copy(container[i*64:i*64+64], e.data[off:])
		for k := n; k < 64; k++ {
			container[i*64+k] = 0
		}
		pos[e] = off + 64
	}
	// 4. owners of big sectors
	type owner struct {
		kind string // dir minifat mini stream fat difat free
		e    *ent
		seq  int
	}
	var owners []owner
	nDir := nslots / per
	for i := 0; i < nDir; i++ {
		owners = append(owners, owner{"dir", nil, i})
	}
	nMF := len(miniFat) / perFat
	for i := 0; i < nMF; i++ {
		owners = append(owners, owner{"minifat", nil, i})
	}
	nCont := len(container) / ss
	for i := 0; i < nCont; i++ {
		owners = append(owners, owner{"mini", nil, i})
	}
	for _, e := range all {
		if !e.storage && len(e.data) >= 4096 {
			for i := 0; i < ceilDiv(len(e.data), ss); i++ {
				owners = append(owners, owner{"stream", e, i})
			}
		}
	}
	for i := 0; i < c.gaps; i++ {
		owners = append(owners, owner{"free", nil, i})
	}
	base := len(owners)
	nFat, nDif := 1, 0
	for {
		nDif = 0
		if nFat > 109 {
			nDif = ceilDiv(nFat-109, perFat-1)
		}
		if base+nFat+nDif <= nFat*perFat {
			break
		}
		nFat++
	}
	nFat += c.extraFat
	if nFat > 109 {
		nDif = ceilDiv(nFat-109, perFat-1)
	} else {
		nDif = 0
	}
	for i := 0; i < nFat; i++ {
		owners = append(owners, owner{"fat", nil, i})
	}
	for i := 0; i < nDif; i++ {
		owners = append(owners, owner{"difat", nil, i})
	}
	if c.scatter {
		for i := len(owners) - 1; i > 0; i-- {
			j := r.Intn(i + 1)
			owners[i], owners[j] = owners[j], owners[i]
		}
	}
	// keep chain order ascending in seq within one chain? no: chains may run backwards (valid)
	// the last sector of the file must be in use
	for i := len(owners) - 1; i >= 0; i-- {
		if owners[i].kind != "free" {
			owners[i], owners[len(owners)-1] = owners[len(owners)-1], owners[i]
			break
		}
	}
	n := len(owners)
	fat := make([]uint32, nFat*perFat)
	for i := range fat {
		fat[i] = freeSect
	}
	// chains: collect sector of each (kind, e, seq)
	type key struct {
		kind string
		e    *ent
	}
	chains := map[key][]int{}
	for s, o := range owners {
		if o.kind == "free" {
			continue
		}
		k := key{o.kind, o.e}
		ch := chains[k]
		for len(ch) <= o.seq {
			ch = append(ch, -1)
		}
		ch[o.seq] = s
		chains[k] = ch
	}
	link := func(ch []int) uint32 {
		if len(ch) == 0 {
			return endOfChain
		}
		for i, s := range ch {
			if i+1 < len(ch) {
				fat[s] = uint32(ch[i+1])
			} else {
				fat[s] = endOfChain
			}
		}
		return uint32(ch[0])
	}
	firstDir := link(chains[key{"dir", nil}])
	firstMF := link(chains[key{"minifat", nil}])
	c.root.start = link(chains[key{"mini", nil}])
	rootSize := nMini * 64
	for _, e := range all {
		if e.storage {
			e.start = 0
			continue
		}
		if len(e.data) >= 4096 {
			e.start = link(chains[key{"stream", e}])
		} else if len(e.data) == 0 {
			e.start = endOfChain
		}
	}
	for _, s := range chains[key{"fat", nil}] {
		fat[s] = fatSect
	}
	for _, s := range chains[key{"difat", nil}] {
		fat[s] = difSect
	}
	// 5. emit
	out := make([]byte, (n+1)*ss)
	for i := range out[ss:] {
		out[ss+i] = 0xEE
	}
	le := binary.LittleEndian
	h := out[:512]
	copy(h, []byte{0xd0, 0xcf, 0x11, 0xe0, 0xa1, 0xb1, 0x1a, 0xe1})
	le.PutUint16(h[24:], 0x3e)
	if c.shift == 9 {
		le.PutUint16(h[26:], 3)
	} else {
		le.PutUint16(h[26:], 4)
	}
	le.PutUint16(h[28:], 0xfffe)
	le.PutUint16(h[30:], uint16(c.shift))
	le.PutUint16(h[32:], 6)
	if c.shift == 12 {
		le.PutUint32(h[40:], uint32(nDir))
	}
	le.PutUint32(h[44:], uint32(nFat))
	le.PutUint32(h[48:], firstDir)
	le.PutUint32(h[56:], 4096)
	le.PutUint32(h[60:], firstMF)
	le.PutUint32(h[64:], uint32(nMF))
	difCh := chains[key{"difat", nil}]
	if len(difCh) > 0 {
		le.PutUint32(h[68:], uint32(difCh[0]))
	} else {
		le.PutUint32(h[68:], endOfChain)
	}
	le.PutUint32(h[72:], uint32(nDif))
	fatCh := chains[key{"fat", nil}]
	for i := 0; i < 109; i++ {
		v := uint32(freeSect)
		if i < len(fatCh) {
			v = uint32(fatCh[i])
		}
		le.PutUint32(h[76+4*i:], v)
	}
	sec := func(s int) []byte { return out[(s+1)*ss : (s+2)*ss] }
	for i, s := range difCh {
		b := sec(s)
		for k := 0; k < perFat-1; k++ {
			j := 109 + i*(perFat-1) + k
			v := uint32(freeSect)
			if j < len(fatCh) {
				v = uint32(fatCh[j])
			}
			le.PutUint32(b[4*k:], v)
		}
		nx := uint32(endOfChain)
		if i+1 < len(difCh) {
			nx = uint32(difCh[i+1])
		}
		le.PutUint32(b[4*(perFat-1):], nx)
	}
	for i, s := range fatCh {
		b := sec(s)
		for k := 0; k < perFat; k++ {
			le.PutUint32(b[4*k:], fat[i*perFat+k])
		}
	}
	for i, s := range chains[key{"minifat", nil}] {
		b := sec(s)
		for k := 0; k < perFat; k++ {
			le.PutUint32(b[4*k:], miniFat[i*perFat+k])
		}
	}
	for i, s := range chains[key{"mini", nil}] {
		copy(sec(s), container[i*ss:(i+1)*ss])
	}
	for _, e := range all {
		if !e.storage && len(e.data) >= 4096 {
			for i, s := range chains[key{"stream", e}] {
				b := sec(s)
				nn := copy(b, e.data[i*ss:])
				for k := nn; k < ss; k++ {
					b[k] = 0
				}
			}
		}
	}
	for i, s := range chains[key{"dir", nil}] {
		b := sec(s)
		for k := 0; k < per; k++ {
			d := b[128*k : 128*k+128]
			for x := range d {
				d[x] = 0
			}
			e := slots[i*per+k]
			if e == nil {
				le.PutUint32(d[68:], noStream)
				le.PutUint32(d[72:], noStream)
				le.PutUint32(d[76:], noStream)
				continue
			}
			for x, u := range e.name {
				le.PutUint16(d[2*x:], u)
			}
			for x, u := range e.pad {
				if len(e.name)+1+x < 32 {
					le.PutUint16(d[2*(len(e.name)+1+x):], u)
				}
			}
			le.PutUint16(d[64:], uint16(2*(len(e.name)+1)))
			if e.nlOverride != 0 {
				le.PutUint16(d[64:], uint16(e.nlOverride))
			}
			switch {
			case e == c.root:
				d[66] = 5
			case e.storage:
				d[66] = 1
			default:
				d[66] = 2
			}
			d[67] = e.color
			le.PutUint32(d[68:], e.left)
			le.PutUint32(d[72:], e.right)
			le.PutUint32(d[76:], e.child)
			copy(d[80:96], e.clsid[:])
			le.PutUint32(d[96:], e.state)
			le.PutUint64(d[100:], e.ctime)
			le.PutUint64(d[108:], e.mtime)
			le.PutUint32(d[116:], e.start)
			if e == c.root {
				le.PutUint32(d[120:], uint32(rootSize))
			} else if !e.storage {
				le.PutUint32(d[120:], uint32(len(e.data)))
			}
		}
	}
	return out
}

// ---------------------------------------------------------------------------------------------
// generator

func msiName(r *hx.Rng, n int) []uint16 {
	u := make([]uint16, n)
	for i := range u {
		u[i] = uint16(0x3800 + r.Intn(0x1041))
	}
	return u
}

var streamSizes = []int{0, 1, 63, 64, 65, 500, 1000, 4095, 4096, 4097, 5000, 8192, 9000}
var sigSizes = []int{1, 63, 64, 65, 700, 2000, 4095, 4096, 4097, 5000, 9000}
var exSizes = []int{0, 20, 32, 64}

type fileSpec struct {
	tag  string
	data []byte
}

func genFile(r *hx.Rng, shift int, variant string, budget int) fileSpec {
	c := &cfg{shift: shift, root: &ent{name: units("Root Entry"), storage: true}}
	copy(c.root.clsid[:], r.Bytes(16))
	c.root.mtime = r.U64()
	seen := map[string]bool{}
	addStream := func(parent *ent, name []uint16, size int) *ent {
		k := fmt.Sprintf("%p/%s", parent, upperKey(name))
		if seen[k] {
			return nil
		}
		seen[k] = true
		e := &ent{name: name, data: r.Bytes(size)}
		if r.Intn(4) == 0 {
			e.state = uint32(r.U64())
		}
		parent.kids = append(parent.kids, e)
		return e
	}
	mini := !strings.Contains(variant, "nomini")
	pickSize := func() int {
		for {
			s := streamSizes[r.Intn(len(streamSizes))]
			if !mini && s > 0 && s < 4096 {
				continue
			}
			if s > budget {
				continue
			}
			return s
		}
	}
	per := (1 << shift) / 128
	nroot := 1 + r.Intn(6)
	if strings.Contains(variant, "dirfull") {
		nroot = per - 1 + per*r.Intn(2) // root + nroot fills the directory sectors exactly
		if nroot > 12 {
			nroot = per - 1
		}
	}
	if strings.Contains(variant, "mixedcase") && nroot < 5 {
		nroot = 5
	}
	total := 0
	for i := 0; i < nroot; i++ {
		var nm []uint16
		switch {
		case i == 0 && r.Intn(2) == 0:
			nm = units("\x05SummaryInformation")
		case strings.Contains(variant, "mixedcase") && i >= 1 && i < 5:
			nm = units([]string{"Abcd", "aBCE", "abcF", "ABCg"}[i-1])
		default:
			nm = msiName(r, 1+r.Intn(12))
		}
		sz := pickSize()
		if strings.Contains(variant, "dirfull") && nroot > 8 {
			sz = []int{0, 1, 64, 65}[r.Intn(4)]
			if !mini {
				sz = 0
			}
		}
		if total+sz > budget {
			sz = 0
			if mini {
				sz = 1 + r.Intn(100)
			}
		}
		total += sz
		addStream(c.root, nm, sz)
	}
	if strings.Contains(variant, "zero") {
		addStream(c.root, units("Zero"), 0)
	}
	if strings.Contains(variant, "nested") {
		st := &ent{name: msiName(r, 3), storage: true}
		copy(st.clsid[:], r.Bytes(16))
		st.ctime, st.mtime = r.U64(), r.U64()
		c.root.kids = append(c.root.kids, st)
		for i := 0; i < 1+r.Intn(4); i++ {
			sz := []int{0, 10, 64, 200}[r.Intn(4)]
			if !mini {
				sz = 0
			}
			addStream(st, msiName(r, 1+r.Intn(6)), sz)
		}
		if r.Bool() {
			st2 := &ent{name: units("Sub"), storage: true}
			st.kids = append(st.kids, st2)
			sz := 70
			if !mini {
				sz = 0
			}
			addStream(st2, units("leaf"), sz)
		}
	}
	if strings.Contains(variant, "embedded") {
		// an embedded signed package: a sub-storage holding streams named like the two signature streams (AddFile /
		// DeleteFile work on the root storage only; the digests take nested entries of these names for content)
		st := &ent{name: units("Inner.msi"), storage: true}
		copy(st.clsid[:], r.Bytes(16))
		st.ctime, st.mtime = r.U64(), r.U64()
		c.root.kids = append(c.root.kids, st)
		sz := []int{1, 63, 700, 4096, 4500}[r.Intn(5)]
		ex := 32
		if !mini {
			sz, ex = 4096+r.Intn(500), 0
		}
		addStream(st, units(sigName), sz)
		addStream(st, units(sigExName), ex)
		other := []int{0, 10, 64}[r.Intn(3)]
		if !mini {
			other = 0
		}
		addStream(st, msiName(r, 1+r.Intn(6)), other)
		if r.Bool() {
			st2 := &ent{name: units("Patch"), storage: true}
			copy(st2.clsid[:], r.Bytes(16))
			st.kids = append(st.kids, st2)
			inner := 70
			if !mini {
				inner = 0
			}
			addStream(st2, units([]string{sigName, "\x05digitalsignature", "\x05DIGITALSIGNATURE"}[r.Intn(3)]), inner)
			addStream(st2, units("leaf"), 0)
		}
	}
	if strings.Contains(variant, "emptystorage") {
		st := &ent{name: units("Void"), storage: true}
		copy(st.clsid[:], r.Bytes(16))
		c.root.kids = append(c.root.kids, st)
	}
	if strings.Contains(variant, "presigned") {
		sz := sigSizes[r.Intn(len(sigSizes))]
		if !mini && sz < 4096 {
			sz = 4096 + r.Intn(300)
		}
		if sz > 6000 {
			sz = 5000
		}
		addStream(c.root, units(sigName), sz)
		if r.Bool() && mini {
			addStream(c.root, units(sigExName), 32)
		}
	}
	if strings.Contains(variant, "gaps") {
		c.gaps = 1 + r.Intn(4)
		c.miniGaps = r.Intn(5)
		c.scatter = true
	}
	if strings.Contains(variant, "scatter") {
		c.scatter = true
	}
	if strings.Contains(variant, "emptydir") {
		c.emptyDir = 1 + r.Intn(per)
	}
	if strings.Contains(variant, "difat") {
		c.extraFat = 110 + r.Intn(3)
	}
	if strings.Contains(variant, "fatroom") {
		c.extraFat = 1
	}
	return fileSpec{variant, build(c, r)}
}

type step struct {
	kind   string // a d g
	name   []uint16
	n1, n2 int
	salt   uint64
}

func nameHex(u []uint16) string {
	b := make([]byte, 2*len(u))
	for i, x := range u {
		binary.LittleEndian.PutUint16(b[2*i:], x)
	}
	return hx.Hex(b)
}

func unNameHex(s string) []uint16 {
	b := hx.MustUnHex(s)
	u := make([]uint16, len(b)/2)
	for i := range u {
		u[i] = binary.LittleEndian.Uint16(b[2*i:])
	}
	return u
}

func fmtHistory(sessions [][]step) string {
	var sb strings.Builder
	fmt.Fprintf(&sb, "%d", len(sessions))
	for _, s := range sessions {
		fmt.Fprintf(&sb, " s %d", len(s))
		for _, st := range s {
			switch st.kind {
			case "a":
				fmt.Fprintf(&sb, " a %s %d %d", nameHex(st.name), st.n1, st.salt)
			case "d":
				fmt.Fprintf(&sb, " d %s", nameHex(st.name))
			case "g":
				fmt.Fprintf(&sb, " g %d %d %d", st.n1, st.n2, st.salt)
			}
		}
	}
	return sb.String()
}

func parseHistory(f []string) [][]step {
	n := int(hx.Atoi(f[0]))
	i := 1
	var out [][]step
	for s := 0; s < n; s++ {
		if f[i] != "s" {
			panic("bad history")
		}
		k := int(hx.Atoi(f[i+1]))
		i += 2
		var ss []step
		for j := 0; j < k; j++ {
			switch f[i] {
			case "a":
				ss = append(ss, step{kind: "a", name: unNameHex(f[i+1]), n1: int(hx.Atoi(f[i+2])), salt: uint64(hx.Atoi(f[i+3]))})
				i += 4
			case "d":
				ss = append(ss, step{kind: "d", name: unNameHex(f[i+1])})
				i += 2
			case "g":
				ss = append(ss, step{kind: "g", n1: int(hx.Atoi(f[i+1])), n2: int(hx.Atoi(f[i+2])), salt: uint64(hx.Atoi(f[i+3]))})
				i += 4
			default:
				panic("bad step")
			}
		}
		out = append(out, ss)
	}
	return out
}

func content(n int, salt uint64) []byte { return hx.NewRng(salt ^ 0xc18).Bytes(n) }

// existing root stream names of a file (through relic's reader; only used to aim replace/delete steps)
func rootStreams(data []byte) (names [][]uint16) {
	cdf, err := comdoc.ReadFile(bytes.NewReader(data))
	if err != nil {
		return nil
	}
	files, _ := cdf.ListDir(nil)
	for _, f := range files {
		if f.Type == comdoc.DirStream {
			names = append(names, units(f.Name()))
		}
	}
	sort.Slice(names, func(i, j int) bool { return nameHex(names[i]) < nameHex(names[j]) })
	return
}

func genHistory(r *hx.Rng, file []byte, maxSessions int, k int, noMini bool) [][]step {
	existing := rootStreams(file)
	ns := 1 + r.Intn(maxSessions)
	var out [][]step
	alias := false // the root storage holds a mere case variant of the signature stream name
	for s := 0; s < ns; s++ {
		var ss []step
		if alias {
			// InsertMSISignature refuses such a document (repair of Fmsi-fold): delete the variant first, by yet
			// another case variant of the name
			ss = append(ss, step{kind: "d", name: units("\x05DIGITALSIGNATURE")})
			alias = false
		}
		pk := sigSizes[(k+s*3)%len(sigSizes)]
		ex := exSizes[(k/2+s)%len(exSizes)]
		if noMini && r.Intn(4) != 0 { // small streams cannot be added without a mini-stream: mostly avoid
			if pk < 4096 {
				pk = 4096 + pk
			}
			ex = 0
		}
		switch r.Intn(8) {
		case 0: // extra stream next to the signature
			sz := sigSizes[r.Intn(len(sigSizes))]
			ss = append(ss, step{kind: "a", name: units("Extra"), n1: sz, salt: r.U64() >> 2})
			ss = append(ss, step{kind: "g", n1: pk, n2: ex, salt: r.U64() >> 2})
		case 1: // replace an existing stream
			if len(existing) > 0 {
				nm := existing[r.Intn(len(existing))]
				sz := sigSizes[r.Intn(len(sigSizes))]
				ss = append(ss, step{kind: "a", name: nm, n1: sz, salt: r.U64() >> 2})
			}
			ss = append(ss, step{kind: "g", n1: pk, n2: ex, salt: r.U64() >> 2})
		case 2: // delete something, then sign
			if len(existing) > 0 {
				ss = append(ss, step{kind: "d", name: existing[r.Intn(len(existing))]})
			} else {
				ss = append(ss, step{kind: "d", name: units("Extra")})
			}
			ss = append(ss, step{kind: "g", n1: pk, n2: ex, salt: r.U64() >> 2})
		case 3: // delete the signature only
			ss = append(ss, step{kind: "d", name: units(sigName)}, step{kind: "d", name: units(sigExName)})
		case 4: // name differing only in case from the signature stream (EqualFold replacement)
			ss = append(ss, step{kind: "g", n1: pk, n2: ex, salt: r.U64() >> 2})
			ss = append(ss, step{kind: "a", name: units("\x05digitalsignature"), n1: 1 + r.Intn(200), salt: r.U64() >> 2})
			alias = true
		default:
			ss = append(ss, step{kind: "g", n1: pk, n2: ex, salt: r.U64() >> 2})
		}
		out = append(out, ss)
	}
	return out
}

func perms(n int) [][]int {
	if n == 0 {
		return [][]int{{}}
	}
	var out [][]int
	for _, p := range perms(n - 1) {
		for i := 0; i <= len(p); i++ {
			q := append(append(append([]int{}, p[:i]...), n-1), p[i:]...)
			out = append(out, q)
		}
	}
	return out
}

func fixtureFiles() [][]byte {
	repo := os.Getenv("VERIF_REPO")
	if repo == "" {
		repo = "/repo"
	}
	var out [][]byte
	_ = filepath.Walk(repo, func(p string, info os.FileInfo, err error) error {
		if err != nil {
			return nil
		}
		if info.IsDir() && (info.Name() == ".git" || info.Name() == "node_modules") {
			return filepath.SkipDir
		}
		if !info.IsDir() && strings.HasSuffix(strings.ToLower(p), ".msi") && info.Size() <= 1<<20 {
			if b, err := os.ReadFile(p); err == nil {
				out = append(out, b)
			}
		}
		return nil
	})
	return out
}

// Gen writes the op list for one run.
func Gen(w *bufio.Writer, seed uint64, tier string) {
	r := hx.NewRng(seed)
	// (a) red-black insert: every insertion order of 0..n-1, runs, random with duplicates
	maxN := 5
	if tier == "thorough" {
		maxN = 7
	}
	for n := 0; n <= maxN; n++ {
		for _, p := range perms(n) {
			fmt.Fprintf(w, "C18 rb%s\n", joinInts(p))
		}
	}
	for _, n := range []int{8, 16, 33, 64} {
		asc := make([]int, n)
		desc := make([]int, n)
		for i := range asc {
			asc[i], desc[i] = i, n-i
		}
		fmt.Fprintf(w, "C18 rb%s\n", joinInts(asc))
		fmt.Fprintf(w, "C18 rb%s\n", joinInts(desc))
	}
	nr := 400
	if tier == "thorough" {
		nr = 3000
	}
	for i := 0; i < nr; i++ {
		n := 1 + r.Intn(60)
		ks := make([]int, n)
		span := r.Pick(4, 20, 1000)
		for j := range ks {
			ks[j] = r.Intn(span)
		}
		fmt.Fprintf(w, "C18 rb%s\n", joinInts(ks))
	}
	// (b) compound files x histories
	variants := []string{"plain", "gaps", "dirfull", "nested", "presigned", "zero+emptydir", "nested+gaps+presigned",
		"scatter+emptydir", "fatroom+gaps", "dirfull+presigned", "plain+nomini", "gaps+nomini", "nested+nomini+presigned",
		"emptystorage+gaps"}
	rounds := 12
	maxSessions := 3
	if tier == "thorough" {
		rounds = 40
		maxSessions = 6
	}
	k := int(seed)
	emit := func(tag string, file []byte, hist [][]step) {
		fmt.Fprintf(w, "C18 hist %s %s %s\n", tag, hx.Hex(file), fmtHistory(hist))
		// the same file x history once more with relic's in-memory tables dumped around every operation (writer.go)
		fmt.Fprintf(w, "C18 wr %s %s %s\n", tag, hx.Hex(file), fmtHistory(hist))
	}
	for round := 0; round < rounds; round++ {
		for _, shift := range []int{9, 12} {
			for _, v := range variants {
				budget := 14000
				if shift == 12 {
					budget = 9000
				}
				f := genFile(r, shift, v, budget)
				nh := 3
				for h := 0; h < nh; h++ {
					k++
					emit(fmt.Sprintf("%s/%d", v, shift), f.data, genHistory(r, f.data, maxSessions, k, strings.Contains(v, "nomini")))
				}
			}
		}
	}
	// targeted histories for the empty-chain / empty-storage corners (F20, F21), every run
	for _, shift := range []int{9, 12} {
		z := genFile(r, shift, "zero", 3000)
		emit(fmt.Sprintf("zero/%d", shift), z.data, [][]step{{{kind: "d", name: units("Zero")}}})
		emit(fmt.Sprintf("zero/%d", shift), z.data, [][]step{{{kind: "a", name: units("Zero"), n1: 10, salt: 5}}, {{kind: "a", name: units("zero"), n1: 0, salt: 6}}})
		emit(fmt.Sprintf("zero/%d", shift), z.data, [][]step{{{kind: "a", name: units("Nil"), n1: 0, salt: 7}, {kind: "g", n1: 4096, n2: 32, salt: 8}}})
		nm := genFile(r, shift, "plain+nomini", 9000)
		emit(fmt.Sprintf("plain+nomini/%d", shift), nm.data, [][]step{{{kind: "g", n1: 4097, n2: 0, salt: 9}}})
		emit(fmt.Sprintf("plain+nomini/%d", shift), nm.data, [][]step{{{kind: "g", n1: 4097, n2: 32, salt: 10}}})
		emit(fmt.Sprintf("plain+nomini/%d", shift), nm.data, [][]step{{{kind: "g", n1: 100, n2: 0, salt: 11}}, {{kind: "g", n1: 5000, n2: 64, salt: 12}}})
		// root storage becomes empty, then is signed
		c := &cfg{shift: shift, root: &ent{name: units("Root Entry"), storage: true}}
		c.root.kids = []*ent{{name: units("Only"), data: r.Bytes(100)}}
		one := build(c, r)
		emit(fmt.Sprintf("single/%d", shift), one, [][]step{{{kind: "d", name: units("Only")}}})
		emit(fmt.Sprintf("single/%d", shift), one, [][]step{{{kind: "d", name: units("only")}}, {{kind: "g", n1: 700, n2: 32, salt: 13}}, {{kind: "d", name: units(sigName)}, {kind: "d", name: units(sigExName)}}})
		// a root storage that is empty to begin with
		c = &cfg{shift: shift, root: &ent{name: units("Root Entry"), storage: true}}
		emit(fmt.Sprintf("emptyroot/%d", shift), build(c, r), [][]step{{{kind: "g", n1: 4096, n2: 32, salt: 14}}})
		emit(fmt.Sprintf("emptyroot/%d", shift), build(c, r), [][]step{{{kind: "g", n1: 10, n2: 0, salt: 15}}})
	}
	// mixed-case sibling names (F4, ordering half)
	for _, shift := range []int{9, 12} {
		f := genFile(r, shift, "mixedcase", 3000)
		k++
		emit(fmt.Sprintf("mixedcase/%d", shift), f.data, genHistory(r, f.data, 1, k, false))
	}
	// an embedded signed package (sub-storage with its own \x05DigitalSignature / \x05MsiDigitalSignatureEx streams):
	// signing the outer document must leave the nested streams alone
	for _, shift := range []int{9, 12} {
		for _, v := range []string{"embedded", "embedded+presigned", "embedded+gaps+presigned", "embedded+nomini"} {
			f := genFile(r, shift, v, 9000)
			for h := 0; h < 2; h++ {
				k++
				emit(fmt.Sprintf("%s/%d", v, shift), f.data, genHistory(r, f.data, 2, k, strings.Contains(v, "nomini")))
			}
			emit(fmt.Sprintf("%s/%d", v, shift), f.data, [][]step{{{kind: "g", n1: 700 + 3500*(shift/12), n2: 32, salt: r.U64() >> 2}}, {{kind: "g", n1: 4200, n2: 0, salt: r.U64() >> 2}}})
		}
	}
	// an existing DIFAT sector (110+ FAT sectors, mostly describing sectors beyond EOF)
	nd := 1
	if tier == "thorough" {
		nd = 4
	}
	for i := 0; i < nd; i++ {
		f := genFile(r, 9, "difat+gaps", 3000)
		k++
		emit("difat/9", f.data, genHistory(r, f.data, 2, k, false))
	}
	// FAT exactly full: the next allocation needs a new FAT sector
	for i, nf := range []int{1, 2} {
		f := genFull(r, 9, nf)
		emit("fatfull/9", f, [][]step{{{kind: "g", n1: sigSizes[(k+i)%len(sigSizes)], n2: 32, salt: r.U64() >> 2}}})
		emit("fatfull/9", f, [][]step{{{kind: "g", n1: 9000, n2: 0, salt: r.U64() >> 2}}, {{kind: "g", n1: 64, n2: 20, salt: r.U64() >> 2}}})
	}
	if tier == "thorough" {
		f := genFull(r, 12, 1)
		emit("fatfull/12", f, [][]step{{{kind: "g", n1: 5000, n2: 32, salt: 76}}})
		// DIFAT growth: 109 FAT sectors completely in use (a 7 MiB file), so that the next allocation
		// needs FAT sector 110 and with it the first DIFAT sector
		f = genFull(r, 9, 109)
		emit("difatgrow/9", f, [][]step{{{kind: "g", n1: 9000, n2: 32, salt: 77}}})
		emit("difatgrow/9", f, [][]step{{{kind: "g", n1: 700, n2: 0, salt: 78}}, {{kind: "g", n1: 70000, n2: 32, salt: 79}}})
	}
	// the repository's fixtures
	for _, fx := range fixtureFiles() {
		nh := 12
		if tier == "thorough" {
			nh = 60
		}
		for h := 0; h < nh; h++ {
			k++
			emit("fixture", fx, genHistory(r, fx, maxSessions, k, false))
		}
	}
	// (d) allocation layer on synthetic tables (writer.go)
	genWriter(w, hx.NewRng(seed^0xa110c), tier)
	genAtab(w, hx.NewRng(seed^0xa7ab), tier)
	genWb(w, hx.NewRng(seed^0xb17e5), tier, seed) // byte-level writer model (wbytes.go)
	// (c) digest: tar vs direct on every generated shape once more, unmodified
	for _, shift := range []int{9, 12} {
		for _, v := range []string{"plain", "nested", "nested+presigned", "gaps+presigned", "nested+nomini", "emptystorage", "embedded", "embedded+presigned"} {
			f := genFile(r, shift, v, 9000)
			fmt.Fprintf(w, "C18 digest %s/%d %s\n", v, shift, hx.Hex(f.data))
		}
	}
}

// a file whose nFat FAT sectors have every entry in use, so that the next allocation must grow
// the FAT (and, for nFat = 109, allocate the first DIFAT sector)
func genFull(r *hx.Rng, shift, nFat int) []byte {
	c := &cfg{shift: shift, root: &ent{name: units("Root Entry"), storage: true}}
	ss := 1 << shift
	// sectors: nFat FAT + 1 dir + 1 minifat + 1 container + the big stream
	big := nFat*(ss/4) - nFat - 1 - 1 - 1
	c.root.kids = append(c.root.kids, &ent{name: msiName(r, 4), data: r.Bytes(big * ss)})
	c.root.kids = append(c.root.kids, &ent{name: msiName(r, 5), data: r.Bytes(100)})
	return build(c, r)
}

func joinInts(p []int) string {
	var sb strings.Builder
	for _, x := range p {
		fmt.Fprintf(&sb, " %d", x)
	}
	return sb.String()
}

// ---------------------------------------------------------------------------------------------
// implementation runner

func renderNode(n *redblack.Node) string {
	if n == nil {
		return "-"
	}
	c := "B"
	if n.Red {
		c = "R"
	}
	return fmt.Sprintf("(%d %s %s %s)", n.Item.(int), c, renderNode(n.Children[0]), renderNode(n.Children[1]))
}

func classify(err error) string {
	s := err.Error()
	switch {
	case strings.Contains(s, "name is too long"):
		return "name-too-long"
	case strings.Contains(s, "can't delete or replace storages"):
		return "is-storage"
	case strings.Contains(s, "negative offset"):
		return "negative-offset"
	case strings.Contains(s, "not open for writing"):
		return "read-only"
	}
	return "other:" + strings.ReplaceAll(s, " ", "_")
}

type touchedT struct {
	name []uint16
	data []byte // nil = absent
}

func goName(u []uint16) string { return string(utf16.Decode(u)) }

// apply one session with the real code; returns "" or an error/panic class
func session(path string, steps []step, tl *[]touchedT) (status string) {
	f, err := os.OpenFile(path, os.O_RDWR, 0)
	if err != nil {
		panic(err)
	}
	defer f.Close()
	var pending []touchedT
	defer func() {
		if r := recover(); r != nil {
			status = "panic:" + strings.ReplaceAll(strings.ReplaceAll(fmt.Sprint(r), " ", "_"), "\n", "_")
		}
	}()
	cdf, err := comdoc.WriteFile(f)
	if err != nil {
		return "err:open:" + classify(err)
	}
	for i, st := range steps {
		switch st.kind {
		case "a":
			d := content(st.n1, st.salt)
			if err := cdf.AddFile(goName(st.name), d); err != nil {
				return fmt.Sprintf("err:add%d:%s", i, classify(err))
			}
			pending = append(pending, touchedT{st.name, append([]byte{}, d...)})
		case "d":
			if err := cdf.DeleteFile(goName(st.name)); err != nil {
				return fmt.Sprintf("err:del%d:%s", i, classify(err))
			}
			pending = append(pending, touchedT{st.name, nil})
		case "g":
			pk := content(st.n1, st.salt)
			ex := content(st.n2, st.salt+1)
			if err := authenticode.InsertMSISignature(cdf, pk, ex); err != nil {
				return fmt.Sprintf("err:sig%d:%s", i, classify(err))
			}
			if len(ex) > 0 {
				pending = append(pending, touchedT{units(sigExName), append([]byte{}, ex...)})
			} else {
				pending = append(pending, touchedT{units(sigExName), nil})
			}
			pending = append(pending, touchedT{units(sigName), append([]byte{}, pk...)})
		}
	}
	if err := cdf.Close(); err != nil {
		return "err:close:" + classify(err)
	}
	// committed: merge (last write per case-insensitive name wins)
	for _, p := range pending {
		found := false
		for i := range *tl {
			if upperKey((*tl)[i].name) == upperKey(p.name) {
				(*tl)[i] = p
				found = true
			}
		}
		if !found {
			*tl = append(*tl, p)
		}
	}
	return ""
}

func digests(path string) (res [2][]byte, tarres [2][]byte, status string) {
	defer func() {
		if r := recover(); r != nil {
			status = "panic:" + strings.ReplaceAll(fmt.Sprint(r), " ", "_")
		}
	}()
	for i, ext := range []bool{false, true} {
		cdf, err := comdoc.ReadPath(path)
		if err != nil {
			return res, tarres, "err:read"
		}
		d, _, err := authenticode.DigestMSI(cdf, crypto.SHA256, ext)
		if err != nil {
			cdf.Close()
			return res, tarres, "err:direct"
		}
		res[i] = d
		pr, pw := io.Pipe()
		go func() { _ = pw.CloseWithError(authenticode.MsiToTar(cdf, pw)) }()
		t, err := authenticode.DigestMsiTar(pr, crypto.SHA256, ext)
		_, _ = io.Copy(io.Discard, pr)
		cdf.Close()
		if err != nil {
			return res, tarres, "err:tar"
		}
		tarres[i] = t
	}
	return res, tarres, ""
}

func digestVerdict(inPath, outPath string, sigOnly bool) string {
	di, ti, s := digests(inPath)
	if s != "" {
		return "in-" + s
	}
	if !bytes.Equal(di[0], ti[0]) || !bytes.Equal(di[1], ti[1]) {
		return "tar-mismatch-in"
	}
	if outPath == "" {
		return "ok"
	}
	do, to, s := digests(outPath)
	if s != "" {
		return "out-" + s
	}
	if !bytes.Equal(do[0], to[0]) || !bytes.Equal(do[1], to[1]) {
		return "tar-mismatch-out"
	}
	if sigOnly && (!bytes.Equal(di[0], do[0]) || !bytes.Equal(di[1], do[1])) {
		return "sig-dependent"
	}
	return "ok"
}

func Impl() {
	tmp, err := os.MkdirTemp("", "vh-c18-")
	if err != nil {
		panic(err)
	}
	defer os.RemoveAll(tmp)
	seq := 0
	hx.EachLine(func(f []string) string {
		switch f[0] {
		case "rb":
			t := redblack.New(func(i, j interface{}) bool { return i.(int) < j.(int) })
			for _, s := range f[1:] {
				t.Insert(int(hx.Atoi(s)))
			}
			return "ok " + renderNode(t.Root)
		case "dg", "sv":
			return MsiHandle(f)
		case "alloc":
			return implAlloc(tmp, f)
		case "free":
			return implFree(f)
		case "atab":
			return implAtab(f)
		case "adds":
			seq++
			return implAdds(tmp, seq, f)
		case "wr":
			seq++
			return implWr(tmp, seq, f)
		case "wb":
			seq++
			return implWb(tmp, seq, f)
		case "digest":
			seq++
			p := filepath.Join(tmp, fmt.Sprintf("d%d.msi", seq))
			if err := os.WriteFile(p, hx.MustUnHex(f[2]), 0o644); err != nil {
				panic(err)
			}
			defer os.Remove(p)
			return "ok dg=" + digestVerdict(p, "", false)
		case "hist":
			seq++
			in := filepath.Join(tmp, fmt.Sprintf("i%d.msi", seq))
			out := filepath.Join(tmp, fmt.Sprintf("o%d.msi", seq))
			data := hx.MustUnHex(f[2])
			if err := os.WriteFile(in, data, 0o644); err != nil {
				panic(err)
			}
			if err := os.WriteFile(out, data, 0o644); err != nil {
				panic(err)
			}
			defer os.Remove(in)
			defer os.Remove(out)
			hist := parseHistory(f[3:])
			var tl []touchedT
			status := "ok"
			sigOnly := true
			for si, s := range hist {
				for _, st := range s {
					if st.kind != "g" && goName(st.name) != sigName && goName(st.name) != sigExName {
						sigOnly = false
					}
				}
				if r := session(out, s, &tl); r != "" {
					status = fmt.Sprintf("%s@s%d", r, si)
					break
				}
			}
			ob, err := os.ReadFile(out)
			if err != nil {
				panic(err)
			}
			dg := "skipped"
			if strings.HasPrefix(status, "ok") {
				dg = digestVerdict(in, out, sigOnly)
			}
			var sb strings.Builder
			fmt.Fprintf(&sb, "%s %s dg=%s %d", status, hx.Hex(ob), dg, len(tl))
			for _, t := range tl {
				if t.data == nil {
					fmt.Fprintf(&sb, " %s absent", nameHex(t.name))
				} else {
					fmt.Fprintf(&sb, " %s %s", nameHex(t.name), hx.Hex(t.data))
				}
			}
			return sb.String()
		}
		return "bad-op"
	})
}

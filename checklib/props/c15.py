"""C15 — token failures are retried only when safe and reported faithfully
(token/worker retry loop, workercmd handler, tokencache)."""
import re

TIE = "corr:worker-retry"
TIE_THEOREM = ("Relic.Props.C15.* (models Relic.Model.Retry / Relic.Model.KeyCache vs token/worker/retry.go, "
               "internal/httperror, cmdline/workercmd/handler.go, token/tokencache/cache.go)")
RULE = ("real WorkerToken client loop (hook VerifNewClient, real http.DefaultClient) against a scripted fake worker, all scripts run "
        "concurrently at the real back-off speed: every outcome kind alone (31 kinds: 200 ok, 200 with flags, 5xx x5, 4xx x8, 201, "
        "problem+json x4, connection refused, reset, closed without reply, hang until the per-attempt timeout, truncated body, non-JSON, "
        "empty body, token error retryable/not, key-usage error); retries=2: 12 core kinds x all kinds; retries=3: every pair of 6 temporary "
        "kinds x 12 core kinds, and a permanent kind in first/second place; retries=0 (default 5) and retries<0; caller cancellation "
        "{cancel, deadline} before the call, inside each back-off wait and during each attempt, for runs that reach the point and runs that "
        "end earlier; seeded random scripts (quick: retries<=3, thorough: <=5 incl. full 5-attempt runs). Per run: result class, value, "
        "client-side attempt count, worker-side arrivals, waits vs. the float32 schedule (early/late flags), promptness after cancellation. "
        "Worker side: handler (hook VerifHandler) x 4 secrets x 8 cookie variants; 4 paths x {no error, not-implemented, key-usage, "
        "wrapped key-usage, other, every fatal PKCS#11 code, 19 non-fatal codes} x {good, bad JSON}; client loop -> real handler -> fake "
        "token for error sequences up to length 2; tokencache.Cache against a fake token with rotating key ids: every step sequence over "
        "{get, pin:1, pin:2, rotate, expire, backend failure} up to length 4 (5 thorough) + random longer ones. "
        "Non-trivial = distinct op other than a single successful attempt / constant read-outs.")
ASSUMPTIONS = ["http.DefaultClient/Transport behaviour is exercised, not modelled: the model takes the error class of each attempt as given "
               "(keep-alives are off in the harness, so the transport never replays a request on its own)",
               "PKCS#11 errors: with CGO off the handler's pkcs11Error is relic's own stub type (empty text); the type switch and the "
               "fatalErrors table are exercised through it, real p11token errors are not",
               "a key-usage error reaches the handler unwrapped (the handler uses a type switch; no in-tree token wraps it) - "
               "the wrapped case is modelled and shown to be classified retryable (Props.C15.classification)",
               "token config Timeout >= 0",
               "model time in the key cache advances only in explicit `expire` steps (harness: 2 s expiry, 2.3 s sleeps)"]
TRUSTED = ["models Relic.Model.Retry and Relic.Model.KeyCache are hand-written; tied to the Go code by differential execution on every run",
           "harness spy RoundTripper (records attempt start/end, redirects `refused` attempts to a bound non-listening port) and the "
           "fake worker/token",
           "hooks token/worker/hooks_verif.go, cmdline/workercmd/hooks_verif.go (constructors and read-only describers)"]
UNPROVED = []
IMPL_PARALLEL = 1          # Impl runs all ops concurrently itself (real-time back-off)
IMPL_TIMEOUT = 1500

PERMANENT = re.compile(r"^(st:(4\d\d|201|501|505)|pb:\d+:4\d\d|pb:4\d\d:0|usage:[01]|tok:0|malformed|empty|ok:\d+|okflags:\d+)$")
EXPECT_CLASS = {"usage:0": "usage:k", "usage:1": "usage:k", "tok:0": "token:0", "malformed": "malformed", "empty": "malformed"}


def _kv(line):
    return dict(t.split("=", 1) for t in line.split() if "=" in t)


def _retry_op(f):
    n = int(f[6])
    return {"method": f[2], "retries": int(f[3]), "timeout": int(f[4]), "cancel": f[5].split(":"), "outs": f[7:7 + n]}


def nontrivial(op, mres, tag):
    f = op.split()
    if f[1] in ("consts", "fatal"):
        return False
    if f[1] == "retry":
        return not (mres.startswith("ok") and " a=1 " in mres and f[5] == "never")
    return True


def branch(op, mres, tag):
    f = op.split()
    r = mres.split(" ")
    if f[1] == "retry":
        kv = _kv(mres)
        return "retry:%s:a=%s:%s" % (" ".join(r[:2]) if r[0] == "err" else r[0], kv.get("a", "?"), f[5].split(":")[0])
    if f[1] == "serve":
        kv = _kv(mres)
        return "serve:%s:retryable=%s:usage=%s:shutdown=%s" % (kv.get("status"), kv.get("retryable", "-"), kv.get("usage", "-"), kv.get("shutdown"))
    if f[1] == "e2e":
        return "e2e:" + " ".join(r[:2]) + ":" + r[-2]
    if f[1] == "cache":
        return "cache:exp=%s:%s" % (f[2], "".join(sorted({t[0] + ("!" if t.endswith("!") else "") for t in r[1:] if t[0] in "bc"})))
    return f[1]


def _cookie(secret, spec):
    s = "" if secret == "-" else secret
    if spec == "same":
        return s
    if spec in ("missing", "empty"):
        return ""
    if spec == "prefix":
        return s[:-1] if s else "x"
    if spec == "longer":
        return s + "0"
    if spec == "case":
        return s.upper()
    if spec == "flip":
        if not s:
            return "1"
        b = bytearray(s.encode())
        b[len(b) // 2] ^= 1
        return b.decode("latin1")
    return "wrong"


def predicate(op, il, mres, tag):
    """the property itself, on what the implementation did"""
    f = op.split()
    kind = f[1]
    if il.startswith("crash") or il.startswith("not-run") or il.startswith("setup-failed"):
        return ("Relic.Props.C15.success_iff_some_attempt_succeeded", mres, "implementation run did not complete: " + il[:80])
    if kind == "retry":
        o = _retry_op(f)
        outs = o["outs"]
        eff = o["retries"] if o["retries"] > 0 else 5
        kv = _kv(il)
        res = il.split(" a=")[0]
        if il.startswith("panic"):
            return ("Relic.Props.C15.never_nilnil", mres, "the operation crashed instead of returning an error")
        if "a" not in kv:
            return ("Relic.Props.C15.attempts_bounded", mres, "unparsable implementation line")
        a = int(kv["a"])
        arr = [] if kv["s"] == "-" else [int(x) for x in kv["s"].split(",")]
        if a > eff:
            return ("Relic.Props.C15.attempts_bounded", "attempts <= %d" % eff, "%d attempts" % a)
        if res.startswith("ok"):
            okj = [j for j in arr if j < len(outs) and outs[j].startswith("ok")]
            if a == 0 or not okj:
                return ("Relic.Props.C15.success_iff_some_attempt_succeeded", "an error (no attempt succeeded)",
                        "success reported although no attempt got a successful reply (attempts=%d)" % a)
            if o["method"] == "sign":
                want = "%02x" % int(outs[max(arr)].split(":")[1]) if outs[max(arr)].startswith("ok") else None
                if res.split()[1] != want:
                    return ("Relic.Props.C15.success_iff_some_attempt_succeeded", "ok %s" % want, "value is not that of the successful attempt")
        # the caller never gave up (its own deadline lies far beyond the token's per-attempt timeout): a context error of the
        # operation can then only come from the per-attempt timeout, which must not end the operation while attempts remain
        if o["cancel"][0] == "never" and res.startswith("err ctx") and a < eff and all(
                (j < len(outs) and not PERMANENT.match(outs[j])) for j in arr):
            return ("Relic.Props.C15.success_iff_some_attempt_succeeded", mres.split(" #")[0],
                    "the caller did not cancel and attempts remained (%d of %d made, all transient) but the operation ended with %s: "
                    "a hung attempt was not bounded by the token's timeout" % (a, eff, res))
        # permanent outcome => no later attempt, class intact
        for j in arr:
            if j < len(outs) and PERMANENT.match(outs[j]) and a > j + 1 and not (o["cancel"][0] == "during" and int(o["cancel"][1]) == j):
                return ("Relic.Props.C15.permanent_at_once", "no attempt after #%d (%s)" % (j, outs[j]), "%d attempts" % a)
        if arr and o["cancel"][0] == "never" and max(arr) == a - 1:
            last = outs[a - 1] if a - 1 < len(outs) else ""
            exp = EXPECT_CLASS.get(last)
            m = re.match(r"^st:(\d+)$", last)
            if m and last != "st:200":
                exp = "http:" + m.group(1)
            if exp and res != "err " + exp:
                return ("Relic.Props.C15.permanent_at_once", "err " + exp, "error class not preserved")
        # cancellation: prompt, no further attempts, never success once the context ended
        for flag, thm in (("slow-cancel", "cancel_prompt"), ("attempt-after-cancel", "cancel_prompt"), ("early@", "delays"), ("late@", "delays")):
            if flag in il:
                return ("Relic.Props.C15." + thm, "within the bound / on schedule", flag + " in: " + il[-80:])
        if o["cancel"][0] == "during" and int(o["cancel"][1]) in arr:
            if res.startswith("ok") or a > int(o["cancel"][1]) + 1:
                return ("Relic.Props.C15.cancel_during", "context error, no further attempt", il[:80])
        if o["cancel"][0] == "before" and a > max(1, int(o["cancel"][1])):
            return ("Relic.Props.C15.cancel_in_backoff", "no attempt #%s" % o["cancel"][1], il[:80])
        return None
    if kind == "serve":
        kv = _kv(il)
        secret = "" if f[2] == "-" else f[2]
        if _cookie(f[2], f[3]) != secret:
            if kv.get("status") != "403" or kv.get("calls") != "0":
                return ("Relic.Props.C15.cookie_gate", "status=403 calls=0", "request without the per-process secret was served")
            return None
        if f[6] == "good" and f[4] != "bogus":
            if f[5].startswith("usage:") and not (kv.get("usage") == "true" and kv.get("retryable") == "false" and kv.get("key") != "-"):
                return ("Relic.Props.C15.classification", "usage=true retryable=false key set", "key-usage error lost its classification")
            if f[5] == "notimpl" and kv.get("retryable") != "false":
                return ("Relic.Props.C15.classification", "retryable=false", "not-implemented marked retryable")
        return None
    if kind == "e2e":
        kv = _kv(il)
        eff = int(f[2]) if int(f[2]) > 0 else 5
        if "signs" in kv and int(kv["signs"]) > eff:
            return ("Relic.Props.C15.attempts_bounded", "signs <= %d" % eff, il)
        first = f[4]
        if first == "usage:0" and not il.startswith("err usage:k signs=1"):
            return ("Relic.Props.C15.classification_end_to_end", "err usage:k signs=1", "key-usage error retried or reclassified")
        if first == "notimpl" and not il.startswith("err token:0 signs=1"):
            return ("Relic.Props.C15.classification_end_to_end", "err token:0 signs=1", "permanent error retried or reclassified")
        return None
    if kind == "cacherace":
        if il.startswith("ok p=") and il.split()[1] not in ("p=1", "p=!"):
            return ("Relic.Props.C15.pinned_key_never_stale", "key 1 or an error",
                    "a request pinned to key id 1, overlapping a rotation and %s unpinned lookups, was served: %s" % (f[3], il))
        return None
    if kind == "walias":
        kv = _kv(il)
        if il.startswith("ok pub=") and kv.get("pub") != kv.get("sig"):
            return ("Relic.Props.C07.emitted_leaf_matches_key", "the key that signs is the key whose public key the handle carries",
                    "worker RPC with key name %s: the handle carries the public key of %s, the signature was made by %s"
                    % (f[2], kv.get("pub"), kv.get("sig")))
        return None
    if kind == "cachecancel":
        if il.split()[1:2] != ["b=1"]:
            return ("Relic.Props.C15.cache_getKey_atomic_generated", "every other request is answered with the key (as in isolation)",
                    "a request whose client went away inside the key lookup took %s concurrent requests for the same key with it: %s" % (f[3], il))
        return None
    if kind == "wpin":
        kv = _kv(il)
        if kv.get("sig") not in ("5101", "!"):
            return ("Relic.Props.C15.pinned_key_never_stale", "signature by key id 1 (the id the handle holds) or an error",
                    "the client signed with a handle for key id %s, the worker used another key: %s" % (kv.get("held"), il))
        return None
    if kind == "cache":
        n = int(f[3])
        steps = f[4:4 + n]
        outs = il.split()[1:1 + n]
        cacheable = set()   # ids fetched without a pin since the last expiry: the only ones the cache may hold
        for st, out in zip(steps, outs):
            if st.startswith("pin:") and out[0] in "bc" and out[1:] not in ("!", st[4:]):
                return ("Relic.Props.C15.pinned_key_never_stale", "key %s or an error" % st[4:], "pinned request served key id " + out[1:])
            if st == "exp":
                cacheable = set()
            if out[0] == "c" and (out[1:] not in cacheable or f[2] == "0"):
                return ("Relic.Props.C15.pinned_key_never_stale", "a backend fetch", "served from the cache a key that was fetched under a pin, "
                        "had expired, or with caching disabled: " + out)
            if st == "get" and out[0] == "b" and out[1:] != "!":
                cacheable = {out[1:]}
        return None
    return None


def matches_known(k, op, il, mres, tag):
    """F5: negative `retries` => no attempt, (nil, nil). Identity: retry op with retries < 0 whose implementation line
    is exactly what the model of the unrepaired loop (doRetryCfgOrig) yields."""
    f = op.split()
    if k.get("id") != "F5" or f[1] != "retry" or int(f[3]) >= 0:
        return False
    return " ORIG " in tag and il == tag.split(" ORIG ", 1)[1]



# ---- T-gen: the lock span of tokencache.(*Cache).GetKey (tools/extractlocks -> Relic/Generated/Locks.lean); the obligation
# heldThroughout (first statement takes c.mu, second defers its release, no other lock operation in the body) is what lets
# one call be one atomic step of the cache model, so that pinned_key_never_stale covers overlapping lookups
def generate(ctx):
    import os
    import runner as _r
    tool = _r.build_tool("extractlocks")
    gen = os.path.join(_r.LEAN, "Relic", "Generated", "Locks.lean")
    tmp = gen + ".tmp." + str(os.getpid())
    r = _r.sh([tool, _r.REPO, tmp])
    if r.returncode != 0 or not os.path.exists(tmp):
        raise _r.Broken("extractlocks failed on token/tokencache/cache.go", r.stdout[-2000:])
    new = open(tmp).read()
    old = open(gen).read() if os.path.exists(gen) else None
    if new != old:
        os.replace(tmp, gen)
    else:
        os.remove(tmp)
    return ["Relic.Props.C15.cache_getKey_atomic_generated"]


# --- SCD ops (token login: configured / prompted PIN, attempts bounded, Bad PIN classification; hostile daemon answers): a further
# correspondence under the pseudo-property C15SCD, checklib/models/scd.py; theorems Relic.Props.C15.scd_login_single_attempt,
# scd_prompt_attempts_bounded, scd_bad_pin_classified
import composite as _composite, scd as _scd
UNPROVED = list(globals().get("UNPROVED", [])) + _scd.UNPROVED["C15"]
_gen_c15_scd = generate


def generate(ctx):
    return _gen_c15_scd(ctx) + _scd.generate(ctx)


def run(ctx):
    import runner as _r
    own, none = _composite.split_replay(ctx, ["scd"])
    cov, f, k = ({"evaluations": 0, "distinct_nontrivial": 0}, [], []) if none else \
        _r.correspondence("C15", own, __import__("props.c15", fromlist=["x"]))
    return _scd.second(ctx, "C15", cov, f, k)

/-
  C14 — Concurrent requests are isolated and race-free.

  Property theorems about `Relic.Model.Server` (abstract server: shared components guarded by one
  lock each, per-request records, executions = all merges of the threads' step lists, with
  clock ticks / limiter refills / health-check iterations / shutdown as environment threads), and
  the obligation `inventory_closed` on the inventory of shared mutable state that
  `tools/extractshared` regenerates from the Go source on every run
  (`Relic.Generated.SharedState.entries`).  Helper lemmas: Relic/Proofs/Server.lean.

  NOT modelled: Go-memory-model data races (an unsynchronised access that happens to read the right
  value), scheduler fairness, real limiter timing, lock hand-over below the granularity of one
  critical section.  The `-race` run of the harness supports the search; it is not a theorem.
-/
import Relic.Proofs.Server
import Relic.Generated.SharedState
namespace Relic.Props.C14
open Relic.Server

/-! ## what one request computes -/

/-- observations made while running alone -/
def obsSeq (w : World) (r : Req) : List Step → State → Local → List Bool
  | [], _, _ => []
  | st :: rest, s, l =>
    (if stateDep st then [observe w st s] else []) ++ obsSeq w r rest (exec w r st s l).1 (exec w r st s l).2

theorem runSeq_local (w : World) (r : Req) (rest : List Step) :
    ∀ (s : State) (l : Local), Inv w s →
      (runSeq w r rest s l).2 = localRun w r (obsSeq w r rest s l) rest l := by
  induction rest with
  | nil => intro s l _; rfl
  | cons st rest ih =>
    intro s l hinv
    simp only [runSeq, obsSeq, localRun]
    rw [ih _ _ (inv_exec w r st s l hinv)]
    by_cases hd : stateDep st = true
    · simp [hd, nextView, exec, view_dep w r st s hd]
    · have hd' : stateDep st = false := by simpa using hd
      simp [hd', nextView, exec, view_canon w r st s hinv hd']

/-- the program of a request kind observes the shutdown flag once, first, and `/health` then the
    health flag -/
theorem justified_prog (P : State → Prop) (w : World) (r : Req) (obs : List Bool)
    (hk : r.kind ≠ .env) (hsd : ∀ s, P s → s.shutdown = false) (hJ : Justified P w (prog r) obs) :
    (r.kind ≠ .health → obs = [false]) ∧ (r.kind = .health → ∃ s', P s' ∧ obs = [false, healthy w s']) := by
  cases hkind : r.kind <;> simp [hkind] at hk ⊢ <;>
    simp only [prog, hkind, Justified, stateDep, if_true, observe, Bool.false_eq_true, if_false] at hJ
  all_goals
    obtain ⟨b, obs', rfl, ⟨s', hs', hb⟩, hrest⟩ := hJ
    rw [hsd s' hs'] at hb
    subst hb
  · subst hrest; rfl
  · subst hrest; rfl
  · subst hrest; rfl
  · obtain ⟨b2, obs2, rfl, ⟨s2, hs2, hb2⟩, hnil⟩ := hrest
    subst hnil
    exact ⟨s2, hs2, by rw [hb2]⟩

theorem localRun_prog (w : World) (r : Req) (b : Bool) (hk : r.kind ≠ .env) :
    (localRun w r (if r.kind = .health then [false, b] else [false]) (prog r) {}).resp = some (expected w r b) := by
  cases hkind : r.kind <;> simp [hkind] at hk ⊢
  · cases hv : r.valid <;> cases hkey : w.tokenKey r.key <;> cases hts : r.wantTs <;> cases htn : w.tsNew <;>
      simp [prog, hkind, localRun, nextView, stateDep, stepL, skip, stepLocal, canon, expected, response, hv, hkey, hts, htn]
  · cases hv : r.valid <;> cases hkey : w.tokenKey r.key <;>
      simp [prog, hkind, localRun, nextView, stateDep, stepL, skip, stepLocal, canon, expected, response, hv, hkey]
  · cases hv : r.valid <;>
      simp [prog, hkind, localRun, nextView, stateDep, stepL, skip, stepLocal, expected, response, hv]
  · simp [prog, hkind, localRun, nextView, stateDep, stepL, skip, stepLocal, expected, response]

theorem auditOf_env (w : World) (r : Req) (rest : List Step) (henv : ∀ st ∈ rest, isEnvStep st = true) :
    ∀ (obs : List Bool) (l : Local), auditOf w r obs rest l = [] := by
  induction rest with
  | nil => intro _ _; rfl
  | cons st rest ih =>
    intro obs l
    simp only [auditOf]
    rw [ih (fun st' h => henv st' (List.mem_cons_of_mem _ h))]
    have : isEnvStep st = true := henv st List.mem_cons_self
    cases st <;> simp [isEnvStep] at this <;> simp [emit]

theorem auditOf_prog (w : World) (r : Req) (b : Bool) :
    auditOf w r (if r.kind = .health then [false, b] else [false]) (prog r) {} =
      if succeeds w r then [record r] else [] := by
  cases hkind : r.kind
  · cases hv : r.valid <;> cases hkey : w.tokenKey r.key <;> cases hts : r.wantTs <;> cases htn : w.tsNew <;>
      simp [prog, hkind, auditOf, nextView, stateDep, stepL, skip, stepLocal, canon, succeeds, expected, emit, record, hv, hkey, hts, htn]
  · simp [prog, hkind, auditOf, emit, succeeds]
  · simp [prog, hkind, auditOf, emit, succeeds]
  · simp [prog, hkind, auditOf, emit, succeeds]
  · rw [auditOf_env w r (prog r) (by simp [prog, hkind])]
    simp [succeeds, hkind]

/-- **solo_response.** Alone, from any state satisfying `Inv` and not shutting down, a request gets
    `expected`: for a sign request the signature made with the token's key *for the requested
    name* over the digest of *its* body with *its* options. -/
theorem solo_response (w : World) (r : Req) (s : State) (hk : r.kind ≠ .env) (hinv : Inv w s)
    (hsd : s.shutdown = false) : solo w r s = some (expected w r (healthy w s)) := by
  have hobs : obsSeq w r (prog r) s {} = if r.kind = .health then [false, healthy w s] else [false] := by
    cases hkind : r.kind <;> simp [hkind] at hk ⊢ <;>
      simp [prog, hkind, obsSeq, stateDep, observe, hsd, exec, skip, stepShared]
  rw [solo, runSeq_local w r (prog r) s {} hinv, hobs]
  exact localRun_prog w r (healthy w s) hk

example : ∀ s, Inv ⟨fun n => if n = 7 then some 70 else none, none, 5, 3, 30, false, fun k d o _ => k + d + o,
      fun h b => h * 1000 + b, fun _ => [7]⟩ s → s.shutdown = false →
    solo ⟨fun n => if n = 7 then some 70 else none, none, 5, 3, 30, false, fun k d o _ => k + d + o,
      fun h b => h * 1000 + b, fun _ => [7]⟩ { kind := .sign, key := 7, hash := 2, body := 9, opts := 1 } s
      = some (.signed (70 + 2009 + 1)) := by
  intro s hi hs
  rw [solo_response _ _ s (by decide) hi hs]
  rfl

/-! ## isolation -/

def PIso (w : World) (s : State) : Prop := Inv w s ∧ s.shutdown = false

theorem PIso_step (w : World) (s : State) (r : Req) (st : Step) (l : Local) (hne : st ≠ .shutdown)
    (h : PIso w s) : PIso w (exec w r st s l).1 :=
  ⟨inv_exec w r st s l h.1, by rw [exec_shutdown w r st s l hne]; exact h.2⟩

/-- **isolation.**  `N` threads: requests of any kinds (sign / key info / key list / health) and
    environment threads made of clock ticks (cache expiry), limiter refills and health-check
    iterations with arbitrary outcomes.  For EVERY interleaving `σ` of their step lists, started
    in any state satisfying `Inv`:
    * `Inv` holds afterwards;
    * every request's response equals the response it gets when run alone (`solo`) from some state
      satisfying `Inv`; for every kind but `/health` it equals the solo response from *every* such
      state and is `expected`, i.e. a function of that request's own key name, hash, body and options
      and the static token contents only (cache hit or miss, other requests, time make no difference);
    * `audit_complete`: the audit log is the old log plus a permutation of exactly the records of
      the requests that were answered with a signature. -/
theorem isolation (w : World) (N : Nat) (reqs : Nat → Req) (ls : Nat → List Step) (σ : List Event) (c : Cfg)
    (hreq : ∀ i, i < N → ls i = prog (reqs i)) (hN : ∀ i, N ≤ i → ls i = [])
    (hns : ∀ i, i < N → Step.shutdown ∉ prog (reqs i))
    (hm : Merges ls σ) (hinv : Inv w c.shared) (hsd : c.shared.shutdown = false)
    (hl : ∀ i, c.locals i = {}) :
    Inv w (run w reqs c σ).shared ∧
    (∀ i, i < N → (reqs i).kind ≠ .env →
      (∃ s', Inv w s' ∧ s'.shutdown = false ∧ ((run w reqs c σ).locals i).resp = solo w (reqs i) s') ∧
      ((reqs i).kind ≠ .health →
        ((run w reqs c σ).locals i).resp = some (expected w (reqs i) false) ∧
        ∀ s', Inv w s' → s'.shutdown = false → ((run w reqs c σ).locals i).resp = solo w (reqs i) s')) ∧
    List.Perm (run w reqs c σ).shared.audit
      (c.shared.audit ++ (List.range N).flatMap (fun i => if succeeds w (reqs i) then [record (reqs i)] else [])) := by
  have hA : ∀ i st, st ∈ ls i → st ≠ .shutdown := by
    intro i st hmem heq
    by_cases hi : i < N
    · rw [hreq i hi] at hmem
      exact hns i hi (heq ▸ hmem)
    · rw [hN i (by omega)] at hmem
      cases hmem
  obtain ⟨hPfin, obs, hloc, haud⟩ :=
    run_merges w reqs (PIso w) (fun st => st ≠ .shutdown) N (fun s h => h.1)
      (fun s r st l hne h => PIso_step w s r st l hne h) hm c ⟨hinv, hsd⟩ hA hN
  -- shape of the observations of each request thread
  have hobs : ∀ i, i < N → (reqs i).kind ≠ .env →
      ∃ s', PIso w s' ∧ obs i = (if (reqs i).kind = .health then [false, healthy w s'] else [false]) := by
    intro i hi hk
    have hJ := (hloc i).1
    rw [hreq i hi] at hJ
    have := justified_prog (PIso w) w (reqs i) (obs i) hk (fun s h => h.2) hJ
    by_cases hh : (reqs i).kind = .health
    · obtain ⟨s', hs', ho⟩ := this.2 hh
      exact ⟨s', hs', by simp [hh, ho]⟩
    · exact ⟨c.shared, ⟨hinv, hsd⟩, by simp [hh, this.1 hh]⟩
  refine ⟨hPfin.1, ?_, ?_⟩
  · intro i hi hk
    obtain ⟨s', hs', ho⟩ := hobs i hi hk
    have hr : ((run w reqs c σ).locals i).resp = some (expected w (reqs i) (healthy w s')) := by
      rw [(hloc i).2, hreq i hi, hl i, ho]
      exact localRun_prog w (reqs i) (healthy w s') hk
    refine ⟨⟨s', hs'.1, hs'.2, ?_⟩, ?_⟩
    · rw [hr, solo_response w (reqs i) s' hk hs'.1 hs'.2]
    · intro hh
      have hexp : ∀ b, expected w (reqs i) b = expected w (reqs i) false := by
        intro b
        cases hkind : (reqs i).kind <;> simp [hkind] at hh ⊢ <;> simp [expected, hkind]
      refine ⟨by rw [hr, hexp], ?_⟩
      intro s2 hi2 hs2
      rw [hr, solo_response w (reqs i) s2 hk hi2 hs2, hexp, hexp (healthy w s2)]
  · refine List.perm_iff_count.mpr (fun x => ?_)
    rw [haud x, List.count_append, count_flatMap_range]
    congr 1
    have : ∀ m, m ≤ N → sumTo m (fun i => (auditOf w (reqs i) (obs i) (ls i) (c.locals i)).count x) =
        sumTo m (fun i => (if succeeds w (reqs i) then [record (reqs i)] else []).count x) := by
      intro m hmN
      induction m with
      | zero => rfl
      | succ m ih =>
        simp only [sumTo]
        rw [ih (by omega)]
        congr 2
        have hi : m < N := by omega
        rw [hreq m hi, hl m]
        by_cases hk : (reqs m).kind = .env
        · rw [auditOf_env w (reqs m) (prog (reqs m)) (by simp [prog, hk])]
          simp [succeeds, hk]
        · obtain ⟨s', _, ho⟩ := hobs m hi hk
          rw [ho, auditOf_prog]
    exact this N (Nat.le_refl _)

/-! ## non-vacuity of `isolation`: two concurrent requests and an environment thread -/

namespace Ex
def w : World := ⟨fun n => if n = 7 then some 70 else if n = 8 then some 80 else none, none, 5, 3, 30, false,
  fun k d o _ => k * 10000 + d * 10 + o, fun h b => h * 100 + b, fun _ => [7, 8]⟩
def reqs : Nat → Req
  | 0 => { kind := .sign, key := 7, hash := 1, body := 5, opts := 1, file := 0 }
  | 1 => { kind := .sign, key := 8, hash := 2, body := 6, opts := 2, file := 1 }
  | 2 => { kind := .health }
  | _ => { kind := .env, env := [.tick, .healthCheck false, .tick, .refill] }
def s0 : State := ⟨0, fun _ => none, 1, 3, 0, none, [], 0, false⟩
/-- an interleaving in which request 1 fetches its key between request 0's key fetch and signature,
    the clock ticks past the cache expiry and a health check fails in between -/
def σ : List Event :=
  [(0, .accept), (1, .accept), (0, .parse), (0, .getKey), (3, .tick), (1, .parse), (1, .getKey), (2, .accept),
   (3, .healthCheck false), (0, .metric), (1, .metric), (1, .getTs), (1, .sign), (0, .getTs), (2, .readHealth),
   (3, .tick), (0, .sign), (1, .audit), (0, .audit), (3, .refill), (1, .respond), (0, .respond), (2, .respond)]
def fin : Cfg := run w reqs ⟨s0, fun _ => {}⟩ σ
example : (fin.locals 0).resp = some (.signed (70 * 10000 + 105 * 10 + 1)) := by decide
example : (fin.locals 1).resp = some (.signed (80 * 10000 + 206 * 10 + 2)) := by decide
example : (fin.locals 2).resp = some (.health true) := by decide
example : fin.shared.audit = [⟨8, 2, 2, 1⟩, ⟨7, 1, 1, 0⟩] := by decide
example : succeeds w (reqs 0) = true ∧ succeeds w (reqs 1) = true := by decide
end Ex

/-- what the model excludes: were the cache to store entries under a constant name (so that `Inv`
    fails: the entry for name 8 holds the key of name 7), request 1 would be signed with the wrong key. -/
example :
    let bad : State := { Ex.s0 with cache := fun _ => some ⟨70, 100⟩ }
    ¬ Inv Ex.w bad ∧ solo Ex.w (Ex.reqs 1) bad = some (.signed (70 * 10000 + 206 * 10 + 2)) := by
  refine ⟨?_, by decide⟩
  intro h
  have := h.1 8 ⟨70, 100⟩ rfl
  simp [Ex.w] at this

/-! ## deadlock freedom -/

/-- **lock_order_acyclic.** Every step acquires at most one mutex, plus possibly a limiter token
    while holding the cache mutex; within a step locks are taken in strictly increasing rank, and
    all are released before the step ends: the lock order is acyclic. -/
theorem lock_order_acyclic (st : Step) :
    ((locks st).filter (· ≠ .limiter)).length ≤ 1 ∧ (locks st).length ≤ 2 ∧
    List.Pairwise (fun a b => a.rank < b.rank) (locks st) := by
  cases st <;> simp [locks, Lock.rank]

example : locks .getKey = [.cacheMu, .limiter] := rfl

/-- schedules with limiter refills (`none`) interleaved -/
def execOpt (w : World) (reqs : Nat → Req) (c : Cfg) : Option Event → Cfg
  | none => { c with shared := { c.shared with limiter := c.shared.limiter + 1 } }
  | some e => execEv w reqs c e

/-- every step of the schedule is enabled when its turn comes -/
def Feasible (w : World) (reqs : Nat → Req) : Cfg → List (Option Event) → Prop
  | _, [] => True
  | c, none :: σ => Feasible w reqs (execOpt w reqs c none) σ
  | c, some e :: σ => Enabled c.shared e.2 (c.locals e.1) = true ∧ Feasible w reqs (execEv w reqs c e) σ

theorem sumTo_pos (n : Nat) (f : Nat → Nat) (h : 0 < sumTo n f) : ∃ i, i < n ∧ 0 < f i := by
  induction n with
  | zero => simp [sumTo] at h
  | succ n ih =>
    simp only [sumTo] at h
    by_cases h0 : 0 < f n
    · exact ⟨n, by omega, h0⟩
    · obtain ⟨i, hi, hf⟩ := ih (by omega)
      exact ⟨i, by omega, hf⟩

theorem sumTo_zero_inv (n : Nat) (f : Nat → Nat) (h : sumTo n f = 0) : ∀ i, i < n → f i = 0 := by
  induction n with
  | zero => intro i hi; omega
  | succ n ih =>
    simp only [sumTo] at h
    intro i hi
    by_cases hin : i = n
    · subst hin; omega
    · exact ih (by omega) i (by omega)

/-- **deadlock_free.** From EVERY configuration (any shared state, any remaining step lists of `N`
    threads, hence every reachable one) there is a schedule that completes all threads in which
    every step is enabled when it runs, provided the limiter refills (`none` events).  No step blocks
    forever: between steps every mutex is free (`lock_order_acyclic`), so the only thing a step can
    wait for is a limiter token. -/
theorem deadlock_free (w : World) (reqs : Nat → Req) (N : Nat) :
    ∀ (m : Nat) (ls : Nat → List Step) (c : Cfg), (∀ i, N ≤ i → ls i = []) →
      sumTo N (fun i => (ls i).length) = m →
      ∃ σ : List (Option Event), Merges ls (σ.filterMap id) ∧ Feasible w reqs c σ := by
  intro m
  induction m with
  | zero =>
    intro ls c hN hm
    refine ⟨[], Merges.done (fun i => ?_), trivial⟩
    by_cases hi : i < N
    · exact List.eq_nil_of_length_eq_zero (sumTo_zero_inv N _ hm i hi)
    · exact hN i (by omega)
  | succ m ih =>
    intro ls c hN hm
    obtain ⟨i, hi, hpos⟩ := sumTo_pos N _ (by rw [hm]; omega)
    match hls : ls i with
    | [] => rw [hls] at hpos; simp at hpos
    | st :: rest =>
      have hN' : ∀ j, N ≤ j → upd ls i rest j = [] := by
        intro j hj
        rw [upd_other _ _ _ _ (by omega)]
        exact hN j hj
      have hm' : sumTo N (fun j => (upd ls i rest j).length) = m := by
        have := sumTo_change N (fun j => (ls j).length) (fun j => (upd ls i rest j).length) i 1 hi
          (fun j hj => by simp only [upd_other _ _ _ _ hj]) (by simp [hls]; omega)
        omega
      by_cases hen : Enabled c.shared st (c.locals i) = true
      · obtain ⟨σ, hmg, hf⟩ := ih (upd ls i rest) (execEv w reqs c (i, st)) hN' hm'
        exact ⟨some (i, st) :: σ, Merges.pick i st rest hls hmg, hen, hf⟩
      · let c' := execOpt w reqs c none
        have hen' : Enabled c'.shared st (c'.locals i) = true := by
          simp [Enabled, c', execOpt]
        obtain ⟨σ, hmg, hf⟩ := ih (upd ls i rest) (execEv w reqs c' (i, st)) hN' hm'
        exact ⟨none :: some (i, st) :: σ, Merges.pick i st rest hls hmg, hen', hf⟩

example : Enabled { Ex.s0 with limiter := 0 } .sign {} = false ∧ Enabled { Ex.s0 with limiter := 1 } .sign {} = true := by
  decide

/-! ## shutdown -/

/-- every schedule that is a merge splits, at any position, into a merge of prefixes followed by a
    merge of the remaining suffixes -/
theorem merges_split (σ₁ σ₂ : List Event) : ∀ (ls : Nat → List Step), Merges ls (σ₁ ++ σ₂) →
    ∃ ls1 ls2 : Nat → List Step, (∀ i, ls i = ls1 i ++ ls2 i) ∧ Merges ls1 σ₁ ∧ Merges ls2 σ₂ := by
  induction σ₁ with
  | nil =>
    intro ls hm
    exact ⟨fun _ => [], ls, fun i => rfl, Merges.done (fun _ => rfl), hm⟩
  | cons e σ₁ ih =>
    intro ls hm
    cases hm with
    | pick i st rest hi hm' =>
      obtain ⟨ls1, ls2, hsplit, h1, h2⟩ := ih _ hm'
      refine ⟨upd ls1 i (st :: ls1 i), ls2, ?_, ?_, h2⟩
      · intro j
        by_cases hj : j = i
        · subst hj
          have := hsplit j
          rw [upd_same] at this
          rw [upd_same, hi, this]
          rfl
        · have := hsplit j
          rw [upd_other _ _ _ _ hj] at this
          rw [upd_other _ _ _ _ hj, this]
      · refine Merges.pick i st (ls1 i) (upd_same _ _ _) ?_
        have : upd (upd ls1 i (st :: ls1 i)) i (ls1 i) = ls1 := by
          funext j
          by_cases hj : j = i
          · subst hj; simp
          · simp [upd, hj]
        rw [this]
        exact h1

theorem justified_append (P Q R : State → Prop) (w : World) (hP : ∀ s, P s → R s) (hQ : ∀ s, Q s → R s)
    (a b : List Step) (o2 : List Bool) (hb : Justified Q w b o2) :
    ∀ o1, Justified P w a o1 → Justified R w (a ++ b) (o1 ++ o2) := by
  induction a with
  | nil =>
    intro o1 h1
    simp only [Justified] at h1
    subst h1
    simp only [List.nil_append]
    clear hP
    induction b generalizing o2 with
    | nil => exact hb
    | cons st b ihb =>
      simp only [Justified] at hb ⊢
      by_cases hd : stateDep st = true
      · simp only [hd, if_true] at hb ⊢
        obtain ⟨x, o', rfl, ⟨s', hs', hx⟩, hrest⟩ := hb
        exact ⟨x, o', rfl, ⟨s', hQ _ hs', hx⟩, ihb o' hrest⟩
      · simp only [hd] at hb ⊢
        exact ihb o2 hb
  | cons st a ih =>
    intro o1 h1
    simp only [Justified, List.cons_append] at h1 ⊢
    by_cases hd : stateDep st = true
    · simp only [hd, if_true] at h1 ⊢
      obtain ⟨x, o', rfl, ⟨s', hs', hx⟩, hrest⟩ := h1
      exact ⟨x, o' ++ o2, rfl, ⟨s', hP _ hs', hx⟩, ih o' hrest⟩
    · simp only [hd] at h1 ⊢
      exact ih o1 h1

theorem localRun_append (P : State → Prop) (w : World) (r : Req) (post : List Step) (o2 : List Bool) (pre : List Step) :
    ∀ (o1 : List Bool) (l : Local), Justified P w pre o1 →
      localRun w r (o1 ++ o2) (pre ++ post) l = localRun w r o2 post (localRun w r o1 pre l) := by
  induction pre with
  | nil =>
    intro o1 l h
    simp only [Justified] at h
    subst h
    rfl
  | cons st pre ih =>
    intro o1 l h
    simp only [Justified] at h
    by_cases hd : stateDep st = true
    · simp only [hd, if_true] at h
      obtain ⟨x, o', rfl, _, hrest⟩ := h
      simp only [List.cons_append, localRun, nextView, hd, if_true, List.headD_cons, List.tail_cons]
      exact ih o' _ hrest
    · simp only [hd] at h
      simp only [List.cons_append, localRun, nextView, hd]
      exact ih o1 _ h

theorem justified_tail (R : State → Prop) (w : World) (r : Req) (obs : List Bool) (hk : r.kind ≠ .env)
    (hJ : Justified R w (prog r).tail obs) :
    (r.kind ≠ .health → obs = []) ∧ (r.kind = .health → ∃ s', R s' ∧ obs = [healthy w s']) := by
  cases hkind : r.kind <;> simp [hkind] at hk ⊢ <;>
    simp only [prog, hkind, List.tail_cons, Justified, stateDep, if_true, observe, Bool.false_eq_true, if_false] at hJ
  · exact hJ
  · exact hJ
  · exact hJ
  · obtain ⟨b, obs', rfl, ⟨s', hs', hb⟩, hnil⟩ := hJ
    subst hnil
    exact ⟨s', hs', by rw [hb]⟩

theorem prog_head (r : Req) (hk : r.kind ≠ .env) : prog r = .accept :: (prog r).tail := by
  cases hkind : r.kind <;> simp [hkind] at hk <;> simp [prog, hkind]

theorem localRun_refused (w : World) (r : Req) (obs : List Bool) (hk : r.kind ≠ .env) :
    (localRun w r (true :: obs) (prog r) {}).resp = some .refused := by
  cases hkind : r.kind <;> simp [hkind] at hk <;>
    simp [prog, hkind, localRun, nextView, stateDep, stepL, skip, stepLocal, response]

def PSd (w : World) (s : State) : Prop := Inv w s ∧ s.shutdown = true

/-- **shutdown_drains.**  Model of `Daemon.Close` (`http.Server.Shutdown` inside the errgroup, then
    `Wait`): the shutdown step (thread `d`) arrives at an arbitrary moment of an arbitrary
    interleaving – by `merges_split` every merge containing it has the form
    `σ₁ ++ (d, shutdown) :: σ₂` with `σ₁` a merge of the prefixes `ls1 i` the threads had executed and
    `σ₂` a merge of what remained – and `Close` returns when the schedule is complete
    (ASSUMPTION: that is `http.Server.Shutdown`'s contract; it is not modelled).  Then every
    request whose first step preceded the shutdown step (`ls1 i ≠ []`) completes with the response
    it gets alone from a state satisfying `Inv` (`expected`, cf. `solo_response`); every later
    arrival is refused. -/
theorem shutdown_drains (w : World) (N d : Nat) (reqs : Nat → Req) (ls1 ls2 : Nat → List Step)
    (σ₁ σ₂ : List Event) (c : Cfg)
    (hprog : ∀ i, i < N → prog (reqs i) = ls1 i ++ ls2 i)
    (hns : ∀ i, i < N → Step.shutdown ∉ prog (reqs i))
    (hN1 : ∀ i, N ≤ i → ls1 i = []) (hN2 : ∀ i, N ≤ i → ls2 i = []) (hd : N ≤ d)
    (hm1 : Merges ls1 σ₁) (hm2 : Merges ls2 σ₂)
    (hinv : Inv w c.shared) (hsd : c.shared.shutdown = false) (hl : ∀ i, c.locals i = {}) :
    ∀ i, i < N → (reqs i).kind ≠ .env →
      (ls1 i ≠ [] → ∃ s', Inv w s' ∧
          ((run w reqs c (σ₁ ++ (d, Step.shutdown) :: σ₂)).locals i).resp = some (expected w (reqs i) (healthy w s'))) ∧
      (ls1 i = [] → ((run w reqs c (σ₁ ++ (d, Step.shutdown) :: σ₂)).locals i).resp = some .refused) := by
  intro i hi hk
  -- phase 1
  have hA1 : ∀ j st, st ∈ ls1 j → st ≠ .shutdown := by
    intro j st hmem heq
    by_cases hj : j < N
    · exact hns j hj (by rw [hprog j hj]; exact List.mem_append_left _ (heq ▸ hmem))
    · rw [hN1 j (by omega)] at hmem; cases hmem
  obtain ⟨hP1, obs1, hloc1, _⟩ :=
    run_merges w reqs (PIso w) (fun st => st ≠ .shutdown) N (fun s h => h.1)
      (fun s r st l hne h => PIso_step w s r st l hne h) hm1 c ⟨hinv, hsd⟩ hA1 hN1
  -- the shutdown step
  let c1 := run w reqs c σ₁
  have hc1d : c1.locals d = {} := by
    have := (hloc1 d).2
    rw [hN1 d hd, hl d] at this
    exact this
  let c2 := execEv w reqs c1 (d, .shutdown)
  have hP2 : PSd w c2.shared := by
    refine ⟨inv_exec w _ _ _ _ hP1.1, ?_⟩
    simp [c2, execEv, exec, hc1d, skip, stepShared]
  have hc2 : c2.locals i = c1.locals i := by
    simp [c2, execEv, upd_other _ _ _ _ (show i ≠ d by omega)]
  -- phase 2
  obtain ⟨_, obs2, hloc2, _⟩ :=
    run_merges w reqs (PSd w) (fun _ => True) N (fun s h => h.1)
      (fun s r st l _ h => ⟨inv_exec w r st s l h.1, exec_shutdown_mono w r st s l h.2⟩) hm2 c2 hP2
      (fun _ _ _ => trivial) hN2
  have hrun : run w reqs c (σ₁ ++ (d, Step.shutdown) :: σ₂) = run w reqs c2 σ₂ := by
    rw [run_append, run_cons]
  have hfin : (run w reqs c (σ₁ ++ (d, Step.shutdown) :: σ₂)).locals i =
      localRun w (reqs i) (obs1 i ++ obs2 i) (prog (reqs i)) {} := by
    rw [hrun, (hloc2 i).2, hc2, (hloc1 i).2, hl i, hprog i hi]
    exact (localRun_append (PIso w) w (reqs i) (ls2 i) (obs2 i) (ls1 i) (obs1 i) {} (hloc1 i).1).symm
  have hJ1 := (hloc1 i).1
  have hJ2 := (hloc2 i).1
  constructor
  · intro hne
    -- ls1 i = accept :: pre
    have hhead := prog_head (reqs i) hk
    obtain ⟨st, pre, hpre⟩ := List.exists_cons_of_ne_nil hne
    have hst : st = .accept ∧ (prog (reqs i)).tail = pre ++ ls2 i := by
      have := hprog i hi
      rw [hpre, hhead] at this
      simp only [List.cons_append, List.cons.injEq] at this
      exact ⟨this.1.symm, by rw [hhead]; exact this.2⟩
    rw [hpre, hst.1] at hJ1
    simp only [Justified, stateDep, if_true] at hJ1
    obtain ⟨b, o1', ho1, ⟨s1, hs1, hb⟩, hJpre⟩ := hJ1
    have hbf : b = false := by rw [← hb]; exact hs1.2
    have hJt : Justified (Inv w) w (prog (reqs i)).tail (o1' ++ obs2 i) := by
      rw [hst.2]
      exact justified_append (PIso w) (PSd w) (Inv w) w (fun s h => h.1) (fun s h => h.1) pre (ls2 i) (obs2 i) hJ2 o1' hJpre
    have ht := justified_tail (Inv w) w (reqs i) _ hk hJt
    by_cases hh : (reqs i).kind = .health
    · obtain ⟨s', hs', ho⟩ := ht.2 hh
      refine ⟨s', hs', ?_⟩
      rw [hfin, ho1, hbf, List.cons_append, ho]
      have := localRun_prog w (reqs i) (healthy w s') hk
      simpa [hh] using this
    · refine ⟨c.shared, hinv, ?_⟩
      rw [hfin, ho1, hbf, List.cons_append, ht.1 hh]
      have := localRun_prog w (reqs i) (healthy w c.shared) hk
      simpa [hh] using this
  · intro hnil
    rw [hnil] at hJ1
    simp only [Justified] at hJ1
    have hp2 : prog (reqs i) = ls2 i := by rw [hprog i hi, hnil]; rfl
    rw [← hp2, prog_head (reqs i) hk] at hJ2
    simp only [Justified, stateDep, if_true] at hJ2
    obtain ⟨b, o2', ho2, ⟨s2, hs2, hb⟩, _⟩ := hJ2
    have hbt : b = true := by rw [← hb]; exact hs2.2
    rw [hfin, hJ1, List.nil_append, ho2, hbt]
    exact localRun_refused w (reqs i) o2' hk

/-- non-vacuity: request 0 is accepted before the shutdown and gets its signature, request 1 arrives
    after it and is refused -/
example :
    let σ₁ : List Event := [(0, .accept), (0, .parse), (0, .getKey)]
    let σ₂ : List Event := [(1, .accept), (0, .metric), (0, .getTs), (1, .parse), (0, .sign), (0, .audit), (1, .getKey),
                            (1, .metric), (1, .getTs), (1, .sign), (1, .audit), (0, .respond), (1, .respond)]
    let fin := run Ex.w Ex.reqs ⟨Ex.s0, fun _ => {}⟩ (σ₁ ++ (9, Step.shutdown) :: σ₂)
    (fin.locals 0).resp = some (.signed (70 * 10000 + 105 * 10 + 1)) ∧ (fin.locals 1).resp = some .refused ∧
    fin.shared.audit = [⟨7, 1, 1, 0⟩] := by decide

/-! ## the inventory of shared state regenerated from the source -/

/-- **inventory_closed.** Every package-level variable (and every receiver field of the
    infrastructure packages) that the current Go source writes outside `init` is a shared
    component of the model written under the lock the model assigns to it, or an allow-listed
    write-once / registration-time / per-request write.  New request-dependent package-level
    state, or a write moved outside its mutex, falsifies this. -/
theorem inventory_closed : inventoryOk Relic.Generated.SharedState.entries = true := by decide

/-- the model's shared components are all still present in the source -/
theorem inventory_live : tableLive Relic.Generated.SharedState.entries = true := by decide

example : inventoryOk [⟨"server", "healthStatus", "Server.healthCheck", none⟩] = false := by decide
example : inventoryOk [⟨"server", "hash", "Server.serveSign", none⟩] = false := by decide

end Relic.Props.C14

/-
  Relic.Proofs.MsiSign — lemmas about the MSI sign → insert → verify model (`Relic.Model.MsiSign`):
  what `Close` + `ReadFile` may change (`Reread`), invariance of the digest inputs under it, the
  characterisation of `DeleteFile` / `InsertMSISignature`, what `VerifyMSI` locates.  Core tactics only.
-/
import Relic.Model.MsiSign
import Relic.Proofs.MsiTree
import Relic.Proofs.MsiTar
namespace Relic.MsiSign
open Relic Relic.MsiDigest Relic.RedBlack
set_option linter.unusedSimpArgs false
set_option linter.unusedVariables false

/-! ### what writing the file and reading it again may change -/

/-- a directory entry without its tree links and start sector (`rebuildTree`, `addStream` set them anew) -/
def stripM (m : Meta) : Meta := { m with color := 0, left := 0, right := 0, child := 0, start := 0 }
/-- the root entry: its size field is the length of the mini-stream container as well -/
def stripRoot (m : Meta) : Meta := { stripM m with size := 0 }
def strip : Node → Node
  | .mk m c k => .mk (stripM m) c k

/-- `d'` is what `comdoc.ReadFile` may deliver after `d` was written by `Close`: the same root entry and the same
    entries of the root storage – contents, sub-trees and every field except colour, the three links and the start
    sector – in any `ListDir` order -/
def Reread (d d' : Node) : Prop :=
  stripRoot d'.meta = stripRoot d.meta ∧ (d'.kids.map strip).Perm (d.kids.map strip)

theorem Reread.refl (d : Node) : Reread d d := ⟨rfl, List.Perm.refl _⟩
theorem Reread.trans {a b c : Node} (h₁ : Reread a b) (h₂ : Reread b c) : Reread a c :=
  ⟨h₂.1.trans h₁.1, h₂.2.trans h₁.2⟩

@[simp] theorem strip_meta (n : Node) : (strip n).meta = stripM n.meta := by cases n; rfl
@[simp] theorem strip_content (n : Node) : (strip n).content = n.content := by cases n; rfl
@[simp] theorem strip_kids (n : Node) : (strip n).kids = n.kids := by cases n; rfl
@[simp] theorem goName_stripM (m : Meta) : goName (stripM m) = goName m := rfl
@[simp] theorem isSig_stripM (m : Meta) : isSig (stripM m) = isSig m := rfl
@[simp] theorem typ_stripM (m : Meta) : (stripM m).typ = m.typ := rfl
@[simp] theorem specName_stripM (m : Meta) : Spec.MsiDigest.specName (stripM m) = Spec.MsiDigest.specName m := rfl
@[simp] theorem isSigStream_stripM (m : Meta) :
    Spec.MsiDigest.isSignatureStream (stripM m) = Spec.MsiDigest.isSignatureStream m := rfl
@[simp] theorem specBefore_stripM (a b : Meta) :
    Spec.MsiDigest.specBefore (stripM a) (stripM b) = Spec.MsiDigest.specBefore a b := rfl
@[simp] theorem wfNameB_stripM (m : Meta) : wfNameB (stripM m) = wfNameB m := rfl
@[simp] theorem metaInput_stripM (m : Meta) :
    Spec.MsiDigest.metaInput (stripM m) false = Spec.MsiDigest.metaInput m false := rfl

theorem metas_strip (ks : List Node) : metas (ks.map strip) = (metas ks).map stripM := by
  simp [metas, List.map_map, Function.comp_def]

/-! ### the specification's digest inputs do not see the stripped fields -/

variable {β : Type}

def stripFst (x : Meta × β) : Meta × β := (stripM x.1, x.2)

theorem insertSorted_strip (x : Meta × β) : ∀ l : List (Meta × β),
    Spec.MsiDigest.insertSorted (stripFst x) (l.map stripFst) = (Spec.MsiDigest.insertSorted x l).map stripFst
  | [] => rfl
  | y :: r => by
    simp only [List.map_cons, Spec.MsiDigest.insertSorted]
    have : Spec.MsiDigest.specBefore (stripFst x).1 (stripFst y).1 = Spec.MsiDigest.specBefore x.1 y.1 := rfl
    rw [this]
    by_cases hb : Spec.MsiDigest.specBefore x.1 y.1 = true
    · simp [hb]
    · simp [hb, insertSorted_strip x r]

theorem digestOrder_strip : ∀ l : List (Meta × β),
    Spec.MsiDigest.digestOrder (l.map stripFst) = (Spec.MsiDigest.digestOrder l).map stripFst
  | [] => rfl
  | x :: r => by
    have ih := digestOrder_strip r
    unfold Spec.MsiDigest.digestOrder at ih ⊢
    simp only [List.map_cons, List.foldr_cons]
    rw [ih, insertSorted_strip]

theorem sigFilter_strip (isRoot : Bool) (l : List (Meta × Bytes)) :
    ((l.map stripFst).filter (fun k => !(isRoot && Spec.MsiDigest.isSignatureStream k.1))).flatMap (·.2) =
    (l.filter (fun k => !(isRoot && Spec.MsiDigest.isSignatureStream k.1))).flatMap (·.2) := by
  induction l with
  | nil => rfl
  | cons x r ih =>
    simp only [List.map_cons, List.filter_cons]
    have : Spec.MsiDigest.isSignatureStream (stripFst x).1 = Spec.MsiDigest.isSignatureStream x.1 := rfl
    rw [this]
    by_cases hp : (!(isRoot && Spec.MsiDigest.isSignatureStream x.1)) = true
    · simp only [hp, if_true, List.flatMap_cons, ih]; rfl
    · simp only [hp, Bool.false_eq_true, if_false, ih]

theorem entryInput_strip (n : Node) : Spec.MsiDigest.entryInput (strip n) = stripFst (Spec.MsiDigest.entryInput n) := by
  cases n with
  | mk m c k => simp only [strip, Spec.MsiDigest.entryInput, stripFst]; rfl

theorem entryMeta_strip (n : Node) : Spec.MsiDigest.entryMeta (strip n) = stripFst (Spec.MsiDigest.entryMeta n) := by
  cases n with
  | mk m c k => simp only [strip, Spec.MsiDigest.entryMeta, stripFst]; rfl

theorem entriesInput_strip (ks : List Node) :
    Spec.MsiDigest.entriesInput (ks.map strip) = (Spec.MsiDigest.entriesInput ks).map stripFst := by
  rw [entriesInput_eq_map, entriesInput_eq_map, List.map_map, List.map_map]
  apply List.map_congr_left
  intro n _
  exact entryInput_strip n

theorem entriesMeta_strip (ks : List Node) :
    Spec.MsiDigest.entriesMeta (ks.map strip) = (Spec.MsiDigest.entriesMeta ks).map stripFst := by
  rw [entriesMeta_eq_map, entriesMeta_eq_map, List.map_map, List.map_map]
  apply List.map_congr_left
  intro n _
  exact entryMeta_strip n

theorem hashInput_strip (m : Meta) (c : Bytes) (ks : List Node) :
    Spec.MsiDigest.hashInput (.mk m c (ks.map strip)) = Spec.MsiDigest.hashInput (.mk m c ks) := by
  unfold Spec.MsiDigest.hashInput Spec.MsiDigest.dirInput
  simp only [Node.meta, Node.kids]
  rw [entriesInput_strip, digestOrder_strip, sigFilter_strip]

theorem prehashInput_strip (m : Meta) (c : Bytes) (ks : List Node) :
    Spec.MsiDigest.prehashInput (.mk m c (ks.map strip)) = Spec.MsiDigest.prehashInput (.mk m c ks) := by
  unfold Spec.MsiDigest.prehashInput Spec.MsiDigest.dirMetaInput
  simp only [Node.meta, Node.kids]
  rw [entriesMeta_strip, digestOrder_strip, sigFilter_strip]

/-! ### `SibsOk`, `okAt` under stripping and permutation -/

theorem sibsOk_strip (ms : List Meta) : SibsOk (ms.map stripM) ↔ SibsOk ms := by
  unfold SibsOk
  constructor
  · intro h
    refine ⟨fun m hm => ?_, ?_⟩
    · have := h.1 (stripM m) (List.mem_map_of_mem hm); simpa using this
    · have := h.2; rw [List.pairwise_map] at this; exact this.imp (fun hab => by simpa using hab)
  · intro h
    refine ⟨fun m hm => ?_, ?_⟩
    · obtain ⟨m', hm', rfl⟩ := List.mem_map.mp hm
      simpa using h.1 m' hm'
    · rw [List.pairwise_map]; exact h.2.imp (fun hab => by simpa using hab)

theorem sibsOk_perm {a b : List Meta} (hp : a.Perm b) (h : SibsOk a) : SibsOk b :=
  ⟨fun m hm => h.1 m (hp.symm.subset hm), hp.pairwise h.2 (fun hab e => hab e.symm)⟩

theorem nodesOk_iff : ∀ ks : List Node, Nodes.ok ks ↔ ∀ k ∈ ks, Node.okAt false k
  | [] => by rw [Nodes.ok]; simp
  | n :: r => by rw [Nodes.ok, nodesOk_iff r]; simp

theorem okAt_strip (b : Bool) (n : Node) : Node.okAt b (strip n) ↔ Node.okAt b n := by
  cases n with
  | mk m c k => simp only [strip]; rw [Node.okAt, Node.okAt]

theorem okAt_root_iff (m : Meta) (c : Bytes) (ks : List Node) :
    Node.okAt true (.mk m c ks) ↔ SibsOk (metas ks) ∧ ∀ k ∈ ks, Node.okAt false k := by
  rw [Node.okAt, nodesOk_iff]

/-- a re-read document satisfies the hypotheses of the digest theorems if the written one does -/
theorem Reread.okAt {d d' : Node} (h : Reread d d') (hd : Node.okAt true d) : Node.okAt true d' := by
  cases d with
  | mk m c ks =>
  cases d' with
  | mk m' c' ks' =>
    rw [okAt_root_iff] at hd ⊢
    have hp : (ks'.map strip).Perm (ks.map strip) := h.2
    refine ⟨?_, ?_⟩
    · rw [← sibsOk_strip, ← metas_strip]
      have : (metas (ks.map strip)).Perm (metas (ks'.map strip)) := by
        unfold metas; exact (hp.map _).symm
      exact sibsOk_perm this (by rw [metas_strip, sibsOk_strip]; exact hd.1)
    · intro k hk
      have : strip k ∈ ks.map strip := hp.subset (List.mem_map_of_mem hk)
      obtain ⟨k0, hk0, e⟩ := List.mem_map.mp this
      rw [← okAt_strip, ← e, okAt_strip]
      exact hd.2 k0 hk0

theorem Reread.typ {d d' : Node} (h : Reread d d') : d'.meta.typ = d.meta.typ := by
  have := congrArg Meta.typ h.1
  exact this

theorem Reread.clsid {d d' : Node} (h : Reread d d') : d'.meta.clsid = d.meta.clsid := by
  have := congrArg Meta.clsid h.1
  exact this

/-! ### only the entries that are not signature streams matter, in any order (specification level) -/

theorem hashInput_perm (m₁ m₂ : Meta) (c₁ c₂ : Bytes) (k₁ k₂ : List Node) (hc : m₁.clsid = m₂.clsid)
    (h₁ : SibsOk (metas k₁)) (h₂ : SibsOk (metas k₂))
    (hk : (k₁.filter (fun n => !Spec.MsiDigest.isSignatureStream n.meta)).Perm
          (k₂.filter (fun n => !Spec.MsiDigest.isSignatureStream n.meta))) :
    Spec.MsiDigest.hashInput (.mk m₁ c₁ k₁) = Spec.MsiDigest.hashInput (.mk m₂ c₂ k₂) := by
  unfold Spec.MsiDigest.hashInput Spec.MsiDigest.dirInput
  simp only [Node.meta, Node.kids, Bool.true_and, hc]
  rw [digestOrder_filter_congr (fun k => !Spec.MsiDigest.isSignatureStream k) _ _
    (by rw [entriesInput_fst]; exact h₁) (by rw [entriesInput_fst]; exact h₂)]
  rw [entriesInput_eq_map, entriesInput_eq_map,
    filter_entries _ entryInput_fst (fun k => !Spec.MsiDigest.isSignatureStream k),
    filter_entries _ entryInput_fst (fun k => !Spec.MsiDigest.isSignatureStream k)]
  exact hk.map _

theorem prehashInput_perm (m₁ m₂ : Meta) (c₁ c₂ : Bytes) (k₁ k₂ : List Node)
    (hc : Spec.MsiDigest.metaInput m₁ true = Spec.MsiDigest.metaInput m₂ true)
    (h₁ : SibsOk (metas k₁)) (h₂ : SibsOk (metas k₂))
    (hk : (k₁.filter (fun n => !Spec.MsiDigest.isSignatureStream n.meta)).Perm
          (k₂.filter (fun n => !Spec.MsiDigest.isSignatureStream n.meta))) :
    Spec.MsiDigest.prehashInput (.mk m₁ c₁ k₁) = Spec.MsiDigest.prehashInput (.mk m₂ c₂ k₂) := by
  unfold Spec.MsiDigest.prehashInput Spec.MsiDigest.dirMetaInput
  simp only [Node.meta, Node.kids, Bool.true_and, hc]
  rw [digestOrder_filter_congr (fun k => !Spec.MsiDigest.isSignatureStream k) _ _
    (by rw [entriesMeta_fst]; exact h₁) (by rw [entriesMeta_fst]; exact h₂)]
  rw [entriesMeta_eq_map, entriesMeta_eq_map,
    filter_entries _ entryMeta_fst (fun k => !Spec.MsiDigest.isSignatureStream k),
    filter_entries _ entryMeta_fst (fun k => !Spec.MsiDigest.isSignatureStream k)]
  exact hk.map _

theorem metaInput_root_strip (m : Meta) (hr : m.typ = typRoot) :
    Spec.MsiDigest.metaInput (stripRoot m) true = Spec.MsiDigest.metaInput m true := by
  unfold Spec.MsiDigest.metaInput stripRoot stripM
  have : m.typ ≠ 2 := by rw [hr]; decide
  simp [this]

theorem filter_strip (p : Meta → Bool) (hp : ∀ m, p (stripM m) = p m) (ks : List Node) :
    (ks.map strip).filter (fun n => p n.meta) = (ks.filter (fun n => p n.meta)).map strip := by
  rw [List.filter_map]
  congr 1
  apply List.filter_congr
  intro n _
  simp [hp]

/-- **the digest inputs of a re-read document are those of the written one** -/
theorem Reread.inputs {d d' : Node} (h : Reread d d') (hd : Node.okAt true d) (hr : d.meta.typ = typRoot) :
    Spec.MsiDigest.hashInput d' = Spec.MsiDigest.hashInput d ∧
    Spec.MsiDigest.prehashInput d' = Spec.MsiDigest.prehashInput d := by
  have hd' := h.okAt hd
  have hr' : d'.meta.typ = typRoot := h.typ.trans hr
  cases d with
  | mk m c ks =>
  cases d' with
  | mk m' c' ks' =>
    have s₁ : SibsOk (metas (ks.map strip)) := by rw [metas_strip, sibsOk_strip]; exact ((okAt_root_iff _ _ _).mp hd).1
    have s₂ : SibsOk (metas (ks'.map strip)) := by rw [metas_strip, sibsOk_strip]; exact ((okAt_root_iff _ _ _).mp hd').1
    have hp : ((ks'.map strip).filter (fun n => !Spec.MsiDigest.isSignatureStream n.meta)).Perm
        ((ks.map strip).filter (fun n => !Spec.MsiDigest.isSignatureStream n.meta)) := h.2.filter _
    have hm : Spec.MsiDigest.metaInput m' true = Spec.MsiDigest.metaInput m true := by
      have e : stripRoot m' = stripRoot m := h.1
      rw [← metaInput_root_strip m' hr', ← metaInput_root_strip m hr, e]
    constructor
    · rw [← hashInput_strip m' c' ks', ← hashInput_strip m c ks]
      exact hashInput_perm m' m c' c _ _ h.clsid s₂ s₁ hp
    · rw [← prehashInput_strip m' c' ks', ← prehashInput_strip m c ks]
      exact prehashInput_perm m' m c' c _ _ hm s₂ s₁ hp


/-! ### the two directory entries `newDirEnt` makes -/

theorem wfNameB_congr (a b : Meta) (h1 : a.slots = b.slots) (h2 : a.nameLen = b.nameLen) (h3 : a.typ = b.typ) :
    wfNameB a = wfNameB b := by unfold wfNameB; rw [h1, h2, h3]

theorem newMeta_wf_sig (n s : Nat) : wfNameB (newMeta sigName n s) = true := by
  rw [wfNameB_congr (newMeta sigName n s) (newMeta sigName 0 0) rfl rfl rfl]; decide
theorem newMeta_wf_ex (n s : Nat) : wfNameB (newMeta sigExName n s) = true := by
  rw [wfNameB_congr (newMeta sigExName n s) (newMeta sigExName 0 0) rfl rfl rfl]; decide

theorem specName_newMeta_sig (n s : Nat) : Spec.MsiDigest.specName (newMeta sigName n s) = sigName := by
  show Spec.MsiDigest.specName (newMeta sigName 0 0) = sigName
  decide
theorem specName_newMeta_ex (n s : Nat) : Spec.MsiDigest.specName (newMeta sigExName n s) = sigExName := by
  show Spec.MsiDigest.specName (newMeta sigExName 0 0) = sigExName
  decide

theorem goName_wf (m : Meta) (h : wfNameB m = true) : goName m = utf16Decode (Spec.MsiDigest.specName m) := by
  unfold goName; rw [nameUnits_wf m (wfName_of_B m h)]

theorem goName_newMeta_sig (n s : Nat) : goName (newMeta sigName n s) = sigName := by
  rw [goName_wf _ (newMeta_wf_sig n s), specName_newMeta_sig]
  exact utf16Decode_id sigName (fun x hx => (sigName_plain x hx).1)
theorem goName_newMeta_ex (n s : Nat) : goName (newMeta sigExName n s) = sigExName := by
  rw [goName_wf _ (newMeta_wf_ex n s), specName_newMeta_ex]
  exact utf16Decode_id sigExName (fun x hx => (sigExName_plain x hx).1)

/-- on a well-formed entry: the decoded name is a signature name iff the stored units are -/
theorem goName_eq_sig_iff (m : Meta) (h : wfNameB m = true) :
    (goName m = sigName ↔ Spec.MsiDigest.specName m = sigName) ∧
    (goName m = sigExName ↔ Spec.MsiDigest.specName m = sigExName) := by
  rw [goName_wf m h]
  exact ⟨decode_eq_iff _ sigName sigName_plain, decode_eq_iff _ sigExName sigExName_plain⟩

def sigNode (pkcs : Bytes) (s : Nat) : Node := .mk (newMeta sigName pkcs.length s) pkcs []
def exNode (ex : Bytes) (s : Nat) : Node := .mk (newMeta sigExName ex.length s) ex []

@[simp] theorem isSig_sigNode (p : Bytes) (s : Nat) : isSig (sigNode p s).meta = true := by
  simp [sigNode, Node.meta, isSig, goName_newMeta_sig]
@[simp] theorem isSig_exNode (p : Bytes) (s : Nat) : isSig (exNode p s).meta = true := by
  simp [exNode, Node.meta, isSig, goName_newMeta_ex]

/-! ### `DeleteFile`, `AddFile`, `InsertMSISignature` -/

theorem deleteFile_eq (t : List Nat) : ∀ kids : List Node, deleteFile t kids =
    if kids.all (fun n => !equalFold (goName n.meta) t || n.meta.typ == typStream) then
      .ok (kids.filter (fun n => !equalFold (goName n.meta) t))
    else .err "storage"
  | [] => rfl
  | n :: r => by
    rw [deleteFile, deleteFile_eq t r]
    by_cases hf : equalFold (goName n.meta) t = true
    · by_cases ht : n.meta.typ = typStream
      · simp [hf, ht]
      · simp [hf, ht]
    · simp only [hf, Bool.not_false, if_true, Bool.true_or, List.all_cons, Bool.true_and, List.filter_cons]
      by_cases ha : (r.all fun n => !equalFold (goName n.meta) t || n.meta.typ == typStream) = true
      · simp [ha]
      · simp [ha]

theorem equalFold_sig_refl : equalFold sigName sigName = true := by decide
theorem equalFold_ex_refl : equalFold sigExName sigExName = true := by decide
theorem ex_ne_sig : (sigExName == sigName) = false := by decide
theorem sig_ne_ex : (sigName == sigExName) = false := by decide

/-- the hypotheses in the form the characterisation uses -/
theorem fold_iff_of_noAlias {kids : List Node} (h : noAliasB kids = true) (n : Node) (hn : n ∈ kids) :
    (equalFold (goName n.meta) sigName = true ↔ goName n.meta = sigName) ∧
    (equalFold (goName n.meta) sigExName = true ↔ goName n.meta = sigExName) := by
  have := List.all_eq_true.mp h n hn
  simp only [Bool.and_eq_true, Bool.or_eq_true, Bool.not_eq_true', beq_iff_eq] at this
  refine ⟨⟨fun hf => ?_, fun he => by rw [he]; decide⟩, ⟨fun hf => ?_, fun he => by rw [he]; decide⟩⟩
  · rcases this.1 with h' | h'
    · rw [hf] at h'; cases h'
    · exact h'
  · rcases this.2 with h' | h'
    · rw [hf] at h'; cases h'
    · exact h'

theorem stream_of_sigsAreStreams {kids : List Node} (h : sigsAreStreamsB kids = true) (n : Node) (hn : n ∈ kids)
    (hs : isSig n.meta = true) : n.meta.typ = typStream := by
  have := List.all_eq_true.mp h n hn
  simp only [Bool.or_eq_true, Bool.not_eq_true', beq_iff_eq] at this
  rcases this with h' | h'
  · rw [hs] at h'; cases h'
  · exact h'

theorem deleteFile_sig (t : List Nat) (ht : t = sigName ∨ t = sigExName) (kids : List Node)
    (ha : noAliasB kids = true) (hs : sigsAreStreamsB kids = true) :
    deleteFile t kids = .ok (kids.filter (fun n => !(goName n.meta == t))) := by
  rw [deleteFile_eq]
  have hall : (kids.all fun n => !equalFold (goName n.meta) t || n.meta.typ == typStream) = true := by
    rw [List.all_eq_true]
    intro n hn
    by_cases hf : equalFold (goName n.meta) t = true
    · have he : goName n.meta = t := by
        rcases ht with rfl | rfl
        · exact ((fold_iff_of_noAlias ha n hn).1).mp hf
        · exact ((fold_iff_of_noAlias ha n hn).2).mp hf
      have : isSig n.meta = true := by
        unfold isSig; rcases ht with rfl | rfl <;> simp [he]
      simp [stream_of_sigsAreStreams hs n hn this]
    · simp [hf]
  rw [hall]
  simp only [if_true]
  congr 1
  apply List.filter_congr
  intro n hn
  have := fold_iff_of_noAlias ha n hn
  rcases ht with rfl | rfl
  · by_cases he : goName n.meta = sigName
    · simp [he, equalFold_sig_refl]
    · have : equalFold (goName n.meta) sigName = false := by
        cases hq : equalFold (goName n.meta) sigName with
        | true => exact absurd (this.1.mp hq) he
        | false => rfl
      simp [he, this]
  · by_cases he : goName n.meta = sigExName
    · simp [he, equalFold_ex_refl]
    · have : equalFold (goName n.meta) sigExName = false := by
        cases hq : equalFold (goName n.meta) sigExName with
        | true => exact absurd (this.2.mp hq) he
        | false => rfl
      simp [he, this]

theorem noAliasB_filter {kids : List Node} (p : Node → Bool) (h : noAliasB kids = true) : noAliasB (kids.filter p) = true := by
  unfold noAliasB at h ⊢
  rw [List.all_eq_true] at h ⊢
  intro n hn
  exact h n (List.mem_filter.mp hn).1

theorem sigsAreStreamsB_filter {kids : List Node} (p : Node → Bool) (h : sigsAreStreamsB kids = true) :
    sigsAreStreamsB (kids.filter p) = true := by
  unfold sigsAreStreamsB at h ⊢
  rw [List.all_eq_true] at h ⊢
  intro n hn
  exact h n (List.mem_filter.mp hn).1

theorem noAliasB_append (a b : List Node) : noAliasB (a ++ b) = (noAliasB a && noAliasB b) := by
  simp [noAliasB, List.all_append]
theorem sigsAreStreamsB_append (a b : List Node) : sigsAreStreamsB (a ++ b) = (sigsAreStreamsB a && sigsAreStreamsB b) := by
  simp [sigsAreStreamsB, List.all_append]

theorem noAliasB_exNode (e : Bytes) (s : Nat) : noAliasB [exNode e s] = true := by
  simp only [noAliasB, exNode, Node.meta, List.all_cons, List.all_nil, goName_newMeta_ex]; decide
theorem noAliasB_sigNode (e : Bytes) (s : Nat) : noAliasB [sigNode e s] = true := by
  simp only [noAliasB, sigNode, Node.meta, List.all_cons, List.all_nil, goName_newMeta_sig]; decide
theorem sigsAreStreamsB_exNode (e : Bytes) (s : Nat) : sigsAreStreamsB [exNode e s] = true := by
  simp [sigsAreStreamsB, exNode, Node.meta, newMeta]
theorem sigsAreStreamsB_sigNode (e : Bytes) (s : Nat) : sigsAreStreamsB [sigNode e s] = true := by
  simp [sigsAreStreamsB, sigNode, Node.meta, newMeta]

/-- what `InsertMSISignature` leaves in the root storage: the payload entries in their order, the new
    extended-signature stream if one was given, the new signature stream -/
def inserted (kids : List Node) (pkcs exsig : Bytes) (s₁ s₂ : Nat) : List Node :=
  payload kids ++ (if exsig.length > 0 then [exNode exsig s₁] else []) ++ [sigNode pkcs s₂]

theorem payload_eq_filter (kids : List Node) :
    (kids.filter (fun n => !(goName n.meta == sigExName))).filter (fun n => !(goName n.meta == sigName)) = payload kids := by
  rw [List.filter_filter]
  unfold payload isSig
  apply List.filter_congr
  intro n _
  by_cases h1 : goName n.meta = sigName <;> by_cases h2 : goName n.meta = sigExName <;> simp [h1, h2]

/-- **`InsertMSISignature` characterised**: when no entry of the root storage is a case-folding alias of a signature
    name and the entries carrying a signature name are streams, it succeeds and leaves `inserted` -/
theorem insert_eq (m : Meta) (c : Bytes) (kids : List Node) (pkcs exsig : Bytes) (s₁ s₂ : Nat)
    (ha : noAliasB kids = true) (hs : sigsAreStreamsB kids = true) :
    insertMSISignature (.mk m c kids) pkcs exsig s₁ s₂ = .ok (.mk m c (inserted kids pkcs exsig s₁ s₂)) := by
  unfold insertMSISignature
  simp only [Node.kids, ha, Bool.not_true, Bool.false_eq_true, if_false]
  unfold insertMSISignatureOrig inserted
  simp only [Node.kids, Node.meta, Node.content]
  have hlen1 : ¬ (sigExName.length + 1 > 32) := by decide
  have hlen2 : ¬ (sigName.length + 1 > 32) := by decide
  by_cases he : exsig.length > 0
  · simp only [he, if_true]
    unfold addFile
    rw [deleteFile_sig sigExName (Or.inr rfl) kids ha hs]
    simp only [Res.bind_ok', hlen1, if_false, Res.pure_eq]
    have ha1 : noAliasB (kids.filter (fun n => !(goName n.meta == sigExName)) ++ [exNode exsig s₁]) = true := by
      rw [noAliasB_append, noAliasB_filter _ ha, noAliasB_exNode]; rfl
    have hs1 : sigsAreStreamsB (kids.filter (fun n => !(goName n.meta == sigExName)) ++ [exNode exsig s₁]) = true := by
      rw [sigsAreStreamsB_append, sigsAreStreamsB_filter _ hs, sigsAreStreamsB_exNode]; rfl
    have hx : Node.mk (newMeta sigExName (List.length exsig) s₁) exsig [] = exNode exsig s₁ := rfl
    rw [hx, deleteFile_sig sigName (Or.inl rfl) _ ha1 hs1]
    simp only [Res.bind_ok', hlen2, if_false, Res.pure_eq, List.filter_append, payload_eq_filter]
    have : [exNode exsig s₁].filter (fun n => !(goName n.meta == sigName)) = [exNode exsig s₁] := by
      simp [List.filter_cons, exNode, Node.meta, goName_newMeta_ex, ex_ne_sig]
    rw [this]; rfl
  · simp only [he, if_false]
    rw [deleteFile_sig sigExName (Or.inr rfl) kids ha hs]
    simp only [Res.bind_ok']
    unfold addFile
    rw [deleteFile_sig sigName (Or.inl rfl) _ (noAliasB_filter _ ha) (sigsAreStreamsB_filter _ hs)]
    simp only [Res.bind_ok', hlen2, if_false, Res.pure_eq, payload_eq_filter, List.append_nil]
    rfl


/-! ### what `inserted` looks like -/

theorem payload_append (a b : List Node) : payload (a ++ b) = payload a ++ payload b := by simp [payload]
theorem payload_idem (a : List Node) : payload (payload a) = payload a := by simp [payload, List.filter_filter]
theorem payload_sigNode (p : Bytes) (s : Nat) : payload [sigNode p s] = [] := by simp [payload]
theorem payload_exNode (p : Bytes) (s : Nat) : payload [exNode p s] = [] := by simp [payload]

/-- the payload entries are exactly those that were there -/
theorem payload_inserted (kids : List Node) (pkcs ex : Bytes) (s₁ s₂ : Nat) :
    payload (inserted kids pkcs ex s₁ s₂) = payload kids := by
  unfold inserted
  rw [payload_append, payload_append, payload_idem, payload_sigNode]
  by_cases he : ex.length > 0
  · simp [he, payload_exNode]
  · simp [he, payload]

theorem sigCount_payload (kids : List Node) : sigCount (payload kids) = 0 := by
  unfold sigCount payload
  rw [List.filter_filter, List.length_eq_zero_iff, List.filter_eq_nil_iff]
  intro n _
  unfold isSig
  by_cases h : goName n.meta = sigName <;> simp [h]

theorem exCount_payload (kids : List Node) : exCount (payload kids) = 0 := by
  unfold exCount payload
  rw [List.filter_filter, List.length_eq_zero_iff, List.filter_eq_nil_iff]
  intro n _
  unfold isSig
  by_cases h : goName n.meta = sigExName <;> simp [h]

theorem sigCount_append (a b : List Node) : sigCount (a ++ b) = sigCount a + sigCount b := by simp [sigCount]
theorem exCount_append (a b : List Node) : exCount (a ++ b) = exCount a + exCount b := by simp [exCount]

/-- exactly one signature stream; an extended-signature stream exactly if one was given -/
theorem counts_inserted (kids : List Node) (pkcs ex : Bytes) (s₁ s₂ : Nat) :
    sigCount (inserted kids pkcs ex s₁ s₂) = 1 ∧
    exCount (inserted kids pkcs ex s₁ s₂) = (if ex.length > 0 then 1 else 0) := by
  unfold inserted
  rw [sigCount_append, sigCount_append, exCount_append, exCount_append, sigCount_payload, exCount_payload]
  have a1 : sigCount [sigNode pkcs s₂] = 1 := by simp [sigCount, sigNode, Node.meta, goName_newMeta_sig]
  have a2 : exCount [sigNode pkcs s₂] = 0 := by simp [exCount, sigNode, Node.meta, goName_newMeta_sig, sig_ne_ex]
  by_cases he : ex.length > 0
  · have b1 : sigCount [exNode ex s₁] = 0 := by simp [sigCount, exNode, Node.meta, goName_newMeta_ex, ex_ne_sig]
    have b2 : exCount [exNode ex s₁] = 1 := by simp [exCount, exNode, Node.meta, goName_newMeta_ex]
    simp [he, a1, a2, b1, b2]
  · have e0 : sigCount ([] : List Node) = 0 := rfl
    have e1 : exCount ([] : List Node) = 0 := rfl
    simp [he, a1, a2, e0, e1]

theorem hyps_inserted (kids : List Node) (pkcs ex : Bytes) (s₁ s₂ : Nat)
    (ha : noAliasB kids = true) (hs : sigsAreStreamsB kids = true) :
    noAliasB (inserted kids pkcs ex s₁ s₂) = true ∧ sigsAreStreamsB (inserted kids pkcs ex s₁ s₂) = true := by
  unfold inserted
  rw [noAliasB_append, noAliasB_append, sigsAreStreamsB_append, sigsAreStreamsB_append]
  have p1 : noAliasB (payload kids) = true := noAliasB_filter _ ha
  have p2 : sigsAreStreamsB (payload kids) = true := sigsAreStreamsB_filter _ hs
  rw [p1, p2, noAliasB_sigNode, sigsAreStreamsB_sigNode]
  by_cases he : ex.length > 0
  · simp [he, noAliasB_exNode, sigsAreStreamsB_exNode]
  · simp [he, noAliasB, sigsAreStreamsB]

/-! ### the hypotheses of the digest theorems survive `InsertMSISignature` -/

theorem metas_append (a b : List Node) : metas (a ++ b) = metas a ++ metas b := by simp [metas]

theorem sibsOk_sublist {a b : List Meta} (h : a.Sublist b) (hb : SibsOk b) : SibsOk a :=
  ⟨fun m hm => hb.1 m (h.subset hm), hb.2.sublist h⟩

theorem sibsOk_snoc (ms : List Meta) (x : Meta) (h : SibsOk ms) (hx : wfNameB x = true)
    (hne : ∀ m ∈ ms, Spec.MsiDigest.specName m ≠ Spec.MsiDigest.specName x) : SibsOk (ms ++ [x]) := by
  refine ⟨fun m hm => ?_, ?_⟩
  · rcases List.mem_append.mp hm with h' | h'
    · exact h.1 m h'
    · rw [List.mem_singleton.mp h']; exact hx
  · rw [List.pairwise_append]
    refine ⟨h.2, List.pairwise_singleton _ _, ?_⟩
    intro a ha b hb
    rw [List.mem_singleton.mp hb]
    exact hne a ha

theorem not_sig_of_payload {kids : List Node} (hw : ∀ m ∈ metas kids, wfNameB m = true) (n : Node) (hn : n ∈ payload kids) :
    Spec.MsiDigest.specName n.meta ≠ sigName ∧ Spec.MsiDigest.specName n.meta ≠ sigExName := by
  obtain ⟨hk, hp⟩ := List.mem_filter.mp hn
  have hwf := hw n.meta (List.mem_map_of_mem hk)
  have hiff := goName_eq_sig_iff n.meta hwf
  unfold isSig at hp
  simp only [Bool.not_eq_true', Bool.or_eq_false_iff, decide_eq_false_iff_not] at hp
  exact ⟨fun e => hp.1 (hiff.1.mpr e), fun e => hp.2 (hiff.2.mpr e)⟩

theorem sibsOk_inserted (kids : List Node) (pkcs ex : Bytes) (s₁ s₂ : Nat) (h : SibsOk (metas kids)) :
    SibsOk (metas (inserted kids pkcs ex s₁ s₂)) := by
  have hpay : SibsOk (metas (payload kids)) :=
    sibsOk_sublist ((List.filter_sublist (l := kids)).map Node.meta) h
  have hns := fun n hn => not_sig_of_payload (kids := kids) h.1 n hn
  unfold inserted
  rw [metas_append]
  by_cases he : ex.length > 0
  · simp only [he, if_true, metas_append]
    have h1 : SibsOk (metas (payload kids) ++ metas [exNode ex s₁]) := by
      apply sibsOk_snoc _ _ hpay (newMeta_wf_ex _ _)
      intro m hm
      obtain ⟨n, hn, rfl⟩ := List.mem_map.mp hm
      show _ ≠ Spec.MsiDigest.specName (newMeta sigExName _ _)
      rw [specName_newMeta_ex]
      exact (hns n hn).2
    apply sibsOk_snoc _ _ h1 (newMeta_wf_sig _ _)
    intro m hm
    show _ ≠ Spec.MsiDigest.specName (newMeta sigName _ _)
    rw [specName_newMeta_sig]
    rcases List.mem_append.mp hm with h' | h'
    · obtain ⟨n, hn, rfl⟩ := List.mem_map.mp h'
      exact (hns n hn).1
    · have : m = newMeta sigExName ex.length s₁ := by simpa [metas, exNode, Node.meta] using h'
      rw [this, specName_newMeta_ex]; decide
  · simp only [he, if_false, List.append_nil]
    apply sibsOk_snoc _ _ hpay (newMeta_wf_sig _ _)
    intro m hm
    obtain ⟨n, hn, rfl⟩ := List.mem_map.mp hm
    show _ ≠ Spec.MsiDigest.specName (newMeta sigName _ _)
    rw [specName_newMeta_sig]
    exact (hns n hn).1

theorem okAt_leaf (b : Bool) (m : Meta) (c : Bytes) : Node.okAt b (.mk m c []) := by
  rw [Node.okAt]
  refine ⟨⟨fun _ h => (by cases h), List.Pairwise.nil⟩, ?_⟩
  rw [Nodes.ok]; trivial

theorem okAt_inserted (m : Meta) (c : Bytes) (kids : List Node) (pkcs ex : Bytes) (s₁ s₂ : Nat)
    (h : Node.okAt true (.mk m c kids)) : Node.okAt true (.mk m c (inserted kids pkcs ex s₁ s₂)) := by
  rw [okAt_root_iff] at h ⊢
  refine ⟨sibsOk_inserted kids pkcs ex s₁ s₂ h.1, ?_⟩
  intro k hk
  unfold inserted at hk
  rcases List.mem_append.mp hk with h' | h'
  · rcases List.mem_append.mp h' with h'' | h''
    · exact h.2 k (List.mem_filter.mp h'').1
    · by_cases he : ex.length > 0
      · simp only [he, if_true, List.mem_singleton] at h''
        rw [h'']; exact okAt_leaf _ _ _
      · simp [he] at h''
  · rw [List.mem_singleton.mp h']; exact okAt_leaf _ _ _

/-- the specification's filter and the model's `payload` agree on well-formed siblings -/
theorem specFilter_eq_payload (kids : List Node) (hw : ∀ m ∈ metas kids, wfNameB m = true) :
    kids.filter (fun n => !Spec.MsiDigest.isSignatureStream n.meta) = payload kids := by
  apply List.filter_congr
  intro n hn
  rw [isSig_wf n.meta (wfName_of_B n.meta (hw n.meta (List.mem_map_of_mem hn)))]

/-- **the digest inputs of the document after `InsertMSISignature` are those before** -/
theorem inputs_inserted (m : Meta) (c : Bytes) (kids : List Node) (pkcs ex : Bytes) (s₁ s₂ : Nat)
    (h : SibsOk (metas kids)) :
    Spec.MsiDigest.hashInput (.mk m c (inserted kids pkcs ex s₁ s₂)) = Spec.MsiDigest.hashInput (.mk m c kids) ∧
    Spec.MsiDigest.prehashInput (.mk m c (inserted kids pkcs ex s₁ s₂)) = Spec.MsiDigest.prehashInput (.mk m c kids) := by
  have h' := sibsOk_inserted kids pkcs ex s₁ s₂ h
  have hk : ((inserted kids pkcs ex s₁ s₂).filter (fun n => !Spec.MsiDigest.isSignatureStream n.meta)).Perm
      (kids.filter (fun n => !Spec.MsiDigest.isSignatureStream n.meta)) := by
    rw [specFilter_eq_payload _ h'.1, specFilter_eq_payload _ h.1, payload_inserted]
  exact ⟨hashInput_perm m m c c _ _ rfl h' h hk, prehashInput_perm m m c c _ _ rfl h' h hk⟩

/-! ### `checkMsiTarNames` lets the result through as well -/

theorem rootOk_sigNode (p : Bytes) (s : Nat) : rootOkB (sigNode p s) = true := by
  unfold rootOkB sigNode
  have ht : (newMeta sigName p.length s).typ = typStream := rfl
  simp only [Node.meta, ht, if_true, goName_newMeta_sig, msiDecodeName_sig]
  decide

theorem rootOk_exNode (p : Bytes) (s : Nat) : rootOkB (exNode p s) = true := by
  unfold rootOkB exNode
  have ht : (newMeta sigExName p.length s).typ = typStream := rfl
  simp only [Node.meta, ht, if_true, goName_newMeta_ex, msiDecodeName_sigEx]
  decide

theorem tarRootOk_inserted (kids : List Node) (pkcs ex : Bytes) (s₁ s₂ : Nat) (h : tarRootOkB kids = true) :
    tarRootOkB (inserted kids pkcs ex s₁ s₂) = true := by
  rw [tarRootOkB_all, List.all_eq_true] at h ⊢
  intro n hn
  unfold inserted at hn
  rcases List.mem_append.mp hn with h' | h'
  · rcases List.mem_append.mp h' with h'' | h''
    · exact h n (List.mem_filter.mp h'').1
    · by_cases he : ex.length > 0
      · simp only [he, if_true, List.mem_singleton] at h''
        rw [h'']; exact rootOk_exNode _ _
      · simp [he] at h''
  · rw [List.mem_singleton.mp h']; exact rootOk_sigNode _ _

/-! ### what `VerifyMSI` locates -/

def sigOf : List Node → Bytes → Bytes
  | [], s => s
  | n :: r, s => if goName n.meta = sigName then sigOf r n.content else sigOf r s
def exOf : List Node → Option Bytes → Option Bytes
  | [], e => e
  | n :: r, e => if goName n.meta = sigExName then exOf r (some n.content) else exOf r e

theorem locate_eq : ∀ (ks : List Node) (sig : Bytes) (ex : Option Bytes),
    (∀ n ∈ ks, isSig n.meta = true → n.meta.typ = typStream) → locate ks sig ex = .ok (sigOf ks sig, exOf ks ex)
  | [], _, _, _ => rfl
  | n :: r, sig, ex, h => by
    have hr : ∀ k ∈ r, isSig k.meta = true → k.meta.typ = typStream := fun k hk => h k (List.mem_cons_of_mem _ hk)
    rw [locate, sigOf, exOf]
    by_cases h1 : goName n.meta = sigName
    · have ht := h n (List.mem_cons_self) (by simp [isSig, h1])
      have hne : ¬ goName n.meta = sigExName := by rw [h1]; decide
      simp only [h1, if_true, ht, ne_eq, not_true_eq_false, if_false]
      rw [locate_eq r _ _ hr]
      simp [show ¬ sigName = sigExName by decide]
    · by_cases h2 : goName n.meta = sigExName
      · have ht := h n (List.mem_cons_self) (by simp [isSig, h2])
        simp only [h1, if_false, h2, if_true, ht, ne_eq, not_true_eq_false]
        exact locate_eq r _ _ hr
      · simp only [h1, h2, if_false]
        exact locate_eq r _ _ hr

theorem sigOf_nil : ∀ (ks : List Node) (s : Bytes), ks.filter (fun n => goName n.meta == sigName) = [] → sigOf ks s = s
  | [], _, _ => rfl
  | n :: r, s, h => by
    rw [sigOf]
    by_cases h1 : goName n.meta = sigName
    · simp [List.filter_cons, h1] at h
    · simp only [h1, if_false]
      apply sigOf_nil r s
      simpa [List.filter_cons, h1] using h

theorem sigOf_single : ∀ (ks : List Node) (s : Bytes) (x : Node),
    ks.filter (fun n => goName n.meta == sigName) = [x] → sigOf ks s = x.content
  | [], _, _, h => by simp at h
  | n :: r, s, x, h => by
    rw [sigOf]
    by_cases h1 : goName n.meta = sigName
    · simp only [List.filter_cons, h1, beq_self_eq_true, if_true, List.cons.injEq] at h
      simp only [h1, if_true]
      rw [sigOf_nil r _ h.2, h.1]
    · simp only [h1, if_false]
      apply sigOf_single r s x
      simpa [List.filter_cons, h1] using h

theorem exOf_nil : ∀ (ks : List Node) (e : Option Bytes), ks.filter (fun n => goName n.meta == sigExName) = [] → exOf ks e = e
  | [], _, _ => rfl
  | n :: r, e, h => by
    rw [exOf]
    by_cases h1 : goName n.meta = sigExName
    · simp [List.filter_cons, h1] at h
    · simp only [h1, if_false]
      apply exOf_nil r e
      simpa [List.filter_cons, h1] using h

theorem exOf_single : ∀ (ks : List Node) (e : Option Bytes) (x : Node),
    ks.filter (fun n => goName n.meta == sigExName) = [x] → exOf ks e = some x.content
  | [], _, _, h => by simp at h
  | n :: r, e, x, h => by
    rw [exOf]
    by_cases h1 : goName n.meta = sigExName
    · simp only [List.filter_cons, h1, beq_self_eq_true, if_true, List.cons.injEq] at h
      simp only [h1, if_true]
      rw [exOf_nil r _ h.2, h.1]
    · simp only [h1, if_false]
      apply exOf_single r e x
      simpa [List.filter_cons, h1] using h

/-- a filter on the name survives re-reading: the same entries up to links, in some order -/
theorem reread_filter {d d' : Node} (h : Reread d d') (p : Meta → Bool) (hp : ∀ m, p (stripM m) = p m) :
    ((d'.kids.filter (fun n => p n.meta)).map strip).Perm ((d.kids.filter (fun n => p n.meta)).map strip) := by
  rw [← filter_strip p hp, ← filter_strip p hp]
  exact h.2.filter _

theorem reread_filter_nil {d d' : Node} (h : Reread d d') (p : Meta → Bool) (hp : ∀ m, p (stripM m) = p m)
    (h0 : d.kids.filter (fun n => p n.meta) = []) : d'.kids.filter (fun n => p n.meta) = [] := by
  have := reread_filter h p hp
  rw [h0] at this
  simpa using this

theorem reread_filter_single {d d' : Node} (h : Reread d d') (p : Meta → Bool) (hp : ∀ m, p (stripM m) = p m) (x : Node)
    (h1 : d.kids.filter (fun n => p n.meta) = [x]) :
    ∃ x', d'.kids.filter (fun n => p n.meta) = [x'] ∧ strip x' = strip x := by
  have := reread_filter h p hp
  rw [h1] at this
  have e := List.perm_singleton.mp this
  cases hl : d'.kids.filter (fun n => p n.meta) with
  | nil => rw [hl] at e; simp at e
  | cons a r =>
    rw [hl] at e
    simp only [List.map_cons, List.map_nil, List.cons.injEq, List.map_eq_nil_iff] at e
    exact ⟨a, by rw [e.2], e.1⟩

theorem filter_sig_inserted (kids : List Node) (pkcs ex : Bytes) (s₁ s₂ : Nat) :
    (inserted kids pkcs ex s₁ s₂).filter (fun n => goName n.meta == sigName) = [sigNode pkcs s₂] ∧
    (inserted kids pkcs ex s₁ s₂).filter (fun n => goName n.meta == sigExName) =
      (if ex.length > 0 then [exNode ex s₁] else []) := by
  have p1 : (payload kids).filter (fun n => goName n.meta == sigName) = [] :=
    List.length_eq_zero_iff.mp (sigCount_payload kids)
  have p2 : (payload kids).filter (fun n => goName n.meta == sigExName) = [] :=
    List.length_eq_zero_iff.mp (exCount_payload kids)
  unfold inserted
  rw [List.filter_append, List.filter_append, List.filter_append, List.filter_append, p1, p2]
  have a1 : [sigNode pkcs s₂].filter (fun n => goName n.meta == sigName) = [sigNode pkcs s₂] := by
    simp [sigNode, Node.meta, goName_newMeta_sig]
  have a2 : [sigNode pkcs s₂].filter (fun n => goName n.meta == sigExName) = [] := by
    simp [sigNode, Node.meta, goName_newMeta_sig, sig_ne_ex]
  rw [a1, a2]
  by_cases he : ex.length > 0
  · have b1 : [exNode ex s₁].filter (fun n => goName n.meta == sigName) = [] := by
      simp [exNode, Node.meta, goName_newMeta_ex, ex_ne_sig]
    have b2 : [exNode ex s₁].filter (fun n => goName n.meta == sigExName) = [exNode ex s₁] := by
      simp [exNode, Node.meta, goName_newMeta_ex]
    simp [he, b1, b2]
  · simp [he]

theorem strip_eq_content {a b : Node} (h : strip a = strip b) : a.content = b.content := by
  have := congrArg Node.content h; simpa using this
theorem strip_eq_typ {a b : Node} (h : strip a = strip b) : a.meta.typ = b.meta.typ := by
  have := congrArg (fun n => n.meta.typ) h; simpa using this
theorem strip_eq_isSig {a b : Node} (h : strip a = strip b) : isSig a.meta = isSig b.meta := by
  have := congrArg (fun n => isSig n.meta) h; simpa using this

/-- **what `VerifyMSI` finds in a written and re-read document after `InsertMSISignature`**: exactly the blob that was
    inserted, and the extended-signature value exactly if one was given -/
theorem locate_reread_inserted (m : Meta) (c : Bytes) (kids : List Node) (pkcs ex : Bytes) (s₁ s₂ : Nat)
    (hs : sigsAreStreamsB kids = true) (ha : noAliasB kids = true) (d' : Node)
    (h : Reread (.mk m c (inserted kids pkcs ex s₁ s₂)) d') :
    locate d'.kids [] none = .ok (pkcs, if ex.length > 0 then some ex else none) := by
  have hstr := (hyps_inserted kids pkcs ex s₁ s₂ ha hs).2
  have hall : ∀ n ∈ d'.kids, isSig n.meta = true → n.meta.typ = typStream := by
    intro n hn hsig
    have : strip n ∈ (inserted kids pkcs ex s₁ s₂).map strip := h.2.subset (List.mem_map_of_mem hn)
    obtain ⟨n0, hn0, e⟩ := List.mem_map.mp this
    rw [strip_eq_typ e.symm]
    exact stream_of_sigsAreStreams hstr n0 hn0 (by rw [strip_eq_isSig e]; exact hsig)
  rw [locate_eq _ _ _ hall]
  obtain ⟨f1, f2⟩ := filter_sig_inserted kids pkcs ex s₁ s₂
  obtain ⟨x', hx', ex'⟩ := reread_filter_single h (fun m => goName m == sigName) (fun _ => rfl) _ f1
  rw [sigOf_single _ _ x' hx', strip_eq_content ex']
  by_cases he : ex.length > 0
  · simp only [he, if_true] at f2 ⊢
    obtain ⟨y', hy', ey'⟩ := reread_filter_single h (fun m => goName m == sigExName) (fun _ => rfl) _ f2
    rw [exOf_single _ _ y' hy', strip_eq_content ey']
    rfl
  · simp only [he, if_false] at f2 ⊢
    rw [exOf_nil _ _ (reread_filter_nil h (fun m => goName m == sigExName) (fun _ => rfl) f2)]
    rfl


/-! ### the class of documents the flow theorems are about, and its stability -/

/-- a document the theorems speak about: the digest hypotheses (`Node.okAt`: in every storage well-formed, pairwise
    distinct names; no signature name below the root), a root entry of type root, no case-folding alias of a signature
    name in the root storage, entries with a signature name are streams.  All four are executable (`okAtB`, `noAliasB`,
    `sigsAreStreamsB`; the driver prints them for every document). -/
structure DocOk (d : Node) : Prop where
  ok : Node.okAt true d
  root : d.meta.typ = typRoot
  noAlias : noAliasB d.kids = true
  streams : sigsAreStreamsB d.kids = true

theorem all_reread {d d' : Node} (h : Reread d d') (q : Node → Bool) (hq : ∀ n, q (strip n) = q n)
    (ha : d.kids.all q = true) : d'.kids.all q = true := by
  rw [List.all_eq_true] at ha ⊢
  intro n hn
  have : strip n ∈ d.kids.map strip := h.2.subset (List.mem_map_of_mem hn)
  obtain ⟨n0, hn0, e⟩ := List.mem_map.mp this
  rw [← hq n, ← e, hq n0]
  exact ha n0 hn0

theorem DocOk.reread {d d' : Node} (hd : DocOk d) (h : Reread d d') : DocOk d' :=
  ⟨h.okAt hd.ok, h.typ.trans hd.root,
   all_reread h _ (fun n => by cases n; rfl) hd.noAlias,
   all_reread h _ (fun n => by cases n; rfl) hd.streams⟩

theorem rootOkB_strip (n : Node) : rootOkB (strip n) = rootOkB n := by
  cases n with
  | mk m c k => rfl

theorem tarRootOk_reread {d d' : Node} (h : Reread d d') (hs : tarRootOkB d.kids = true) : tarRootOkB d'.kids = true := by
  rw [tarRootOkB_all] at hs ⊢
  exact all_reread h _ rootOkB_strip hs

theorem DocOk.afterInsert {d : Node} (hd : DocOk d) (pkcs ex : Bytes) (s₁ s₂ : Nat) :
    DocOk (.mk d.meta d.content (Relic.MsiSign.inserted d.kids pkcs ex s₁ s₂)) := by
  cases d with
  | mk m c kids =>
    have := hyps_inserted kids pkcs ex s₁ s₂ hd.noAlias hd.streams
    exact ⟨okAt_inserted m c kids pkcs ex s₁ s₂ hd.ok, hd.root, this.1, this.2⟩

/-- `InsertMSISignature` on such a document never fails -/
theorem DocOk.insertOk {d : Node} (hd : DocOk d) (pkcs ex : Bytes) (s₁ s₂ : Nat) :
    insertMSISignature d pkcs ex s₁ s₂ = .ok (.mk d.meta d.content (Relic.MsiSign.inserted d.kids pkcs ex s₁ s₂)) := by
  cases d with
  | mk m c kids => exact Relic.MsiSign.insert_eq m c kids pkcs ex s₁ s₂ hd.noAlias hd.streams

/-- the model's walks on a written and re-read document after `InsertMSISignature` feed the hash what they fed it before -/
theorem DocOk.walks {d : Node} (hd : DocOk d) (pkcs ex : Bytes) (s₁ s₂ : Nat) (d' : Node)
    (h : Reread (.mk d.meta d.content (Relic.MsiSign.inserted d.kids pkcs ex s₁ s₂)) d') :
    hashMsiDir d' = .ok (Spec.MsiDigest.hashInput d) ∧ prehashMsiDir d' = .ok (Spec.MsiDigest.prehashInput d) := by
  have h1 := hd.afterInsert pkcs ex s₁ s₂
  have h2 := h1.reread h
  obtain ⟨a, b⟩ := h.inputs h1.ok h1.root
  cases d with
  | mk m c kids =>
    obtain ⟨a', b'⟩ := inputs_inserted m c kids pkcs ex s₁ s₂ ((okAt_root_iff _ _ _).mp hd.ok).1
    rw [hashMsiDir_eq d' h2.ok, prehashMsiDir_eq d' h2.ok h2.root, a, b]
    exact ⟨congrArg Res.ok a', congrArg Res.ok b'⟩

/-- `MsiToTar` succeeds on such a document and `DigestMsiTar` of its members is the specification's digest input -/
theorem msiToTar_total (d : Node) (hok : Node.okAt true d) (hr : d.meta.typ = typRoot)
    (hsafe : tarRootOkB d.kids = true) :
    ∃ ms, msiToTar d = .ok ms ∧
      ∀ (H : Bytes → Bytes) (ext : Bool), digestMsiTar H ext ms = Spec.MsiDigest.digestInput H d ext := by
  have hp := prehashMsiDir_eq d hok hr
  have hh := hashMsiDir_eq d hok
  have hrel := tarDirOf_rel (fun x => x) false true [] d.meta.clsid _ _
    (tarItems_rel_root (fun x => x) false d.kids (by rw [← tarRootOkB_all]; exact hsafe))
  unfold hashMsiDir at hh
  rw [hh] at hrel
  cases hb : tarDirOf [] d.meta.clsid (tarItems [] d.kids) with
  | ok body =>
    have ht : msiToTar d = .ok ((exmetaName, Spec.MsiDigest.prehashInput d) :: body) := by
      unfold msiToTar; simp only [hsafe, Bool.not_true, Bool.false_eq_true, if_false]; rw [hp, hb]; rfl
    refine ⟨_, ht, ?_⟩
    intro H ext
    have h1 := msiToTar_digest H ext d _ ht
    have h2 : digestMSI H d ext = .ok (Spec.MsiDigest.digestInput H d ext) := by
      unfold digestMSI Spec.MsiDigest.digestInput
      rw [hashMsiDir_eq d hok, hp]
      cases ext <;> rfl
    rw [h2] at h1
    injection h1 with h1
    exact h1.symm
  | err e => rw [hb] at hrel; simp [RelRes] at hrel
  | panic e => rw [hb] at hrel; simp [RelRes] at hrel
  | diverge => rw [hb] at hrel; simp [RelRes] at hrel

/-! ### the signer module in closed form; counting after re-reading -/

/-- what goes into the extended-signature stream: nothing with `--no-extended-sig` -/
def exValue (H : Nat → Bytes → Bytes) (alg : Nat) (noExt : Bool) (d : Node) : Bytes :=
  if noExt then [] else H alg (Spec.MsiDigest.prehashInput d)
/-- the imprint that is signed: the hash of (pre-hash digest ++) the specification's stream -/
def imprintOf (H : Nat → Bytes → Bytes) (alg : Nat) (noExt : Bool) (d : Node) : Bytes :=
  H alg (exValue H alg noExt d ++ Spec.MsiDigest.hashInput d)

/-- **the signer module on a document of the class**: it succeeds and leaves the payload entries, the pre-hash (unless
    `--no-extended-sig`) and the blob over the imprint computed from the tar form, which is the specification's -/
theorem sign_eq (H : Nat → Bytes → Bytes) (mk : Nat → Bytes → Bytes) (d : Node) (hd : DocOk d)
    (hsafe : tarRootOkB d.kids = true) (alg : Nat) (noExt : Bool) (s₁ s₂ : Nat) :
    signMSI H mk alg noExt d s₁ s₂ =
      .ok (.mk d.meta d.content (Relic.MsiSign.inserted d.kids (mk alg (imprintOf H alg noExt d)) (exValue H alg noExt d) s₁ s₂)) := by
  obtain ⟨ms, hms, hdig⟩ := msiToTar_total d hd.ok hd.root hsafe
  have hp := prehashMsiDir_eq d hd.ok hd.root
  have hsum : digestMsiTar (H alg) (!noExt) ms = exValue H alg noExt d ++ Spec.MsiDigest.hashInput d := by
    rw [hdig]; unfold Spec.MsiDigest.digestInput exValue; cases noExt <;> rfl
  rw [← hd.insertOk]
  unfold signMSI
  simp only [hd.noAlias, Bool.not_true, Bool.false_eq_true, if_false]
  rw [hp, hms]
  unfold imprintOf
  cases noExt <;> simp only [Res.bind_ok', Res.pure_eq, hsum] <;> rfl

theorem count_reread {d d' : Node} (h : Reread d d') (p : Meta → Bool) (hp : ∀ m, p (stripM m) = p m) :
    (d'.kids.filter (fun n => p n.meta)).length = (d.kids.filter (fun n => p n.meta)).length := by
  have := (reread_filter h p hp).length_eq
  simpa using this

theorem sigCount_reread {d d' : Node} (h : Reread d d') : sigCount d'.kids = sigCount d.kids :=
  count_reread h (fun m => goName m == sigName) (fun _ => rfl)
theorem exCount_reread {d d' : Node} (h : Reread d d') : exCount d'.kids = exCount d.kids :=
  count_reread h (fun m => goName m == sigExName) (fun _ => rfl)

/-- the payload entries of `d'` are those of `d`: same fields, contents and sub-trees, up to tree links, start sectors
    and `ListDir` order; same root entry -/
def PayloadSame (d d' : Node) : Prop :=
  stripRoot d'.meta = stripRoot d.meta ∧ ((payload d'.kids).map strip).Perm ((payload d.kids).map strip)

theorem PayloadSame.refl (d : Node) : PayloadSame d d := ⟨rfl, List.Perm.refl _⟩
theorem PayloadSame.trans {a b c : Node} (h₁ : PayloadSame a b) (h₂ : PayloadSame b c) : PayloadSame a c :=
  ⟨h₂.1.trans h₁.1, h₂.2.trans h₁.2⟩

theorem payloadSame_reread {d d' : Node} (h : Reread d d') : PayloadSame d d' :=
  ⟨h.1, reread_filter h (fun m => !isSig m) (fun _ => rfl)⟩

theorem payloadSame_inserted (d : Node) (pkcs ex : Bytes) (s₁ s₂ : Nat) :
    PayloadSame d (.mk d.meta d.content (Relic.MsiSign.inserted d.kids pkcs ex s₁ s₂)) := by
  refine ⟨rfl, ?_⟩
  simp only [Node.kids]
  rw [payload_inserted]


/-! ### when `InsertMSISignature` and the signer module fail -/

theorem addFile_ok (name : List Nat) (c : Bytes) (s : Nat) (ks kept : List Node) (hl : ¬ (name.length + 1 > 32))
    (h : deleteFile name ks = .ok kept) :
    addFile name c s ks = .ok (kept ++ [Node.mk (newMeta name c.length s) c []]) := by
  unfold addFile; rw [h]; simp only [Res.bind_ok', hl, if_false, Res.pure_eq]

theorem addFile_err (name : List Nat) (c : Bytes) (s : Nat) (ks : List Node) (e : String)
    (h : deleteFile name ks = .err e) : addFile name c s ks = .err e := by
  unfold addFile; rw [h]; rfl

/-- a failing `DeleteFile` names its cause -/
theorem deleteFile_cases (t : List Nat) (ks : List Node) :
    deleteFile t ks = .ok (ks.filter (fun n => !equalFold (goName n.meta) t)) ∨
    (deleteFile t ks = .err "storage" ∧ ∃ n ∈ ks, equalFold (goName n.meta) t = true ∧ n.meta.typ ≠ typStream) := by
  rw [deleteFile_eq]
  cases ha : (ks.all fun n => !equalFold (goName n.meta) t || n.meta.typ == typStream) with
  | true => left; rfl
  | false =>
    right
    rw [List.all_eq_false] at ha
    obtain ⟨n, hn, hq⟩ := ha
    simp only [Bool.or_eq_true, Bool.not_eq_true', beq_iff_eq, not_or] at hq
    exact ⟨rfl, n, hn, by simpa using hq.1, hq.2⟩

theorem equalFold_length : ∀ (a b : List Nat), equalFold a b = true → a.length = b.length
  | [], [], _ => rfl
  | [], _ :: _, h => by simp [equalFold] at h
  | _ :: _, [], h => by simp [equalFold] at h
  | x :: a, y :: b, h => by
    simp only [equalFold, Bool.and_eq_true] at h
    simp [equalFold_length a b h.2]

theorem insertOrig_def (d : Node) (pkcs ex : Bytes) (s₁ s₂ : Nat) :
    insertMSISignatureOrig d pkcs ex s₁ s₂ =
      ((if ex.length > 0 then addFile sigExName ex s₁ d.kids else deleteFile sigExName d.kids) >>= fun k1 =>
        addFile sigName pkcs s₂ k1 >>= fun k2 => pure (.mk d.meta d.content k2)) := by
  unfold insertMSISignatureOrig
  by_cases he : ex.length > 0 <;> simp only [he, if_true, if_false] <;> rfl

/-- an entry of the root storage whose name folds to a signature name and that is not a stream makes
    `InsertMSISignature` fail with the storage error -/
theorem insertOrig_err_of_nonstream (d : Node) (pkcs ex : Bytes) (s₁ s₂ : Nat) (n : Node) (hn : n ∈ d.kids)
    (hf : equalFold (goName n.meta) sigName = true ∨ equalFold (goName n.meta) sigExName = true)
    (ht : n.meta.typ ≠ typStream) : insertMSISignatureOrig d pkcs ex s₁ s₂ = .err "storage" := by
  have hl1 : ¬ (sigExName.length + 1 > 32) := by decide
  rw [insertOrig_def]
  rcases deleteFile_cases sigExName d.kids with h | ⟨h, _⟩
  · -- the first step succeeds: then `n` folds to the signature name and survives it
    have hsig : equalFold (goName n.meta) sigName = true := by
      rcases hf with h' | h'
      · exact h'
      · exfalso
        rw [deleteFile_eq] at h
        cases ha : (d.kids.all fun n => !equalFold (goName n.meta) sigExName || n.meta.typ == typStream) with
        | true =>
          have := List.all_eq_true.mp ha n hn
          simp [h', ht] at this
        | false => rw [ha] at h; simp at h
    have hnex : equalFold (goName n.meta) sigExName = false := by
      cases hq : equalFold (goName n.meta) sigExName with
      | false => rfl
      | true =>
        have l1 := equalFold_length _ _ hsig
        have l2 := equalFold_length _ _ hq
        rw [l1] at l2
        exact absurd l2 (by decide)
    have hmem : n ∈ d.kids.filter (fun n => !equalFold (goName n.meta) sigExName) :=
      List.mem_filter.mpr ⟨hn, by simp [hnex]⟩
    have second : ∀ k1 : List Node, n ∈ k1 → addFile sigName pkcs s₂ k1 = .err "storage" := by
      intro k1 hk
      apply addFile_err
      rw [deleteFile_eq]
      have : (k1.all fun n => !equalFold (goName n.meta) sigName || n.meta.typ == typStream) = false := by
        rw [List.all_eq_false]
        exact ⟨n, hk, by simp [hsig, ht]⟩
      rw [this]; rfl
    by_cases he : ex.length > 0
    · simp only [he, if_true]
      rw [addFile_ok _ _ _ _ _ hl1 h]
      simp only [Res.bind_ok']
      rw [second _ (List.mem_append_left _ hmem)]; rfl
    · simp only [he, if_false, h, Res.bind_ok']
      rw [second _ hmem]; rfl
  · by_cases he : ex.length > 0
    · simp only [he, if_true]; rw [addFile_err _ _ _ _ _ h]; rfl
    · simp only [he, if_false, h]; rfl

/-- a successful `InsertMSISignature` found only streams under the signature names -/
theorem insert_ok_streams (d : Node) (pkcs ex : Bytes) (s₁ s₂ : Nat) (d₁ : Node)
    (h : insertMSISignature d pkcs ex s₁ s₂ = .ok d₁) : noAliasB d.kids = true ∧ sigsAreStreamsB d.kids = true := by
  unfold insertMSISignature at h
  cases ha : noAliasB d.kids with
  | false => rw [ha] at h; simp at h
  | true =>
    rw [ha] at h
    simp only [Bool.not_true, Bool.false_eq_true, if_false] at h
    refine ⟨rfl, ?_⟩
    unfold sigsAreStreamsB
    rw [List.all_eq_true]
    intro n hn
    by_cases hs : isSig n.meta = true
    · by_cases ht : n.meta.typ = typStream
      · simp [ht]
      · exfalso
        have hf : equalFold (goName n.meta) sigName = true ∨ equalFold (goName n.meta) sigExName = true := by
          unfold isSig at hs
          simp only [Bool.or_eq_true, decide_eq_true_eq] at hs
          rcases hs with e | e
          · left; rw [e]; exact equalFold_sig_refl
          · right; rw [e]; exact equalFold_ex_refl
        rw [insertOrig_err_of_nonstream d pkcs ex s₁ s₂ n hn hf ht] at h
        cases h
    · simp [hs]

/-- **a successful signing passed all three tests**: no case-folding alias of a signature name, no reserved tar name in
    the root storage, the entries carrying a signature name are streams -/
theorem sign_ok_class (H : Nat → Bytes → Bytes) (mk : Nat → Bytes → Bytes) (alg : Nat) (noExt : Bool) (d d₁ : Node)
    (s₁ s₂ : Nat) (h : signMSI H mk alg noExt d s₁ s₂ = .ok d₁) :
    noAliasB d.kids = true ∧ sigsAreStreamsB d.kids = true ∧ tarRootOkB d.kids = true := by
  unfold signMSI at h
  cases ha : noAliasB d.kids with
  | false => rw [ha] at h; simp at h
  | true =>
    rw [ha] at h
    simp only [Bool.not_true, Bool.false_eq_true, if_false] at h
    have fin : ∀ exsig, (msiToTar d >>= fun ms =>
        insertMSISignature d (mk alg (H alg (digestMsiTar (H alg) (!noExt) ms))) exsig s₁ s₂) = .ok d₁ →
        true = true ∧ sigsAreStreamsB d.kids = true ∧ tarRootOkB d.kids = true := by
      intro exsig h
      cases hm : msiToTar d with
      | ok ms =>
        rw [hm] at h
        simp only [Res.bind_ok'] at h
        exact ⟨rfl, (insert_ok_streams d _ _ s₁ s₂ d₁ h).2, msiToTar_ok_rootOk d ms hm⟩
      | err e => rw [hm] at h; simp at h
      | panic e => rw [hm] at h; simp at h
      | diverge => rw [hm] at h; simp at h
    cases noExt with
    | true =>
      simp only [if_true, Res.pure_eq, Res.bind_ok'] at h
      exact fin [] h
    | false =>
      simp only [Bool.false_eq_true, if_false] at h
      cases hp : prehashMsiDir d with
      | ok p =>
        rw [hp] at h
        simp only [Res.bind_ok', Res.pure_eq] at h
        exact fin _ h
      | err e => rw [hp] at h; simp at h
      | panic e => rw [hp] at h; simp at h
      | diverge => rw [hp] at h; simp at h

end Relic.MsiSign

/-
  Relic.Model.Transport — executable model of
    * `(*client).doRequest` / `buildRequest` in /repo/cmdline/remotecmd/client.go (server list
      repetition up to `remote.retries`, the `for i, base := range bases` loop, the 406/415 fallback
      `encodings = ""; goto loop`, `httperror.Temporary` classification of HTTP statuses),
    * `selectEncoding` and the error path of `CompressRequest` (`compress`, `pw.CloseWithError(err)`)
      in /repo/lib/compresshttp/compress.go,
    * `fileProducer.GetReader` in /repo/signers/transform.go (seek to 0, hand out the file).

  Strings are `List Char` so that the proofs stay in core `List` lemmas; the driver converts.
  One entry of the script = what happens to one attempt (one call of `cli.cli.Do`).
-/
import Relic.Base.Bytes
namespace Relic.Transport
open Relic

abbrev Str := List Char

/-! ### `selectEncoding` -/

def gzip : Str := ['g', 'z', 'i', 'p']
def snappy : Str := ['x', '-', 's', 'n', 'a', 'p', 'p', 'y', '-', 'f', 'r', 'a', 'm', 'e', 'd']

/-- `prefs[encoding]` (missing key = 0) -/
def pref (e : Str) : Nat := if e = gzip then 1 else if e = snappy then 2 else 0

/-- `strings.Split(s, sep)` for a one-character separator -/
def splitChar (sep : Char) : Str → List Str
  | [] => [[]]
  | c :: cs =>
    match splitChar sep cs with
    | [] => [[]]          -- unreachable: the result is never empty
    | p :: ps => if c = sep then [] :: p :: ps else (c :: p) :: ps

/-- ASCII white space as trimmed by `strings.TrimSpace` (the generator stays in ASCII) -/
def isSp (c : Char) : Bool := c = ' ' || c = '\t' || c = '\n' || c = '\r' || c.toNat = 11 || c.toNat = 12

def trimSpace (s : Str) : Str := ((s.dropWhile isSp).reverse.dropWhile isSp).reverse

/-- `strings.TrimSpace(strings.Split(encoding, ";")[0])` for every element of `strings.Split(a, ",")` -/
def tokens (a : Str) : List Str :=
  (splitChar ',' a).map fun e => trimSpace ((splitChar ';' e).headD [])

/-- the loop body: `if p2 := prefs[encoding]; p2 > pref { pref = p2; best = encoding }` -/
def pick (acc : Nat × Str) (e : Str) : Nat × Str := if pref e > acc.1 then (pref e, e) else acc

def choose (ts : List Str) : Str := (ts.foldl pick (0, [])).2

def selectEncoding (a : Str) : Str := choose (tokens a)

/-! ### `doRequest` -/

inductive Outcome where
  /-- a response arrived with this status code -/
  | status (code : Nat)
  /-- `cli.cli.Do` returned an error; `temporary` = `httperror.Temporary(err)` -/
  | neterr (temporary : Bool)
  /-- the reader handed out by `bodyFile.GetReader()` for this attempt returns an error after `k`
      bytes (I/O error on the input file, failing tar producer, ...); `temporary` =
      `httperror.Temporary` of that error once net/http has wrapped it in a `*url.Error`
      (true e.g. for `io.ErrUnexpectedEOF`).  If nothing else happens the server would answer 200. -/
  | srcFault (k : Nat) (temporary : Bool)
  deriving Repr, DecidableEq

/-- `statusIsTemporary` in internal/httperror/response.go -/
def statusIsTemporary (c : Nat) : Bool := c = 504 || c = 502 || c = 503 || c = 507 || c = 500

inductive Final where
  /-- `break loop` with a response below 300 from this server -/
  | response (code : Nat) (server : Nat)
  | httpError (code : Nat)
  | netError
  /-- the server list was empty: `return nil, nil` -/
  | nothing
  deriving Repr, DecidableEq

structure Attempt where
  server : Nat
  /-- the `encodings` argument of `buildRequest` (= Accept-Encoding header, none if empty) -/
  accept : Str
  /-- Content-Encoding chosen by `CompressRequest` (`[]` = body sent as is, no header) -/
  enc : Str
  /-- plain bytes offered as request body: what `bodyFile.GetReader()` hands out -/
  offered : Bytes
  deriving Repr, DecidableEq

/-- `fileProducer.GetReader`: `Seek(0, io.SeekStart)`, then the file itself.  `pos` is wherever a
    previous attempt left the file pointer. -/
def getReader (file : Bytes) (_pos : Nat) : Bytes := file.drop 0

/-! ### the request body of one attempt: `buildRequest` + `compresshttp.CompressRequest` + `cli.cli.Do` -/

/-- how a byte stream ends for its reader: `io.EOF`, or an error -/
inductive End where
  | eof
  | error (temporary : Bool)
  deriving Repr, DecidableEq

/-- the reader of one attempt: the bytes it yields and how it ends -/
def sourceOf (file : Bytes) : Outcome → Bytes × End
  | .srcFault k t => ((getReader file 0).take k, .error t)
  | .status _ => (getReader file 0, .eof)
  | .neterr _ => (getReader file 0, .eof)

/-- `compress(encoding, plain, pw)`: `io.Copy(compr, r)` returns the reader's error (nil at EOF);
    `compr.Close()` runs only if it returned nil and succeeds (the pipe's read side is alive until
    the transport is done with the request).  The value is the error returned. -/
def compressResult (src : End) : End := src

/-- `pw.CloseWithError(err)`: the read side of the pipe ends with `err`, with `io.EOF` iff `err == nil` -/
def closeWithError (err : End) : End := err

/-- how `request.Body` ends for the transport after `CompressRequest`: the source itself when no
    encoding was selected, else the read side of the pipe fed by the compression goroutine -/
def bodyEnd (enc : Str) (src : End) : End :=
  if enc = [] then src else closeWithError (compressResult src)

/-- what a server-side handler gets to read as (decompressed) request body -/
inductive Delivery where
  /-- the request never reached a server -/
  | none
  /-- no clean end of body: the chunked body is left unterminated (and the decompressor fails), the
      handler's read returns an error, if the handler runs at all -/
  | aborted
  /-- clean EOF after these plain bytes (codec round trip assumed): the handler may answer below 300 -/
  | complete (body : Bytes)
  deriving Repr, DecidableEq

/-- what `cli.cli.Do` returns -/
inductive DoResult where
  | response (code : Nat)
  | error (temporary : Bool)
  deriving Repr, DecidableEq

/-- `cli.cli.Do(request)`.  net/http: an error from reading `Request.Body` is what `RoundTrip`
    returns ("errors reading from the user's Request.Body are high priority"), and the request is
    not retried by the transport.  Otherwise the scripted event.  The last branch is not reachable
    (`srcFault_bodyEnd`): it says what a handler does with a cleanly ended prefix. -/
def roundTrip (enc : Str) (file : Bytes) (o : Outcome) : DoResult × Delivery :=
  match bodyEnd enc (sourceOf file o).2 with
  | .error t => (.error t, .aborted)
  | .eof =>
    match o with
    | .status c => (.response c, .complete (sourceOf file o).1)
    | .neterr t => (.error t, .none)
    | .srcFault _ _ => (.response 200, .complete (sourceOf file o).1)

inductive PassRes where
  | final (f : Final)
  /-- `encodings = ""; goto loop` -/
  | restart
  deriving Repr, DecidableEq

/-- one run of `for i, base := range bases` from the server at the head of the list.
    A missing script entry counts as `status 200`.  Returns the attempts made, how the run ended,
    and the unconsumed script. -/
def pass (file : Bytes) (encs : Str) : List Nat → List Outcome → List Attempt × PassRes × List Outcome
  | [], sc => ([], .final .nothing, sc)
  | b :: rest, sc =>
    let a : Attempt := ⟨b, encs, selectEncoding encs, getReader file 0⟩
    match (roundTrip a.enc file (sc.headD (.status 200))).1 with
    | .response c =>
      if c < 300 then ([a], .final (.response c b), sc.tail)
      else if (c = 406 ∨ c = 415) ∧ encs ≠ [] then ([a], .restart, sc.tail)   -- (415: since the repair of F-chttp-415)
      else if statusIsTemporary c = true ∧ rest ≠ [] then
        let r := pass file encs rest sc.tail
        (a :: r.1, r.2.1, r.2.2)
      else ([a], .final (.httpError c), sc.tail)
    | .error t =>
      if t = true ∧ rest ≠ [] then
        let r := pass file encs rest sc.tail
        (a :: r.1, r.2.1, r.2.2)
      else ([a], .final .netError, sc.tail)

/-- `pass` as the loop was BEFORE the repair of F-chttp-415: only 406 clears `encodings` -/
def passOrig (file : Bytes) (encs : Str) : List Nat → List Outcome → List Attempt × PassRes × List Outcome
  | [], sc => ([], .final .nothing, sc)
  | b :: rest, sc =>
    let a : Attempt := ⟨b, encs, selectEncoding encs, getReader file 0⟩
    match (roundTrip a.enc file (sc.headD (.status 200))).1 with
    | .response c =>
      if c < 300 then ([a], .final (.response c b), sc.tail)
      else if c = 406 ∧ encs ≠ [] then ([a], .restart, sc.tail)
      else if statusIsTemporary c = true ∧ rest ≠ [] then
        let r := passOrig file encs rest sc.tail
        (a :: r.1, r.2.1, r.2.2)
      else ([a], .final (.httpError c), sc.tail)
    | .error t =>
      if t = true ∧ rest ≠ [] then
        let r := passOrig file encs rest sc.tail
        (a :: r.1, r.2.1, r.2.2)
      else ([a], .final .netError, sc.tail)

/-- the repetition of the server list: `for len(repeated) < minAttempts { repeated = append(repeated, bases...) }` -/
def repeatTo (bases : List Nat) (min : Nat) : Nat → List Nat → List Nat
  | 0, acc => acc
  | fuel + 1, acc => if acc.length < min then repeatTo bases min fuel (acc ++ bases) else acc

/-- `none` = the Go loop does not terminate (empty list, positive `retries`) -/
def expand (bases : List Nat) (retries : Int) : Option (List Nat) :=
  if (bases.length : Int) < retries then
    if bases = [] then none else some (repeatTo bases retries.toNat retries.toNat [])
  else some bases

def doRequest (file : Bytes) (encs : Str) (bases : List Nat) (retries : Int) (script : List Outcome) :
    Res (List Attempt × Final) :=
  match expand bases retries with
  | none => .diverge
  | some bs =>
    let r1 := pass file encs bs script
    match r1.2.1 with
    | .final f => .ok (r1.1, f)
    | .restart =>
      let r2 := pass file [] bs r1.2.2
      match r2.2.1 with
      | .final f => .ok (r1.1 ++ r2.1, f)
      | .restart => .panic "unreachable: second 406 restart"

/-- `doRequest` before the repair of F-chttp-415 -/
def doRequestOrig (file : Bytes) (encs : Str) (bases : List Nat) (retries : Int) (script : List Outcome) :
    Res (List Attempt × Final) :=
  match expand bases retries with
  | none => .diverge
  | some bs =>
    let r1 := passOrig file encs bs script
    match r1.2.1 with
    | .final f => .ok (r1.1, f)
    | .restart =>
      let r2 := passOrig file [] bs r1.2.2
      match r2.2.1 with
      | .final f => .ok (r1.1 ++ r2.1, f)
      | .restart => .panic "unreachable: second 406 restart"

end Relic.Transport

package c11

import (
	"crypto"
	"encoding/binary"
	"encoding/hex"
	"fmt"

	"verifharness/hx"
	"verifharness/sg"
)

func signInPlace(typ, path, key string, flags map[string]string) error {
	if flags == nil {
		flags = map[string]string{}
	}
	if typ == "ps" {
		flags["ps-style"] = ".ps1"
	}
	return sg.Sign(typ, path, path, sg.Cert(key), crypto.SHA256, flags)
}

func hexOrDash(b []byte) string {
	if len(b) == 0 {
		return "-"
	}
	return hex.EncodeToString(b)
}

// ---- APK signing block builder (records where every uint32 length prefix sits)

type blk struct {
	b        []byte
	prefixes []int
}

func (k *blk) u32(v uint32) { k.b = binary.LittleEndian.AppendUint32(k.b, v) }

func (k *blk) prefixed(f func()) {
	at := len(k.b)
	k.prefixes = append(k.prefixes, at)
	k.u32(0)
	f()
	binary.LittleEndian.PutUint32(k.b[at:], uint32(len(k.b)-at-4))
}

const apkMagic = "APK Sig Block 42"

// apkGap wraps pair area bytes into a signing block.
func apkGap(pairs []byte) []byte {
	var g []byte
	g = binary.LittleEndian.AppendUint64(g, uint64(len(pairs)+24))
	g = append(g, pairs...)
	g = binary.LittleEndian.AppendUint64(g, uint64(len(pairs)+24))
	return append(g, apkMagic...)
}

func apkPair(id uint32, val []byte) []byte {
	var p []byte
	p = binary.LittleEndian.AppendUint64(p, uint64(len(val)+4))
	p = binary.LittleEndian.AppendUint32(p, id)
	return append(p, val...)
}

func randSignerList(r *hx.Rng) *blk {
	k := &blk{}
	k.prefixed(func() {
		for s := r.Pick(0, 1, 1, 1, 2); s > 0; s-- {
			k.prefixed(func() { // apkSigner
				k.prefixed(func() { k.b = append(k.b, r.Bytes(r.Pick(0, 1, 4, 9))...) }) // SignedData (raw)
				k.prefixed(func() {                                                      // Signatures
					for n := r.Pick(0, 1, 1, 2); n > 0; n-- {
						k.prefixed(func() {
							k.u32(uint32(r.Pick(0x0103, 0x0201, 7)))
							k.prefixed(func() { k.b = append(k.b, r.Bytes(r.Pick(0, 3, 8))...) })
						})
					}
				})
				k.prefixed(func() { k.b = append(k.b, r.Bytes(r.Pick(0, 1, 5))...) }) // PublicKey
			})
		}
	})
	return k
}

func genModels(e *emitter, r *hx.Rng, thorough bool) {
	// ---- APKBLK
	e.always("APKBLK verify -")
	for n := 1; n < 40; n++ { // short gaps ending in the magic: 16..23 bytes is the getSigBlock window
		g := make([]byte, n)
		if n >= 16 {
			copy(g[n-16:], apkMagic)
		}
		e.always("APKBLK verify " + hexOrDash(g))
	}
	e.always("APKBLK verify " + hexOrDash(apkGap(nil)))
	e.always("APKBLK verify " + hexOrDash(apkGap(apkPair(0x42726577, []byte{1, 2, 3}))))
	for _, ps := range []uint64{0, 3, 4, 5, 11, 12, 1 << 31, 1<<64 - 1} { // pair sizes around the guards
		p := binary.LittleEndian.AppendUint64(nil, ps)
		p = append(p, 0x1a, 0x87, 0x09, 0x71, 0, 0, 0, 0, 0, 0, 0, 0)
		e.always("APKBLK verify " + hexOrDash(apkGap(p)))
		e.always("APKBLK verify " + hexOrDash(apkGap(p[:11])))
	}
	nLists := 6
	if thorough {
		nLists = 60
	}
	deltas := []int64{-9, -8, -5, -4, -3, -1, 1, 2, 3, 4, 5, 8, 9, 1 << 20, 0x7fffffff - 4, 0xffffffff}
	for i := 0; i < nLists; i++ {
		k := randSignerList(r)
		e.always("APKBLK verify " + hexOrDash(apkGap(apkPair(0x7109871a, k.b))))
		for _, at := range k.prefixes {
			orig := int64(binary.LittleEndian.Uint32(k.b[at:]))
			rem := int64(len(k.b) - at) // bytes from the prefix to the end of the value
			vals := map[int64]bool{}
			for _, d := range deltas {
				vals[orig+d] = true
				vals[rem+d] = true // around "size == len(blob)": the inverted test's window is (len-4, len+4]
			}
			vals[rem] = true
			vals[0] = true
			for v := range vals {
				if v < 0 || v > 0xffffffff || v == orig {
					continue
				}
				m := append([]byte{}, k.b...)
				binary.LittleEndian.PutUint32(m[at:], uint32(v))
				e.op("APKBLK verify " + hexOrDash(apkGap(apkPair(0x7109871a, m))))
			}
		}
		for t := 0; t < len(k.b); t++ {
			e.op("APKBLK verify " + hexOrDash(apkGap(apkPair(0x7109871a, k.b[:t]))))
		}
		// block-level damage
		g := apkGap(apkPair(0x7109871a, k.b))
		for j := 0; j < 6; j++ {
			m := append([]byte{}, g...)
			switch j {
			case 0:
				binary.LittleEndian.PutUint64(m, uint64(r.Pick(0, 1, len(m), len(m)-8, len(m)-7)))
			case 1:
				binary.LittleEndian.PutUint64(m[len(m)-24:], uint64(r.Pick(0, len(m), len(m)-8)))
			case 2:
				m[len(m)-1] ^= 1
			case 3:
				binary.LittleEndian.PutUint64(m[8:], uint64(r.Pick(0, 3, 4, len(m), len(k.b)+3, len(k.b)+5, len(k.b)+4+12)))
			case 4:
				m = m[r.Intn(len(m)):]
			case 5:
				m[16+r.Intn(4)] ^= byte(1 << uint(r.Intn(8)))
			}
			e.always("APKBLK verify " + hexOrDash(m))
		}
	}

	// ---- CSBLOB
	mkSuper := func(magic uint32, length int64, count uint32, idx [][2]uint32, data []byte) []byte {
		var b []byte
		b = binary.BigEndian.AppendUint32(b, magic)
		b = binary.BigEndian.AppendUint32(b, uint32(length))
		b = binary.BigEndian.AppendUint32(b, count)
		for _, ix := range idx {
			b = binary.BigEndian.AppendUint32(b, ix[0])
			b = binary.BigEndian.AppendUint32(b, ix[1])
		}
		b = append(b, data...)
		if length < 0 {
			binary.BigEndian.PutUint32(b[4:], uint32(len(b)))
		}
		return b
	}
	for n := 0; n < 14; n++ {
		e.always("CSBLOB super " + hexOrDash(make([]byte, n)))
	}
	nSup := 30
	if thorough {
		nSup = 400
	}
	for i := 0; i < nSup; i++ {
		cnt := r.Pick(0, 1, 1, 2, 3)
		var data []byte
		var idx [][2]uint32
		dataOff := 12 + 8*cnt
		for j := 0; j < cnt; j++ {
			item := binary.BigEndian.AppendUint32(nil, uint32(r.Pick(0xfade0c01, 0xfade7171, 0x11223344)))
			body := r.Bytes(r.Pick(0, 1, 8, 20))
			item = binary.BigEndian.AppendUint32(item, uint32(8+len(body)))
			item = append(item, body...)
			idx = append(idx, [2]uint32{uint32(r.Pick(2, 5, 7, 0x999, 0x10002)), uint32(dataOff + len(data))})
			data = append(data, item...)
		}
		magic := uint32(r.Pick(0, 0, 0, 0xfade0cc0, 0xfade0cc1, 0xfade0c02))
		good := mkSuper(magic, -1, uint32(cnt), idx, data)
		e.always("CSBLOB super " + hexOrDash(good))
		total := len(good)
		// header fields
		for _, l := range []int64{0, 7, 8, int64(total) - 1, int64(total), int64(total) + 1, 0xffffffff} {
			m := append([]byte{}, good...)
			binary.BigEndian.PutUint32(m[4:], uint32(l))
			e.op("CSBLOB super " + hexOrDash(m))
		}
		for _, c := range []uint32{0, uint32(cnt) + 1, uint32(cnt) + 2, 0x1fffffff, 0x20000000, 0x7fffffff, 0xffffffff} {
			m := append([]byte{}, good...)
			binary.BigEndian.PutUint32(m[8:], c)
			e.op("CSBLOB super " + hexOrDash(m))
		}
		// index offsets and item lengths around every guard
		for j := 0; j < cnt; j++ {
			blobLen := total - dataOff
			for _, o := range []int64{0, 4, int64(dataOff) - 9, int64(dataOff) - 8, int64(dataOff) - 5, int64(dataOff) - 4, int64(dataOff) - 3, int64(dataOff) - 1, int64(dataOff),
				int64(dataOff + blobLen - 9), int64(dataOff + blobLen - 8), int64(dataOff + blobLen - 7), int64(total), 0x7fffffff, 0x80000000, 0xffffffff} {
				if o < 0 {
					continue
				}
				m := append([]byte{}, good...)
				binary.BigEndian.PutUint32(m[12+8*j+4:], uint32(o))
				e.op("CSBLOB super " + hexOrDash(m))
			}
			io := int(idx[j][1])
			for _, l := range []int64{0, 1, 7, 8, int64(total - io), int64(total-io) + 1, 0x7fffffff, 0xffffffff} {
				m := append([]byte{}, good...)
				binary.BigEndian.PutUint32(m[io+4:], uint32(l))
				e.op("CSBLOB super " + hexOrDash(m))
				// together with an offset just below the data area (the negative-offset window)
				for _, back := range []int{1, 4, 5} {
					if dataOff-back >= 0 {
						m2 := append([]byte{}, m...)
						binary.BigEndian.PutUint32(m2[12+8*j+4:], uint32(dataOff-back))
						e.op("CSBLOB super " + hexOrDash(m2))
					}
				}
			}
		}
		for t := 0; t < total; t += 1 + r.Intn(3) {
			e.op("CSBLOB super " + hexOrDash(good[:t]))
		}
	}

	// ---- XAPSIG
	for n := 0; n < 24; n++ {
		e.always("XAPSIG rm " + hexOrDash(make([]byte, n)))
	}
	nX := 20
	if thorough {
		nX = 200
	}
	for i := 0; i < nX; i++ {
		body := r.Bytes(r.Pick(0, 1, 9, 10, 30, 100))
		n := len(body)
		for _, ts := range []int64{0, 1, int64(n) - 1, int64(n), int64(n) + 1, int64(n) + 9, int64(n) + 10, int64(n) - 10, 0x7fffffff, 0xffffffff, 0xfffffff6, 0xfffffff5} {
			if ts < 0 {
				continue
			}
			tr := binary.LittleEndian.AppendUint32(nil, 0x53706158)
			tr = binary.LittleEndian.AppendUint16(tr, 1)
			tr = binary.LittleEndian.AppendUint32(tr, uint32(ts))
			e.op("XAPSIG rm " + hexOrDash(append(append([]byte{}, body...), tr...)))
		}
		e.op("XAPSIG rm " + hexOrDash(body))
	}

	// ---- BINLOAD
	for n := 0; n < 10; n++ {
		e.always("BINLOAD load " + hexOrDash(make([]byte, n)))
	}
	mkSet := func(ver, num uint32, hdrs [][3]uint64, blobs []byte) []byte {
		b := binary.BigEndian.AppendUint32(nil, ver)
		b = binary.BigEndian.AppendUint32(b, num)
		for _, h := range hdrs {
			b = binary.BigEndian.AppendUint64(b, h[0])
			b = binary.BigEndian.AppendUint32(b, uint32(h[1]))
			b = binary.BigEndian.AppendUint32(b, uint32(h[2]))
		}
		return append(b, blobs...)
	}
	nB := 30
	if thorough {
		nB = 300
	}
	for i := 0; i < nB; i++ {
		cnt := r.Pick(0, 1, 2, 3)
		var hdrs [][3]uint64
		var blobs []byte
		for j := 0; j < cnt; j++ {
			bl := r.Bytes(r.Pick(0, 1, 5, 16))
			hdrs = append(hdrs, [3]uint64{uint64(r.Intn(1000)), uint64(r.Intn(20)), uint64(len(bl))})
			blobs = append(blobs, bl...)
		}
		good := mkSet(1, uint32(cnt), hdrs, blobs)
		e.always("BINLOAD load " + hexOrDash(good))
		e.op("BINLOAD load " + hexOrDash(mkSet(uint32(r.Pick(0, 2, 256)), uint32(cnt), hdrs, blobs)))
		for _, c := range []uint32{uint32(cnt) + 1, uint32(cnt) + 2, 1000, 1 << 16} { // bigger counts: see the allocation ops below
			m := append([]byte{}, good...)
			binary.BigEndian.PutUint32(m[4:], c)
			e.op("BINLOAD load " + hexOrDash(m))
		}
		for j := 0; j < cnt; j++ {
			for _, ns := range []uint64{0, hdrs[j][2] + 1, uint64(len(blobs)) + 1, 1 << 16} {
				m := append([]byte{}, good...)
				binary.BigEndian.PutUint32(m[8+16*j+12:], uint32(ns))
				e.op("BINLOAD load " + hexOrDash(m))
			}
		}
		for t := 0; t < len(good); t += 1 + r.Intn(4) {
			e.op("BINLOAD load " + hexOrDash(good[:t]))
		}
	}
	// allocation sized by the header: 16*NumPatches / NewSize (answered through the entry sweep: alloc / abort)
	for _, c := range []uint32{1 << 20, 1 << 24, 1 << 28, 0xffffffff} {
		e.always(fmt.Sprintf("C11 ep lib:binpatch hex:%s -", hex.EncodeToString(mkSet(1, c, nil, nil))))
	}
	for _, ns := range []uint64{1 << 27, 1 << 30, 0xffffffff} {
		e.always(fmt.Sprintf("C11 ep lib:binpatch hex:%s -", hex.EncodeToString(mkSet(1, 1, [][3]uint64{{0, 0, ns}}, nil))))
	}
}

/- line-protocol handler for the part-level APPX model (first token APPXV; C01 / C02).

   APPXV ct <defaults> <overrides> <adds> <finds>       ContentTypes: Parse (lists in document order), Add*, Marshal, Find*
   APPXV sign <fx> <subject DER> <members> <tab>*       DigestAppxTar + Sign on parts; verdict of the model verifier on the result
   APPXV verify <fx> <zip> <tab>*                       Verify: the list of steps (the check evaluates the hash comparisons)

   lists: `_` = empty list, items separated by `,` (`;` for records with `,` inside), bytes as hex with `-` = empty
   <members>: namehex:s|d:contenthex,…
   <tab>: S:<pkcs7>:<certid>.<subject>.<alg>.<hsize>.<digest> | S:<pkcs7>:err     readSignature's PKCS#7 part
          B:<xml>:<alg|x>/<name.size.h|h|…;…>                                       parsed block map (h = `!`: bad base64)
          K:<catalog>:<certid> | K:<catalog>:err                                    verifyCatalog's PKCS#7 part
          M:<xml>:<rootNamed>/<ids>     U:<xml>:<ids>/<fn.offset.size;…>            manifests (ids: elements `;`, attributes `,`, space.key.value)
          I:<compd>:<plain>   O:<xml>:<name,size,…;…>   T:<xml>:<k=v,…>/<k=v,…>   PX:<plain>                       -/
import Relic.Model.AppxPkg
import Relic.Driver.Appx
namespace Relic.Driver.AppxPkg
open Relic Relic.Zip Relic.Appx Relic.AppxPkg

def unhex := Relic.Driver.Appx.unhex
def hex := Relic.Driver.Appx.hex

def listOf {α} (sep : String) (f : String → Option α) (s : String) : Option (List α) :=
  if s = "_" then some [] else (s.splitOn sep).mapM f

def pairOfSep (sep : String) (s : String) : Option (Bytes × Bytes) :=
  match s.splitOn sep with
  | [k, v] => do pure ((← unhex k), (← unhex v))
  | _ => none

def pairOf := pairOfSep ":"

def attrOf (s : String) : Option Xml.Attr :=
  match s.splitOn "." with
  | [a, k, v] => do pure ⟨(← unhex a), (← unhex k), (← unhex v)⟩
  | _ => none

def idsOf (s : String) : Option (List (List Xml.Attr)) := listOf ";" (listOf "," attrOf) s

def intOf (s : String) : Option Int :=
  if s.startsWith "-" then (s.drop 1).toNat?.map fun n => -(n : Int) else s.toNat?.map fun n => (n : Int)

def pkgOf (s : String) : Option BPkg :=
  match s.splitOn "." with
  | [f, o, z] => do pure ⟨(← unhex f), (← intOf o), (← z.toNat?)⟩
  | _ => none

def bmFileOf (s : String) : Option AppxPkg.BmFile :=
  match s.splitOn "." with
  | [n, z, hs] => do
    let bl ← listOf "|" (fun h => if h = "!" then some none else (unhex h).map some) hs
    pure ⟨(← unhex n), (← z.toNat?), bl⟩
  | _ => none

structure Tab where
  sigs : List (Bytes × Res SigBlob) := []
  bms : List (Bytes × BmDoc) := []
  cats : List (Bytes × Res CertId) := []
  mans : List (Bytes × MDoc) := []
  buns : List (Bytes × BDoc) := []
  inf : List (Bytes × Bytes) := []
  old : List (Bytes × List (Bytes × List Nat)) := []
  cts : List (Bytes × (List (Bytes × Bytes) × List (Bytes × Bytes))) := []
  px : List Bytes := []

def parseTab : List String → Tab → Option Tab
  | [], t => some t
  | tok :: rest, t =>
    match tok.splitOn ":" with
    | ["S", a, "err"] => do parseTab rest { t with sigs := t.sigs ++ [(← unhex a, .err "badsig")] }
    | ["S", a, d] =>
      match d.splitOn "." with
      | [c, sj, al, hz, dg] => do
        parseTab rest { t with sigs := t.sigs ++ [(← unhex a, .ok ⟨⟨← unhex c, ← unhex sj⟩, ← al.toNat?, ← hz.toNat?, ← unhex dg⟩)] }
      | _ => none
    | ["B", a, d] =>
      match d.splitOn "/" with
      | [al, fs] => do
        parseTab rest { t with bms := t.bms ++ [(← unhex a, ⟨if al = "x" then none else al.toNat?, ← listOf ";" bmFileOf fs⟩)] }
      | _ => none
    | ["K", a, "err"] => do parseTab rest { t with cats := t.cats ++ [(← unhex a, .err "catalog")] }
    | ["K", a, c] => do parseTab rest { t with cats := t.cats ++ [(← unhex a, .ok ⟨← unhex c, []⟩)] }
    | ["M", a, d] =>
      match d.splitOn "/" with
      | [r, ids] => do parseTab rest { t with mans := t.mans ++ [(← unhex a, ⟨r = "1", ← idsOf ids⟩)] }
      | _ => none
    | ["U", a, d] =>
      match d.splitOn "/" with
      | [ids, ps] => do parseTab rest { t with buns := t.buns ++ [(← unhex a, ⟨← idsOf ids, ← listOf ";" pkgOf ps⟩)] }
      | _ => none
    | ["I", a, b] => do parseTab rest { t with inf := t.inf ++ [(← unhex a, ← unhex b)] }
    | ["O", a, d] => do parseTab rest { t with old := t.old ++ [(← unhex a, ← Relic.Driver.Appx.parseBmData d)] }
    | ["T", a, d] =>
      match d.splitOn "/" with
      | [ds, os] => do parseTab rest { t with cts := t.cts ++ [(← unhex a, (← listOf "," (pairOfSep "=") ds, ← listOf "," (pairOfSep "=") os))] }
      | _ => none
    | ["PX", a] => do parseTab rest { t with px := (← unhex a) :: t.px }
    | ["W", _] => parseTab rest t        -- a label of the generator (e.g. W:illformed), not a parameter
    | _ => none

/-- `<f41><dup><pub>` as three characters 0 / 1 -/
def fxOf (s : String) : Fx :=
  match s.toList with
  | [a, b, c] => ⟨a == '1', b == '1', c == '1'⟩
  | _ => Fx.orig

def look {β} (l : List (Bytes × β)) (k : Bytes) : Option β := (l.find? fun e => e.1 == k).map (·.2)

def codecOf (t : Tab) : Codec :=
  { inflate := fun c => look t.inf c, peOk := fun p => !t.px.contains p, manifestOk := fun _ => true,
    ctypesOk := fun _ => true, blockMap := fun _ => none }

def fmtName (der : Bytes) : Bytes :=
  match Ident.formatPkixName .msosco der with
  | .ok n => n
  | _ => Ident.invalidName

/-- what `archive/zip` lists for the bytes `z`, with `verifyMeta`'s streams -/
def viewOf (c : Codec) (z : Bytes) : Option AppxPkg.View :=
  match read ⟨z, false, 0⟩ with
  | .ok d =>
    let ent := fun (f : File) =>
      let off := match readLocalHeader ⟨z, false, 0⟩ f with
        | .ok (l, _) => f.offset + 30 + l.nameLen + l.extraLen
        | _ => 0
      let content : Res Bytes := match partContent c z [f] f.name with
        | some r => r
        | none => .err "io"
      ({ name := f.name, stored := f.method == 0, usize := f.usize, dataOff := off, content := content,
         region := (z.drop off).take f.usize } : Entry)
    some ⟨d.files.map ent, verifyMeta z⟩
  | _ => none

def envOf (t : Tab) (rev : Bool := false) : Env :=
  { mapOrder := fun l => if rev then l.reverse else l,
    openSig := fun b => (look t.sigs b).getD (.err "badsig"),
    parseBM := fun b => look t.bms b,
    openCat := fun b => (look t.cats b).getD (.err "catalog"),
    parseManifest := fun b => look t.mans b,
    parseBundle := fun b => look t.buns b,
    fmtName := fmtName,
    unzip := fun b => viewOf (codecOf t) b }

def resStr : Res Unit → String
  | .ok _ => "ok"
  | .err e => "err:" ++ e
  | .panic s => "panic:" ++ s
  | .diverge => "diverge"

def streamStr (z s : Bytes) : String :=
  if !s.isEmpty && s == z.take s.length then s!"@0:{s.length}" else hex s

def stepStr (z : Bytes) : Step → String
  | .cmp cls alg s e => s!"c,{cls},{alg},{streamStr z s},{hex e}"
  | .stop r => "s," ++ resStr r

def pairsStr (l : List (Bytes × Bytes)) : String :=
  if l.isEmpty then "_" else ",".intercalate (l.map fun e => s!"{hex e.1}:{hex e.2}")

/-! ### self-verification of the model signer's result under an injective table hash -/

def tableHash (tbl : List Bytes) (_alg : Nat) (s : Bytes) : Bytes :=
  leBytes 32 (match tbl.findIdx? (· == s) with
    | some i => i + 1
    | none => 0)

def memberOf (ms : List InMember) (n : Bytes) : Option InMember := ms.find? fun m => m.name == n

def handle : List String → String
  | ["ct", ds, os, adds, finds] =>
    match listOf "," pairOf ds, listOf "," pairOf os, listOf "," unhex adds, listOf "," unhex finds with
    | some ds, some os, some adds, some finds =>
      let c := ctAddAll (Vsix.ctParse {} ds os) adds
      let fs := finds.map fun n => hex (Vsix.ctFind c n)
      s!"ok ser={hex (ctSerialize c)} find={if fs.isEmpty then "_" else ",".intercalate fs}"
    | _, _, _, _ => "bad-op"
  | "sign" :: fx :: subj :: members :: tab =>
    let memOf := fun (s : String) =>
      match s.splitOn ":" with
      | [n, m, c] => do pure (⟨← unhex n, m = "s", ← unhex c⟩ : InMember)
      | _ => none
    match unhex subj, listOf "," memOf members, parseTab tab {} with
    | some subj, some ms, some t =>
      let fx := fxOf fx
      let catBytes : Bytes := [0x63, 0x61, 0x74]
      let S : SignEnv :=
        { peOk := fun p => !t.px.contains p, parseManifest := fun b => look t.mans b, parseBundle := fun b => look t.buns b,
          oldBM := fun b => look t.old b, parseCT := fun b => look t.cts b,
          marshalManifest := fun _ => [0x6d], marshalBundle := fun _ => [0x75], marshalBM := fun _ => [0x62],
          catalog := fun _ => catBytes, p7 := fun b => b, fmtName := fmtName }
      match signParts fx S ms subj with
      | .ok r =>
        let names := ",".intercalate (r.members.map fun m => hex m.name) ++ "," ++ hex sSignature
        let bm := ";".intercalate (r.bm.map fun f => s!"{hex f.name}.{f.size}.{f.blocks.length}")
        let doc : MDoc := match r.manifest, r.bundle with
          | some d, _ => d
          | none, some b => ⟨true, b.ids⟩
          | none, none => ⟨false, []⟩
        let vis := match visiblePublisher (reread doc) with
          | some p => hex p
          | none => "none"
        -- the model verifier on the model signer's result (packages only; bundles are judged on the real output, stage 2)
        let v : String :=
          if r.bundle.isSome && r.manifest.isNone then "na" else
          let axpc : Bytes := [1]
          let axcd : Bytes := [2]
          let tbl := [axpc, axcd, r.axct, r.axbm] ++ (match r.axci with | some c => [c] | none => []) ++
            r.bm.flatMap fun f => f.blocks.map (·.1)
          let H := tableHash tbl
          let blob := digestBlob H 256 axpc axcd r
          let cert : CertId := ⟨[7], subj⟩
          let mbytes := (r.members.find? fun m => m.name == Appx.sManifest).map (·.content)
          let E : Env :=
            { openSig := fun b => if b == blob then .ok ⟨cert, 256, 32, blob⟩ else .err "badsig",
              parseBM := fun b => if b == r.axbm then
                  some ⟨some 256, r.bm.map fun f => ⟨f.name, f.size, f.blocks.map fun bl => some (H 256 bl.1)⟩⟩ else none,
              openCat := fun b => if some b == r.axci then .ok cert else .err "catalog",
              parseManifest := fun b => if some b == mbytes then r.manifest.map reread else none,
              parseBundle := fun _ => none, fmtName := fmtName, unzip := fun _ => none, mapOrder := id }
          let ents := (r.members ++ [sigMemberOf S blob]).map fun m =>
            ({ name := m.name, stored := m.stored, usize := m.content.length, dataOff := 0, content := .ok m.content, region := m.content } : Entry)
          resStr (run H (verifySteps fx E 1 ⟨ents, .ok (axpc, axcd)⟩))
        s!"ok names={names} ct={hex r.axct} bm={bm} pub={hex (fmtName subj)} rpub={hex (readPublisher false (reread doc))} vis={vis} V={v}"
      | .err e => s!"err {e}"
      | .panic s => s!"panic {s}"
      | .diverge => "diverge"
    | _, _, _ => "bad-op"
  | "verify" :: fx :: zh :: tab =>
    match unhex zh, parseTab tab {} with
    | some z, some t =>
      match viewOf (codecOf t) z with
      | none => "steps s,err:zip"
      | some v =>
        let st := verifySteps (fxOf fx) (envOf t) depthBound v
        let st2 := verifySteps (fxOf fx) (envOf t true) depthBound v
        let show_ := fun (st : List Step) => if st.isEmpty then "s,ok" else " ".intercalate (st.map (stepStr z))
        let alt := if show_ st2 == show_ st then "" else " || " ++ show_ st2
        let info := match readSig (envOf t) v with
          | .ok sg => s!"bundle={if v.isBundle then 1 else 0} n={v.entries.length} tags={sg.values.length}"
          | _ => "nosig"
        "steps " ++ show_ st ++ alt ++ " #" ++ info
    | _, _ => "bad-op"
  | _ => "bad-op"

end Relic.Driver.AppxPkg

/-
  C01 — Every signature relic produces verifies.   Mach-O part (models `Relic.Model.MachO`, `Relic.Model.CodeDir`).
  The crux is an ORDER: `machos.Sign` patches the load commands (LC_CODE_SIGNATURE, __LINKEDIT sizes, ncmds/sizeofcmds)
  BEFORE it hashes, feeds the patched header buffer to the page hasher, and cuts the patch blobs from that same
  buffer.  So the image that was hashed is the prefix of the file that gets written, and the verifier's pages are the
  signer's pages.  CMS is a parameter; so is the hash function.
-/
import Relic.Proofs.MachOPatch
import Relic.Proofs.CodeDirVerify
import Relic.Props.C12
namespace Relic.Props.C01
open Relic Relic.MachO Relic.CodeDir Relic.Binpatch

/-- **macho_written_is_reference.** The production path (Add … Dump/Load … rewrite) applied to the patch set
    `PatchSignature` builds yields the reference result `written`, whenever the calls come in ascending order
    (header fields, then __LINKEDIT fields, then LC_CODE_SIGNATURE, then the signature: the regular command order). -/
theorem macho_written_is_reference (M : Nat) (f h3 : Bytes) (rs : List (Nat × Nat)) (cs sigLen padding : Nat) (sigBuf : Bytes)
    (hc : C12.Constructible f.length (hdrPatches h3 rs ++ [⟨cs, sigLen, zeros padding ++ sigBuf⟩])) :
    applyRewrite f (build M (hdrPatches h3 rs ++ [⟨cs, sigLen, zeros padding ++ sigBuf⟩])) =
      .ok (written f h3 rs cs sigLen padding sigBuf) :=
  C12.add_spec M f _ hc

/-- **macho_sign_then_verify_partial** (the ordering crux, proved at the level of the patch set).  Let `h3` be the
    header buffer after `PatchSignature` (it differs from the file's header only inside the recorded ranges `rs`),
    `cs` the end of code, `padding` the alignment gap, `sigBuf` the signature buffer.  If nothing but an old signature
    lies behind `cs` when padding is inserted, then for every page size the pages of the first `cs + padding` bytes
    (= `codeLimit`) of the WRITTEN file are the pages that were hashed at signing; and `VerifyPages`, run on the
    written file against one slot per page, performs exactly the comparisons `(page_i hashed at signing, slot_i)`.
    Hence with `slot_i = H(page_i)` (C05.codedir_hashes_eq_spec) every comparison succeeds for every `H`. -/
theorem macho_sign_then_verify_partial (ps : Nat) (hps : 0 < ps) (f h3 : Bytes) (rs : List (Nat × Nat))
    (cs sigLen padding : Nat) (sigBuf : Bytes) (L : Layout f h3 rs cs sigLen) (hreg : padding = 0 ∨ f.length = cs)
    (slots : List Bytes) (hslots : slots.length = (pages ps (hashedImage f h3 cs padding)).length) :
    let g := written f h3 rs cs sigLen padding sigBuf
    pages ps (g.take (cs + padding)) = pages ps (hashedImage f h3 cs padding) ∧
    verifyLoop ps slots (g.take (cs + padding)) ((cs + padding : Nat) : Int) ps =
      (zipChecks (pages ps (hashedImage f h3 cs padding)) slots, .ok ()) := by
  intro g
  have hp := hashed_eq_written_prefix f h3 rs cs sigLen padding sigBuf L hreg
  have hlen : (hashedImage f h3 cs padding).length = cs + padding := by
    rw [← hp]
    have : (written f h3 rs cs sigLen padding sigBuf).length = f.length + (padding + sigBuf.length) - sigLen := by
      unfold written
      rw [sem_append]
      have h1 : (sem f [⟨cs, sigLen, zeros padding ++ sigBuf⟩]).length = f.length + (padding + sigBuf.length) - sigLen := by
        show (splice f cs sigLen (zeros padding ++ sigBuf)).length = _
        rw [splice_length]; have := L.oldInside; simp [zeros]; omega
      rw [sem_hdrPatches_length h3 _ rs L.ranges (by rw [h1]; have := L.hdrBelow; have := L.oldInside; omega), h1]
    simp only [List.length_take, this]
    have := L.oldInside; omega
  refine ⟨by rw [hp], ?_⟩
  show verifyLoop ps slots (g.take (cs + padding)) _ ps = _
  rw [hp]
  have := verifyLoop_pages ps hps slots (hashedImage f h3 cs padding) hslots
  rw [hlen] at this
  exact this

/-- the end-to-end statement over the executable model (`sign`, `signedFile`, `locate`): for every regular thin image
    and every blob that fits, the written file exists, the verifier's locator finds exactly the signature region, and
    the verifier's pages are the signer's pages.  Not proved as one theorem (the load-command walk of `scan`/`newFile`
    on an arbitrary header is not characterised); its three links are `macho_written_is_reference`,
    `macho_sign_then_verify_partial` and C05.sign_codedir_eq_spec, and it is exercised on every run by the `sign` op
    (model prediction `verify=ok` against `machos.Verify` on the really signed file).
    STATUS (Props/C01_MachOLocate.lean): AS WRITTEN THIS STATEMENT IS FALSE IN THE MODEL
    (`not_macho_sign_then_verify_full`: an image with an LC_SYMTAB command is signed, but the model's partial
    `loadLoop` answers "unmodelled" on the signed file — a gap of the statement, not of relic).  The corrected statement,
    with the explicit regularity bundle `Regular` (parser accepts the input, one 16-byte LC_CODE_SIGNATURE at most, no
    slack behind the last command, __LINKEDIT command kind = file magic, signature region behind the load commands and
    inside the file, `sigBufLen ≤ 10^7`), is proved for both branches of `PatchSignature` as `macho_sign_then_locate`
    (plus `macho_sign_then_verify_regular` = the three conjuncts below).  The hypotheses `lePos ≠ 0` and
    `lePos + 56 ≤ nextLc` are derivable (`macho_markers_derivable`); `padding = 0 ∨ f.length = codeSize` is not needed.
    The whole chain up to `machos.Verify`'s verdict (superblob / code-directory round trips, special slots, `VerifyPages`) is
    `macho_sign_then_verify_end_to_end` in Props/C01_MachOFull.lean. -/
def macho_sign_then_verify_full : Prop :=
  ∀ (f : Bytes) (p : SignParams) (so : SignOut) (blob : Bytes),
    sign f p = .ok so → so.plan.m.lePos ≠ 0 → so.plan.m.lePos + 56 ≤ so.plan.m.nextLc →
    (so.plan.po.padding = 0 ∨ (f.length : Int) = so.plan.m.codeSize) → blob.length ≤ so.plan.po.sigBufLen →
    ∃ g, signedFile f so.plan.po blob = .ok g ∧ locate g = .ok (so.plan.po.sigStart, so.plan.po.sigBufLen) ∧
      pages 4096 (g.take so.signed.pages.limit) = pages 4096 so.plan.stream

/-- the statement without any regularity hypothesis ("whatever `machos.Sign` accepts, it signs into something its own
    verifier accepts; everything else is refused"): FALSE on this tree — an image without __LINKEDIT is accepted and
    the signature written at offset 0 (F-MACHO-1, corpus/C01/macho_no_linkedit.ops), and bytes behind an unaligned end
    of __LINKEDIT are hashed in place of the padding (F-MACHO-2, `macho_trailing_bytes_break`,
    corpus/C01/macho_trailing_bytes.ops).  The check evaluates this statement on the real code for every `sign` op. -/
def macho_irregular_refused_full : Prop :=
  ∀ (f : Bytes) (p : SignParams) (so : SignOut) (blob : Bytes),
    sign f p = .ok so → blob.length ≤ so.plan.po.sigBufLen →
    ∃ g, signedFile f so.plan.po blob = .ok g ∧ locate g = .ok (so.plan.po.sigStart, so.plan.po.sigBufLen) ∧
      pages 4096 (g.take so.signed.pages.limit) = pages 4096 so.plan.stream

/-- **macho_trailing_bytes_break** (finding F-MACHO-2, negation of the regularity-free statement): without the hypothesis
    `padding = 0 ∨ f.length = cs` the hashed image is NOT the prefix of the written file — bytes behind an unaligned
    end of code are hashed where the output has zero padding.  (Concrete replay on the real code:
    corpus/C01/macho_trailing_bytes.ops.) -/
theorem macho_trailing_bytes_break :
    ∃ (f h3 : Bytes) (cs padding : Nat) (sigBuf : Bytes), Layout f h3 [] cs 0 ∧
      (written f h3 [] cs 0 padding sigBuf).take (cs + padding) ≠ hashedImage f h3 cs padding := by
  refine ⟨[1, 2, 3, 4, 5, 9, 9, 9], [1, 2, 3, 4], 5, 3, [7], ⟨by simp, ?_, by decide, by decide⟩, by decide⟩
  intro i hi _
  have : i < 4 := hi
  match i, this with
  | 0, _ => rfl
  | 1, _ => rfl
  | 2, _ => rfl
  | 3, _ => rfl

/-! ### non-vacuity -/

/-- a regular instance: 8-byte "file", 4-byte header buffer with bytes 2..3 patched, end of code 8 -/
example : Layout [1, 2, 3, 4, 5, 6, 7, 8] [1, 2, 30, 40] [(2, 2)] 8 0 ∧
    written [1, 2, 3, 4, 5, 6, 7, 8] [1, 2, 30, 40] [(2, 2)] 8 0 0 [99] = [1, 2, 30, 40, 5, 6, 7, 8, 99] := by
  refine ⟨⟨by decide, ?_, by decide, by decide⟩, by decide⟩
  intro i hi hr
  have : i < 4 := hi
  match i, this with
  | 0, _ => rfl
  | 1, _ => rfl
  | 2, _ => exact absurd hr (by decide)
  | 3, _ => exact absurd hr (by decide)

end Relic.Props.C01

package e2e

import (
	"crypto"
	_ "crypto/sha1"
	_ "crypto/sha256"
	_ "crypto/sha512"
	"fmt"
	"os"
	"path/filepath"
	"strings"
	"testing"

	"verifharness/sg"
)

func TestExplore(t *testing.T) {
	fix := map[string]string{
		"pe-coff": "WindowsFormsApplication1.exe", "msi": "dummy.msi", "cab": "dummy.cab", "ps": "hello.ps1",
		"jar": "hello.jar", "apk": "dummy.apk", "appx": "App1_1.0.3.0_x64.appx", "vsix": "VSIXProject1.vsix",
		"xap": "dummy.xap", "appmanifest": "WindowsFormsApplication1.exe.manifest", "cat": "hyperv.cat",
		"deb": "zlib1g_1.2.8.dfsg-5_i386.deb", "rpm": "rocky-basesystem-11-13.el9.noarch.rpm", "pgp": "Release",
		"pkcs": "Release", "dmg": "dummy.dmg", "xar": "dummy.pkg", "macho": "slimfile.app/Contents/MacOS/slimfile",
	}
	hashes := map[string]crypto.Hash{"sha1": crypto.SHA1, "sha224": crypto.SHA224, "sha256": crypto.SHA256, "sha384": crypto.SHA384, "sha512": crypto.SHA512}
	dir := t.TempDir()
	for typ, fx := range fix {
		for _, key := range []string{"rsa", "p256", "p384", "p521"} {
			for hn, h := range hashes {
				if hn != "sha256" && key != "rsa" && key != "p256" {
					continue
				}
				src := filepath.Join("/repo/functest/packages", fx)
				data, err := os.ReadFile(src)
				if err != nil {
					fmt.Println(typ, "fixture", err)
					continue
				}
				p := filepath.Join(dir, filepath.Base(fx))
				os.WriteFile(p, data, 0o644)
				res := func() (r string) {
					defer func() {
						if v := recover(); v != nil {
							r = fmt.Sprint("PANIC ", v)
						}
					}()
					if err := sg.Sign(typ, p, p, sg.Cert(key), h, nil); err != nil {
						return "signerr: " + err.Error()
					}
					sigs, err := sg.Verify(typ, p, sg.Cert(key), false)
					if err != nil {
						return "verifyerr: " + err.Error()
					}
					var hs []string
					for _, s := range sigs {
						hs = append(hs, fmt.Sprint(s.Hash))
					}
					return fmt.Sprintf("ok sigs=%d hash=%s", len(sigs), strings.Join(hs, ","))
				}()
				fmt.Printf("%-12s %-5s %-7s %s\n", typ, key, hn, res)
			}
		}
	}
}

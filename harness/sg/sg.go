// Package sg: drive relic's real sign → apply → fixup → verify pipeline in-process
// (the flow of cmdline/token/signcmd.go) with in-memory keys.
package sg

import (
	"bytes"
	"crypto"
	"crypto/ecdsa"
	"crypto/elliptic"
	"crypto/rand"
	"crypto/rsa"
	"crypto/x509"
	"crypto/x509/pkix"
	"fmt"
	"math/big"
	"net/url"
	"os"
	"sync"
	"time"

	"github.com/ProtonMail/go-crypto/openpgp"
	"github.com/ProtonMail/go-crypto/openpgp/packet"

	"github.com/sassoftware/relic/v8/lib/audit"
	"github.com/sassoftware/relic/v8/lib/certloader"
	"github.com/sassoftware/relic/v8/signers"

	// every signer module
	_ "github.com/sassoftware/relic/v8/signers/apk"
	_ "github.com/sassoftware/relic/v8/signers/appmanifest"
	_ "github.com/sassoftware/relic/v8/signers/appx"
	_ "github.com/sassoftware/relic/v8/signers/cab"
	_ "github.com/sassoftware/relic/v8/signers/cat"
	_ "github.com/sassoftware/relic/v8/signers/cosign"
	_ "github.com/sassoftware/relic/v8/signers/deb"
	_ "github.com/sassoftware/relic/v8/signers/dmg"
	_ "github.com/sassoftware/relic/v8/signers/jar"
	_ "github.com/sassoftware/relic/v8/signers/macho"
	_ "github.com/sassoftware/relic/v8/signers/msi"
	_ "github.com/sassoftware/relic/v8/signers/pecoff"
	_ "github.com/sassoftware/relic/v8/signers/pgp"
	_ "github.com/sassoftware/relic/v8/signers/pkcs"
	_ "github.com/sassoftware/relic/v8/signers/ps"
	_ "github.com/sassoftware/relic/v8/signers/rpm"
	_ "github.com/sassoftware/relic/v8/signers/vsix"
	_ "github.com/sassoftware/relic/v8/signers/xap"
	_ "github.com/sassoftware/relic/v8/signers/xar"
)

var (
	mu    sync.Mutex
	certs = map[string]*certloader.Certificate{}
)

// KeyKinds lists the key types a harness can ask for.
var KeyKinds = []string{"rsa", "p256", "p384", "p521"}

func genKey(kind string) (crypto.Signer, error) {
	switch kind {
	case "rsa", "rsa2", "rsachain":
		return rsa.GenerateKey(rand.Reader, 2048)
	case "p256", "p256b":
		return ecdsa.GenerateKey(elliptic.P256(), rand.Reader)
	case "p384":
		return ecdsa.GenerateKey(elliptic.P384(), rand.Reader)
	case "p521":
		return ecdsa.GenerateKey(elliptic.P521(), rand.Reader)
	}
	return nil, fmt.Errorf("unknown key kind %s", kind)
}

// Cert returns (and caches) a key of the given kind with a self-signed code-signing
// certificate and a PGP entity over the same key where the type supports it.
func Cert(kind string) *certloader.Certificate {
	mu.Lock()
	defer mu.Unlock()
	if c := certs[kind]; c != nil {
		return c
	}
	key, err := genKey(kind)
	if err != nil {
		panic(err)
	}
	tmpl := &x509.Certificate{
		SerialNumber:          big.NewInt(int64(len(certs) + 2)),
		Subject:               pkix.Name{CommonName: "verif " + kind, Organization: []string{"verif"}},
		NotBefore:             time.Now().Add(-24 * time.Hour),
		NotAfter:              time.Now().Add(365 * 24 * time.Hour),
		KeyUsage:              x509.KeyUsageDigitalSignature,
		ExtKeyUsage:           []x509.ExtKeyUsage{x509.ExtKeyUsageCodeSigning},
		BasicConstraintsValid: true,
	}
	der, err := x509.CreateCertificate(rand.Reader, tmpl, tmpl, key.Public(), key)
	if err != nil {
		panic(err)
	}
	leaf, err := x509.ParseCertificate(der)
	if err != nil {
		panic(err)
	}
	c := &certloader.Certificate{Leaf: leaf, Certificates: []*x509.Certificate{leaf}, PrivateKey: key, KeyName: "verif-" + kind}
	if kind == "rsachain" {
		// a real chain: root -> CA 5 -> … -> CA 1 -> leaf, all RSA-2048 (the root is not embedded: five intermediates, more than 4 KiB of DER): signature blocks and
		// certificate tables that outgrow an initial buffer.  The leaf is re-issued by CA 1.
		var parent *x509.Certificate
		var parentKey crypto.Signer
		var cas []*x509.Certificate
		for i := 6; i >= 1; i-- {
			ck, err := rsa.GenerateKey(rand.Reader, 2048)
			if err != nil {
				panic(err)
			}
			ct := &x509.Certificate{
				SerialNumber: big.NewInt(int64(900 + i)), Subject: pkix.Name{CommonName: fmt.Sprintf("verif chain CA %d", i), Organization: []string{"verif"}},
				NotBefore: time.Now().Add(-24 * time.Hour), NotAfter: time.Now().Add(365 * 24 * time.Hour),
				KeyUsage: x509.KeyUsageCertSign, BasicConstraintsValid: true, IsCA: true,
			}
			p, pk := ct, crypto.Signer(ck)
			if parent != nil {
				p, pk = parent, parentKey
			}
			cd, err := x509.CreateCertificate(rand.Reader, ct, p, ck.Public(), pk)
			if err != nil {
				panic(err)
			}
			cc, _ := x509.ParseCertificate(cd)
			cas = append([]*x509.Certificate{cc}, cas...)
			parent, parentKey = cc, ck
		}
		ld, err := x509.CreateCertificate(rand.Reader, tmpl, parent, key.Public(), parentKey)
		if err != nil {
			panic(err)
		}
		leaf, _ = x509.ParseCertificate(ld)
		c.Leaf = leaf
		c.Certificates = append([]*x509.Certificate{leaf}, cas...)
	}
	// PGP entity over the same private key (RSA and ECDSA are both supported by the packet layer)
	if ent, err := pgpEntity(kind, key); err == nil {
		c.PgpKey = ent
	}
	certs[kind] = c
	return c
}

func pgpEntity(kind string, key crypto.Signer) (*openpgp.Entity, error) {
	now := time.Now().Add(-time.Hour)
	var priv *packet.PrivateKey
	switch k := key.(type) {
	case *rsa.PrivateKey:
		priv = packet.NewRSAPrivateKey(now, k)
	default:
		return nil, fmt.Errorf("no pgp for %T", key)
	}
	uid := packet.NewUserId("verif "+kind, "", "verif@example.com")
	ent := &openpgp.Entity{
		PrimaryKey: &priv.PublicKey,
		PrivateKey: priv,
		Identities: map[string]*openpgp.Identity{},
	}
	isPrimary := true
	sig := &packet.Signature{
		Version:      4,
		SigType:      packet.SigTypePositiveCert,
		PubKeyAlgo:   priv.PubKeyAlgo,
		Hash:         crypto.SHA256,
		CreationTime: now,
		IssuerKeyId:  &priv.KeyId,
		IsPrimaryId:  &isPrimary,
		FlagsValid:   true,
		FlagSign:     true,
		FlagCertify:  true,
	}
	if err := sig.SignUserId(uid.Id, &priv.PublicKey, priv, nil); err != nil {
		return nil, err
	}
	ent.Identities[uid.Id] = &openpgp.Identity{Name: uid.Id, UserId: uid, SelfSignature: sig}
	return ent, nil
}

// Sign runs the standalone signing flow of relic on inPath, writing outPath.
func Sign(modName, inPath, outPath string, cert *certloader.Certificate, hash crypto.Hash, flags map[string]string) error {
	mod := signers.ByName(modName)
	if mod == nil {
		return fmt.Errorf("no signer %s", modName)
	}
	if mod.Sign == nil {
		return fmt.Errorf("can't sign files of type: %s", mod.Name)
	}
	q := url.Values{}
	for k, v := range flags {
		q.Set(k, v)
	}
	fv, err := mod.FlagsFromQuery(q)
	if err != nil {
		return fmt.Errorf("flags: %w", err)
	}
	info := audit.New(cert.KeyName, mod.Name, hash)
	now := time.Now().UTC()
	info.SetTimestamp(now)
	if cert.Leaf != nil {
		info.SetX509Cert(cert.Leaf)
	}
	if cert.PgpKey != nil {
		info.SetPgpCert(cert.PgpKey)
	}
	opts := signers.SignOpts{Path: inPath, Hash: hash, Time: now, Audit: info, Flags: fv}
	// shared.OpenForPatching: read-write when patching in place
	mode := os.O_RDONLY
	if inPath == outPath {
		mode = os.O_RDWR
	}
	infile, err := os.OpenFile(inPath, mode, 0)
	if err != nil {
		return err
	}
	defer infile.Close()
	transform, err := mod.GetTransform(infile, opts)
	if err != nil {
		return fmt.Errorf("transform: %w", err)
	}
	stream, err := transform.GetReader()
	if err != nil {
		return fmt.Errorf("getreader: %w", err)
	}
	blob, err := mod.Sign(stream, cert, opts)
	if err != nil {
		return fmt.Errorf("sign: %w", err)
	}
	if err := transform.Apply(outPath, opts.Audit.GetMimeType(), bytes.NewReader(blob)); err != nil {
		return fmt.Errorf("apply: %w", err)
	}
	if mod.Fixup != nil {
		f, err := os.OpenFile(outPath, os.O_RDWR, 0)
		if err != nil {
			return err
		}
		defer f.Close()
		if err := mod.Fixup(f); err != nil {
			return fmt.Errorf("fixup: %w", err)
		}
	}
	return nil
}

// Verify runs the signer's verifier (integrity on, chain off unless a pool is given).
func Verify(modName, path string, cert *certloader.Certificate, noDigests bool) ([]*signers.Signature, error) {
	return VerifyContent(modName, path, "", cert, noDigests)
}

// VerifyContent: as Verify; content names the file a detached signature covers (relic verify --content)
func VerifyContent(modName, path, content string, cert *certloader.Certificate, noDigests bool) ([]*signers.Signature, error) {
	mod := signers.ByName(modName)
	if mod == nil || (mod.Verify == nil && mod.VerifyStream == nil) {
		return nil, fmt.Errorf("no verifier %s", modName)
	}
	f, err := os.Open(path)
	if err != nil {
		return nil, err
	}
	defer f.Close()
	opts := signers.VerifyOpts{FileName: path, NoDigests: noDigests, NoChain: true, Content: content}
	if cert != nil && cert.PgpKey != nil {
		opts.TrustedPgp = openpgp.EntityList{cert.PgpKey}
	}
	if cert != nil && cert.Leaf != nil {
		opts.TrustedX509 = []*x509.Certificate{cert.Leaf}
	}
	if mod.VerifyStream != nil { // cmdline/verify prefers the streaming verifier
		return mod.VerifyStream(f, opts)
	}
	return mod.Verify(f, opts)
}

/-
  C08 — Re-signing replaces the signature: the VSIX second signing is total.
  `vsix_resign_total_full` of `Relic.Props.C08_Vsix`: a second signing (any key, hash, `--detach-certs` setting) of what the
  repaired signer wrote cannot fail, provided `[Content_Types].xml` reads back as written.  Two things could have gone wrong
  and do not: a part could lose its content type (the table read back answers like the one of the first round, except that
  `cer` / `psdor` / `psdsxs` / `rels` now have the builtin types), and the changed content type could break the repair check
  "the verifier's URI mapping gives the name back" — it cannot, because that check does not depend on the content type as
  long as the new one has no `..` element (`vsix_uri_ct_independent`).
-/
import Relic.Props.C08_Vsix
import Relic.Proofs.VsixResign
namespace Relic.Props.C08
open Relic Relic.Xml Relic.XmlSig Relic.Vsix

/-- the Reference URI mapping of `checkManifest` gives a name back behind one content type ⇒ it gives it back behind every
    content type without a `..` element after its first slash -/
theorem vsix_uri_ct_independent (n ct1 ct2 : Bytes) (h : uriPath (Ref.uri ⟨n, ct1, []⟩) = n) (hc : CtOk ct2) :
    uriPath (Ref.uri ⟨n, ct2, []⟩) = n :=
  uriPath_change_ct n ct1 ct2 h hc

/-- the content type hypothesis is needed: "a", found again behind "x/../a", is lost behind "x/../.." -/
example : uriPath (Ref.uri ⟨[0x61], [0x78, 0x2f, 0x2e, 0x2e, 0x2f, 0x61], []⟩) = [0x61] ∧
    uriPath (Ref.uri ⟨[0x61], [0x78, 0x2f, 0x2e, 0x2e, 0x2f, 0x2e, 0x2e], []⟩) ≠ [0x61] := by decide

/-- **vsix_resign_total**: the second signing cannot fail when the first succeeded -/
theorem vsix_resign_total : vsix_resign_total_full := by
  intro E c1 c2 pkg s1 h1 hc1 hrt
  exact sign_resign c2 h1 hc1 hrt

/-- … and what it returns is described by `vsix_resign_replaces` -/
theorem vsix_resign_total_replaces (E : Env) (c1 c2 : Cfg) (pkg : Pkg) (s1 : Vsix.Signed)
    (h1 : Vsix.sign true E c1 pkg = .ok s1) (hc1 : cfgOk c1 = true) (hc2 : cfgOk c2 = true)
    (hrt : ∀ a b, E.parseCT (E.marshalCT a b) = some (a, b)) :
    ∃ s2, Vsix.sign true E c2 s1.parts = .ok s2 ∧ s2.kept = s1.kept ∧ s2.kept = pkg.filter (fun p => keepFile p.name) ∧
      s2.parts = s2.kept ++ newsOf E c2 s2.obj s2.ctOut ∧
      s2.parts.filter (fun p => p.name = sigName c2) = [⟨sigName c2, E.xsign c2.hash c2.detach s2.obj⟩] := by
  obtain ⟨s2, h2⟩ := vsix_resign_total E c1 c2 pkg s1 h1 hc1 hrt
  obtain ⟨a, b, c, d, -⟩ := vsix_resign_replaces true E c1 c2 pkg s1 s2 h1 hc1 h2 hc2
  exact ⟨s2, h2, a, b, c, d⟩

/-- the hypotheses are satisfiable, in the case that is not trivial: the environment's content types codec has the round
    trip; the package declares `Default cer = "x/y"`, `Default rels = "r"`; the first signing (detached certificates) writes
    these types into the Reference URIs of `a.cer` and of the two relationship parts; the second signing reads the
    builtin types back for both extensions and succeeds with different URIs -/
example : ∃ s1 s2, Vsix.sign true (toyE (demoCfg true) toyPkg) (demoCfg true) toyPkg = .ok s1 ∧ cfgOk (demoCfg true) = true ∧
    (∀ a b, (toyE (demoCfg true) toyPkg).parseCT ((toyE (demoCfg true) toyPkg).marshalCT a b) = some (a, b)) ∧
    Vsix.sign true (toyE (demoCfg true) toyPkg) (demoCfg false) s1.parts = .ok s2 ∧
    s1.refs.map (·.name) = s2.refs.map (·.name) ∧
    s1.refs.map (·.ctype) = [[0x72], [0x78, 0x2f, 0x79], [0x72], ctPsdor] ∧
    s2.refs.map (·.ctype) = [ctRels, ctCer, ctRels, ctPsdor] := by
  refine ⟨_, _, rfl, by decide, toy_roundtrip, rfl, by decide, by decide, by decide⟩

end Relic.Props.C08

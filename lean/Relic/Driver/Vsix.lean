/- line-protocol handler for the VSIX / OPC package model (token VSIX; used by C01, C02, C03, C08).

   `VSIX sign <hash> <detach> <key> <stem> <chain> <time> <ids> <parts>`
        model of `sign`: part list of the output, reference list (URI, digested stream), content type table, and the verdict of
        the model verifier on that output under the symbolic environment (digest text of a stream = the stream between markers,
        signature part = the Object tree between markers, relationship / content-type parts read back from what was written)
   `VSIX resign <cfg1: 7 fields> <cfg2: 7 fields> <parts>`     sign, then sign the result again
   `VSIX verify <b64table> <parts> <label>`    model of `verify` under the oracles attached to the parts
   The model answers for the repaired code (`fx = true`).
   `VSIX path <fn> <arg>`                      clean | base | dir | ext | rel | uri | keep | targetback

   <parts> = `;`-separated `name:data(:K=value)*`, K = T (content types as `xml.Unmarshal` reads this part: `err` | defs/ovrs),
   R (relationships: `err` | list), C (certificates: `err` | key list), X (`doc.ReadFromString` + `xmldsig.Verify` +
   `checkTimestamp` on this part: `err.<class>` | `panic.<site>` | `ok.<hash>.<key>.<embedded>.<ts>.<Object tree>`),
   H (`alg.digest` of this part's bytes for the algorithms in play).  Lists: `_` = empty, items joined by `+`, item fields by `.`.
   <chain> = `stem.raw.key+…`, <ids> = `zipPath.relType.id+…`, <b64table> = `text.decoded|bad+…`. -/
import Relic.Model.Vsix
import Relic.Driver.XmlSig
namespace Relic.Driver.Vsix
open Relic Relic.Xml Relic.XmlSig Relic.Vsix

def asc (s : String) : Bytes := s.toUTF8.toList

def hashStr : HashId → String
  | .sha1 => "sha1" | .sha224 => "sha224" | .sha256 => "sha256" | .sha384 => "sha384" | .sha512 => "sha512"

/-! ### field parsers -/

def listOf {α} (s : String) (f : String → Option α) : Option (List α) :=
  if s = "_" then some [] else (s.splitOn "+").mapM f

def pairOf (s : String) : Option (Bytes × Bytes) :=
  match s.splitOn "." with
  | [a, b] => do pure ((← fromHex a), (← fromHex b))
  | _ => none

def tripleOf (s : String) : Option (Bytes × Bytes × Bytes) :=
  match s.splitOn "." with
  | [a, b, c] => do pure ((← fromHex a), (← fromHex b), (← fromHex c))
  | _ => none

structure Ann where
  ct : Option (Option (List (Bytes × Bytes) × List (Bytes × Bytes))) := none
  rels : Option (Option (List Rel)) := none
  certs : Option (Option (List Bytes)) := none
  x : Option (Res Opened) := none
  h : List (HashId × Bytes) := []

def parseX (v : String) : Option (Res Opened) :=
  match v.splitOn "." with
  | ["err", cls] => some (.err cls)
  | ["panic", site] => some (.panic site)
  | ["ok", h, key, emb, ts, tree] => do
    let h ← Driver.XmlSig.parseHash h
    let key ← fromHex key
    let emb ← listOf emb fromHex
    let t ← C19.parseTree tree
    pure (.ok { reference := t.2, hash := h, key := key, embedded := emb, ts := if ts = "-" then none else some ts })
  | _ => none

def parseAnn (a : Ann) (s : String) : Option Ann :=
  if s.startsWith "T=" then
    let v := (s.drop 2).toString
    if v = "err" then some { a with ct := some none } else
    match v.splitOn "/" with
    | [d, o] => do
      let d ← listOf d pairOf
      let o ← listOf o pairOf
      pure { a with ct := some (some (d, o)) }
    | _ => none
  else if s.startsWith "R=" then
    let v := (s.drop 2).toString
    if v = "err" then some { a with rels := some none } else do
      let rs ← listOf v pairOf
      pure { a with rels := some (some (rs.map fun p => ⟨p.1, [], p.2⟩)) }
  else if s.startsWith "C=" then
    let v := (s.drop 2).toString
    if v = "err" then some { a with certs := some none } else do
      let ks ← listOf v fromHex
      pure { a with certs := some (some ks) }
  else if s.startsWith "X=" then do
    let x ← parseX (s.drop 2).toString
    pure { a with x := some x }
  else if s.startsWith "H=" then do
    let hs ← listOf (s.drop 2).toString fun it =>
      match it.splitOn "." with
      | [alg, d] => do pure ((← Driver.XmlSig.parseHash alg), (← fromHex d))
      | _ => none
    pure { a with h := hs }
  else none

def parsePart (s : String) : Option (Part × Ann) :=
  match s.splitOn ":" with
  | n :: d :: anns => do
    let n ← fromHex n
    let d ← fromHex d
    let a ← anns.foldlM parseAnn {}
    pure (⟨n, d⟩, a)
  | _ => none

def parseParts (s : String) : Option (List (Part × Ann)) :=
  if s = "_" then some [] else (s.splitOn ";").mapM parsePart

/-! ### environments -/

structure Tables where
  ct : List (Bytes × Option (List (Bytes × Bytes) × List (Bytes × Bytes))) := []
  rels : List (Bytes × Option (List Rel)) := []
  certs : List (Bytes × Option (List Bytes)) := []
  x : List (Bytes × Res Opened) := []
  h : List (Bytes × HashId × Bytes) := []
  b : List (Bytes × Option Bytes) := []
  ids : List (Bytes × Bytes × Bytes) := []

def tablesOf (ps : List (Part × Ann)) (t : Tables) : Tables :=
  ps.foldl (fun t pa =>
    let d := pa.1.data
    let a := pa.2
    { t with
      ct := match a.ct with | some v => t.ct ++ [(d, v)] | none => t.ct
      rels := match a.rels with | some v => t.rels ++ [(d, v)] | none => t.rels
      certs := match a.certs with | some v => t.certs ++ [(d, v)] | none => t.certs
      x := match a.x with | some v => t.x ++ [(d, v)] | none => t.x
      h := t.h ++ a.h.map fun e => (d, e.1, e.2) }) t

def lookup {α} (t : List (Bytes × α)) (k : Bytes) : Option α := (t.find? fun e => e.1 = k).map (·.2)

def symDtext (h : HashId) (s : Bytes) : Bytes := Driver.XmlSig.mark 'D' h s

def showPairs (l : List (Bytes × Bytes)) : String :=
  if l.isEmpty then "_" else "+".intercalate (l.map fun p => toHex p.1 ++ "." ++ toHex p.2)

/-- symbolic `[Content_Types].xml` -/
def symCT (d o : List (Bytes × Bytes)) : Bytes := asc ("CT " ++ showPairs d ++ "/" ++ showPairs o)

/-- symbolic signature part -/
def symSeal (h : HashId) (detach : Bool) (obj : Node) : Bytes :=
  asc ("SIG " ++ hashStr h ++ (if detach then " 1 " else " 0 ") ++ Driver.XmlSig.showNode obj)

/-- the environment of an op: oracles from the tables; digests symbolic (sign ops) or from the tables (verify ops) -/
def envOf (t : Tables) (symbolic : Bool) : Env where
  dtext := symDtext
  digestCmp := fun h d v =>
    if symbolic then (if v = symDtext h d then .ok else .mismatch) else
    match lookup t.b v with
    | some (some dec) =>
      match t.h.find? fun e => e.1 = d ∧ e.2.1 = h with
      | some e => if e.2.2 = dec then .ok else .mismatch
      | none => .mismatch
    | _ => .badB64
  relId := fun _ zp ty =>
    match t.ids.find? fun e => e.1 = zp ∧ e.2.1 = ty with
    | some e => e.2.2
    | none => asc "?id?"
  parseRels := fun d => (lookup t.rels d).join
  parseCT := fun d => (lookup t.ct d).join
  marshalCT := symCT
  parseCerts := fun d => (lookup t.certs d).join
  xsign := symSeal
  xopen := fun d _ =>
    match lookup t.x d with
    | some r => r
    | none => .err "no-oracle"

/-! ### printers -/

def showVerdict : Res Verdict → String
  | .ok v => s!"ok:{hashStr v.hash}:{toHex v.key}"
  | .err e => s!"err:{e}"
  | .panic s => s!"panic:{s}"
  | .diverge => "diverge"

def showParts (sigN : Bytes) (ps : Pkg) : String :=
  ";".intercalate (ps.map fun p =>
    toHex p.name ++ ":" ++ (if p.name = sigN then "SIG" else if p.name = sContentTypes then "CT" else toHex p.data))

def showRefs (rs : List Ref) : String :=
  if rs.isEmpty then "_" else ";".intercalate (rs.map fun r => toHex r.uri ++ "=" ++ toHex r.stream)

def showCT (c : CT) : String := showPairs (sortMap c.byExt) ++ "/" ++ showPairs (sortMap c.byOvr)

def b2s (b : Bool) : String := if b then "1" else "0"

/-! ### ops -/

def parseCfg (hash detach stem chain time : String) : Option (Cfg × List (Bytes × Bytes)) := do
  let h ← Driver.XmlSig.parseHash hash
  let stem ← fromHex stem
  let chain ← listOf chain tripleOf
  let time ← fromHex time
  pure ({ hash := h, detach := detach = "1", stem := stem, chain := chain.map (fun x => (x.1, x.2.1)), time := time },
        chain.map fun x => (x.2.1, x.2.2))

/-- tables that let the symbolic environment read back what `sign` wrote -/
def selfTables (E : Env) (c : Cfg) (keys : List (Bytes × Bytes)) (s : Vsix.Signed) (t : Tables) : Tables :=
  let relLists := [appendRel E [] sOrigin sigOriginType, appendRel E [] (sigName c) sigType, certRels E c.chain []]
  let leaf := match keys with | k :: _ => k.2 | [] => []
  { t with
    rels := relLists.map (fun rs => (marshalRels rs, some rs)) ++ t.rels
    certs := keys.map (fun k => (k.1, some [k.2])) ++ t.certs
    ct := (symCT (sortMap s.ctOut.byExt) (sortMap s.ctOut.byOvr), some (sortMap s.ctOut.byExt, sortMap s.ctOut.byOvr)) :: t.ct
    x := (symSeal c.hash c.detach s.obj,
          .ok { reference := s.obj, hash := c.hash, key := leaf, embedded := if c.detach then [] else keys.map (·.2), ts := none }) :: t.x }

def showSigned (E : Env) (c : Cfg) (s : Vsix.Signed) (v : Res Verdict) : String :=
  s!"ok parts={showParts (sigName c) s.parts} refs={showRefs s.refs} ct={showCT s.ctOut} V={showVerdict v}" ++
  s!" #wf={b2s (cfgOk c && refsOk s.refs)} cfg={b2s (cfgOk c)} refsok={b2s (refsOk s.refs)} nrefs={s.refs.length} kept={s.kept.length}" ++
  (match v with | .ok vv => " checked=" ++ ",".intercalate (vv.checked.map fun x => toHex x.1) | _ => "")

def showErr {α} : Res α → String
  | .ok _ => "ok"
  | .err e => s!"err {e}"
  | .panic s => s!"panic {s}"
  | .diverge => "diverge"

def doSign (t : Tables) (c : Cfg) (keys : List (Bytes × Bytes)) (pkg : Pkg) : Res (Vsix.Signed × Tables) :=
  let E := envOf t true
  match Relic.Vsix.sign true E c pkg with
  | .ok s => .ok (s, selfTables E c keys s t)
  | .err e => .err e
  | .panic s => .panic s
  | .diverge => .diverge

def pathOp (fn : String) (a : Bytes) : String :=
  match fn with
  | "clean" => "ok " ++ toHex (pathClean a)
  | "base" => "ok " ++ toHex (pathBase a)
  | "dir" => "ok " ++ toHex (pathDir a)
  | "ext" => "ok " ++ toHex (pathExt a)
  | "rel" => "ok " ++ toHex (relPath a)
  | "uri" => "ok " ++ toHex (uriPath a)
  | "find" => "ok " ++ toHex (cleanRel a)
  | "keep" => "ok " ++ b2s (keepFile a)
  | "targetback" => "ok " ++ b2s (targetBack a)
  | _ => "bad-op"

def handle : List String → String
  | ["sign", hash, detach, _key, stem, chain, time, ids, parts] =>
    match parseCfg hash detach stem chain time, listOf ids tripleOf, parseParts parts with
    | some (c, keys), some ids, some ps =>
      let t := tablesOf ps { ids := ids }
      match doSign t c keys (ps.map (·.1)) with
      | .ok (s, t') => showSigned (envOf t true) c s (verify true (envOf t' true) s.parts)
      | r => showErr r
    | _, _, _ => "bad-op"
  | ["resign", h1, d1, _k1, s1, c1, t1, i1, h2, d2, _k2, s2, c2, t2, i2, parts] =>
    match parseCfg h1 d1 s1 c1 t1, listOf i1 tripleOf, parseCfg h2 d2 s2 c2 t2, listOf i2 tripleOf, parseParts parts with
    | some (ca, ka), some ia, some (cb, kb), some ib, some ps =>
      let t := tablesOf ps { ids := ia ++ ib }
      match doSign t ca ka (ps.map (·.1)) with
      | .ok (sa, ta) =>
        match doSign ta cb kb sa.parts with
        | .ok (sb, tb) =>
          showSigned (envOf ta true) cb sb (verify true (envOf tb true) sb.parts) ++
            s!" first={b2s (cfgOk ca && refsOk sa.refs)} samekept={b2s (decide (sa.kept = sb.kept))} samerefs={b2s (decide (sa.refs.map (·.name) = sb.refs.map (·.name)))}"
        | r => "second-" ++ showErr r
      | r => showErr r
    | _, _, _, _, _ => "bad-op"
  | ["verify", btab, parts, _label] =>
    match listOf btab (fun s => match s.splitOn "." with
        | [a, "bad"] => do pure ((← fromHex a), none)
        | [a, d] => do pure ((← fromHex a), some (← fromHex d))
        | _ => none), parseParts parts with
    | some b, some ps =>
      let t := tablesOf ps { b := b }
      match verify true (envOf t false) (ps.map (·.1)) with
      | .ok v => s!"ok {hashStr v.hash} {toHex v.key} #checked=" ++ ",".intercalate (v.checked.map fun x => toHex x.1)
      | r => showErr r
    | _, _ => "bad-op"
  | ["path", fn, a] =>
    match fromHex a with
    | some a => pathOp fn a
    | none => "bad-op"
  | _ => "bad-op"

end Relic.Driver.Vsix

// extractmagic: reads lib/magic/magic.go, the signer registrations under signers/, psExtMap and the dispatch lines of
// the front ends (both sign commands, server/view_sign.go, cmdline/verify/verify.go) of relic and emits them as Lean
// values of the types of Relic.Model.Magic.
//
//	extractmagic <repo> <out.lean>
//
// Whatever it does not understand lands in `unknown`, so that the Lean obligation fails rather than silently passing.
package main

import (
	"fmt"
	"go/ast"
	"go/parser"
	"go/printer"
	"go/token"
	"os"
	"path/filepath"
	"sort"
	"strconv"
	"strings"
)

var fset = token.NewFileSet()
var unknown []string

func src(n ast.Node) string {
	var sb strings.Builder
	_ = printer.Fprint(&sb, fset, n)
	return strings.Join(strings.Fields(sb.String()), " ")
}

func leanStr(s string) string { return strconv.Quote(s) }

func leanBytes(b []byte) string {
	parts := make([]string, len(b))
	for i, c := range b {
		parts[i] = strconv.Itoa(int(c))
	}
	return "[" + strings.Join(parts, ", ") + "]"
}

func parse(path string) *ast.File {
	f, err := parser.ParseFile(fset, path, nil, 0)
	if err != nil {
		fmt.Fprintln(os.Stderr, err)
		os.Exit(1)
	}
	return f
}

func funcDecl(f *ast.File, name string) *ast.FuncDecl {
	for _, d := range f.Decls {
		if fd, ok := d.(*ast.FuncDecl); ok && fd.Name.Name == name {
			return fd
		}
	}
	return nil
}

// []byte{…} / []byte("…") / "…"
func bytesOf(e ast.Expr) ([]byte, bool) {
	switch x := e.(type) {
	case *ast.BasicLit:
		if x.Kind == token.STRING {
			s, err := strconv.Unquote(x.Value)
			return []byte(s), err == nil
		}
	case *ast.CallExpr:
		if src(x.Fun) == "[]byte" && len(x.Args) == 1 {
			return bytesOf(x.Args[0])
		}
	case *ast.CompositeLit:
		if src(x.Type) != "[]byte" {
			return nil, false
		}
		var out []byte
		for _, el := range x.Elts {
			lit, ok := el.(*ast.BasicLit)
			if !ok {
				return nil, false
			}
			v, err := strconv.ParseUint(lit.Value, 0, 8)
			if err != nil {
				if lit.Kind == token.CHAR {
					c, _, _, err2 := strconv.UnquoteChar(strings.Trim(lit.Value, "'"), '\'')
					if err2 != nil || c > 255 {
						return nil, false
					}
					v = uint64(c)
				} else {
					return nil, false
				}
			}
			out = append(out, byte(v))
		}
		return out, true
	}
	return nil, false
}

var typeCtor = map[string]string{"FileTypeUnknown": "unknown", "FileTypeRPM": "rpm", "FileTypeDEB": "deb", "FileTypePGP": "pgp", "FileTypeJAR": "jar",
	"FileTypePKCS7": "pkcs7", "FileTypePECOFF": "pecoff", "FileTypeMSI": "msi", "FileTypeCAB": "cab", "FileTypeAppManifest": "appManifest",
	"FileTypeCAT": "cat", "FileTypeAPPX": "appx", "FileTypeVSIX": "vsix", "FileTypeXAP": "xap", "FileTypeAPK": "apk", "FileTypeMachO": "machO",
	"FileTypeMachOFat": "machOFat", "FileTypeIPA": "ipa", "FileTypeXAR": "xar"}

func ctor(name string) string {
	name = strings.TrimPrefix(name, "magic.")
	if c, ok := typeCtor[name]; ok {
		return "." + c
	}
	unknown = append(unknown, "type "+name)
	return ".unknown"
}

func intLit(e ast.Expr) (int, bool) {
	lit, ok := e.(*ast.BasicLit)
	if !ok || lit.Kind != token.INT {
		return 0, false
	}
	v, err := strconv.ParseInt(lit.Value, 0, 32)
	return int(v), err == nil
}

// a case expression of Detect's switch -> Lean Test
func testOf(e ast.Expr, isTarPos int, isTarPat []byte) (string, bool) {
	call, ok := e.(*ast.CallExpr)
	if !ok {
		return "", false
	}
	fn := src(call.Fun)
	if len(call.Args) < 1 || src(call.Args[0]) != "br" {
		return "", false
	}
	switch fn {
	case "hasPrefix":
		if len(call.Args) == 2 {
			if b, ok := bytesOf(call.Args[1]); ok {
				return fmt.Sprintf(".at 0 %s", leanBytes(b)), true
			}
		}
	case "atPosition":
		if len(call.Args) == 3 {
			b, ok1 := bytesOf(call.Args[1])
			n, ok2 := intLit(call.Args[2])
			if ok1 && ok2 {
				return fmt.Sprintf(".at %d %s", n, leanBytes(b)), true
			}
		}
	case "contains":
		if len(call.Args) == 3 {
			b, ok1 := bytesOf(call.Args[1])
			n, ok2 := intLit(call.Args[2])
			if ok1 && ok2 {
				return fmt.Sprintf(".contains %d %s", n, leanBytes(b)), true
			}
		}
	case "isTar":
		if len(call.Args) == 1 && isTarPos >= 0 {
			return fmt.Sprintf(".at %d %s", isTarPos, leanBytes(isTarPat)), true
		}
	}
	return "", false
}

type rule struct {
	tests []string
	act   string
}

func main() {
	if len(os.Args) != 3 {
		fmt.Fprintln(os.Stderr, "usage: extractmagic <repo> <out.lean>")
		os.Exit(2)
	}
	repo := os.Args[1]
	mf := parse(filepath.Join(repo, "lib", "magic", "magic.go"))

	// ---- constants in declaration order
	var typeNames, compNames []string
	for _, d := range mf.Decls {
		gd, ok := d.(*ast.GenDecl)
		if !ok || gd.Tok != token.CONST {
			continue
		}
		var cur *[]string
		for _, sp := range gd.Specs {
			vs := sp.(*ast.ValueSpec)
			if vs.Type != nil {
				switch src(vs.Type) {
				case "FileType":
					cur = &typeNames
				case "CompressionType":
					cur = &compNames
				default:
					cur = nil
				}
			}
			if cur != nil {
				for _, n := range vs.Names {
					*cur = append(*cur, n.Name)
				}
			}
		}
	}

	// ---- isTar: return atPosition(br, []byte("ustar"), 257)
	isTarPos, isTarPat := -1, []byte(nil)
	if fd := funcDecl(mf, "isTar"); fd != nil && len(fd.Body.List) == 1 {
		if rs, ok := fd.Body.List[0].(*ast.ReturnStmt); ok && len(rs.Results) == 1 {
			if call, ok := rs.Results[0].(*ast.CallExpr); ok && src(call.Fun) == "atPosition" && len(call.Args) == 3 {
				b, ok1 := bytesOf(call.Args[1])
				n, ok2 := intLit(call.Args[2])
				if ok1 && ok2 {
					isTarPos, isTarPat = n, b
				}
			}
		}
	}
	if isTarPos < 0 {
		unknown = append(unknown, "isTar")
	}

	// ---- Detect: the switch
	var rules []rule
	mzBody := ""
	detect := funcDecl(mf, "Detect")
	var detectOther []string
	if detect == nil {
		unknown = append(unknown, "no Detect")
	} else {
		for _, st := range detect.Body.List {
			sw, ok := st.(*ast.SwitchStmt)
			if !ok {
				detectOther = append(detectOther, src(st))
				continue
			}
			if sw.Tag != nil || sw.Init != nil {
				unknown = append(unknown, "Detect: tagged switch")
			}
			for _, c := range sw.Body.List {
				cc := c.(*ast.CaseClause)
				var r rule
				if cc.List == nil {
					unknown = append(unknown, "Detect: default clause")
				}
				for _, e := range cc.List {
					t, ok := testOf(e, isTarPos, isTarPat)
					if !ok {
						unknown = append(unknown, "Detect case: "+src(e))
						continue
					}
					r.tests = append(r.tests, t)
				}
				switch {
				case len(cc.Body) == 1 && isReturn(cc.Body[0]) != "":
					ret := isReturn(cc.Body[0])
					if ret == "detectTar(br)" {
						r.act = ".tar"
					} else {
						r.act = ".ret " + ctor(ret)
					}
				default:
					var parts []string
					for _, b := range cc.Body {
						parts = append(parts, src(b))
					}
					mzBody = strings.Join(parts, " ; ")
					r.act = ".mzpe"
				}
				rules = append(rules, r)
			}
		}
	}

	// ---- detectZip
	var markers []string
	var flagNames, ipaSuffixes [][]byte
	var zipOther []string
	if fd := funcDecl(mf, "detectZip"); fd != nil {
		ast.Inspect(fd.Body, func(n ast.Node) bool {
			sw, ok := n.(*ast.SwitchStmt)
			if !ok {
				return true
			}
			for _, c := range sw.Body.List {
				cc := c.(*ast.CaseClause)
				if sw.Tag != nil && src(sw.Tag) == "name" {
					for _, e := range cc.List {
						b, ok := bytesOf(e)
						if !ok {
							zipOther = append(zipOther, "case "+src(e))
							continue
						}
						if len(cc.Body) == 1 && isReturn(cc.Body[0]) != "" {
							markers = append(markers, fmt.Sprintf("(%s, %s)", leanBytes(b), ctor(isReturn(cc.Body[0]))))
						} else if len(cc.Body) == 1 && src(cc.Body[0]) == "isJar = true" {
							flagNames = append(flagNames, b)
						} else {
							zipOther = append(zipOther, "body of case "+src(e))
						}
					}
				} else if sw.Tag == nil {
					for _, e := range cc.List {
						call, ok := e.(*ast.CallExpr)
						if ok && src(call.Fun) == "strings.HasSuffix" && len(call.Args) == 2 && src(call.Args[0]) == "name" &&
							len(cc.Body) == 1 && isReturn(cc.Body[0]) == "FileTypeIPA" {
							if b, ok := bytesOf(call.Args[1]); ok {
								ipaSuffixes = append(ipaSuffixes, b)
								continue
							}
						}
						zipOther = append(zipOther, "case "+src(e))
					}
				} else {
					zipOther = append(zipOther, "switch "+src(sw.Tag))
				}
			}
			return false
		})
	} else {
		unknown = append(unknown, "no detectZip")
	}

	// ---- helper sources (their meaning is modelled by hand: any change must show up)
	var helpers [][2]string
	for _, n := range []string{"hasPrefix", "contains", "atPosition", "isTar", "detectTar", "DetectCompressed", "detectZip", "Decompress"} {
		if fd := funcDecl(mf, n); fd != nil {
			helpers = append(helpers, [2]string{n, src(fd)})
		} else {
			helpers = append(helpers, [2]string{n, "?"})
		}
	}

	// ---- signer registrations
	type signer struct {
		name, file string
		lean       string
	}
	var sigs []signer
	matches, _ := filepath.Glob(filepath.Join(repo, "signers", "*", "*.go"))
	sort.Strings(matches)
	for _, path := range matches {
		if strings.HasSuffix(path, "_test.go") || strings.HasSuffix(path, "hooks_verif.go") {
			continue
		}
		f := parse(path)
		pkgDir := filepath.Base(filepath.Dir(path))
		ast.Inspect(f, func(n ast.Node) bool {
			cl, ok := n.(*ast.CompositeLit)
			if !ok || cl.Type == nil || src(cl.Type) != "signers.Signer" {
				return true
			}
			fields := map[string]ast.Expr{}
			for _, el := range cl.Elts {
				kv, ok := el.(*ast.KeyValueExpr)
				if !ok {
					unknown = append(unknown, "positional Signer literal in "+path)
					continue
				}
				fields[src(kv.Key)] = kv.Value
			}
			name := ""
			if e := fields["Name"]; e != nil {
				if b, ok := bytesOf(e); ok {
					name = string(b)
				}
			}
			if name == "" {
				unknown = append(unknown, "Signer without literal Name in "+path)
			}
			var aliases []string
			if e := fields["Aliases"]; e != nil {
				if al, ok := e.(*ast.CompositeLit); ok {
					for _, a := range al.Elts {
						if b, ok := bytesOf(a); ok {
							aliases = append(aliases, leanBytes(b))
						} else {
							unknown = append(unknown, "alias "+src(a))
						}
					}
				} else {
					unknown = append(unknown, "Aliases "+src(e))
				}
			}
			mg := ".unknown"
			if e := fields["Magic"]; e != nil {
				mg = ctor(src(e))
			}
			nonNil := func(k string) bool {
				e := fields[k]
				return e != nil && src(e) != "nil"
			}
			tp := "none"
			if nonNil("TestPath") {
				tp = testPathKind(f, pkgDir, fields["TestPath"])
			}
			stdin := false
			if e := fields["AllowStdin"]; e != nil {
				switch src(e) {
				case "true":
					stdin = true
				case "false":
				default:
					unknown = append(unknown, "AllowStdin "+src(e))
				}
			}
			for k := range fields {
				switch k {
				case "Name", "Aliases", "Magic", "CertTypes", "AllowStdin", "TestPath", "FormatLog", "Verify", "VerifyStream", "Transform", "Sign", "Fixup":
				default:
					unknown = append(unknown, "Signer field "+k)
				}
			}
			lean := fmt.Sprintf("{ name := %s, aliases := [%s], magic := %s, testPath := %s, allowStdin := %v, hasSign := %v, hasVerify := %v, hasVerifyStream := %v }",
				leanBytes([]byte(name)), strings.Join(aliases, ", "), mg, tp, stdin, nonNil("Sign"), nonNil("Verify"), nonNil("VerifyStream"))
			sigs = append(sigs, signer{name, path, lean})
			return true
		})
	}
	// fields assigned after the literal (x.Sign = …) would escape the table
	for _, path := range matches {
		if strings.HasSuffix(path, "_test.go") || strings.HasSuffix(path, "hooks_verif.go") {
			continue
		}
		f := parse(path)
		ast.Inspect(f, func(n ast.Node) bool {
			as, ok := n.(*ast.AssignStmt)
			if !ok {
				return true
			}
			for _, l := range as.Lhs {
				if sel, ok := l.(*ast.SelectorExpr); ok {
					switch sel.Sel.Name {
					case "Sign", "Verify", "VerifyStream", "TestPath", "Magic", "Aliases", "AllowStdin":
						if id, ok := sel.X.(*ast.Ident); ok && (strings.Contains(strings.ToLower(id.Name), "signer") || strings.Contains(strings.ToLower(id.Name), "verifier")) {
							unknown = append(unknown, "late assignment "+src(as)+" in "+path)
						}
					}
				}
			}
			return true
		})
	}

	// ---- psExtMap keys, GetSigStyle
	var psExts [][]byte
	pf := parse(filepath.Join(repo, "lib", "authenticode", "powershell.go"))
	for _, d := range pf.Decls {
		gd, ok := d.(*ast.GenDecl)
		if !ok || gd.Tok != token.VAR {
			continue
		}
		for _, sp := range gd.Specs {
			vs := sp.(*ast.ValueSpec)
			if len(vs.Names) == 1 && vs.Names[0].Name == "psExtMap" && len(vs.Values) == 1 {
				if cl, ok := vs.Values[0].(*ast.CompositeLit); ok {
					for _, el := range cl.Elts {
						if kv, ok := el.(*ast.KeyValueExpr); ok {
							if b, ok := bytesOf(kv.Key); ok {
								psExts = append(psExts, b)
								continue
							}
						}
						unknown = append(unknown, "psExtMap entry")
					}
				}
			}
		}
	}
	getSigStyle := "?"
	if fd := funcDecl(pf, "GetSigStyle"); fd != nil {
		getSigStyle = src(fd)
	}

	// ---- front ends: what `mod` is assigned from, which query value names the type, the nil tests
	assignsTo := func(f *ast.File, fn, v string) []string {
		var out []string
		fd := funcDecl(f, fn)
		if fd == nil {
			return []string{"?no " + fn}
		}
		ast.Inspect(fd.Body, func(n ast.Node) bool {
			as, ok := n.(*ast.AssignStmt)
			if !ok {
				return true
			}
			for i, l := range as.Lhs {
				if id, ok := l.(*ast.Ident); ok && id.Name == v {
					if len(as.Rhs) == len(as.Lhs) {
						out = append(out, src(as.Rhs[i]))
					} else {
						out = append(out, src(as.Rhs[0]))
					}
				}
			}
			return true
		})
		return out
	}
	hasCond := func(f *ast.File, fn, cond string) bool {
		fd := funcDecl(f, fn)
		found := false
		if fd != nil {
			ast.Inspect(fd.Body, func(n ast.Node) bool {
				if is, ok := n.(*ast.IfStmt); ok && src(is.Cond) == cond {
					found = true
				}
				return true
			})
		}
		return found
	}
	callsWithFirstArg := func(f *ast.File, fn, callee, first string) []string {
		var out []string
		fd := funcDecl(f, fn)
		if fd != nil {
			ast.Inspect(fd.Body, func(n ast.Node) bool {
				if c, ok := n.(*ast.CallExpr); ok && src(c.Fun) == callee && len(c.Args) == 2 && src(c.Args[0]) == first {
					out = append(out, src(c.Args[1]))
				}
				return true
			})
		}
		return out
	}
	tok := parse(filepath.Join(repo, "cmdline", "token", "signcmd.go"))
	rem := parse(filepath.Join(repo, "cmdline", "remotecmd", "signcmd.go"))
	srv := parse(filepath.Join(repo, "server", "view_sign.go"))
	ver := parse(filepath.Join(repo, "cmdline", "verify", "verify.go"))
	sf := parse(filepath.Join(repo, "signers", "signers.go"))
	var lookups [][2]string
	for _, n := range []string{"ByName", "ByMagic", "ByFileName", "ByFile"} {
		if fd := funcDecl(sf, n); fd != nil {
			lookups = append(lookups, [2]string{n, src(fd)})
		} else {
			lookups = append(lookups, [2]string{n, "?"})
		}
	}

	// ---- output
	var sb strings.Builder
	sb.WriteString("/- GENERATED by tools/extractmagic from lib/magic/magic.go, signers/*/*.go, lib/authenticode/powershell.go,\n")
	sb.WriteString("   cmdline/{token,remotecmd}/signcmd.go, server/view_sign.go, cmdline/verify/verify.go — do not edit -/\n")
	sb.WriteString("import Relic.Model.Magic\nnamespace Relic.Generated.Magic\nopen Relic.Magic\n\n")
	strList := func(name, doc string, xs []string) {
		q := make([]string, len(xs))
		for i, x := range xs {
			q[i] = leanStr(x)
		}
		fmt.Fprintf(&sb, "/-- %s -/\ndef %s : List String := [%s]\n\n", doc, name, strings.Join(q, ", "))
	}
	bytesList := func(name, doc string, xs [][]byte) {
		q := make([]string, len(xs))
		for i, x := range xs {
			q[i] = leanBytes(x)
		}
		fmt.Fprintf(&sb, "/-- %s -/\ndef %s : List Relic.Bytes := [%s]\n\n", doc, name, strings.Join(q, ", "))
	}
	pairList := func(name, doc string, xs [][2]string) {
		fmt.Fprintf(&sb, "/-- %s -/\ndef %s : List (String × String) := [\n", doc, name)
		for i, x := range xs {
			sep := ","
			if i == len(xs)-1 {
				sep = ""
			}
			fmt.Fprintf(&sb, "  (%s, %s)%s\n", leanStr(x[0]), leanStr(x[1]), sep)
		}
		sb.WriteString("]\n\n")
	}
	strList("typeNames", "the FileType constants in declaration order", typeNames)
	strList("compNames", "the CompressionType constants in declaration order", compNames)
	sb.WriteString("/-- the `switch` of `Detect`, in source order -/\ndef rules : List Rule := [\n")
	for i, r := range rules {
		sep := ","
		if i == len(rules)-1 {
			sep = ""
		}
		fmt.Fprintf(&sb, "  ⟨[%s], %s⟩%s\n", strings.Join(r.tests, ", "), r.act, sep)
	}
	sb.WriteString("]\n\n")
	fmt.Fprintf(&sb, "/-- the one case body that is not a plain return -/\ndef mzBody : String := %s\n\n", leanStr(mzBody))
	strList("detectOther", "statements of Detect outside the switch", detectOther)
	fmt.Fprintf(&sb, "/-- names that make `detectZip` return at once -/\ndef zipMarkers : List (Relic.Bytes × FileType) := [%s]\n\n", strings.Join(markers, ", "))
	bytesList("zipFlagNames", "names that set isJar", flagNames)
	bytesList("zipIpaSuffixes", "suffixes that make `detectZip` return IPA", ipaSuffixes)
	strList("zipOther", "parts of detectZip's switches the extractor did not understand", zipOther)
	pairList("helpers", "source of the functions whose meaning Relic.Model.Magic spells out by hand", helpers)
	sort.Slice(sigs, func(i, j int) bool { return sigs[i].name < sigs[j].name })
	sb.WriteString("/-- every `signers.Signer{…}` literal under signers/, by name -/\ndef signers : List Signer := [\n")
	for i, s := range sigs {
		sep := ","
		if i == len(sigs)-1 {
			sep = ""
		}
		fmt.Fprintf(&sb, "  %s%s\n", s.lean, sep)
	}
	sb.WriteString("]\n\n")
	sort.Slice(psExts, func(i, j int) bool { return string(psExts[i]) < string(psExts[j]) })
	bytesList("psExts", "keys of psExtMap, sorted", psExts)
	fmt.Fprintf(&sb, "def getSigStyle : String := %s\n\n", leanStr(getSigStyle))
	pairList("lookups", "source of the look-up functions of signers/signers.go", lookups)
	strList("tokenMod", "what `mod` is assigned from in cmdline/token/signcmd.go signCmd", assignsTo(tok, "signCmd", "mod"))
	strList("remoteMod", "what `mod` is assigned from in cmdline/remotecmd/signcmd.go signCmd", assignsTo(rem, "signCmd", "mod"))
	fmt.Fprintf(&sb, "def tokenNilTest : Bool := %v\ndef remoteNilTest : Bool := %v\n\n",
		hasCond(tok, "signCmd", "mod.Sign == nil"), hasCond(rem, "signCmd", "mod.Sign == nil"))
	strList("serverRefuse", "conditions under which serveSign returns httperror.ErrUnknownSignatureType", condsReturning(srv, "serveSign", "httperror.ErrUnknownSignatureType"))
	strList("remoteSigtype", "second argument of values.Add(\"sigtype\", …) in the remote client", callsWithFirstArg(rem, "signCmd", "values.Add", `"sigtype"`))
	strList("remoteFilename", "second argument of values.Add(\"filename\", …) in the remote client", callsWithFirstArg(rem, "signCmd", "values.Add", `"filename"`))
	strList("serverMod", "what `mod` is assigned from in serveSign", assignsTo(srv, "serveSign", "mod"))
	strList("serverSigType", "what `sigType` is assigned from in serveSign", assignsTo(srv, "serveSign", "sigType"))
	strList("serverFilename", "what `filename` is assigned from in serveSign", assignsTo(srv, "serveSign", "filename"))
	strList("verifyMod", "what `mod` is assigned from in verifyOne", assignsTo(ver, "verifyOne", "mod"))
	strList("verifyDetect", "what `fileType, compression` are assigned from in verifyOne", assignsTo(ver, "verifyOne", "fileType"))
	fmt.Fprintf(&sb, "def verifyStreamTest : Bool := %v\ndef verifyCompressedTest : Bool := %v\n\n",
		hasCond(ver, "verifyOne", "mod.VerifyStream != nil"), hasCond(ver, "verifyOne", "opts.Compression != magic.CompressedNone"))
	strList("unknown", "what the extractor did not understand", unknown)
	sb.WriteString("end Relic.Generated.Magic\n")
	if err := os.WriteFile(os.Args[2], []byte(sb.String()), 0o644); err != nil {
		fmt.Fprintln(os.Stderr, err)
		os.Exit(1)
	}
}

// conditions of the if statements of fn whose body ends in `return <what>`
func condsReturning(f *ast.File, fn, what string) []string {
	var out []string
	fd := funcDecl(f, fn)
	if fd == nil {
		return []string{"?no " + fn}
	}
	ast.Inspect(fd.Body, func(n ast.Node) bool {
		is, ok := n.(*ast.IfStmt)
		if !ok || len(is.Body.List) == 0 {
			return true
		}
		if isReturn(is.Body.List[len(is.Body.List)-1]) == what {
			out = append(out, src(is.Cond))
		}
		return true
	})
	return out
}

func isReturn(st ast.Stmt) string {
	rs, ok := st.(*ast.ReturnStmt)
	if !ok || len(rs.Results) != 1 {
		return ""
	}
	return src(rs.Results[0])
}

// which of the two known path tests a TestPath function is
func testPathKind(f *ast.File, pkgDir string, e ast.Expr) string {
	id, ok := e.(*ast.Ident)
	if !ok {
		unknown = append(unknown, "TestPath "+src(e))
		return "none"
	}
	fd := funcDecl(f, id.Name)
	if fd == nil {
		unknown = append(unknown, "TestPath function "+id.Name+" not in the same file ("+pkgDir+")")
		return "none"
	}
	body := src(fd.Body)
	switch {
	case len(fd.Type.Params.List) == 1 && body == fmt.Sprintf("{ return strings.HasSuffix(%s, \".dmg\") }", fd.Type.Params.List[0].Names[0].Name):
		return "some .dmg"
	case len(fd.Type.Params.List) == 1 && body == fmt.Sprintf("{ _, ok := authenticode.GetSigStyle(%s) return ok }", fd.Type.Params.List[0].Names[0].Name):
		return "some .ps"
	}
	unknown = append(unknown, "TestPath body in "+pkgDir+": "+body)
	return "none"
}

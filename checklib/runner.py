"""Shared machinery of ./check (see DESIGN.md section 3.4)."""
import argparse, fcntl, hashlib, importlib, json, os, re, shutil, subprocess, sys, tempfile, time
from collections import Counter
from concurrent.futures import ThreadPoolExecutor

VERIF = os.path.dirname(os.path.dirname(os.path.abspath(__file__)))
REPO = os.environ.get("VERIF_REPO", "/repo")
BUILD = os.path.join(VERIF, ".build")
LEAN = os.path.join(VERIF, "lean")
DRIVER = os.path.join(LEAN, ".lake", "build", "bin", "relic_driver")
VH = os.path.join(BUILD, "vh")
VH13 = os.path.join(BUILD, "vh13")      # C13 scenario driver, run under strace (see harness/cmd/vh13)
EXTRA_BINARIES = ["vh13"]
ALLOWED_AXIOMS = {"propext", "Classical.choice", "Quot.sound"}
FORBIDDEN = re.compile(r"\bsorry\b|\badmit\b|^\s*axiom\s|native_decide|bv_decide|implemented_by|\bunsafe\s|maxHeartbeats\s+0\b", re.M)
NCPU = os.cpu_count() or 4

GOENV = dict(os.environ, GOFLAGS="-mod=mod", GOPROXY="off", GOSUMDB="off", GOTOOLCHAIN="local",
             CGO_ENABLED=os.environ.get("CGO_ENABLED", "0"))


class Lock:
    def __init__(self, name):
        os.makedirs(BUILD, exist_ok=True)
        self.path = os.path.join(BUILD, name + ".lock")
    def __enter__(self):
        self.f = open(self.path, "w")
        fcntl.flock(self.f, fcntl.LOCK_EX)
    def __exit__(self, *a):
        fcntl.flock(self.f, fcntl.LOCK_UN)
        self.f.close()


def sh(cmd, **kw):
    return subprocess.run(cmd, stdout=subprocess.PIPE, stderr=subprocess.STDOUT, text=True, **kw)


class Broken(Exception):
    """A proof obligation or a build step no longer checks."""
    def __init__(self, what, detail=""):
        super().__init__(what)
        self.what, self.detail = what, detail


def _go_build(pkg, out, cwd, tags=True):
    """build to a temporary name and rename over the target: checks may run concurrently, and a running
    process keeps its (old) inode while the path is replaced atomically"""
    tmp = "%s.%d.tmp" % (out, os.getpid())
    cmd = ["go", "build"] + (["-tags", "verif"] if tags else []) + ["-o", tmp, pkg]
    r = sh(cmd, cwd=cwd, env=GOENV)
    if r.returncode != 0:
        if os.path.exists(tmp):
            os.remove(tmp)
        return r
    os.replace(tmp, out)
    return r


def build_vh():
    """Rebuild the harness from /repo's *current working tree*, hooks on."""
    with Lock("go"):
        shutil.copyfile(os.path.join(REPO, "go.sum"), os.path.join(VERIF, "harness", "go.sum"))
        if REPO != "/repo":  # scratch copies used during development point the harness at their own worktree
            sh(["go", "mod", "edit", "-replace", "github.com/sassoftware/relic/v8=" + REPO],
               cwd=os.path.join(VERIF, "harness"), env=GOENV)
        r = _go_build("./cmd/vh", VH, os.path.join(VERIF, "harness"))
        if r.returncode != 0:
            raise Broken("harness does not build against /repo", r.stdout[-4000:])
        for extra in EXTRA_BINARIES:
            r = _go_build("./cmd/" + extra, os.path.join(BUILD, extra), os.path.join(VERIF, "harness"))
            if r.returncode != 0:
                raise Broken("harness binary %s does not build against /repo" % extra, r.stdout[-4000:])


def build_tool(name):
    """Build one of /verif/tools/<name> (go/ast extractors)."""
    out = os.path.join(BUILD, name)
    with Lock("go"):
        r = _go_build(".", out, os.path.join(VERIF, "tools", name), tags=False)
        if r.returncode != 0:
            raise Broken("tool %s does not build" % name, r.stdout[-4000:])
    return out


def lean_build(targets):
    with Lock("lake"):
        r = sh(["lake", "build"] + targets, cwd=LEAN)
    if r.returncode != 0:
        raise Broken("lake build %s failed" % " ".join(targets), r.stdout[-6000:])
    return r.stdout


def strip_lean_comments(src):
    src = re.sub(r"/-.*?-/", "", src, flags=re.S)
    return re.sub(r"--.*", "", src)


def forbidden_tokens():
    hits = []
    for root, _, files in os.walk(LEAN):
        if ".lake" in root:
            continue
        for fn in files:
            if fn.endswith(".lean"):
                p = os.path.join(root, fn)
                m = FORBIDDEN.search(strip_lean_comments(open(p).read()))
                if m:
                    hits.append("%s: %s" % (os.path.relpath(p, LEAN), m.group(0).strip()))
    return hits


def prop_modules(prop):
    """Relic/Props/Cnn.lean plus per-format fragments Relic/Props/Cnn_*.lean"""
    d = os.path.join(LEAN, "Relic", "Props")
    return sorted(fn[:-5] for fn in os.listdir(d) if fn == prop + ".lean" or (fn.startswith(prop + "_") and fn.endswith(".lean")))


def theorems_of(prop):
    """names of the property theorems: every `theorem` in Relic/Props/Cnn.lean and Cnn_*.lean"""
    out = []
    for m in prop_modules(prop):
        src = strip_lean_comments(open(os.path.join(LEAN, "Relic", "Props", m + ".lean")).read())
        ns = re.search(r"^namespace\s+(\S+)", src, re.M)
        prefix = ns.group(1) + "." if ns else ""
        out += [prefix + n for n in re.findall(r"^\s*theorem\s+([A-Za-z_][\w.']*)", src, re.M)]
    return out


def audit(prop, extra_modules=()):
    """lake build the property module, then #print axioms on every property theorem."""
    mods = ["Relic.Props." + m for m in prop_modules(prop)] + list(extra_modules)
    lean_build(mods + ["relic_driver"])
    bad = forbidden_tokens()
    if bad:
        raise Broken("forbidden token in Lean sources", "\n".join(bad))
    thms = theorems_of(prop)
    if not thms:
        raise Broken("no property theorems found for " + prop)
    os.makedirs(BUILD, exist_ok=True)
    af = os.path.join(BUILD, "Audit_%s.lean" % prop)
    with open(af, "w") as f:
        for m in mods:
            f.write("import %s\n" % m)
        for t in thms:
            f.write("#print axioms %s\n" % t)
    r = sh(["lake", "env", "lean", af], cwd=LEAN)
    if r.returncode != 0:
        raise Broken("axiom audit failed to elaborate", r.stdout[-4000:])
    axioms = {}
    for m in re.finditer(r"'([^']+)' depends on axioms: \[([^\]]*)\]", r.stdout.replace("\n", " ")):
        axioms[m.group(1)] = [a.strip() for a in m.group(2).split(",") if a.strip()]
    for m in re.finditer(r"'([^']+)' does not depend on any axioms", r.stdout):
        axioms[m.group(1)] = []
    missing = [t for t in thms if t not in axioms]
    if missing:
        raise Broken("axiom audit: no report for " + ", ".join(missing), r.stdout[-2000:])
    for t, ax in axioms.items():
        extra = set(ax) - ALLOWED_AXIOMS
        if extra:
            raise Broken("theorem %s depends on non-standard axioms %s" % (t, sorted(extra)))
    return thms, axioms


def leanchecker(prop):
    r = sh(["lake", "env", "leanchecker", "Relic.Props." + prop], cwd=LEAN)
    if r.returncode != 0:
        raise Broken("leanchecker rejects Relic.Props." + prop, r.stdout[-3000:])


def split_tag(line):
    """model lines may end in ' #tag…' (branch tag / reference value)"""
    i = line.find(" #")
    if i < 0:
        return line, ""
    return line[:i], line[i + 2:]


def run_lines(cmd, lines, env=None, parallel=1, timeout=3600):
    """feed `lines` to `cmd` (a line-in/line-out process); parallel chunks keep order"""
    if not lines:
        return []
    n = max(1, min(parallel, len(lines) // 50 + 1))
    size = (len(lines) + n - 1) // n
    chunks = [lines[i:i + size] for i in range(0, len(lines), size)]
    def one(chunk):
        out_all = []
        rest = chunk
        restarts = 0
        while rest:
            p = subprocess.run(cmd, input="\n".join(rest) + "\n", stdout=subprocess.PIPE, stderr=subprocess.PIPE,
                               text=True, env=env, timeout=timeout)
            out = p.stdout.split("\n")
            if out and out[-1] == "":
                out.pop()
            out = out[:len(rest)]
            out_all += out
            if len(out) == len(rest):
                break
            # the process died on the op after the last answered one: name it, then carry on with the
            # remaining ops in a fresh process so that one crash does not hide everything behind it
            last = p.stderr.strip().split("\n")[-1][:200] if p.stderr else ""
            out_all.append("crash rc=%d %s" % (p.returncode, last))
            rest = rest[len(out) + 1:]
            restarts += 1
            if restarts > 20:
                out_all += ["not-run"] * len(rest)
                break
        return out_all
    with ThreadPoolExecutor(max_workers=n) as ex:
        res = list(ex.map(one, chunks))
    return [l for c in res for l in c]


class Finding:
    def __init__(self, kind, tie, theorem, op, expected, observed, note=""):
        self.kind, self.tie, self.theorem, self.op = kind, tie, theorem, op
        self.expected, self.observed, self.note = expected, observed, note


def load_known():
    p = os.path.join(VERIF, "known_findings.json")
    return json.load(open(p)) if os.path.exists(p) else []


def write_replay(prop, ctx, fnd):
    os.makedirs(os.path.join(VERIF, "replay"), exist_ok=True)
    h = hashlib.sha256((fnd.op + fnd.observed).encode()).hexdigest()[:10]
    path = os.path.join("replay", "%s-%s.json" % (prop, h))
    data = {"property": prop, "kind": fnd.kind, "tie": fnd.tie, "theorem": fnd.theorem, "op": fnd.op,
            "expected": fnd.expected[:100000], "observed": fnd.observed[:100000], "note": fnd.note,
            "seed": ctx["seed"], "tier": ctx["tier"], "rerun": "./check %s --replay %s" % (prop, path)}
    json.dump(data, open(os.path.join(VERIF, path), "w"), indent=1)
    return path


def write_evidence(prop, ctx, coverage, assumptions, violations, level="proof"):
    os.makedirs(os.path.join(VERIF, "evidence"), exist_ok=True)
    ev = {"property_id": prop, "tier": ctx["tier"], "seed": ctx["seed"], "level": level,
          "coverage": coverage, "assumptions": assumptions,
          "wall_s": round(time.time() - ctx["t0"], 2), "violations": violations}
    json.dump(ev, open(os.path.join(VERIF, "evidence", prop + ".json"), "w"), indent=1)


def corpus_lines(prop):
    d = os.path.join(VERIF, "corpus", prop)
    out = []
    if os.path.isdir(d):
        for fn in sorted(os.listdir(d)):
            if fn.endswith(".ops"):
                out += [l for l in open(os.path.join(d, fn)).read().split("\n") if l and not l.startswith("#")]
    return out


def correspondence(prop, ctx, mod):
    """gen -> impl / model -> compare. Returns (coverage dict, findings, known hits)."""
    env = dict(GOENV, VERIF_SEED=str(ctx["seed"]), VERIF_TIER=ctx["tier"])
    if ctx.get("replay_ops") is not None:
        ops = ctx["replay_ops"]
    else:
        g = subprocess.run([VH, prop, "gen"], stdout=subprocess.PIPE, stderr=subprocess.PIPE, text=True, env=env)
        if g.returncode != 0:
            raise Broken("vh %s gen failed" % prop, g.stderr[-2000:])
        ops = corpus_lines(prop) + [l for l in g.stdout.split("\n") if l]
    par = getattr(mod, "IMPL_PARALLEL", NCPU)
    impl = run_lines([VH, prop, "impl"], ops, env=env, parallel=par, timeout=getattr(mod, "IMPL_TIMEOUT", 3600))
    # answers that may be artefacts of machine load (a deadline hit, an allocation account polluted by a goroutine a previous op
    # left behind) are asked again, one op per fresh process and with the module's generous settings; the second answer counts
    if hasattr(mod, "retry_alone"):
        again = [i for i, (o, l) in enumerate(zip(ops, impl)) if mod.retry_alone(o, l)]
        if again and len(again) <= 200:
            env2 = dict(env, **getattr(mod, "RETRY_ENV", {}))
            def _one(i):
                r = run_lines([VH, prop, "impl"], [ops[i]], env=env2, parallel=1, timeout=getattr(mod, "IMPL_TIMEOUT", 3600))
                return r[0] if r else "not-run"
            with ThreadPoolExecutor(max_workers=6) as ex:
                for i, r in zip(again, ex.map(_one, again)):
                    impl[i] = r
    model = run_lines([DRIVER], ops, parallel=NCPU)
    findings, known_hits = [], []
    tags, kinds, seen = Counter(), Counter(), set()
    nontrivial = 0
    weight = 0
    known = [k for k in load_known() if k.get("property") == prop and k.get("status") == "known"]
    for op, il, ml in zip(ops, impl, model):
        mres, tag = split_tag(ml)
        il_c = mod.canon_impl(il) if hasattr(mod, "canon_impl") else il
        if hasattr(mod, "canon_model"):
            mres = mod.canon_model(op, mres)
        if hasattr(mod, "agree"):      # the model may admit a *set* of outcomes (e.g. Go map iteration order)
            same = mod.agree(op, il_c, mres, tag)
        else:
            same = mod.equiv(op, il_c, mres) if hasattr(mod, "equiv") else (il_c == mres)
        kinds[" ".join(op.split()[:2])] += 1
        weight += mod.weight(op) if hasattr(mod, "weight") else 1
        tags[mod.branch(op, mres, tag) if hasattr(mod, "branch") else mres.split(" ")[0]] += 1
        if op not in seen:
            seen.add(op)
            if mod.nontrivial(op, mres, tag):
                nontrivial += 1
        # 1. the property predicate, evaluated on what the implementation actually did
        bad = mod.predicate(op, il_c, mres, tag)
        kn = None
        if bad or not same:
            kn = next((k for k in known if mod.matches_known(k, op, il_c, mres, tag)), None)
        if kn is not None:
            known_hits.append((kn, op))
            continue
        if bad:
            findings.append(Finding("counterexample", mod.TIE, bad[0], op, bad[1], il_c, bad[2] if len(bad) > 2 else ""))
        elif not same:
            findings.append(Finding("broken-tie", mod.TIE, mod.TIE_THEOREM, op, mres, il_c,
                                    "model and implementation disagree; property predicate not falsified on this op"))
    cov = {"evaluations": weight, "op_lines": len(ops), "distinct_nontrivial": nontrivial, "rule": mod.RULE,
           "samples": [ops[i] for i in sorted(set([0, len(ops) // 3, (2 * len(ops)) // 3, len(ops) - 1])) if i < len(ops)][:4],
           "op_kinds": dict(kinds), "model_branches": dict(tags.most_common(40)),
           "traces_validated_against_impl": len(ops)}
    cov["samples"] = [s[:600] for s in cov["samples"]]
    return cov, findings, known_hits


TRUSTED = ["Lean 4.33 kernel", "axioms: subset of {propext, Classical.choice, Quot.sound} as audited per theorem",
           "checklib/runner.py + harness/ (generator, canonicaliser, diff)",
           "Lean native code generator only for *running* the model in the correspondence"]


def main(argv):
    ap = argparse.ArgumentParser()
    ap.add_argument("prop")
    ap.add_argument("--tier", default=os.environ.get("VERIF_TIER", "quick"))
    ap.add_argument("--replay")
    a = ap.parse_args(argv)
    prop = a.prop
    tier = "thorough" if a.tier == "thorough" else "quick"
    try:
        seed = int(os.environ.get("VERIF_SEED", "1"))
    except ValueError:
        seed = 1
    ctx = {"tier": tier, "seed": seed, "t0": time.time(), "prop": prop}
    os.environ["VERIF_TIER"] = tier
    mod = importlib.import_module("props." + prop.lower())
    if a.replay:
        rp = json.load(open(a.replay if os.path.isabs(a.replay) else os.path.join(VERIF, a.replay)))
        ctx["replay_ops"] = [rp["op"]] if rp.get("op") else []
    scratch = tempfile.mkdtemp(prefix="verif-%s-" % prop)
    ctx["scratch"] = scratch
    findings, known_hits = [], []
    cov = {}
    obligations, discharged, thms = 0, 0, []
    try:
        try:
            build_vh()
            gen_obl = mod.generate(ctx) if hasattr(mod, "generate") else []
            try:
                thms, axioms = audit(prop, getattr(mod, "EXTRA_MODULES", ()))
                obligations = len(thms) + len(gen_obl)
                discharged = obligations
            except Broken as b:
                # a proof obligation no longer checks: enter search below, then report
                thms = []
                obligations = max(1, len(gen_obl))
                discharged = 0
                fs = mod.search_after_broken_obligation(ctx, b) if hasattr(mod, "search_after_broken_obligation") else []
                if fs:
                    findings += fs
                else:
                    findings.append(Finding("broken-tie", "obligation", b.what, "", "obligation elaborates", b.detail[-3000:],
                                            "no-failing-input-found"))
            if tier == "thorough" and not findings and not a.replay:
                leanchecker(prop)
            if hasattr(mod, "run"):
                c2, f2, k2 = mod.run(ctx)
            else:
                c2, f2, k2 = correspondence(prop, ctx, mod)
            cov.update(c2); findings += f2; known_hits += k2
        except Broken as b:
            findings.append(Finding("broken-tie", "build", b.what, "", "", b.detail[-3000:], "no-failing-input-found"))
        # report
        for kn, op in {k["id"]: (k, op) for k, op in known_hits}.values():
            print("KNOWN-FINDING: property=%s %s: %s" % (prop, kn["id"], kn["what"]))
        cov.update({"obligations": obligations, "discharged": discharged,
                    "checker_cmd": "cd lean && lake build Relic.Props.%s && lake env lean ../.build/Audit_%s.lean   (#print axioms on: %s)"
                                   % (prop, prop, ", ".join(t.split(".")[-1] for t in thms)),
                    "trusted_base": TRUSTED + list(getattr(mod, "TRUSTED", [])),
                    "theorems": thms, "known_findings_hit": sorted({k["id"] for k, _ in known_hits}),
                    "unproved_full_statements": list(getattr(mod, "UNPROVED", []))})
        cov.setdefault("evaluations", 0); cov.setdefault("distinct_nontrivial", 0)
        cov.setdefault("rule", getattr(mod, "RULE", "")); cov.setdefault("samples", thms[:3] or ["(none)"])
        write_evidence(prop, ctx, cov, list(getattr(mod, "ASSUMPTIONS", [])), len(findings))
        if not findings:
            print("OK property=%s tier=%s obligations=%d/%d evaluations=%d nontrivial=%d wall=%.1fs" %
                  (prop, tier, discharged, obligations, cov["evaluations"], cov["distinct_nontrivial"], time.time() - ctx["t0"]))
            return 0
        # prefer counterexamples; one VIOLATION line per distinct (kind, theorem), at most 5
        findings.sort(key=lambda f: (f.kind != "counterexample", len(f.op)))
        shown = set()
        for f in findings:
            key = (f.kind, f.theorem, f.op.split(" ")[1] if " " in f.op else "")
            if key in shown or len(shown) >= 5:
                continue
            shown.add(key)
            path = write_replay(prop, ctx, f)
            tail = "" if f.kind == "counterexample" else " no-failing-input-found"
            print("VIOLATION property=%s replay=%s%s" % (prop, path, tail))
            sys.stderr.write("  %s: %s\n  op: %s\n  expected: %s\n  observed: %s\n" %
                             (f.kind, f.theorem, f.op[:300], f.expected[:300], f.observed[:300]))
        sys.stderr.write("  (%d findings in total)\n" % len(findings))
        return 1
    finally:
        shutil.rmtree(scratch, ignore_errors=True)

package readers

import (
	"archive/tar"
	"bufio"
	"bytes"
	"fmt"
	"io"
	"sort"
	"strings"

	"verifharness/cab"
	"verifharness/deb"
	"verifharness/hx"
	"verifharness/pe"
	"verifharness/ps"
)

// recorder notes the stream offset after every Read of a whole-buffer run: the places where the code asks for
// more bytes are the boundaries worth cutting at
type recorder struct {
	r    *bytes.Reader
	pos  int
	offs map[int]bool
}

func (c *recorder) Read(p []byte) (int, error) {
	n, err := c.r.Read(p)
	c.pos += n
	c.offs[c.pos] = true
	return n, err
}

func boundaries(dg, arg string, data []byte) []int {
	rec := &recorder{r: bytes.NewReader(data), offs: map[int]bool{}}
	runDigester(dg, arg, rec)
	var out []int
	for o := range rec.offs {
		if o > 0 && o < len(data) {
			out = append(out, o)
		}
	}
	sort.Ints(out)
	return out
}

func cutAt(data []byte, offs []int) [][]byte {
	var out [][]byte
	prev := 0
	seen := map[int]bool{}
	var os []int
	for _, o := range offs {
		if o > 0 && o < len(data) && !seen[o] {
			seen[o] = true
			os = append(os, o)
		}
	}
	sort.Ints(os)
	for _, o := range os {
		out = append(out, data[prev:o])
		prev = o
	}
	if prev < len(data) || len(data) == 0 && len(out) == 0 {
		if len(data) > 0 {
			out = append(out, data[prev:])
		}
	}
	return out
}

func fixed(data []byte, n int) [][]byte {
	var out [][]byte
	for i := 0; i < len(data); i += n {
		j := i + n
		if j > len(data) {
			j = len(data)
		}
		out = append(out, data[i:j])
	}
	return out
}

func chunkStr(cs [][]byte) string {
	if len(cs) == 0 {
		return "."
	}
	parts := make([]string, len(cs))
	for i, c := range cs {
		parts[i] = hx.Hex(c)
	}
	return strings.Join(parts, ",")
}

// withEmpties inserts empty reads: in front, between and behind the data
func withEmpties(r *hx.Rng, cs [][]byte, tail int) [][]byte {
	var out [][]byte
	for k := r.Intn(3); k > 0; k-- {
		out = append(out, nil)
	}
	for _, c := range cs {
		out = append(out, c)
		for k := r.Pick(0, 0, 1, 2, 5); k > 0; k-- {
			out = append(out, nil)
		}
	}
	for k := 0; k < tail; k++ {
		out = append(out, nil)
	}
	return out
}

type input struct {
	dg, arg string
	data    []byte
	note    string
}

func emitRun(w *bufio.Writer, in input, term string, eager int, cs [][]byte) {
	fmt.Fprintf(w, "RD run %s %s %s %d %s\n", in.dg, in.arg, term, eager, chunkStr(cs))
}

func genRuns(w *bufio.Writer, r *hx.Rng, in input, tier string) {
	d := in.data
	bs := boundaries(in.dg, in.arg, d)
	whole := cutAt(d, nil)
	emitRun(w, in, "eof", 0, whole)
	if len(d) <= 2500 {
		emitRun(w, in, "eof", 0, fixed(d, 1))
	}
	emitRun(w, in, "eof", 0, fixed(d, 7))
	emitRun(w, in, "eof", 0, fixed(d, 4095))
	emitRun(w, in, "eof", 0, fixed(d, 4097))
	// at every place where the code asks for more, one byte before and one byte after
	emitRun(w, in, "eof", 0, cutAt(d, bs))
	var minus, plus []int
	for _, o := range bs {
		minus = append(minus, o-1)
		plus = append(plus, o+1)
	}
	emitRun(w, in, "eof", 0, cutAt(d, minus))
	emitRun(w, in, "eof", 0, cutAt(d, plus))
	// one byte, then everything
	emitRun(w, in, "eof", 0, cutAt(d, []int{1}))
	// seeded random cuts
	var rc []int
	for k := r.Pick(2, 5, 20); k > 0 && len(d) > 1; k-- {
		rc = append(rc, 1+r.Intn(len(d)-1))
	}
	emitRun(w, in, "eof", 0, cutAt(d, rc))
	// empty reads in between, none behind the data (so that only the stall matters, not the end-of-input probe)
	emitRun(w, in, "eof", 0, withEmpties(r, cutAt(d, rc), 0))
	emitRun(w, in, "eof", 0, withEmpties(r, cutAt(d, bs), 0))
	// empty reads behind the data: the case cabfile.Digest mistakes for trailing garbage
	emitRun(w, in, "eof", 0, withEmpties(r, cutAt(d, rc), r.Pick(1, 2)))
	// io.EOF delivered together with the last bytes
	emitRun(w, in, "eof", 1, whole)
	emitRun(w, in, "eof", 1, cutAt(d, rc))
	if len(d) > 1 {
		emitRun(w, in, "eof", 1, cutAt(d, []int{len(d) - 1}))
	}
	// the reader fails: after everything, and after a prefix (at a boundary and at a seeded place)
	emitRun(w, in, "fail", 0, cutAt(d, rc))
	emitRun(w, in, "fail", 1, cutAt(d, rc))
	if len(bs) > 0 {
		o := bs[r.Intn(len(bs))]
		emitRun(w, input{in.dg, in.arg, d[:o], ""}, "fail", r.Intn(2), cutAt(d[:o], rc))
		emitRun(w, input{in.dg, in.arg, d[:o], ""}, "eof", r.Intn(2), cutAt(d[:o], rc))
	}
	if len(d) > 2 {
		o := 1 + r.Intn(len(d)-1)
		emitRun(w, input{in.dg, in.arg, d[:o], ""}, "fail", 0, cutAt(d[:o], rc))
		emitRun(w, input{in.dg, in.arg, d[:o], ""}, "eof", 0, cutAt(d[:o], rc))
	}
	if in.dg == "ps" {
		// 99 empty reads in a row are tolerated by bufio.Reader, 100 are not
		for _, n := range []int{99, 100} {
			cs := cutAt(d, rc)
			k := 0
			if len(cs) > 0 {
				k = r.Intn(len(cs) + 1)
			}
			var out [][]byte
			out = append(out, cs[:k]...)
			for i := 0; i < n; i++ {
				out = append(out, nil)
			}
			out = append(out, cs[k:]...)
			emitRun(w, in, "eof", 0, out)
		}
	}
}

func peInputs(r *hx.Rng, tier string) []input {
	var out []input
	add := func(f []byte, note string) {
		out = append(out, input{"pe", "-", f, note}, input{"pepage", "-", f, note})
	}
	// sections around the page size (4096; 8192 for IA64), so that the page loop of imageHasher.section cuts inside them
	crafted := []pe.Params{
		{Machine: 0x14c, NumDirs: 16, FileAlign: 512, Sections: []int{4096}},
		{Machine: 0x8664, Plus: true, NumDirs: 16, FileAlign: 512, Sections: []int{4608, 512}, Overlay: 9},
		{Machine: 0x14c, NumDirs: 16, FileAlign: 512, Sections: []int{8192 + 512}, LastUnal: 7},
		{Machine: 0x200, Plus: true, NumDirs: 16, FileAlign: 512, Sections: []int{8192 + 512, 0, 512}},
		{Machine: 0x14c, NumDirs: 16, FileAlign: 512, HdrSlack: 8, Sections: []int{512}}, // headers larger than a page
		{Machine: 0x14c, NumDirs: 16, FileAlign: 512, Sections: []int{512, 1024}, Gap: 512, StubLen: 64},
		{Machine: 0x14c, NumDirs: 5, FileAlign: 64, Sections: nil, Overlay: 100},
	}
	for i, p := range crafted {
		f := pe.Build(r, p)
		add(f, fmt.Sprintf("crafted%d", i))
		if i == 0 || i == 1 {
			s := pe.FakeSigned(f, [][]byte{r.Bytes(40 + r.Intn(30))})
			add(s, "signed")
			add(append(append([]byte{}, s...), 0x55), "signed+garbage")
		}
	}
	n := 3
	if tier == "thorough" {
		n = 12
	}
	for i := 0; i < n; i++ {
		p := pe.RandParams(r)
		f := pe.Build(r, p)
		if i%2 == 1 {
			f = pe.Mutate(r, f)
		}
		add(f, "rand")
	}
	// e_lfanew below 64: io.CopyN with a negative count
	f := pe.Build(r, crafted[0])
	g := append([]byte{}, f...)
	g[0x3c], g[0x3d], g[0x3e], g[0x3f] = 8, 0, 0, 0
	add(g[:200], "lfanew<64")
	return out
}

func cabInputs(r *hx.Rng, tier string) []input {
	var out []input
	add := func(f []byte) { out = append(out, input{"cab", "-", f, ""}) }
	n := 5
	if tier == "thorough" {
		n = 20
	}
	for i := 0; i < n; i++ {
		p := cab.RandParams(r)
		if p.Padding > 200 {
			p.Padding = 100
		}
		f := cab.Build(r, p)
		switch i % 5 {
		case 1:
			f = cab.FakeSigned(f, r.Bytes(20+r.Intn(20)))
		case 2:
			f = cab.Mutate(r, f)
		}
		add(f)
	}
	// regular cabinets, unsigned / reserve / signed, each also with one and with three bytes behind it
	for _, p := range []cab.Params{{Folders: 1, Files: 1, DataLen: 40}, {Folders: 2, Files: 2, DataLen: 100, Reserve: 1},
		{Folders: 1, Files: 1, DataLen: 9, Reserve: 2, Padding: 8}} {
		f := cab.Build(r, p)
		add(f)
		add(append(append([]byte{}, f...), 0x55))
		add(append(append([]byte{}, f...), 1, 2, 3))
		s := cab.FakeSigned(f, r.Bytes(24))
		add(s)
		add(append(append([]byte{}, s...), 0x55))
	}
	return out
}

func psInputs(r *hx.Rng, tier string) []input {
	var out []input
	add := func(style int, f []byte) { out = append(out, input{"ps", fmt.Sprint(style), f, ""}) }
	n := 5
	if tier == "thorough" {
		n = 20
	}
	for i := 0; i < n; i++ {
		p := ps.RandParams(r)
		f := ps.Build(r, p)
		switch i % 4 {
		case 1:
			f = ps.FakeSigned(f, p.Style, r.Bytes(30+r.Intn(100)))
		case 2:
			f = ps.Mutate(r, f, p)
		}
		add(p.Style, f)
	}
	// lines around the 4096-byte buffer of bufio.Reader, with and without a signature block behind them
	for _, u16 := range []bool{false, true} {
		var sb strings.Builder
		lens := []int{4094, 4095, 4096, 4097, 8192, 10, 0}
		if u16 {
			lens = []int{2047, 2048, 10, 0} // code units: 4094 / 4096 bytes plus the line end
		}
		for _, k := range lens {
			sb.WriteString(strings.Repeat("x", k))
			sb.WriteString("\r\n")
		}
		sb.WriteString("tail without eol")
		f := ps.Encode(ps.Params{Style: 1, Utf16: u16}, sb.String())
		add(1, f)
		add(1, ps.FakeSigned(f, 1, r.Bytes(50)))
	}
	add(1, nil)
	add(1, []byte{0xff})
	add(2, []byte{0xff, 0xfe})
	add(7, []byte("x\r\n")) // invalid style
	return out
}

func tarOfMembers(ms [][2][]byte) []byte {
	var buf bytes.Buffer
	tw := tar.NewWriter(&buf)
	for _, m := range ms {
		tw.WriteHeader(&tar.Header{Name: string(m[0]), Mode: 0644, Size: int64(len(m[1]))})
		tw.Write(m[1])
	}
	tw.Close()
	return buf.Bytes()
}

func tarInputs(r *hx.Rng, tier string) []input {
	var out []input
	// xap: zipdir.bin + contents.zip (the directory is the tail of the zip), with and without a signature trailer
	for i := 0; i < 3; i++ {
		body := r.Bytes(r.Pick(0, 1, 511, 512, 513, 1500))
		cd := r.Bytes(r.Pick(0, 9, 10, 46, 300))
		if i == 1 && len(cd) >= 10 {
			// XAP trailer: magic "xPSG"?  keep it opaque: the model's removeSignature decides on the same bytes
			copy(cd[len(cd)-10:], []byte{0x58, 0x50, 0x53, 0x47})
		}
		zipb := append(append([]byte{}, body...), cd...)
		out = append(out, input{"xap", "-", tarOfMembers([][2][]byte{{[]byte("zipdir.bin"), cd}, {[]byte("contents.zip"), zipb}}), ""})
	}
	out = append(out, input{"xap", "-", tarOfMembers([][2][]byte{{[]byte("other"), r.Bytes(700)}, {[]byte("zipdir.bin"), r.Bytes(20)}}), ""})
	out = append(out, input{"xap", "-", tarOfMembers([][2][]byte{{[]byte("contents.zip"), r.Bytes(100)}}), ""})
	// msi: __exmeta first, streams, a signature stream, storage uids
	ms := [][2][]byte{{[]byte("__exmeta"), r.Bytes(40)}, {[]byte("Stream1"), r.Bytes(513)}, {[]byte("\x05DigitalSignature"), r.Bytes(33)},
		{[]byte("Empty"), nil}, {[]byte("dir/Stream2"), r.Bytes(1024)}, {[]byte("\x05MsiDigitalSignatureEx"), r.Bytes(20)}, {[]byte("__storage_uid"), r.Bytes(16)}}
	t := tarOfMembers(ms)
	out = append(out, input{"msi", "-", t, ""}, input{"msiex", "-", t, ""})
	out = append(out, input{"msiex", "-", tarOfMembers([][2][]byte{{[]byte("A"), r.Bytes(5)}}), ""})
	return out
}

// zipTarInputs: tar of zipdir.bin (an empty end-of-directory record, so that the directory parser has nothing to read) and
// contents.zip (any bytes), with scripts of ReadAt calls around the end of the member; also a third member / a wrong order
func zipTarInputs(r *hx.Rng, tier string) []input {
	eocd := append([]byte{0x50, 0x4b, 0x05, 0x06}, make([]byte, 18)...)
	var out []input
	for _, n := range []int{0, 1, 511, 512, 513, 1300} {
		body := r.Bytes(n)
		t := tarOfMembers([][2][]byte{{[]byte("zipdir.bin"), eocd}, {[]byte("contents.zip"), body}})
		scripts := []string{
			"-",
			fmt.Sprintf("4@0;%d@4", n),            // everything in two calls (the second ends with the member)
			fmt.Sprintf("%d@0;1@%d", n+1, n+5),     // past the end, then again
			fmt.Sprintf("3@%d;2@0", n/2),           // skip, then backwards
			fmt.Sprintf("1@%d;1@%d", n, n+1),       // at and behind the end
			fmt.Sprintf("0@%d;5@%d", n, n/3),       // empty read at the end, then backwards or not
			fmt.Sprintf("2@%d;2@%d;2@%d", 1, n/2+3, n+7),
		}
		for _, sc := range scripts {
			out = append(out, input{"ziptar", sc, t, ""})
		}
	}
	body := r.Bytes(700)
	out = append(out, input{"ziptar", "10@0;690@10;1@700", tarOfMembers([][2][]byte{{[]byte("zipdir.bin"), eocd}, {[]byte("contents.zip"), body}, {[]byte("more"), r.Bytes(5)}}), ""})
	out = append(out, input{"ziptar", "10@0;700@10;1@800", tarOfMembers([][2][]byte{{[]byte("zipdir.bin"), eocd}, {[]byte("contents.zip"), body}, {[]byte("more"), r.Bytes(5)}}), ""})
	out = append(out, input{"ziptar", "1@0", tarOfMembers([][2][]byte{{[]byte("contents.zip"), body}, {[]byte("zipdir.bin"), eocd}}), ""})
	out = append(out, input{"ziptar", "1@0", tarOfMembers([][2][]byte{{[]byte("zipdir.bin"), eocd}}), ""})
	return out
}

func pageInputs(r *hx.Rng, tier string) []input {
	var out []input
	for _, n := range []int{0, 1, 4095, 4096, 4097, 8192, 9000} {
		out = append(out, input{"hashpages", "-", r.Bytes(n), ""})
	}
	return out
}

func debInputs(r *hx.Rng, tier string) []input {
	var out []input
	for i := 0; i < 3; i++ {
		ms := deb.RandMembers(r)
		f := deb.Build("!<arch>\n", ms)
		out = append(out, input{"deb", "builder", f, ""})
	}
	return out
}

// Gen writes the ops of the reader calculus (served under C09)
func Gen(w *bufio.Writer, seed uint64, tier string) {
	r := hx.NewRng(seed ^ 0x72656164657273)
	for _, in := range peInputs(r, tier) {
		genRuns(w, r, in, tier)
	}
	for _, in := range cabInputs(r, tier) {
		genRuns(w, r, in, tier)
	}
	for _, in := range psInputs(r, tier) {
		genRuns(w, r, in, tier)
	}
	for _, in := range tarInputs(r, tier) {
		genRuns(w, r, in, tier)
	}
	for _, in := range pageInputs(r, tier) {
		genRuns(w, r, in, tier)
	}
	for _, in := range zipTarInputs(r, tier) {
		genRuns(w, r, in, tier)
	}
	for _, in := range debInputs(r, tier) {
		genRuns(w, r, in, tier)
	}
	for _, f := range FragFormats {
		for _, s := range Scheds {
			fmt.Fprintf(w, "RD frag %s %s %d\n", f, s, r.Intn(1<<30))
		}
	}
	scheds := []string{"full", "seven", "rand", "onethenall"}
	if tier == "thorough" {
		scheds = append([]string{"full"}, Scheds...)
	}
	for _, e := range E2E {
		fl := e[2]
		if fl == "" {
			fl = "-"
		}
		for _, s := range scheds {
			fmt.Fprintf(w, "RD e2e %s %s %s %s %d\n", e[0], e[1], fl, s, r.Intn(1<<30))
		}
	}
	for _, g := range []int{0, 2} {
		for _, m := range []string{"cl", "chunked"} {
			fmt.Fprintf(w, "RD http cab %d %s %d\n", g, m, r.Intn(1<<30))
		}
	}
	_ = io.EOF
}

// Package apkb: generator and implementation runner for the APK signing block model (signers/apk).
package apkb

import (
	"archive/zip"
	"bufio"
	"bytes"
	"crypto"
	_ "crypto/sha256"
	_ "crypto/sha512"
	"encoding/binary"
	"fmt"
	"os"
	"path/filepath"
	"strconv"
	"strings"

	"verifharness/hx"
	"verifharness/sg"
)

func repoDir() string {
	if d := os.Getenv("VERIF_REPO"); d != "" {
		return d
	}
	return "/repo"
}

// GenApk: a small unsigned APK-like ZIP (members stored / deflated, with and without data descriptors as archive/zip writes them)
func GenApk(r *hx.Rng, manifest bool) []byte {
	var buf bytes.Buffer
	zw := zip.NewWriter(&buf)
	if manifest {
		w, err := zw.CreateHeader(&zip.FileHeader{Name: "META-INF/MANIFEST.MF", Method: zip.Deflate})
		if err != nil {
			panic(err)
		}
		w.Write([]byte("Manifest-Version: 1.0\r\n\r\n"))
	}
	names := []string{"AndroidManifest.xml", "classes.dex", "res/layout/main.xml", "resources.arsc", "lib/x86/libfoo.so", "assets/a.bin"}
	n := 1 + r.Intn(len(names))
	for i := 0; i < n; i++ {
		method := zip.Deflate
		if r.Intn(3) == 0 {
			method = zip.Store
		}
		w, err := zw.CreateHeader(&zip.FileHeader{Name: names[i], Method: method})
		if err != nil {
			panic(err)
		}
		w.Write(r.Bytes(r.Pick(0, 1, 17, 300, 2000)))
	}
	zw.Close()
	return buf.Bytes()
}

var keyHash = []string{"rsa:sha256", "p256:sha256", "rsa:sha512", "p384:sha512", "p256:sha512", "p521:sha256"}

// a signing-block candidate: size ‖ pairs ‖ size ‖ magic, or damaged
func genBlock(r *hx.Rng) []byte {
	var area bytes.Buffer
	for i := r.Intn(3); i > 0; i-- {
		v := r.Bytes(r.Pick(0, 1, 8, 40))
		var h [12]byte
		binary.LittleEndian.PutUint64(h[:], uint64(4+len(v)))
		binary.LittleEndian.PutUint32(h[8:], uint32(0x42726577+r.Intn(3)))
		area.Write(h[:])
		area.Write(v)
	}
	a := area.Bytes()
	switch r.Intn(8) {
	case 0: // pair size runs past the end
		if len(a) >= 8 {
			binary.LittleEndian.PutUint64(a, uint64(len(a)+5))
		}
	case 1:
		a = append(a, r.Bytes(1+r.Intn(11))...)
	}
	var b bytes.Buffer
	var sz [8]byte
	binary.LittleEndian.PutUint64(sz[:], uint64(len(a)+24))
	b.Write(sz[:])
	b.Write(a)
	b.Write(sz[:])
	b.WriteString("APK Sig Block 42")
	out := b.Bytes()
	switch r.Intn(10) {
	case 0:
		return []byte("APK Sig Block 42") // 16 bytes: magic only
	case 1:
		return append([]byte{16, 0, 0, 0, 0, 0, 0, 0}, []byte("APK Sig Block 42")...) // 24 bytes, consistent sizes
	case 2:
		return append(r.Bytes(1+r.Intn(6)), []byte("APK Sig Block 42")...)
	case 3:
		out[0] ^= 1
	case 4:
		out[len(out)-1] ^= 1
	case 5:
		out[len(out)-24] ^= 1
	}
	return out
}

func Gen(w *bufio.Writer, seed uint64, tier string, prop string) {
	r := hx.NewRng(seed ^ 0x41504b0000 ^ uint64(prop[2])<<48)
	n := 5
	if tier == "thorough" {
		n = 30
	}
	fixture, err := os.ReadFile(filepath.Join(repoDir(), "functest/packages/dummy.apk"))
	if err == nil {
		fmt.Fprintf(w, "APK rounds %s rsa:sha256,p256:sha256,p384:sha512\n", hx.Hex(fixture))
		// a signer whose certificate chain is longer than 4 KiB (length-prefixed v2 block larger than any initial buffer)
		fmt.Fprintf(w, "APK rounds %s rsachain:sha256,rsachain:sha512\n", hx.Hex(fixture))
	}
	for i := 0; i < n; i++ {
		rounds := 2 + r.Intn(2)
		ks := make([]string, rounds)
		for j := range ks {
			ks[j] = keyHash[r.Intn(len(keyHash))]
		}
		fmt.Fprintf(w, "APK rounds %s %s\n", hx.Hex(GenApk(r, true)), strings.Join(ks, ","))
	}
	if prop == "C01" { // v2-only APK without a JAR manifest (known finding F34)
		fmt.Fprintf(w, "APK rounds %s p256:sha256\n", hx.Hex(GenApk(r, false)))
	}
	if prop == "C05" || prop == "C01" {
		for i := 0; i < 8*n; i++ {
			fmt.Fprintf(w, "APK sigblock %s\n", hx.Hex(genBlock(r)))
		}
	}
}

var tmpDir string
var opCounter int

func scratch() string {
	if tmpDir == "" {
		d, err := os.MkdirTemp("", "vh-apk-")
		if err != nil {
			panic(err)
		}
		tmpDir = d
		hx.OnExit(func() { os.RemoveAll(d) })
	}
	return tmpDir
}

func hashOf(s string) crypto.Hash {
	if s == "sha512" {
		return crypto.SHA512
	}
	return crypto.SHA256
}

func Handle(f []string) string {
	if len(f) < 2 {
		return "bad-op"
	}
	opCounter++
	path := filepath.Join(scratch(), "a"+strconv.Itoa(opCounter)+".apk")
	defer os.Remove(path)
	switch f[0] {
	case "rounds":
		if len(f) != 3 {
			return "bad-op"
		}
		in, err := hx.UnHex(f[1])
		if err != nil {
			return "bad-op"
		}
		if err := os.WriteFile(path, in, 0o644); err != nil {
			return "bad-op"
		}
		var files, verdicts []string
		for i, kh := range strings.Split(f[2], ",") {
			p := strings.Split(kh, ":")
			cert := sg.Cert(p[0])
			if err := sg.Sign("apk", path, path, cert, hashOf(p[1]), nil); err != nil {
				return fmt.Sprintf("err sign-%d:%s", i+1, strings.ReplaceAll(err.Error(), " ", "_"))
			}
			out, err := os.ReadFile(path)
			if err != nil {
				return "FAIL unreadable"
			}
			files = append(files, hx.Hex(out))
			v := "ok"
			if _, err := sg.Verify("apk", path, cert, false); err != nil {
				v = "err:" + strings.ReplaceAll(err.Error(), " ", "_")
			}
			verdicts = append(verdicts, v)
		}
		return fmt.Sprintf("ok r=%s v=%s", strings.Join(files, ","), strings.Join(verdicts, ","))
	case "sigblock":
		blob, err := hx.UnHex(f[1])
		if err != nil {
			return "bad-op"
		}
		// a one-member zip with `blob` between the last entry and the central directory
		var buf bytes.Buffer
		zw := zip.NewWriter(&buf)
		w, _ := zw.CreateHeader(&zip.FileHeader{Name: "classes.dex", Method: zip.Store})
		w.Write([]byte("dex"))
		zw.Close()
		z := buf.Bytes()
		eocd := len(z) - 22
		cdOff := int(binary.LittleEndian.Uint32(z[eocd+16:]))
		out := append(append(append([]byte{}, z[:cdOff]...), blob...), z[cdOff:]...)
		binary.LittleEndian.PutUint32(out[len(out)-22+16:], uint32(cdOff+len(blob)))
		if err := os.WriteFile(path, out, 0o644); err != nil {
			return "bad-op"
		}
		_, err = sg.Verify("apk", path, nil, false)
		switch {
		case err == nil:
			return "ok"
		case strings.Contains(err.Error(), "malformed APK signing block"):
			return "err malformed"
		case strings.Contains(err.Error(), "truncated APK signing block"):
			return "err truncated"
		}
		return "ok" // the block and its pairs were read; what follows (no v2 signer, v1 check) is outside this op
	}
	return "bad-op"
}

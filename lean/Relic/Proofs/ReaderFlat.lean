/-
  Relic.Proofs.ReaderFlat — executing reader programs on a whole file: the cursor view.
  `at f c` is the flat reader positioned at offset `c` of the file `f` (ending in io.EOF); every combinator of
  Relic.Model.ReaderProgs moves the cursor and hands `seg f c (c+n)` to its continuation.
  `obs` keeps of a run what the refinement theorems compare: the value and the bytes written to sinks 1 and 2.
-/
import Relic.Model.ReaderProgs
import Relic.Proofs.PE
namespace Relic.Rd
open Relic
open Relic.PE (seg seg_length seg_append seg_self u16 u32)

/-- the flat reader at offset `c` of file `f` -/
def at_ (f : Bytes) (c : Nat) : Flat := ⟨f.drop c, .eof, none⟩

theorem at_zero (f : Bytes) : at_ f 0 = Flat.raw f .eof := by simp [at_, Flat.raw]

/-- observation of a run: value, bytes to the hash (sink 1), bytes to `patched` (sink 2) -/
abbrev Obs (α : Type) := Res (α × Bytes × Bytes)

def obs {α σ} (x : Res α × Log × σ) : Obs α :=
  match x.1 with
  | .ok a => .ok (a, sinkBytes x.2.1 hashSink, sinkBytes x.2.1 patchedSink)
  | .err e => .err e
  | .panic p => .panic p
  | .diverge => .diverge

/-- a sink write in front of an observation -/
def pre {α} (sink : Nat) (b : Bytes) (o : Obs α) : Obs α :=
  match o with
  | .ok (a, h, p) => .ok (a, (if sink = hashSink then b ++ h else h), (if sink = patchedSink then b ++ p else p))
  | .err e => .err e
  | .panic q => .panic q
  | .diverge => .diverge

theorem sinkBytes_cons (s : Nat) (b : Bytes) (l : Log) (i : Nat) :
    sinkBytes ((s, b) :: l) i = (if s = i then b else []) ++ sinkBytes l i := by
  unfold sinkBytes
  by_cases h : s = i
  · simp [h]
  · simp [h]

theorem obs_emit {α} (s : Nat) (b : Bytes) (k : Prog α) (st : Flat) :
    obs (runFlat (.emit s b k) st) = pre s b (obs (runFlat k st)) := by
  simp only [runFlat, obs, pre]
  generalize runFlat k st = r
  obtain ⟨r1, l, st'⟩ := r
  cases r1 with
  | ok a =>
    simp only [sinkBytes_cons]
    by_cases h1 : s = hashSink <;> by_cases h2 : s = patchedSink <;> simp [h1, h2] <;> split <;> simp_all
  | err e => rfl
  | panic p => rfl
  | diverge => rfl

theorem obs_fail {α} (e : String) (st : Flat) : obs (runFlat (failE e : Prog α) st) = .err e := rfl

theorem obs_ret {α} (a : α) (st : Flat) : obs (runFlat (.ret a) st) = .ok (a, [], []) := rfl

theorem pre_err {α} (s : Nat) (b : Bytes) (e : String) : pre s b (.err e : Obs α) = .err e := rfl

theorem pre_pre_same {α} (s : Nat) (a b : Bytes) (o : Obs α) : pre s a (pre s b o) = pre s (a ++ b) o := by
  cases o with
  | ok x =>
    obtain ⟨v, h, p⟩ := x
    simp only [pre, hashSink, patchedSink]
    by_cases h1 : s = 1 <;> by_cases h2 : s = 2 <;> simp_all
  | err _ => rfl
  | panic _ => rfl
  | diverge => rfl

theorem pre_comm {α} (a b : Bytes) (o : Obs α) :
    pre hashSink a (pre patchedSink b o) = pre patchedSink b (pre hashSink a o) := by
  cases o with
  | ok x =>
    obtain ⟨v, h, p⟩ := x
    simp [pre, hashSink, patchedSink]
  | err _ => rfl
  | panic _ => rfl
  | diverge => rfl

theorem pre_nil {α} (s : Nat) (o : Obs α) : pre s [] o = o := by
  cases o with
  | ok x =>
    obtain ⟨v, h, p⟩ := x
    simp [pre]
  | err _ => rfl
  | panic _ => rfl
  | diverge => rfl

/-- both sinks (`io.MultiWriter(dw, patched)`) -/
def pre12 {α} (b : Bytes) (o : Obs α) : Obs α := pre hashSink b (pre patchedSink b o)

theorem pre12_pre12 {α} (a b : Bytes) (o : Obs α) : pre12 a (pre12 b o) = pre12 (a ++ b) o := by
  unfold pre12
  rw [← pre_comm b a, pre_pre_same, pre_pre_same]

theorem drop_take_seg (f : Bytes) (c n : Nat) : (f.drop c).take n = seg f c (c + n) := by
  simp [seg]

theorem obs_readFullE {α} (f : Bytes) (c n : Nat) (k : Bytes → Prog α) (hc : c ≤ f.length) :
    obs (runFlat (readFullE n k) (at_ f c)) =
      if c + n ≤ f.length then obs (runFlat (k (seg f c (c + n))) (at_ f (c + n))) else .err "eof" := by
  simp only [readFullE, runFlat, at_, flatReadFull, List.length_drop]
  by_cases h : c + n ≤ f.length
  · have h' : n ≤ f.length - c := by omega
    simp only [h, h', ↓reduceIte, drop_take_seg, List.drop_drop]
  · have h' : ¬ n ≤ f.length - c := by omega
    simp only [h, h', ↓reduceIte]
    rfl

theorem obs_readAndHash {α} (f : Bytes) (c n : Nat) (k : Bytes → Prog α) (hc : c ≤ f.length) :
    obs (runFlat (readAndHash n k) (at_ f c)) =
      if c + n ≤ f.length then obs (runFlat (k (seg f c (c + n))) (at_ f (c + n))) else .err "eof" := by
  unfold readAndHash
  by_cases h0 : n = 0
  · subst h0
    simp only [↓reduceIte, Nat.add_zero, hc, seg_self]
  · simp only [h0, ↓reduceIte]
    exact obs_readFullE f c n k hc

/-- `io.CopyN` with a non-negative count -/
theorem obs_copyN {α} (f : Bytes) (c n : Nat) (sc : Sched) (k : Bytes → Prog α) (hc : c ≤ f.length) :
    obs (runFlat (copyN (n : Int) sc k) (at_ f c)) =
      if c + n ≤ f.length then obs (runFlat (k (seg f c (c + n))) (at_ f (c + n))) else .err "eof" := by
  unfold copyN
  by_cases h0 : n = 0
  · subst h0
    simp only [Int.natCast_zero, Int.le_refl, ↓reduceIte, Nat.add_zero, hc, seg_self]
  · have hn : ¬ ((n : Int) ≤ 0) := by omega
    simp only [hn, ↓reduceIte, runFlat, at_, flatCopy, Int.toNat_natCast, List.length_drop]
    by_cases h : c + n ≤ f.length
    · have h' : n ≤ f.length - c := by omega
      simp only [h, h', ↓reduceIte, drop_take_seg, List.drop_drop]
    · have h' : ¬ n ≤ f.length - c := by omega
      simp only [h, h', ↓reduceIte]
      rfl

/-- `io.CopyN` with a negative count copies nothing -/
theorem obs_copyN_neg {α} (n : Int) (hn : n ≤ 0) (sc : Sched) (k : Bytes → Prog α) (st : Flat) :
    obs (runFlat (copyN n sc k) st) = obs (runFlat (k []) st) := by
  unfold copyN
  simp only [hn, if_true]

theorem obs_copyNToE {α} (f : Bytes) (c n : Nat) (s : Nat) (sc : Sched) (fe : Term → Fail) (e : String)
    (hfe : fe .eof = .err e) (k : Bytes → Prog α) (hc : c ≤ f.length) :
    obs (runFlat (copyNToE s (n : Int) sc fe k) (at_ f c)) =
      if n = 0 then obs (runFlat (k []) (at_ f c))
      else if c + n ≤ f.length then pre s (seg f c (c + n)) (obs (runFlat (k (seg f c (c + n))) (at_ f (c + n))))
      else .err e := by
  unfold copyNToE
  by_cases h0 : n = 0
  · subst h0
    simp only [Int.natCast_zero, Int.le_refl, if_true]
  · have hn : ¬ ((n : Int) ≤ 0) := by omega
    simp only [hn, h0, if_false]
    simp only [runFlat, at_, flatCopy, Int.toNat_natCast, List.length_drop]
    by_cases h : c + n ≤ f.length
    · have h' : n ≤ f.length - c := by omega
      simp only [h, h', ↓reduceIte, drop_take_seg, List.drop_drop]
      exact obs_emit s _ _ _
    · have h' : ¬ n ≤ f.length - c := by omega
      simp only [h, h', ↓reduceIte]
      rw [hfe]
      rfl

theorem obs_copyNTo {α} (f : Bytes) (c n : Nat) (s : Nat) (sc : Sched) (k : Bytes → Prog α) (hc : c ≤ f.length) :
    obs (runFlat (copyNTo s (n : Int) sc k) (at_ f c)) =
      if n = 0 then obs (runFlat (k []) (at_ f c))
      else if c + n ≤ f.length then pre s (seg f c (c + n)) (obs (runFlat (k (seg f c (c + n))) (at_ f (c + n))))
      else .err "eof" :=
  obs_copyNToE f c n s sc shortErr "eof" rfl k hc

/-! ### reading fields out of a segment -/

theorem seg_seg (f : Bytes) (a b x y : Nat) (hy : y ≤ b - a) (_hb : b ≤ f.length) :
    seg (seg f a b) x y = seg f (a + x) (a + y) := by
  unfold seg
  rw [List.drop_take, List.drop_drop, List.take_take]
  congr 1
  omega

theorem u32_seg (f : Bytes) (a b off : Nat) (h : off + 4 ≤ b - a) (hb : b ≤ f.length) :
    u32 (seg f a b) off = u32 f (a + off) := by
  unfold u32
  rw [seg_seg f a b off (off + 4) h hb]
  rfl

theorem u16_seg (f : Bytes) (a b off : Nat) (h : off + 2 ≤ b - a) (hb : b ≤ f.length) :
    u16 (seg f a b) off = u16 f (a + off) := by
  unfold u16
  rw [seg_seg f a b off (off + 2) h hb]
  rfl

theorem seg_zero_take (f : Bytes) (n : Nat) : seg f 0 n = f.take n := by simp [seg]

end Relic.Rd

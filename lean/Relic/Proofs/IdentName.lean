/-
  Relic.Proofs.IdentName — relic's MS-OSCO distinguished-name string equals the transcription of the documented
  CertNameToStr format on the class `Spec.Ident.Agree`.
-/
import Relic.Model.Ident
import Relic.Spec.Ident
namespace Relic.Ident
open Relic

/-! ### separators -/

theorem joinSep_eq (sep : Bytes) (l : List Bytes) : joinSep sep l = sep.intercalate l := by
  induction l with
  | nil => simp [joinSep, List.intercalate]
  | cons x r ih =>
    cases r with
    | nil => simp [joinSep, List.intercalate]
    | cons y r' =>
      rw [joinSep, ih]
      simp [List.intercalate, List.intersperse]

/-! ### decimal numbers -/

theorem digitChar_toNat (d : Nat) (h : d < 10) : UInt8.ofNat (Nat.digitChar d).toNat = UInt8.ofNat (48 + d) := by
  have : d = 0 ∨ d = 1 ∨ d = 2 ∨ d = 3 ∨ d = 4 ∨ d = 5 ∨ d = 6 ∨ d = 7 ∨ d = 8 ∨ d = 9 := by omega
  rcases this with h | h | h | h | h | h | h | h | h | h <;> subst h <;> decide

theorem decDigits_eq (n : Nat) :
    decDigits n = (Nat.toDigits 10 n).map fun c => UInt8.ofNat c.toNat := by
  induction n using Nat.strongRecOn with
  | _ n ih =>
    rw [decDigits, Nat.toDigits_eq_if (by decide)]
    split
    · rename_i h; simp [digitChar_toNat n h]
    · rename_i h
      rw [ih (n / 10) (by omega)]
      simp [digitChar_toNat (n % 10) (by omega)]

theorem dotted_eq (o : List Nat) : dotted o = Spec.Ident.dottedDecimal o := by
  induction o with
  | nil => simp [dotted, Spec.Ident.dottedDecimal, List.intercalate]
  | cons a r ih =>
    cases r with
    | nil => simp [dotted, Spec.Ident.dottedDecimal, List.intercalate, decDigits_eq]
    | cons b r' =>
      rw [dotted, ih]
      simp [Spec.Ident.dottedDecimal, List.intercalate, List.intersperse, decDigits_eq]

/-! ### key names -/

theorem lookupName_some_mem (t : List (List Nat × Bytes)) (o : List Nat) (n : Bytes)
    (h : lookupName t o = some n) : (o, n) ∈ t := by
  induction t with
  | nil => simp [lookupName] at h
  | cons e r ih =>
    obtain ⟨k, v⟩ := e
    simp only [lookupName] at h
    split at h
    · rename_i hk; cases h; subst hk; simp
    · exact List.mem_cons_of_mem _ (ih h)

theorem lookupName_none (t : List (List Nat × Bytes)) (o : List Nat)
    (h : ∀ e ∈ t, e.1 ≠ o) : lookupName t o = none := by
  induction t with
  | nil => simp [lookupName]
  | cons e r ih =>
    obtain ⟨k, v⟩ := e
    simp only [lookupName]
    have hk : k ≠ o := h (k, v) (by simp)
    simp only [hk, ↓reduceIte]
    exact ih fun e he => h e (List.mem_cons_of_mem _ he)

theorem find_some_mem (o : List Nat) (e : List Nat × Bytes)
    (h : Spec.Ident.x500Keys.find? (fun e => e.1 == o) = some e) : e ∈ Spec.Ident.x500Keys ∧ e.1 = o := by
  have h1 := List.mem_of_find?_eq_some h
  have h2 := List.find?_some h
  exact ⟨h1, by simpa using h2⟩

/-- every documented key except X21Address / dnQualifier is in relic's table under the same name -/
theorem spec_keys_in_relic :
    ∀ e ∈ Spec.Ident.x500Keys, e.1 ≠ Spec.Ident.x21Oid → e.1 ≠ Spec.Ident.dnqOid →
      lookupName nameStyleMsOsco e.1 = some e.2 := by
  decide

/-- every key of relic's table except UID is a documented key -/
theorem relic_keys_in_spec :
    ∀ e ∈ nameStyleMsOsco, e.1 ≠ uid → ∃ e' ∈ Spec.Ident.x500Keys, e'.1 = e.1 := by
  decide

theorem attName_eq_spec (o : List Nat) (h1 : o ≠ uid) (h2 : o ≠ Spec.Ident.x21Oid) (h3 : o ≠ Spec.Ident.dnqOid) :
    attName .msosco o = Spec.Ident.keyOf o := by
  unfold attName Spec.Ident.keyOf
  simp only [styleTable, stylePrefix]
  cases hf : Spec.Ident.x500Keys.find? (fun e => e.1 == o) with
  | some e =>
    obtain ⟨hm, ho⟩ := find_some_mem o e hf
    have := spec_keys_in_relic e hm (by rw [ho]; exact h2) (by rw [ho]; exact h3)
    rw [ho] at this
    simp [this]
  | none =>
    have hnone : lookupName nameStyleMsOsco o = none := by
      cases hl : lookupName nameStyleMsOsco o with
      | none => rfl
      | some n =>
        exfalso
        have hm := lookupName_some_mem _ _ _ hl
        obtain ⟨e', he', hk⟩ := relic_keys_in_spec (o, n) hm h1
        have := List.find?_eq_none.mp hf e' he'
        simp at this
        exact this hk
    simp [hnone, dotted_eq]

/-! ### quoting -/

theorem quoteSet_iff (c : UInt8) : quoteSet.contains c = (Spec.Ident.quoteChars.contains c || c == 39) := by
  have : Spec.Ident.quoteChars = [44, 43, 61, 34, 10, 60, 62, 35, 59] := by decide
  rw [this]
  simp only [quoteSet, List.contains_cons, List.contains_nil]
  grind

theorem lf_in_quoteChars : Spec.Ident.quoteChars.contains 10 = true := by decide

theorem u8_eq_iff (a : UInt8) (k : Nat) (hk : k < 256) : a = UInt8.ofNat k ↔ a.toNat = k := by
  constructor
  · intro h; subst h; simp [UInt8.toNat_ofNat']; omega
  · intro h; subst h; simp

theorem any_quote_eq (v : Bytes) (hA : v.contains 39 = false) :
    v.any (fun c => quoteSet.contains c) = v.any (fun c => Spec.Ident.quoteChars.contains c) := by
  induction v with
  | nil => simp
  | cons c t ih =>
    simp only [List.contains_cons, Bool.or_eq_false_iff] at hA
    have : (c == 39) = false := by
      have := hA.1
      simp only [beq_eq_false_iff_ne, ne_eq] at this ⊢
      exact fun h => this (h ▸ rfl)
    rw [List.any_cons, List.any_cons, ih hA.2, quoteSet_iff, this]
    simp

theorem replaceByte_eq_self (b : UInt8) (r v : Bytes) (h : ∀ c ∈ v, c ≠ b) : replaceByte b r v = v := by
  induction v with
  | nil => simp [replaceByte]
  | cons c t ih =>
    have hc : c ≠ b := h c (by simp)
    have := ih fun c hc => h c (List.mem_cons_of_mem _ hc)
    simp only [replaceByte] at this ⊢
    simp [hc, this]

theorem dquote_in_quoteSet : quoteSet.contains 34 = true := by decide

theorem needsQuote_false_no_dquote (v : Bytes) (h : needsQuote v = false) : ∀ c ∈ v, c ≠ 34 := by
  intro c hc hq
  subst hq
  have : v.any (fun c => quoteSet.contains c) = true := List.any_eq_true.mpr ⟨34, hc, dquote_in_quoteSet⟩
  simp [needsQuote] at h
  exact h.2 34 hc (by decide)

theorem isWhite_eq (c : UInt8) (h1 : Spec.Ident.isOtherWhite c = false) (h2 : c ≠ 10) :
    Spec.Ident.isWhite c = (c == 32) := by
  simp only [Spec.Ident.isOtherWhite, Bool.or_eq_false_iff] at h1
  have a1 : c.toNat ≠ 9 := fun h => of_decide_eq_false h1.1.1.1 ((u8_eq_iff c 9 (by decide)).mpr h)
  have a2 : c.toNat ≠ 11 := fun h => of_decide_eq_false h1.1.1.2 ((u8_eq_iff c 11 (by decide)).mpr h)
  have a3 : c.toNat ≠ 12 := fun h => of_decide_eq_false h1.1.2 ((u8_eq_iff c 12 (by decide)).mpr h)
  have a4 : c.toNat ≠ 13 := fun h => of_decide_eq_false h1.2 ((u8_eq_iff c 13 (by decide)).mpr h)
  have a5 : c.toNat ≠ 10 := fun h => h2 ((u8_eq_iff c 10 (by decide)).mpr h)
  have : (decide (9 ≤ c.toNat) && decide (c.toNat ≤ 13)) = false := by
    simp; omega
  simp only [Spec.Ident.isWhite, this, Bool.or_false]
  by_cases h : c = 32
  · subst h; decide
  · simp [h]

theorem needsQuote_eq_spec (v : Bytes) (hA : v.contains 39 = false) (hE : Spec.Ident.edgeWhite (.str v) = false) :
    needsQuote v = Spec.Ident.mustQuote v := by
  cases v with
  | nil => simp [needsQuote, Spec.Ident.mustQuote]
  | cons f t =>
    obtain ⟨l, hl⟩ : ∃ l, (f :: t).getLast? = some l := by
      cases h : (f :: t).getLast? with
      | none => simp at h
      | some l => exact ⟨l, rfl⟩
    have hlm : l ∈ f :: t := List.mem_of_getLast? hl
    simp only [needsQuote, Spec.Ident.mustQuote, any_quote_eq _ hA, hl, List.isEmpty_cons, List.head?_cons, Bool.false_or]
    simp only [Spec.Ident.edgeWhite, List.head?_cons, hl, Bool.or_eq_false_iff] at hE
    cases hq : (f :: t).any (fun c => Spec.Ident.quoteChars.contains c) with
    | true => simp
    | false =>
      have hnot : ∀ c ∈ f :: t, c ≠ 10 := by
        intro c hc h10
        subst h10
        have : (f :: t).any (fun c => Spec.Ident.quoteChars.contains c) = true :=
          List.any_eq_true.mpr ⟨10, hc, lf_in_quoteChars⟩
        rw [hq] at this; cases this
      have hf := hnot f (by simp)
      have hl' := hnot l hlm
      have e1 := isWhite_eq f hE.1 hf
      have e2 := isWhite_eq l hE.2 hl'
      rw [e1, e2]
      simp

theorem quoteValue_eq_spec (v : Bytes) (hA : v.contains 39 = false) (hE : Spec.Ident.edgeWhite (.str v) = false) :
    quoteValue v = Spec.Ident.rdnValue v := by
  unfold quoteValue Spec.Ident.rdnValue
  rw [← needsQuote_eq_spec v hA hE]
  cases hq : needsQuote v with
  | true => simp [replaceByte]
  | false => simp [replaceByte_eq_self 34 [34, 34] v (needsQuote_false_no_dquote v hq)]

/-! ### the whole name -/

theorem sepATV_eq : sepATV = ascii " + " := by decide
theorem sepRDN_eq : sepRDN = ascii ", " := by decide

theorem fmtATV_eq_spec (a : ATV) (h : Spec.Ident.agreeATV a = true) : fmtATV .msosco a = Spec.Ident.atvStr a := by
  obtain ⟨o, v⟩ := a
  simp only [Spec.Ident.agreeATV, Bool.and_eq_true, Bool.not_eq_true', bne_iff_ne, ne_eq] at h
  obtain ⟨⟨⟨⟨⟨hs, hap⟩, hew⟩, h1⟩, h2⟩, h3⟩ := h
  cases v with
  | str s =>
    simp only [Spec.Ident.hasApostrophe] at hap
    simp only [fmtATV, Spec.Ident.atvStr, attName_eq_spec o h1 h2 h3, attValue, styleValue, Spec.Ident.strOf,
      quoteValue_eq_spec s hap hew]
    simp
  | oid _ => simp [Spec.Ident.isStr] at hs
  | int _ => simp [Spec.Ident.isStr] at hs
  | other => simp [Spec.Ident.isStr] at hs

theorem fmtRDN_eq_spec (r : RDN) (h : r.all Spec.Ident.agreeATV = true) :
    fmtRDN .msosco r = (ascii " + ").intercalate (r.map Spec.Ident.atvStr) := by
  rw [fmtRDN, joinSep_eq, sepATV_eq]
  congr 1
  apply List.map_congr_left
  intro a ha
  exact fmtATV_eq_spec a (List.all_eq_true.mp h a ha)

/-- relic's publisher string is the documented CertNameToStr(X500 | REVERSE) string on the agreeing class -/
theorem formatParsed_eq_spec (n : Name) (h : Spec.Ident.Agree n = true) :
    formatParsed .msosco n = Spec.Ident.certNameToStr n := by
  simp only [formatParsed, Spec.Ident.certNameToStr]
  rw [joinSep_eq, sepRDN_eq]
  congr 1
  apply List.map_congr_left
  intro r hr
  exact fmtRDN_eq_spec r (List.all_eq_true.mp h r (List.mem_reverse.mp hr))

end Relic.Ident


/-
  C08 — Re-signing replaces the signature; digests ignore existing signatures.   Security catalogs (signers/cat).
-/
import Relic.Proofs.CatSign
namespace Relic.Props.C08
open Relic Relic.Der Relic.CatSign

/-- the new SignedData stays below the 2^31-byte limit of encoding/asn1's length reader -/
def Fits (k : Signer) (ci : Bytes) : Prop := ∀ d, (emitSD k ci (k.sign d)).length < 2 ^ 31

/-- **cat_resign_preserves_content.**  Re-signing relic's own output finds the ContentInfo of the original catalog again,
    byte for byte, and digests the same content octets: the digest ignores the existing signature. -/
theorem cat_resign_preserves_content (H : Bytes → Bytes) (k1 k2 : Signer) (x : Bytes) (s1 : Signed)
    (h1 : sign H k1 x = .ok s1) (hk : k1.WF) (hfit : Fits k1 s1.ci) :
    ∃ s2, sign H k2 s1.out = .ok s2 ∧ s2.ci = s1.ci ∧ s2.content = s1.content ∧ s2.ci <:+: x := by
  obtain ⟨hu, ho, hc, hs, hout⟩ := sign_inv H k1 x s1 h1
  have hu2 := unmarshalCI_signed H k1 x s1 h1 hk (by rw [hout, hs]; exact hfit _)
  refine ⟨_, sign_of_ci H k2 s1.out s1.ci s1.content hu2 ho hc, rfl, rfl, ?_⟩
  exact (unmarshalCI_inv x s1.ci hu).choose_spec.2.2

/-- **cat_resign_replaces.**  Signing an already signed catalog gives exactly what signing the original with the second key
    gives: one signer info, the second identity's chain, nothing of the first signature. -/
theorem cat_resign_replaces (H : Bytes → Bytes) (k1 k2 : Signer) (x : Bytes) (s1 : Signed)
    (h1 : sign H k1 x = .ok s1) (hk : k1.WF) (hfit : Fits k1 s1.ci) :
    sign H k2 s1.out = sign H k2 x := by
  obtain ⟨hu, _, _, hs, hout⟩ := sign_inv H k1 x s1 h1
  have hu2 := unmarshalCI_signed H k1 x s1 h1 hk (by rw [hout, hs]; exact hfit _)
  exact sign_congr H k2 _ _ (by rw [hu2, hu])

/-- **cat_history.**  Any number of further signings: every round succeeds, and the final file is what the last key alone
    would have produced from the original catalog. -/
theorem cat_history (H : Bytes → Bytes) (x : Bytes) (k0 : Signer) (s0 : Signed) (h0 : sign H k0 x = .ok s0) :
    ∀ (ks : List Signer) (k : Signer), (∀ j ∈ k0 :: ks, j.WF ∧ Fits j s0.ci) →
      history H (ks ++ [k]) s0.out = (sign H k x).bind (fun s => .ok s.out) := by
  obtain ⟨hu, ho, hc, _, _⟩ := sign_inv H k0 x s0 h0
  -- invariant: the current file yields the original ContentInfo
  have key : ∀ (ks : List Signer) (k : Signer) (b : Bytes), unmarshalCI b = .ok s0.ci → (∀ j ∈ ks, j.WF ∧ Fits j s0.ci) →
      history H (ks ++ [k]) b = (sign H k x).bind (fun s => .ok s.out) := by
    intro ks
    induction ks with
    | nil =>
      intro k b hb _
      have e : sign H k b = sign H k x := sign_congr H k _ _ (by rw [hb, hu])
      simp only [List.nil_append, history, e]
      cases sign H k x <;> rfl
    | cons j js ih =>
      intro k b hb hall
      have hj := sign_of_ci H j b s0.ci s0.content hb ho hc
      simp only [List.cons_append, history, hj]
      refine ih k _ ?_ (fun i hi => hall i (by simp [hi]))
      have := unmarshalCI_signed H j b _ hj (hall j (by simp)).1 ((hall j (by simp)).2 _)
      exact this
  intro ks k hall
  refine key ks k s0.out ?_ (fun j hj => hall j (by simp [hj]))
  have := unmarshalCI_signed H k0 x s0 h0 (hall k0 (by simp)).1 (by
    obtain ⟨_, _, _, hs, hout⟩ := sign_inv H k0 x s0 h0
    rw [hout, hs]; exact (hall k0 (by simp)).2 _)
  exact this

/-- a small catalog on which the hypotheses hold: ContentInfo { szOID_CTL, [0] { SEQUENCE { NULL } } } in a SignedData
    without signer infos, and an identity with an empty chain -/
def demoKey : Signer := ⟨[0x30, 0x00], [0x01], [], [0x30, 0x00], [0x30, 0x00], fun _ => [0xAA, 0xBB]⟩
def demoCI : Bytes := [0x30, 0x11, 0x06, 0x09, 0x2b, 0x06, 0x01, 0x04, 0x01, 0x82, 0x37, 0x0a, 0x01, 0xA0, 0x04, 0x30, 0x02, 0x05, 0x00]

example : demoKey.WF := by
  unfold Signer.WF demoKey
  show (splitTLVs []).isOk = true
  rw [splitTLVs_nil]; rfl
example : Fits demoKey demoCI := by
  intro d
  show (emitSD demoKey demoCI [0xAA, 0xBB]).length < 2 ^ 31
  decide


/-- the demo catalog is signable, and so is every output of signing it -/
theorem demo_signable (H : Bytes → Bytes) :
    sign H demoKey (emitSD demoKey demoCI [0xAA, 0xBB]) = .ok ⟨emitSD demoKey demoCI [0xAA, 0xBB], demoCI, [0x05, 0x00], [0xAA, 0xBB]⟩ := by
  have e : demoCI = tlv 0x30 (demoCI.drop 2) := by decide
  have hu : unmarshalCI (emitSD demoKey demoCI [0xAA, 0xBB]) = .ok demoCI := by
    have := unmarshalCI_emitSD demoKey (demoCI.drop 2) [0xAA, 0xBB] (by unfold Signer.WF demoKey; show (splitTLVs []).isOk = true; rw [splitTLVs_nil]; rfl)
      (by decide) (by rw [← e]; decide)
    rwa [← e] at this
  exact sign_of_ci H demoKey _ demoCI [0x05, 0x00] hu (by decide) (by decide)

end Relic.Props.C08

/-
  C18 — Adding a signature stream keeps the compound file valid.
  Property theorems about `Relic.Model.RedBlack` (model of /repo/lib/redblack and of
  `lessDirEnt` in /repo/lib/comdoc/dirent.go).
  The sector-level half of the property is checked by the Lean-defined validator
  `Relic.Spec.Cfb.validate` run on the bytes the real code wrote (see checklib/props/c18.py);
  lib/comdoc's writer and the MSI digesters are not modelled: the corresponding statements are
  the `…_full` definitions at the end of this file and are NOT proved.
-/
import Relic.Proofs.RedBlack
import Relic.Proofs.RedBlackBst
import Relic.Spec.Cfb
namespace Relic.Props.C18
open Relic Relic.RedBlack

/-- a strict order on the keys actually inserted: transitive, and the keys are pairwise comparable
    (hence distinct) -/
structure KeysOrdered {α : Type} (less : α → α → Bool) (xs : List α) : Prop where
  trans : ∀ a b c, less a b = true → less b c = true → less a c = true
  total : xs.Pairwise (fun a b => less a b = true ∨ less b a = true)

/-- **rb_insert_valid.** For the insertion algorithm of `lib/redblack` *with new nodes red and
    the root re-blackened* (fix-F4), inserting any list of pairwise comparable keys into the empty
    tree yields a tree that (1) has a black root, no red node with a red child and the same
    number of black nodes on every path, (2) is a binary search tree (in-order sequence strictly
    increasing), (3) holds exactly the inserted keys – and therefore passes the executable check
    `validB` that the harness evaluates on the implementation's tree. -/
theorem rb_insert_valid {α : Type} (less : α → α → Bool) (xs : List α) (h : KeysOrdered less xs) :
    let t := insertAll less true true Tree.nil xs
    (∃ n, RB t false n) ∧ Sorted less t ∧ (toList t).Perm xs ∧ validB less t = true := by
  intro t
  have bal : ∀ (ys : List α) (u : Tree α), (∃ n, RB u false n) →
      ∃ n, RB (insertAll less true true u ys) false n := by
    intro ys
    induction ys with
    | nil => intro u hu; exact hu
    | cons y ys ih =>
      intro u ⟨n, hu⟩
      exact ih _ (insert_RB less u y n hu)
  obtain ⟨n, hb⟩ := bal xs Tree.nil ⟨0, RB.nil⟩
  obtain ⟨hs, hp⟩ := insertAll_sorted less h.trans true true xs Tree.nil
    (by intro _ _ y hy; cases hy) h.total (by simp [Sorted, toList])
  refine ⟨⟨n, hb⟩, hs, ?_, validB_of less hb hs⟩
  simpa [toList] using hp

example : KeysOrdered natLt [5, 1, 4, 2, 3, 9, 0] :=
  ⟨fun a b c => by simp only [natLt, decide_eq_true_eq]; omega, by decide⟩
example : insertAll natLt true true Tree.nil [1, 2, 3] =
    .node false (.node true .nil 1 .nil) 2 (.node true .nil 3 .nil) := by rfl

/-- **rb_insert_bst_any_colour.** The ordering half holds for either colour policy, in particular
    for the unchanged code: F4 breaks the colour rules, not the search order. -/
theorem rb_insert_bst_any_colour {α : Type} (less : α → α → Bool) (nr rb : Bool) (xs : List α)
    (h : KeysOrdered less xs) :
    Sorted less (insertAll less nr rb Tree.nil xs) ∧ (toList (insertAll less nr rb Tree.nil xs)).Perm xs := by
  obtain ⟨hs, hp⟩ := insertAll_sorted less h.trans nr rb xs Tree.nil
    (by intro _ _ y hy; cases hy) h.total (by simp [Sorted, toList])
  exact ⟨hs, by simpa [toList] using hp⟩

/-- **rb_unfixed_plain.** On the unchanged tree (`Tree.Insert` creates the node with `Red = false`
    and never touches the root colour) no branch of the balancing code can fire: the result of any
    insertion history is the plain binary-search-tree insertion, every node black. -/
theorem rb_unfixed_plain {α : Type} (less : α → α → Bool) (xs : List α) :
    insertAll less false false Tree.nil xs = xs.foldl (insPlain less) Tree.nil ∧
    allBlack (insertAll less false false Tree.nil xs) = true :=
  insertAll_unfixed_plain less xs Tree.nil rfl

/-- **rb_unfixed_degenerate.** On the unchanged tree, inserting `0,1,…,k-1` yields a right spine of
    `k` black nodes; for every `k ≥ 2` it violates the equal-black-height rule (it is not a
    red-black tree for any root colour or height, and the executable check rejects it). -/
theorem rb_unfixed_degenerate (k : Nat) :
    insertAll natLt false false Tree.nil (List.range (k + 2)) = spine 0 (k + 2) ∧
    (∀ c n, ¬ RB (spine 0 (k + 2)) c n) ∧
    blackHeight? (spine 0 (k + 2)) = none ∧
    validB natLt (spine 0 (k + 2)) = false := by
  refine ⟨?_, spine_not_RB 0 k, ?_, ?_⟩
  · rw [(insertAll_unfixed_plain natLt _ Tree.nil rfl).1]; exact foldl_plain_range (k + 2)
  · exact blackHeight_spine 0 k
  · simp [validB, blackHeight_spine 0 k]

example : insertAll natLt false false Tree.nil [0, 1, 2] =
    .node false .nil 0 (.node false .nil 1 (.node false .nil 2 .nil)) := by rfl

/-- [MS-CFB] 2.6.4 order for the full statement -/
def order_is_mscfb_full : Prop :=
  ∀ (upper : Nat → Nat) (a b : Name), lessDirEnt a b = mscfbLess upper a b

/-- **order_is_mscfb_partial.** `lessDirEnt` coincides with the [MS-CFB] order on names that
    contain no surrogate code unit and no code unit changed by upper-casing – true of MSI's encoded
    stream names (0x3800–0x4840) – for every upper-case mapping. -/
theorem order_is_mscfb_partial (upper : Nat → Nat) (a b : Name)
    (ha : ∀ u ∈ a, isSurr u = false ∧ upper u = u) (hb : ∀ u ∈ b, isSurr u = false ∧ upper u = u) :
    lessDirEnt a b = mscfbLess upper a b := by
  unfold lessDirEnt mscfbLess
  rw [utf16Decode_id a (fun u hu => (ha u hu).1), utf16Decode_id b (fun u hu => (hb u hu).1),
    map_fixed upper a (fun u hu => (ha u hu).2), map_fixed upper b (fun u hu => (hb u hu).2)]

example : ∀ u ∈ [0x4840, 0x3F7F, 0x4164, 0x422F], isSurr u = false ∧ upperUnit u = u := by decide

/-- **order_differs_mixed_case.** The full statement is false: "a" vs "B" (case), and U+E000 vs a
    surrogate pair (UTF-8 order ≠ UTF-16 code-unit order). -/
theorem order_differs_mixed_case : ¬ order_is_mscfb_full := by
  intro h
  have := h upperUnit [0x61] [0x42]
  revert this
  decide

theorem order_differs_witnesses :
    lessDirEnt [0x61] [0x42] = false ∧ mscfbLess upperUnit [0x61] [0x42] = true ∧
    lessDirEnt [0xE000, 0x41] [0xD800, 0xDC00] = true ∧ mscfbLess upperUnit [0xE000, 0x41] [0xD800, 0xDC00] = false := by
  decide

/-! ### statements that are checked on every run by the validator / the digest oracle but NOT proved

They are stated over the *behaviour* of the real code (`apply`: file bytes and a history ↦ file
bytes; `direct`, `tarred`: file bytes ↦ the byte stream fed to the hash), because lib/comdoc's writer
and the MSI digesters are not modelled in Lean.  `./check C18` evaluates their bodies on every
generated file × history with the real code in the place of the parameters. -/

/-- one step of a history: add/replace a root-level stream, or delete it -/
abbrev Touch := List Nat × Option Bytes

/-- the sector-level half of C18 -/
def add_preserves_valid_full (apply : Cfb.Buf → List Touch → Option Cfb.Buf) : Prop :=
  ∀ b h b', apply b h = some b' →
    ∀ p, Spec.Cfb.validate b = .ok p →
      ∃ p', Spec.Cfb.validate b' = .ok p' ∧ Spec.Cfb.preservedWhy p.streams p'.streams h = none

def tar_equals_direct_full (direct tarred : Cfb.Buf → Bool → Option Bytes) : Prop :=
  ∀ b ext, Spec.Cfb.validB b = true → tarred b ext = direct b ext

def msi_digest_ignores_signature_full (direct : Cfb.Buf → Bool → Option Bytes)
    (insertSig : Cfb.Buf → Bytes → Bytes → Option Cfb.Buf) : Prop :=
  ∀ b sig ex b' ext, Spec.Cfb.validB b = true → insertSig b sig ex = some b' → direct b' ext = direct b ext

end Relic.Props.C18

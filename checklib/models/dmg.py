"""Apple disk image (UDIF / DMG) model glue: canonicalisation (hashing the model's byte streams) and the per-property
predicates evaluated on the implementation's output with an independent reader of the koly trailer."""
import hashlib, struct

TOKENS = ["DMG"]
RULE = ("DMG: synthetic UDIF images (data fork 0..9700 bytes around the 512/4096/8192 boundaries, plist 150..3200 bytes, optional resource "
        "fork; layouts data|rsrc|plist (hdiutil), plist|data|rsrc and no plist at all; stray bytes in front of the trailer; zero / non-zero "
        "blank trailer ranges; unsigned, ad-hoc signed (SHA-1/256/384, with/without entitlements), SignatureOffset set with zero length) "
        "and the fixture functest/packages/dummy.dmg; ops: koly (binary.Read -> ForHashing / binary.Write, byte for byte), open (dmg.Open: "
        "trailer offset and signature blob), vfy (Open + Verify with and without digests), sign (dmg.Sign with a real key and "
        "SHA-1/256/384/512, trailer taken from the image or handed over separately, Dump -> ApplyBinPatch on real files to the same or "
        "another path, then Open + Verify; code directory, hashed items, image part and rewritten trailer compared byte for byte; also on "
        "relic's own output), realsign (signer module transform -> tar -> sign -> apply for 1-3 rounds with different keys/digests/paths, "
        "module verifier names the configured certificate and digest, is-signed probe before and after), mutate (C02: one-byte mutants of "
        "really signed images incl. every trailer byte through Open + Verify); malformed stream: every interpreted trailer field through "
        "0,1,2,8,511..513,len-513..len+1,len/2,2^31-1..2^32,10^7-1..10^7+1,2^63-1..2^63+1,2^64-512,2^64-len,2^64-1, truncations, "
        "appended bytes, damaged superblob header/index, foreign or mis-sized trailers; offset and length of both fork descriptors through "
        "0,1,bundle-601..bundle+1,len,2^63-1-bundle,2^63-bundle,2^63-1,2^63,2^64-1-bundle,2^64-1 (layout guards of dmg.Sign). Non-trivial = distinct op on which the model gets "
        "past the length and magic checks.")
TRUSTED = ["Relic.Model.Dmg (current tree: openFile / plan / sign; tree before fix-open / fix-sign: openFileOrig / planOrig / signOrig) is hand-written from lib/fruit/dmg/{dmg,sign,verify}.go and signers/dmg/*.go on top of Relic.Model.{CodeDir,MachO,"
           "Binpatch}; tied by differential execution on every run",
           "encoding/binary on udifResourceFile is modelled as: blank fields are skipped by Read and written as zeros by Write, every other field "
           "keeps its bytes (tied by the koly op through a verif hook)",
           "hash values are computed by the check (hashlib) from the byte streams the model prints; hashes are parameters in Lean"]
ASSUMPTIONS = ["CMS signing/verification of the code directory and requirement compilation are opaque parameters",
               "file lengths fit an int64 (dmg_payload_preserved_full, sign_patch_entries_le take len < 2^63 as a hypothesis)",
               "dmg_sign_then_verify is proved at the container layer (Open returns the blob, the verifier's rep-specific bytes and page stream "
               "are the signer's); the superblob / code-directory round trip is exercised by the sign op"]

HS = {"3": ("sha1", 20), "5": ("sha256", 32), "6": ("sha384", 48), "7": ("sha512", 64)}
HT = {"1": "sha1", "2": "sha256", "4": "sha384"}
# byte ranges of the trailer
R_XML, R_SIGOFF, R_SIGLEN = (216, 232), (296, 304), (304, 312)
BLANK = [(232, 296), (312, 352), (500, 512)]


def _b(h):
    return b"" if h == "-" else bytes.fromhex(h)


def _hx(b):
    return b.hex() if b else "-"


def _kv(tag):
    return dict(p.split("=", 1) for p in tag.split(" ") if "=" in p)


def _render(segs, alg, hs):
    if segs == "-":
        return b""
    out = b""
    for s in segs.split(";"):
        if s == "Z":
            out += b"\0" * hs
        elif s.startswith("L:"):
            out += _b(s[2:])
        elif s.startswith("H:"):
            out += hashlib.new(alg, _b(s[2:])).digest()
        else:
            raise ValueError(s)
    return out


def _eval_plan(plan, final):
    """evaluate the verifier's comparison list with real hash functions"""
    if plan != "-":
        for c in plan.split(","):
            ht, stream, exp = c.split(":")
            e = _b(exp)
            alg = HT.get(ht)
            if alg is None or not any(e) or hashlib.new(alg, _b(stream)).digest() != e:
                return "err mismatch"
    if final == "ok":
        return "ok"
    return final.replace("_", " ", 1)


def canon_model(op, mres):
    f = op.split()
    k = f[1]
    if not mres.startswith("ok"):
        return mres
    parts = mres.split(" ")
    if k == "vfy":
        return _eval_plan(parts[1][5:], parts[2][6:])
    if k == "sign":
        alg, hs = HS.get(f[4], ("sha256", 32))
        return " ".join("cd=" + _hx(_render(p[3:], alg, hs)) if p.startswith("cd=") else p for p in parts)
    return mres


def _strip_strat(m):
    return " ".join(p for p in m.split(" ") if not p.startswith("strat="))


def equiv(op, il, mres):
    mres = _strip_strat(mres)
    if il == mres:
        return True
    k = op.split()[1]
    if k == "vfy":
        # error classes of the verifier are compared loosely: accept / reject is what matters (`open` is compared exactly)
        if il.startswith("err") and mres.startswith("err"):
            return True
        # a blob the generator has damaged: the container and digest layers accept, the CMS layer (outside the model) decides
        return k == "vfy" and op.split()[4] == "x" and mres == "ok" and il.startswith("err")
    if k == "sign":
        if il.startswith("ok ") and mres.startswith("ok "):
            a, b = il.split(" "), mres.split(" ")
            if a[:-1] != b[:-1]:
                return False
            return a[-1] == b[-1] or (a[-1].startswith("verify=fail") and b[-1] == "verify=fail")
        return False
    if k == "mutate" and il.startswith("ok") and mres.startswith("ok"):
        a, b = il.split(" ")[1:], mres.split(" ")[1:]
        return len(a) == len(b) and all(x == y or y == "any" for x, y in zip(a, b))
    return False


def weight(op):
    f = op.split(" ", 4)
    return int(f[3]) if f[1] == "mutate" else 1


def nontrivial(op, mres, tag):
    return mres.split(" ")[0:2] not in (["err", "magic"], ["err", "seek"], ["err", "udif"], ["bad-op"])


def branch(op, mres, tag):
    f = op.split()
    r = mres.split(" ")
    key = r[0] if r[0] == "ok" else " ".join(r[:2])
    kv = _kv(tag)
    if f[1] == "sign" and r[0] == "ok":
        v = [p for p in r if p.startswith("verify=")]
        key += ":" + (v[0] if v else "?") + ":old=" + ("0" if kv.get("old", "-1") == "-1" else "1") + ":inplace=" + f[-1]
    if f[1] == "vfy":
        key += ":skip=" + f[3]
    return "dmg-" + f[1] + ":" + key


# ---------------------------------------------------------------------------------------------- independent reader

class Koly:
    """the trailer as the UDIF layout describes it (not relic's struct)"""
    def __init__(self, img):
        self.ok = len(img) >= 512 and img[-512:-508] == b"koly"
        t = img[-512:] if len(img) >= 512 else b"\0" * 512
        self.t = t
        (self.dfo, self.dfl, self.rfo, self.rfl) = struct.unpack(">4q", t[24:56])
        (self.xo, self.xl) = struct.unpack(">2q", t[216:232])
        (self.so, self.sl) = struct.unpack(">2q", t[296:312])
        self.n = len(img)

    def forks(self):
        """payload items: (name, offset, length)"""
        out = []
        if self.dfl > 0:
            out.append(("data fork", self.dfo, self.dfl))
        if self.rfl > 0:
            out.append(("resource fork", self.rfo, self.rfl))
        if self.xl > 0:
            out.append(("plist", self.xo, self.xl))
        return out

    def well_formed(self):
        """every payload item lies inside the image in front of the trailer"""
        return self.ok and all(o >= 0 and l >= 0 and o + l <= self.n - 512 for _, o, l in self.forks())

    def regular(self):
        """what the image tools write: forks and plist in front of the end of the plist, then nothing but an optional signature"""
        if not self.well_formed() or self.xl <= 0:
            return False
        b = self.xo + self.xl
        if any(o + l > b for _, o, l in self.forks()):
            return False
        if self.so == 0 and self.sl == 0:
            return b == self.n - 512
        return self.so == b and self.sl > 0 and b + self.sl == self.n - 512


def _superblob_items(blob):
    if len(blob) < 12:
        return 0, []
    length, count = struct.unpack(">II", blob[4:12])
    items = []
    for i in range(min(count, 64)):
        if 20 + 8 * i > len(blob):
            break
        t, off = struct.unpack(">II", blob[12 + 8 * i:20 + 8 * i])
        if off + 8 <= len(blob):
            items.append((t, off, struct.unpack(">I", blob[off + 4:off + 8])[0]))
    return length, items


def _payload_lost(inp, pre, trailer_z, so):
    """C03 on one signing: every payload item of the input must be found at its place in the output"""
    ki = Koly(inp)
    out_t = trailer_z
    if len(out_t) != 512:
        return "output trailer missing"
    # fork descriptors and everything else outside SignatureOffset/Length and the blank ranges unchanged
    for i in range(512):
        if R_SIGOFF[0] <= i < R_SIGLEN[1] or any(a <= i < b for a, b in BLANK):
            continue
        if out_t[i] != ki.t[i]:
            return "trailer byte %d changed" % i
    for name, o, l in ki.forks():
        if o + l > len(pre) or pre[o:o + l] != inp[o:o + l]:
            return "%s [%d,%d) is not in the output (signature placed at %d)" % (name, o, o + l, so)
    return None


def predicate(prop, op, il, mres, tag):
    f = op.split()
    k = f[1]
    if il.startswith(("crash", "not-run", "harness-error")):
        return ("Relic.Props.%s (dmg)" % prop, mres, "implementation process died or harness failed: " + il[:200])
    if il.startswith("panic") and k != "mutate":
        return ("Relic.Props.C11.dmg_no_panic_full", "ok or err", "fruit/dmg code panicked: " + il)
    if k in ("signfail",) and il.startswith("err"):
        return ("Relic.Props.C01.dmg_sign_then_verify", "ok", "sign -> verify failed on a well-formed image: " + il)
    if k == "koly" and il.startswith("ok ") and prop in ("C03", "C08", "C02", "C11"):
        # what the trailer codec must do, stated on bytes: ForHashing = trailer with SignatureLength and the blank ranges zeroed
        t = _b(f[2])[:512]
        parts = dict(p.split("=", 1) for p in il.split(" ")[1:])
        want = bytearray(t)
        for a, b in BLANK:
            want[a:b] = b"\0" * (b - a)
        full = bytes(want)
        want[R_SIGLEN[0]:R_SIGLEN[1]] = b"\0" * 8
        if _b(parts["fh"]) != bytes(want) or _b(parts["full"]) != full:
            return ("Relic.Props.C03.dmg_trailer_codec", "fields keep their bytes, blank ranges zero",
                    "binary.Read/Write of the trailer is not the identity on its fields")
    if k == "sign" and il.startswith("ok "):
        parts = dict(p.split("=", 1) for p in il.split(" ")[1:] if "=" in p)
        inp = _b(f[2])
        own_trailer = f[3] == "="
        ki = Koly(inp)
        verdict = parts.get("verify", "?")
        if own_trailer and ki.regular():
            if prop in ("C01", "C08") and verdict != "ok":
                return ("Relic.Props.C01.dmg_sign_then_verify", "verify=ok", "relic's verifier rejects what relic signed: verify=" + verdict)
        if own_trailer and not ki.ok and prop == "C03" and len(inp) >= 512:
            return ("Relic.Props.C03.dmg_payload_preserved", "refused: not a UDIF image",
                    "the last 512 bytes do not carry the koly magic, yet the file was rewritten (signature placed at %s)" % parts.get("so"))
        if own_trailer and ki.well_formed() and prop == "C03" and parts.get("slok") == "1":
            lost = _payload_lost(inp, _b(parts["pre"]), _b(parts["trailer"]), int(parts["so"]))
            if lost:
                return ("Relic.Props.C03.dmg_payload_preserved", "payload items keep their bytes, or the input is refused",
                        "signing reported success but " + lost)
        if own_trailer and ki.regular() and prop in ("C08", "C03", "C01"):
            # re-signing / signing: the image part is the input's, nothing of an old signature is left
            b = ki.xo + ki.xl
            if _b(parts.get("pre", "-")) != inp[:b] or int(parts.get("so", "-1")) != b or parts.get("slok") != "1":
                return ("Relic.Props.C08.dmg_resign_replaces", "output = image part ++ new signature ++ trailer",
                        "signature not placed at the end of the plist or image part changed")
    if k == "sign" and il.startswith("err") and prop in ("C01", "C08"):
        ki = Koly(_b(f[2]))
        # a regular image, a supported digest and a well-formed requirement set must not be refused
        if f[3] == "=" and ki.regular() and f[4] in ("3", "5", "6") and f[6].startswith(("fade0c00", "fade0c01")) and len(f[6]) >= 16 and \
                not (ki.sl > 0 and il == "err oldsig"):
            return ("Relic.Props.C01.dmg_sign_then_verify", "ok", "a regular image was refused: " + il)
    if k == "realsign":
        if il.startswith("err"):
            return ("Relic.Props.C08.dmg_history", "every round verifies, same image part and trailer", "signer module: " + il[:300])
        if il.startswith("ok "):
            parts = dict(p.split("=", 1) for p in il.split(" ")[1:] if "=" in p)
            inp = _b(f[2])
            ki = Koly(inp)
            probe = parts.get("probe", "")
            if ki.regular():
                b = ki.xo + ki.xl
                if _b(parts["pre"]) != inp[:b]:
                    return ("Relic.Props.C03.dmg_payload_preserved", "image part unchanged", "image part changed by the signer module")
                if prop == "C08" and (probe[1:] != "1" * (len(probe) - 1) or (ki.sl == 0 and probe[:1] != "0")):
                    return ("Relic.Props.C08.dmg_probe", "false on unsigned input, true on every output", "is-signed probe answered " + probe)
    if k == "mutate" and il.startswith("ok ") and mres.startswith("ok "):
        signed = _b(f[2])
        ks = Koly(signed)
        L = len(signed)
        bundle = ks.xo + ks.xl
        _, items = _superblob_items(signed[ks.so:ks.so + ks.sl])
        prot = [(ks.so + off, ks.so + off + ln) for (t, off, ln) in items if t in (0, 2, 5, 7) or 0x1000 <= t < 0x1006]
        outs = il.split(" ")[1:]
        mouts = mres.split(" ")[1:]
        for m, o, mo in zip(f[4:], outs, mouts):
            pos = int(m.split(":")[0])
            tpos = pos - (L - 512)
            protected = pos < bundle or any(a <= pos < b for a, b in prot) or \
                (0 <= tpos < 512 and not (R_SIGLEN[0] <= tpos < R_SIGLEN[1]) and not any(a <= tpos < b for a, b in BLANK))
            if protected and o == "pass":
                return ("Relic.Props.C02.dmg_tamper_evident", "fail",
                        "byte %d lies in the protected set (image part / trailer fields / code directory / hashed items) yet the verifier "
                        "accepted the mutant" % pos)
            if o.startswith("panic") and o != mo:
                return ("Relic.Props.C02 (dmg verify)", "fail", "verifier panicked on mutated file: " + o)
    return None


def matches_known(k, op, il, mres, tag):
    ident = k.get("identity", {})
    site = ident.get("site", "")
    if not site:
        return False
    f = op.split()
    kind = f[1]
    mres = _strip_strat(mres)
    # panics the model predicts at the same site: dmg.Open (negative SignatureLength reaches make) and the code-directory parser
    if il.startswith("panic") and mres.startswith("panic"):
        if il != mres:
            return False
        got = il.split(" ")[1]
        s, _, kd = got.rpartition(":")
        kinds = ident.get("kinds")
        return s == site and (not kinds or kd in kinds)
    if site == "dmg.Sign:layout-unchecked":
        # success although a fork described by the trailer lies (partly) behind XMLOffset+XMLLength (it is overwritten),
        # or although there is no koly trailer at all
        if kind != "sign" or not il.startswith("ok ") or f[3] != "=":
            return False
        ki = Koly(_b(f[2]))
        if not ki.ok:
            return True
        b = ki.xo + ki.xl
        return ki.well_formed() and any(o + l > b for _, o, l in ki.forks())
    return False

/-
  C03 — CAB: the reserve sizes a standard reader uses to walk the folder headers and the CFDATA blocks.

  `Digest` writes the CFRESERVE header of the output from scratch: cbCFHeader = 20, cbCFFolder = 0, cbCFData = 0.  That is only
  right because a cabinet announcing a per-folder or per-datablock reserve is refused beforehand: the CFDATA blocks are copied
  as they are, reserve bytes included, and a reader strides over them with the cbCFData of the header.  The check walks the
  blocks of the real output independently (checklib/models/cab.py `walk`) and reports under `cab_payload_preserved`.
-/
import Relic.Proofs.CabSign
import Relic.Props.C03_Cab
namespace Relic.Props.C03
open Relic Relic.Cab
open Relic.PE (seg u16 u32 ceil8)

/-- **cab_reserve_sizes_refused.**  A cabinet with the reserve flag whose CFRESERVE announces a per-folder or a
    per-datablock reserve is refused ("unknown reserved data"): nothing is written. -/
theorem cab_reserve_sizes_refused (f : Bytes) (h40 : 40 ≤ f.length) (hm : u32 f 0 = 0x4643534d)
    (hflag : u16 f 30 / 4 % 2 = 1) (hres : u8 f 38 ≠ 0 ∨ u8 f 39 ≠ 0) : DigestCab f = .err "reserved" := by
  unfold DigestCab
  rw [if_neg (by omega), if_neg (by simp [hm])]
  simp only [hflag, if_true]
  have : readReserve f (u32 f 8) = .err "reserved" := by
    unfold readReserve
    rw [if_neg (by omega)]
    simp only
    rw [if_pos (by rcases hres with h | h <;> simp [h])]
  rw [this]

/-- **cab_block_stride_preserved.**  For every cabinet the digester accepts, the reserve sizes in the header it writes
    (bytes 38 and 39 of `Patched`: cbCFFolder, cbCFData = 0) are the ones of the input: zero when the input has a
    CFRESERVE header, absent (= zero) when it has none.  So a reader walks the folder headers and the data blocks of the
    signed file with the strides of the input. -/
theorem cab_block_stride_preserved (f : Bytes) (d : Digest) (e : DigestCab f = .ok d) :
    d.hdr.fsz = [0] ∧ d.hdr.dsz = [0] ∧ (u16 f 30 / 4 % 2 = 1 → u8 f 38 = 0 ∧ u8 f 39 = 0) := by
  have H := DigestCab_spec f d e
  have hm := H.magic
  have h36 := H.len
  have hf : d.hdr.fsz = [0] := by have := congrArg Hdr60.fsz H.hdr; simpa [outHdr] using this
  have hd : d.hdr.dsz = [0] := by have := congrArg Hdr60.dsz H.hdr; simpa [outHdr] using this
  refine ⟨hf, hd, ?_⟩
  intro hflag
  by_cases h40 : 40 ≤ f.length
  · by_cases hres : u8 f 38 ≠ 0 ∨ u8 f 39 ≠ 0
    · rw [cab_reserve_sizes_refused f h40 hm hflag hres] at e; cases e
    · constructor
      · by_cases h : u8 f 38 = 0
        · exact h
        · exact absurd (Or.inl h) hres
      · by_cases h : u8 f 39 = 0
        · exact h
        · exact absurd (Or.inr h) hres
  · unfold DigestCab at e
    rw [if_neg (by omega), if_neg (by simp [hm])] at e
    simp only [hflag, if_true] at e
    have : readReserve f (u32 f 8) = .err "eof" := by
      unfold readReserve; rw [if_pos (by omega)]
    rw [this] at e; cases e

/-- non-vacuous: the minimal cabinet of C08 is accepted; a 40-byte header with cbCFData = 4 is refused -/
example : C08.cabOk C08.minimalCab = true := by decide

example : DigestCab ([0x4d, 0x53, 0x43, 0x46] ++ List.replicate 26 0 ++ [4, 0] ++ List.replicate 4 0 ++ [32, 0, 0, 4]) = .err "reserved" := by
  decide

end Relic.Props.C03

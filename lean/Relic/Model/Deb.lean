/-
  Relic.Model.Deb — executable model of /repo/lib/signdeb/debsign.go (`Sign`), lib/signdeb/verify.go (`Verify`,
  `checkSig`) and of the `ar` reader/writer (github.com/blakesmith/ar) as that code uses it.

  What the `ar` reader does (and does not do):
    * `NewReader` discards 8 bytes; the global header `!<arch>\n` is never compared with anything.
    * `readHeader` reads 60 bytes: 0 bytes left = clean end, 1..59 = `io.ErrUnexpectedEOF`.
      Name(16) ModTime(12) Uid(6) Gid(6) Mode(8) Size(10) magic(2); the magic is not looked at.
    * `string`/`numeric`: trailing spaces stripped but the first byte always stays; `strconv.ParseInt` errors are
      ignored (value 0), a sign is accepted, so the size may be negative.
    * `octal` slices `b[3:i+1]`: a mode field with fewer than three significant bytes **panics**.
    * `Read` slices `b[0:rd.nb]`: reading a member whose size is negative **panics**.
    * `skipUnread` + a short archive: `io.CopyN` reports `io.EOF`, which both callers take for the clean end of the
      archive; a truncated last member (or a missing padding byte) is therefore accepted silently.
  PGP is a parameter: `cs` maps the message to the clear-signed document, `pgp` maps a signature member's body to
  the canonical signed text (`clearsign.Block.Bytes`) when the signature verifies.  MD5 / SHA-1 are the parameters
  `H1`, `H2` (hex output); the driver prints the streams fed to them.  `ctl ext body` says whether `parseControl`
  accepts a control member (gzip/xz/tar parsing is outside the model).
-/
import Relic.Base.Bytes
import Relic.Model.Binpatch
namespace Relic.Deb
open Relic

/-! ### byte-string helpers -/

def dropTrail (p : UInt8 → Bool) (b : Bytes) : Bytes := (b.reverse.dropWhile p).reverse

/-- `i := len(b)-1; for i > 0 && b[i] == 32 { i-- }; b[0:i+1]` -/
def rtrim : Bytes → Bytes
  | [] => []
  | x :: xs => x :: dropTrail (· == 32) xs

def isDigit (c : UInt8) : Bool := 48 ≤ c && c ≤ 57
def allDigits (b : Bytes) : Bool := !b.isEmpty && b.all isDigit
def decVal (b : Bytes) : Nat := b.foldl (fun a c => a * 10 + (c.toNat - 48)) 0

/-- `n, _ := strconv.ParseInt(s, 10, 64)` for `s` of at most 12 bytes (no range error possible) -/
def parseInt (s : Bytes) : Int :=
  match s with
  | [] => 0
  | c :: t =>
    if c = 43 then (if allDigits t then (decVal t : Int) else 0)
    else if c = 45 then (if allDigits t then -(decVal t : Int) else 0)
    else if allDigits s then (decVal s : Int) else 0

def decNat (n : Nat) : Bytes := (Nat.toDigits 10 n).map fun c => UInt8.ofNat c.toNat
/-- `%d` -/
def decInt (i : Int) : Bytes := if i < 0 then 45 :: decNat (-i).toNat else decNat i.toNat

def splitOn (sep : UInt8) : Bytes → List Bytes
  | [] => [[]]
  | c :: cs =>
    if c = sep then [] :: splitOn sep cs
    else match splitOn sep cs with
      | [] => [[c]]
      | h :: t => (c :: h) :: t

def isPrefix : Bytes → Bytes → Bool
  | [], _ => true
  | _ :: _, [] => false
  | a :: as, b :: bs => a == b && isPrefix as bs

/-! ### `path.Clean` -/

def cleanStep (rooted : Bool) (stack : List Bytes) (comp : Bytes) : List Bytes :=
  if comp = [] ∨ comp = [46] then stack
  else if comp = [46, 46] then
    match stack with
    | [] => if rooted then [] else [comp]
    | top :: tl => if top = [46, 46] then comp :: stack else tl
  else comp :: stack

def pathClean (p : Bytes) : Bytes :=
  if p = [] then [46] else
  let rooted := p.head? = some 47
  let st := (splitOn 47 p).foldl (cleanStep rooted) []
  let body := List.intercalate [47] st.reverse
  let out := if rooted then 47 :: body else body
  if out = [] then [46] else out

/-! ### the `ar` reader -/

def gpg : Bytes := [95, 103, 112, 103]                                   -- "_gpg"
def ctlPrefix : Bytes := [99, 111, 110, 116, 114, 111, 108, 46, 116, 97, 114]  -- "control.tar"

structure Entry where
  hdr : Bytes      -- the header as found
  name : Bytes     -- `hdr.Name`
  size : Int       -- `hdr.Size`
  body : Bytes     -- what `Read` delivers: `size` bytes, fewer when the archive ends early
  deriving Repr, DecidableEq

inductive Stop where
  | eof | short | octal | fuel
  deriving Repr, DecidableEq

def fld (h : Bytes) (lo n : Nat) : Bytes := (h.drop lo).take n

/-- bytes from one header to the next: header, data, padding byte for odd sizes; a negative size skips nothing
    (`io.CopyN` with a negative count copies nothing and reports no error) -/
def adv (size : Int) : Nat := if 0 ≤ size then 60 + size.toNat + size.toNat % 2 else 60

def hdrName (h : Bytes) : Bytes := rtrim (fld h 0 16)
def hdrSize (h : Bytes) : Int := parseInt (rtrim (fld h 48 10))
/-- `rd.octal(s.next(8))` panics -/
def octalPanics (h : Bytes) : Bool := (rtrim (fld h 40 8)).length < 3

/-- the sequence of headers `Next` returns when every member is either read to its end or skipped.
    The header of an entry lies at offset 8 + the sum of `adv` over the entries before it (`counter.N - 60`). -/
def parse : Nat → Bytes → List Entry × Stop
  | 0, _ => ([], .fuel)
  | n + 1, rest =>
    if rest.length = 0 then ([], .eof)
    else if rest.length < 60 then ([], .short)
    else if octalPanics rest then ([], .octal)
    else
      let size := hdrSize rest
      let r := parse n (rest.drop (adv size))
      (⟨rest.take 60, hdrName rest, size, (rest.drop 60).take size.toNat⟩ :: r.1, r.2)

def entries (f : Bytes) : List Entry × Stop := parse (f.length + 1) (f.drop 8)

/-! ### the `ar` writer, as `Sign` uses it -/

/-- `aw.string` / `aw.numeric`: pad with spaces to the field width, `copy` truncates -/
def padTo (w : Nat) (s : Bytes) : Bytes := (s ++ List.replicate (w - s.length) 32).take w

/-- `WriteHeader(&ar.Header{Name, Size, ModTime, Mode: 0100644})`; `mt` = decimal Unix time.
    The mode field is "100" ++ octal(0100644) = "100100644" cut to 8 bytes. -/
def arHeader (name mt : Bytes) (size : Nat) : Bytes :=
  padTo 16 name ++ padTo 12 mt ++ padTo 6 [48] ++ padTo 6 [48] ++ [49, 48, 48, 49, 48, 48, 54, 52] ++
    padTo 10 (decNat size) ++ [96, 10]

def padByte (n : Nat) : Bytes := if n % 2 = 1 then [10] else []

def member (name mt body : Bytes) : Bytes := arHeader name mt body.length ++ body ++ padByte body.length

/-! ### `Sign` -/

def isGpgName (n : Bytes) : Bool := isPrefix gpg n
def isCtlName (n : Bytes) : Bool := isPrefix ctlPrefix n

structure Line where
  name : Bytes
  size : Int
  body : Bytes
  deriving Repr, DecidableEq

/-- pieces of the message: literal bytes, or the hex digest of a stream -/
inductive Seg where
  | lit (b : Bytes)
  | md5 (b : Bytes)
  | sha1 (b : Bytes)
  deriving Repr, DecidableEq

def render (H1 H2 : Bytes → Bytes) : List Seg → Bytes
  | [] => []
  | .lit b :: r => b ++ render H1 H2 r
  | .md5 b :: r => H1 b ++ render H1 H2 r
  | .sha1 b :: r => H2 b ++ render H1 H2 r

/-- `fmt.Fprintf(msg, "\t%x %x %d %s\n", md5, sha1, hdr.Size, hdr.Name)` -/
def lineSegs (l : Line) : List Seg :=
  [.lit [9], .md5 l.body, .lit [32], .sha1 l.body, .lit ([32] ++ decInt l.size ++ [32] ++ l.name ++ [10])]

def msgHead (signer date role : Bytes) : Bytes :=
  [86, 101, 114, 115, 105, 111, 110, 58, 32, 52, 10] ++            -- "Version: 4\n"
  [83, 105, 103, 110, 101, 114, 58, 32] ++ signer ++ [10] ++      -- "Signer: "
  [68, 97, 116, 101, 58, 32] ++ date ++ [10] ++                   -- "Date: "
  [82, 111, 108, 101, 58, 32] ++ role ++ [10] ++                  -- "Role: "
  [70, 105, 108, 101, 115, 58, 32, 10]                            -- "Files: \n"

def msgSegs (signer date role : Bytes) (ls : List Line) : List Seg :=
  .lit (msgHead signer date role) :: ls.flatMap lineSegs ++ [.lit [10]]

def message (H1 H2 : Bytes → Bytes) (signer date role : Bytes) (ls : List Line) : Bytes :=
  render H1 H2 (msgSegs signer date role ls)

/-- the members that are digested: every one whose cleaned name does not start with `_gpg` -/
def linesOf (es : List Entry) : List Line :=
  (es.filter fun e => !isGpgName (pathClean e.name)).map fun e => ⟨e.name, e.size, e.body⟩

/-- `patchLength = int64(60 + ((hdr.Size+1)/2)*2)` (Go division truncates towards zero) -/
def slotLen (size : Int) : Int := 60 + Int.tdiv (size + 1) 2 * 2

/-- the last member whose cleaned name is `_gpg<role>`: (patchOffset, patchLength); `pos` = offset of the first header -/
def sigSlot (role : Bytes) : Nat → List Entry → Option (Nat × Int)
  | _, [] => none
  | pos, e :: es =>
    match sigSlot role (pos + adv e.size) es with
    | some s => some s
    | none => if pathClean e.name = gpg ++ role then some (pos, slotLen e.size) else none

inductive SFail where
  | read      -- `Read` of a member with a negative size panics
  | control   -- `parseControl` refuses a control member
  deriving Repr, DecidableEq

/-- first member on which the loop body fails -/
def signFail (ctl : Bytes → Bytes → Bool) : List Entry → Option SFail
  | [] => none
  | e :: es =>
    let cn := pathClean e.name
    if isGpgName cn then signFail ctl es
    else if e.size < 0 then some .read
    else if isCtlName cn ∧ ctl (cn.drop 11) e.body = false then some .control
    else signFail ctl es

def hasCtl (es : List Entry) : Bool :=
  es.any fun e => !isGpgName (pathClean e.name) && isCtlName (pathClean e.name)

structure SignOut where
  off : Nat          -- patchOffset
  old : Nat          -- patchLength (as a `uint32` when negative)
  msg : List Seg     -- the message handed to the clear-signer
  blob : Bytes       -- the new member
  deriving Repr, DecidableEq

def signOf (H1 H2 : Bytes → Bytes) (cs : Bytes → Bytes) (mt signer date : Bytes) (role : Bytes) (flen : Nat)
    (es : List Entry) : SignOut :=
  let segs := msgSegs signer date role (linesOf es)
  let S := cs (render H1 H2 segs)
  let slot := match sigSlot role 8 es with
    | some (o, l) => (if o = 0 then flen else o, l)      -- `if patchOffset == 0 { patchOffset = counter.N }`
    | none => (flen, 0)
  -- `binpatch.Add(patchOffset, patchLength, …)`: a negative length ends up in a `uint32`
  ⟨slot.1, if 0 ≤ slot.2 then slot.2.toNat else (slot.2 % 4294967296).toNat, segs, member (gpg ++ role) mt S⟩

/-- `signdeb.Sign` -/
def sign (H1 H2 : Bytes → Bytes) (cs : Bytes → Bytes) (ctl : Bytes → Bytes → Bool) (mt signer date role : Bytes) (f : Bytes) :
    Res SignOut :=
  let p := entries f
  match signFail ctl p.1 with
  | some .read => .panic "ar.Read"
  | some .control => .err "control"
  | none =>
    match p.2 with
    | .short => .err "unexpectedeof"
    | .octal => .panic "ar.octal"
    | .fuel => .diverge
    | .eof =>
      if hasCtl p.1 then .ok (signOf H1 H2 cs mt signer date role f.length p.1)
      else .err "nocontrol"

/-- patch application (`binpatch.Apply` through the C12 model) -/
def applyPatch (f : Bytes) (o : SignOut) : Res Bytes :=
  Binpatch.applyRewrite f (Binpatch.build 4294967295 [⟨o.off, o.old, o.blob⟩])

/-! ### `Verify` -/

/-- Go map update: later entries for the same key win -/
def lookup (k : Bytes) : List (Bytes × Bytes) → Option Bytes
  | [] => none
  | (k', v) :: r => match lookup k r with
    | some v' => some v'
    | none => if k' = k then some v else none

def digestOf (H1 H2 : Bytes → Bytes) (b : Bytes) : Bytes := H1 b ++ [32] ++ H2 b

/-- `digests[hdr.Name]`, in archive order -/
def digestsOf (H1 H2 : Bytes → Bytes) (es : List Entry) : List (Bytes × Bytes) :=
  (es.filter fun e => !isGpgName e.name).map fun e => (e.name, digestOf H1 H2 e.body)

/-- `sigs[hdr.Name[4:]]`, in archive order -/
def sigsOf (es : List Entry) : List (Bytes × Bytes) :=
  (es.filter fun e => isGpgName e.name).map fun e => (e.name.drop 4, e.body)

def dropCR (l : Bytes) : Bytes := if l.getLast? = some 13 then l.dropLast else l

/-- `bufio.Scanner` with `ScanLines` -/
def scanLines (t : Bytes) : List Bytes :=
  let parts := splitOn 10 t
  (if parts.getLast? = some [] then parts.dropLast else parts).map dropCR

/-- `strings.SplitN(s, " ", n)` for `n ≥ 1` -/
def splitN : Nat → Bytes → List Bytes
  | 0, _ => []
  | 1, s => [s]
  | n + 2, s =>
    match s.span (· != 32) with
    | (a, []) => [a]
    | (a, _ :: rest) => a :: splitN (n + 1) rest

def filesLit : Bytes := [70, 105, 108, 101, 115, 58]  -- "Files:"

/-- the digest loop of `checkSig`; returns the names checked -/
def checkLines (digests : List (Bytes × Bytes)) : List Bytes → List Bytes → Res (List Bytes)
  | [], checked => .ok checked
  | line :: rest, checked =>
    if line = [] then .ok checked
    else if line.head? ≠ some 9 ∨ line.length < 76 then .err "malformed"
    else
      match splitN 4 (line.drop 1) with
      | [p0, p1, _, name] =>
        match lookup name digests with
        | none => .err "unknownfile"
        | some cal =>
          if cal = [] then .err "unknownfile"
          else if cal ≠ p0 ++ [32] ++ p1 then .err "mismatch"
          else checkLines digests rest (name :: checked)
      | _ => .panic "checkSig.parts"

/-- `checkSig(role, body, digests)` -/
def checkSig (text : Bytes) (digests : List (Bytes × Bytes)) : Res Unit :=
  let lines := scanLines text
  match lines.dropWhile (· ≠ filesLit) with
  | [] => .err "malformed"
  | _ :: rest =>
    match checkLines digests rest [] with
    | .ok checked =>
      if digests.all fun d => checked.contains d.1 then .ok () else .err "notcovered"
    | .err e => .err e
    | .panic s => .panic s
    | .diverge => .diverge

/-- first member whose `Read` panics (every member is read) -/
def verifyFail : List Entry → Bool
  | [] => false
  | e :: es => e.size < 0 || verifyFail es

/-- roles in first-appearance order, without repetition -/
def rolesOf (sigs : List (Bytes × Bytes)) : List Bytes := (sigs.map (·.1)).eraseDups

/-- outcome for one role: the signature member that the map holds for it is the last one -/
def checkRole (pgp : Bytes → Option Bytes) (digests sigs : List (Bytes × Bytes)) (role : Bytes) : Res Unit :=
  match lookup role sigs with
  | none => .err "internal"
  | some body =>
    match pgp body with
    | none => .err "pgp"
    | some text => checkSig text digests

/-- no two digested members share a name (fix-dupname: checked after the walk) -/
def distinctNames (es : List Entry) : Bool :=
  let ns := (es.filter fun e => !isGpgName e.name).map (·.name)
  ns.eraseDups.length == ns.length

/-- `signdeb.Verify(r, keyring, false)`: per role outcomes, in first-appearance order of the roles.
    Go iterates the `sigs` map in random order and returns at the first failure. -/
def verify (H1 H2 : Bytes → Bytes) (pgp : Bytes → Option Bytes) (f : Bytes) : Res (List (Bytes × Res Unit)) :=
  let p := entries f
  -- a negative size panics in `Read` before the walk gets any further; the stop reasons come after all entries
  if verifyFail p.1 then .panic "ar.Read"
  else match p.2 with
    | .short => .err "unexpectedeof"
    | .octal => .panic "ar.octal"
    | .fuel => .diverge
    | .eof =>
      if !distinctNames p.1 then .err "duplicate" else
      let digests := digestsOf H1 H2 p.1
      let sigs := sigsOf p.1
      .ok ((rolesOf sigs).map fun r => (r, checkRole pgp digests sigs r))

/-- all roles verified -/
def verifyOk (H1 H2 : Bytes → Bytes) (pgp : Bytes → Option Bytes) (f : Bytes) : Bool :=
  match verify H1 H2 pgp f with
  | .ok rs => rs.all fun r => r.2 == .ok ()
  | _ => false

/-! ### the clear-sign round trip (`clearsign.Encode` then `clearsign.Decode`, `Block.Bytes`) -/

def crlf : Bytes := [13, 10]

/-- the encoder drops every run of space, tab and `\r` that ends a line (from the text it writes out as well as from
    the hash); `Decode` then finds nothing more to trim.  Dash escaping is undone by `Decode`. -/
def canonLine (l : Bytes) : Bytes := dropTrail (fun c => c == 32 || c == 9 || c == 13) l

/-- for a message ending in `\n` -/
def canonText (m : Bytes) : Bytes :=
  List.intercalate crlf ((splitOn 10 m).dropLast.map canonLine)

/-! ### the inputs for which sign-then-verify is claimed -/

def advSum : List Entry → Nat
  | [] => 0
  | e :: es => adv e.size + advSum es

/-- every member is complete, padding byte included, and the walk ends exactly at the end of the file -/
def tightB (f : Bytes) : Bool :=
  let p := entries f
  p.2 == .eof && p.1.all (fun e => decide (0 ≤ e.size)) && 8 + advSum p.1 == f.length

/-- the name written for the role is read back unchanged by the reader and by `path.Clean` -/
def roleRegular (role : Bytes) : Bool :=
  rtrim (padTo 16 (gpg ++ role)) == gpg ++ role && pathClean (gpg ++ role) == gpg ++ role &&
    !(role.any fun c => c == 10 || c == 13)

/-- a member name that survives the message's text form: no line break inside, no white space at its end, and
    `Sign` (cleaned name) and `Verify` (raw name) agree on whether it is a signature member -/
def plainName (n : Bytes) : Bool :=
  !(n.any fun c => c == 10 || c == 13) && n.getLast? != some 32 && n.getLast? != some 9 &&
    isGpgName n == isGpgName (pathClean n)


end Relic.Deb

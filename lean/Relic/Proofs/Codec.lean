/- big/little-endian codec lemmas -/
import Relic.Base.Bytes
namespace Relic

@[simp] theorem beBytes_length (w n : Nat) : (beBytes w n).length = w := by
  induction w with
  | zero => rfl
  | succ w ih => simp [beBytes, ih]

theorem beVal_beBytes (w n : Nat) : beVal (beBytes w n) = n % 256 ^ w := by
  induction w with
  | zero => simp [beBytes, beVal, Nat.mod_one]
  | succ w ih =>
    simp only [beBytes, beVal, beBytes_length, ih]
    have : (UInt8.ofNat (n / 256 ^ w % 256)).toNat = n / 256 ^ w % 256 := by
      simp [UInt8.toNat_ofNat']
    rw [this, Nat.pow_succ, Nat.mod_mul, Nat.mul_comm]; omega

theorem beVal_beBytes_of_lt (w n : Nat) (h : n < 256 ^ w) : beVal (beBytes w n) = n := by
  rw [beVal_beBytes, Nat.mod_eq_of_lt h]

@[simp] theorem leBytes_length (w n : Nat) : (leBytes w n).length = w := by
  induction w generalizing n with
  | zero => rfl
  | succ w ih => simp [leBytes, ih]

theorem leVal_leBytes (w n : Nat) : leVal (leBytes w n) = n % 256 ^ w := by
  induction w generalizing n with
  | zero => simp [leBytes, leVal, Nat.mod_one]
  | succ w ih =>
    simp only [leBytes, leVal, ih]
    have : (UInt8.ofNat (n % 256)).toNat = n % 256 := by
      simp [UInt8.toNat_ofNat']
    rw [this, Nat.pow_succ, Nat.mul_comm (256 ^ w) 256, Nat.mod_mul]

theorem leVal_leBytes_of_lt (w n : Nat) (h : n < 256 ^ w) : leVal (leBytes w n) = n := by
  rw [leVal_leBytes, Nat.mod_eq_of_lt h]

end Relic

/-
  Relic.Proofs.DebText — the text layer of the DEB sign-then-verify round trip: `checkSig` run on the canonical form
  (`canonText`) of the message `Sign` builds accepts the table of digests of the signed lines.
-/
import Relic.Model.Deb
import Relic.Proofs.Deb
namespace Relic.Deb
open Relic

/-! ### `splitOn` -/

theorem splitOn_ne_nil (sep : UInt8) (b : Bytes) : splitOn sep b ≠ [] := by
  induction b with
  | nil => simp [splitOn]
  | cons c cs ih =>
    rw [splitOn]
    split
    · simp
    · split <;> simp

theorem splitOn_nosep (sep : UInt8) (a : Bytes) (h : ∀ c ∈ a, c ≠ sep) : splitOn sep a = [a] := by
  induction a with
  | nil => rfl
  | cons c a ih =>
    have hc : c ≠ sep := h c (by simp)
    rw [splitOn, if_neg hc, ih (fun d hd => h d (by simp [hd]))]

theorem splitOn_append (sep : UInt8) (a rest : Bytes) (h : ∀ c ∈ a, c ≠ sep) :
    splitOn sep (a ++ sep :: rest) = a :: splitOn sep rest := by
  induction a with
  | nil => simp [splitOn]
  | cons c a ih =>
    have hc : c ≠ sep := h c (by simp)
    rw [List.cons_append, splitOn, if_neg hc, ih (fun d hd => h d (by simp [hd]))]

/-- lines, each closed by `sep` -/
def unlines (sep : UInt8) (L : List Bytes) : Bytes := L.flatMap (· ++ [sep])

theorem splitOn_unlines (sep : UInt8) (L : List Bytes) (r : Bytes) (h : ∀ l ∈ L, ∀ c ∈ l, c ≠ sep) :
    splitOn sep (unlines sep L ++ r) = L ++ splitOn sep r := by
  induction L with
  | nil => simp [unlines]
  | cons l L ih =>
    have : unlines sep (l :: L) ++ r = l ++ sep :: (unlines sep L ++ r) := by simp [unlines]
    rw [this, splitOn_append sep l _ (h l (by simp)), ih (fun x hx => h x (by simp [hx]))]
    rfl

/-! ### `dropTrail`, `canonLine`, `dropCR` -/

theorem dropTrail_prefix (p : UInt8 → Bool) (l : Bytes) : ∃ r, l = dropTrail p l ++ r := by
  refine ⟨(l.reverse.takeWhile p).reverse, ?_⟩
  unfold dropTrail
  rw [← List.reverse_append, List.takeWhile_append_dropWhile, List.reverse_reverse]

theorem dropTrail_mem (p : UInt8 → Bool) (l : Bytes) (c : UInt8) (h : c ∈ dropTrail p l) : c ∈ l := by
  obtain ⟨r, hr⟩ := dropTrail_prefix p l
  rw [hr]; simp [h]

theorem dropTrail_keep (p : UInt8 → Bool) (a : Bytes) (c : UInt8) (h : p c = false) :
    dropTrail p (a ++ [c]) = a ++ [c] := by
  unfold dropTrail
  rw [List.reverse_append]
  simp [h]

theorem dropCR_snoc (l : Bytes) : dropCR (l ++ [13]) = l := by
  simp [dropCR]

/-! ### `scanLines` of a CRLF-joined text -/

theorem intercalate_snoc_nil (sep : Bytes) (K : List Bytes) :
    List.intercalate sep (K ++ [[]]) = K.flatMap (· ++ sep) := by
  induction K with
  | nil => simp
  | cons a K ih =>
    rw [List.cons_append, List.intercalate_cons_of_ne_nil (by simp), ih]
    simp

theorem flatMap_crlf (K : List Bytes) : K.flatMap (· ++ crlf) = unlines 10 (K.map (· ++ [13])) := by
  induction K with
  | nil => rfl
  | cons a K ih =>
    simp only [unlines, crlf] at ih
    simp [unlines, crlf, ih]

theorem scanLines_crlf (K : List Bytes) (h : ∀ l ∈ K, ∀ c ∈ l, c ≠ 10) :
    scanLines (List.intercalate crlf (K ++ [[]])) = K := by
  have hs : splitOn 10 (List.intercalate crlf (K ++ [[]])) = K.map (· ++ [13]) ++ [[]] := by
    rw [intercalate_snoc_nil, flatMap_crlf]
    have := splitOn_unlines 10 (K.map (· ++ [13])) [] (by
      intro l hl c hc
      simp only [List.mem_map] at hl
      obtain ⟨l', hl', rfl⟩ := hl
      simp only [List.mem_append, List.mem_singleton] at hc
      rcases hc with hc | hc
      · exact h l' hl' c hc
      · subst hc; decide)
    simpa [splitOn] using this
  unfold scanLines
  simp only [hs]
  simp [List.map_map, Function.comp_def, dropCR_snoc]

/-! ### the message as a list of lines -/

theorem render_append (H1 H2 : Bytes → Bytes) (a b : List Seg) : render H1 H2 (a ++ b) = render H1 H2 a ++ render H1 H2 b := by
  induction a with
  | nil => rfl
  | cons s a ih => cases s <;> simp [render, ih]

/-- `\t%x %x %d %s` -/
def fileLine (H1 H2 : Bytes → Bytes) (l : Line) : Bytes :=
  9 :: (H1 l.body ++ 32 :: (H2 l.body ++ 32 :: (decInt l.size ++ 32 :: l.name)))

def headLines (signer date role : Bytes) : List Bytes :=
  [[86, 101, 114, 115, 105, 111, 110, 58, 32, 52],
   83 :: 105 :: 103 :: 110 :: 101 :: 114 :: 58 :: 32 :: signer,
   68 :: 97 :: 116 :: 101 :: 58 :: 32 :: date,
   82 :: 111 :: 108 :: 101 :: 58 :: 32 :: role,
   [70, 105, 108, 101, 115, 58, 32]]

theorem render_lines (H1 H2 : Bytes → Bytes) (ls : List Line) :
    render H1 H2 (ls.flatMap lineSegs) = unlines 10 (ls.map (fileLine H1 H2)) := by
  induction ls with
  | nil => rfl
  | cons l ls ih =>
    simp only [unlines] at ih
    simp [lineSegs, render, ih, unlines, fileLine]

theorem message_eq (H1 H2 : Bytes → Bytes) (signer date role : Bytes) (ls : List Line) :
    message H1 H2 signer date role ls =
      unlines 10 (headLines signer date role ++ ls.map (fileLine H1 H2) ++ [[]]) := by
  unfold message msgSegs
  have h1 : ∀ (b : Bytes) (r : List Seg), render H1 H2 (.lit b :: r) = b ++ render H1 H2 r := fun _ _ => rfl
  rw [List.cons_append, h1, render_append, render_lines]
  simp [render, unlines, msgHead, headLines]

/-! ### decimal numbers contain neither a space nor a line feed -/

theorem digit_byte (d : Nat) (h : d < 10) :
    UInt8.ofNat (Nat.digitChar d).toNat ≠ 32 ∧ UInt8.ofNat (Nat.digitChar d).toNat ≠ 10 := by
  have : d = 0 ∨ d = 1 ∨ d = 2 ∨ d = 3 ∨ d = 4 ∨ d = 5 ∨ d = 6 ∨ d = 7 ∨ d = 8 ∨ d = 9 := by omega
  rcases this with h | h | h | h | h | h | h | h | h | h <;> subst h <;> decide

theorem decNat_bytes (n : Nat) : ∀ c ∈ decNat n, c ≠ 32 ∧ c ≠ 10 := by
  induction n using Nat.strongRecOn with
  | _ n ih =>
    intro c hc
    unfold decNat at hc
    rw [Nat.toDigits_eq_if (by decide)] at hc
    split at hc
    · rename_i h
      simp only [List.map_cons, List.map_nil, List.mem_singleton] at hc
      subst hc
      exact digit_byte n h
    · rename_i h
      simp only [List.map_append, List.map_cons, List.map_nil, List.mem_append, List.mem_singleton] at hc
      rcases hc with hc | hc
      · exact ih (n / 10) (by omega) c hc
      · subst hc
        exact digit_byte (n % 10) (by omega)

theorem decInt_bytes (i : Int) : ∀ c ∈ decInt i, c ≠ 32 ∧ c ≠ 10 := by
  intro c hc
  unfold decInt at hc
  split at hc
  · simp only [List.mem_cons] at hc
    rcases hc with hc | hc
    · subst hc; decide
    · exact decNat_bytes _ c hc
  · exact decNat_bytes _ c hc

/-! ### `splitN` -/

theorem span_loop_space (a r : Bytes) (h : ∀ c ∈ a, c ≠ 32) (acc : Bytes) :
    List.span.loop (· != 32) (a ++ 32 :: r) acc = (acc.reverse ++ a, 32 :: r) := by
  induction a generalizing acc with
  | nil => simp [List.span.loop]
  | cons c a ih =>
    have hc : c ≠ 32 := h c (by simp)
    have hc' : (c != 32) = true := by simpa using hc
    rw [List.cons_append, List.span.loop, hc']
    simp only
    rw [ih (fun d hd => h d (by simp [hd]))]
    simp

theorem span_space (a r : Bytes) (h : ∀ c ∈ a, c ≠ 32) : (a ++ 32 :: r).span (· != 32) = (a, 32 :: r) := by
  unfold List.span
  rw [span_loop_space a r h]
  rfl

theorem splitN_cut (n : Nat) (a r : Bytes) (h : ∀ c ∈ a, c ≠ 32) :
    splitN (n + 2) (a ++ 32 :: r) = a :: splitN (n + 1) r := by
  rw [splitN, span_space a r h]

theorem splitN_four (a b c d : Bytes) (ha : ∀ x ∈ a, x ≠ 32) (hb : ∀ x ∈ b, x ≠ 32) (hc : ∀ x ∈ c, x ≠ 32) :
    splitN 4 (a ++ 32 :: (b ++ 32 :: (c ++ 32 :: d))) = [a, b, c, d] := by
  rw [splitN_cut 2 a _ ha, splitN_cut 1 b _ hb, splitN_cut 0 c _ hc]
  rfl

/-! ### `lookup` with distinct keys -/

theorem lookup_absent (k : Bytes) (l : List (Bytes × Bytes)) (h : ∀ p ∈ l, p.1 ≠ k) : lookup k l = none := by
  induction l with
  | nil => rfl
  | cons p l ih =>
    obtain ⟨k', v⟩ := p
    simp only [lookup, ih (fun q hq => h q (by simp [hq]))]
    have : k' ≠ k := h (k', v) (by simp)
    simp [this]

theorem lookup_distinct (l : List (Bytes × Bytes)) (hd : (l.map (·.1)).Pairwise (· ≠ ·)) :
    ∀ p ∈ l, lookup p.1 l = some p.2 := by
  induction l with
  | nil => intro p hp; simp at hp
  | cons q l ih =>
    obtain ⟨k, v⟩ := q
    simp only [List.map_cons, List.pairwise_cons] at hd
    intro p hp
    simp only [List.mem_cons] at hp
    rcases hp with rfl | hp
    · have : lookup k l = none := by
        apply lookup_absent
        intro q hq
        exact fun e => hd.1 q.1 (List.mem_map_of_mem hq) e.symm
      simp [lookup, this]
    · simp [lookup, ih hd.2 p hp]

/-! ### the digest loop on the signed lines -/

theorem fileLine_length (H1 H2 : Bytes → Bytes) (l : Line) (h1 : (H1 l.body).length = 32) (h2 : (H2 l.body).length = 40) :
    76 ≤ (fileLine H1 H2 l).length := by
  simp only [fileLine, List.length_cons, List.length_append, h1, h2]
  omega

theorem digestOf_ne_nil (H1 H2 : Bytes → Bytes) (b : Bytes) : digestOf H1 H2 b ≠ [] := by
  simp [digestOf]

theorem checkLines_files (H1 H2 : Bytes → Bytes) (digests : List (Bytes × Bytes)) (ls : List Line)
    (hH : ∀ l ∈ ls, (H1 l.body).length = 32 ∧ (H2 l.body).length = 40 ∧ ∀ c ∈ H1 l.body ++ H2 l.body, c ≠ 32)
    (hl : ∀ l ∈ ls, lookup l.name digests = some (digestOf H1 H2 l.body)) :
    ∀ checked, checkLines digests (ls.map (fileLine H1 H2)) checked = .ok ((ls.map (·.name)).reverse ++ checked) := by
  induction ls with
  | nil => intro checked; rfl
  | cons l ls ih =>
    intro checked
    obtain ⟨h1, h2, h3⟩ := hH l (by simp)
    have hlen := fileLine_length H1 H2 l h1 h2
    have hne : fileLine H1 H2 l ≠ [] := by simp [fileLine]
    have hhd : (fileLine H1 H2 l).head? = some 9 := rfl
    have hdrop : (fileLine H1 H2 l).drop 1 = H1 l.body ++ 32 :: (H2 l.body ++ 32 :: (decInt l.size ++ 32 :: l.name)) := rfl
    have hsp := splitN_four (H1 l.body) (H2 l.body) (decInt l.size) l.name
      (fun x hx => h3 x (by simp [hx])) (fun x hx => h3 x (by simp [hx])) (fun x hx => (decInt_bytes l.size x hx).1)
    have hcond : ¬ ((fileLine H1 H2 l).head? ≠ some 9 ∨ (fileLine H1 H2 l).length < 76) := by
      rw [hhd]; simp; omega
    rw [List.map_cons, checkLines, if_neg hne, if_neg hcond, hdrop, hsp]
    simp only
    rw [hl l (by simp)]
    simp only
    rw [if_neg (digestOf_ne_nil H1 H2 l.body)]
    have he : ¬ (digestOf H1 H2 l.body ≠ H1 l.body ++ [32] ++ H2 l.body) := by simp [digestOf]
    rw [if_neg he, ih (fun x hx => hH x (by simp [hx])) (fun x hx => hl x (by simp [hx]))]
    simp

/-! ### canonical form of the message -/

theorem dropTrail_keep' (p : UInt8 → Bool) (a b : Bytes) (hb : b ≠ []) (hl : ∀ c, b.getLast? = some c → p c = false) :
    dropTrail p (a ++ b) = a ++ b := by
  have hb' : b = b.dropLast ++ [b.getLast hb] := (List.dropLast_concat_getLast hb).symm
  have hc : p (b.getLast hb) = false := hl _ (List.getLast?_eq_some_getLast hb)
  rw [hb', ← List.append_assoc]
  exact dropTrail_keep p _ _ hc

theorem canonLine_nil : canonLine [] = [] := rfl

theorem canonLine_ne_files (x : UInt8) (l : Bytes) (hx : x ≠ 70) : canonLine (x :: l) ≠ filesLit := by
  intro h
  obtain ⟨r, hr⟩ := dropTrail_prefix (fun c => c == 32 || c == 9 || c == 13) (x :: l)
  unfold canonLine at h
  rw [h] at hr
  simp only [filesLit, List.cons_append, List.cons.injEq] at hr
  exact hx hr.1

theorem canonLine_filesLine : canonLine [70, 105, 108, 101, 115, 58, 32] = filesLit := by decide

theorem canonLine_fileLine (H1 H2 : Bytes → Bytes) (l : Line) (hn : l.name ≠ [])
    (hlast : l.name.getLast? ≠ some 32 ∧ l.name.getLast? ≠ some 9 ∧ l.name.getLast? ≠ some 13) :
    canonLine (fileLine H1 H2 l) = fileLine H1 H2 l := by
  have : fileLine H1 H2 l = (9 :: (H1 l.body ++ 32 :: (H2 l.body ++ 32 :: (decInt l.size ++ [32])))) ++ l.name := by
    simp [fileLine]
  rw [this]
  apply dropTrail_keep' _ _ _ hn
  intro c hc
  rw [hc] at hlast
  simp only [ne_eq, Option.some.injEq] at hlast
  simp [hlast.1, hlast.2.1, hlast.2.2]

/-- the lines `checkSig` reads out of the canonical text: the five head lines (trimmed), then the file lines as written -/
theorem scanLines_canonText (H1 H2 : Bytes → Bytes) (signer date role : Bytes) (ls : List Line)
    (hH : ∀ l ∈ ls, ∀ c ∈ H1 l.body ++ H2 l.body, c ≠ 10)
    (hsd : ∀ c ∈ signer ++ date, c ≠ 10) (hrole : ∀ c ∈ role, c ≠ 10)
    (hname : ∀ l ∈ ls, l.name ≠ [] ∧ (∀ c ∈ l.name, c ≠ 10) ∧
      l.name.getLast? ≠ some 32 ∧ l.name.getLast? ≠ some 9 ∧ l.name.getLast? ≠ some 13) :
    scanLines (canonText (message H1 H2 signer date role ls)) =
      (headLines signer date role).map canonLine ++ ls.map (fileLine H1 H2) := by
  have hno : ∀ l ∈ headLines signer date role ++ ls.map (fileLine H1 H2), ∀ c ∈ l, c ≠ 10 := by
    intro l hl c hc
    simp only [List.mem_append, List.mem_map] at hl
    rcases hl with hl | ⟨x, hx, rfl⟩
    · simp only [headLines, List.mem_cons, List.not_mem_nil, or_false] at hl
      rcases hl with rfl | rfl | rfl | rfl | rfl
      · revert c; decide
      · simp only [List.mem_cons] at hc
        rcases hc with rfl | rfl | rfl | rfl | rfl | rfl | rfl | rfl | hc <;> first | decide | exact hsd c (by simp [hc])
      · simp only [List.mem_cons] at hc
        rcases hc with rfl | rfl | rfl | rfl | rfl | rfl | hc <;> first | decide | exact hsd c (by simp [hc])
      · simp only [List.mem_cons] at hc
        rcases hc with rfl | rfl | rfl | rfl | rfl | rfl | hc <;> first | decide | exact hrole c hc
      · revert c; decide
    · simp only [fileLine, List.mem_cons, List.mem_append] at hc
      rcases hc with rfl | hc | rfl | hc | rfl | hc | rfl | hc
      · decide
      · exact hH x hx c (by simp [hc])
      · decide
      · exact hH x hx c (by simp [hc])
      · decide
      · exact (decInt_bytes _ c hc).2
      · decide
      · exact (hname x hx).2.1 c hc
  have hsplit : (splitOn 10 (message H1 H2 signer date role ls)).dropLast =
      headLines signer date role ++ ls.map (fileLine H1 H2) ++ [[]] := by
    rw [message_eq]
    have := splitOn_unlines 10 (headLines signer date role ++ ls.map (fileLine H1 H2) ++ [[]]) [] (by
      intro l hl c hc
      rw [List.mem_append] at hl
      rcases hl with hl | hl
      · exact hno l hl c hc
      · simp only [List.mem_singleton] at hl
        subst hl
        simp at hc)
    rw [List.append_nil] at this
    rw [this]
    simp [splitOn]
  unfold canonText
  rw [hsplit, List.map_append, List.map_cons, List.map_nil, canonLine_nil, scanLines_crlf]
  · rw [List.map_append, List.map_map]
    congr 1
    apply List.map_congr_left
    intro l hl
    obtain ⟨a, _, b⟩ := hname l hl
    exact canonLine_fileLine H1 H2 l a b
  · intro l hl c hc
    simp only [List.mem_map] at hl
    obtain ⟨l', hl', rfl⟩ := hl
    exact hno l' hl' c (dropTrail_mem _ _ _ hc)

/-- **The text layer.**  `checkSig` on the canonical text of the message accepts the table name → digest of the signed lines. -/
theorem checkSig_canonText_message (H1 H2 : Bytes → Bytes) (signer date role : Bytes) (ls : List Line)
    (hH : ∀ l ∈ ls, (H1 l.body).length = 32 ∧ (H2 l.body).length = 40 ∧
      ∀ c ∈ H1 l.body ++ H2 l.body, c ≠ 32 ∧ c ≠ 10)
    (hsd : ∀ c ∈ signer ++ date, c ≠ 10) (hrole : ∀ c ∈ role, c ≠ 10)
    (hname : ∀ l ∈ ls, l.name ≠ [] ∧ (∀ c ∈ l.name, c ≠ 10) ∧
      l.name.getLast? ≠ some 32 ∧ l.name.getLast? ≠ some 9 ∧ l.name.getLast? ≠ some 13)
    (hdist : (ls.map (·.name)).Pairwise (· ≠ ·)) :
    checkSig (canonText (message H1 H2 signer date role ls)) (ls.map fun l => (l.name, digestOf H1 H2 l.body)) = .ok () := by
  have hscan := scanLines_canonText H1 H2 signer date role ls
    (fun l hl c hc => ((hH l hl).2.2 c hc).2) hsd hrole hname
  have hdrop : (scanLines (canonText (message H1 H2 signer date role ls))).dropWhile (· ≠ filesLit) =
      filesLit :: ls.map (fileLine H1 H2) := by
    rw [hscan]
    simp only [headLines, List.map_cons, List.map_nil, List.cons_append, List.nil_append, canonLine_filesLine]
    rw [List.dropWhile_cons_of_pos (by simpa using canonLine_ne_files 86 _ (by decide)),
      List.dropWhile_cons_of_pos (by simpa using canonLine_ne_files 83 _ (by decide)),
      List.dropWhile_cons_of_pos (by simpa using canonLine_ne_files 68 _ (by decide)),
      List.dropWhile_cons_of_pos (by simpa using canonLine_ne_files 82 _ (by decide)),
      List.dropWhile_cons_of_neg (by simp)]
  have hlook : ∀ l ∈ ls, lookup l.name (ls.map fun l => (l.name, digestOf H1 H2 l.body)) = some (digestOf H1 H2 l.body) := by
    intro l hl
    have := lookup_distinct (ls.map fun l => (l.name, digestOf H1 H2 l.body))
      (by rw [List.map_map]; exact hdist) (l.name, digestOf H1 H2 l.body) (List.mem_map_of_mem hl)
    exact this
  have hchk := checkLines_files H1 H2 (ls.map fun l => (l.name, digestOf H1 H2 l.body)) ls
    (fun l hl => ⟨(hH l hl).1, (hH l hl).2.1, fun c hc => ((hH l hl).2.2 c hc).1⟩) hlook []
  unfold checkSig
  simp only [hdrop, hchk]
  rw [if_pos]
  simp only [List.append_nil, List.all_map, List.all_eq_true, Function.comp_def]
  intro l hl
  simp only [List.contains_eq_mem, List.mem_reverse, decide_eq_true_eq]
  exact List.mem_map_of_mem hl

/-! ### what the archive layer provides: non-empty, pairwise distinct names -/

theorem eraseDups_length_le : ∀ (n : Nat) (l : List Bytes), l.length ≤ n → l.eraseDups.length ≤ l.length := by
  intro n
  induction n with
  | zero =>
    intro l hl
    have : l = [] := List.eq_nil_of_length_eq_zero (by omega)
    subst this; simp
  | succ n ih =>
    intro l hl
    cases l with
    | nil => simp
    | cons a as =>
      rw [List.eraseDups_cons]
      simp only [List.length_cons] at hl ⊢
      have h1 := List.length_filter_le (fun b => !b == a) as
      have h2 := ih (as.filter fun b => !b == a) (by omega)
      omega

theorem pairwise_of_eraseDups (l : List Bytes) (h : l.eraseDups.length = l.length) : l.Pairwise (· ≠ ·) := by
  induction l with
  | nil => simp
  | cons a as ih =>
    rw [List.eraseDups_cons] at h
    simp only [List.length_cons] at h
    have h1 := List.length_filter_le (fun b => !b == a) as
    have h2 := eraseDups_length_le _ (as.filter fun b => !b == a) (Nat.le_refl _)
    have h3 : (as.filter fun b => !b == a).length = as.length := by omega
    have h4 : as.filter (fun b => !b == a) = as := List.filter_eq_self.mpr (List.length_filter_eq_length_iff.mp h3)
    rw [h4] at h
    rw [List.pairwise_cons]
    refine ⟨?_, ih (by omega)⟩
    intro b hb
    have := List.length_filter_eq_length_iff.mp h3 b hb
    intro e
    subst e
    simp at this

theorem entryAt_name_ne (A : Bytes) (h : 60 ≤ A.length) : (entryAt A).name ≠ [] := by
  cases A with
  | nil => simp at h
  | cons x t => simp [entryAt, hdrName, fld, rtrim]

theorem parse_names_ne : ∀ (n : Nat) (A : Bytes) (es : List Entry) (s : Stop), parse n A = (es, s) → ∀ e ∈ es, e.name ≠ [] := by
  intro n
  induction n with
  | zero =>
    intro A es s hp e he
    simp only [parse, Prod.mk.injEq] at hp
    rw [← hp.1] at he
    simp at he
  | succ n ih =>
    intro A es s hp e he
    cases es with
    | nil => simp at he
    | cons e0 es' =>
      obtain ⟨n', hn, h60, _, he0, hrest⟩ := parse_uncons (n + 1) A e0 es' s hp
      have hn' : n' = n := by omega
      subst hn'
      simp only [List.mem_cons] at he
      rcases he with rfl | he
      · rw [he0]; exact entryAt_name_ne A h60
      · exact ih _ es' s hrest e he

theorem entries_names_ne (f : Bytes) (es : List Entry) (s : Stop) (h : entries f = (es, s)) : ∀ e ∈ es, e.name ≠ [] :=
  parse_names_ne _ _ es s h

/-! ### the hypotheses of the full statement, unpacked -/

/-- what `plainName` says, field by field -/
theorem plainName_spec (n : Bytes) (h : plainName n = true) :
    (∀ c ∈ n, c ≠ 10 ∧ c ≠ 13) ∧ n.getLast? ≠ some 32 ∧ n.getLast? ≠ some 9 ∧
      isGpgName n = isGpgName (pathClean n) := by
  simp only [plainName, Bool.and_eq_true, Bool.not_eq_true', List.any_eq_false, Bool.or_eq_true, beq_iff_eq,
    bne_iff_ne, ne_eq, not_or] at h
  exact ⟨fun c hc => h.1.1.1 c hc, h.1.1.2, h.1.2, h.2⟩

/-- what `roleRegular` says about the text form of the role -/
theorem roleRegular_spec (role : Bytes) (h : roleRegular role = true) :
    pathClean (gpg ++ role) = gpg ++ role ∧ ∀ c ∈ role, c ≠ 10 := by
  simp only [roleRegular, Bool.and_eq_true, Bool.not_eq_true', List.any_eq_false, Bool.or_eq_true, beq_iff_eq,
    not_or] at h
  exact ⟨h.1.2, fun c hc => (h.2 c hc).1⟩

/-- the names of the signed lines are those `distinctNames` looks at -/
theorem linesOf_names (es : List Entry) (hp : ∀ x ∈ es, isGpgName x.name = isGpgName (pathClean x.name)) :
    (linesOf es).map (·.name) = (es.filter fun e => !isGpgName e.name).map (·.name) := by
  unfold linesOf
  rw [List.map_map]
  have : es.filter (fun e => !isGpgName e.name) = es.filter (fun e => !isGpgName (pathClean e.name)) := by
    apply List.filter_congr
    intro x hx
    rw [hp x hx]
  rw [this]
  rfl

theorem linesOf_mem (es : List Entry) (l : Line) (h : l ∈ linesOf es) : ∃ e ∈ es, l = ⟨e.name, e.size, e.body⟩ := by
  simp only [linesOf, List.mem_map, List.mem_filter] at h
  obtain ⟨e, ⟨he, _⟩, rfl⟩ := h
  exact ⟨e, he, rfl⟩

end Relic.Deb

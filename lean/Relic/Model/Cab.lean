/-
  Relic.Model.Cab — executable model of /repo/lib/cabfile/cabfile.go (`Digest`, `Parse`, `MakePatch`) and of the
  locator half of `authenticode.VerifyCab` (lib/authenticode/cabfile.go).
  The imprint is modelled by the *byte stream fed to the hash* (DESIGN.md section 2).

  Layout of a cabinet as the code reads it (all little-endian):
     0 Magic(4)  4 Reserved1(4)  8 TotalSize(4)  12 Reserved2(4)  16 OffsetFiles(4)  20 Reserved3(4)
    24 Version(2)  26 NumFolders(2)  28 NumFiles(2)  30 Flags(2)  32 SetID(2)  34 CabNumber(2)
    [36 HeaderSize(2) 38 FolderSize(1) 39 DataSize(1)  40 Unknown1(4) 44 CabinetSize(4) 48 SignatureSize(4)
     52 Unknown2(4) 56 Unknown3(4)  60 padding(HeaderSize-20)]            -- only when Flags & 4
    NumFolders × { Offset(4) NumData(2) Compression(2) }   then `TotalSize - OffsetFiles` bytes   [signature]
  Note what the code does *not* check: that `OffsetFiles` is where the folder headers end, and that `TotalSize`
  is where the data ends.  `MakePatch` uses both as splice positions.
-/
import Relic.Base.Bytes
import Relic.Model.Binpatch
import Relic.Model.PE
namespace Relic.Cab
open Relic
open Relic.PE (seg u16 u32 ceil8)

def u8 (f : Bytes) (off : Nat) : Nat := leVal (seg f off (off + 1))

/-- `add32(&x, addOffset)`: `uint32(int64(x) + int64(addOffset))`; `delta` is `addOffset` modulo 2^32 -/
def rebase (delta x : Nat) : Nat := (x + delta) % 2 ^ 32

/-- the folder loop: each `FolderHeader` is read, its `Offset` rebased, and written back -/
def rebaseFolders (f : Bytes) (delta : Nat) : Nat → Nat → Bytes
  | _, 0 => []
  | pos, n + 1 =>
    leBytes 4 (rebase delta (u32 f pos)) ++ seg f (pos + 4) (pos + 8) ++ rebaseFolders f delta (pos + 8) n

/-- what the reserve-header branch of `Digest` leaves behind -/
structure Reserve where
  cur : Nat          -- read position after the reserve area
  delta : Nat        -- addOffset mod 2^32
  hasSig : Bool      -- cab.SignatureHeader != nil
  sigSize : Nat      -- cab.SignatureHeader.SignatureSize
  u1 : Bytes         -- outSigHeader.Unknown1 … Unknown3, as written
  u2 : Bytes
  u3 : Bytes
  deriving Repr, DecidableEq

/-- no reserve header: make space for one (`addOffset += 4 + 20`) -/
def noReserve : Reserve := ⟨36, 24, false, 0, leBytes 4 0x100000, leBytes 4 0, leBytes 4 0⟩

/-- `Flags & FlagReservePresent != 0` branch -/
def readReserve (f : Bytes) (total : Nat) : Res Reserve :=
  if f.length < 40 then .err "eof" else
  let hs := u16 f 36
  if hs < 20 ∨ u8 f 38 ≠ 0 ∨ u8 f 39 ≠ 0 then .err "reserved" else
  if f.length < 60 then .err "eof" else
  let cabSize := u32 f 44
  let padding := hs - 20
  if 0 < padding then
    if cabSize ≠ 0 then .err "reservesize" else
    if f.length < 60 + padding then .err "eof" else
    if (seg f 60 (60 + padding)).any (· ≠ 0) then .err "padding" else
    .ok ⟨60 + padding, 2 ^ 32 - padding, false, 0, leBytes 4 0x100000, leBytes 4 0, leBytes 4 0⟩
  else if total ≠ cabSize then .err "sizemismatch"
  else .ok ⟨60, 0, true, u32 f 48, seg f 40 44, seg f 52 56, seg f 56 60⟩

/-- the 60 bytes `Digest` writes in front of the folder headers (`outHeader`, `outReserveHeader`, `outSigHeader`),
    field by field -/
structure Hdr60 where
  magic : Bytes      --  0 Magic
  r1 : Bytes         --  4 Reserved1
  total : Bytes      --  8 TotalSize
  r2 : Bytes         -- 12 Reserved2
  off : Bytes        -- 16 OffsetFiles
  r3ver : Bytes      -- 20 Reserved3, Version
  nf : Bytes         -- 26 NumFolders
  nfiles : Bytes     -- 28 NumFiles
  flags : Bytes      -- 30 Flags
  setid : Bytes      -- 32 SetID
  cabnum : Bytes     -- 34 CabNumber
  hs : Bytes         -- 36 ReserveHeader.HeaderSize
  fsz : Bytes        -- 38 FolderSize
  dsz : Bytes        -- 39 DataSize
  u1 : Bytes         -- 40 Unknown1
  cs : Bytes         -- 44 CabinetSize
  ss : Bytes         -- 48 SignatureSize
  u2 : Bytes         -- 52 Unknown2
  u3 : Bytes         -- 56 Unknown3
  deriving Repr, DecidableEq

def Hdr60.enc (h : Hdr60) : Bytes :=
  h.magic ++ h.r1 ++ h.total ++ h.r2 ++ h.off ++ h.r3ver ++ h.nf ++ h.nfiles ++ h.flags ++ h.setid ++ h.cabnum ++
    h.hs ++ h.fsz ++ h.dsz ++ h.u1 ++ h.cs ++ h.ss ++ h.u2 ++ h.u3

/-- the 34 bytes of `sigBlob`: the header fields the signature covers (not Reserved1, CabNumber) -/
def Hdr60.sigBlob (h : Hdr60) : Bytes :=
  h.magic ++ h.total ++ h.r2 ++ h.off ++ h.r3ver ++ h.nf ++ h.nfiles ++ h.flags ++ h.setid ++ h.u3

/-- `outHeader`, `outReserveHeader{HeaderSize: 20}`, `outSigHeader{Unknown1, CabinetSize: outHeader.TotalSize, 0, Unknown2, Unknown3}` -/
def outHdr (f : Bytes) (total' off' outFlags : Nat) (u1 u2 u3 : Bytes) : Hdr60 :=
  { magic := seg f 0 4, r1 := seg f 4 8, total := leBytes 4 total', r2 := seg f 12 16, off := leBytes 4 off',
    r3ver := seg f 20 26, nf := seg f 26 28, nfiles := seg f 28 30, flags := leBytes 2 outFlags, setid := seg f 32 34,
    cabnum := seg f 34 36, hs := leBytes 2 20, fsz := [0], dsz := [0], u1 := u1, cs := leBytes 4 total',
    ss := leBytes 4 0, u2 := u2, u3 := u3 }

structure Digest where
  hdr : Hdr60          -- new header ++ reserve header ++ signature header
  folders : Bytes      -- rebased folder headers
  data : Bytes         -- the `TotalSize - OffsetFiles` bytes copied to the hash after the folder headers
  total : Nat          -- cab.Header.TotalSize (as found)
  offFiles : Nat       -- cab.Header.OffsetFiles (as found)
  nFolders : Nat
  delta : Nat          -- addOffset mod 2^32
  hasSig : Bool        -- cab.SignatureHeader != nil
  oldSigSize : Nat     -- cab.SignatureHeader.Size()
  signature : Bytes    -- cab.Signature
  foldersStart : Nat   -- physical offset of the first folder header
  dataEnd : Nat        -- physical offset at which the hashed data ends
  deriving Repr, DecidableEq

/-- the stream fed to the hash: `sigBlob`, rebased folder headers, data -/
def Digest.hashed (d : Digest) : Bytes := d.hdr.sigBlob ++ d.folders ++ d.data

/-- `CabinetDigest.Patched` -/
def Digest.patched (d : Digest) : Bytes := d.hdr.enc ++ d.folders

/-- `cabfile.Digest` -/
def DigestCab (f : Bytes) : Res Digest :=
  if f.length < 36 then .err "eof" else
  if u32 f 0 ≠ 0x4643534d then .err "notcab" else
  let total := u32 f 8
  let offFiles := u32 f 16
  let nFolders := u16 f 26
  let flags := u16 f 30
  match (if flags / 4 % 2 = 1 then readReserve f total else .ok noReserve) with
  | .err e => .err e
  | .panic p => .panic p
  | .diverge => .diverge
  | .ok rv =>
    if flags % 4 ≠ 0 then .err "multipart" else
    -- `Flags &^ FlagReservePresent != 0` with bits 0 and 1 clear: some bit ≥ 3 is set
    if 8 ≤ flags then .err "flags" else
    -- `Flags |= FlagReservePresent`
    let outFlags := if flags / 4 % 2 = 1 then flags else flags + 4
    let fe := rv.cur + 8 * nFolders
    if f.length < fe then .err "eof" else
    -- `io.CopyN(dw, r, int64(TotalSize - OffsetFiles))`: the subtraction is in uint32
    let n := (total + 2 ^ 32 - offFiles) % 2 ^ 32
    if f.length < fe + n then .err "eof" else
    let de := fe + n
    -- `make([]byte, SignatureSize)` + `io.ReadFull`
    if rv.hasSig ∧ f.length < de + rv.sigSize then .err "eof" else
    let stop := if rv.hasSig then de + rv.sigSize else de
    if stop < f.length then .err "trailing" else
    .ok { hdr := outHdr f (rebase rv.delta total) (rebase rv.delta offFiles) outFlags rv.u1 rv.u2 rv.u3,
          folders := rebaseFolders f rv.delta rv.cur nFolders,
          data := seg f fe de,
          total, offFiles, nFolders, delta := rv.delta, hasSig := rv.hasSig,
          oldSigSize := if rv.hasSig then rv.sigSize else 0,
          signature := if rv.hasSig then seg f de (de + rv.sigSize) else [],
          foldersStart := rv.cur, dataEnd := de }

/-! ### `CabinetDigest.MakePatch` -/

/-- `padded := make([]byte, (len(pkcs)+7)/8*8); copy(padded, pkcs)` -/
def padded (sig : Bytes) : Bytes := sig ++ List.replicate (ceil8 sig.length - sig.length) 0

/-- `binary.LittleEndian.PutUint32(hdr[48:], uint32(n))` (the header is at least 60 bytes long) -/
def setSigSize (hdr : Bytes) (n : Nat) : Bytes := hdr.take 48 ++ leBytes 4 n ++ hdr.drop 52

def makePatch (d : Digest) (sig : Bytes) : List Binpatch.Patch :=
  [⟨0, d.offFiles, setSigSize d.patched (padded sig).length⟩, ⟨d.total, d.oldSigSize, padded sig⟩]

/-! ### the verifier's locator: `cabfile.Parse` + the emptiness test of `VerifyCab` -/

def locate (f : Bytes) : Res Bytes :=
  match DigestCab f with
  | .ok d => if d.signature.isEmpty then .err "notsigned" else .ok d.signature
  | .err e => .err e
  | .panic p => .panic p
  | .diverge => .diverge

end Relic.Cab

/-
  Relic.Spec.CabDigest — the Authenticode digest of a cabinet file, written from the public description (the Microsoft
  cabinet SIP as reproduced by osslsigncode's `cab_digest_calc`, file layout from [MS-CAB]).

  A signed cabinet has the CFHEADER flag `cfhdrRESERVE_PRESENT` (4) and a 20-byte per-cabinet reserve area that holds the
  signature information:
     0 signature "MSCF"   4 reserved1   8 cbCabinet  12 reserved2  16 coffFiles  20 reserved3  24 version
    26 cFolders  28 cFiles  30 flags  32 setID  34 iCabinet  36 cbCFHeader(=20)  38 cbCFFolder(=0)  39 cbCFData(=0)
    40 abReserve: 40 unknown (0x00100000)  44 offset of the signature ("additional data offset")
                  48 size of the signature  52 unknown  56 unknown
    60 CFFOLDER[cFolders] (8 bytes each), then CFFILE entries and CFDATA blocks up to the signature.
  The digest covers:  bytes 0–3 (signature); NOT 4–7 (reserved1); bytes 8–33 (cbCabinet, reserved2, coffFiles, reserved3,
  version, cFolders, cFiles, flags, setID); NOT 34–35 (iCabinet); NOT 36–55 (cbCFHeader, cbCFFolder, cbCFData, and the
  first 16 bytes of abReserve, i.e. the signature offset and size); bytes 56–59 (the last four bytes of abReserve); then
  everything from byte 60 (the CFFOLDER entries, which must end at coffFiles) up to the signature offset.
  An unsigned cabinet is first brought into this layout by the signer (24 bytes inserted after byte 35, flag set,
  cbCabinet / coffFiles / every CFFOLDER.coffCabStart increased by 24): the digest is that of the resulting file, which is
  why the specification is stated on the signed layout only.

  Confidence: the hashed/skipped ranges above are those of osslsigncode (written from memory, no source offline) and agree
  with relic's `sigBlob` comment ("skipped fields: Reserved1, CabNumber").  UNCERTAIN CLAUSES: (a) whether the end of the
  hashed data is taken from the signature offset (byte 44, used here) or from cbCabinet (byte 8) — equal in every file a
  signer writes, and relic refuses files in which they differ; (b) multi-cabinet sets (flags 1, 2: the names of the
  previous/next cabinet are hashed too) are out of scope — relic refuses them.
  Validated against the signed fixture functest/packages/dummy.cab through the `CAB specdigest` op (check C05).
  Shares only the byte helpers `seg`/`u16`/`u32` with the models.
-/
import Relic.Model.PE
namespace Relic.Spec.CabDigest
open Relic
open Relic.PE (seg u16 u32)

def u8 (g : Bytes) (off : Nat) : Nat := leVal (seg g off (off + 1))

/-- a single, signed cabinet in the layout described above -/
def signedLayout (g : Bytes) : Bool :=
  decide (60 ≤ g.length) && decide (u32 g 0 = 0x4643534d) &&
  decide (u16 g 30 = 4) &&                                   -- flags: reserve present, not part of a set
  decide (u16 g 36 = 20) && decide (u8 g 38 = 0) && decide (u8 g 39 = 0) &&
  decide (u32 g 16 = 60 + 8 * u16 g 26) &&                   -- the CFFOLDER entries end at coffFiles
  decide (u32 g 16 ≤ u32 g 44) &&
  decide (u32 g 44 + u32 g 48 = g.length)                    -- the signature is the rest of the file

/-- the byte stream whose digest is the Authenticode digest of the cabinet -/
def digestInput (g : Bytes) : Option Bytes :=
  if signedLayout g then some (seg g 0 4 ++ seg g 8 34 ++ seg g 56 60 ++ seg g 60 (u32 g 44)) else none

end Relic.Spec.CabDigest

/-
  Relic.Model.CsVerify — executable model of the DECISION LOGIC of relic's Apple code-signature verifier.

  Modelled Go code (names as in /repo):
    lib/fruit/csblob/csblob.go   `parseSignature` (which superblob items are code directories: slot 0 and 0x1000..0x1005;
                                 last requirements / entitlements / DER entitlements item wins; a CMS item of at most 8
                                 bytes resets the CMS to nil = ad-hoc; the directories are sorted by slot)
    lib/fruit/csblob/verify.go   `Verify` (per directory the special-slot comparisons −7, −5, −2, −6, −1, −3 in this
                                 order; "no code directory"; ad-hoc; CMS over the FIRST directory; `checkCDHashes`;
                                 `checkPlistHashes`; timestamp), `bestDir`, `CodeSize`, `VerifyPages`
    lib/fruit/csblob/attrs.go    `checkCDHashes` (every LISTED digest is compared with `computed[hash]`),
                                 `checkPlistHashes` (count AND positional equality against
                                 `computed[dir.HashFunc][:20]` — note: a map keyed by hash function)
    lib/pkcs7/verify.go          `SignedData.Verify(content, false)` as far as `csblob.Verify` depends on it: embedded vs
                                 external content, every signer info, digest algorithm, messageDigest attribute equal to
                                 the digest of the content; everything else of the PKCS#7 layer (attribute bytes,
                                 certificate lookup, signature value, content-type attribute) is ONE table bit per signer
                                 (`restOk`; that layer has its own model, Relic.Model.Cms)
    lib/fruit/machos/verify.go   `Verify` (signature blob → `csblob.Verify` → `VerifyPages` over the section reader
                                 `[0, CodeSize())`)
    lib/fruit/dmg/verify.go      `(*DMG).Verify` (rep-specific parameter, page reader not cut at the code size)
    signers/macho/fatfile.go     `verifyFat` (a thin image gets the bundle's Info.plist / CodeResources, the slices of a
                                 fat image do NOT), signers/macho/ipa.go `verifyIPA` (calls `verifyFat`)

  Hash functions never run here: a verification is a PLAN — the ordered list of comparisons `H alg stream =? expected`
  interleaved with the structural decisions (a structural failure ends the plan with its error class).  `Plan.run H`
  evaluates a plan for a hash family `H`; the driver prints the plan and the check evaluates it with hashlib; the
  theorems quantify over `H`.  Core Lean only (linked into the native driver).
-/
import Relic.Base.Bytes
import Relic.Model.CodeDir
namespace Relic.CsVerify
open Relic Relic.CodeDir

/-! ### plans -/

/-- one comparison: `hmac.Equal(H(stream)[:trunc], expected)`; `trunc = 0` = the whole digest -/
structure Step where
  label : String      -- error class when the comparison fails
  alg : Nat           -- crypto.Hash: 3 SHA-1, 5 SHA-256, 6 SHA-384 (2 MD5, 4 SHA-224, 7 SHA-512 can be named by a CMS)
  stream : Bytes
  trunc : Nat
  expected : Bytes
  deriving Repr, DecidableEq

structure Plan where
  steps : List Step
  final : Res Unit
  deriving Repr, DecidableEq

def Step.digest (H : Nat → Bytes → Bytes) (s : Step) : Bytes :=
  if s.trunc = 0 then H s.alg s.stream else (H s.alg s.stream).take s.trunc

def Step.holds (H : Nat → Bytes → Bytes) (s : Step) : Bool := s.digest H == s.expected

/-- fail-fast evaluation: the first comparison that fails decides the error class -/
def runSteps (H : Nat → Bytes → Bytes) : List Step → Res Unit → Res Unit
  | [], fin => fin
  | s :: ss, fin => if s.holds H then runSteps H ss fin else .err s.label

def Plan.run (H : Nat → Bytes → Bytes) (p : Plan) : Res Unit := runSteps H p.steps p.final

def Plan.pass : Plan := ⟨[], .ok ()⟩
def Plan.fail (e : String) : Plan := ⟨[], .err e⟩
def Plan.check (s : Step) : Plan := ⟨[s], .ok ()⟩
def Plan.guard (c : Bool) (e : String) : Plan := if c then .pass else .fail e

/-- sequential composition: `q` is reached only when `p` ends in success -/
def Plan.seq (p q : Plan) : Plan :=
  match p.final with
  | .ok _ => ⟨p.steps ++ q.steps, q.final⟩
  | _ => p

def seqAll : List Plan → Plan
  | [] => .pass
  | p :: ps => p.seq (seqAll ps)

/-! ### which tree -/

/-- which of the two repairs the modelled tree contains; all `false` = the original code (before the fix commits) -/
structure Fixes where
  vouch : Bool        -- fix F-CSV-1 (994e09d): alternates without a signed cdhashes list are refused
  fatParams : Bool    -- fix F-CSV-2 (91159af): `verifyFat` passes Info.plist / CodeResources to every slice
  deriving Repr, DecidableEq

def Fixes.orig : Fixes := ⟨false, false⟩

/-- the tree the correspondence runs against (the driver answers for this one): the current code, both repairs in -/
def tree : Fixes := ⟨true, true⟩

/-! ### what `parseSignature` yields -/

/-- a parsed code directory with its slot and its bytes (`Raw`) -/
structure CD where
  itype : Nat
  raw : Bytes
  d : Dir
  deriving Repr, DecidableEq

/-- `dir.HashFunc` as a crypto.Hash (`hashFunc` admits the types 1, 2, 4 only) -/
def algOfType (ht : Nat) : Nat := if ht = 1 then 3 else if ht = 2 then 5 else if ht = 4 then 6 else 0

def CD.alg (c : CD) : Nat := algOfType c.d.hdr.hashType

/-- special slot −i as `parseCodeDirectory` keeps it: `nil` when the directory has fewer special slots or the slot is
    all zero -/
def CD.slot (c : CD) (i : Nat) : Option Bytes :=
  match c.d.special[i - 1]? with
  | some s => if s.all (· = 0) then none else some s
  | none => none

/-- result of an attribute lookup (`GetOne` / `GetAll` + decoding) -/
inductive AttrV (α : Type) where
  | absent          -- `ErrNoAttribute`: the check is skipped
  | bad             -- present but not decodable (ASN.1, several values, plist syntax)
  | val (v : α)
  deriving Repr, DecidableEq

/-- one SignerInfo as `csblob.Verify` sees it -/
structure SignerV where
  digestAlg : Option Nat                          -- `PkixDigestToHashE(si.DigestAlgorithm)`; `none` = unknown OID
  hasAttrs : Bool                                 -- `len(si.AuthenticatedAttributes) != 0`
  md : Option Bytes                               -- `GetOne(OidAttributeMessageDigest)`; `none` = error
  restOk : Bool                                   -- the rest of the PKCS#7 layer accepts this signer info
  cdhashes : AttrV (List (Option Nat × Bytes))    -- attribute 1.2.840.113635.100.9.2: (hash of the OID, digest)
  plist : AttrV (List Bytes)                      -- attribute 1.2.840.113635.100.9.1: the `cdhashes` array
  deriving Repr, DecidableEq

structure CmsV where
  embedded : Option Bytes      -- `ContentInfo.Bytes()`: `none` = detached
  signers : List SignerV
  tsOk : Bool                  -- `pkcs9.VerifyOptionalTimestamp`
  deriving Repr, DecidableEq

structure Sig where
  ent : Option Bytes           -- entitlements item (slot 5) WITH its blob header; `none` = no such item
  entDER : Option Bytes        -- slot 7
  req : Option Bytes           -- slot 2
  dirs : List CD               -- sorted by slot
  cms : Option CmsV            -- `none` = no CMS item, or the last one is at most 8 bytes long
  deriving Repr, DecidableEq

/-- `VerifyParams` (`nil` = `none`) -/
structure Params where
  info : Option Bytes
  res : Option Bytes
  rep : Option Bytes
  deriving Repr, DecidableEq

/-! ### `csblob.Verify` -/

/-- `if dir.XHash != nil { hashCheck(h, blob, dir.XHash) }` -/
def optCheck (label : String) (alg : Nat) (slot : Option Bytes) (blob : Bytes) : Plan :=
  match slot with
  | some s => .check ⟨label, alg, blob, 0, s⟩
  | none => .pass

/-- the body of the loop over `sig.Directories` -/
def dirPlan (P : Params) (s : Sig) (c : CD) : Plan :=
  seqAll [optCheck "entitlementsDER" c.alg (c.slot 7) (s.entDER.getD []),
          optCheck "entitlements" c.alg (c.slot 5) (s.ent.getD []),
          optCheck "requirements" c.alg (c.slot 2) (s.req.getD []),
          optCheck "rep_specific" c.alg (c.slot 6) (P.rep.getD []),
          (match P.info with
           | some v => optCheck "info_plist" c.alg (c.slot 1) v
           | none => .pass),
          (match P.res with
           | some v => optCheck "resources" c.alg (c.slot 3) v
           | none => .pass)]

/-- `SignerInfo.Verify(content, false, certs)` + the content-type rule, for one signer info -/
def signerPlan (content : Bytes) (sv : SignerV) : Plan :=
  match sv.digestAlg with
  | none => .fail "cms-digestalg"
  | some a =>
    if sv.hasAttrs then
      match sv.md with
      | none => .fail "cms-mdattr"
      | some md => (Plan.check ⟨"cms-md", a, content, 0, md⟩).seq (.guard sv.restOk "cms-sig")
    else .guard sv.restOk "cms-sig"

/-- embedded and external content "were both provided but are not equal" -/
def embeddedPlan (content : Bytes) : Option Bytes → Plan
  | some e => Plan.guard (e == content) "cms-content"
  | none => .pass

/-- `sig.CMS.Content.Verify(mdContent, false)` -/
def cmsPlan (content : Bytes) (c : CmsV) : Plan :=
  (embeddedPlan content c.embedded).seq
  ((Plan.guard (!c.signers.isEmpty) "cms-notsigned").seq (seqAll (c.signers.map (signerPlan content))))

/-- `computed[h]`: the map is keyed by hash function, so the LAST directory of that hash function wins -/
def lastWithAlg (dirs : List CD) (a : Nat) : Option CD := (dirs.filter (fun c => c.alg == a)).getLast?

def lastRaw (dirs : List CD) (a : Nat) : Bytes := ((lastWithAlg dirs a).map (·.raw)).getD []

/-- the loop of `checkCDHashes` -/
def cdhPlan (dirs : List CD) : List (Option Nat × Bytes) → Plan
  | [] => .pass
  | (none, _) :: _ => .fail "cdhashes-alg"
  | (some a, dg) :: rest =>
    match lastWithAlg dirs a with
    | none => .fail "cdhashes-missing"
    | some c => (Plan.check ⟨"cdhashes", a, c.raw, 0, dg⟩).seq (cdhPlan dirs rest)

def cdhAttrPlan (dirs : List CD) : AttrV (List (Option Nat × Bytes)) → Plan
  | .absent => .pass
  | .bad => .fail "cdhashes-attr"
  | .val l => cdhPlan dirs l

/-- `checkPlistHashes`: count, then position by position against `computed[dir.HashFunc][:20]` -/
def plistPlan (dirs : List CD) (L : List Bytes) : Plan :=
  if L.length ≠ dirs.length then .fail "plist-count" else
  seqAll ((dirs.zip L).map fun p => Plan.check ⟨"plist", p.1.alg, lastRaw dirs p.1.alg, 20, p.2⟩)

def plistAttrPlan (dirs : List CD) : AttrV (List Bytes) → Plan
  | .absent => .pass
  | .bad => .fail "plist-attr"
  | .val l => plistPlan dirs l

def AttrV.isAbsent {α : Type} : AttrV α → Bool
  | .absent => true
  | _ => false

/-- the guard of patches/F-CSV-1.patch: `len(sig.Directories) > 1 && !Exists(AttrCodeDirHashPlist)` -/
def vouchPlan (fx : Fixes) (dirs : List CD) (si : SignerV) : Plan :=
  Plan.guard (!(fx.vouch && decide (1 < dirs.length) && si.plist.isAbsent)) "unvouched"

/-- what follows the CMS verification: the attributes of the signer info `Verify` returned (the LAST one) -/
def attrsPlan (fx : Fixes) (dirs : List CD) (c : CmsV) : Plan :=
  match c.signers.getLast? with
  | none => .fail "cms-notsigned"
  | some si =>
    (cdhAttrPlan dirs si.cdhashes).seq ((plistAttrPlan dirs si.plist).seq ((vouchPlan fx dirs si).seq (Plan.guard c.tsOk "timestamp")))

/-- `csblob.Verify(blob, params)` after `parseSignature` -/
def verifyPlan (fx : Fixes) (P : Params) (s : Sig) : Plan :=
  (seqAll (s.dirs.map (dirPlan P s))).seq
    (match s.dirs with
     | [] => .fail "nodir"
     | d0 :: _ =>
       match s.cms with
       | none => .fail "adhoc"
       | some c => (cmsPlan d0.raw c).seq (attrsPlan fx s.dirs c))

/-! ### `bestDir`, `CodeSize`, `VerifyPages` -/

/-- `bestDir`: the FIRST directory with the greatest hash type -/
def bestStep (acc : Option CD) (c : CD) : Option CD :=
  match acc with
  | none => some c
  | some b => if c.d.hdr.hashType > b.d.hdr.hashType then some c else some b

def bestDir (dirs : List CD) : Option CD := dirs.foldl bestStep none

def allZero (b : Bytes) : Bool := b.all (· = 0)

/-- the loop of `VerifyPages`; `r` = what is left in the reader, `pageLen` = `len(page)`.  An all-zero slot is `nil`
    in the parsed directory: `hmac.Equal(computed, nil)` is false for every digest. -/
def pageLoop (alg : Nat) : List Bytes → Bytes → Int → Nat → Plan
  | [], _, _, _ => .pass
  | e :: es, r, remaining, pageLen =>
    if remaining ≤ 0 then .fail "fewslots" else
    let pageLen := if remaining < pageLen then remaining.toNat else pageLen
    if r.length < pageLen then .fail "eof" else
    if allZero e then .fail "page" else
    (Plan.check ⟨"page", alg, r.take pageLen, 0, e⟩).seq (pageLoop alg es (r.drop pageLen) (remaining - pageLen) pageLen)

/-- `SigBlob.VerifyPages(r)` when `bestDir() = c` and the reader delivers `r` -/
def pagesPlan (c : CD) (r : Bytes) : Plan :=
  let remaining := codeSize c.d.hdr
  if c.d.hdr.pageShift = 0 then
    match c.d.code with
    | [e] =>
      if (r.length : Int) ≠ remaining then .fail "size" else
      if allZero e then .fail "page" else .check ⟨"page", c.alg, r, 0, e⟩
    | _ => .fail "slots1"
  else if c.d.hdr.pageShift > 24 then .fail "pagesize"
  else pageLoop c.alg c.d.code r remaining (2 ^ c.d.hdr.pageShift)

/-- `io.NewSectionReader(r, 0, CodeSize())` over the file -/
def codeReader (c : CD) (file : Bytes) : Bytes := file.take (codeSize c.d.hdr).toNat

/-- `machos.Verify(r, infoPlist, resources, skipDigests)` after the signature blob is located and parsed;
    `P.info` is the effective Info.plist (the parameter, else the `__TEXT,__info_plist` section) -/
def machoPlan (fx : Fixes) (P : Params) (s : Sig) (file : Bytes) (skip : Bool) : Plan :=
  (verifyPlan fx P s).seq
    (if skip then .pass else
     match bestDir s.dirs with
     | none => .fail "nodir"
     | some b => pagesPlan b (codeReader b file))

/-- `(*DMG).Verify(skipDigests)`: `csblob.Verify(sigBlob, {RepSpecific})`, then `VerifyPages` over a reader that is NOT
    cut at the code size -/
def blobPlan (fx : Fixes) (P : Params) (s : Sig) (page : Bytes) (skip : Bool) : Plan :=
  (verifyPlan fx P s).seq
    (if skip then .pass else
     match bestDir s.dirs with
     | none => .fail "nodir"
     | some b => pagesPlan b page)

/-! ### `parseSignature` -/

def isDirSlot (t : Nat) : Bool := t = 0 ∨ (0x1000 ≤ t ∧ t < 0x1006)

/-- insert behind every element whose slot is not greater: Go's insertion sort (`sort.Slice` on at most 12 elements)
    is stable -/
def insertCD (x : CD) : List CD → List CD
  | [] => [x]
  | y :: ys => if x.itype < y.itype then x :: y :: ys else y :: insertCD x ys

def sortDirs (l : List CD) : List CD := l.foldl (fun acc x => insertCD x acc) []

def sliceOf (b : Bytes) (off n : Nat) : Bytes := (b.drop off).take n

/-- the item loop of `parseSignature`; `cmsOf` decodes a CMS item (BER re-encoding + `pkcs7.Unmarshal` + the view) -/
def sigItems (cmsOf : Bytes → Res CmsV) (blob : Bytes) : List RawItem → Sig → Res Sig
  | [], s => .ok s
  | i :: is, s =>
    let data := sliceOf blob i.off i.len
    if i.itype = 2 then sigItems cmsOf blob is { s with req := some data }
    else if i.itype = 5 then sigItems cmsOf blob is { s with ent := some data }
    else if i.itype = 7 then sigItems cmsOf blob is { s with entDER := some data }
    else if i.itype = 0x10002 then sigItems cmsOf blob is s
    else if isDirSlot i.itype then
      match parseCodeDirectory data (blob.drop (i.off + i.len)) with
      | .ok d => sigItems cmsOf blob is { s with dirs := s.dirs ++ [⟨i.itype, data, d⟩] }
      | .err e => .err e
      | .panic p => .panic p
      | .diverge => .diverge
    else if i.itype = 0x10000 then
      if i.len ≤ 8 then sigItems cmsOf blob is { s with cms := none }
      else
        match cmsOf (data.drop 8) with
        | .ok c => sigItems cmsOf blob is { s with cms := some c }
        | .err e => .err e
        | .panic p => .panic p
        | .diverge => .diverge
    else sigItems cmsOf blob is s

/-- `parseSignature(blob)` -/
def parseSig (cmsOf : Bytes → Res CmsV) (blob : Bytes) : Res Sig :=
  match parseSuper blob with
  | .err e => .err e
  | .panic p => .panic p
  | .diverge => .diverge
  | .ok (magic, items) =>
    if magic ≠ 0xfade0cc0 ∧ magic ≠ 0xfade0cc1 then .err "magic" else
    match sigItems cmsOf blob items ⟨none, none, none, [], none⟩ with
    | .ok s => .ok { s with dirs := sortDirs s.dirs }
    | .err e => .err e
    | .panic p => .panic p
    | .diverge => .diverge

/-! ### the wrappers of signers/macho -/

/-- `machos.Verify`: `if infoPlist == nil { infoPlist = readPlist(hdr) }` -/
def effInfo (param embedded : Option Bytes) : Option Bytes :=
  match param with
  | some v => some v
  | none => embedded

/-- `verifyFat(fr, infoPlist, resources, opts)`: a thin image is verified with the bundle's Info.plist and
    CodeResources; every slice of a fat image with `nil, nil` (then only an embedded plist section counts) — unless
    patches/F-CSV-2.patch is in -/
def wrapParams (fx : Fixes) (fat : Bool) (info res embedded : Option Bytes) : Params :=
  if fat && !fx.fatParams then ⟨effInfo none embedded, none, none⟩ else ⟨effInfo info embedded, res, none⟩

/-- `slices`: (parsed signature, slice bytes, embedded plist section) -/
def fatPlans (fx : Fixes) (fat : Bool) (info res : Option Bytes) (slices : List (Sig × Bytes × Option Bytes)) : List Plan :=
  slices.map fun x => machoPlan fx (wrapParams fx fat info res x.2.2) x.1 x.2.1 false

end Relic.CsVerify

/-
  C15 — the scdaemon token: failures are reported faithfully and logins are bounded.

  `scdtoken.Open` logs in through `token.Login`: with a configured PIN exactly ONE `CHECKPIN` (a wrong PIN is reported as
  PinIncorrectError, never retried: a smart card locks after three wrong PINs); without one, `passprompt.Login` asks the
  PasswordGetter and makes one attempt per password supplied, stopping at the first success, at a non-PIN error, or when the getter
  gives up.  "An operation reports success only if some attempt succeeded": the PIN kept in the token is one that CHECKPIN accepted.

    * `scd_login_single_attempt`, `scd_prompt_attempts_bounded`, `scd_login_success_needs_right_pin`
    * `scd_bad_pin_classified` — a Response whose status message contains "Bad PIN" is PinIncorrectError; every other error of
      CHECKPIN / PKSIGN is returned wrapped, with its cause intact
    * `scd_sign_context_honours_cancel_full` is refuted: `SignContext` drops its context (T-gen: `scd_sign_context_delegates_generated`)
      and the socket has no deadline, so a silent daemon blocks the caller for ever (finding F-SCD-3)
-/
import Relic.Proofs.ScdToken
import Relic.Generated.ScdLocks
namespace Relic.Props.C15
open Relic Relic.Assuan Relic.ScdToken

/-- **scd_login_single_attempt**: a configured PIN is tried exactly once, whatever the daemon answers -/
theorem scd_login_single_attempt {σ} (dm : Daemon σ) (s : ScdConn σ) (tc : TokenConf) (p : Bytes) (h : tc.pin = some p) :
    (tokenLogin dm s tc).2.1 = 1 := (tokenLogin_spec dm s tc).2.1 p h

/-- **scd_prompt_attempts_bounded**: at most one attempt per password the getter supplied; none without a getter -/
theorem scd_prompt_attempts_bounded {σ} (dm : Daemon σ) (s : ScdConn σ) (tc : TokenConf) (h : tc.pin = none) :
    (∀ answers, tc.getter = some answers → (tokenLogin dm s tc).2.1 ≤ answers.length) ∧
    (tc.getter = none → (tokenLogin dm s tc).2.1 = 0) :=
  ⟨(tokenLogin_spec dm s tc).2.2.1 h, (tokenLogin_spec dm s tc).2.2.2.1 h⟩

/-- **scd_login_success_needs_right_pin**: login reports success only if a CHECKPIN with the PIN it keeps succeeded -/
theorem scd_login_success_needs_right_pin {σ} (dm : Daemon σ) (s : ScdConn σ) (tc : TokenConf) (p : Bytes)
    (h : (tokenLogin dm s tc).2.2 = .ok p) : ∃ s0, (checkPin dm s0 p).2 = .ok () := (tokenLogin_spec dm s tc).2.2.2.2 p h

/-- **scd_bad_pin_classified** -/
theorem scd_bad_pin_classified (ctx : String) (e : Err) :
    (pinErr ctx e = .msg "badpin" ↔ ∃ st m, e = .resp st m ∧ containsSub kBadPIN m = true) ∧
    (pinErr ctx e ≠ .msg "badpin" → pinErr ctx e = .wrap ctx e) := by
  constructor
  · constructor
    · intro h
      cases e with
      | resp st m =>
        by_cases hb : containsSub kBadPIN m = true
        · exact ⟨st, m, rfl, hb⟩
        · simp [pinErr, hb] at h
      | io => simp [pinErr] at h
      | escape => simp [pinErr] at h
      | inq => simp [pinErr] at h
      | closed => simp [pinErr] at h
      | wrap c e' => simp [pinErr] at h
      | msg c => simp [pinErr] at h
    · rintro ⟨st, m, rfl, hb⟩
      simp [pinErr, hb]
  · intro h
    cases e with
    | resp st m =>
      by_cases hb : containsSub kBadPIN m = true
      · simp [pinErr, hb] at h
      · simp [pinErr, hb]
    | io => rfl
    | escape => rfl
    | inq => rfl
    | closed => rfl
    | wrap c e' => rfl
    | msg c => rfl

example : pinErr "sign" (.resp (ascii "ERR") (ascii "100663383 Bad PIN <SCD>")) = .msg "badpin" := by decide +kernel
example : pinErr "sign" (.resp (ascii "ERR") (ascii "100663404 Card error <SCD>")) = .wrap "sign" (.resp (ascii "ERR") (ascii "100663404 Card error <SCD>")) := by
  decide +kernel

/-! ### cancellation -/

/-- the full statement: a Sign returns (with an error at the latest when the caller's context ends) -/
def scd_sign_context_honours_cancel_full : Prop :=
  ∀ (t : Token Script) (k : Key) (d : Bytes) (o : SignOpts), (keySign scripted t k d o).2.isBlock = false

def scdTcDemo : TokenConf := { serial := [], pin := some (ascii "123456"), getter := none, keys := [⟨"k1", ascii "OPENPGP.1"⟩] }
def scdDemoScript : Script := ⟨[(ascii "OK ready\n", false), (ascii "S SERIALNO D276\nS KEYPAIRINFO G1 OPENPGP.1\nOK\n", false),
  (ascii "INQUIRE NEEDPIN\nOK\n", false), (ascii "D (10:public-key(3:rsa(1:n2:%C3%01)(1:e3:%01%00%01)))\nOK\n", false),
  (ascii "OK\n", false), (ascii "INQUIRE NEEDPIN\n", false)]⟩

/-- refuted (finding F-SCD-3): the card never answers the PKSIGN: Sign blocks; the model has no context because the code drops it -/
theorem scd_sign_blocks_on_silent_card :
    (match openToken scripted scdDemoScript scdTcDemo with
     | (_, .ok t) =>
       match getKey scripted t "k1" with
       | (t, .ok k) => (keySign scripted t k (List.replicate 32 7) (.named (ascii "sha256"))).2.isBlock
       | _ => false
     | _ => false) = true := by decide +kernel

theorem scd_sign_context_honours_cancel_full_false : ¬ scd_sign_context_honours_cancel_full := by
  intro h
  have hw := scd_sign_blocks_on_silent_card
  cases ho : openToken scripted scdDemoScript scdTcDemo with
  | mk s o =>
    rw [ho] at hw
    cases o with
    | ok t =>
      simp only at hw
      cases hg : getKey scripted t "k1" with
      | mk t2 o2 =>
        rw [hg] at hw
        cases o2 with
        | ok k =>
          simp only at hw
          have := h t2 k (List.replicate 32 7) (.named (ascii "sha256"))
          rw [this] at hw; cases hw
        | fail e => simp at hw
        | panic x => simp at hw
        | block => simp at hw
    | fail e => simp at hw
    | panic x => simp at hw
    | block => simp at hw

/-- generated: SignContext is `return key.Sign(rand.Reader, digest, opts)`: the context does not reach the connection -/
theorem scd_sign_context_drops_ctx_generated : Generated.ScdLocks.scdKeySignContext.calls = ["key.Sign"] := by decide

end Relic.Props.C15

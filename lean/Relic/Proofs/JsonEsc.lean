/- the per-rune escaping of encoding/json's string encoder is a prefix code on the Unicode scalar values -/
import Relic.Proofs.JsonInj
namespace Relic.Json
open Relic

theorem toNat_ofNat_lt (n : Nat) (h : n < 256) : (UInt8.ofNat n).toNat = n := by
  simp [UInt8.toNat_ofNat', Nat.mod_eq_of_lt h]

/-- reads one code word of `escRune` off the front -/
def unesc : Bytes → Option (Nat × Bytes)
  | [] => none
  | b0 :: rest =>
    if b0.toNat = 0x5C then
      match rest with
      | e :: r2 =>
        if e.toNat = 0x75 then
          match r2 with
          | h3 :: h2 :: h1 :: h0 :: r6 => some (hex4 h3 h2 h1 h0, r6)
          | _ => none
        else some (escChar e, r2)
      | [] => none
    else if b0.toNat < 0x80 then some (b0.toNat, rest)
    else if b0.toNat < 0xE0 then
      match rest with
      | b1 :: r => some ((b0.toNat - 0xC0) * 64 + (b1.toNat - 0x80), r)
      | _ => none
    else if b0.toNat < 0xF0 then
      match rest with
      | b1 :: b2 :: r => some ((b0.toNat - 0xE0) * 4096 + (b1.toNat - 0x80) * 64 + (b2.toNat - 0x80), r)
      | _ => none
    else
      match rest with
      | b1 :: b2 :: b3 :: r =>
        some ((b0.toNat - 0xF0) * 262144 + (b1.toNat - 0x80) * 4096 + (b2.toNat - 0x80) * 64 + (b3.toNat - 0x80), r)
      | _ => none

theorem hexv_hexDigitB : ∀ n, n < 16 → hexv (hexDigitB n) = n := by decide

theorem unesc_u00 (c : Nat) (h : c < 64) (x : Bytes) :
    unesc ([0x5C, 0x75, 0x30, 0x30, hexDigitB (c / 16), hexDigitB (c % 16)] ++ x) = some (c, x) := by
  have h1 := hexv_hexDigitB (c / 16) (by omega)
  have h2 := hexv_hexDigitB (c % 16) (by omega)
  have h0 : hexv 0x30 = 0 := by decide
  simp only [unesc, List.cons_append, List.nil_append, hex4, h0, h1, h2]
  simp
  omega

theorem unesc_utf8 (c : Nat) (hs : isScalar c = true) (hq : c ≠ 0x5C) (x : Bytes) : unesc (utf8enc c ++ x) = some (c, x) := by
  unfold utf8enc
  split
  · rename_i h
    have := toNat_ofNat_lt c (by omega)
    simp only [unesc, List.cons_append, List.nil_append, this]
    simp [hq, h]
  · split
    · rename_i h1 h2
      have a := toNat_ofNat_lt (0xC0 + c / 64) (by omega)
      have b := toNat_ofNat_lt (0x80 + c % 64) (by omega)
      simp only [unesc, List.cons_append, List.nil_append, a, b]
      rw [if_neg (by omega), if_neg (by omega), if_pos (by omega)]
      simp; omega
    · rw [hs]
      simp only [Bool.not_true, Bool.false_eq_true, if_false]
      split
      · rename_i h1 h2 h3
        have a := toNat_ofNat_lt (0xE0 + c / 4096) (by omega)
        have b := toNat_ofNat_lt (0x80 + c / 64 % 64) (by omega)
        have d := toNat_ofNat_lt (0x80 + c % 64) (by omega)
        simp only [unesc, List.cons_append, List.nil_append, a, b, d]
        rw [if_neg (by omega), if_neg (by omega), if_neg (by omega), if_pos (by omega)]
        simp; omega
      · rename_i h1 h2 h3
        have hlt : c < 0x110000 := by
          simp only [isScalar, Bool.or_eq_true, Bool.and_eq_true, decide_eq_true_eq] at hs
          omega
        have a := toNat_ofNat_lt (0xF0 + c / 262144) (by omega)
        have b := toNat_ofNat_lt (0x80 + c / 4096 % 64) (by omega)
        have d := toNat_ofNat_lt (0x80 + c / 64 % 64) (by omega)
        have e := toNat_ofNat_lt (0x80 + c % 64) (by omega)
        simp only [unesc, List.cons_append, List.nil_append, a, b, d, e]
        rw [if_neg (by omega), if_neg (by omega), if_neg (by omega), if_neg (by omega)]
        simp; omega

theorem unesc_esc (c : Nat) (hs : isScalar c = true) (x : Bytes) : unesc (escRune c ++ x) = some (c, x) := by
  unfold escRune
  split
  · rename_i h; subst h; rfl
  split
  · rename_i h; subst h; rfl
  split
  · rename_i h; subst h; rfl
  split
  · rename_i h; subst h; rfl
  split
  · rename_i h; subst h; rfl
  split
  · rename_i h; subst h; rfl
  split
  · rename_i h; subst h; rfl
  split
  · rename_i h
    simp only [Bool.or_eq_true, decide_eq_true_eq] at h
    exact unesc_u00 c (by omega) x
  split
  · rename_i h; subst h; rfl
  split
  · rename_i h; subst h; rfl
  · rename_i h1 h2 h3 h4 h5 h6 h7 h8 h9 h10
    exact unesc_utf8 c hs h2 x

theorem escRune_prefixCode : PrefixCode isScalar escRune := by
  constructor
  · intro c hs
    have h := unesc_esc c hs []
    cases he : escRune c with
    | nil => rw [he] at h; simp [unesc] at h
    | cons b tl =>
      refine ⟨b, tl, rfl, ?_⟩
      rintro rfl
      rw [he] at h
      simp only [List.append_nil, unesc] at h
      rw [if_neg (by decide), if_pos (by decide)] at h
      simp only [Option.some.injEq, Prod.mk.injEq] at h
      -- the only rune whose code could start with the quote is the quote itself, which is written as \"
      have hc : c = 0x22 := by rw [← h.1]; decide
      subst hc
      simp [escRune] at he
  · intro c c' x y hs hs' h
    have h1 := unesc_esc c hs x
    have h2 := unesc_esc c' hs' y
    rw [h] at h1
    rw [h1] at h2
    simp only [Option.some.injEq, Prod.mk.injEq] at h2
    exact h2

end Relic.Json

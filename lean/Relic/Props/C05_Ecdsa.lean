/- C05 — ECDSA signature values use the standard fixed-width encoding (IEEE 1363 / XML-DSig r‖s). -/
import Relic.Props.C19
namespace Relic.Props.C05
open Relic Relic.EcdsaPack

/-- **ecdsa_pack_fixed_width.** For the curve byte length `w`, packing any `r, s < 256^w` yields exactly `2w` bytes
    and unpacking returns `(r, s)` (the code after fix F17; the value-derived width it replaced is refuted in
    `Relic.Props.C19.ecdsa_pack_unfixed_not_fixed_width`). -/
theorem ecdsa_pack_fixed_width (w r s : Nat) (hr : r < 256 ^ w) (hs : s < 256 ^ w) :
    ∃ p, packW w r s = .ok p ∧ p.length = 2 * w ∧ unpack p = .ok (r, s) :=
  C19.ecdsa_fixed_width w r s hr hs

end Relic.Props.C05

/-
  Relic.Model.KeyCache — executable model of /repo/token/tokencache/cache.go (Cache.GetKey)
  with /repo/token/context.go (WithKeyID / KeyID).  Core Lean only.
  Time is a natural number supplied by the caller (the model never reads a clock).
-/
namespace Relic.KeyCache

abbrev KeyId := List Nat          -- the bytes of `Key.GetID()`; `[]` = no id pinned in the context

structure Entry where
  expires : Nat
  id : KeyId
  deriving DecidableEq, Repr

/-- `keys map[string]cachedKey` as an association list (key names are numbers here) -/
abbrev State := List (Nat × Entry)

def lookup (s : State) (name : Nat) : Option Entry :=
  match s with
  | [] => none
  | (n, e) :: rest => if n = name then some e else lookup rest name

def store (s : State) (name : Nat) (e : Entry) : State :=
  (name, e) :: s.filter (fun p => p.1 ≠ name)

/-- where the returned key came from -/
inductive Src where
  | cache | backend
  deriving DecidableEq, Repr

/-- `Cache.GetKey`. `fetch name want` is the wrapped token's `GetKey` under a context that pins
    `want` (`[]` = nothing pinned); `expiry` is `c.expiry` (0 = caching disabled). -/
def getKey (expiry : Nat) (fetch : Nat → KeyId → Option KeyId) (s : State) (now : Nat)
    (want : KeyId) (name : Nat) : Option (KeyId × Src) × State :=
  let hit : Option KeyId :=
    match lookup s name with
    | some e => if e.expires > now ∧ (want = [] ∨ want = e.id) then some e.id else none
    | none => none
  match hit with
  | some id => (some (id, .cache), s)
  | none =>
    match fetch name want with
    | none => (none, s)
    | some id =>
      if expiry > 0 ∧ want = [] then (some (id, .backend), store s name ⟨now + expiry, id⟩)
      else (some (id, .backend), s)

/-! ### the fake token of the harness: per key a history of ids (last = current; older ones stay
    available), and a count of scripted failures of the next fetches -/
structure Fake where
  ids : List Nat          -- ids 1..n issued so far for key 0 (each id is the single byte [k])
  failNext : Nat
  deriving DecidableEq, Repr

def Fake.fetch (f : Fake) (_name : Nat) (want : KeyId) : Option KeyId :=
  if f.failNext > 0 then none
  else match want with
    | [] => match f.ids.getLast? with
      | some k => some [k]
      | none => none
    | [w] => if f.ids.contains w then some [w] else none
    | _ => none

inductive Step where
  | get | pin (id : Nat) | rot | exp | fail
  deriving DecidableEq, Repr

structure Sim where
  cache : State
  fake : Fake
  now : Nat
  deriving Repr

/-- one step of a cache script; `exp` advances the clock beyond any live entry (expiry is one
    unit of model time, `exp` adds two) -/
def simStep (expiry : Nat) (m : Sim) : Step → Sim × String
  | .rot => ({ m with fake := { m.fake with ids := m.fake.ids ++ [m.fake.ids.length + 1] } }, "r")
  | .exp => ({ m with now := m.now + 2 }, "e")
  | .fail => ({ m with fake := { m.fake with failNext := m.fake.failNext + 1 } }, "f")
  | st =>
    let want : KeyId := match st with | .pin k => [k] | _ => []
    let r := getKey expiry m.fake.fetch m.cache m.now want 0
    -- a fetch consumes one scripted failure
    let fetched := match r.1 with | some (_, .cache) => false | _ => true
    let fake' := if fetched = true ∧ m.fake.failNext > 0 then { m.fake with failNext := m.fake.failNext - 1 } else m.fake
    let out := match r.1 with
      | some ([k], .cache) => s!"c{k}"
      | some ([k], .backend) => s!"b{k}"
      | some (_, _) => "?"
      | none => "b!"
    ({ cache := r.2, fake := fake', now := m.now }, out)

def simulate (expiry : Nat) : Sim → List Step → List String
  | _, [] => []
  | m, st :: rest => let r := simStep expiry m st; r.2 :: simulate expiry r.1 rest

def initSim : Sim := ⟨[], ⟨[1], 0⟩, 0⟩

end Relic.KeyCache

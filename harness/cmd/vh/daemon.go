package main

// registration of the daemon-layer model (harness/daemon; first op token DAEMON) – kept in its own file so that it merges
// without touching main.go.  C14, C20, C04 and C11 keep their own runners; the DAEMON ops run as a further correspondence
// under the pseudo-properties C14DMN, C20DMN, C04DMN, C11DMN (checklib/models/daemon.py `second`), routed by first token
// through hx.Dispatch.  `vh DAEMON actchild` is the child process of the activation ops.

import "verifharness/daemon"

func init() {
	handlers["DAEMON"] = daemon.Handle
	for _, p := range []string{"C14", "C20", "C04", "C11"} {
		gens[p+"DMN"] = []genFunc{forProp(p, daemon.Gen)}
	}
	extras["DAEMON actchild"] = daemon.ActChild
}

module extractroutes

go 1.22

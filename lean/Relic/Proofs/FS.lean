/-
  Helper lemmas for C13: the simulation argument behind `trace_shape_sound` and the
  computation of what the commit protocol leaves on disk.
-/
import Relic.Model.FS
namespace Relic.FS
open Relic

/-! ### field projections of the small state updates -/

@[simp] theorem setOff_data (s fd e o) : (setOff s fd e o).data = s.data := rfl
@[simp] theorem setOff_names (s fd e o) : (setOff s fd e o).names = s.names := rfl
@[simp] theorem setOff_next (s fd e o) : (setOff s fd e o).next = s.next := rfl
@[simp] theorem setOff_fds (s fd e o) : (setOff s fd e o).fds = upd s.fds fd (some { e with off := o }) := rfl
@[simp] theorem putAt_data (s i o b) : (putAt s i o b).data = upd s.data i (Binpatch.writeAt (s.data i) o b) := rfl
@[simp] theorem putAt_names (s i o b) : (putAt s i o b).names = s.names := rfl
@[simp] theorem putAt_next (s i o b) : (putAt s i o b).next = s.next := rfl
@[simp] theorem putAt_fds (s i o b) : (putAt s i o b).fds = s.fds := rfl

theorem lookup_congr {s t : State} {p : String} (hn : t.names p = s.names p) (hd : t.data = s.data) :
    lookup t p = lookup s p := by
  simp [lookup, hn, hd]

/-! ### phase B: quiet calls change neither content nor the two names -/

theorem quiet_step (dest input : String) (s : State) (op : Op) (h : quiet dest input op = true) :
    (step s op).data = s.data ∧ (step s op).names dest = s.names dest ∧
    (step s op).names input = s.names input := by
  cases op with
  | openF p fd c e t =>
    simp [quiet] at h
    obtain ⟨hc, ht⟩ := h
    subst hc; subst ht
    simp only [step]
    cases s.names p <;> simp
  | read fd n => simp only [step]; cases s.fds fd <;> simp
  | lseek fd r => simp only [step]; cases s.fds fd <;> simp
  | close fd => simp [step]
  | unlink p =>
    simp [quiet] at h
    simp [step, upd, Ne.symm h.1, Ne.symm h.2]
  | rename a b =>
    simp [quiet] at h
    obtain ⟨⟨⟨h1, h2⟩, h3⟩, h4⟩ := h
    simp only [step]
    cases s.names a with
    | none => simp
    | some i =>
      by_cases hab : a = b
      · simp [hab]
      · simp [hab, upd, Ne.symm h1, Ne.symm h2, Ne.symm h3, Ne.symm h4]
  | write _ _ => simp [quiet] at h
  | pwrite _ _ _ => simp [quiet] at h
  | copy _ _ _ => simp [quiet] at h
  | ftruncate _ _ => simp [quiet] at h
  | fchmod _ _ => simp [quiet] at h

theorem quiet_run (dest input : String) (tr : List Op) (s : State)
    (h : tr.all (quiet dest input) = true) :
    (run tr s).data = s.data ∧ (run tr s).names dest = s.names dest ∧
    (run tr s).names input = s.names input := by
  induction tr generalizing s with
  | nil => simp [run]
  | cons op rest ih =>
    simp only [List.all_cons, Bool.and_eq_true] at h
    obtain ⟨a, b, c⟩ := quiet_step dest input s op h.1
    obtain ⟨a', b', c'⟩ := ih (step s op) h.2
    simp only [run]
    exact ⟨a'.trans a, b'.trans b, c'.trans c⟩

theorem all_take {α} (p : α → Bool) (l : List α) (k : Nat) (h : l.all p = true) : (l.take k).all p = true := by
  simp only [List.all_eq_true] at *
  intro x hx
  exact h x (List.mem_of_mem_take hx)

/-! ### phase A: the simulation relation -/

structure RelA (dest input : String) (s0 : State) (sh : Sh) (s : State) : Prop where
  next_le : s0.next ≤ s.next
  old : ∀ i, i < s0.next → s.data i = s0.data i
  nd : s.names dest = s0.names dest
  ni : s.names input = s0.names input
  fdo : ∀ fd e, s.fds fd = some e → fd ∈ sh.opened
  own : ∀ fd, fd ∈ sh.owned → ∀ e, s.fds fd = some e → s0.next ≤ e.ino

theorem RelA.lookup_old {dest input s0 sh s} (r : RelA dest input s0 sh s)
    (wf0 : ∀ p i, s0.names p = some i → i < s0.next) (p : String) (hp : s.names p = s0.names p) :
    lookup s p = lookup s0 p := by
  simp only [lookup, hp]
  cases h : s0.names p with
  | none => rfl
  | some i => simp [r.old i (wf0 p i h)]

theorem relA_init (dest input : String) (s0 : State) (h : Init s0) : RelA dest input s0 ⟨[], []⟩ s0 :=
  ⟨Nat.le_refl _, fun _ _ => rfl, rfl, rfl, fun fd e he => by simp [h.nofd fd] at he,
   fun fd hfd => by simp at hfd⟩

/-- a write-like call through an owned descriptor: data changes only at a fresh inode -/
theorem relA_data_fds {dest input s0 sh s} (r : RelA dest input s0 sh s) (t : State)
    (hnames : t.names = s.names) (hnext : t.next = s.next)
    (hdata : ∀ i, i < s0.next → t.data i = s.data i)
    (hfds : ∀ fd e, t.fds fd = some e → ∃ e', s.fds fd = some e' ∧ e'.ino = e.ino) :
    RelA dest input s0 sh t := by
  refine ⟨by rw [hnext]; exact r.next_le, fun i hi => (hdata i hi).trans (r.old i hi),
    by rw [hnames]; exact r.nd, by rw [hnames]; exact r.ni, ?_, ?_⟩
  · intro fd e he
    obtain ⟨e', he', _⟩ := hfds fd e he
    exact r.fdo fd e' he'
  · intro fd hfd e he
    obtain ⟨e', he', hi⟩ := hfds fd e he
    rw [← hi]; exact r.own fd hfd e' he'

theorem upd_fds_same_ino (fds : Nat → Option FdEnt) (fd : Nat) (e0 : FdEnt) (o : Nat) (h0 : fds fd = some e0) :
    ∀ fd' e, upd fds fd (some { e0 with off := o }) fd' = some e → ∃ e', fds fd' = some e' ∧ e'.ino = e.ino := by
  intro fd' e he
  by_cases hf : fd' = fd
  · subst hf
    simp at he
    exact ⟨e0, h0, by rw [← he]⟩
  · rw [upd_other _ _ _ _ hf] at he
    exact ⟨e, he, rfl⟩

theorem relA_step {dest input : String} (hne : dest ≠ input) {s0 : State} {sh sh' : Sh} {s : State} {op : Op}
    (r : RelA dest input s0 sh s) (h : stepA dest input sh op = some sh') :
    RelA dest input s0 sh' (step s op) := by
  cases op with
  | openF p fd c e t =>
    simp only [stepA] at h
    split at h
    · cases h
    next hno =>
      have hfd : s.fds fd = none := by
        cases hq : s.fds fd with
        | none => rfl
        | some e0 =>
          have := r.fdo fd e0 hq
          simp at hno
          exact absurd this hno
      split at h
      next hce =>
        simp only [Bool.and_eq_true] at hce
        obtain ⟨hc, he⟩ := hce
        subst hc; subst he
        split at h
        next hp =>
          simp at hp
          obtain ⟨hpd, hpi⟩ := hp
          cases h
          simp only [step]
          cases hn : s.names p with
          | some i =>
            simp
            refine ⟨r.next_le, r.old, r.nd, r.ni, ?_, ?_⟩
            · intro fd' e' he'
              exact List.mem_cons_of_mem _ (r.fdo fd' e' he')
            · intro fd' hfd' e' he'
              simp at hfd'
              cases hfd' with
              | inl heq => subst heq; simp [hfd] at he'
              | inr hin => exact r.own fd' hin e' he'
          | none =>
            simp
            refine ⟨Nat.le_succ_of_le r.next_le, ?_, ?_, ?_, ?_, ?_⟩
            · intro i hi
              have : i ≠ s.next := by have := r.next_le; omega
              simp [upd, this, r.old i hi]
            · simp [upd, Ne.symm hpd, r.nd]
            · simp [upd, Ne.symm hpi, r.ni]
            · intro fd' e' he'
              by_cases hf : fd' = fd
              · simp [hf]
              · dsimp only at he'
                rw [upd_other _ _ _ _ hf] at he'
                exact List.mem_cons_of_mem _ (r.fdo fd' e' he')
            · intro fd' hfd' e' he'
              by_cases hf : fd' = fd
              · subst hf
                simp at he'
                rw [← he']; exact r.next_le
              · dsimp only at he'
                rw [upd_other _ _ _ _ hf] at he'
                simp [hf] at hfd'
                exact r.own fd' hfd' e' he'
        · cases h
      next hce =>
        split at h
        next hct =>
          simp at hct
          obtain ⟨hc, ht⟩ := hct
          subst hc; subst ht
          cases h
          simp only [step]
          cases hn : s.names p with
          | none =>
            simp
            refine ⟨r.next_le, r.old, r.nd, r.ni, ?_, ?_⟩
            · intro fd' e' he'
              exact List.mem_cons_of_mem _ (r.fdo fd' e' he')
            · intro fd' hfd' e' he'
              simp at hfd'
              exact r.own fd' hfd'.1 e' he'
          | some i =>
            simp
            refine ⟨r.next_le, r.old, r.nd, r.ni, ?_, ?_⟩
            · intro fd' e' he'
              by_cases hf : fd' = fd
              · simp [hf]
              · dsimp only at he'
                rw [upd_other _ _ _ _ hf] at he'
                exact List.mem_cons_of_mem _ (r.fdo fd' e' he')
            · intro fd' hfd' e' he'
              simp at hfd'
              dsimp only at he'
              rw [upd_other _ _ _ _ hfd'.2] at he'
              exact r.own fd' hfd'.1 e' he'
        · cases h
  | write fd b =>
    simp only [stepA] at h
    split at h
    next hown =>
      cases h
      simp at hown
      simp only [step]
      cases hq : s.fds fd with
      | none => exact r
      | some e0 =>
        have hfresh := r.own fd hown e0 hq
        dsimp only
        refine relA_data_fds r _ ?_ ?_ ?_ ?_
        · rfl
        · rfl
        · intro i hi
          have : i ≠ e0.ino := by omega
          simp [upd, this]
        · simpa using upd_fds_same_ino s.fds fd e0 _ hq
    · cases h
  | pwrite fd off b =>
    simp only [stepA] at h
    split at h
    next hown =>
      cases h
      simp at hown
      simp only [step]
      cases hq : s.fds fd with
      | none => exact r
      | some e0 =>
        have hfresh := r.own fd hown e0 hq
        dsimp only
        refine relA_data_fds r _ ?_ ?_ ?_ ?_
        · rfl
        · rfl
        · intro i hi
          have : i ≠ e0.ino := by omega
          simp [upd, this]
        · intro fd' e he; exact ⟨e, he, rfl⟩
    · cases h
  | copy fin fout n =>
    simp only [stepA] at h
    split at h
    next hown =>
      cases h
      simp at hown
      simp only [step]
      cases hi : s.fds fin with
      | none => exact r
      | some ei =>
        cases ho : s.fds fout with
        | none => exact r
        | some eo =>
          have hfresh := r.own fout hown eo ho
          simp only
          have hdata : ∀ i, i < s0.next →
              upd s.data eo.ino (Binpatch.writeAt (s.data eo.ino) eo.off (readAt (s.data ei.ino) ei.off n)) i = s.data i := by
            intro i hi'
            have : i ≠ eo.ino := by omega
            simp [upd, this]
          split
          · refine relA_data_fds r _ ?_ ?_ ?_ ?_
            · rfl
            · rfl
            · simpa using hdata
            · simpa using upd_fds_same_ino s.fds fout eo _ ho
          next hff =>
            refine relA_data_fds r _ ?_ ?_ ?_ ?_
            · rfl
            · rfl
            · simpa using hdata
            · intro fd' e he
              simp only [setOff_fds, putAt_fds] at he
              by_cases h1 : fd' = fin
              · subst h1
                simp at he
                exact ⟨ei, hi, by rw [← he]⟩
              · rw [upd_other _ _ _ _ h1] at he
                exact upd_fds_same_ino s.fds fout eo _ ho fd' e he
    · cases h
  | ftruncate fd n =>
    simp only [stepA] at h
    split at h
    next hown =>
      cases h
      simp at hown
      simp only [step]
      cases hq : s.fds fd with
      | none => exact r
      | some e0 =>
        have hfresh := r.own fd hown e0 hq
        dsimp only
        refine relA_data_fds r _ ?_ ?_ ?_ ?_
        · rfl
        · rfl
        · intro i hi
          have : i ≠ e0.ino := by omega
          simp [upd, this]
        · intro fd' e he; exact ⟨e, he, rfl⟩
    · cases h
  | fchmod fd m =>
    simp only [stepA] at h
    split at h
    next hown =>
      cases h
      simp only [step]
      cases hq : s.fds fd with
      | none => exact r
      | some e0 =>
        dsimp only
        refine relA_data_fds r _ ?_ ?_ ?_ ?_
        · rfl
        · rfl
        · intro i hi; rfl
        · intro fd' e he; exact ⟨e, he, rfl⟩
    · cases h
  | read fd n =>
    simp only [stepA] at h
    cases h
    simp only [step]
    cases hq : s.fds fd with
    | none => exact r
    | some e0 =>
      dsimp only
      refine relA_data_fds r _ ?_ ?_ ?_ ?_
      · rfl
      · rfl
      · intro i hi; rfl
      · simpa using upd_fds_same_ino s.fds fd e0 _ hq
  | lseek fd res =>
    simp only [stepA] at h
    cases h
    simp only [step]
    cases hq : s.fds fd with
    | none => exact r
    | some e0 =>
      dsimp only
      refine relA_data_fds r _ ?_ ?_ ?_ ?_
      · rfl
      · rfl
      · intro i hi; rfl
      · simpa using upd_fds_same_ino s.fds fd e0 _ hq
  | close fd =>
    simp only [stepA] at h
    cases h
    simp only [step]
    refine ⟨r.next_le, r.old, r.nd, r.ni, ?_, ?_⟩
    · intro fd' e he
      by_cases hf : fd' = fd
      · subst hf; simp at he
      · simp only at he
        rw [upd_other _ _ _ _ hf] at he
        simp [hf, r.fdo fd' e he]
    · intro fd' hfd' e he
      simp at hfd'
      simp only at he
      rw [upd_other _ _ _ _ hfd'.2] at he
      exact r.own fd' hfd'.1 e he
  | unlink p =>
    simp only [stepA] at h
    split at h
    next hp =>
      cases h
      simp at hp
      simp only [step]
      refine ⟨r.next_le, r.old, ?_, ?_, r.fdo, r.own⟩
      · simp [upd, Ne.symm hp.1, r.nd]
      · simp [upd, Ne.symm hp.2, r.ni]
    · cases h
  | rename a b =>
    simp only [stepA] at h
    split at h
    next hp =>
      cases h
      simp at hp
      obtain ⟨⟨⟨h1, h2⟩, h3⟩, h4⟩ := hp
      simp only [step]
      cases hn : s.names a with
      | none => exact r
      | some i =>
        simp only
        split
        · exact r
        · refine ⟨r.next_le, r.old, ?_, ?_, r.fdo, r.own⟩
          · simp [upd, Ne.symm h1, Ne.symm h3, r.nd]
          · simp [upd, Ne.symm h2, Ne.symm h4, r.ni]
    · cases h

/-- the commit call itself: `dest` now holds a complete file (or the call failed and nothing changed) -/
theorem commit_step {dest input : String} (hne : dest ≠ input) {s0 : State} {sh : Sh} {s : State} {op : Op}
    (wf0 : ∀ p i, s0.names p = some i → i < s0.next)
    (r : RelA dest input s0 sh s) (h : isCommit dest input op = true) :
    (lookup s0 dest ≠ none → lookup (step s op) dest ≠ none) ∧
    lookup (step s op) input = lookup s0 input := by
  cases op with
  | rename a b =>
    simp [isCommit] at h
    obtain ⟨⟨hb, had⟩, hai⟩ := h
    subst hb
    simp only [step]
    cases hn : s.names a with
    | none =>
      simp only
      exact ⟨fun h0 => by rw [r.lookup_old wf0 b r.nd]; exact h0, r.lookup_old wf0 input r.ni⟩
    | some i =>
      simp only [had, if_false]
      constructor
      · intro _
        simp [lookup, upd, Ne.symm had]
      · have hin : (upd (upd s.names b (some i)) a none) input = s.names input := by
          simp [upd, Ne.symm hai, Ne.symm hne]
        rw [← r.lookup_old wf0 input r.ni]
        exact lookup_congr hin rfl
  | openF _ _ _ _ _ => simp [isCommit] at h
  | write _ _ => simp [isCommit] at h
  | pwrite _ _ _ => simp [isCommit] at h
  | copy _ _ _ => simp [isCommit] at h
  | ftruncate _ _ => simp [isCommit] at h
  | fchmod _ _ => simp [isCommit] at h
  | read _ _ => simp [isCommit] at h
  | lseek _ _ => simp [isCommit] at h
  | close _ => simp [isCommit] at h
  | unlink _ => simp [isCommit] at h

/-- soundness of the shape predicate from any phase-A state -/
theorem shape_sound_from (dest input : String) (hne : dest ≠ input) (s0 : State)
    (wf0 : ∀ p i, s0.names p = some i → i < s0.next) :
    ∀ (tr : List Op) (sh : Sh) (s : State), RelA dest input s0 sh s → shapeFrom dest input sh tr = true →
      ∀ k, Inv dest input s0 (run (tr.take k) s) (run tr s) := by
  intro tr
  induction tr with
  | nil =>
    intro sh s r _ k
    simp only [List.take_nil, run]
    exact ⟨Or.inl (r.lookup_old wf0 dest r.nd), fun h0 => by rw [r.lookup_old wf0 dest r.nd]; exact h0,
      r.lookup_old wf0 input r.ni⟩
  | cons op rest ih =>
    intro sh s r hs k
    cases k with
    | zero =>
      simp only [List.take_zero, run]
      exact ⟨Or.inl (r.lookup_old wf0 dest r.nd), fun h0 => by rw [r.lookup_old wf0 dest r.nd]; exact h0,
        r.lookup_old wf0 input r.ni⟩
    | succ k =>
      simp only [List.take_succ_cons, run]
      simp only [shapeFrom] at hs
      split at hs
      next hc =>
        obtain ⟨d1, n1, i1⟩ := quiet_run dest input (rest.take k) (step s op) (all_take _ _ k hs)
        obtain ⟨d2, n2, i2⟩ := quiet_run dest input rest (step s op) hs
        obtain ⟨hex, hin⟩ := commit_step hne wf0 r hc
        have e1 : lookup (run (rest.take k) (step s op)) dest = lookup (step s op) dest := lookup_congr n1 d1
        have e2 : lookup (run rest (step s op)) dest = lookup (step s op) dest := lookup_congr n2 d2
        have e3 : lookup (run (rest.take k) (step s op)) input = lookup (step s op) input := lookup_congr i1 d1
        refine ⟨Or.inr (e1.trans e2.symm), fun h0 => by rw [e1]; exact hex h0, e3.trans hin⟩
      next hc =>
        split at hs
        · cases hs
        next sh' hst => exact ih sh' (step s op) (relA_step hne r hst) hs k

/-- without a commit the relation holds to the end (used for the abort path) -/
theorem relA_run {dest input : String} (hne : dest ≠ input) {s0 : State} :
    ∀ (tr : List Op) (sh : Sh) (s : State), RelA dest input s0 sh s → shapeFrom dest input sh tr = true →
      (∀ op ∈ tr, isCommit dest input op = false) → ∃ sh', RelA dest input s0 sh' (run tr s) := by
  intro tr
  induction tr with
  | nil => intro sh s r _ _; exact ⟨sh, r⟩
  | cons op rest ih =>
    intro sh s r hs hnc
    simp only [shapeFrom, hnc op (List.mem_cons_self), Bool.false_eq_true, if_false] at hs
    split at hs
    · cases hs
    next sh' hst =>
      exact ih sh' (step s op) (relA_step hne r hst) hs (fun o ho => hnc o (List.mem_cons_of_mem _ ho))

/-! ### sequential writes append -/

theorem writeAt_end (c b : Bytes) : Binpatch.writeAt c c.length b = c ++ b := by
  unfold Binpatch.writeAt
  split
  next h => simp at h; simp [h]
  · simp

theorem run_writes (fd i : Nat) (chunks : List Bytes) (s : State)
    (h : s.fds fd = some ⟨i, (s.data i).length⟩) :
    (run (chunks.map (Op.write fd)) s).data i = s.data i ++ chunks.flatten ∧
    (run (chunks.map (Op.write fd)) s).fds fd = some ⟨i, (s.data i ++ chunks.flatten).length⟩ ∧
    (run (chunks.map (Op.write fd)) s).names = s.names ∧
    (∀ fd', fd' ≠ fd → (run (chunks.map (Op.write fd)) s).fds fd' = s.fds fd') := by
  induction chunks generalizing s with
  | nil => simp [run, h]
  | cons c cs ih =>
    simp only [List.map_cons, run]
    have hs : step s (Op.write fd c) = setOff (putAt s i (s.data i).length c) fd ⟨i, (s.data i).length⟩ ((s.data i).length + c.length) := by
      simp [step, h]
    have hd : (step s (Op.write fd c)).data i = s.data i ++ c := by
      rw [hs]; simp [writeAt_end]
    have hf : (step s (Op.write fd c)).fds fd = some ⟨i, ((step s (Op.write fd c)).data i).length⟩ := by
      rw [hd]; rw [hs]; simp
    obtain ⟨a, b, c', d⟩ := ih (step s (Op.write fd c)) hf
    refine ⟨?_, ?_, ?_, ?_⟩
    · rw [a, hd]; simp
    · rw [b, hd]; simp
    · rw [c', hs]; simp
    · intro fd' hne
      rw [d fd' hne, hs]
      simp [upd_other _ _ _ _ hne]

theorem shape_writes (dest input : String) (fd : Nat) (chunks : List Bytes) (tail : List Op) (op : List Nat) :
    shapeFrom dest input ⟨op, [fd]⟩ (chunks.map (Op.write fd) ++ tail) = shapeFrom dest input ⟨op, [fd]⟩ tail := by
  induction chunks with
  | nil => simp
  | cons c cs ih => simp [shapeFrom, isCommit, stepA, ih]

end Relic.FS

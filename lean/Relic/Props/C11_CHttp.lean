/-
  C11 — what bounds the decoded size of a request body?  (Relic.Model.CompressHttp: DecompressRequest /
  Middleware of lib/compresshttp.)  Answer proved here: nothing in the package and nothing in the server
  (no http.MaxBytesReader, no io.LimitReader around request.Body): the handler is handed the whole decoded
  stream, whose length is limited only by the codec's expansion factor times the number of bytes on the
  wire.  With gzip that factor is about 1000 (measured by the tie), so a small upload can make a signer
  that buffers its input (io.ReadAll) allocate three orders of magnitude more: finding F-chttp-bomb.
-/
import Relic.Proofs.CompressHttp
namespace Relic.Props.C11
open Relic Relic.Transport Relic.CompressHttp

/-- the statement one would like: some limit `L` bounds what any handler is made to read -/
def decompress_bounded_full : Prop :=
  ∃ L : Nat, ∀ (C : Codecs) (next : Handler) (pre : Option Nat) (r : Req) (b : Bytes),
    (middleware C next pre r).ran = some (.complete b) → b.length ≤ L

/-- **decompress_unbounded.**  It is false — for every pair of codecs, every coding `k` and every
    length `n` there is a request under that coding whose body the handler reads to a clean end with
    exactly `n` decoded bytes. -/
theorem decompress_unbounded :
    (∀ (C : Codecs) (next : Handler) (pre : Option Nat) (k : Coding) (n : Nat),
      ∃ r : Req, requestCoding r = some k ∧
        (middleware C next pre r).ran = some (.complete (List.replicate n 0))) ∧
    ¬ decompress_bounded_full := by
  have key : ∀ (C : Codecs) (next : Handler) (pre : Option Nat) (k : Coding) (n : Nat),
      ∃ r : Req, requestCoding r = some k ∧
        (middleware C next pre r).ran = some (.complete (List.replicate n 0)) := by
    intro C next pre k n
    refine ⟨⟨[codingName k], [], ((C.of k).enc [.write (List.replicate n 0)], .eof)⟩, ?_, ?_⟩
    · exact requestCoding_name k [] _
    · have hk := requestCoding_name k [] ((C.of k).enc [.write (List.replicate n 0)], .eof)
      have hdec := (C.of k).roundtrip [.write (List.replicate n 0)]
      have ho := (C.of k).opens_of_dec _ _ hdec
      rw [middleware_ran C next pre _ k hk ho, readAll_eof _ _ _ hdec]
      simp [plainOf]
  refine ⟨key, ?_⟩
  intro ⟨L, hL⟩
  obtain ⟨r, _, hr⟩ := key toyCodecs (fun _ => []) none .gzip (L + 1)
  have := hL toyCodecs (fun _ => []) none r _ hr
  simp at this
  omega

/-- **decompress_bounded_by_expansion.**  The only bound there is: if every codec in use expands a
    stream by at most a factor `K` (identity: 1), the handler reads at most `K` times the bytes that
    arrived on the wire.  No constant term, no cap. -/
theorem decompress_bounded_by_expansion (C : Codecs) (K : Nat) (hK1 : 1 ≤ K)
    (hgz : ∀ w p, C.gz.dec w = some p → p.length ≤ K * w.length)
    (hsn : ∀ w p, C.sn.dec w = some p → p.length ≤ K * w.length)
    (next : Handler) (pre : Option Nat) (r : Req) (b : Bytes)
    (h : (middleware C next pre r).ran = some (.complete b)) : b.length ≤ K * r.body.1.length := by
  cases hk : requestCoding r with
  | none => rw [middleware_refuse C next pre r hk] at h; cases h
  | some k =>
    cases ho : (C.of k).opens r.body.1 with
    | false => rw [middleware_badopen C next pre r k hk ho] at h; cases h
    | true =>
      rw [middleware_ran C next pre r k hk ho] at h
      injection h with h
      unfold readAll at h
      split at h
      · cases h
      · split at h
        · next p hp =>
          injection h with h
          subst h
          cases k with
          | identity =>
            simp only [Codecs.of, idCodec] at hp
            injection hp with hp
            subst hp
            calc r.body.1.length = 1 * r.body.1.length := by omega
              _ ≤ K * r.body.1.length := Nat.mul_le_mul_right _ hK1
          | gzip => exact hgz _ _ hp
          | snappy => exact hsn _ _ hp
        · cases h

-- the toy codecs never expand (factor 1): the hypotheses are satisfiable; the real factors are measured by the tie
example : (middleware toyCodecs (fun _ => []) none ⟨[gzip], [], (encG [.write [5, 5, 5]], .eof)⟩).ran = some (.complete [5, 5, 5]) := by
  decide

/-- **decompress_no_state_no_panic.**  The model of the middleware is a total function without panic
    sites: every request, well-formed or not, is answered with a status (415, 400 or the handler's). -/
theorem decompress_total (C : Codecs) (next : Handler) (pre : Option Nat) (r : Req) :
    (middleware C next pre r).status = 415 ∨ (middleware C next pre r).status = 400 ∨
    (middleware C next pre r).ran ≠ none := by
  cases hk : requestCoding r with
  | none => left; rw [middleware_refuse C next pre r hk]; rfl
  | some k =>
    cases ho : (C.of k).opens r.body.1 with
    | false => right; left; rw [middleware_badopen C next pre r k hk ho]; rfl
    | true => right; right; rw [middleware_ran C next pre r k hk ho]; simp

end Relic.Props.C11

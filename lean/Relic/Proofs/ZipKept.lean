/-
  Relic.Proofs.ZipKept — members of a readable input as relic measures them (`measured_member`), and the
  directory entry / member bytes a kept member contributes to a rewritten archive (`kept_pm`).
-/
import Relic.Proofs.ZipAssemble
import Relic.Proofs.ZipStream
namespace Relic.Zip
open Relic Relic.SpecZip


/-- every field of a record the specification decodes fits the width it was read from -/
theorem entryAt_bounds {z : Bytes} {at_ lim : Nat} {en : Entry} (h : entryAt z at_ lim = some en) :
    en.verMade < 2 ^ 16 ∧ en.verNeeded < 2 ^ 16 ∧ en.flags < 2 ^ 16 ∧ en.method < 2 ^ 16 ∧ en.mtime < 2 ^ 16 ∧
    en.mdate < 2 ^ 16 ∧ en.crc < 2 ^ 32 ∧ en.name.length < 2 ^ 16 ∧ en.extra.length < 2 ^ 16 ∧
    en.comment.length < 2 ^ 16 ∧ en.iattrs < 2 ^ 16 ∧ en.eattrs < 2 ^ 32 ∧ en.csize < 2 ^ 64 ∧ en.usize < 2 ^ 64 ∧
    en.len = 46 + en.name.length + en.extra.length + en.comment.length := by
  have hlt := entryAt_lt h
  obtain ⟨b1, b2, _, b4, r, _, rfl⟩ := entryAt_some h
  have f2 : ∀ k, fld (z.drop at_) k 2 < 2 ^ 16 := fun k => fld_lt _ k 2
  have f4 : ∀ k, fld (z.drop at_) k 4 < 2 ^ 32 := fun k => fld_lt _ k 4
  have l1 : ((z.drop (at_ + 46)).take (fld (z.drop at_) 28 2)).length = fld (z.drop at_) 28 2 := by
    rw [List.length_take, List.length_drop]; omega
  have l2 : ((z.drop (at_ + 46 + fld (z.drop at_) 28 2)).take (fld (z.drop at_) 30 2)).length = fld (z.drop at_) 30 2 := by
    rw [List.length_take, List.length_drop]; omega
  have l3 : ((z.drop (at_ + 46 + fld (z.drop at_) 28 2 + fld (z.drop at_) 30 2)).take (fld (z.drop at_) 32 2)).length =
      fld (z.drop at_) 32 2 := by
    rw [List.length_take, List.length_drop]; omega
  simp only [specEntry] at hlt ⊢
  rw [l1, l2, l3]
  exact ⟨f2 _, f2 _, f2 _, f2 _, f2 _, f2 _, f4 _, f2 _, f2 _, f2 _, f2 _, f4 _, hlt.1, hlt.2, rfl⟩

/-- more fuel than bytes changes nothing -/
theorem extraWellFormed_succ : ∀ (fuel : Nat) (x : Bytes), x.length ≤ fuel →
    extraWellFormed (fuel + 1) x = extraWellFormed fuel x := by
  intro fuel
  induction fuel with
  | zero =>
    intro x hx
    have : x = [] := List.eq_nil_of_length_eq_zero (by omega)
    subst this
    simp [extraWellFormed]
  | succ fuel ih =>
    intro x hx
    rw [extraWellFormed, extraWellFormed]
    by_cases c1 : x.length < 4
    · rw [if_pos c1, if_pos c1]
    · rw [if_neg c1, if_neg c1]
      simp only
      by_cases c2 : x.length - 4 < leVal ((x.drop 2).take 2)
      · rw [if_pos c2, if_pos c2]
      · rw [if_neg c2, if_neg c2]
        exact ih _ (by rw [List.length_drop]; omega)

theorem extraWellFormed_fuel (x : Bytes) : ∀ (k : Nat), extraWellFormed (x.length + k) x = extraWellFormed x.length x := by
  intro k
  induction k with
  | zero => rfl
  | succ k ih => rw [← Nat.add_assoc, extraWellFormed_succ _ _ (by omega), ih]

/-- the ZIP64 field `GetDirectoryHeader` prepends keeps an extra block well-formed -/
theorem extraWellFormed_z64 (us cs off : Nat) (x : Bytes) (h : extraWellFormed x.length x = true) :
    extraWellFormed (z64Extra us cs off ++ x).length (z64Extra us cs off ++ x) = true := by
  have e : z64Extra us cs off ++ x = [1, 0] ++ ([24, 0] ++ (leBytes 8 us ++ leBytes 8 cs ++ leBytes 8 off ++ x)) := by
    have h1 : leBytes 2 1 = [1, 0] := by decide
    have h2 : leBytes 2 24 = [24, 0] := by decide
    simp [z64Extra, h1, h2]
  have hl : (z64Extra us cs off ++ x).length = (x.length + 27) + 1 := by simp [z64Extra_length]; omega
  rw [hl, extraWellFormed]
  have t2 : leVal (((z64Extra us cs off ++ x).drop 2).take 2) = 24 := by
    rw [e, List.drop_left' (by rfl), List.take_left' (by rfl)]; decide
  rw [if_neg (by simp [z64Extra_length]; omega)]
  simp only [t2]
  rw [if_neg (by simp [z64Extra_length]; omega)]
  have : (z64Extra us cs off ++ x).drop (4 + 24) = x := by
    rw [show 4 + 24 = (z64Extra us cs off).length by rw [z64Extra_length], List.drop_left]
  rw [this, extraWellFormed_fuel, h]

/-- `GetTotalSize` on a fresh `File`, random access: the pieces -/
theorem getTotalSize_ra {z : Bytes} {f : File} {m : Member} {r : Rd} (hf : f.fresh) (h : getTotalSize (RA z) f = .ok (m, r)) :
    ∃ l ddb c, readLocalHeader (RA z) f = .ok (l, RA z) ∧ readDataDesc (RA z) f l = .ok (ddb, c, RA z) ∧
      m.file = { f with crc := c, lfh := some l, ddb := ddb } ∧ m.dataOff = f.offset + 30 + l.nameLen + l.extraLen ∧
      m.total = 30 + (l.name.length + l.extra.length + ddb.length) + f.csize ∧
      l.name.length = l.nameLen ∧ l.extra.length = l.extraLen := by
  obtain ⟨hl, hd, _⟩ := hf
  unfold getTotalSize at h
  cases h1 : readLocalHeader (RA z) f with
  | ok x =>
    obtain ⟨l, r1⟩ := x
    rw [h1] at h
    simp only at h
    obtain ⟨_, hr1, hnl, hel⟩ := readLocalHeader_sim hl h1 (Nat.le_refl _)
    subst hr1
    cases h2 : readDataDesc (RA z) f l with
    | ok x2 =>
      obtain ⟨ddb, crc, r2⟩ := x2
      rw [h2] at h
      simp only [Res.ok.injEq, Prod.mk.injEq] at h
      obtain ⟨rfl, _⟩ := h
      obtain ⟨_, _, hr2, _, _⟩ := readDataDesc_sim (p := 0) hd h2 (Nat.zero_le _)
      subst hr2
      exact ⟨l, ddb, crc, rfl, h2, rfl, rfl, rfl, hnl, hel⟩
    | err e => rw [h2] at h; cases h
    | panic s => rw [h2] at h; cases h
    | diverge => rw [h2] at h; cases h
  | err e => rw [h1] at h; cases h
  | panic s => rw [h1] at h; cases h
  | diverge => rw [h1] at h; cases h

/-- the CRC `readDataDesc` leaves in the `File`: the directory's without descriptor, else the second word
    of the descriptor -/
theorem readDataDesc_ra_crc {z : Bytes} {f : File} {l : Lfh} {ddb : Bytes} {c : Nat} {r : Rd} (hd : f.ddb = [])
    (h : readDataDesc (RA z) f l = .ok (ddb, c, r)) :
    (l.flags % 16 / 8 = 0 → c = f.crc ∧ ddb = []) ∧
    (l.flags % 16 / 8 ≠ 0 → c = fld (z.drop (f.offset + (30 + l.name.length + l.extra.length) + f.csize)) 4 4 ∧
      (ddb.length = 16 ∨ ddb.length = 24)) := by
  unfold readDataDesc at h
  split at h
  · next hf =>
    simp only [Res.ok.injEq, Prod.mk.injEq] at h
    exact ⟨fun _ => ⟨h.2.1.symm, h.1.symm⟩, fun c => absurd hf c⟩
  · next hf =>
    refine ⟨fun c => absurd c hf, fun _ => ?_⟩
    rw [if_neg (by rw [hd]; exact fun c => c rfl)] at h
    simp only at h
    generalize f.offset + (30 + l.name.length + l.extra.length) + f.csize = pos at *
    cases h1 : (RA z).readAt pos 16 with
    | ok x =>
      obtain ⟨d16, r1⟩ := x
      rw [h1] at h
      simp only at h
      obtain ⟨_, _, _, hb16, hr1⟩ := readAt_ra_some h1
      have hl16 : d16.length = 16 := by rw [hb16, List.length_take, List.length_drop]; omega
      have hc16 : fld d16 4 4 = fld (z.drop pos) 4 4 := by rw [hb16]; exact fld_take _ 16 4 4 (by omega)
      subst hr1
      split at h
      · cases h
      · split at h
        · cases h2 : (RA z).readAt (pos + 16) 8 with
          | ok x2 =>
            obtain ⟨d8, r2⟩ := x2
            rw [h2] at h
            simp only at h
            obtain ⟨_, _, _, hb8, _⟩ := readAt_ra_some h2
            have hl8 : d8.length = 8 := by rw [hb8, List.length_take, List.length_drop]; omega
            split at h
            · cases h
            · simp only [Res.ok.injEq, Prod.mk.injEq] at h
              obtain ⟨rfl, rfl, _⟩ := h
              refine ⟨?_, Or.inr (by simp [hl16, hl8])⟩
              rw [fld_append_left _ _ 4 4 (by omega), hc16]
          | err e => rw [h2] at h; cases h
          | panic s => rw [h2] at h; cases h
          | diverge => rw [h2] at h; cases h
        · simp only [Res.ok.injEq, Prod.mk.injEq] at h
          obtain ⟨rfl, rfl, _⟩ := h
          exact ⟨hc16, Or.inl hl16⟩
    | err e => rw [h1] at h; cases h
    | panic s => rw [h1] at h; cases h
    | diverge => rw [h1] at h; cases h

theorem entries_mem (z : Bytes) (lim : Nat) : ∀ (count at_ : Nat) (es : List Entry),
    entries z count at_ lim = some es → ∀ e ∈ es, ∃ at', entryAt z at' lim = some e := by
  intro count
  induction count with
  | zero =>
    intro at_ es h
    unfold entries at h
    split at h
    · cases h; intro e he; cases he
    · cases h
  | succ count ih =>
    intro at_ es h
    unfold entries at h
    simp only [Option.bind_eq_bind, Option.bind_eq_some_iff] at h
    obtain ⟨e, he, es', hes, h⟩ := h
    cases h
    intro x hx
    rcases List.mem_cons.mp hx with rfl | hx
    · exact ⟨_, he⟩
    · exact ih _ _ hes x hx

theorem specExtent_some {a : Archive} {sm : SpecZip.Member} (hw : widthOK a sm = true) : ∃ p, specExtent a sm = some p := by
  unfold specExtent
  cases hh : sm.descWidths with
  | nil => exact ⟨_, rfl⟩
  | cons x xs =>
    unfold widthOK at hw
    rw [hh] at hw
    simp only [List.isEmpty_cons, Bool.false_or] at hw
    cases htw : trueWidth a sm with
    | none => rw [htw] at hw; cases hw
    | some w => exact ⟨_, rfl⟩

/-- **a member of a readable archive, as relic measures it**: `GetTotalSize` succeeds on the directory
    entry, leaves name, sizes, CRC … as the directory has them, finds the data where the specification
    finds it, and the extent ends with the data (no descriptor) or with the descriptor of the true width. -/
theorem measured_member {z : Bytes} {a : Archive} {sm : SpecZip.Member} (at_ : Nat) (hp : parse z = some a)
    (h63 : z.length < 2 ^ 63) (hsigned : descSigned a = true) (hw : (a.members.all (widthOK a)) = true)
    (hm : sm ∈ a.members) :
    ∃ m l ddb, getTotalSize (RA z) (fileOf z at_ sm.entry) = .ok (m, RA z) ∧
      m.file = { fileOf z at_ sm.entry with lfh := some l, ddb := ddb } ∧ m.dataOff = sm.dataOff ∧
      (sm.entry.flags % 16 / 8 ≠ 1 → sm.entry.hoff + m.total = sm.dataOff + sm.entry.csize) ∧
      (sm.entry.flags % 16 / 8 = 1 → ∃ w, w ∈ sm.descWidths ∧ (w = 16 ∨ w = 24) ∧
        sm.entry.hoff + m.total = sm.dataOff + sm.entry.csize + w ∧ trueWidth a sm = some w) := by
  obtain ⟨hen, hsum, hes, hms, _⟩ := parse_some hp
  obtain ⟨p, hp22, _, _, _, _, hrest⟩ := ends_some hen
  have hcd : a.ends.cdOff + 22 ≤ z.length := by
    split at hrest
    · obtain ⟨_, _, hq, _, hf, _⟩ := hrest
      omega
    · have := hrest.1; omega
  have hne : a.members ≠ [] := List.ne_nil_of_mem hm
  have hlt := entries_lt z _ _ _ _ hes sm.entry (List.mem_map.mpr ⟨sm, hm, rfl⟩)
  simp only [descSigned, List.all_eq_true] at hsigned hw
  have hmo := mapM_memberOf_mem _ _ hms sm hm
  have hext := modelExtent_of_member (at_ := at_) hmo hcd h63 hlt (nexts_sig hp hne) (hsigned sm hm) (hw sm hm)
  obtain ⟨h30, hsig, hname, _, hflag, _, _, hdo, hdata, hdesc⟩ := memberOf_some hmo
  have hfresh : (fileOf z at_ sm.entry).fresh := ⟨rfl, rfl, rfl⟩
  -- the specification's extent exists
  unfold modelExtent at hext
  cases hg : getTotalSize (RA z) (fileOf z at_ sm.entry) with
  | ok x =>
    obtain ⟨m, r⟩ := x
    have hg' : getTotalSize ⟨z, false, 0⟩ (fileOf z at_ sm.entry) = .ok (m, r) := hg
    rw [hg'] at hext
    simp only at hext
    obtain ⟨l, ddb, c, hl, hdd, hfile, hmdo, hmt, hnl, hel⟩ := getTotalSize_ra hfresh hg
    obtain ⟨l', hl', lflags, lnl, lel, lnlen, lelen⟩ := readLocalHeader_ok z (fileOf z at_ sm.entry) rfl h63 hsig
      (by show sm.entry.hoff + 30 + fld (z.drop sm.entry.hoff) 26 2 + fld (z.drop sm.entry.hoff) 28 2 ≤ z.length; omega)
    have : l' = l := by
      have : readLocalHeader (RA z) (fileOf z at_ sm.entry) = .ok (l', RA z) := hl'
      rw [hl] at this
      simp only [Res.ok.injEq, Prod.mk.injEq] at this
      exact this.1.symm
    subst this
    have hoff : (fileOf z at_ sm.entry).offset = sm.entry.hoff := rfl
    rw [hoff] at lflags lnl lel lnlen lelen
    have hcsz : (fileOf z at_ sm.entry).csize = sm.entry.csize := rfl
    rw [hoff, lnl, lel] at hmdo
    rw [lnlen, lelen, hcsz] at hmt
    obtain ⟨hc0, hc1⟩ := readDataDesc_ra_crc (z := z) rfl hdd
    have hr : r = RA z := by
      unfold getTotalSize at hg
      rw [hl] at hg
      simp only at hg
      rw [hdd] at hg
      simp only [Res.ok.injEq, Prod.mk.injEq] at hg
      exact hg.2.symm
    subst hr
    by_cases hd : sm.entry.flags % 16 / 8 = 1
    · rw [if_pos hd] at hdesc
      obtain ⟨hws, hwne⟩ := hdesc
      have hfl : l'.flags % 16 / 8 ≠ 0 := by rw [lflags]; omega
      obtain ⟨hcrc, hdl⟩ := hc1 hfl
      -- the specification side
      unfold specExtent at hext
      cases htw : trueWidth a sm with
      | none =>
        rw [htw] at hext
        cases hh : sm.descWidths with
        | nil => exact absurd hh hwne
        | cons _ _ => rw [hh] at hext; cases hext
      | some w =>
        rw [htw] at hext
        have hext' : (m.dataOff, m.total) = (sm.dataOff, sm.dataOff + sm.entry.csize + w - sm.entry.hoff) := by
          cases hh : sm.descWidths with
          | nil => exact absurd hh hwne
          | cons _ _ => rw [hh] at hext; exact Option.some.inj hext
        obtain ⟨e1, e2⟩ := Prod.mk.inj hext'
        have hwmem : w ∈ sm.descWidths := by
          unfold trueWidth at htw
          exact List.mem_of_find?_eq_some htw
        -- relic's descriptor length is the true width
        have hwl : w = ddb.length := by
          rw [hmt] at e2
          omega
        have hw1624 : w = 16 ∨ w = 24 := by rw [hwl]; exact hdl
        -- the CRC
        have hcrcE : c = sm.entry.crc := by
          rw [hws] at hwmem
          obtain ⟨s, wd, hlen, _, _, hb⟩ := mem_descWidthsAt hwmem
          have hs : s = true := by
            have hl2 := hlen
            rw [descEnc_length] at hl2
            cases s
            · cases wd <;> simp at hl2 <;> omega
            · rfl
          subst hs
          have U := enc_fields hlen hb 1 (by cases wd <;> simp)
          simp only [if_true, List.cons_append, List.nil_append, List.getElem!_cons_zero, List.getElem!_cons_succ,
            Nat.mul_one] at U
          have hcrc32 : sm.entry.crc < 2 ^ 32 := by
            obtain ⟨at', hat⟩ := entries_mem z _ _ _ _ hes sm.entry (List.mem_map.mpr ⟨sm, hm, rfl⟩)
            exact (entryAt_bounds hat).2.2.2.2.2.2.1
          rw [hcrc, lnlen, lelen, hoff, hcsz]
          rw [show sm.entry.hoff + (30 + fld (z.drop sm.entry.hoff) 26 2 + fld (z.drop sm.entry.hoff) 28 2) + sm.entry.csize =
            sm.dataOff + sm.entry.csize by omega]
          rw [U, Nat.mod_eq_of_lt hcrc32]
        refine ⟨m, l', ddb, rfl, ?_, e1, fun c => absurd hd c, fun _ => ⟨w, hwmem, hw1624, ?_, rfl⟩⟩
        · rw [hfile, hcrcE]; rfl
        · rw [e2]; omega
    · rw [if_neg hd] at hdesc
      have hfl : l'.flags % 16 / 8 = 0 := by rw [lflags]; omega
      obtain ⟨hcrc, hdl⟩ := hc0 hfl
      unfold specExtent at hext
      rw [hdesc] at hext
      simp only at hext
      have hext' := Option.some.inj hext
      obtain ⟨e1, e2⟩ := Prod.mk.inj hext'
      refine ⟨m, l', ddb, rfl, ?_, e1, fun _ => ?_, fun c => absurd c hd⟩
      · rw [hfile, hcrc]
      · rw [e2]; omega
  | err e =>
    have hg' : getTotalSize ⟨z, false, 0⟩ (fileOf z at_ sm.entry) = .err e := hg
    rw [hg'] at hext
    obtain ⟨q, hq⟩ := specExtent_some (hw sm hm)
    rw [hq] at hext; cases hext
  | panic s =>
    have hg' : getTotalSize ⟨z, false, 0⟩ (fileOf z at_ sm.entry) = .panic s := hg
    rw [hg'] at hext
    obtain ⟨q, hq⟩ := specExtent_some (hw sm hm)
    rw [hq] at hext; cases hext
  | diverge =>
    have hg' : getTotalSize ⟨z, false, 0⟩ (fileOf z at_ sm.entry) = .diverge := hg
    rw [hg'] at hext
    obtain ⟨q, hq⟩ := specExtent_some (hw sm hm)
    rw [hq] at hext; cases hext
end Relic.Zip

/-
  C01 — "The accepted signature names the certificate … that was configured for the key".
  `signers.Signature.SignerName` prints the LDAP-style string of the certificate the verifier found; the appmanifest
  verifier accepts relic's own output when the identity comparison it makes (publicKeyToken) succeeds.
  Model `Relic.Model.Ident`; tied by the IDENT `sign` ops (real appmanifest signer and verifier) and `dn ldap` ops.
-/
import Relic.Proofs.IdentInj
import Relic.Proofs.IdentSign
namespace Relic.Props.C01
open Relic Relic.Ident

/-- `SignerName` = "`" + LDAP string + "`" -/
def signerName (n : Name) : Bytes := 96 :: (formatParsed .ldap n ++ [96])

/-- **signer_name_names_certificate_partial.**  Distinct subjects (non-empty RDNs, string values) have distinct signer names. -/
theorem signer_name_names_certificate_partial (n n' : Name) (hn : InjClass n) (hn' : InjClass n')
    (h : signerName n = signerName n') : n = n' := by
  have h2 : formatParsed .ldap n = formatParsed .ldap n' := by
    simp only [signerName, List.cons.injEq, true_and] at h
    exact List.append_cancel_right h
  exact formatParsed_injective .ldap (Or.inl rfl) n n' hn hn' h2

example : signerName [[⟨[2, 5, 4, 3], .str (ascii "a")⟩]] = ascii "`CN=a`" := by decide

/-- **appmanifest_identity_sign_then_verify_partial.**  The identity comparison of `appmanifest.Verify` accepts what
    `appmanifest.Sign` wrote for the same key, unless a namespace-prefixed `publicKeyToken` attribute shadows the token. -/
theorem appmanifest_identity_sign_then_verify_partial {α} (sha1 : Bytes → Bytes) (m m' : Manifest α) (c : Loaded)
    (h : signIdent sha1 m c = .ok m') (attrs : List XAttr) (ha : m.asi = some attrs)
    (hp : NoPrefixedBefore "publicKeyToken" attrs) : verifyIdent sha1 m' c.leaf.key = .ok () :=
  verifyIdent_signed sha1 m m' c h attrs ha hp

example : NoPrefixedBefore "publicKeyToken" [⟨"", "name", "App.exe"⟩, ⟨"", "publicKeyToken", "00"⟩] := by decide

/-- the shadowing case: the token relic reads back is not the one it wrote -/
theorem appmanifest_identity_shadowed_token :
    attrValue "publicKeyToken" (createAttr "publicKeyToken" "0123456789abcdef" [⟨"q", "publicKeyToken", "x"⟩]) = "x" := by
  decide

/-- a 31-bit RSA exponent signs but does not verify (xmldsig.parsePublicKey refuses more than 30 bits) -/
theorem appmanifest_exponent_gap : xmlKeyValueOk (.rsa 35 (2 ^ 31 - 1)) = false := by decide

end Relic.Props.C01

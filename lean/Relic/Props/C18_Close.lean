/-
  C18 (fragment) — Layer 3 of the comdoc writer (partial): the fixed point of `allocSectorTables`.

  `Close` is modelled (`Relic.CfbW.close`: writeShortSAT, writeDirStream, allocSectorTables, header
  counts, truncation) and tied to the real code on every history, including what relic's READER finds
  after re-opening the written file.  Proved here: when `allocSectorTables` returns, the number of FAT
  sectors it lists equals the number of blocks of the FAT – so the reader, which sizes its table as
  `SATSectors * (SectorSize/4)`, finds a table of exactly the written length – and enough DIFAT sectors
  are listed; tables only grow.  NOT proved: the same for the byte-level reader model `Relic.Cfb`
  (`close_counts_full`): sector contents are not modelled.
-/
import Relic.Proofs.CfbWriter
import Relic.Model.Cfb
namespace Relic.Props.C18
open Relic Relic.CfbW

theorem makeFree_one {spb : Nat} {sat : List Int} {x : Nat} {rest : List Nat} {sat1 : List Int}
    (h : makeFree spb sat 1 = .ok (x :: rest, sat1)) :
    x < sat1.length ∧ ∃ k, sat1.length = sat.length + k * spb := by
  have f := makeFree_spec h
  obtain ⟨k, hk⟩ := f.ext
  exact ⟨(List.getElem?_eq_some_iff.mp (f.isFree x List.mem_cons_self)).1, k, by rw [hk]; simp⟩

/-- **allocTables_counts.** -/
theorem allocTables_counts (ss : Nat) : ∀ (fuel : Nat) (sat msat ml sat' msat' ml' : List Int),
    msat.length ≤ sat.length / (ss / 4) →
    allocTables ss fuel sat msat ml = .ok (sat', msat', ml') →
    msat'.length = sat'.length / (ss / 4) ∧ sat'.length % (ss / 4) = 0 ∧
    Int.tdiv ((msat'.length : Int) - 109 + ((ss / 4 - 1 : Nat) : Int) - 1) ((ss / 4 - 1 : Nat) : Int) ≤ (ml'.length : Int) ∧
    (∃ k, sat'.length = sat.length + k * (ss / 4)) ∧ (∃ m, msat' = msat ++ m) ∧ (∃ m, ml' = ml ++ m) := by
  intro fuel
  induction fuel with
  | zero => intro sat msat ml sat' msat' ml' _ h; simp [allocTables] at h
  | succ fuel ih =>
    intro sat msat ml sat' msat' ml' hinv h
    unfold allocTables at h
    simp only at h
    split at h
    · cases h
    · rename_i hspb
      split at h
      · cases h
      · rename_i hmod
        have hmod : sat.length % (ss / 4) = 0 := by omega
        split at h
        · -- a new FAT sector
          rename_i hgt
          split at h
          · rename_i x rest sat1 hm
            obtain ⟨hx, k, hk⟩ := makeFree_one hm
            rw [setChk_ok _ _ hx] at h
            simp only at h
            have hinv' : (msat ++ [(x : Int)]).length ≤ (sat1.set x FATSECT).length / (ss / 4) := by
              simp only [List.length_append, List.length_singleton, List.length_set, hk]
              have : (sat.length + k * (ss / 4)) / (ss / 4) = sat.length / (ss / 4) + k := by
                rw [Nat.add_mul_div_right _ _ (Nat.pos_of_ne_zero hspb)]
              omega
            obtain ⟨r1, r2, r3, ⟨k', r4⟩, ⟨m, r5⟩, r6⟩ := ih _ _ _ _ _ _ hinv' h
            refine ⟨r1, r2, r3, ⟨k + k', ?_⟩, ⟨(x : Int) :: m, by simp [r5]⟩, r6⟩
            simp only [List.length_set, hk] at r4
            rw [r4, Nat.add_mul]; omega
          all_goals cases h
        · rename_i hle
          split at h
          · cases h
          · split at h
            · -- a new DIFAT sector
              split at h
              · rename_i x rest sat1 hm
                obtain ⟨hx, k, hk⟩ := makeFree_one hm
                rw [setChk_ok _ _ hx] at h
                simp only at h
                have hinv' : msat.length ≤ (sat1.set x DIFSECT).length / (ss / 4) := by
                  simp only [List.length_set, hk]
                  have : (sat.length + k * (ss / 4)) / (ss / 4) = sat.length / (ss / 4) + k := by
                    rw [Nat.add_mul_div_right _ _ (Nat.pos_of_ne_zero hspb)]
                  omega
                obtain ⟨r1, r2, r3, ⟨k', r4⟩, r5, ⟨m, r6⟩⟩ := ih _ _ _ _ _ _ hinv' h
                refine ⟨r1, r2, r3, ⟨k + k', ?_⟩, r5, ⟨(x : Int) :: m, by simp [r6]⟩⟩
                simp only [List.length_set, hk] at r4
                rw [r4, Nat.add_mul]; omega
              all_goals cases h
            · rename_i hneed
              cases h
              exact ⟨by omega, hmod, by omega, ⟨0, by simp⟩, ⟨[], by simp⟩, ⟨[], by simp⟩⟩

example : allocTables 16 20 [EOC, 0, FATSECT, FREE] [2] [] = .ok ([EOC, 0, FATSECT, FREE], [2], []) := by decide
example : allocTables 16 20 [EOC, 0, 1, 2, 3, 4, 5, 6] [] [] =
    .ok ([EOC, 0, 1, 2, 3, 4, 5, 6, FATSECT, FATSECT, FATSECT, FREE], [8, 9, 10], []) := by decide

/-- the statement against the byte-level reader (NOT proved; checked on every run: the tables relic's reader
    finds after re-opening the written file are compared with the model's tables after `close`) -/
def close_counts_full (written : St → Option Cfb.Buf) : Prop :=
  ∀ st st' b, close st = .ok st' → st.changed = true → written st' = some b →
    ∃ h, Cfb.readHeader b = .ok h ∧ h.numFatSectors = st'.msat.length ∧ h.numDifat = st'.msatList.length ∧
      h.numMiniFat = st'.ssatCount ∧ h.firstDir = (st'.dirStart.toNat) ∧ b.size = (st'.fileSectors + 1) * st'.a.ss

end Relic.Props.C18

/- what `cabfile.Digest` has checked when it found a signature header (`cab.SignatureHeader != nil`): the signed layout -/
import Relic.Proofs.CabSign
namespace Relic.Cab
open Relic
open Relic.PE (seg u16 u32 ceil8 seg_length seg_append seg_self)

structure ReserveSig (f : Bytes) (total : Nat) (rv : Reserve) : Prop where
  len : 60 ≤ f.length
  hs : u16 f 36 = 20
  fsz : u8 f 38 = 0
  dsz : u8 f 39 = 0
  cabSize : u32 f 44 = total
  cur : rv.cur = 60
  delta : rv.delta = 0
  sigSize : rv.sigSize = u32 f 48
  u3 : rv.u3 = seg f 56 60

theorem readReserve_hasSig (f : Bytes) (total : Nat) (rv : Reserve) (e : readReserve f total = .ok rv)
    (hsig : rv.hasSig = true) : ReserveSig f total rv := by
  unfold readReserve at e
  by_cases c1 : f.length < 40
  · simp [c1] at e
  rw [if_neg c1] at e
  have hs16 := u16_lt f 36
  generalize hhs : u16 f 36 = hs at e hs16
  by_cases c2 : hs < 20 ∨ u8 f 38 ≠ 0 ∨ u8 f 39 ≠ 0
  · simp [c2] at e
  rw [if_neg c2] at e
  by_cases c3 : f.length < 60
  · simp [c3] at e
  rw [if_neg c3] at e
  simp only at e
  by_cases c4 : 0 < hs - 20
  · rw [if_pos c4] at e
    by_cases c5 : u32 f 44 ≠ 0
    · simp [c5] at e
    rw [if_neg c5] at e
    by_cases c6 : f.length < 60 + (hs - 20)
    · simp [c6] at e
    rw [if_neg c6] at e
    split at e
    · contradiction
    · injection e with e
      subst e
      simp at hsig
  · rw [if_neg c4] at e
    split at e
    · contradiction
    · rename_i hne
      injection e with e
      subst e
      have h38 : u8 f 38 = 0 := by
        by_cases h : u8 f 38 = 0
        · exact h
        · exact absurd (Or.inr (Or.inl h)) c2
      have h39 : u8 f 39 = 0 := by
        by_cases h : u8 f 39 = 0
        · exact h
        · exact absurd (Or.inr (Or.inr h)) c2
      have hne' : total = u32 f 44 := by simpa using hne
      exact ⟨by omega, by omega, h38, h39, hne'.symm, rfl, rfl, rfl, rfl⟩

/-- what a successful `cabfile.Digest` that found a signature header has checked -/
structure DigestSig (f : Bytes) (d : Digest) : Prop where
  len : 60 ≤ f.length
  flags : u16 f 30 = 4
  hs : u16 f 36 = 20
  fsz : u8 f 38 = 0
  dsz : u8 f 39 = 0
  cabSize : u32 f 44 = d.total
  fs : d.foldersStart = 60
  delta : d.delta = 0
  sigSize : d.oldSigSize = u32 f 48
  u3 : d.hdr.u3 = seg f 56 60

theorem DigestCab_hasSig (f : Bytes) (d : Digest) (e : DigestCab f = .ok d) (hsig : d.hasSig = true) : DigestSig f d := by
  unfold DigestCab at e
  by_cases c1 : f.length < 36
  · simp [c1] at e
  rw [if_neg c1] at e
  by_cases c2 : u32 f 0 ≠ 0x4643534d
  · simp [c2] at e
  rw [if_neg c2] at e
  simp only at e
  generalize hfl : u16 f 30 = fl at e
  cases hr : (if fl / 4 % 2 = 1 then readReserve f (u32 f 8) else .ok noReserve) with
  | err _ => simp [hr] at e
  | panic _ => simp [hr] at e
  | diverge => simp [hr] at e
  | ok rv =>
    simp only [hr] at e
    by_cases c3 : fl % 4 ≠ 0
    · simp [c3] at e
    rw [if_neg c3] at e
    by_cases c4 : 8 ≤ fl
    · simp [c4] at e
    rw [if_neg c4] at e
    have hof : (if fl / 4 % 2 = 1 then fl else fl + 4) = 4 := by split <;> omega
    rw [hof] at e
    by_cases c5 : f.length < rv.cur + 8 * u16 f 26
    · simp [c5] at e
    rw [if_neg c5] at e
    by_cases c6 : f.length < rv.cur + 8 * u16 f 26 + (u32 f 8 + 2 ^ 32 - u32 f 16) % 2 ^ 32
    · simp [c6] at e
    rw [if_neg c6] at e
    by_cases c7 : rv.hasSig = true ∧ f.length < rv.cur + 8 * u16 f 26 + (u32 f 8 + 2 ^ 32 - u32 f 16) % 2 ^ 32 + rv.sigSize
    · simp [c7] at e
    rw [if_neg c7] at e
    cases hrs : rv.hasSig with
    | false =>
      simp only [hrs, ↓reduceIte, Bool.false_eq_true, false_and] at e
      split at e
      · cases e
      · injection e with e
        subst e
        simp at hsig
    | true =>
      have hres : fl / 4 % 2 = 1 := by
        by_cases c : fl / 4 % 2 = 1
        · exact c
        · rw [if_neg c] at hr
          injection hr with hr
          subst hr
          simp [noReserve] at hrs
      rw [if_pos hres] at hr
      have RS := readReserve_hasSig f _ rv hr hrs
      simp only [hrs, ↓reduceIte, true_and] at e
      split at e
      · cases e
      · injection e with e
        subst e
        exact ⟨RS.len, by omega, RS.hs, RS.fsz, RS.dsz, RS.cabSize, RS.cur, RS.delta, RS.sigSize, RS.u3⟩

theorem leBytes2_u16 (f : Bytes) (o : Nat) (h : o + 2 ≤ f.length) : leBytes 2 (u16 f o) = seg f o (o + 2) := by
  unfold u16
  have l : (seg f o (o + 2)).length = 2 := by rw [seg_length f _ _ h]; omega
  have := leBytes_leVal (seg f o (o + 2))
  rw [l] at this
  exact this

end Relic.Cab

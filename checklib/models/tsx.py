"""TSX ops — the surroundings of relic's time-stamping client: pool selection (internal/signinit + tsclient), the rate
limiter (lib/pkcs9/ratelimit over golang.org/x/time/rate), the memcache key (lib/pkcs9/timestampcache) and every
attach site through the real signer modules.  Model: Relic.Model.TsaPool, driver Relic.Driver.TsaX, harness
harness/c10/c10x.go.  Runs as a second correspondence of C10 (all kinds), C14 (conc) and C16 (cachert)."""
import hashlib, re, subprocess
from collections import Counter
from concurrent.futures import ThreadPoolExecutor
import runner

TIE = "corr:tsx"
TIE_THEOREM = ("Relic.Props.C10.named_pool_selection / rate_limit_preserves_outcome / cache_key_binds_request / attach_site_*_genuine "
               "(model Relic.Model.TsaPool) vs internal/signinit.Init + tsclient.New pipeline + ratelimit + timestampcache + the signer modules")
RULE = ("TSX ops. pool: real signinit.Init over a YAML configuration read by config.ReadFile (key options timestamp / timestamper x 11 spellings of "
        "the no-timestamp flag x with / without a timestamp section x RFC 3161 / legacy x default, legacy and named URL lists of 0..3 URLs, pool "
        "names incl. unknown, case variants, dashes, blanks, 200 characters), then the appmanifest signer against the scripted fake authority; "
        "the URLs contacted are compared with the model's selection. ckeys: two requests through timestampcache + tsclient against a fake "
        "memcached that records keys: pairs differing in exactly one of legacy / pool name / hash / signature value, look-alike name+hash "
        "concatenations, key-length boundary 250 and forbidden bytes, memcached down. rate: real ratelimit.New around a scripted inner "
        "time-stamper, rates 10..100/s and non-positive, bursts -1..5, sequential calls with background / pre-cancelled / deadline shorter or "
        "longer than the wait / cancelled during the wait contexts; return times compared with the model's (never early; late by < 3 s). "
        "wire: cache outside limiter outside client in tsclient.New. site: every signer module (pe-coff, msi, cab, ps, xap, cat, appx, jar, "
        "dmg, xar, appmanifest RFC 3161 and legacy, vsix, cosign, apk) with RSA and ECDSA leaves valid from day -30 to day -10, the authority "
        "attesting day -31 / -30 / -20 / -10 / -9 / 0, first URL failing, second valid; modes direct / cache miss / foreign cache entry / "
        "time-stamping off / all authorities failing; the produced file goes through relic's verifier and VerifyChain. conc: 2..24 concurrent "
        "signing operations through one shared client (limiter, cache, three pools). cachert: token bytes authority -> cache -> attribute. "
        "Non-trivial = distinct op that reaches the pool selection with time-stamping wanted, the cache, the limiter or a signer module.")
ASSUMPTIONS = ["golang.org/x/time/rate is modelled for n = 1 with integer ticks (its float64 rounding is not modelled; calls on one limiter are "
               "serialised in the rate ops, concurrent use is only checked against the lower bound (n - burst) x period)",
               "SHA-256 in the memcache key is a parameter D with 64 output characters; 'equal keys => equal requests' assumes D separates the two "
               "signature values (explicit hypothesis)",
               "pool names are ASCII (one character = one byte for gomemcache's 250-byte key limit)",
               "YAML decoding of the timestamp section (gopkg.in/yaml.v3) is exercised, not modelled; map keys are distinct"]
TRUSTED = ["model Relic.Model.TsaPool is hand-written; tied by differential execution on every run",
           "harness/c10/c10x.go: fake memcached, scripted inner time-stamper, harness-owned PKI, error classification",
           "hooks internal/signinit/hooks_verif.go + verifhooks/tsx (drop the process-wide cached time-stamper between configurations)"]
IMPL_PARALLEL = 16
SLACK_MS = 3000
T = "Relic.Props.C10."


def _name(h):
    return "" if h == "-" else bytes.fromhex(h).decode("latin-1")


def parse_bool(s):
    return s in ("1", "t", "T", "TRUE", "true", "True")


def canon_impl(il):
    i = il.find(" || ")
    return (il, "") if i < 0 else (il[:i], il[i + 4:])


def canon_model(op, mres):
    def sub(m):
        return hashlib.sha256(bytes.fromhex(m.group(1))).hexdigest()
    return re.sub(r"@([0-9a-f]*)", sub, mres)


def _kv(s):
    return dict(p.split("=", 1) for p in s.split() if "=" in p)


def parse_pool(f):
    """fields after 'TSX pool'"""
    kts, kname, nots, section, style = f[0] == "1", _name(f[1]), f[2], f[3] == "1", f[4]
    d, m, k = int(f[5]), int(f[6]), int(f[7])
    pos, at, named = 8, d + m, {}
    for _ in range(k):
        n = int(f[pos + 1])
        named[_name(f[pos])] = list(range(at, at + n))
        at += n
        pos += 2
    return dict(kts=kts, kname=kname, nots=nots, section=section, legacy=style == "legacy", urls=list(range(d)),
                ms=list(range(d, d + m)), named=named, script=f[pos:])


ACCEPT_RFC = {"valid", "mods", "dwrap", "rogue"}
ACCEPT_LEGACY = {"valid", "rogue"}


def pred_pool(f, il):
    p = parse_pool(f)
    r = il.split()
    kv = _kv(il)
    contacted = [] if kv.get("contacted", "-") == "-" else [int(x) for x in kv["contacted"].split(",")]
    wanted = (p["kts"] or p["kname"] != "") and not (p["nots"] != "-" and parse_bool(p["nots"]))
    if r[0] == "panic":
        return (T + "never_silently_omitted_pools", "ok or err", "signing crashed")
    if not wanted:
        if r[:2] != ["ok", "none"] or contacted:
            return (T + "named_pool_selection", "ok none, nobody contacted", "time-stamping was not asked for (key options / no-timestamp flag)")
        return None
    if r[:2] == ["ok", "none"]:
        return (T + "never_silently_omitted_pools", "a timestamp or an error", "time-stamping configured for the key and not disabled, "
                "yet the signature came out without a timestamp and without an error")
    if not p["section"]:
        chosen = None
    elif p["kname"] != "":
        chosen = p["named"].get(p["kname"], [])
    elif p["legacy"]:
        chosen = p["ms"]
    else:
        chosen = p["urls"]
    if not chosen:
        if r[0] != "err" or contacted:
            return (T + "unknown_pool_is_error", "an error, nobody contacted",
                    "no authority list exists for this request (section=%s name=%r legacy=%s)" % (p["section"], p["kname"], p["legacy"]))
        return None
    if contacted != chosen[:len(contacted)]:
        return (T + "named_pool_selection", "a prefix of %s" % chosen, "authorities contacted %s: not the list the key's configuration selects" % contacted)
    acc = ACCEPT_LEGACY if p["legacy"] else ACCEPT_RFC
    first = next((u for u in chosen if p["script"][u] in acc), None)
    if r[0] == "ok":
        if not r[1].startswith("url") or int(r[1][3:]) != first:
            return (T + "named_pool_selection", "ok url%s" % first, "token attached from %s" % r[1])
    elif first is not None:
        return (T + "never_silently_omitted_pools", "ok url%d" % first, "signing failed although authority %d of the selected list gives an acceptable reply" % first)
    elif len(contacted) != len(chosen):
        return (T + "named_pool_selection", str(chosen), "not every authority of the selected list was tried before giving up: %s" % contacted)
    return None


def parse_ck(f):
    a = (f[0] == "1", _name(f[1]), int(f[2]), f[3])
    b = (f[4] == "1", _name(f[5]), int(f[6]), f[7])
    return a, b, f[8]


def _ck_parts(il):
    m = re.match(r"A\[(.*)\] B\[(.*)\] stored=(\d+)$", il)
    return m.groups() if m else None


def _legal(key):
    return len(key) <= 250 and all(ord(c) > 32 and ord(c) != 127 for c in key)


def _key(q):
    return "%s%s-%d-%s" % ("msft" if q[0] else "pkcs9", q[1], q[2], hashlib.sha256(bytes.fromhex(q[3])).hexdigest())


def pred_ckeys(f, il):
    a, b, mode = parse_ck(f)
    parts = _ck_parts(il)
    if not parts:
        return (T + "cache_key_binds_request", "A[..] B[..]", "unparseable implementation result")
    ra, rb, _ = parts
    for who, r in (("A", ra), ("B", rb)):
        if not r.startswith("ok "):
            return (T + "cache_never_changes_outcome", "ok", "request %s failed: %s" % (who, r))
        if _kv(r).get("fits") != "1":
            return (T + "cache_key_binds_request", "fits=1", "request %s was given a token that does not fit it (%s)" % (who, r))
    sa, sb = ra.split()[1], rb.split()[1]
    if sa == "cache":
        return (T + "cache_key_binds_request", "a miss", "first request served from an empty cache")
    if sb == "cache" and a != b:
        return (T + "cache_key_binds_request", "a miss",
                "a request differing in %s was served the other request's token from the cache" %
                ",".join(n for n, x, y in zip(("legacy", "pool", "hash", "signature value"), a, b) if x != y))
    if a == b and mode == "up" and _legal(_key(a)) and sb != "cache":
        return (T + "cache_hit_honest", "ok cache", "the same request again was not served from the cache")
    return None


def parse_rate(f):
    rate, burst, n, spec = int(f[0]), int(f[1]), int(f[2]), f[3].split(":")
    special = int(spec[1]) if spec[0] != "none" else -1
    return rate, burst, n, spec[0], special, f[4:4 + n]


def _times(s):
    return [int(x) for x in re.split(r"[ ,]+", s.strip()) if x]


def pred_rate(f, il, times, tag):
    rate, burst, n, kind, special, script = parse_rate(f)
    r = il.split()
    if r[0] != "ok" or len(r) != n + 1:
        return (T + "rate_limit_preserves_outcome", "one result per call", "unparseable implementation result")
    for i, (x, b) in enumerate(zip(r[1:], script)):
        cls, reached = x.split("/")
        if cls in ("tok", "fail"):
            if cls != ("tok" if b == "ok" else "fail") or reached != "1":
                return (T + "rate_limit_preserves_outcome", "the wrapped time-stamper's result, reached once",
                        "call %d: %s although the wrapped time-stamper answers %s" % (i, x, b))
        elif cls in ("canceled", "deadline", "rate-deadline"):
            if reached != "0":
                return (T + "rate_limit_never_skips", "not reached", "call %d refused by the limiter (%s) but the wrapped time-stamper was called" % (i, cls))
            if i != special:
                return (T + "rate_limit_preserves_outcome", "the wrapped time-stamper's result", "call %d refused (%s) under a background context" % (i, cls))
        else:
            return (T + "rate_limit_preserves_outcome", "tok|fail|context error", "call %d: %s" % (i, x))
    want = _times(tag[2:]) if tag.startswith("t=") else []
    got = _times(times)
    # the bucket's own guarantee, independent of the model: the k-th call let through (k = 1, 2, ...) is not earlier than
    # (k - burst) periods after the limiter was made; with a non-positive rate at most `burst` calls are ever let through
    if rate != 0 and len(got) == n:
        b = max(1, burst)
        k = 0
        for i, x in enumerate(r[1:]):
            if x.split("/")[1] != "1":
                continue
            k += 1
            if rate < 0 and k > b:
                return (T + "nonpositive_rate_starves", "at most %d calls let through" % b, "call %d was let through by a limiter that never refills" % i)
            if rate > 0 and got[i] < (k - b) * (1000000 // rate) - 2:
                return (T + "rate_limit_waits", ">= %d ms" % ((k - b) * (1000000 // rate)),
                        "call %d (number %d let through, burst %d) returned after %d ms" % (i, k, b, got[i]))
    if len(want) == len(got) == n:
        for i, (w, g) in enumerate(zip(want, got)):
            if g < w - 2:
                return (T + "rate_limit_waits", ">= %d ms" % w, "call %d returned after %d ms: the limiter let it through early (times %s, model %s)" % (i, g, got, want))
            if g > w + SLACK_MS:
                return (T + "rate_limit_wait_bounded", "<= %d ms" % (w + SLACK_MS), "call %d returned after %d ms (times %s, model %s)" % (i, g, got, want))
    return None


def pred_wire(f, il, times, tag):
    mode = f[0]
    r = il.split()
    got = _times(times)
    if r[0] != "ok" or len(r) != 3 or len(got) != 2:
        return (T + "cache_outside_limiter", "two results", "unparseable implementation result")
    if "fits=1" not in r[1] or "fits=1" not in r[2]:
        return (T + "cache_key_binds_request", "fits=1", "a request was given a token that does not fit it")
    gap = got[1] - got[0]      # between the two returns; the limiter's clock starts when the FIRST call enters it
    if mode == "hit" and (not r[2].startswith("cache") or gap > 400):
        return (T + "cache_outside_limiter", "second from the cache without waiting", "second=%s after %d ms" % (r[2], gap))
    if mode == "miss" and (not r[2].startswith("url0") or got[1] < 498):
        return (T + "rate_limit_waits", "second from the authority not before 500 ms", "second=%s at %d ms" % (r[2], got[1]))
    if mode == "nolim" and gap > 400:
        return (T + "no_limiter_when_rate_zero", "no wait", "second after %d ms" % gap)
    return None


SITES = {"pe-coff": "cms", "msi": "cms", "cab": "cms", "ps": "cms", "xap": "cms", "cat": "cms", "appx": "cms", "jar": "cms", "dmg": "cms",
         "xar": "cms", "macho": "cms", "appmanifest": "manifest", "vsix": "vsix", "cosign": "cosign", "apk": "unsupported"}


def pred_site(f, il):
    typ, key, hn, att, mode, flags = f[0], f[1], f[2], int(f[3]), f[4], f[5]
    site = SITES.get(typ, "?")
    thm = T + "attach_site_%s_genuine" % site
    if il.startswith("panic") or il.startswith("crash"):
        return (T + "never_silently_omitted_pools", "ok or err", "signer crashed: " + il[:200])
    if site == "unsupported" or mode == "off":
        if not il.startswith("ok signed reqs=0 given=none") or "verify[none " not in il:
            return (T + "unsupported_site_never_asks", "signed, no request, no timestamp", il[:200])
        return None
    if mode == "fail":
        if not il.startswith("err "):
            return (T + "never_silently_omitted_pools", "an error", "every authority failed, yet signing did not fail")
        return None
    if il.startswith("err "):
        if mode == "foreign" and il.startswith("err selfcheck:"):
            return None     # the attach site refused the foreign token
        return (T + "never_silently_omitted_pools", "ok", "signing failed although the second authority is valid: " + il[:200])
    m = re.search(r"given=(\w+).* verify\[(.*)\]$", il)
    if not il.startswith("ok signed") or not m:
        return (thm, "ok signed ...", "unparseable implementation result")
    given, v = m.groups()
    if given != "this":
        return (thm, "the token of THIS signature value", "the signer module emitted a signature carrying a token that was not issued for its "
                "signature value (given=%s; relic's verifier says: %s)" % (given, v))
    if v.startswith("err") or v.startswith("none"):
        return (thm, "verifies with a countersignature", "relic's verifier: " + v)
    parts = v.split(" & ")[0].split()
    kv = _kv(v.split(" & ")[0])
    if mode == "foreign":
        return (T + "cached_token_still_checked_sites", "err selfcheck", "a foreign cache entry ended up in a signature that verifies")
    if parts[0] != "url1" or kv.get("same") != "1":
        return (thm, "url1 same=1", "the countersignature reported by the verifier is not the token the client returned: " + v)
    want_oid = {"pe-coff": "spc", "msi": "spc", "cab": "spc", "ps": "spc", "xap": "spc", "appx": "spc", "cat": "spc",
                "jar": "tst", "dmg": "tst", "macho": "tst", "xar": "tst"}.get(typ, "-")
    if kv.get("oid") != want_oid:
        return (T + "site_attribute_oid", "oid=" + want_oid, "the token sits under another attribute than the format prescribes: " + v)
    if kv.get("ed") == "0":
        return (thm, "ed=1", "the time-stamped value is not the EncryptedDigest of the signer info the verifier reports")
    if kv.get("at") != str(att):
        return (T + "site_judged_at_attested_time", "at=%d" % att, "attested time reported as " + kv.get("at", "?"))
    want = "chain-ok" if -30 <= att <= -10 else "chain"
    if parts[-1] != want:
        return (T + "site_judged_at_attested_time", want, "leaf valid from day -30 to day -10, attested day %d: verdict %s" % (att, parts[-1]))
    legacy = "rfc3161-timestamp=false" in flags and typ == "appmanifest"
    if ("legacy=1" in il) != legacy:
        return (thm, "legacy=%d" % legacy, "request style")
    if "reqhash=" + hn not in il:
        return (thm, "reqhash=" + hn, "the request names another hash than the signature's")
    return None


def pred_conc(f, il, times, tag, prop):
    n = int(f[0])
    r = il.split()
    res = r[1:1 + n]
    thm = ("Relic.Props.C14." if prop == "C14" else T) + "shared_stamper_order_irrelevant"
    if r[0] != "ok" or len(res) != n:
        return (thm, "n results", "unparseable implementation result")
    bad = [(i, x) for i, x in enumerate(res) if x != "own"]
    if bad:
        return (thm, "own", "concurrent request %d got %s instead of a token for its own signature value from its own pool" % bad[0])
    got = _times(times)
    want = int(tag[5:]) if tag.startswith("tmin=") else 0
    if got and got[0] < want - 2:
        return (T + "rate_limit_waits", ">= %d ms" % want, "%d requests through one limiter finished after %d ms" % (n, got[0]))
    return None


def pred_cachert(f, il, prop):
    thm = "Relic.Props.C16.cache_roundtrip_same_token" if prop == "C16" else T + "cache_hit_honest"
    if il != "ok second=cache stored=1 again=1 attr=1 inattr=1 fits=1":
        return (thm, "ok second=cache stored=1 again=1 attr=1 inattr=1 fits=1",
                "token bytes changed between the authority's reply, the cache entry, the cache hit and the attribute value")
    return None


def predicate(prop, op, il, times, mres, tag):
    f = op.split()
    kind, rest = f[1], f[2:]
    if il.startswith("crash") or il == "not-run":
        return (T + "never_silently_omitted_pools", mres, "implementation process died")
    if kind == "pool":
        return pred_pool(rest, il)
    if kind == "ckeys":
        return pred_ckeys(rest, il)
    if kind == "rate":
        return pred_rate(rest, il, times, tag)
    if kind == "wire":
        return pred_wire(rest, il, times, tag)
    if kind == "site":
        return pred_site(rest, il)
    if kind == "conc":
        return pred_conc(rest, il, times, tag, prop)
    if kind == "cachert":
        return pred_cachert(rest, il, prop)
    return None


def nontrivial(op, mres, tag):
    f = op.split()
    if f[1] == "pool":
        return not mres.startswith("ok none")
    if f[1] == "site":
        return "reqs=0" not in mres
    return True


def branch(op, mres, tag):
    f = op.split()
    r = mres.split(" ")
    if f[1] == "pool":
        return "pool:%s:%s" % (f[6], " ".join(r[:2]) if r[0] == "err" else r[0] + (" none" if r[1] == "none" else " attached"))
    if f[1] == "site":
        v = re.search(r"verify\[(\w+)", mres)
        return "site:%s:%s:%s" % (f[2], f[6], r[0] + (":" + r[1] if r[0] == "err" else ":" + (v.group(1) if v else "?")))
    if f[1] == "ckeys":
        m = _ck_parts(mres)
        return "ckeys:%s/%s" % (m[0].split()[1][:3], m[1].split()[1][:3]) if m else "ckeys:?"
    if f[1] == "rate":
        return "rate:" + f[5].split(":")[0] + ":" + ",".join(sorted({x.split("/")[0] for x in r[1:]}))
    return f[1] + ":" + (f[2] if len(f) > 2 and f[1] in ("wire", "cachert") else r[0])


def matches_known(k, op, il, mres, tag):
    """no TSX result is a listed finding (F52-vsix-unchecked-token is fixed: a163120; its op is a regression op in
    corpus/C10/vsix-unchecked-token.ops whose expected result is the refusal at signing time)"""
    return False


def weight_of(op):
    k = op.split()[1]
    return {"rate": 6, "conc": 5, "wire": 8, "site": 2}.get(k, 1)


def run(ctx, prop):
    """the TSX correspondence of one property; returns (coverage, findings, known hits)"""
    pseudo = prop + "X"
    env = dict(runner.GOENV, VERIF_SEED=str(ctx["seed"]), VERIF_TIER=ctx["tier"])
    if ctx.get("replay_ops") is not None:
        ops = [l for l in ctx["replay_ops"] if l.startswith("TSX ")]
    else:
        g = subprocess.run([runner.VH, pseudo, "gen"], stdout=subprocess.PIPE, stderr=subprocess.PIPE, text=True, env=env)
        if g.returncode != 0:
            raise runner.Broken("vh %s gen failed" % pseudo, g.stderr[-2000:])
        ops = [l for l in runner.corpus_lines(prop) if l.startswith("TSX ")] + [l for l in g.stdout.split("\n") if l]
    if not ops:
        return {}, [], []
    # spread the slow (timed) ops over the worker processes
    order = sorted(range(len(ops)), key=lambda i: (-weight_of(ops[i]), i))
    nproc = max(1, min(IMPL_PARALLEL, len(ops) // 8 + 1))
    buckets = [[] for _ in range(nproc)]
    for j, i in enumerate(order):
        buckets[j % nproc].append(i)

    def one(b):
        return runner.run_lines([runner.VH, pseudo, "impl"], [ops[i] for i in b], env=env, parallel=1, timeout=3600)
    impl = [None] * len(ops)
    with ThreadPoolExecutor(max_workers=nproc) as ex:
        for b, out in zip(buckets, ex.map(one, buckets)):
            for i, l in zip(b, out):
                impl[i] = l
    model = runner.run_lines([runner.DRIVER], ops, parallel=runner.NCPU)
    # timed ops (limiter waits measured in real time) that disagree are repeated alone, on a quieter machine, before
    # they count: a stall of the process longer than the margins of the generator flips a deadline decision
    for i, (op, il0, ml) in enumerate(zip(ops, impl, model)):
        if op.split()[1] not in ("rate", "wire", "conc"):
            continue
        for _ in range(2):
            mres, tag = runner.split_tag(ml)
            il, times = canon_impl(impl[i] or "not-run")
            if il == canon_model(op, mres) and not predicate(prop, op, il, times, mres, tag):
                break
            impl[i] = runner.run_lines([runner.VH, pseudo, "impl"], [op], env=env, parallel=1, timeout=600)[0]
    known = [k for k in runner.load_known() if k.get("property") == prop and k.get("status") == "known"]
    findings, known_hits = [], []
    tags, kinds, seen = Counter(), Counter(), set()
    nontriv = 0
    for op, il0, ml in zip(ops, impl, model):
        mres, tag = runner.split_tag(ml)
        mres = canon_model(op, mres)
        il, times = canon_impl(il0 or "not-run")
        kinds[" ".join(op.split()[:2])] += 1
        tags[branch(op, mres, tag)] += 1
        if op not in seen:
            seen.add(op)
            if nontrivial(op, mres, tag):
                nontriv += 1
        bad = predicate(prop, op, il, times, mres, tag)
        same = il == mres
        kn = None
        if bad or not same:
            kn = next((k for k in known if matches_known(k, op, il, mres, tag)), None)
        if kn is not None:
            known_hits.append((kn, op))
            continue
        if bad:
            note = bad[2]
            if tag.startswith("orig ") and il == canon_model(op, tag[5:]):
                note += (" [model: exactly the behaviour of the signer before fix a163120 (F52: token embedded unchecked); "
                         "proved witness: attach_site_vsix_unchecked_orig / vsix_unchecked_through_cache_orig]")
            findings.append(runner.Finding("counterexample", TIE, bad[0], op, mres if tag.startswith("orig ") else bad[1], il0, note))
        elif not same:
            findings.append(runner.Finding("broken-tie", TIE, TIE_THEOREM, op, mres, il0,
                                           "model and implementation disagree; property predicate not falsified on this op"))
    cov = {"evaluations": len(ops), "distinct_nontrivial": nontriv, "rule": RULE,
           "samples": [ops[i][:600] for i in sorted(set([0, len(ops) // 3, (2 * len(ops)) // 3, len(ops) - 1]))][:4],
           "op_kinds": dict(kinds), "model_branches": dict(tags.most_common(60)), "traces_validated_against_impl": len(ops)}
    return cov, findings, known_hits


def combined(ctx, main_run, prop):
    """the property's own correspondence, then the TSX one; coverage merged"""
    replay = ctx.get("replay_ops")
    orig = runner.corpus_lines
    runner.corpus_lines = lambda p: [l for l in orig(p) if not l.startswith("TSX ")]
    try:
        if replay is not None and not [l for l in replay if not l.startswith("TSX ")]:
            cov, findings, hits = {"evaluations": 0, "distinct_nontrivial": 0}, [], []
        else:
            sub = dict(ctx)
            if replay is not None:
                sub["replay_ops"] = [l for l in replay if not l.startswith("TSX ")]
            cov, findings, hits = main_run(sub)
    finally:
        runner.corpus_lines = orig
    if replay is not None and not [l for l in replay if l.startswith("TSX ")]:
        return cov, findings, hits
    c2, f2, k2 = run(ctx, prop)
    if c2:
        cov["evaluations"] = cov.get("evaluations", 0) + c2["evaluations"]
        cov["distinct_nontrivial"] = cov.get("distinct_nontrivial", 0) + c2["distinct_nontrivial"]
        cov["traces_validated_against_impl"] = cov.get("traces_validated_against_impl", 0) + c2["traces_validated_against_impl"]
        cov.setdefault("op_kinds", {}).update(c2["op_kinds"])
        cov["tsx"] = {"rule": c2["rule"], "samples": c2["samples"], "model_branches": c2["model_branches"], "tie": TIE,
                      "tie_theorem": TIE_THEOREM, "assumptions": ASSUMPTIONS, "trusted": TRUSTED}
    return cov, findings + f2, hits + k2

"""Part-level APPX / MSIX / bundle model glue (C01 / C02), first op token APPXV.

verify ops: the Lean model answers with the *list of steps* of signappx.Verify on the package (hash comparisons with the byte
stream that is hashed and the expected digest, and terminal verdicts of the checks that do not depend on a hash); the
comparisons are evaluated here with hashlib, the first failing step gives the verdict (Relic.AppxPkg.run).  No hash runs in Lean.
sign ops: the model predicts the member list, the bytes of [Content_Types].xml, the block map's File list, the Publisher written and read
back, and the verdict of the model verifier on the model signer's result; stage 2 feeds relic's real output (with the parameter tables
the runner computed for it) to the model verifier and compares its verdict with signappx.Verify's."""
import hashlib, json, os, subprocess

TOKENS = ["APPXV"]
RULE = ("APPXV: (ct) ContentTypes.Parse on generated [Content_Types].xml (Default / Override lists with duplicate, empty, upper-case, "
        "non-ASCII keys and keys needing XML escaping, three surface styles), Add over names of every class (known and unknown "
        "extensions, no extension, trailing dot, leading dot, directory-like, the parts relic adds, the bundle manifest, invalid "
        "UTF-8, control characters, TAB / LF / CR), Marshal byte for byte, Find; predicate: the written file parsed and written again "
        "is the same file. (sign) generated packages and bundles (payload of every name class incl. *.appx members, PE members, "
        "members across 64 KiB block boundaries, stored and deflated, manifests with every Publisher / Identity variant: absent, "
        "doubled, prefixed, shadowed by a namespace declaration, other document element, certificates whose subject needs every "
        "branch of the name quoting) through relic's real signer: member list, [Content_Types].xml bytes, block map File list, Publisher "
        "written = formatted subject, Publisher as the verifier reads it, signappx.Verify's verdict = model verifier's verdict on "
        "the model signer's result and (stage 2) on relic's real output. (verify) packages sealed by the harness (own ZIP writer + "
        "authenticode.SignSip) with exactly one inconsistency each: every digest stale / absent / doubled, unknown and short entries, "
        "wrong magic / prefix, garbage signature, unsigned, signature not last, every part absent / shadowed, 13 block map edits "
        "(trailing File, missing File, wrong name / size / block count / hash / base64 / HashMethod / order), payload changed / added / "
        "removed, look-alike names, *.appx member listed / unlisted, catalog garbage / other key / wrong type, 9 manifest variants, other "
        "key with the same subject, relic's own output as is / rebuilt / tampered, the Microsoft-signed fixture, 22 bundle variants (publisher, compressed, "
        "unlisted, offset, size, missing, *.msix, nested garbage / unsigned / tampered / other key / other subject, two names equal up to the "
        "slash, duplicate FileName, both manifests, wrong namespace, bundle of bundle, relic-signed bundle). Non-trivial = every op "
        "the model answers.")
TRUSTED = ["Relic.Model.AppxPkg is hand-written from lib/signappx/{contenttypes,manifest,bundle,verify,blockmap,zipmeta,tarappx,sign}.go; "
           "tied by differential execution (verdict class of every check, exact [Content_Types].xml bytes)",
           "PKCS#7 / Authenticode (readSignature's and verifyCatalog's SignedData handling), encoding/xml on block map and manifests, "
           "base64 and inflate are parameters of the model: their results travel on the op line as tables, computed by the generator "
           "with the Go standard library and relic's pkcs7 / pkcs9 packages (not with lib/signappx)",
           "the ZIP view of a package (member list, contents, verifyMeta's two streams) is computed by Relic.Model.Zip / Relic.Model.Appx "
           "from the bytes (tied by C17 and the APPX ops)",
           "digests are computed here with hashlib on the streams the model names"]
ASSUMPTIONS = ["CRCs of generated members are correct and every deflate stream fills its extent (the model does not compute CRC-32)",
               "verifyBundle iterates a Go map: the iteration order is a parameter of the model (Env.mapOrder); the driver runs the directory "
               "order and its reverse and the real verdict must be one of the two (they differ only on the two-names-one-DOS-name bundle)",
               "no time-stamping service is configured"]
UNPROVED_C01 = ["Relic.Props.C01.contenttypes_roundtrip_bytes_full (the bytes ctSerialize writes determine the Default / Override lists; proved: "
            "contenttypes_roundtrip on the lists and xml_attr_escape_roundtrip for XML-clean ASCII; evaluated on every ct op as the predicate rt=1)",
            "Relic.Props.C01.xml_attr_escape_roundtrip_full (attribute escaping reads back for every XML-clean UTF-8 value; proved for ASCII)",
            "APPX bundle sign-then-verify (relic's signer does not look at what a bundle lists, so the statement needs the well-formedness of "
            "the bundle as hypotheses; not stated as a theorem: executed on generated bundles of relic-signed packages, sign ops of shape "
            "bundle and the relic-bundle verify op; proved: bundle_accept_implies for what an accepted bundle guarantees)",
            "the ZIP round trip under appx_sign_then_verify (the view of the written file lists the written members and verifyMeta recomputes "
            "the signer's AXPC / AXCD streams) is an explicit hypothesis (outView): C17 write_read_roundtrip_readable is a definition, not a "
            "theorem; executed on every sign op (stage 2: the model verifier on relic's real output)"]
UNPROVED_C02 = ["APPX: that two accepted packages with one signature have the same NUMBER of covered members is bound by AXCD / AXPC only at the "
                "byte level (Relic.Props.C02.appx_axpc_binds_prefix); appx_tamper_evident states agreement position by position as far as both "
                "member lists go, and zmeta equality",
                "Relic.Props.C02 APPX bundles: no general never-panics theorem for the repaired verifyBundle (the unreachable Packages[i] branch "
                "needs the invariant of the seen map); proved: bundle_duplicate_dosname_refused_fixed on the triggering configuration"]
UNPROVED = UNPROVED_C01 + UNPROVED_C02

DRIVER = os.path.join(os.path.dirname(os.path.dirname(os.path.dirname(os.path.abspath(__file__)))), "lean", ".lake", "build", "bin", "relic_driver")
HASH = {"1": hashlib.sha1, "256": hashlib.sha256, "384": hashlib.sha384, "512": hashlib.sha512}
_cache = {}
_cache2 = {}


def _b(h):
    return b"" if h == "-" else bytes.fromhex(h)


def _kv(s):
    return dict(p.split("=", 1) for p in s.split(" ") if "=" in p)


def eval_steps(mres, z):
    """the verdict; where Go's map iteration order matters the model gives the step lists of two orders: `a | b`"""
    if not mres.startswith("steps "):
        return mres
    vs = []
    for alt in mres[6:].split(" || "):
        v = _eval_one(alt, z)
        if v not in vs:
            vs.append(v)
    return " | ".join(vs)


def _eval_one(steps, z):
    """Relic.AppxPkg.run with hashlib as the hash family"""
    for st in steps.split(" "):
        f = st.split(",")
        if f[0] == "s":
            r = f[1]
            if r == "ok":
                continue   # never produced: a stop carries a verdict
            return r.replace(":", " ", 1)
        cls, alg, stream, exp = f[1], f[2], f[3], f[4]
        if stream.startswith("@"):
            off, ln = stream[1:].split(":")
            data = z[int(off):int(off) + int(ln)]
        else:
            data = _b(stream)
        h = HASH.get(alg)
        if h is None or h(data).digest() != _b(exp):
            return "err " + cls
    return "ok"


_fx = None


def detect_fx():
    """which repairs the source in $VERIF_REPO carries: the same three source-text markers harness/appxv reads"""
    global _fx
    if _fx is None:
        repo = os.environ.get("VERIF_REPO", "/repo")

        def has(fn, marker):
            try:
                return "1" if marker in open(os.path.join(repo, "lib", "signappx", fn)).read() else "0"
            except OSError:
                return "0"
        _fx = has("blockmap.go", 'b.isBundle && strings.HasSuffix(f.Name, ".appx")') + has("bundle.go", "if pkgIndex < 0 {") + \
            has("manifest.go", "func publisherAttr(")
    return _fx


def _auto(op, mres):
    """corpus ops say `auto` where generated ops carry the repair flags: ask the model again with the flags of the source"""
    f = op.split(" ")
    if len(f) > 2 and f[2] == "auto" and f[1] in ("sign", "verify"):
        key = ("auto", op)
        if key not in _cache:
            f[2] = detect_fx()
            ml = _drive([" ".join(f)])[0]
            i = ml.find(" #")
            _cache[key] = ml if i < 0 else ml[:i]
        return _cache[key]
    return mres


def _xml_clean(b):
    try:
        t = b.decode("utf-8")
    except UnicodeDecodeError:
        return False
    return all(c in "\t\n\r" or 0x20 <= ord(c) <= 0xD7FF or 0xE000 <= ord(c) <= 0xFFFD or 0x10000 <= ord(c) for c in t)


def _ct_strings(op):
    f = op.split(" ")
    out = []
    for fld in f[2:4]:
        if fld != "_":
            for it in fld.split(","):
                out += [_b(x) for x in it.split(":")]
    if f[4] != "_":
        out += [_b(x) for x in f[4].split(",")]
    return out


def canon_model(op, mres):
    f = op.split(" ")
    mres = _auto(op, mres)
    if f[1] == "verify":
        return eval_steps(mres, _b(f[3]))
    return mres


def _strip(il):
    for sep in (" @@ ", " #"):
        i = il.find(sep)
        if i >= 0:
            il = il[:i]
    return il


def _sections(il):
    parts = il.split(" @@ ")
    return parts[0], {p.partition(" ")[0]: p.partition(" ")[2] for p in parts[1:]}


def _drive(lines):
    p = subprocess.run([DRIVER], input="\n".join(lines) + "\n", stdout=subprocess.PIPE, stderr=subprocess.PIPE, text=True)
    out = p.stdout.split("\n")
    return (out + ["crash"] * len(lines))[:len(lines)]


def stage2(op, il):
    """model verifier on relic's real output"""
    key = (op, il)
    if key in _cache2:
        return _cache2[key]
    core, sec = _sections(il)
    res = None
    if core.startswith("ok ") and "O" in sec:
        f = op.split(" ")
        line = "APPXV verify %s %s %s" % (detect_fx() if f[2] == "auto" else f[2], sec["O"], sec.get("T", ""))
        ml = _drive([line.strip()])[0]
        i = ml.find(" #")
        res = eval_steps(ml if i < 0 else ml[:i], _b(sec["O"]))
    _cache2.clear()
    _cache2[key] = res
    return res


def _sign_diffs(op, il, mres):
    core, sec = _sections(il)
    if not (core.startswith("ok ") and mres.startswith("ok ")):
        return [] if core == mres else [("verdict", mres, core)]
    a, b = _kv(core), _kv(mres)
    bad = []
    for k in ("names", "ct", "pub", "rpub", "vis"):
        if a.get(k) != b.get(k):
            bad.append((k, b.get(k, "?")[:300], a.get(k, "?")[:300]))
    # block map: every File but the last (the manifest, whose bytes come from etree) with name, size, block count; the last by name
    fa, fb = a.get("bm", "").split(";"), b.get("bm", "").split(";")
    if len(fa) != len(fb) or fa[:-1] != fb[:-1] or fa[-1].split(".")[0] != fb[-1].split(".")[0]:
        bad.append(("bm", b.get("bm", "?")[:300], a.get("bm", "?")[:300]))
    v = a.get("V", "?").replace(":", " ", 1)
    if b.get("V") != "na" and b.get("V", "?").replace(":", " ", 1) != v:
        bad.append(("V", b.get("V"), a.get("V")))
    s2 = stage2(op, il)
    if s2 is not None and s2 != v:
        bad.append(("V-stage2", s2, v))
    return bad


def equiv(op, il, mres):
    f = op.split(" ")
    if f[1] == "sign":
        return not _sign_diffs(op, il, mres)
    return _strip(il) in mres.split(" | ")


def weight(op):
    return 1


def nontrivial(op, mres, tag):
    return mres != "bad-op"


def branch(op, mres, tag):
    f = op.split(" ")
    if f[1] == "verify":
        return "appxv-verify:" + mres[:40]
    if f[1] == "sign":
        kv = _kv(mres)
        return "appxv-sign:" + (("ok V=" + kv.get("V", "?")) if mres.startswith("ok") else mres[:40])
    return "appxv-" + f[1]


def _evaluate(prop, op, il, mres, tag):
    f = op.split(" ")
    if il.startswith("crash") or il.startswith("not-run"):
        yield ("Relic.Props.%s (appxv)" % prop, "died", mres, "implementation process died: " + il[:200])
        return
    if f[1] == "ct":
        # the exception stated with the theorem: a key that is not XML text (invalid UTF-8, control characters, U+FFFE / U+FFFF)
        # is written with U+FFFD in place of the offending bytes (Relic.Props.C01.contenttypes_unclean_key_not_roundtrip)
        if il.startswith("ok ") and not il.endswith("#rt=1") and all(_xml_clean(x) for x in _ct_strings(op)):
            yield ("Relic.Props.C01.contenttypes_roundtrip", "ct-roundtrip", "rt=1",
                   "[Content_Types].xml written by ContentTypes.Marshal, parsed, the same names added again and written again is a different file")
        return
    if f[1] == "verify":
        core = _strip(il)
        if core.startswith("panic"):
            yield ("Relic.Props.C02.bundle_duplicate_dosname_panics_orig", "verify-panics:" + core[6:], "ok or err",
                   "signappx.Verify panicked: " + core[:200])
        if core == "ok" and "ok" not in mres.split(" | "):
            yield ("Relic.Props.C02.appx_tamper_evident", "accepted", mres,
                   "signappx.Verify accepts a package the model verifier rejects (%s)" % mres)
        return
    core, sec = _sections(il)
    if core.startswith("panic"):
        yield ("Relic.Props.C01.appx_sign_then_verify", "sign-panics", "ok or err", "signappx panicked while signing: " + core[:200])
        return
    if not core.startswith("ok "):
        return
    kv = _kv(core)
    v = kv.get("V", "?")
    if v != "ok" and " W:illformed" not in op:
        yield ("Relic.Props.C01.appx_sign_then_verify", "verify-fails:" + v, "ok",
               "relic's own verifier refuses what relic signed: " + v[:200])
    if kv.get("vis") not in (None, "none") and kv.get("vis") != kv.get("pub") and " W:illformed" not in op:
        yield ("Relic.Props.C01.appx_publisher_is_signers", "publisher-not-written", kv.get("pub"),
               "the unprefixed Publisher attribute of the first Identity element is not the formatted subject of the signing certificate")


def evaluate_all(prop, op, il, mres, tag):
    return list(_evaluate(prop, op, il, mres, tag))


def predicate(prop, op, il, mres, tag):
    evs = evaluate_all(prop, op, il, mres, tag)
    if not evs:
        return None
    ev = evs[0]
    return (ev[0], ev[2], ev[1] + " :: " + ev[3])


def _known_entries():
    p = os.path.join(os.path.dirname(os.path.dirname(os.path.dirname(os.path.abspath(__file__)))), "known_findings.json")
    try:
        return [k for k in json.load(open(p)) if k.get("status") == "known" and k.get("identity", {}).get("appxv_trigger")]
    except (OSError, ValueError):
        return []


def _names(op):
    """member names of a sign op / of the package of a verify op (central directory scan for the latter is not needed: triggers
    on verify ops are judged on the model's verdict)"""
    f = op.split(" ")
    if f[1] != "sign" or f[4] == "_":
        return []
    return [_b(m.split(":")[0]) for m in f[4].split(",")]


def _ev_matches(k, ev, op, il, mres, tag):
    """identity of a listed finding: the cause class, the model predicting exactly that behaviour, and the structural trigger"""
    ident = k.get("identity", {})
    trig = ident["appxv_trigger"]
    trig = [trig] if isinstance(trig, str) else trig
    if not any(ev[1].startswith(t) for t in trig):
        return False
    need = ident.get("appxv_requires", "")
    f = op.split(" ")
    if need == "model-panic":
        return any("panic " + t.split(":", 1)[1] in mres.split(" | ") for t in trig)
    if need == "appx-named-member":
        names = _names(op)
        bundle = any(n == b"AppxMetadata/AppxBundleManifest.xml" for n in names)
        return (not bundle) and any(n.endswith(b".appx") for n in names) and _kv(mres).get("V") == "err:bm-mismatch"
    if need == "publisher-nsdecl":
        kv = _kv(mres)
        return kv.get("V") == "err:publisher" and "786d6c6e73.5075626c6973686572." in op
    if need == "publisher-cr":
        kv = _kv(mres)
        pub = _b(kv.get("pub", "-"))
        vis = kv.get("vis", "none")
        return kv.get("V") in ("err:publisher", "na") and b"\r" in pub and vis != "none" and \
            _b(vis) == pub.replace(b"\r\n", b"\n").replace(b"\r", b"\n")
    return False


def matches_known(k, op, il, mres, tag):
    """suppressed only when EVERY finding on the op is a listed one (one of them being `k`) and model and implementation agree"""
    if not k.get("identity", {}).get("appxv_trigger"):
        return False
    prop = k.get("property", "C01")
    evs = evaluate_all(prop, op, il, mres, tag)
    if not evs or not any(_ev_matches(k, ev, op, il, mres, tag) for ev in evs):
        return False
    known = [x for x in _known_entries() if x.get("property") == prop]
    if not all(any(_ev_matches(x, ev, op, il, mres, tag) for x in known) for ev in evs):
        return False
    return equiv(op, il, mres)

/-
  C11 — Malformed input yields an error, never a crash or runaway resource use.   xar / flat package part (model
  `Relic.Model.Xar`: `Open`, `Verify`, `Sign` with every `make`, `ReadAt`, `ParseInt` and int64 addition explicit).

  On the unchanged tree `xar.Open` DOES panic: `make([]byte, toc.Signature.Size)` / `make([]byte, toc.XSignature.Size)`
  take the size straight from the XML.  `xar_open_panic_iff` is the exact characterisation (a size that is negative or above
  2^48 in a table of contents whose stored checksum could be read); everything else in `Open`, all of `Verify` and all of
  `Sign` return ok or err (`xar_verify_no_new_panic`, `xar_sign_no_panic`), nothing diverges.  Allocation: `Open` asks for
  the inflated size of the TOC (the header's UncompressedSize is never looked at) plus the two sizes from the XML before it
  finds out that the file is shorter (`xar_open_alloc_ge`); `Sign` hands `28 + CompressedSize + Σ<size>` to `binpatch.Add`,
  which appends one entry per 2^32−1 bytes (`xar_patch_entries_eq`, `xar_patch_entries_unbounded`).
-/
import Relic.Proofs.XarSign
namespace Relic.Props.C11
open Relic Relic.Xar

/-- `make([]byte, n)` followed by `ReadAt` panics exactly when `n` is negative or above the allocation limit -/
theorem xar_allocRead_panic_iff (site cls : String) (f : Bytes) (n off : Int) (s : String) :
    allocRead site cls f n off = .panic s ↔ s = site ∧ (n < 0 ∨ n > maxAlloc) := by
  unfold allocRead
  split
  · rename_i h
    simp only [Res.panic.injEq]
    exact ⟨fun e => ⟨e.symm, h⟩, fun e => e.1.symm⟩
  · rename_i h
    cases readAt f off n.toNat <;> simp [h]

/-- a `<size>` that makes `make` panic -/
def xarBadSize (s : Option XSig) : Prop := ∃ x, s = some x ∧ (x.size < 0 ∨ x.size > maxAlloc)

theorem xar_res_bind_panic_iff {α β} (r : Res α) (g : α → Res β) (s : String) :
    r.bind g = .panic s ↔ r = .panic s ∨ ∃ a, r = .ok a ∧ g a = .panic s := by
  cases r <;> simp [Res.bind]

theorem xar_readSig_panic_iff (E : Env) (f : Bytes) (base : Int) (sg : Option XSig) (s : String) :
    readSig E f base sg = .panic s ↔ s = "xar.Open:makeslice" ∧ xarBadSize sg := by
  cases sg with
  | none => simp [readSig, xarBadSize]
  | some x =>
    simp only [readSig, xarBadSize, Option.some.injEq, exists_eq_left', xar_res_bind_panic_iff, xar_allocRead_panic_iff]
    constructor
    · rintro (h | ⟨b, _, h⟩)
      · exact h
      · split at h
        · cases h
        · split at h <;> cases h
    · intro h; exact Or.inl h

theorem xar_readXSig_panic_iff (f : Bytes) (base : Int) (sg : Option XSig) (s : String) :
    readXSig f base sg = .panic s ↔ s = "xar.Open:makeslice" ∧ xarBadSize sg := by
  cases sg with
  | none => simp [readXSig, xarBadSize]
  | some x =>
    simp only [readXSig, xarBadSize, Option.some.injEq, exists_eq_left', xar_res_bind_panic_iff, xar_allocRead_panic_iff]
    constructor
    · rintro (h | ⟨b, _, h⟩)
      · exact h
      · cases h
    · intro h; exact Or.inl h

theorem xar_readTicket_no_panic (f : Bytes) (fs : List XFile) (base : Int) (s : String) : readTicket f fs base ≠ .panic s := by
  unfold readTicket
  simp only
  split
  · split <;> simp
  · simp

/-- **xar_open_panic_iff** (the part of `Open` behind the checksum read).  `Open` panics exactly when the `<size>` of
    `<signature>` is negative or above 2^48, or that element is fine (absent, or its bytes and certificates could be read)
    and the `<size>` of `<x-signature>` is negative or above 2^48.  The site is the `make` in `xar.Open`. -/
theorem xar_openRest_panic_iff (E : Env) (f : Bytes) (k : HK) (stored : Bytes) (toc : XToc) (base : Int) (n : Nat) (s : String) :
    openRest E f k stored toc base n = .panic s ↔
      s = "xar.Open:makeslice" ∧ (xarBadSize toc.sig ∨ ((∃ sg, readSig E f base toc.sig = .ok sg) ∧ xarBadSize toc.xsig)) := by
  unfold openRest
  simp only [xar_res_bind_panic_iff, xar_readSig_panic_iff, xar_readXSig_panic_iff]
  constructor
  · rintro (⟨h1, h2⟩ | ⟨sg, hsg, (⟨h1, h2⟩ | ⟨x, _, (h | ⟨t, _, h⟩)⟩)⟩)
    · exact ⟨h1, Or.inl h2⟩
    · exact ⟨h1, Or.inr ⟨⟨sg, hsg⟩, h2⟩⟩
    · exact absurd h (xar_readTicket_no_panic f toc.files base s)
    · cases h
  · rintro ⟨h1, (h2 | ⟨⟨sg, hsg⟩, h2⟩)⟩
    · exact Or.inl ⟨h1, h2⟩
    · exact Or.inr ⟨sg, hsg, Or.inl ⟨h1, h2⟩⟩

/-- **xar_open_panic_iff.**  The whole of `Open`: a panic happens only in `openRest` (header, zlib, `encoding/xml`, checksum
    size and read return errors), i.e. exactly under the trigger of `xar_openRest_panic_iff`, once the header names a
    supported hash, the TOC region decodes, `encoding/xml` accepts it, the checksum `<size>` is the hash size and the
    checksum bytes could be read. -/
theorem xar_open_panic_iff (E : Env) (f : Bytes) (s : String) :
    (openPlan E f).final = .panic s ↔
      ∃ hd k root n toc stored, parseHeader f = .ok (hd, k) ∧ E.decode (regionSR f hd.hsize hd.clen) = some (root, n) ∧
        unmarshal E.num root = some toc ∧ toc.ck.size = k.size ∧
        readAt f (w64 (w64 (hd.hsize + hd.clen) + toc.ck.offset)) k.size = some stored ∧
        s = "xar.Open:makeslice" ∧
        (xarBadSize toc.sig ∨ ((∃ sg, readSig E f (w64 (hd.hsize + hd.clen)) toc.sig = .ok sg) ∧ xarBadSize toc.xsig)) := by
  constructor
  · intro h
    unfold openPlan at h
    cases hp : parseHeader f with
    | error e => simp [hp, Plan.fail] at h
    | ok v =>
      obtain ⟨hd, k⟩ := v
      simp only [hp] at h
      cases hz : E.decode (regionSR f hd.hsize hd.clen) with
      | none => simp [hz, Plan.fail] at h
      | some v =>
        obtain ⟨root, n⟩ := v
        simp only [hz] at h
        cases hu : unmarshal E.num root with
        | none => simp [hu, Plan.fail] at h
        | some toc =>
          simp only [hu, openBody] at h
          by_cases hsz : toc.ck.size = k.size
          · simp only [hsz, ne_eq, not_true_eq_false, ↓reduceIte] at h
            cases hr : readAt f (w64 (w64 (hd.hsize + hd.clen) + toc.ck.offset)) k.size with
            | none => simp [hr, Plan.fail] at h
            | some stored =>
              simp only [hr] at h
              obtain ⟨e6, e7⟩ := (xar_openRest_panic_iff E f k stored toc _ n s).mp h
              exact ⟨hd, k, root, n, toc, stored, rfl, hz, hu, hsz, hr, e6, e7⟩
          · simp [hsz, Plan.fail] at h
  · rintro ⟨hd, k, root, n, toc, stored, e1, e2, e3, e4, e5, e6, e7⟩
    unfold openPlan
    simp only [e1, e2, e3, openBody, e4, ne_eq, not_true_eq_false, ↓reduceIte, e5]
    exact (xar_openRest_panic_iff E f k stored toc _ n s).mpr ⟨e6, e7⟩

/-- a failing comparison is an error, so the run of a plan panics only where its final outcome does -/
theorem xar_run_panic (C : Crypto) {α} (p : Plan α) (s : String) (h : p.run C = .panic s) : p.final = .panic s :=
  runChecks_panic C p.checks p.final s h

example : xarBadSize (some ⟨"RSA", 20, -1, []⟩) := ⟨_, rfl, Or.inl (by decide)⟩

/-! ### nothing else panics, nothing diverges -/

theorem xar_plan_bind_final {α β} (p : Plan α) (g : α → Plan β) (r : Res β) (hr : ∀ b, r ≠ .ok b) :
    (p.bind g).final = r ↔ (∃ a, p.final = .ok a ∧ (g a).final = r) ∨
      (match p.final with | .ok _ => False | .err e => r = .err e | .panic s => r = .panic s | .diverge => r = .diverge) := by
  unfold Plan.bind
  cases h : p.final with
  | ok a => simp
  | err e => simp [eq_comm]
  | panic s => simp [eq_comm]
  | diverge => simp [eq_comm]

theorem xar_checkFileAt_final (f : Bytes) (base : Int) (r : Ref) : (∃ e, (checkFileAt f base r).final = .err e) ∨ (checkFileAt f base r).final = .ok () := by
  unfold checkFileAt
  split
  · exact Or.inl ⟨_, rfl⟩
  · split
    · exact Or.inl ⟨_, rfl⟩
    · split
      · exact Or.inl ⟨_, rfl⟩
      · split
        · exact Or.inr rfl
        · exact Or.inl ⟨_, rfl⟩

theorem xar_checkAllAt_final (f : Bytes) (base : Int) : ∀ rs, (∃ e, (checkAllAt f base rs).final = .err e) ∨ (checkAllAt f base rs).final = .ok ()
  | [] => Or.inr rfl
  | r :: rs => by
    simp only [checkAllAt, Plan.bind]
    rcases xar_checkFileAt_final f base r with ⟨e, h⟩ | h
    · rw [h]; exact Or.inl ⟨e, rfl⟩
    · rw [h]; exact xar_checkAllAt_final f base rs

theorem xar_checkFileStream_final (heap : Bytes) (pos : Nat) (r : Ref) :
    (∃ e, (checkFileStream heap pos r).final = .err e) ∨ ∃ p, (checkFileStream heap pos r).final = .ok p := by
  unfold checkFileStream
  split
  · exact Or.inl ⟨_, rfl⟩
  · split
    · exact Or.inl ⟨_, rfl⟩
    · split
      · exact Or.inl ⟨_, rfl⟩
      · split
        · exact Or.inr ⟨_, rfl⟩
        · split
          · exact Or.inl ⟨_, rfl⟩
          · split
            · exact Or.inr ⟨_, rfl⟩
            · exact Or.inl ⟨_, rfl⟩

theorem xar_checkAllStream_final (heap : Bytes) : ∀ rs pos, (∃ e, (checkAllStream heap pos rs).final = .err e) ∨ (checkAllStream heap pos rs).final = .ok ()
  | [], _ => Or.inr rfl
  | r :: rs, pos => by
    simp only [checkAllStream, Plan.bind]
    rcases xar_checkFileStream_final heap pos r with ⟨e, h⟩ | ⟨p, h⟩
    · rw [h]; exact Or.inl ⟨e, rfl⟩
    · rw [h]; exact xar_checkAllStream_final heap rs p

/-- **xar_verify_no_new_panic.**  `Verify` (signature dispatch, `gatherDataFiles`, sort, `checkFile` per member) adds no panic
    and no divergence to what `Open` can do: whatever `Open` + `Verify` ends in other than ok / err, `Open` ended in. -/
theorem xar_verify_no_new_panic (E : Env) (f : Bytes) (skip : Bool) :
    (∀ s, (verifyPlan E f skip).final = .panic s → (openPlan E f).final = .panic s) ∧
    ((verifyPlan E f skip).final = .diverge → (openPlan E f).final = .diverge) := by
  have key : ∀ o, (∃ e, (verifyOpened f (tocRegion f) o skip).final = .err e) ∨ ∃ v, (verifyOpened f (tocRegion f) o skip).final = .ok v := by
    intro o
    unfold verifyOpened
    simp only
    have hfiles : (∃ e, (if skip = true then Plan.pure () else checkAllAt f o.base (sortRefs ((gather o.toc.files).map XFile.ref))).final = .err e) ∨
        (if skip = true then Plan.pure () else checkAllAt f o.base (sortRefs ((gather o.toc.files).map XFile.ref))).final = .ok () := by
      cases skip
      · simpa using xar_checkAllAt_final f o.base _
      · exact Or.inr rfl
    cases o.cmsSig with
    | some blob =>
      simp only [Plan.bind]
      rcases hfiles with ⟨e, h⟩ | h
      · rw [h]; exact Or.inl ⟨e, rfl⟩
      · rw [h]; exact Or.inr ⟨_, rfl⟩
    | none =>
      cases o.rsaSig with
      | some sg =>
        simp only [Plan.bind]
        rcases hfiles with ⟨e, h⟩ | h
        · rw [h]; exact Or.inl ⟨e, rfl⟩
        · rw [h]; exact Or.inr ⟨_, rfl⟩
      | none => exact Or.inl ⟨_, rfl⟩
  unfold verifyPlan Plan.bind
  cases h : (openPlan E f).final with
  | ok o =>
    simp only
    rcases key o with ⟨e, he⟩ | ⟨v, hv⟩
    · rw [he]; exact ⟨(fun s hs => by cases hs), (fun hs => by cases hs)⟩
    · rw [hv]; exact ⟨(fun s hs => by cases hs), (fun hs => by cases hs)⟩
  | err e => exact ⟨(fun s hs => by cases hs), (fun hs => by cases hs)⟩
  | panic p => exact ⟨(fun s hs => by simpa using hs), (fun hs => by cases hs)⟩
  | diverge => exact ⟨(fun s hs => by cases hs), (fun _ => rfl)⟩

theorem xar_res_bind_diverge_iff {α β} (r : Res α) (g : α → Res β) :
    r.bind g = .diverge ↔ r = .diverge ∨ ∃ a, r = .ok a ∧ g a = .diverge := by
  cases r <;> simp [Res.bind]

theorem xar_allocRead_no_diverge (site cls : String) (f : Bytes) (n off : Int) : allocRead site cls f n off ≠ .diverge := by
  unfold allocRead
  split
  · simp
  · split <;> simp

theorem xar_readSig_no_diverge (E : Env) (f : Bytes) (base : Int) (sg : Option XSig) : readSig E f base sg ≠ .diverge := by
  cases sg with
  | none => simp [readSig]
  | some x =>
    simp only [readSig, ne_eq, xar_res_bind_diverge_iff, xar_allocRead_no_diverge, false_or, not_exists, not_and]
    intro b _
    split
    · simp
    · split <;> simp

theorem xar_readXSig_no_diverge (f : Bytes) (base : Int) (sg : Option XSig) : readXSig f base sg ≠ .diverge := by
  cases sg with
  | none => simp [readXSig]
  | some x => simp [readXSig, xar_res_bind_diverge_iff, xar_allocRead_no_diverge]

theorem xar_readTicket_no_diverge (f : Bytes) (fs : List XFile) (base : Int) : readTicket f fs base ≠ .diverge := by
  unfold readTicket
  simp only
  split
  · split <;> simp
  · simp

/-- `Open` never diverges: every loop runs over the element tree or the file list (structural recursion in the model) -/
theorem xar_open_no_diverge (E : Env) (f : Bytes) : (openPlan E f).final ≠ .diverge := by
  have hrest : ∀ k stored toc base n, openRest E f k stored toc base n ≠ .diverge := by
    intro k stored toc base n
    unfold openRest
    simp [xar_res_bind_diverge_iff, xar_readSig_no_diverge, xar_readXSig_no_diverge, xar_readTicket_no_diverge]
  unfold openPlan
  split
  · simp [Plan.fail]
  · split
    · simp [Plan.fail]
    · split
      · simp [Plan.fail]
      · unfold openBody
        split
        · simp [Plan.fail]
        · split
          · simp [Plan.fail]
          · exact hrest _ _ _ _ _

/-- **xar_sign_no_panic.**  `Sign` up to the signature computation returns ok or err on every input: header, size limits,
    zlib / etree (parameters), `/xar/toc`, the member check on the forward-only heap.  (`hashType.Size()` of an
    unregistered hash and `certs[0]` of an empty chain are configuration, not input.) -/
theorem xar_sign_no_panic (E : Env) (f : Bytes) (hk : HK) (ki : KeyInfo) :
    (∀ s, (signPlan E f hk ki).final ≠ .panic s) ∧ (signPlan E f hk ki).final ≠ .diverge := by
  unfold signPlan
  split
  · simp [Plan.fail]
  · split
    · simp [Plan.fail]
    · split
      · simp [Plan.fail]
      · split
        · simp [Plan.fail]
        · rename_i p _
          simp only [Plan.bind]
          rcases xar_checkAllStream_final (f.drop _) (sortRefs (eRefs E.num p.doc1)) 0 with ⟨e, h⟩ | h
          · rw [h]; simp
          · rw [h]; simp [Plan.pure]

/-! ### allocation -/

/-- `make([]byte, n)` is executed for every `0 ≤ n ≤ 2^48` from the XML; only `ReadAt` afterwards notices that the file does
    not hold that many bytes: the request is not bounded by the input length -/
theorem xar_alloc_request_not_bounded_by_file (site cls : String) (f : Bytes) (n : Int) (h0 : 0 < n) (h1 : n ≤ maxAlloc)
    (hf : (f.length : Int) < n) : allocRead site cls f n 0 = .err cls := by
  unfold allocRead readAt
  have a : ¬ (n < 0 ∨ n > maxAlloc) := by omega
  have b : ¬ n.toNat = 0 := by omega
  have c : ¬ n ≤ (f.length : Int) := by omega
  simp [a, b, c]

theorem xar_addSplit_length (M : Nat) (hM : 0 < M) : ∀ (old off : Nat) (blob : Bytes), 0 < old →
    (Binpatch.addSplit M off old blob).length = (old - 1) / M + 1 := by
  intro old
  induction old using Nat.strongRecOn with
  | _ old ih =>
    intro off blob hpos
    rw [Binpatch.addSplit]
    by_cases h : 0 < M ∧ M < old
    · simp only [h, and_self, ↓reduceDIte, List.length_cons]
      rw [ih (old - M) (by omega) _ _ (by omega)]
      have : old - 1 = (old - M - 1) + M := by omega
      rw [this, Nat.add_div_right _ hM]
    · simp only [h, ↓reduceDIte, List.length_cons, List.length_nil]
      have : (old - 1) / M = 0 := Nat.div_eq_of_lt (by omega)
      omega

/-- **xar_patch_entries_eq.**  The patch set `Sign` returns has `⌈origTotal / (2^32−1)⌉` entries for a positive `origTotal` … -/
theorem xar_patch_entries_eq (ot : Int) (h : 0 < ot) (body : Bytes) :
    (patchSet ot body).length = ((ot.toNat - 1) / 4294967295) + 1 := by
  unfold patchSet
  have : ¬ ot < 0 := by omega
  simp only [this, ↓reduceIte, Binpatch.build, List.foldl_cons, List.foldl_nil, Binpatch.add, List.getLast?_nil, List.nil_append]
  exact xar_addSplit_length 4294967295 (by decide) ot.toNat 0 body (by omega)

/-- … and `origTotal = 28 + CompressedSize + Σ <size>` is whatever the XML says: **the number of entries (16 bytes of header
    each, plus the loop that builds them) is not bounded by the length of the input.** -/
theorem xar_patch_entries_unbounded (n : Nat) (hn : n < 2 ^ 30) :
    ∃ ot : Int, 0 < ot ∧ ot < 2 ^ 63 ∧ ∀ body, n < (patchSet ot body).length := by
  refine ⟨(n : Int) * 4294967295 + 1, by omega, by omega, ?_⟩
  intro body
  rw [xar_patch_entries_eq _ (by omega)]
  have : (((n : Int) * 4294967295 + 1).toNat - 1) / 4294967295 = n := by
    have e : ((n : Int) * 4294967295 + 1).toNat - 1 = n * 4294967295 := by omega
    rw [e]
    exact Nat.mul_div_cancel n (by omega)
  omega

end Relic.Props.C11

/-
  C11 — Malformed input yields an error, never a crash or runaway resource use.   RPM part (model `Relic.Model.Rpm`):
  every slice / index / length expression reachable from a malformed package in signers/rpm/signer.go and in the go-rpmutils
  functions it calls, classified.  The property is FALSE for the unchanged code (findings F-RPM-1 .. F-RPM-4); the theorems
  say exactly when.
-/
import Relic.Proofs.Rpm
namespace Relic.Props.C11
open Relic Relic.Rpm

/-- **rpm_parse_entry_panic_iff** (F-RPM-1).  `readHeader` panics on an index entry exactly when, for a fixed-size type, the
    offset is negative, `offset + typeSize*count` lies before the offset (negative count) or beyond the data store; for a
    string-like type (6, 8, 9 and every unknown type number), when the offset is negative or beyond the store. -/
theorem rpm_parse_entry_panic_iff (data e : Bytes) :
    (∃ s, parseEntry data e = .panic s) ↔
      (let off := i32 ((e.drop 8).take 4)
       let cnt := i32 ((e.drop 12).take 4)
       match typeSize (i32 ((e.drop 4).take 4)) with
       | some ts => off < 0 ∨ off + (ts : Int) * cnt < off ∨ (data.length : Int) < off + (ts : Int) * cnt
       | none => off < 0 ∨ (data.length : Int) < off) := by
  unfold parseEntry
  simp only
  cases typeSize (i32 ((e.drop 4).take 4)) with
  | some ts =>
    simp only
    split <;> simp_all
  | none =>
    simp only
    split
    · simp_all
    · rename_i h
      split <;> simp_all

/-- **rpm_readheader_panics** (witness of F-RPM-1): a BIN entry of 4 bytes at offset 1 of a 4-byte store -/
theorem rpm_readheader_panics :
    parseEntry [0, 0, 0, 0] (be32i 1000 ++ be32i 7 ++ be32i 1 ++ be32i 4) = .panic "slice:readHeader.contents" := by decide

/-- **rpm_sha_count0_panics** (F-RPM-2): a SIG_SHA1 / SIG_SHA256 string entry with count 0 (or negative) panics in
    `getSha1` / `getSha256` (`vals[0]`, `strs[:ent.count]`) — for every tag map holding such an entry. -/
theorem rpm_sha_count0_panics (m : EMap) (tag : Int) (e : Entry) (hg : get tag m = some e) (hs : isStrType e.typ = true)
    (hc : e.count ≤ 0) : ∃ s, getSha m tag = .panic s := by
  unfold getSha getStrings
  rw [hg]
  simp only [hs, Bool.not_true]
  by_cases h0 : e.count < 0
  · simp [h0]
  · have : e.count = 0 := by omega
    simp [this]

example : isStrType 6 = true ∧ get 269 ([(269, ⟨6, 0, []⟩)] : EMap) = some ⟨6, 0, []⟩ := by decide

/-- **rpm_nevra_nil_panics** (F-RPM-3, relic's own code): a general header without NAME makes `nevra()` dereference the nil
    `*NEVRA` that `GetNEVRA` returned together with its error. -/
theorem rpm_nevra_nil_panics (gen : EMap) (h : get tagName gen = none) : nevraOf gen = .panic "nil:nevra" := by
  unfold nevraOf getStrings
  simp [h]

/-- … and so does `verify` for a package that parses, carries a signature and passes every digest and signature check -/
theorem rpm_verify_panics_without_name (H : Nat → Bytes → Bytes) (pgp : Bytes → Res SigInfo) (valid : Bytes → Bytes → Bool)
    (known : Option (List Nat)) (nc : Bool) (sig gen : Hdr) (pl : Bytes) (sigs : List Found)
    (hl : libVerifyCore H pgp valid known sig gen pl = .ok sigs) (hne : sigs ≠ []) (h : get tagName gen.ents = none) :
    verifyCore H pgp valid known nc sig gen pl = .panic "nil:nevra" := by
  unfold verifyCore
  rw [hl]
  simp [hne, rpm_nevra_nil_panics gen.ents h]

/-- the full no-panic statement (FALSE on the unchanged code: `rpm_no_panic_false`) -/
def rpm_no_panic_full : Prop :=
  ∀ (H : Nat → Bytes → Bytes) (pgp : Bytes → Res SigInfo) (valid : Bytes → Bytes → Bool) (known : Option (List Nat)) (nc : Bool) (f : Bytes),
    (∀ b s, pgp b ≠ .panic s) → ∀ s, verify H pgp valid known nc f ≠ .panic s

set_option maxRecDepth 1000000 in
/-- **rpm_no_panic_false.** A 96-byte lead, a signature header with one entry whose offset points behind its 8-byte store:
    `verify` panics (replayed on the real code: corpus/C11RPM/rpm-panics.ops). -/
theorem rpm_no_panic_false : ¬ rpm_no_panic_full := by
  intro h
  refine h (fun _ _ => []) (fun _ => .err "x") (fun _ _ => false) none true
    (beBytes 4 magicLead ++ zeros 92 ++ beBytes 4 magicHdr ++ beBytes 4 0 ++ beBytes 4 1 ++ beBytes 4 8 ++
      (be32i 1000 ++ be32i 7 ++ be32i 9 ++ be32i 1) ++ zeros 8) (by intro b s hh; cases hh) "slice:readHeader.contents" (by decide)

set_option maxRecDepth 1000000 in
/-- **rpm_alloc_unbounded** (F-RPM-4).  A 112-byte file whose signature-header intro declares 0x00500000 entries makes
    `readHeader` request 80 MiB before it notices that the table is not there: the request is sized by the header field alone
    (up to 2^32 - 16 bytes for the table, 2^32 - 8 for the store). -/
theorem rpm_alloc_unbounded :
    allocs (fun _ _ => []) (beBytes 4 magicLead ++ zeros 92 ++ beBytes 4 magicHdr ++ beBytes 4 0 ++ beBytes 4 0x00500000 ++ beBytes 4 0) = [83886080] ∧
    allocExceeds (fun _ _ => []) (beBytes 4 magicLead ++ zeros 92 ++ beBytes 4 magicHdr ++ beBytes 4 0 ++ beBytes 4 0x00500000 ++ beBytes 4 0) = true := by
  decide

/-- **rpm_alloc_is_declared.** In general: whatever follows, a header whose intro is complete makes `readHeader` request
    `Entries*16 mod 2^32` bytes. -/
theorem rpm_alloc_is_declared (sb : Bool) (f : Bytes) (h16 : 16 ≤ f.length) (hm : beVal (f.take 4) = magicHdr) :
    tableLen f ∈ hdrAllocs sb f := by
  unfold hdrAllocs
  have : ¬ f.length < 16 := by omega
  simp only [this, if_false, hm, ne_eq, not_true_eq_false]
  split <;> simp

end Relic.Props.C11

/- line-protocol handler for C04, op kind `preq`: a request to a server whose configuration may name a policy URL
   (policy / bearer-token mode, `Relic.Model.AuthzPolicy`); with an empty URL the same request in certificate mode -/
import Relic.Model.AuthzPolicy
import Relic.Driver.C04
namespace Relic.Driver.C04Policy
open Relic Relic.Authz Relic.RealIP Relic.Policy Relic.Driver.C04

/-- the error strings the harness uses, by code (e0..e3 are the members of `should401`) -/
def errTable : List (String × String) :=
  [("e0", "token is missing or not well-formed"), ("e1", "token issuer is not in known_issuers"),
   ("e2", "token is expired"), ("e3", "token is not yet valid"), ("e4", "key is not allowed"),
   ("e5", "Token is expired"), ("e6", "token is expired ")]

def errOfCode (c : String) : String := ((errTable.find? (·.1 == c)).map (·.2)).getD c
def codeOfErr (e : String) : String := ((errTable.find? (·.2 == e)).map (·.1)).getD (hexStr e)

/-- `<id>:<names>:<anchors>` -/
def parseCerts (s : String) : Option (String × Certs) :=
  match s.splitOn ":" with
  | [id, names, anchors] =>
    (parseNats (splitPlus anchors)).map fun as => (id, { names := splitPlus names, anchors := as })
  | _ => none

def parseDec (s : String) : Option Parsed :=
  if s = "bad" then some .bad
  else match s.splitOn "," with
    | [allow, sub, errs, roles, keys, id] =>
      some (.dec { allow := allow = "1", sub := undash sub, errors := (splitPlus errs).map errOfCode,
                   roles := splitPlus roles, allowedKeys := splitPlus keys, id := undash id })
    | _ => none

def parseOpa (s : String) (body : Parsed) : Option OpaReply :=
  match s.splitOn ":" with
  | ["http", st] => st.toNat?.map fun n => .http n body
  | ["hangup"] => some (.transport false)
  | ["refused"] => some (.transport false)
  | ["slow"] => some (.transport true)
  | _ => none

def urlBase : String := "http://opa"

def parseUrl (s : String) : Option String :=
  match s.splitOn ":" with
  | ["none", _] => some ""
  | [_, sfx] => (unhexStr sfx).map fun x => urlBase ++ x
  | _ => none

structure POp where
  cfg : Config
  url : String
  opa : Opa
  req : PReq

def parseOp : List String → Option POp
  | [cfg, ep, key, file, sig, ra, tls, xff, ssl, url, auth, opa, dec, _body] => do
    let cfg ← parseCfg cfg
    let ra ← (field "ra=" ra).bind unhexStr
    let (_, tlsc) ← (field "tls=" tls).bind parseCerts
    let xff ← (field "xff=" xff).bind unhexList
    let (sid, sc) ← (field "ssl=" ssl).bind parseCerts
    let sslCert : PHdr :=
      if sid = "absent" then .absent
      else if sid = "badesc" ∨ sid = "badder" then .bad
      else if sid = "nopem" then .certs { names := [] }
      else .certs sc
    let url ← (field "url=" url).bind parseUrl
    let authz ← (field "auth=" auth).bind unhexStr
    let body ← (field "dec=" dec).bind parseDec
    let reply ← (field "opa=" opa).bind (parseOpa · body)
    let key := undash key
    let ep ← match ep with
      | "health" => some Endpoint.health
      | "directory" => some Endpoint.directory
      | "home" => some Endpoint.home
      | "list" => some Endpoint.listKeys
      | "getkey" => some (Endpoint.getKey key)
      | "sign" => some (Endpoint.sign key (file = "1") (sig = "1"))
      | _ => none
    pure { cfg, url, opa := fun _ => reply,
           req := { remoteAddr := ra, tls := tlsc, xff, sslCert, authz, ep } }
  | _ => none

def plusList (xs : List String) : String := if xs.isEmpty then "-" else "+".intercalate xs

def showQuery (q : List (String × String)) : String := "&".intercalate (q.map fun (k, v) => k ++ "=" ++ v)

def showInput (i : PolicyInput) : String :=
  s!"{hexStr i.path}:{hexStr (showQuery i.query)}:{hexStr i.token}:{dash i.fingerprint}:{plusList i.clientCert}"

def showPost : Option PolicyPost → String
  | none => "-"
  | some p => s!"w{if p.wrapped then 1 else 0}:{hexStr (p.dest.drop urlBase.length).toString}:{showInput p.input}"

def showResult (r : PResult) : String :=
  match r.out with
  | .startErr _ => showOutcome r.out
  | _ => s!"{showOutcome r.out} post={showPost r.post} perr={plusList (r.errors.map codeOfErr)}"

def b01 (b : Bool) : String := if b then "1" else "0"

def policyTag (o : POp) : String :=
  match startCheck o.cfg with
  | some _ => "start"
  | none =>
    let cfg := o.cfg
    let req := o.req
    let ut := !hopTrusted cfg.inNets (stripPort req.remoteAddr)
    let xip := stripPort (specAddr cfg.inNets req.remoteAddr (parseHops req.xff))
    let certs := match presentedCerts cfg req with | .ok cs => cs | _ => []
    let post := mkPost o.url req certs
    let dec := fetched o.opa post
    let pent := match dec, req.ep.keyName with
      | some d, some n => pentitled cfg d n
      | _, _ => false
    let plist := match dec with
      | some d => if d.allow then plusList (specListWith (pallowed d.user) cfg) else "none"
      | none => "none"
    let deny := match dec with
      | some d => if d.allow then "-" else toString (denyStatus d.errors)
      | none => "-"
    let mal := match req.ep.keyName with
      | some n => malformed cfg n
      | none => false
    let pcerr := match presentedCerts cfg req with | .ok _ => false | _ => true
    s!"mode=policy pcerr={b01 pcerr} xip={hexStr xip} ut={b01 ut} utip={hexStr (stripPort req.remoteAddr)} mal={b01 mal} cred={b01 (hasCredentials cfg req)} pent={b01 pent} plist={plist} lhyp={b01 (match dec with | some d => namedHaveTokens cfg d.user && !cfg.tokens.contains "" | none => true)} deny={deny} xin={showInput post.input}"

def handle (fields : List String) : String :=
  match parseOp fields with
  | none => "bad-op"
  | some o =>
    let outs := ((serve o.cfg o.url o.opa o.req).map showResult).eraseDups
    let tag := if o.url = "" then "mode=cert " ++ tagOf o.cfg o.req.toReq else policyTag o
    " || ".intercalate (sortStrings outs) ++ " #" ++ tag

end Relic.Driver.C04Policy

/-
  C03 fragment — MSI: signing never alters the payload (streams and storages other than the two signature streams,
  the root entry), and a refusal has exactly one cause.
-/
import Relic.Props.C01_Msi
namespace Relic.Props.C03
open Relic Relic.MsiDigest Relic.MsiSign

/-- **msi_payload_preserved.** `InsertMSISignature` on a document of the class, for every blob and every
    extended-signature value: the entries of the root storage other than the two signature streams are exactly what they
    were – same order, every field, content and whole sub-tree – and so are the root entry and its content; after
    `Close` and `ReadFile` they are the same up to tree links, start sectors and `ListDir` order (`PayloadSame`). -/
theorem msi_payload_preserved (d : Node) (hd : DocOk d) (pkcs ex : Bytes) (s₁ s₂ : Nat) :
    ∃ d₁, insertMSISignature d pkcs ex s₁ s₂ = .ok d₁ ∧
      payload d₁.kids = payload d.kids ∧ d₁.meta = d.meta ∧ d₁.content = d.content ∧
      ∀ d', Reread d₁ d' → PayloadSame d d' :=
  ⟨_, hd.insertOk pkcs ex s₁ s₂, payload_inserted d.kids pkcs ex s₁ s₂, rfl, rfl,
    fun _ h => (payloadSame_inserted d pkcs ex s₁ s₂).trans (payloadSame_reread h)⟩

/-- the same for the signer module (either flag, any digest algorithm) -/
theorem msi_sign_payload_preserved (H : Nat → Bytes → Bytes) (mk : Nat → Bytes → Bytes) (d : Node) (hd : DocOk d)
    (hsafe : tarRootOkB d.kids = true) (alg : Nat) (noExt : Bool) (s₁ s₂ : Nat) :
    ∃ d₁, signMSI H mk alg noExt d s₁ s₂ = .ok d₁ ∧ payload d₁.kids = payload d.kids ∧ d₁.meta = d.meta ∧
      ∀ d', Reread d₁ d' → PayloadSame d d' :=
  ⟨_, sign_eq H mk d hd hsafe alg noExt s₁ s₂, payload_inserted d.kids _ _ s₁ s₂, rfl,
    fun _ h => (payloadSame_inserted d _ _ s₁ s₂).trans (payloadSame_reread h)⟩

example : DocOk C05.sampleRoot := ⟨okAtB_sound true _ (by decide), rfl, by decide, by decide⟩
example : (payload C05.sampleRoot.kids).length = 4 := by decide

set_option maxRecDepth 100000 in
/-- **msi_fold_alias_deleted.** FINDING Fmsi-fold (repaired; see `Relic.Props.C01.msi_fold_alias_breaks_verify`), a
    statement about the ORIGINAL code: outside the class – a payload stream whose name folds to a signature name –
    signing deleted a payload stream.  The repaired `InsertMSISignature` refuses. -/
theorem msi_fold_alias_deleted :
    noAliasB C01.aliasRoot.kids = false ∧ (payload C01.aliasRoot.kids).length = 2 ∧
    (∃ d, insertMSISignatureOrig C01.aliasRoot [1] [] 0 0 = .ok d ∧ (payload d.kids).length = 1) ∧
    insertMSISignature C01.aliasRoot [1] [] 0 0 = .err "alias" :=
  ⟨by decide, by decide, ⟨_, rfl, by decide⟩, by rfl⟩

/-- the body of `InsertMSISignature` after the name test: on *any* document it either succeeds or fails with the storage
    error, and it fails only if an entry of the root storage whose name folds to one of the two signature names is not
    a stream -/
theorem insertOrig_fails_only_on_storage (d : Node) (pkcs ex : Bytes) (s₁ s₂ : Nat) :
    (∃ d₁, insertMSISignatureOrig d pkcs ex s₁ s₂ = .ok d₁) ∨
    (insertMSISignatureOrig d pkcs ex s₁ s₂ = .err "storage" ∧
      ∃ n ∈ d.kids, (equalFold (goName n.meta) sigName = true ∨ equalFold (goName n.meta) sigExName = true) ∧
        n.meta.typ ≠ typStream) := by
  have hl1 : ¬ (sigExName.length + 1 > 32) := by decide
  have hl2 : ¬ (sigName.length + 1 > 32) := by decide
  -- second step, on a list whose members come from `d.kids` or are streams
  have second : ∀ (k1 : List Node), (∀ n ∈ k1, n ∈ d.kids ∨ n.meta.typ = typStream) →
      (∃ k2, addFile sigName pkcs s₂ k1 = .ok k2) ∨
      (addFile sigName pkcs s₂ k1 = .err "storage" ∧
        ∃ n ∈ d.kids, equalFold (goName n.meta) sigName = true ∧ n.meta.typ ≠ typStream) := by
    intro k1 hk1
    rcases deleteFile_cases sigName k1 with h | ⟨h, n, hn, hf, ht⟩
    · left; exact ⟨_, addFile_ok _ _ _ _ _ hl2 h⟩
    · right
      refine ⟨addFile_err _ _ _ _ _ h, n, ?_, hf, ht⟩
      rcases hk1 n hn with h' | h'
      · exact h'
      · exact absurd h' ht
  -- first step
  have first : (∃ k1, (if ex.length > 0 then addFile sigExName ex s₁ d.kids else deleteFile sigExName d.kids) = .ok k1 ∧
        ∀ n ∈ k1, n ∈ d.kids ∨ n.meta.typ = typStream) ∨
      ((if ex.length > 0 then addFile sigExName ex s₁ d.kids else deleteFile sigExName d.kids) = .err "storage" ∧
        ∃ n ∈ d.kids, equalFold (goName n.meta) sigExName = true ∧ n.meta.typ ≠ typStream) := by
    rcases deleteFile_cases sigExName d.kids with h | ⟨h, hw⟩
    · left
      by_cases he : ex.length > 0
      · refine ⟨_, by simp only [he, if_true]; exact addFile_ok _ _ _ _ _ hl1 h, ?_⟩
        intro n hn
        rcases List.mem_append.mp hn with h' | h'
        · left; exact (List.mem_filter.mp h').1
        · right; rw [List.mem_singleton.mp h']; rfl
      · exact ⟨_, by simp only [he, if_false]; exact h, fun n hn => Or.inl (List.mem_filter.mp hn).1⟩
    · right
      by_cases he : ex.length > 0
      · exact ⟨by simp only [he, if_true]; exact addFile_err _ _ _ _ _ h, hw⟩
      · exact ⟨by simp only [he, if_false]; exact h, hw⟩
  rw [insertOrig_def]
  rcases first with ⟨k1, h1, hk1⟩ | ⟨h1, n, hn, hf, ht⟩
  · rw [h1]
    rcases second k1 hk1 with ⟨k2, h2⟩ | ⟨h2, n, hn, hf, ht⟩
    · left; simp only [Res.bind_ok', h2]; exact ⟨_, rfl⟩
    · right; simp only [Res.bind_ok', h2]; exact ⟨rfl, n, hn, Or.inl hf, ht⟩
  · right; rw [h1]; exact ⟨rfl, n, hn, Or.inr hf, ht⟩

/-- **msi_insert_fails_only_on_storage.** On *any* document `InsertMSISignature` either succeeds, or refuses a mere
    case variant of a signature name (alias error, exactly when there is one), or fails with the storage error, and
    that only if an entry of the root storage carrying a signature name is not a stream.  (It returns before `Close`, so
    the directory on disk is not rewritten.) -/
theorem msi_insert_fails_only_on_storage (d : Node) (pkcs ex : Bytes) (s₁ s₂ : Nat) :
    (∃ d₁, insertMSISignature d pkcs ex s₁ s₂ = .ok d₁) ∨
    (insertMSISignature d pkcs ex s₁ s₂ = .err "alias" ∧ noAliasB d.kids = false) ∨
    (insertMSISignature d pkcs ex s₁ s₂ = .err "storage" ∧
      ∃ n ∈ d.kids, (equalFold (goName n.meta) sigName = true ∨ equalFold (goName n.meta) sigExName = true) ∧
        n.meta.typ ≠ typStream) := by
  unfold insertMSISignature
  cases ha : noAliasB d.kids with
  | false => right; left; simp
  | true =>
    simp only [Bool.not_true, Bool.false_eq_true, if_false]
    rcases insertOrig_fails_only_on_storage d pkcs ex s₁ s₂ with h | h
    · left; exact h
    · right; right; exact h

example : insertMSISignature C01.sigStorageRoot [1] [2] 0 0 = .err "storage" := by rfl

end Relic.Props.C03

/-
  Relic.LockSpan — how a function body uses its mutex, as extracted from the Go source (tools/extractlocks).
  `heldThroughout` is the shape that justifies modelling the body as ONE atomic step of the shared state:
  the first statement takes the lock, the second defers its release, and the body mentions no other lock operation
  (in particular no Unlock in the middle, also not inside a nested block or closure).
-/
namespace Relic.LockSpan

inductive Stmt
  | lock (m : String)
  | deferUnlock (m : String)
  | other
  deriving Repr, DecidableEq

structure Func where
  name : String
  top : List Stmt
  lockCalls : List (String × String)     -- every (receiver, method) of a Lock/Unlock/RLock/RUnlock/TryLock call in the body
  deriving Repr

def heldThroughout (f : Func) : Bool :=
  match f.top with
  | .lock m :: .deferUnlock m' :: rest =>
    m == m' && rest.all (· == .other) &&
    f.lockCalls == [(m, "Lock"), (m, "Unlock")]
  | _ => false

end Relic.LockSpan

"""CAB model glue: canonicalisation and the per-property predicates evaluated on the implementation's output."""
import hashlib, struct

TOKENS = ["CAB"]
RULE = ("CAB: structure-aware generator (0-5 folders, data 0..1000 bytes, no reserve header / 20-byte reserve / zero-padded reserve of "
        "1..6144 bytes, already carrying one or two signatures, irregular OffsetFiles/TotalSize; structured cabinets with real CFFOLDER/CFFILE/CFDATA layout and combinations of the reserve "
        "sizes cbCFHeader 0..6144 x cbCFFolder 0..255 x cbCFData 0..255, whose data blocks are walked by an independent reader in the input "
        "and in the signed output) plus a malformed stream (boundary values in "
        "every header, reserve and signature-header field the parser reads, truncation at field boundaries, appended bytes); ops: digest "
        "(hash stream + Patched header), sign (MakePatch + real patch application + re-digest), resign (two rounds vs one), locate "
        "(cabfile.Parse signature), specdigest (C05: hash of the SPECIFICATION's digest input of the signed form vs. the real imprint; also on "
        "functest/packages/dummy.cab), realsign (signer module with real keys, two rounds, real verifier), mutate (C02). "
        "Non-trivial = distinct op on which the model gets past the magic check.")
TRUSTED = ["Relic.Model.Cab is hand-written from lib/cabfile/cabfile.go and lib/authenticode/cabfile.go; tied by differential execution",
           "SHA-256 of the model's byte stream is computed by the check (hashlib), never in Lean: hashes are parameters"]
ASSUMPTIONS = ["CAB theorems assume a regular layout (OffsetFiles = end of the folder headers, OffsetFiles <= TotalSize), which the code "
               "does not check; irregular inputs are exercised by the correspondence only",
               "the cryptographic signature blob is opaque to the model"]


def _b(h):
    return b"" if h == "-" else bytes.fromhex(h)


def canon_model(op, mres):
    f = op.split()
    if f[1] == "digest" and mres.startswith("ok stream="):
        parts = mres.split(" ")
        return "ok imprint=%s %s" % (hashlib.sha256(_b(parts[1][len("stream="):])).hexdigest(), " ".join(parts[2:]))
    if f[1] == "specdigest" and mres.startswith("ok spec stream="):
        return "ok spec imprint=" + hashlib.sha256(_b(mres[len("ok spec stream="):])).hexdigest()
    return mres


def equiv(op, il, mres):
    if il == mres:
        return True
    f = op.split()
    if f[1] == "specdigest":
        # "ok skip": irregular layout, outside the class of cab_digest_eq_spec (F35) - nothing to compare
        return mres == "ok skip" and il.startswith("ok spec imprint=")
    if f[1] == "mutate" and il.startswith("ok") and mres.startswith("ok"):
        a, b = il.split(" ")[1:], mres.split(" ")[1:]
        return len(a) == len(b) and all(x == y or y == "any" for x, y in zip(a, b))
    if f[1] == "realsign" and il.startswith("ok ") and mres.startswith("ok "):
        ih, n = il.split(" ")[1:3]
        g = bytearray(_b(ih))
        n = int(n)
        if n <= 0 or n % 8 or len(g) < 60 or struct.unpack("<I", g[48:52])[0] != n:
            return False
        g[48:52] = b"\0\0\0\0"
        return bytes(g) == _b(mres.split(" ")[1])
    return False


def weight(op):
    f = op.split(" ", 4)
    return int(f[3]) if f[1] == "mutate" else 1


def nontrivial(op, mres, tag):
    return mres not in ("err notcab", "bad-op") and not (mres == "err eof" and len(op) < 90)


def branch(op, mres, tag):
    f = op.split()
    r = mres.split(" ")
    key = r[0] if r[0] == "ok" else " ".join(r[:2])
    if f[1] == "sign" and r[0] == "ok":
        kv = _kv(tag)
        key += ":" + r[2] + ":" + tag.split(" ")[0] + ":regular=" + kv.get("regular", "?") + ":delta=" + kv.get("delta", "?")[:3]
    if f[1] == "resign" and r[0] == "ok":
        key += ":" + r[2]
    return "cab-" + f[1] + ":" + key


def _kv(tag):
    return dict(p.split("=") for p in tag.split(" ") if "=" in p)


def walk(b):
    """INDEPENDENT reader of a cabinet (MS-CAB layout, not relic's parser): header, CFRESERVE, CFFOLDER entries, CFFILE entries and
    every CFDATA block, using the reserve sizes the header announces, the way cabextract / expand.exe do.  Returns None when the
    bytes are not one well-formed stored/compressed single cabinet whose data blocks tile [end of CFFILE, cbCabinet) exactly;
    else (files, folders) with folders = [(typeCompress, folder reserve, [(csum, cbData, cbUncomp, block reserve, data)])]."""
    if len(b) < 36 or b[0:4] != b"MSCF":
        return None
    cb_cabinet, coff_files = struct.unpack("<I", b[8:12])[0], struct.unpack("<I", b[16:20])[0]
    nfold, nfiles, flags = struct.unpack("<HHH", b[26:32])
    if flags & 3 or cb_cabinet > len(b) or nfold == 0:
        return None
    pos, res_h, res_f, res_d = 36, 0, 0, 0
    if flags & 4:
        if len(b) < 40:
            return None
        res_h, res_f, res_d = struct.unpack("<HBB", b[36:40])
        pos = 40 + res_h
    folders = []
    for _ in range(nfold):
        if pos + 8 + res_f > cb_cabinet:
            return None
        start, ndata, typ = struct.unpack("<IHH", b[pos:pos + 8])
        folders.append([start, ndata, typ, bytes(b[pos + 8:pos + 8 + res_f])])
        pos += 8 + res_f
    if pos != coff_files:
        return None
    files = []
    for _ in range(nfiles):
        if pos + 16 > cb_cabinet:
            return None
        cbfile, uoff, ifold = struct.unpack("<IIH", b[pos:pos + 10])
        z = b.find(b"\0", pos + 16, min(pos + 16 + 257, cb_cabinet))
        if z < 0:
            return None
        files.append((cbfile, uoff, ifold, bytes(b[pos + 10:z + 1])))
        pos = z + 1
    out = []
    for start, ndata, typ, fres in folders:
        if start != pos:
            return None
        blocks, unc = [], 0
        for _ in range(ndata):
            if pos + 8 + res_d > cb_cabinet:
                return None
            csum, cbdata, cbunc = struct.unpack("<IHH", b[pos:pos + 8])
            if cbunc > 32768 or (typ & 15) == 0 and cbdata != cbunc or pos + 8 + res_d + cbdata > cb_cabinet:
                return None
            blocks.append((csum, cbdata, cbunc, bytes(b[pos + 8:pos + 8 + res_d]), bytes(b[pos + 8 + res_d:pos + 8 + res_d + cbdata])))
            unc += cbunc
            pos += 8 + res_d + cbdata
        out.append((typ, fres, unc, blocks))
    if pos != cb_cabinet:
        return None
    for cbfile, uoff, ifold, _ in files:
        if ifold >= len(out) or uoff + cbfile > out[ifold][2]:
            return None
    return files, out


def predicate(prop, op, il, mres, tag):
    f = op.split()
    if f[1] == "sign" and il.startswith("ok ") and prop in ("C03", "C01"):
        # judged on the implementation's output alone (whatever the model says): a standard reader must find in the signed
        # cabinet the files, folders and data blocks (reserve bytes included) it found in the input, ending at cbCabinet,
        # with the signature blob right behind
        inp, out = _b(f[2]), _b(il.split(" ")[1])
        wi = walk(inp)
        if wi is not None:
            wo = walk(out)
            sig = _b(f[3])
            if wo is None:
                return ("Relic.Props.C03.cab_payload_preserved", "a cabinet whose CFDATA blocks a standard reader can walk",
                        "the input's data blocks tile the cabinet up to cbCabinet; in the signed output they do not (block stride / "
                        "reserve sizes in the header no longer match the blocks)")
            if wo != wi:
                return ("Relic.Props.C03.cab_payload_preserved", "same files, folders and data blocks",
                        "a standard reader finds different CFFILE entries / CFDATA blocks in the signed cabinet")
            cbc = struct.unpack("<I", out[8:12])[0]
            if out[cbc:] != sig + b"\0" * ((len(sig) + 7) // 8 * 8 - len(sig)):
                return ("Relic.Props.C03.cab_payload_preserved", "signature blob right behind the last data block",
                        "bytes behind cbCabinet are not the (padded) signature blob")
    if f[1] == "specdigest" and prop == "C05" and mres.startswith("ok spec") and mres != "ok skip" and il != mres:
        return ("Relic.Props.C05.cab_digest_eq_spec", mres,
                "the imprint the real code computed is not the hash of the specification's digest input (Relic.Spec.CabDigest) "
                "of the signed form of this regular cabinet: " + il)
    if il.startswith("crash") or il.startswith("not-run"):
        return ("Relic.Props.%s (cab)" % prop, mres, "implementation process died")
    if il.startswith("panic") and f[1] != "mutate":
        return ("Relic.Props.C03.cab_refusal_is_clean", "ok or err", "cabfile code panicked: " + il)
    if f[1] in ("realsign", "signfail") and il.startswith("err"):
        return ("Relic.Props.C01.cab_sign_then_verify", "ok", "sign -> verify through the signer module failed on a well-formed cabinet: " + il)
    if f[1] == "sign" and il.startswith("ok "):
        parts = il.split(" ")
        kv = _kv(tag)
        regular = kv.get("regular") == "1" and mres.startswith("ok ")
        if kv.get("regular") == "0" and prop in ("C03", "C01") and parts[2] != "same-digest":
            return ("Relic.Props.C03.cab_irregular_not_preserved", "refused (or payload preserved)",
                    "a cabinet with inconsistent OffsetFiles/TotalSize was signed into a file that no longer digests: " + parts[2])
        if regular and prop in ("C08", "C01") and parts[2] != "same-digest":
            return ("Relic.Props.C08.cab_digest_ignores_signature", "same-digest",
                    "digest of the signed cabinet differs from the digest that was signed: " + parts[2])
        if regular and prop in ("C03", "C01"):
            off, total, nf, delta = int(kv["off"]), int(kv["total"]), int(kv["nf"]), int(kv["delta"])
            inp, out = _b(f[2]), _b(parts[1])
            siglen = (len(_b(f[3])) + 7) // 8 * 8
            ok = (out[0:8] == inp[0:8] and out[12:16] == inp[12:16] and out[20:30] == inp[20:30] and out[32:36] == inp[32:36]
                  and out[60 + 8 * nf:60 + 8 * nf + total - off] == inp[off:total]
                  and len(out) == 60 + 8 * nf + (total - off) + siglen
                  and struct.unpack("<I", out[8:12])[0] == (total + delta) % 2**32 == len(out) - siglen
                  and struct.unpack("<I", out[16:20])[0] == 60 + 8 * nf)
            for i in range(nf):
                a, b = inp[off - 8 * nf + 8 * i:][:8], out[60 + 8 * i:][:8]
                ok = ok and a[4:] == b[4:] and (struct.unpack("<I", a[:4])[0] + delta) % 2**32 == struct.unpack("<I", b[:4])[0]
            if not ok:
                return ("Relic.Props.C03.cab_payload_preserved", "header fields, folder headers (rebased) and data unchanged",
                        "payload bytes moved or changed by signing")
    if f[1] == "resign" and il.startswith("ok ") and prop in ("C08", "C01") and il.split(" ")[2] != "replaced":
        # only claimed for regular layouts: the model decides (a disagreement with the model is reported as a broken tie)
        if mres.startswith("ok ") and mres.split(" ")[2] == "replaced":
            return ("Relic.Props.C08.cab_resign_replaces", "replaced", "signing twice differs from signing once with the last signature")
    if f[1] == "mutate" and il.startswith("ok ") and mres.startswith("ok "):
        kv = _kv(tag)
        fs, de = int(kv["fs"]), int(kv["de"])
        outs = il.split(" ")[1:]
        for m, o in zip(f[4:], outs):
            pos = int(m.split(":")[0])
            # unprotected: Reserved1, CabNumber, Unknown1, Unknown2, and the signature blob
            unprot = 4 <= pos < 8 or 34 <= pos < 36 or 40 <= pos < 44 or 52 <= pos < 56 or pos >= de
            if not unprot and o == "pass":
                return ("Relic.Props.C02.cab_hashed_injective", "fail",
                        "byte %d lies in the protected set yet the verifier accepted the mutated cabinet" % pos)
            if o.startswith("panic"):
                return ("Relic.Props.C02 (cab verify)", "fail", "verifier panicked on mutated file: " + o)
    return None


def matches_known(k, op, il, mres, tag):
    ident = k.get("identity", {})
    site = ident.get("site", "")
    if site == "cabfile.Digest:layout":
        return op.split()[1] == "sign" and _kv(tag).get("regular") == "0" and il.startswith("ok ") and il == mres
    return il.startswith("panic") and mres.startswith("panic") and site and site in il and site in mres

/-
  Relic.Model.Appx — executable model of relic's APPX/MSIX signing and verification layout:

  * `signers/zipbased` + `lib/zipslicer/tarzip.go` (`ZipToTar`, `ReadZipTar`): directory located and copied first,
    then one forward pass over the archive (reuses `Relic.Model.Zip`);
  * `lib/signappx/tarappx.go` `DigestAppxTar` / `digestFile` and `blockmap.go` `blockMap.AddFile`, `CopySizes`:
    payload members (everything before the first part relic regenerates) are hashed record by record into AXPC,
    cut into 64 KiB blocks of *uncompressed* data for the block map, checked for contiguity (`zipslicer.Contiguous`)
    and re-emitted with `Directory.AddFile`; the regenerated parts that follow are read and parsed;
  * `lib/signappx/sign.go` `AppxDigest.Sign`: manifest (stored, descriptor), block map (deflated, descriptor),
    content types (deflated, no descriptor), code-integrity catalog (only when a `.exe`/`.dll` member exists),
    AXCD = the ZIP64-forced directory *before* the signature part is added, `AppxSignature.p7x`, final directory,
    binary patch `[patchStart, size) := patchBuf`;
  * `lib/signappx/verify.go` / `zipmeta.go` / `blockmap.go` `Verify`, `verifyFile`, `verifyMeta`
    (`zipslicer.Directory.Truncate`), `verifyCatalog`, `verifyBlockMap`.

  Parameters (never computed in Lean): inflate, the XML parsers/marshalers (parts are handled as parsed data or opaque
  bytes), `authenticode.DigestPE`'s verdict, PKCS#7, hashes (the model outputs the byte STREAM fed to each hash).
  Not modelled: CRC-32 checks (generated members carry correct or zero CRCs), bundles (`AppxBundleManifest.xml` is
  refused by the model with its own class), `time.Time` <-> DOS time (the DOS stamp of the new parts is an input),
  the content of `[Content_Types].xml`.
  Core Lean only.
-/
import Relic.Model.ZipRewrite
namespace Relic.Appx
open Relic Relic.Zip

def sSignature : Bytes := [65, 112, 112, 120, 83, 105, 103, 110, 97, 116, 117, 114, 101, 46, 112, 55, 120]  -- AppxSignature.p7x
def sCatalog : Bytes := [65, 112, 112, 120, 77, 101, 116, 97, 100, 97, 116, 97, 47, 67, 111, 100, 101, 73, 110, 116, 101, 103, 114, 105, 116, 121, 46, 99, 97, 116]  -- AppxMetadata/CodeIntegrity.cat
def sBlockMap : Bytes := [65, 112, 112, 120, 66, 108, 111, 99, 107, 77, 97, 112, 46, 120, 109, 108]  -- AppxBlockMap.xml
def sManifest : Bytes := [65, 112, 112, 120, 77, 97, 110, 105, 102, 101, 115, 116, 46, 120, 109, 108]  -- AppxManifest.xml
def sBundle : Bytes := [65, 112, 112, 120, 77, 101, 116, 97, 100, 97, 116, 97, 47, 65, 112, 112, 120, 66, 117, 110, 100, 108, 101, 77, 97, 110, 105, 102, 101, 115, 116, 46, 120, 109, 108]  -- AppxMetadata/AppxBundleManifest.xml
def sCTypes : Bytes := sContentTypes  -- [Content_Types].xml
def sExe : Bytes := [46, 101, 120, 101]
def sDll : Bytes := [46, 100, 108, 108]
def sAppx : Bytes := [46, 97, 112, 112, 120]

/-- the names that end the payload loop of `DigestAppxTar` -/
def special (n : Bytes) : Bool :=
  n == sManifest || n == sBlockMap || n == sCTypes || n == sCatalog || n == sSignature || n == sBundle

/-- `noHashFiles[name] || strings.HasSuffix(name, ".appx")` (`blockMap.AddFile`), the code before the repair of F41 -/
def skipBMOrig (n : Bytes) : Bool :=
  n == sSignature || n == sCatalog || n == sCTypes || n == sBlockMap || endsWith n sAppx

/-- `blockMap.AddFile`: is the member left out of the block map?  `fixed` = the source carries the repair of F41
    (`noHashFiles[f.Name] || (b.isBundle && strings.HasSuffix(f.Name, ".appx"))`); this model refuses bundles, so with the repair
    only the four unhashed parts are left out.  Without it every member named `*.appx` is (`skipBMOrig`). -/
def skipBM (fixed : Bool) (n : Bytes) : Bool :=
  n == sSignature || n == sCatalog || n == sCTypes || n == sBlockMap || (!fixed && endsWith n sAppx)

theorem skipBM_orig (n : Bytes) : skipBM false n = skipBMOrig n := by simp [skipBM, skipBMOrig]

/-- `digestFile`: members that are fed to `authenticode.DigestPE` -/
def isPE (n : Bytes) : Bool := endsWith n sExe || endsWith n sDll

def zipToDos (n : Bytes) : Bytes := n.map fun b => if b = 0x2f then 0x5c else b
def dosToZip (n : Bytes) : Bytes := n.map fun b => if b = 0x5c then 0x2f else b

/-- what the model does not compute -/
structure Codec where
  /-- raw deflate stream filling a data extent ↦ contents (`none`: `compress/flate` reports an error) -/
  inflate : Bytes → Option Bytes
  /-- `authenticode.DigestPE` succeeds on these contents -/
  peOk : Bytes → Bool
  /-- `parseManifest` succeeds -/
  manifestOk : Bytes → Bool
  /-- `xml.Unmarshal` of a block map: per `File` element the `Name` attribute and the `Size` attributes of its blocks -/
  blockMap : Bytes → Option (List (Bytes × List Nat))
  /-- `ContentTypes.Parse` succeeds -/
  ctypesOk : Bytes → Bool
  /-- the source carries the repair of F41 (not a computation left out: which of the two versions of `blockMap.AddFile` is modelled) -/
  f41 : Bool := false

/-- one `File` element of the block map; a block is the byte stream that is hashed plus the `Size` attribute -/
structure BmFile where
  name : Bytes
  size : Nat
  lfh : Nat
  blocks : List (Bytes × Nat)
  deriving Repr, DecidableEq

def blockSize : Nat := 65536

/-- the `io.CopyN(w, rc, 64 KiB)` loop: consecutive 64 KiB pieces, the last one shorter, none empty -/
def chunks : Nat → Bytes → List Bytes
  | 0, _ => []
  | fuel + 1, b =>
    match b with
    | [] => []
    | _ :: _ => b.take blockSize :: chunks fuel (b.drop blockSize)

def blocksOf (plain : Bytes) : List (Bytes × Nat) := (chunks plain.length plain).map fun c => (c, 0)

/-- `f.Open()` + reading to the end, for the two methods `OpenAndTeeRaw` knows -/
def contentOf (c : Codec) (method : Nat) (data : Bytes) : Res Bytes :=
  if method = 0 then .ok data
  else match c.inflate data with
    | some p => .ok p
    | none => .err "io"

structure Hashed where
  m : Member
  /-- what `blockMap.AddFile` writes to `raw` (AXPC): local header re-encoded, data extent, descriptor -/
  raw : Bytes
  plain : Bytes
  deriving Repr

/-- `blockMap.AddFile(f, axpc, sink)` / `readSlicerFile(f)` on a member of the input, in the forward pass -/
def hashMember (c : Codec) (r : Rd) (f : File) : Res (Hashed × Rd) :=
  match readLocalHeader r f with
  | .ok (l, r1) =>
    if f.method ≠ 0 ∧ f.method ≠ 8 then .err "method" else
    let doff := f.offset + 30 + l.nameLen + l.extraLen
    match (if f.csize = 0 then Res.ok (([] : Bytes), r1) else r1.readAt doff f.csize) with
    | .ok (data, r2) =>
      match contentOf c f.method data with
      | .ok plain =>
        if plain.length ≠ f.usize then .err "io" else
        match readDataDesc r2 f l with
        | .ok (ddb, crc, r3) =>
          .ok (⟨{ file := { f with crc := crc, lfh := some l, ddb := ddb }, lfh := l, dataOff := doff,
                  total := 30 + (l.name.length + l.extra.length + ddb.length) + f.csize },
                encLfh l ++ l.name ++ l.extra ++ data ++ ddb, plain⟩, r3)
        | .err x => .err x
        | .panic s => .panic s
        | .diverge => .diverge
      | .err x => .err x
      | .panic s => .panic s
      | .diverge => .diverge
    | .err x => .err x
    | .panic s => .panic s
    | .diverge => .diverge
  | .err x => .err x
  | .panic s => .panic s
  | .diverge => .diverge

def bmOf (f : File) (h : Hashed) : BmFile :=
  { name := zipToDos f.name, size := h.plain.length, lfh := 30 + h.m.lfh.name.length + h.m.lfh.extra.length,
    blocks := blocksOf h.plain }

/-- state of `DigestAppxTar`'s first loop -/
structure PState where
  outz : Directory := { files := [], size := 0, dirLoc := 0 }
  /-- `Contiguous.pos` -/
  pos : Nat := 0
  axpc : Bytes := []
  bm : List BmFile := []
  unverified : Bool := false
  hasPE : Bool := false
  members : List Member := []
  deriving Repr

def PState.step (s : PState) (c : Codec) (f : File) (h : Hashed) : PState :=
  { outz := addFile s.outz h.m.file h.m.total, pos := s.pos + h.m.total, axpc := s.axpc ++ h.raw,
    bm := if skipBM c.f41 f.name then s.bm else s.bm ++ [bmOf f h],
    unverified := s.unverified || (!skipBM c.f41 f.name && decide (f.method ≠ 0)),
    hasPE := s.hasPE || isPE f.name, members := s.members ++ [h.m] }

/-- the payload loop: `digestFile`, `layout.Next`, `outz.AddFile` per member -/
def payloadPass (c : Codec) : Rd → List File → PState → Res (PState × Rd)
  | r, [], s => .ok (s, r)
  | r, f :: fs, s =>
    match hashMember c r f with
    | .ok (h, r') =>
      if isPE f.name && !c.peOk h.plain then .err "pe"
      else if f.offset ≠ s.pos then .err "notcontig"
      else payloadPass c r' fs (s.step c f h)
    | .err x => .err x
    | .panic s => .panic s
    | .diverge => .diverge

/-- `newf.Block[j].Size = oldblock.Size` for every old block: `none` = index out of range -/
def setSizes : List (Bytes × Nat) → List Nat → Option (List (Bytes × Nat))
  | bs, [] => some bs
  | [], _ :: _ => none
  | (s, _) :: bs, n :: ns => (setSizes bs ns).map fun t => (s, n) :: t

/-- `blockMap.CopySizes` after the XML is parsed; `i` is the index of the old `File` element (it advances over a
    skipped manifest entry as well) -/
def copySizes : Nat → List BmFile → List (Bytes × List Nat) → Res (List BmFile)
  | _, bm, [] => .ok bm
  | i, bm, (name, sizes) :: rest =>
    let zn := dosToZip name
    if zn == sManifest || zn == sBundle then copySizes (i + 1) bm rest
    else match bm[i]? with
      | none => .err "bmtoomany"
      | some nf =>
        if nf.name ≠ name then .err "bmmismatch" else
        match setSizes nf.blocks sizes with
        | none => .err "bmmismatch"     -- fix-F38: bounds check
        | some bs => copySizes (i + 1) (bm.set i { nf with blocks := bs }) rest

structure TState where
  manifest : Bool := false
  bm : List BmFile
  unverified : Bool
  deriving Repr

/-- the second loop of `DigestAppxTar`: the regenerated parts are read and parsed, anything else is "out of order" -/
def tailPass (c : Codec) : Rd → List File → TState → Res TState
  | _, [], t => .ok t
  | r, f :: fs, t =>
    match hashMember c r f with
    | .ok (h, r') =>
      if f.name == sManifest then
        if c.manifestOk h.plain then tailPass c r' fs { t with manifest := true } else .err "xml"
      else if f.name == sBundle then .err "bundle"
      else if f.name == sBlockMap then
        match c.blockMap h.plain with
        | none => .err "xml"
        | some old =>
          match copySizes 0 t.bm old with
          | .ok bm => tailPass c r' fs { t with bm := bm, unverified := false }
          | .err x => .err x
          | .panic s => .panic s
          | .diverge => .diverge
      else if f.name == sCTypes then
        if c.ctypesOk h.plain then tailPass c r' fs t else .err "xml"
      else if f.name == sCatalog || f.name == sSignature then tailPass c r' fs t
      else .err "outoforder"
    | .err x => .err x
    | .panic s => .panic s
    | .diverge => .diverge

/-- what `DigestAppxTar` returns (the fields `Sign` uses) -/
structure Digested where
  p : PState
  patchStart : Nat
  bm : List BmFile
  unverified : Bool
  deriving Repr

def payloadOf (fs : List File) : List File := fs.takeWhile fun f => !special f.name
def tailOf (fs : List File) : List File := fs.dropWhile fun f => !special f.name

/-- `DigestAppxTar` given the directory `ReadZipTar` produced -/
def digestDir (c : Codec) (z : Bytes) (d : Directory) : Res Digested :=
  match payloadPass c ⟨z, true, 0⟩ (payloadOf d.files) {} with
  | .ok (p, r) =>
    match tailOf d.files with
    | [] => .err "nomanifest"          -- no regenerated part at all: both loops end, `info.manifest == nil`
    | f0 :: tl =>
      if f0.offset ≠ p.pos then .err "notcontig" else
      match tailPass c r (f0 :: tl) { bm := p.bm, unverified := p.unverified } with
      | .ok t => if !t.manifest then .err "nomanifest" else .ok ⟨p, f0.offset, t.bm, t.unverified⟩
      | .err x => .err x
      | .panic s => .panic s
      | .diverge => .diverge
  | .err x => .err x
  | .panic s => .panic s
  | .diverge => .diverge

/-- `ZipToTar` + `ReadZipTar` + `DigestAppxTar` -/
def digest (c : Codec) (z : Bytes) : Res Digested :=
  match findDirectory ⟨z, false, 0⟩ with
  | .ok loc =>
    if loc > z.length then .err "tar" else
    match readWithDirectory z.length (z.drop loc) with
    | .ok d => digestDir c z d
    | .err x => .err x
    | .panic s => .panic s
    | .diverge => .diverge
  | .err x => .err x
  | .panic s => .panic s
  | .diverge => .diverge

/-! ### `AppxDigest.Sign` -/

/-- a regenerated part: contents, their compressed form as written (equal to the contents when stored), CRC-32 -/
structure Blob where
  plain : Bytes
  compd : Bytes
  crc : Nat
  deriving Repr, DecidableEq

structure Parts where
  manifest : Blob
  blockmap : Blob
  ctypes : Blob
  /-- used only when the package has a `.exe`/`.dll` member -/
  catalog : Blob
  signature : Blob
  mt : Nat
  md : Nat
  deriving Repr, DecidableEq

/-- the byte streams fed to the five hashes -/
structure Streams where
  axpc : Bytes
  axcd : Bytes
  axct : Bytes
  axbm : Bytes
  axci : Option Bytes
  deriving Repr, DecidableEq

structure Signed where
  out : Bytes
  streams : Streams
  /-- the block map data `blockMap.Marshal` serialises (manifest entry appended) -/
  bm : List BmFile
  /-- offset of the signature part's local header -/
  sigOff : Nat
  /-- offset of the central directory -/
  cdOff : Nat
  deriving Repr

/-- `addZipEntry` of a deflated part -/
def addDeflated (d : Directory) (name : Bytes) (b : Blob) (mt md : Nat) (useDesc : Bool) : Bytes × Directory :=
  newFile d name [] b.compd b.plain.length b.crc mt md true useDesc

/-- `Sign`, then the binary patch applied to the input -/
def assemble (z : Bytes) (g : Digested) (ps : Parts) : Res Signed :=
  -- writeManifest: stored, with descriptor; the block map gains the manifest's entry (blocks of the new contents)
  let (b1, d1) := newFile g.p.outz sManifest [] ps.manifest.plain ps.manifest.plain.length ps.manifest.crc ps.mt ps.md false true
  let bm := g.bm ++ [{ name := zipToDos sManifest, size := ps.manifest.plain.length, lfh := 30 + sManifest.length,
                       blocks := blocksOf ps.manifest.plain : BmFile }]
  -- writeBlockMap: `Marshal` refuses when a compressed member had no entry in an old block map
  if g.unverified then .err "unverified" else
  let (b2, d2) := addDeflated d1 sBlockMap ps.blockmap ps.mt ps.md true
  let (b3, d3) := addDeflated d2 sCTypes ps.ctypes ps.mt ps.md false
  let (b4, d4) := if g.p.hasPE then addDeflated d3 sCatalog ps.catalog ps.mt ps.md false else ([], d3)
  let axpc := g.p.axpc ++ b1 ++ b2 ++ b3 ++ b4
  -- writeSignature: AXCD is the directory as it stands now, ZIP64 end records forced
  let (cdA, eodA, d4') := writeDirectory d4 true
  let (b5, d5) := addDeflated d4' sSignature ps.signature ps.mt ps.md false
  let (cd, eod, _) := writeDirectory d5 true
  .ok { out := z.take g.patchStart ++ (b1 ++ b2 ++ b3 ++ b4 ++ b5 ++ (cd ++ eod)),
        streams := ⟨axpc, cdA ++ eodA, ps.ctypes.plain, ps.blockmap.plain,
                    if g.p.hasPE then some ps.catalog.plain else none⟩,
        bm := bm, sigOff := d4.dirLoc, cdOff := d5.dirLoc }

def sign (c : Codec) (z : Bytes) (ps : Parts) : Res Signed :=
  match digest c z with
  | .ok g => assemble z g ps
  | .err x => .err x
  | .panic s => .panic s
  | .diverge => .diverge

/-! ### `Verify` -/

/-- `Directory.Truncate(n, body, dir)` on a directory obtained from `zipslicer.Read` (random access): the bytes written
    to `body` and to `dir`.  `n` is a valid index (the caller's `sigIdx`). -/
def truncBody (r : Rd) : List File → Res Bytes
  | [] => .ok []
  | f :: fs =>
    match getTotalSize r f with
    | .ok (m, _) =>
      match truncBody r fs with
      | .ok rest => .ok ((r.z.drop f.offset).take m.total ++ rest)   -- io.Copy of a section: silently short at EOF
      | .err x => .err x
      | .panic s => .panic s
      | .diverge => .diverge
    | .err x => .err x
    | .panic s => .panic s
    | .diverge => .diverge

def truncDir (d : Directory) (n : Nat) (cdOffset : Nat) : Res Bytes :=
  let cd := (headersOf (d.files.take n)).1
  let size := cd.length
  if d.end64.sig ≠ 0 then
    .ok (cd ++ encEnd64 { d.end64 with diskCount := n, total := n, cdSize := size, cdOff := cdOffset } ++
         encLoc64 { d.loc64 with off := cdOffset + size } ++ encEnd d.endr)
  else if cdOffset ≥ u32Max ∨ n ≥ u16Max then .err "toobig"
  else .ok (cd ++ encEnd { d.endr with diskCount := n, total := n, cdSize := size, cdOff := cdOffset })

/-- `sigIdx` of `verifyMeta`: index of the signature part, which must come last (`none` = "out of order") -/
def sigIndex : List File → Nat → Option Nat → Option (Option Nat)
  | [], _, acc => some acc
  | f :: fs, i, acc =>
    if f.name == sSignature then sigIndex fs (i + 1) (some i)
    else if acc.isSome then none
    else sigIndex fs (i + 1) acc

/-- `verifyMeta`: the recomputed AXPC and AXCD streams -/
def verifyMeta (out : Bytes) : Res (Bytes × Bytes) :=
  let r : Rd := ⟨out, false, 0⟩
  match read r with
  | .ok d =>
    match sigIndex d.files 0 none with
    | none => .err "outoforder"
    | some none => .panic "Truncate:index"      -- d.File[-1]
    | some (some n) =>
      match truncBody r (d.files.take n) with
      | .ok body =>
        match truncDir d n ((d.files.drop n).head?.map (·.offset)).get! with
        | .ok dir => .ok (body, dir)
        | .err x => .err x
        | .panic s => .panic s
        | .diverge => .diverge
      | .err x => .err x
      | .panic s => .panic s
      | .diverge => .diverge
  | .err x => .err x
  | .panic s => .panic s
  | .diverge => .diverge

/-- contents of the part `name` as `archive/zip` delivers them (`files[name]`: the last entry of that name) -/
def partContent (c : Codec) (out : Bytes) (fs : List File) (name : Bytes) : Option (Res Bytes) :=
  match (fs.filter fun f => f.name == name).getLast? with
  | none => none
  | some f =>
    some <|
      match readLocalHeader ⟨out, false, 0⟩ f with
      | .ok (l, _) =>
        if f.method ≠ 0 ∧ f.method ≠ 8 then .err "method" else
        match contentOf c f.method ((out.drop (f.offset + 30 + l.nameLen + l.extraLen)).take f.csize) with
        | .ok p => if p.length ≠ f.usize then .err "io" else .ok p
        | .err x => .err x
        | .panic s => .panic s
        | .diverge => .diverge
      | .err x => .err x
      | .panic s => .panic s
      | .diverge => .diverge

/-- `verifyFile(files, sig, tag, name)` -/
def verifyFile (c : Codec) (out : Bytes) (fs : List File) (name : Bytes) (expected : Option Bytes) (cls : String) : Res Unit :=
  match partContent c out fs name, expected with
  | none, none => .ok ()
  | none, some _ => .err ("missing-" ++ cls)
  | some _, none => .err ("unsigned-" ++ cls)
  | some (.ok p), some e => if p = e then .ok () else .err ("mismatch-" ++ cls)
  | some (.err x), some _ => .err x
  | some (.panic s), some _ => .panic s
  | some .diverge, some _ => .diverge

/-- `verifyBlockMap` on the parsed block map (`skipDigests = false`), for a package that is not a bundle: the members
    `archive/zip` lists, except the four unhashed parts, against the `File` elements in order.  A block is given by the
    stream that must hash to its `Hash` attribute: the model compares streams. -/
def verifyBlocks (c : Codec) (out : Bytes) : List File → List BmFile → Res Unit
  | [], _ => .ok ()
  | f :: fs, bms =>
    if f.name == sSignature || f.name == sCatalog || f.name == sCTypes || f.name == sBlockMap then verifyBlocks c out fs bms
    else match bms with
      | [] => .err "bm-unhashed"
      | b :: bt =>
        if b.name ≠ zipToDos f.name ∨ b.size ≠ f.usize then .err "bm-mismatch"
        else if b.blocks.length ≠ (f.usize + blockSize - 1) / blockSize then .err "bm-mismatch"
        else match partContent c out [f] f.name with
          | some (.ok p) => if (b.blocks.map (·.1)) = chunks p.length p then verifyBlocks c out fs bt else .err "bm-digest"
          | some (.err x) => .err x
          | some (.panic s) => .panic s
          | some .diverge => .diverge
          | none => .err "io"

/-- `signappx.Verify` after `readSignature`: `signed` are the streams whose hashes the signature carries, `bm` the
    parsed block map of the package (`none`: XML error or unsupported hash method) -/
def verify (c : Codec) (out : Bytes) (signed : Streams) (bm : Option (List BmFile)) : Res Unit :=
  match read ⟨out, false, 0⟩ with
  | .ok d =>
    -- readSignature(files[appxSignature])
    if !(d.files.any fun f => f.name == sSignature) then .err "notsigned" else
    match verifyFile c out d.files sBlockMap (some signed.axbm) "axbm" with
    | .ok () =>
      match verifyFile c out d.files sCatalog signed.axci "axci" with
      | .ok () =>
        match verifyFile c out d.files sCTypes (some signed.axct) "axct" with
        | .ok () =>
          match bm with
          | none => .err "xml"
          | some bmf =>
            match verifyBlocks c out d.files bmf with
            | .ok () =>
              -- verifyCatalog (fix-F19): a missing catalog is accepted (verifyFile has matched AXCI and the part)
              match verifyMeta out with
              | .ok (pc, cd) =>
                if pc ≠ signed.axpc then .err "mismatch-axpc"
                else if cd ≠ signed.axcd then .err "mismatch-axcd"
                else .ok ()
              | .err x => .err x
              | .panic s => .panic s
              | .diverge => .diverge
            | .err x => .err x
            | .panic s => .panic s
            | .diverge => .diverge
        | .err x => .err x
        | .panic s => .panic s
        | .diverge => .diverge
      | .err x => .err x
      | .panic s => .panic s
      | .diverge => .diverge
    | .err x => .err x
    | .panic s => .panic s
    | .diverge => .diverge
  | .err x => .err x
  | .panic s => .panic s
  | .diverge => .diverge

/-- the block map a package must carry for `verifyBlocks` to accept it: one `File` element per hashed part, in order -/
def blockMapOf (c : Codec) (out : Bytes) : List File → List BmFile
  | [] => []
  | f :: fs =>
    if f.name == sSignature || f.name == sCatalog || f.name == sCTypes || f.name == sBlockMap then blockMapOf c out fs
    else
      let p := match partContent c out [f] f.name with
        | some (.ok p) => p
        | _ => []
      { name := zipToDos f.name, size := f.usize, lfh := 0, blocks := blocksOf p } :: blockMapOf c out fs

/-- the streams a verifier recomputes from a package (what its signature must carry for `verify` to accept) -/
def streamsOf (c : Codec) (out : Bytes) : Res (Streams × List BmFile × Directory) :=
  match read ⟨out, false, 0⟩ with
  | .ok d =>
    match verifyMeta out with
    | .ok (pc, cd) =>
      let get := fun n => match partContent c out d.files n with
        | some (.ok p) => some p
        | _ => none
      .ok (⟨pc, cd, (get sCTypes).getD [], (get sBlockMap).getD [], get sCatalog⟩, blockMapOf c out d.files, d)
    | .err x => .err x
    | .panic s => .panic s
    | .diverge => .diverge
  | .err x => .err x
  | .panic s => .panic s
  | .diverge => .diverge

end Relic.Appx

// Package xsig: generator and implementation runner for the XML-DSig sign/verify model (token XSIG):
// lib/xmldsig Sign / Verify driven in-process on trees built from the op's tree token.  The canonical byte streams
// the real code hashes are captured by re-registering the crypto.Hash constructors with recording wrappers; all
// key- and digest-dependent strings are masked symbolically (see lean/Relic/Driver/XmlSig.lean).
package xsig

import (
	"bufio"
	"bytes"
	"crypto"
	"crypto/ecdsa"
	"crypto/rsa"
	"crypto/sha1"
	"crypto/sha256"
	"crypto/sha512"
	"encoding/base64"
	"encoding/hex"
	"fmt"
	"hash"
	"strconv"
	"strings"
	"sync"

	"github.com/beevik/etree"

	"github.com/sassoftware/relic/v8/lib/certloader"
	"github.com/sassoftware/relic/v8/lib/xmldsig"
	"github.com/sassoftware/relic/v8/signers/sigerrors"

	"verifharness/c19"
	"verifharness/hx"
	"verifharness/sg"
)

/* ---------- recording hashes ---------- */

type rec struct {
	id     crypto.Hash
	stream []byte
	sum    []byte
}

var (
	recOnce   sync.Once
	recording bool
	recLog    []rec
)

type recHash struct {
	hash.Hash
	id  crypto.Hash
	buf []byte
}

func (r *recHash) Write(p []byte) (int, error) {
	if recording {
		r.buf = append(r.buf, p...)
	}
	return r.Hash.Write(p)
}

func (r *recHash) Sum(b []byte) []byte {
	s := r.Hash.Sum(nil)
	if recording {
		recLog = append(recLog, rec{r.id, append([]byte{}, r.buf...), s})
	}
	return append(b, s...)
}

func (r *recHash) Reset() { r.buf = nil; r.Hash.Reset() }

func installRecorders() {
	recOnce.Do(func() {
		for id, f := range map[crypto.Hash]func() hash.Hash{crypto.SHA1: sha1.New, crypto.SHA224: sha256.New224, crypto.SHA256: sha256.New,
			crypto.SHA384: sha512.New384, crypto.SHA512: sha512.New} {
			id, f := id, f
			crypto.RegisterHash(id, func() hash.Hash { return &recHash{Hash: f(), id: id} })
		}
	})
}

// record runs f with the recorders on and returns the streams hashed with the given hash, in order
func record(id crypto.Hash, f func()) []rec {
	recLog = nil
	recording = true
	defer func() { recording = false }()
	f()
	var out []rec
	for _, r := range recLog {
		if r.id == id {
			out = append(out, r)
		}
	}
	return out
}

/* ---------- symbolic masking ---------- */

type masker struct {
	from [][]byte
	to   [][]byte
	htag byte
}

func (m *masker) add(from string, to []byte) {
	if from == "" {
		return
	}
	m.from = append(m.from, []byte(from))
	m.to = append(m.to, to)
}

func (m *masker) mask(b []byte) []byte {
	for i := range m.from {
		b = bytes.ReplaceAll(b, m.from[i], m.to[i])
	}
	return b
}

func (m *masker) mark(c byte, s []byte) []byte {
	return append(append([]byte{0, c, m.htag}, []byte(hex.EncodeToString(s))...), 0)
}

// a stream has been hashed: returns its masked form and registers the texts of its digest
func (m *masker) stream(r rec) []byte {
	ms := m.mask(r.stream)
	m.add(base64.StdEncoding.EncodeToString(r.sum), m.mark('D', ms))
	rev := make([]byte, len(r.sum))
	for i := range r.sum {
		rev[len(r.sum)-1-i] = r.sum[i]
	}
	m.add(hex.EncodeToString(rev), m.mark('R', ms))
	return ms
}

func newMasker(h string, kk string, cert *certloader.Certificate) *masker {
	m := &masker{htag: map[string]byte{"sha1": '1', "sha224": '2', "sha256": '3', "sha384": '4', "sha512": '5'}[h]}
	switch k := cert.Leaf.PublicKey.(type) {
	case *rsa.PublicKey:
		m.add(base64.StdEncoding.EncodeToString(k.N.Bytes()), []byte{0, 'M', 0})
	case *ecdsa.PublicKey:
		m.add(`Value="`+k.X.String()+`"`, []byte("Value=\"\x00X\x00\""))
		m.add(`Value="`+k.Y.String()+`"`, []byte("Value=\"\x00Y\x00\""))
		m.add(k.X.String(), []byte{0, 'X', 0})
		m.add(k.Y.String(), []byte{0, 'Y', 0})
	}
	m.add(base64.StdEncoding.EncodeToString(cert.Leaf.Raw), []byte{0, 'C', 0})
	return m
}

/* ---------- tree token <-> etree ---------- */

type tokReader struct {
	f []string
	i int
}

func (t *tokReader) next() string {
	if t.i >= len(t.f) {
		panic("tree token too short")
	}
	s := t.f[t.i]
	t.i++
	return s
}
func (t *tokReader) str() string { return string(hx.MustUnHex(t.next())) }
func (t *tokReader) num() int    { n, _ := strconv.Atoi(t.next()); return n }

func (t *tokReader) attrs() []etree.Attr {
	n := t.num()
	var out []etree.Attr
	for i := 0; i < n; i++ {
		sp, k, v := t.str(), t.str(), t.str()
		out = append(out, etree.Attr{Space: sp, Key: k, Value: v})
	}
	return out
}

func (t *tokReader) node() etree.Token {
	switch t.next() {
	case "e":
		e := etree.NewElement("x")
		e.Space, e.Tag = t.str(), t.str()
		e.Attr = t.attrs()
		n := t.num()
		for i := 0; i < n; i++ {
			e.AddChild(t.node())
		}
		return e
	case "t":
		d := t.str()
		if t.next() == "1" {
			return etree.NewCData(d)
		}
		return etree.NewText(d)
	case "c":
		return etree.NewComment(t.str())
	case "p":
		a, b := t.str(), t.str()
		return etree.NewProcInst(a, b)
	case "d":
		return etree.NewDirective(t.str())
	}
	panic("bad tree token")
}

// buildTree: the apex element inside wrapper elements carrying the ancestors' attribute lists
func buildTree(tok string) *etree.Element {
	t := &tokReader{f: strings.Split(tok, ",")}
	n := t.num()
	var ctx [][]etree.Attr
	for i := 0; i < n; i++ {
		ctx = append(ctx, t.attrs())
	}
	root := t.node().(*etree.Element)
	cur := root
	for _, as := range ctx {
		w := etree.NewElement("w")
		w.Attr = as
		w.AddChild(cur)
		cur = w
	}
	return root
}

func nodeTok(sb *strings.Builder, t etree.Token, m *masker) {
	ms := func(s string) string { return hx.Hex(m.mask([]byte(s))) }
	switch n := t.(type) {
	case *etree.Element:
		sb.WriteString("e," + hx.Hex([]byte(n.Space)) + "," + hx.Hex([]byte(n.Tag)) + ",")
		fmt.Fprintf(sb, "%d", len(n.Attr))
		for _, a := range n.Attr {
			sb.WriteString("," + hx.Hex([]byte(a.Space)) + "," + hx.Hex([]byte(a.Key)) + "," + ms(a.Value))
		}
		fmt.Fprintf(sb, ",%d", len(n.Child))
		for _, c := range n.Child {
			sb.WriteString(",")
			nodeTok(sb, c, m)
		}
	case *etree.CharData:
		c := "0"
		if n.IsCData() {
			c = "1"
		}
		sb.WriteString("t," + ms(n.Data) + "," + c)
	case *etree.Comment:
		sb.WriteString("c," + hx.Hex([]byte(n.Data)))
	case *etree.ProcInst:
		sb.WriteString("p," + hx.Hex([]byte(n.Target)) + "," + hx.Hex([]byte(n.Inst)))
	case *etree.Directive:
		sb.WriteString("d," + hx.Hex([]byte(n.Data)))
	}
}

func treeTok(e *etree.Element, m *masker) string {
	var sb strings.Builder
	nodeTok(&sb, e, m)
	return sb.String()
}

// at: "r.1.0" -> token addressed by child indices
func at(root *etree.Element, path string) etree.Token {
	var cur etree.Token = root
	for _, p := range strings.Split(path, ".")[1:] {
		i, _ := strconv.Atoi(p)
		e, ok := cur.(*etree.Element)
		if !ok || i >= len(e.Child) {
			return nil
		}
		cur = e.Child[i]
	}
	return cur
}

func elemAt(root *etree.Element, path string) *etree.Element {
	e, _ := at(root, path).(*etree.Element)
	return e
}

/* ---------- edits ---------- */

type opCtx struct {
	h    crypto.Hash
	m    *masker
	root *etree.Element
}

func (c *opCtx) digestText(stream []byte) string {
	d := c.h.New()
	d.Write(stream)
	sum := d.Sum(nil)
	t := base64.StdEncoding.EncodeToString(sum)
	c.m.add(t, c.m.mark('D', c.m.mask(stream)))
	return t
}

func (c *opCtx) value(v string) string {
	switch {
	case strings.HasPrefix(v, "D"):
		return c.digestText(hx.MustUnHex(v[1:]))
	case strings.HasPrefix(v, "F"):
		cp := c.root.Copy()
		path := v[1:]
		i := strings.LastIndex(path, ".")
		par := elemAt(cp, path[:i])
		idx, _ := strconv.Atoi(path[i+1:])
		par.RemoveChildAt(idx)
		cb, err := xmldsig.SerializeCanonical(cp)
		if err != nil {
			panic(err)
		}
		return c.digestText(cb)
	}
	return string(hx.MustUnHex(v))
}

func dvNode(v string) *etree.Element {
	si := etree.NewElement("SignedInfo")
	si.CreateElement("Reference").CreateElement("DigestValue").SetText(v)
	return si
}

func (c *opCtx) edit(e string) {
	f := strings.Split(e, ":")
	switch f[0] {
	case "text":
		el, v := elemAt(c.root, f[1]), c.value(f[2])
		for len(el.Child) > 0 {
			el.RemoveChildAt(0)
		}
		el.AddChild(etree.NewText(v))
	case "attr":
		el, v := elemAt(c.root, f[1]), c.value(f[3])
		k := string(hx.MustUnHex(f[2]))
		done := false
		for i := range el.Attr {
			if el.Attr[i].Space == "" && el.Attr[i].Key == k {
				el.Attr[i].Value = v
				done = true
				break
			}
		}
		if !done {
			el.Attr = append(el.Attr, etree.Attr{Key: k, Value: v})
		}
	case "app":
		t := &tokReader{f: strings.Split(f[2], ",")}
		elemAt(c.root, f[1]).AddChild(t.node())
	case "pre":
		t := &tokReader{f: strings.Split(f[2], ",")}
		elemAt(c.root, f[1]).InsertChildAt(0, t.node())
	case "appdv":
		v := c.value(f[2])
		elemAt(c.root, f[1]).AddChild(dvNode(v))
	case "predv":
		v := c.value(f[2])
		elemAt(c.root, f[1]).InsertChildAt(0, dvNode(v))
	case "del":
		i := strings.LastIndex(f[1], ".")
		idx, _ := strconv.Atoi(f[1][i+1:])
		elemAt(c.root, f[1][:i]).RemoveChildAt(idx)
	case "dup":
		n := elemAt(c.root, f[1])
		n.Parent().AddChild(n.Copy())
	case "mv":
		n := at(c.root, f[1])
		elemAt(c.root, f[2]).AddChild(n)
	default:
		panic("bad edit " + e)
	}
}

/* ---------- Handle ---------- */

func hashOf(name string) crypto.Hash {
	return map[string]crypto.Hash{"sha1": crypto.SHA1, "sha224": crypto.SHA224, "sha256": crypto.SHA256, "sha384": crypto.SHA384, "sha512": crypto.SHA512}[name]
}

func classify(err error) string {
	if _, ok := err.(sigerrors.NotSignedError); ok {
		return "notsigned"
	}
	s := err.Error()
	for _, kv := range [][2]string{{"multiple signatures", "multiple"}, {"unsupported canonicalization", "unsupported-c14n"},
		{"unsupported digest", "unsupported-digest"}, {"unsupported signature algorithm", "unsupported-sigalg"},
		{"invalid public key", "badkey"}, {"unsupported ECDSA curve", "badkey"}, {"invalid X509", "badcert"},
		{"xmldsig: invalid signature", "invalid"}, {"missing public key", "nokey"}, {"unsupported reference transform", "unsupported-transform"},
		{"unsupported reference URI", "unsupported-uri"}, {"unable to locate reference", "noref"}, {"digest mismatch", "digest"},
		{"expected element type", "xml"}, {"verification error", "badsig"}, {"ECDSA verification failed", "badsig"},
		{"invalid ECDSA signature", "badsig"}} {
		if strings.Contains(s, kv[0]) {
			return kv[1]
		}
	}
	return "other:" + strings.ReplaceAll(s, " ", "_")
}

func sigPath(root *etree.Element, ppath string) string {
	var tags []string
	cur := root
	for _, p := range strings.Split(ppath, ".")[1:] {
		i, _ := strconv.Atoi(p)
		cur = cur.Child[i].(*etree.Element)
		tags = append(tags, cur.Tag)
	}
	return strings.Join(append(tags, "Signature"), "/")
}

func (c *opCtx) sign(cert *certloader.Certificate, parent *etree.Element, opts xmldsig.SignOptions) (recs []rec, err error) {
	recs = record(c.h, func() {
		err = xmldsig.Sign(c.root, parent, c.h, cert.Signer(), cert.Chain(), opts)
	})
	return
}

// after a successful Sign: mask the two streams and register the signature text
func (c *opCtx) signed(recs []rec, parent *etree.Element) (ref, si []byte, ok bool) {
	if len(recs) != 2 {
		return nil, nil, false
	}
	ref = c.m.stream(recs[0])
	si = c.m.stream(recs[1])
	var last *etree.Element
	for _, e := range parent.ChildElements() {
		if e.Tag == "Signature" {
			last = e
		}
	}
	if last != nil {
		if sv := last.SelectElement("SignatureValue"); sv != nil {
			c.m.add(sv.Text(), c.m.mark('S', si))
		}
	}
	return ref, si, true
}

func (c *opCtx) verify(sigpath string) string {
	var err error
	recs := record(c.h, func() {
		_, err = xmldsig.Verify(c.root, sigpath, nil)
	})
	if err != nil {
		return "v=err:" + classify(err)
	}
	if len(recs) != 2 {
		return fmt.Sprintf("v=ok streams=%d", len(recs))
	}
	return "v=ok vsi=" + hx.Hex(c.m.mask(recs[0].stream)) + " vref=" + hx.Hex(c.m.mask(recs[1].stream))
}

// Handle: fields after the XSIG token
func Handle(f []string) string {
	if len(f) != 7 {
		return "bad-op"
	}
	installRecorders()
	kind, hs, kk, os, pp, edits, tree := f[0], f[1], f[2], f[3], f[4], f[5], f[6]
	cert := sg.Cert(kk)
	c := &opCtx{h: hashOf(hs), m: newMasker(hs, kk, cert), root: buildTree(tree)}
	opts := xmldsig.SignOptions{MsCompatHashNames: os[0] == '1', UseRecC14n: os[1] == '1', IncludeX509: os[2] == '1', IncludeKeyValue: os[3] == '1'}
	parent := elemAt(c.root, pp)
	if parent == nil {
		return "bad-op"
	}
	sp := sigPath(c.root, pp)
	recs, err := c.sign(cert, parent, opts)
	if err != nil {
		return "err sign:" + classify(err)
	}
	ref, si, ok := c.signed(recs, parent)
	if !ok {
		return fmt.Sprintf("err sign-streams=%d", len(recs))
	}
	out1 := treeTok(c.root, c.m)
	if edits != "-" {
		for _, e := range strings.Split(edits, ";") {
			c.edit(e)
		}
	}
	switch {
	case strings.HasPrefix(kind, "sv"):
		return "ok ref=" + hx.Hex(ref) + " si=" + hx.Hex(si) + " out=" + out1 + " " + c.verify(sp)
	case strings.HasPrefix(kind, "resign"):
		recs2, err := c.sign(cert, parent, opts)
		if err != nil {
			return "err sign2:" + classify(err)
		}
		ref2, _, ok := c.signed(recs2, parent)
		if !ok {
			return fmt.Sprintf("err sign2-streams=%d", len(recs2))
		}
		n := 0
		for _, e := range parent.ChildElements() {
			if e.Tag == "Signature" {
				n++
			}
		}
		return "ok ref=" + hx.Hex(ref) + " ref2=" + hx.Hex(ref2) + fmt.Sprintf(" count=%d", n) + " out=" + treeTok(c.root, c.m) + " " + c.verify(sp)
	}
	return "bad-op"
}

/* ---------- Gen ---------- */

var hashNames = []string{"sha1", "sha224", "sha256", "sha384", "sha512"}
var keyKinds = []string{"rsa", "p256", "p384"}

func hexs(s string) string { return hx.Hex([]byte(s)) }

// element children paths of e (as index paths below base)
func elemPaths(e *etree.Element, base string, depth int, out *[]string) {
	for i, c := range e.Child {
		if ce, ok := c.(*etree.Element); ok {
			p := base + "." + strconv.Itoa(i)
			*out = append(*out, p)
			if depth > 0 {
				elemPaths(ce, p, depth-1, out)
			}
		}
	}
}

type scenario struct {
	name  string
	edits func(pp, S string, parent *etree.Element, r *hx.Rng, hasKI bool) string
}

var evilText = "t," + hexs("EVIL") + ",0"

var scenarios = []scenario{
	{"plain", func(pp, S string, p *etree.Element, r *hx.Rng, ki bool) string { return "-" }},
	{"addtext", func(pp, S string, p *etree.Element, r *hx.Rng, ki bool) string { return "app:" + pp + ":" + evilText }},
	{"rootattr", func(pp, S string, p *etree.Element, r *hx.Rng, ki bool) string {
		return "attr:r:" + hexs("evil") + ":" + hexs("1")
	}},
	{"deepattr", func(pp, S string, p *etree.Element, r *hx.Rng, ki bool) string {
		var ps []string
		elemPaths(p, pp, 3, &ps)
		if len(ps) == 0 {
			return ""
		}
		return "attr:" + ps[r.Intn(len(ps))] + ":" + hexs("evil") + ":" + hexs("1")
	}},
	{"deeptext", func(pp, S string, p *etree.Element, r *hx.Rng, ki bool) string {
		var ps []string
		elemPaths(p, pp, 3, &ps)
		if len(ps) == 0 {
			return ""
		}
		return "app:" + ps[r.Intn(len(ps))] + ":" + evilText
	}},
	{"digestvalue", func(pp, S string, p *etree.Element, r *hx.Rng, ki bool) string {
		return "text:" + S + ".0.2.2:D" + hexs("evil")
	}},
	{"sigvalue", func(pp, S string, p *etree.Element, r *hx.Rng, ki bool) string {
		return "text:" + S + ".1:D" + hexs("evil")
	}},
	{"sigvalue-b64", func(pp, S string, p *etree.Element, r *hx.Rng, ki bool) string {
		return "text:" + S + ".1:" + hexs("!")
	}},
	{"dupsig", func(pp, S string, p *etree.Element, r *hx.Rng, ki bool) string { return "dup:" + S }},
	{"movesig", func(pp, S string, p *etree.Element, r *hx.Rng, ki bool) string {
		var ps []string
		elemPaths(p, pp, 0, &ps)
		if len(ps) == 0 {
			return ""
		}
		return "mv:" + S + ":" + ps[r.Intn(len(ps))]
	}},
	{"forge", func(pp, S string, p *etree.Element, r *hx.Rng, ki bool) string {
		return "app:" + pp + ":" + evilText + ";appdv:" + S + ":F" + S
	}},
	{"forge-front", func(pp, S string, p *etree.Element, r *hx.Rng, ki bool) string {
		return "app:" + pp + ":" + evilText + ";predv:" + S + ":F" + S
	}},
	{"extra-dv", func(pp, S string, p *etree.Element, r *hx.Rng, ki bool) string {
		return "appdv:" + S + ":D" + hexs("evil")
	}},
	{"dropkeyinfo", func(pp, S string, p *etree.Element, r *hx.Rng, ki bool) string {
		if !ki {
			return ""
		}
		return "del:" + S + ".2"
	}},
	{"c14nalg", func(pp, S string, p *etree.Element, r *hx.Rng, ki bool) string {
		return "attr:" + S + ".0.0:" + hexs("Algorithm") + ":" + hexs("foo")
	}},
	{"sigcomment", func(pp, S string, p *etree.Element, r *hx.Rng, ki bool) string {
		return "app:" + S + ".0:c," + hexs(" note ")
	}},
	{"object", func(pp, S string, p *etree.Element, r *hx.Rng, ki bool) string {
		return "app:" + S + ":e,-," + hexs("Object") + ",0,1," + evilText
	}},
}

var wrapCtx = []string{
	"1,0", // Document only
	"1,1," + hexs("xmlns") + "," + hexs("q9") + "," + hexs("urn:unused"),
	"1,1,-," + hexs("xmlns") + "," + hexs("urn:wrapper-default"),
	"2,0,2," + hexs("xmlns") + "," + hexs("asmv2") + "," + hexs("urn:other") + "," + hexs("xmlns") + "," + hexs("a") + "," + hexs("urn:wrapped-a"),
}

// Gen writes XSIG ops for property prop.
func Gen(w *bufio.Writer, seed uint64, tier string, prop string) {
	r := hx.NewRng(seed ^ 0x7853a1)
	ndocs := 40
	if tier == "thorough" {
		ndocs = 1200
	}
	for i := 0; i < ndocs; i++ {
		vi := []int{0, 0, 3, 2, 1}[i%5]
		docb := c19.GenDocBytes(r, vi, i%7 == 6)
		doc := etree.NewDocument()
		if err := doc.ReadFromBytes(docb); err != nil || doc.Root() == nil {
			continue
		}
		root := doc.Root()
		// sometimes the input already carries Signature-tagged children (with and without prefix)
		pp := "r"
		parent := root
		if r.Intn(4) == 0 {
			var ps []string
			elemPaths(root, "r", 2, &ps)
			if len(ps) > 0 {
				pp = ps[r.Intn(len(ps))]
				parent = elemAt(root, pp)
			}
		}
		// pre-existing Signature-tagged children of the parent: none, one, two adjacent, two non-adjacent, first, last, three adjacent
		mkOld := func() *etree.Element {
			old := etree.NewElement("Signature")
			if r.Bool() {
				old.Space = "dsig"
				old.CreateAttr("xmlns:dsig", "http://www.w3.org/2000/09/xmldsig#")
			}
			old.CreateElement("SignedInfo").SetText("old")
			return old
		}
		switch i % 8 {
		case 1:
			parent.InsertChildAt(r.Intn(len(parent.Child)+1), mkOld())
		case 2:
			at := r.Intn(len(parent.Child) + 1)
			parent.InsertChildAt(at, mkOld())
			parent.InsertChildAt(at, mkOld())
		case 3:
			parent.InsertChildAt(0, mkOld())
			parent.AddChild(mkOld())
		case 4:
			parent.InsertChildAt(0, mkOld())
		case 5:
			parent.AddChild(mkOld())
		case 6:
			at := r.Intn(len(parent.Child) + 1)
			for j := 0; j < 3; j++ {
				parent.InsertChildAt(at, mkOld())
			}
		}
		// index the new Signature will get
		k := 0
		for _, c := range parent.Child {
			if e, ok := c.(*etree.Element); ok && e.Tag == "Signature" {
				continue
			}
			k++
		}
		S := pp + "." + strconv.Itoa(k)
		tok := c19.TreeToken(root)
		tok = tok[strings.Index(tok, ",e,")+1:] // drop the ancestor part; re-added below
		h := hashNames[r.Intn(len(hashNames))]
		kk := keyKinds[r.Intn(len(keyKinds))]
		ob := []string{"0001", "0011", "1001", "0101", "0010", "0000", "1111"}[r.Intn(7)]
		hasKI := ob[2] == '1' || ob[3] == '1'
		// the edits address the tree after removal of old signatures: build it for the path computations
		cpRoot := root.Copy()
		work := elemAt(cpRoot, pp)
		for j := 0; j < len(work.Child); {
			if e, ok := work.Child[j].(*etree.Element); ok && e.Tag == "Signature" {
				work.RemoveChildAt(j)
				continue
			}
			j++
		}
		ctx := wrapCtx[0]
		if i%4 == 3 {
			ctx = wrapCtx[r.Intn(len(wrapCtx))]
		}
		var list []scenario
		switch prop {
		case "C01":
			list = scenarios[:1]
		case "C02":
			list = scenarios
		case "C03":
			list = scenarios[:1]
		case "C08":
			list = nil
		default:
			list = scenarios
		}
		for _, sc := range list {
			e := sc.edits(pp, S, work, r, hasKI)
			if e == "" {
				continue
			}
			fmt.Fprintf(w, "XSIG sv-%s %s %s %s %s %s %s,%s\n", sc.name, h, kk, ob, pp, e, ctx, tok)
		}
		if prop == "C08" || prop == "C01" {
			fmt.Fprintf(w, "XSIG resign-plain %s %s %s %s - %s,%s\n", h, kk, ob, pp, ctx, tok)
			fmt.Fprintf(w, "XSIG resign-edit %s %s %s %s %s %s,%s\n", h, kk, ob, pp, "app:"+pp+":"+evilText, ctx, tok)
			fmt.Fprintf(w, "XSIG resign-dup %s %s %s %s %s %s,%s\n", h, kk, ob, pp, "dup:"+S, ctx, tok)
		}
	}
}

package chttp

import (
	"bufio"
	"fmt"
	"strings"

	"verifharness/hx"
)

func hexv(s string) string {
	if s == "" {
		return "."
	}
	return hx.Hex([]byte(s))
}

// vals: header lines -> op field
func vals(vs ...string) string {
	if len(vs) == 0 {
		return "-"
	}
	var out []string
	for _, v := range vs {
		out = append(out, hexv(v))
	}
	return strings.Join(out, ",")
}

func nats(ns ...int) string {
	if len(ns) == 0 {
		return "-"
	}
	var out []string
	for _, n := range ns {
		out = append(out, fmt.Sprint(n))
	}
	return strings.Join(out, ",")
}

const (
	tGzip   = "gzip"
	tSnappy = "x-snappy-framed"
	both    = "x-snappy-framed, gzip"
)

// hand-written header values: case, white space, parameters, q-values, lists, wildcards, near misses
var negFixed = []string{
	"", "gzip", "GZIP", "Gzip", " gzip", "gzip ", "\tgzip\t", "x-snappy-framed", "X-Snappy-Framed", "identity", "Identity", "IDENTITY",
	"*", "*;q=1", "gzip;q=0", "gzip; q=0.5", "gzip ;q=1", "gzip;q=1.0;x=y", "br", "br, gzip", "gzip,x-snappy-framed", "x-snappy-framed, gzip",
	"x-snappy-framed;q=0, gzip", "gzip, identity", "identity, gzip", "deflate", "deflate, br, zstd", ",", ",,gzip,,", "gzip;", ";gzip", "x-gzip",
	"snappy", "x-snappy", "x-snappy-framed2", "gzip gzip", "identity;q=0", "gzip, *;q=0", "gzip,", ", gzip", "g zip", "gzip\x0b", "\x0cgzip",
	"x-snappy-framed , gzip ; q=0.1", "GZIP, X-SNAPPY-FRAMED", "gzip/1", "\"gzip\"", "compress, gzip", "identity,identity",
}

var tokenPool = []string{"gzip", "x-snappy-framed", "identity", "br", "deflate", "*", "GZIP", "X-Snappy-Framed", "gzi", "gzipp", "zstd", ""}

func randHeader(r *hx.Rng) string {
	n := 1 + r.Intn(4)
	var parts []string
	for i := 0; i < n; i++ {
		t := tokenPool[r.Intn(len(tokenPool))]
		switch r.Intn(6) {
		case 0:
			t = " " + t
		case 1:
			t = t + " "
		case 2:
			t = t + ";q=" + []string{"0", "0.5", "1", "0.001"}[r.Intn(4)]
		case 3:
			t = t + " ; q=1"
		}
		parts = append(parts, t)
	}
	return strings.Join(parts, []string{",", ", ", " ,", ",  "}[r.Intn(4)])
}

// segment length patterns around the snappy block size, the gzip window and net/http's buffers
var segPatterns = [][]int{
	{}, {0}, {1}, {2}, {100}, {4095}, {4096}, {32767}, {32768}, {65535}, {65536}, {1, 65536, 1}, {65536, 65536}, {70, 0, 65536},
	{32768, 32768, 1}, {0, 0}, {0, 5, 0}, {65536, 1}, {1, 1, 1, 1}, {2049, 65535, 3},
}

func cutsFor(wc string, lens []int) []string {
	cuts := []string{"full", "empty"}
	for j := 0; j <= len(lens); j++ {
		cuts = append(cuts, fmt.Sprintf("seg%d", j))
	}
	if wc == "id" {
		return cuts
	}
	nonempty := false
	for j, n := range lens {
		if n > 0 {
			nonempty = true
			cuts = append(cuts, fmt.Sprintf("mid%d", j+1))
		}
	}
	cuts = append(cuts, "junk")
	if wc == "gz" {
		cuts = append(cuts, "hdr1", "last1", "notrailer")
	} else if nonempty {
		cuts = append(cuts, "hdr1", "last1")
	}
	return cuts
}

func ceFor(wc string) string {
	switch wc {
	case "gz":
		return vals(tGzip)
	case "sn":
		return vals(tSnappy)
	}
	return "-"
}

var handlerScripts = []string{
	"-", "W0", "W10", "H200", "H201,W5", "H200,W0", "H202", "H404,W9", "H500", "H503,W3,F,W4", "F", "F,W10", "F,F,W1,E", "F,H500,W3", "F,H201,W3",
	"W10,F,W70000", "W70000,F,W1,F", "E", "E,E", "W65536", "W65537", "W2048", "W2049", "W4096,W4097", "H202,F,W3", "W3,H500,W3", "H200,H500,W1",
	"H200,F", "W0,F,W0", "H299,W1", "H300,W1", "H301", "W1,F,F,W1", "H200,E,F,E",
}

func randScript(r *hx.Rng) string {
	n := r.Intn(5)
	var ops []string
	for i := 0; i < n; i++ {
		switch r.Intn(7) {
		case 0:
			ops = append(ops, "F")
		case 1:
			ops = append(ops, "E")
		case 2:
			ops = append(ops, fmt.Sprintf("H%d", r.Pick(200, 201, 202, 299, 300, 400, 404, 500, 503)))
		default:
			ops = append(ops, fmt.Sprintf("W%d", r.Pick(0, 1, 7, 2048, 4096, 32768, 65536, 65537, 100000)))
		}
	}
	if len(ops) == 0 {
		return "-"
	}
	return strings.Join(ops, ",")
}

// Gen writes the CHTTP ops of property prop (C09, C11, C14)
func Gen(w *bufio.Writer, seed uint64, tier string, prop string) {
	r := hx.NewRng(seed ^ 0xc477)
	thorough := tier == "thorough"
	sd := func() uint64 { return 1 + r.U64()%1000000 }
	srv := func(ce, ae, wc string, lens []int, cut, xfer, pre, hops string) {
		fmt.Fprintf(w, "CHTTP srv %s %s %s %s %s %s %s %s %d\n", ce, ae, wc, nats(lens...), cut, xfer, pre, hops, sd())
	}
	aeList := []string{"-", vals(tGzip), vals(tSnappy), vals(both), vals("identity"), vals("gzip;q=0"), vals("br", tGzip), vals("GZIP"), vals(" gzip , br")}
	switch prop {
	case "C09":
		// ---- negotiation table
		for _, v := range negFixed {
			fmt.Fprintf(w, "CHTTP neg %s\n", hexv(v))
		}
		nRand := 40
		if thorough {
			nRand = 400
		}
		for i := 0; i < nRand; i++ {
			fmt.Fprintf(w, "CHTTP neg %s\n", hexv(randHeader(r)))
		}
		// ---- codec laws on the real decoders: every cut class of every pattern
		for _, wc := range []string{"gz", "sn", "id"} {
			for pi, lens := range segPatterns {
				if !thorough && pi%2 == 1 && len(lens) == 1 {
					continue
				}
				for _, cut := range cutsFor(wc, lens) {
					fmt.Fprintf(w, "CHTTP law %s %s %s %d\n", wc, nats(lens...), cut, sd())
				}
			}
		}
		// ---- A. header sweep through the real server: Content-Encoding lines x wire codec
		ceLines := [][]string{{"gzip"}, {" gzip "}, {"\tgzip"}, {"GZIP"}, {"gzip, identity"}, {"identity"}, {"Identity"}, {""}, {"gzip", "br"}, {"br", "gzip"},
			{tSnappy}, {"X-SNAPPY-FRAMED"}, {tSnappy, "gzip"}, {"deflate"}, {"*"}, {"gzip;q=1"}, {"identity", "gzip"}, {"", "gzip"}, {"x-gzip"}, {"snappy"}}
		for _, ce := range ceLines {
			for _, wc := range []string{"id", "gz", "sn"} {
				srv(vals(ce...), aeList[r.Intn(len(aeList))], wc, []int{300, 5}, "full", []string{"chunked", "cl"}[r.Intn(2)], "-", "W10,E")
			}
		}
		// Accept-Encoding lines (several lines: only the first counts)
		aeLines := [][]string{{}, {"gzip"}, {tSnappy}, {both}, {"gzip", tSnappy}, {"br", "gzip"}, {"identity"}, {"*"}, {"gzip;q=0"}, {"GZIP"}, {" gzip"}, {"gzip "},
			{"br, gzip ;q=0.2"}, {"x-snappy-framed;q=0,gzip"}, {""}, {"", "gzip"}, {"deflate, br"}, {"Gzip, X-Snappy-Framed"}}
		for _, ae := range aeLines {
			for _, hops := range []string{"W10,E", "H201,W3,F,W3", "H404,W9"} {
				srv("-", vals(ae...), "id", []int{50}, "full", "cl", "-", hops)
			}
		}
		for i := 0; i < nRand/2; i++ {
			srv(vals(randHeader(r)), vals(randHeader(r)), []string{"id", "gz", "sn"}[r.Intn(3)], []int{r.Pick(0, 1, 100, 5000)}, "full", "chunked", "-", "E")
		}
		// ---- B. wire / cut sweep with clean HTTP framing
		for _, wc := range []string{"gz", "sn", "id"} {
			for pi, lens := range segPatterns {
				if !thorough && pi%3 != 0 {
					continue
				}
				for _, cut := range cutsFor(wc, lens) {
					srv(ceFor(wc), aeList[r.Intn(len(aeList))], wc, lens, cut, []string{"chunked", "cl"}[r.Intn(2)], "-", "E")
				}
			}
		}
		// ---- C. Content-Encoding vs actual bytes: every pair, empty and non-empty bodies
		for _, wc := range []string{"id", "gz", "sn"} {
			for _, ce := range []string{"id", "gz", "sn"} {
				for _, lens := range [][]int{{}, {0}, {9}, {65536, 3}} {
					srv(ceFor(ce), "-", wc, lens, "full", "chunked", "-", "E")
				}
			}
		}
		// ---- D. the connection is cut: unterminated chunked body, fewer bytes than Content-Length
		for _, wc := range []string{"id", "gz", "sn"} {
			for _, lens := range [][]int{{}, {1}, {65536}, {65536, 65536, 7}, {100, 0, 100}} {
				for _, xfer := range []string{"cutchunk", "clshort"} {
					cuts := []string{"full"}
					if len(lens) > 1 {
						cuts = append(cuts, "seg1", "mid2")
					}
					for _, cut := range cuts {
						srv(ceFor(wc), vals(both), wc, lens, cut, xfer, "-", "E")
					}
				}
			}
		}
		// ---- E. handler behaviour x negotiated response coding
		for _, ae := range aeList {
			for si, hops := range handlerScripts {
				if !thorough && (si+len(ae))%2 == 1 && si > 12 {
					continue
				}
				pre := "-"
				if _, ok := staticLen(hops); ok && r.Intn(3) == 0 && !strings.Contains(hops, "H3") && !strings.Contains(hops, "H4") && !strings.Contains(hops, "H5") {
					pre = "cl"
				}
				wc := []string{"id", "gz", "sn"}[r.Intn(3)]
				srv(ceFor(wc), ae, wc, []int{r.Pick(0, 1, 700, 65536)}, "full", "chunked", pre, hops)
			}
		}
		for i := 0; i < nRand; i++ {
			wc := []string{"id", "gz", "sn"}[r.Intn(3)]
			srv(ceFor(wc), aeList[r.Intn(len(aeList))], wc, []int{r.Pick(0, 1, 4096, 65535, 65536, 65537)}, "full", []string{"chunked", "cl"}[r.Intn(2)], "-", randScript(r))
		}
		// ---- the client loop against servers behind the middleware
		accepts := []string{"", both, tGzip, tSnappy, "identity", "gzip;q=0, br", "GZIP", "x-snappy-framed;q=0.1 , gzip", "br"}
		scripts := []string{"-", "ok", "nt,ok", "503,ok", "406,ok", "406,503,ok", "u", "nt,u", "500,406,nt,ok", "np", "404", "406,406", "503,503,503", "nt,nt,ok", "415"}
		sizes := []int{0, 1, 1000, 32768, 65535, 65536, 65537, 200000}
		cliHops := []string{"W10", "E", "H201,W3,F,W70000", "W0", "W65536,F,W1", "H202,W1"}
		for _, a := range accepts {
			for si, sc := range scripts {
				if !thorough && (si+len(a))%3 != 0 && si > 4 {
					continue
				}
				if strings.Contains(sc, "u") && !(strings.Contains(a, "gzip") || strings.Contains(a, tSnappy+",") || strings.HasPrefix(a, tSnappy)) {
					continue // `u` = a server that does not know the request coding: only while a coding is in force
				}
				fmt.Fprintf(w, "CHTTP cli %s %d %d %s %d %s %d\n", vals(a), r.Pick(0, 0, 1, 3, 5), 1+r.Intn(3), sc, sizes[r.Intn(len(sizes))], cliHops[r.Intn(len(cliHops))], sd())
			}
		}
		// scripts starting with Flush / announcing 2xx without a body, through the whole client (listed findings)
		for _, a := range []string{both, tGzip, ""} {
			for _, h := range []string{"F,W10", "H200", "H201"} {
				fmt.Fprintf(w, "CHTTP cli %s 0 1 ok 100 %s %d\n", vals(a), h, sd())
			}
		}
	case "C11":
		// decoded size vs bytes on the wire
		sizes := []int{0, 1 << 20, 16 << 20, 80 << 20}
		if thorough {
			sizes = append(sizes, 512<<20)
		}
		for _, wc := range []string{"id", "gz", "sn"} {
			for _, n := range sizes {
				if wc == "id" && n > 16<<20 {
					continue
				}
				fmt.Fprintf(w, "CHTTP bomb %s %d\n", wc, n)
			}
		}
		// the signers that buffer their input: sizes around their limits and a stream that never ends
		for _, sgn := range []struct {
			name string
			max  int
		}{{"appmanifest", 64 << 20}, {"cat", 256 << 20}} {
			ns := []string{"0", "1", "1000", fmt.Sprint(sgn.max + 1), "inf"}
			if thorough || sgn.name == "appmanifest" {
				ns = append(ns, fmt.Sprint(sgn.max), fmt.Sprint(sgn.max+2))
			}
			for _, n := range ns {
				fmt.Fprintf(w, "CHTTP sbuf %s %s\n", sgn.name, n)
			}
		}
		// malformed streams against the real server: every cut class, wrong coding, junk
		for _, wc := range []string{"gz", "sn"} {
			for _, lens := range [][]int{{}, {1}, {65536, 9}, {70, 0, 65536}} {
				for _, cut := range cutsFor(wc, lens) {
					for _, xfer := range []string{"chunked", "cutchunk"} {
						srv(ceFor(wc), "-", wc, lens, cut, xfer, "-", "E")
					}
				}
			}
		}
		for _, wc := range []string{"id", "gz", "sn"} {
			for _, ce := range []string{"gz", "sn"} {
				srv(ceFor(ce), vals(both), wc, []int{1000}, "junk", "cl", "-", "W3")
				fmt.Fprintf(w, "CHTTP law %s %s junk %d\n", ce, nats(10, 10), sd())
			}
		}
		for i := 0; i < 30; i++ {
			wc := []string{"id", "gz", "sn"}[r.Intn(3)]
			cut := []string{"full", "hdr1", "empty", "junk"}[r.Intn(4)]
			if wc == "id" && cut == "hdr1" {
				cut = "full" // byte-level cuts of an unframed body have no counterpart on the model's one-byte stand-ins
			}
			srv(vals(randHeader(r)), vals(randHeader(r)), wc, []int{r.Pick(0, 1, 100)}, cut, []string{"chunked", "cl", "cutchunk", "clshort"}[r.Intn(4)], "-", randScript(r))
		}
	case "C14":
		rounds := 6
		if thorough {
			rounds = 30
		}
		for k := 0; k < rounds; k++ {
			n := []int{2, 8, 32, 16}[k%4]
			var specs []string
			for i := 0; i < n; i++ {
				wc := []string{"id", "gz", "sn"}[r.Intn(3)]
				ce := ceFor(wc)
				cut := "full"
				switch r.Intn(8) {
				case 0:
					ce = vals("br") // refused
				case 1:
					cut = "last1"
					if wc == "id" {
						cut = "full"
					}
				case 2:
					ce = vals(tGzip)
					wc = "sn" // wrong coding
				}
				lens := [][]int{{1}, {100, 200}, {65536, 1}, {0}, {4096}}[r.Intn(5)]
				hops := []string{"E", "W10,E", "H201,E,F,W5", "W70000", "H404,W3"}[r.Intn(5)]
				ae := []string{"-", vals(tGzip), vals(tSnappy), vals(both)}[r.Intn(4)]
				specs = append(specs, fmt.Sprintf("%s/%s/%s/%s/%s/%s", ce, ae, wc, nats(lens...), cut, hops))
			}
			fmt.Fprintf(w, "CHTTP conc %d %s %d\n", n, strings.Join(specs, ";"), sd())
		}
	}
}

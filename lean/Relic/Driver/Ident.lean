/- line-protocol handlers for the identity-field model (first token IDENT; used by C19, C01, C06) -/
import Relic.Model.Ident
import Relic.Spec.Ident
namespace Relic.Driver.Ident
open Relic Relic.Ident

def natOfHex (s : String) : Option Nat := (fromHex s).map beVal

/-- `rsa:<nhex>:<ehex>` | `ec:<bits>:<xhex>:<yhex>` | `other` -/
def parseKey (s : String) : Option PubKey :=
  match s.splitOn ":" with
  | ["rsa", n, e] => do pure (.rsa (← natOfHex n) (← natOfHex e))
  | ["ec", b, x, y] => do pure (.ec (← b.toNat?) (← natOfHex x) (← natOfHex y))
  | ["other"] => some .other
  | _ => none

def parseStyle : String → Option NameStyle
  | "openssl" => some .openssl
  | "ldap" => some .ldap
  | "msosco" => some .msosco
  | _ => none

def showRes {α} (r : Res α) (f : α → String) : String :=
  match r with
  | .ok a => f a
  | .err e => s!"err {e}"
  | .panic p => s!"panic {p}"
  | .diverge => "diverge"

/-- the hash as a table: the op carries the digests of the streams the model produces (checked by the python side) -/
def tableHash (t : List (Bytes × Bytes)) (b : Bytes) : Bytes :=
  match t.find? (·.1 = b) with
  | some e => e.2
  | none => []

/-- `subjhex~issuerhex~keyspec~leafflag,…` -/
def parseChain (s : String) : Option (List LCert) :=
  if s = "-" then some [] else
  (s.splitOn ",").mapM fun item =>
    match item.splitOn "~" with
    | [a, i, k, l] => do pure ⟨(← fromHex a), (← fromHex i), (← parseKey k), l = "1"⟩
    | _ => none

/-- `subjhex~issuerhex~keyspec~sha1(skid stream),…`: certificates carried by a signature, with the digests the model needs -/
def parseCarried (s : String) : Option (List (LCert × Bytes)) :=
  if s = "-" then some [] else
  (s.splitOn ",").mapM fun item =>
    match item.splitOn "~" with
    | [a, i, k, d] => do pure (⟨(← fromHex a), (← fromHex i), (← parseKey k), false⟩, (← fromHex d))
    | _ => none

/-- `-` | `namehex:ikhhex,…` -/
def parsePubs (s : String) : Option (List (String × String)) :=
  if s = "-" then some [] else
  (s.splitOn ",").mapM fun item =>
    match item.splitOn ":" with
    | [n, h] => do pure ((← (fromHex n).map bytesToString), (← (fromHex h).map bytesToString))
    | _ => none

/-- one certificate of a `sign` op: `leafkey;subj;issuer;chain;d1;d2` -/
def parseLoaded (s : String) : Option (Loaded × Bytes × Bytes) :=
  match s.splitOn ";" with
  | [k, subj, iss, ch, d1, d2] => do
    let k ← parseKey k
    let subj ← fromHex subj
    let iss ← fromHex iss
    let ch ← parseChain ch
    pure (⟨⟨k, subj, iss⟩, ch⟩, (← fromHex d1), (← fromHex d2))
  | _ => none

def strOfHex (s : String) : Option String := (fromHex s).map bytesToString

/-- `none` | `-` | `spacehex.keyhex:valuehex,…` -/
def parseAsi (s : String) : Option (Option (List XAttr)) :=
  if s = "none" then some none
  else if s = "-" then some (some [])
  else do
    let l ← (s.splitOn ",").mapM fun item =>
      match item.splitOn ":" with
      | [sk, v] =>
        match sk.splitOn "." with
        | [sp, k] => do pure (XAttr.mk (← strOfHex sp) (← strOfHex k) (← strOfHex v))
        | _ => none
      | _ => none
    pure (some l)

def strBytes (s : String) : Bytes := s.toList.map fun c => UInt8.ofNat c.toNat

def showAsi (l : List XAttr) : String :=
  if l.isEmpty then "-" else
  ",".intercalate (l.map fun a => s!"{toHex (strBytes a.space)}.{toHex (strBytes a.key)}:{toHex (strBytes a.value)}")

/-- streams whose SHA-1 the op has to carry for this certificate -/
def streamsOf (c : Loaded) : List Bytes :=
  (match publicKeyToSnk c.leaf.key with | .ok s => [s] | _ => [[]])
  ++ (match issuerOf c with
      | some ik => (match skidStream ik with | .ok s => [s] | _ => [[]])
      | none => [[]])

def b01 (b : Bool) : String := if b then "1" else "0"

def signAll (hash : Bytes → Bytes) : Manifest Unit → List Loaded → Res (Manifest Unit)
  | m, [] => .ok m
  | m, c :: rest =>
    match signIdent hash m c with
    | .ok m' => signAll hash m' rest
    | .err e => .err e
    | .panic p => .panic p
    | .diverge => .diverge

def handle : List String → String
  | ["snk", key, dig] =>
    match parseKey key, fromHex dig with
    | some k, some d =>
      match publicKeyToSnk k with
      | .ok snk =>
        let spec := match k with
          | .rsa n e => if snk = Spec.Ident.strongNameBlob n e then "eq" else "ne"
          | _ => "na"
        showRes (tokenSel d) fun t =>
          s!"ok {toHex snk} {toHex t} #spec={spec} tokspec={b01 (t == Spec.Ident.tokenOfDigest d)}"
      | r => showRes r fun _ => "?"
    | _, _ => "bad-op"
  | ["skid", key] =>
    match parseKey key with
    | some k => showRes (skidStream k) fun s => s!"ok {toHex s}"
    | none => "bad-op"
  | "dn" :: style :: der :: _label =>
    match parseStyle style, fromHex der with
    | some st, some d =>
      match parseName d with
      | .ok n =>
        let out := formatParsed st n
        let devs := Spec.Ident.devs n
        let spec := Spec.Ident.certNameToStr n
        let sp := if st ≠ .msosco then "na" else if devs.contains "nonstring" then "na"
                  else if out = spec then "eq" else s!"ne:{toHex spec}"
        s!"ok {toHex out} #parse=ok spec={sp} dev={if devs.isEmpty then "none" else "+".intercalate devs} natv={n.flatten.length} nrdn={n.length} emptyrdn={b01 (n.any (·.isEmpty))}"
      | .err "invalid" => s!"ok {toHex invalidName} #parse=invalid spec=na dev=none"
      | r => showRes r fun _ => "?"
    | _, _ => "bad-op"
  | "sign" :: certs :: asi :: npub :: _ =>
    match (certs.splitOn "|").mapM parseLoaded, parseAsi asi, npub.toNat? with
    | some cs, some a, some np =>
      let table := cs.flatMap fun c =>
        match streamsOf c.1 with
        | [s1, s2] => [(s1, c.2.1), (s2, c.2.2)]
        | _ => []
      let hash := tableHash table
      let m0 : Manifest Unit := ⟨a, List.replicate np ("?", "?"), none, ()⟩
      let streams := "|".intercalate (cs.map fun c => "+".intercalate ((streamsOf c.1).map toHex))
      match signAll hash m0 (cs.map (·.1)) with
      | .ok m =>
        match cs.getLast?, m.asi, m.publishers with
        | some last, some attrs, [(name, ikh)] =>
          let ldap := showRes (formatPkixName .ldap last.1.leaf.subject) toHex
          let v := if !xmlKeyValueOk last.1.leaf.key then "invalid-primary" else
            match verifyIdent hash m last.1.leaf.key (chainOf last.1) with
            | .ok _ => "pass"
            | .err e => e
            | .panic p => s!"panic:{p}"
            | .diverge => "diverge"
          s!"ok token={attrValue "publicKeyToken" attrs} name={toHex (strBytes name)} ikh={ikh} npub={m.publishers.length} asi={showAsi attrs} ldap={ldap} verify={v} #streams={streams} rawname={toHex (strBytes name)}"
        | _, _, _ => "bad-model-state"
      | .err e => s!"err {e} #streams={streams}"
      | .panic p => s!"panic {p}"
      | .diverge => "diverge"
    | _, _, _ => "bad-op"
  | "vgap" :: kind :: key :: carried :: asi :: pubs :: lic :: dig :: _ =>
    -- a manifest whose two XML signatures verify under `key`; the licence signature carries `carried`
    match parseKey key, parseCarried carried, parseAsi asi, parsePubs pubs, fromHex dig with
    | some k, some cs, some a, some ps, some d =>
      let snkS := match publicKeyToSnk k with | .ok s => s | _ => []
      let table := (snkS, d) :: cs.filterMap fun c => match skidStream c.1.key with | .ok s => some (s, c.2) | _ => none
      let hash := tableHash table
      let l : Option String := if lic = "none" then none else (fromHex lic).map bytesToString
      let m : Manifest Unit := ⟨a, ps, l, ()⟩
      let streams := "|".intercalate (table.map fun e => toHex e.1)
      s!"{showRes (verifyIdent hash m k (cs.map (·.1))) fun _ => "ok pass"} #kind={kind} streams={streams}"
    | _, _, _, _, _ => "bad-op"
  | _ => "bad-op"

end Relic.Driver.Ident

package cosign

// JSON text generators for the encoding/json model (Relic.Model.Json) and the number table that stands for
// strconv.ParseFloat + the float encoder (a parameter of the model).

import (
	"bytes"
	"encoding/json"
	"errors"
	"sort"
	"strconv"
	"strings"

	"verifharness/hx"
)

// ---- number table -------------------------------------------------------------------------------------------------

// numberTable lists every maximal run of number characters outside string literals with what Go makes of it:
// "lit:out" (float64 re-encoded by encoding/json) or "lit:!" (range error).  Runs that are not numbers are left out
// (the scanner rejects the text before any conversion happens).
func numberTable(text []byte) string {
	seen := map[string]string{}
	inStr, esc := false, false
	for i := 0; i < len(text); {
		c := text[i]
		if inStr {
			switch {
			case esc:
				esc = false
			case c == '\\':
				esc = true
			case c == '"':
				inStr = false
			}
			i++
			continue
		}
		if c == '"' {
			inStr = true
			i++
			continue
		}
		if c == '-' || (c >= '0' && c <= '9') {
			j := i
			for j < len(text) && strings.IndexByte("-+.eE0123456789", text[j]) >= 0 {
				j++
			}
			// the scanner may end a literal earlier than this greedy run (e.g. "1-2", "01"): add every prefix that parses
			for k := j; k > i; k-- {
				lit := string(text[i:k])
				if _, ok := seen[lit]; ok {
					continue
				}
				if out, ok := cvtNumber(lit); ok {
					seen[lit] = out
				}
			}
			i = j
			continue
		}
		i++
	}
	if len(seen) == 0 {
		return "-"
	}
	keys := make([]string, 0, len(seen))
	for k := range seen {
		keys = append(keys, k)
	}
	sort.Strings(keys)
	var sb strings.Builder
	for i, k := range keys {
		if i > 0 {
			sb.WriteByte(',')
		}
		sb.WriteString(k + ":" + seen[k])
	}
	return sb.String()
}

func cvtNumber(lit string) (string, bool) {
	f, err := strconv.ParseFloat(lit, 64)
	if err != nil {
		var ne *strconv.NumError
		if errors.As(err, &ne) && ne.Err == strconv.ErrRange {
			return "!", true
		}
		return "", false
	}
	out, err := json.Marshal(f)
	if err != nil {
		return "", false
	}
	return string(out), true
}

// ---- string literals ---------------------------------------------------------------------------------------------

var strPieces = [][]byte{
	[]byte("a"), []byte("Z"), []byte("creator"), []byte("0"), []byte(" "), []byte("~"), {0x7f},
	[]byte("<"), []byte(">"), []byte("&"), []byte("'"), []byte("/"), []byte(`\/`), []byte(`\"`), []byte(`\\`),
	[]byte(`\b`), []byte(`\f`), []byte(`\n`), []byte(`\r`), []byte(`\t`),
	[]byte(`\u0000`), []byte(`\u001f`), []byte(`\u001F`), []byte(`\u0020`), []byte(`\u003c`), []byte(`\u003E`), []byte(`\u0026`),
	[]byte(`\u0061`), []byte(`\u00e9`), []byte(`\u2028`), []byte(`\u2029`), []byte(`\u2027`), []byte(`\u202a`), []byte(`\ufffd`), []byte(`\uffff`),
	[]byte(`\ud83d\ude00`), []byte(`\ud800`), []byte(`\udc00`), []byte(`\udbff\udfff`), []byte(`\ude00\ud83d`), []byte(`\ud83d\ud83d\ude00`),
	[]byte(`\ud83dx`), []byte(`\ud83d\n`), []byte(`\ud83d\u0041`), []byte(`\udfff`), []byte(`\ud7ff`), []byte(`\ue000`),
	[]byte("é"), []byte("ß"), {0xc2, 0x80}, {0xdf, 0xbf}, []byte("€"), {0xe2, 0x80, 0xa8}, {0xe2, 0x80, 0xa9}, {0xe2, 0x80, 0xa7},
	{0xe0, 0xa0, 0x80}, {0xed, 0x9f, 0xbf}, {0xee, 0x80, 0x80}, {0xef, 0xbf, 0xbd}, {0xef, 0xbf, 0xbf},
	[]byte("😀"), {0xf0, 0x90, 0x80, 0x80}, {0xf4, 0x8f, 0xbf, 0xbf}, []byte("K"), []byte("ſ"),
	// malformed UTF-8
	{0x80}, {0xbf}, {0xc0, 0x80}, {0xc1, 0xbf}, {0xc2}, {0xc2, 0x41}, {0xe0, 0x80, 0x80}, {0xe0, 0x9f, 0xbf}, {0xed, 0xa0, 0x80},
	{0xed, 0xbf, 0xbf}, {0xe1, 0x80}, {0xe1, 0x80, 0x41}, {0xe1}, {0xe1, 0xe1, 0x80, 0x80}, {0xf0, 0x80, 0x80, 0x80}, {0xf0, 0x8f, 0xbf, 0xbf},
	{0xf4, 0x90, 0x80, 0x80}, {0xf5, 0x80, 0x80, 0x80}, {0xf0, 0x90, 0x80}, {0xf0, 0x90}, {0xf0}, {0xf0, 0x90, 0x80, 0x41}, {0xff}, {0xfe},
	{0xf8, 0x88, 0x80, 0x80, 0x80},
}

func genStrContent(r *hx.Rng) []byte {
	n := r.Pick(0, 1, 1, 2, 3, 5)
	var b []byte
	for i := 0; i < n; i++ {
		b = append(b, strPieces[r.Intn(len(strPieces))]...)
	}
	return b
}

func quote(content []byte) []byte {
	return append(append([]byte{'"'}, content...), '"')
}

var goodNumbers = []string{"0", "-0", "1", "-1", "7", "10", "1.0", "1.5", "-2.50", "1e2", "1E+2", "1e-7", "0.000001", "0.0000001", "1e20", "1e21",
	"123456789012345678901234567890", "1e308", "1e309", "-1e309", "1e-400", "0.1", "2.5e-5", "9007199254740993", "9007199254740992", "4.9e-324",
	"1.7976931348623157e308", "1.7976931348623159e308", "0e0", "0E-0", "-0.0", "100", "1e0", "12e+00", "0.30000000000000004", "3.14159", "1E400", "2e-308"}

var badNumbers = []string{"01", "-", "1.", ".5", "1e", "1e+", "+1", "0x1", "NaN", "Infinity", "-Infinity", "1.e3", "--1", "1e1.5", "00", "-01", "1_0"}

var keyPool = [][]byte{
	[]byte("a"), []byte("b"), []byte("B"), []byte("aa"), []byte(""), []byte("creator"), []byte("Creator"), []byte(`\u0061`), []byte(`creat\u006fr`),
	[]byte("é"), []byte("z"), []byte("😀"), {0xef, 0xbf, 0xbf}, []byte(`\uffff`), []byte(`\ud83d\ude00`), []byte("<k>"), []byte(`\u003ck>`), {0xff},
	{0xef, 0xbf, 0xbd}, []byte(`\ud800`), []byte("a b"), []byte("a\\tb"), []byte("1"), []byte("10"), []byte("2"), []byte("critical"), []byte("optional"),
}

func genKey(r *hx.Rng) []byte {
	if r.Intn(4) == 0 {
		return genStrContent(r)
	}
	return keyPool[r.Intn(len(keyPool))]
}

func ws(r *hx.Rng) string {
	switch r.Intn(8) {
	case 0:
		return " "
	case 1:
		return "\n\t"
	case 2:
		return "\r"
	}
	return ""
}

// genValue: a syntactically valid JSON value
func genValue(r *hx.Rng, depth int) []byte {
	k := r.Intn(10)
	if depth <= 0 && k >= 6 {
		k = r.Intn(6)
	}
	switch k {
	case 0:
		return []byte("null")
	case 1:
		if r.Bool() {
			return []byte("true")
		}
		return []byte("false")
	case 2, 3:
		return []byte(goodNumbers[r.Intn(len(goodNumbers))])
	case 4, 5:
		return quote(genStrContent(r))
	case 6, 7:
		var b bytes.Buffer
		b.WriteString("[" + ws(r))
		n := r.Pick(0, 1, 2, 3)
		for i := 0; i < n; i++ {
			if i > 0 {
				b.WriteString(ws(r) + "," + ws(r))
			}
			b.Write(genValue(r, depth-1))
		}
		b.WriteString(ws(r) + "]")
		return b.Bytes()
	default:
		return genObject(r, depth)
	}
}

func genObject(r *hx.Rng, depth int) []byte {
	var b bytes.Buffer
	b.WriteString("{" + ws(r))
	n := r.Pick(0, 1, 2, 3, 4, 6)
	for i := 0; i < n; i++ {
		if i > 0 {
			b.WriteString(ws(r) + "," + ws(r))
		}
		b.Write(quote(genKey(r)))
		b.WriteString(ws(r) + ":" + ws(r))
		b.Write(genValue(r, depth-1))
	}
	b.WriteString(ws(r) + "}")
	return b.Bytes()
}

// corrupt: one structural or byte-level defect
func corrupt(r *hx.Rng, t []byte) []byte {
	t = append([]byte(nil), t...)
	switch r.Intn(14) {
	case 0: // truncate
		if len(t) > 0 {
			return t[:r.Intn(len(t))]
		}
	case 1: // trailing garbage
		return append(t, []byte([]string{"x", " 1", "{}", ",", "\x00", "]", "}", "\xef\xbb\xbf"}[r.Intn(8)])...)
	case 2: // leading garbage / BOM
		return append([]byte([]string{"\xef\xbb\xbf", "x", "\x00", ",", "//c\n", "\v", "\f", "\u00a0"}[r.Intn(8)]), t...)
	case 3: // byte flip
		if len(t) > 0 {
			t[r.Intn(len(t))] ^= byte(1 << r.Intn(8))
		}
	case 4: // control character inside
		if len(t) > 0 {
			i := r.Intn(len(t))
			t = append(t[:i], append([]byte{byte(r.Intn(0x20))}, t[i:]...)...)
		}
	case 5: // bad number somewhere
		return bytes.Replace(t, []byte(":"), []byte(":"+badNumbers[r.Intn(len(badNumbers))]+","), 1)
	case 6: // trailing comma
		t = bytes.Replace(t, []byte("]"), []byte(",]"), 1)
		return bytes.Replace(t, []byte("}"), []byte(",}"), 1)
	case 7: // bad escape
		return bytes.Replace(t, []byte(`"`), []byte([]string{`"\x`, `"\u12`, `"\u12G4`, `"\'`, `"\U0041`, `"\`}[r.Intn(6)]), 1)
	case 8: // bad literal
		for _, p := range [][2]string{{"null", "nul"}, {"true", "tru"}, {"false", "fals"}, {"null", "Null"}, {"true", "TRUE"}, {"null", "nulll"}} {
			if bytes.Contains(t, []byte(p[0])) {
				return bytes.Replace(t, []byte(p[0]), []byte(p[1]), 1)
			}
		}
		return []byte("nul")
	case 9: // missing colon / unquoted key / single quotes
		return bytes.Replace(t, []byte(`":`), []byte([]string{`" `, `"=`, `"::`, `':`}[r.Intn(4)]), 1)
	case 10: // delete a byte
		if len(t) > 0 {
			i := r.Intn(len(t))
			return append(t[:i], t[i+1:]...)
		}
	case 11: // duplicate a range
		if len(t) > 1 {
			i := r.Intn(len(t))
			j := i + r.Intn(len(t)-i)
			return append(t[:j], append(append([]byte(nil), t[i:j]...), t[j:]...)...)
		}
	case 12: // second top-level value
		return append(append(t, ' '), t...)
	}
	return append(t, '"')
}

// fixed texts around every branch of the scanner and of unquote
var fixedTexts = []string{
	``, ` `, "\n", `{}`, `[]`, ` { } `, ` [ ] `, `null`, ` null `, `true`, `false`, `0`, `-0`, `12`, `12 `, `"x"`, `""`, `1 2`, `{} {}`, `[] x`, `nullx`,
	`{"a":1}`, `{"a":1,"a":2}`, `{"a":1,"\u0061":2}`, `{"a":{"b":1,"b":2},"a":3}`, `{"b":1,"a":2,"B":3,"":4,"aa":5}`,
	`{"creator":"me"}`, `{"creator":null}`, `{"creator":{"x":1}}`, `{"Creator":"me","creator":"you"}`,
	`[1,2,3]`, `[1,[2,[3,[4]]]]`, `{"a":[{"b":[{}]}]}`, `[null,true,false,"s",1.5,{},[]]`,
	`{"a":1e309}`, `[1e309]`, `{"a":[{"b":-1e999}]}`, `1e309`, `{"a":1,"a":1e309}`, `{"a":1e309,"a":1}`,
	`"\ud83d\ude00"`, `"\ud83d"`, `"\ude00"`, `"\ud83d\ud83d\ude00"`, `"\ud83dabc"`, `"\ud83d\u0041"`, `"\uD83D\uDE00"`, `"\udbff\udfff"`, `"\ud800\udc00"`,
	"\"\xff\"", "\"\xc0\x80\"", "\"\xed\xa0\x80\"", "\"\xe1\x80\"", "\"\xf4\x90\x80\x80\"", "\"\xe2\x80\xa8\"", "\"\xe2\x80\xa9\"", "\"\x7f\"", "\"<>&\"", `"\u003c"`,
	`{"a" :1}`, `{"a": 1}`, `{ "a":1 }`, `{"a":1 ,"b":2}`, `{"a":1, "b":2}`, "{\"a\"\t:\r\n1}", `[1 ,2]`, `[1, 2]`, `[ 1]`, `[1 ]`,
	`{"a"}`, `{"a":}`, `{:1}`, `{,}`, `[,]`, `[1,]`, `{"a":1,}`, `{a:1}`, `{'a':1}`, `[1 2]`, `{"a":1 "b":2}`, `{"a":1:2}`, `{"a"::1}`, `]`, `}`, `[}`, `{]`, `[`, `{`, `{"a":[}`,
	`01`, `-`, `1.`, `.5`, `1e`, `1e+`, `+1`, `-a`, `1.5.2`, `1ee2`, `0.`, `0e`, `-0.`, `[01]`, `[1.]`, `[-]`, `1x`, `0x`, `1e5x`, `1.5x`, `1e+5x`,
	`tru`, `t`, `truE`, `nul`, `n`, `fals`, `f`, `nulll`, `truefalse`, `"abc`, `"abc\`, `"\x"`, `"\u12"`, `"\u12g4"`, "\"a\nb\"", "\"a\x00b\"", "\"a\x1fb\"",
	"\xef\xbb\xbf{}", "{}\xef\xbb\xbf", "\x00", "{}\x00", `//x`, `/* */ {}`, "\v{}", "\f{}",
}

// deepNest: n-fold nesting around the depth limit of the scanner
func deepNest(open, close string, n int) []byte {
	return []byte(strings.Repeat(open, n) + strings.Repeat(close, n))
}

/-
  Relic.Spec.ApkV2 — APK Signature Scheme v2, "Integrity-protected contents", written from the specification:
  section 1 (contents of ZIP entries), section 3 (central directory) and section 4 (end of central directory) are
  each split into consecutive 1 MiB chunks (the last chunk of a section may be shorter; an empty section has no
  chunk); chunk digest = H(0xa5 ‖ uint32le(len) ‖ chunk); top-level digest =
  H(0x5a ‖ uint32le(number of chunks) ‖ chunk digests in order of sections 1, 3, 4).
-/
import Relic.Base.Bytes
namespace Relic.Spec.ApkV2
open Relic

/-- split into consecutive chunks of `n` (fuel-free: at most `l.length` chunks) -/
def split (n : Nat) : Nat → Bytes → List Bytes
  | 0, _ => []
  | fuel + 1, l => if n = 0 ∨ l = [] then [] else l.take n :: split n fuel (l.drop n)

def chunkList (n : Nat) (contents cdir eocd : Bytes) : List Bytes :=
  split n contents.length contents ++ split n cdir.length cdir ++ split n eocd.length eocd

def digest (H : Bytes → Bytes) (n : Nat) (contents cdir eocd : Bytes) : Bytes :=
  let cs := chunkList n contents cdir eocd
  H (0x5a :: leBytes 4 cs.length ++ (cs.map fun c => H (0xa5 :: leBytes 4 c.length ++ c)).flatten)

end Relic.Spec.ApkV2

"""XML-DSig sign/verify model glue (token XSIG): per-property predicates evaluated on the implementation's output."""

TOKENS = ["XSIG"]
RULE = ("XSIG: documents from C19's generator (ClickOnce/OPC/AppX/free-form vocabularies, odd namespace use), signed in-process with "
        "xmldsig.Sign (RSA/P-256/P-384 x five hashes x SignOptions, parent = root or a nested element, inputs already carrying "
        "Signature-tagged children, ancestors declaring namespaces), then edited (content text/attribute changes at any depth, "
        "DigestValue/SignatureValue/algorithm changes, duplicated/moved Signature, additional SignedInfo before/after the signed one, "
        "KeyInfo removed, comment/Object added) and verified with xmldsig.Verify; re-signing ops. Both sides print the canonical streams "
        "that were hashed (captured by recording crypto.Hash constructors) with digests/signatures/key material masked symbolically, the "
        "output tree and the verdict. Non-trivial = op on which signing succeeds.")
TRUSTED = ["Relic.Model.XmlSig is hand-written from lib/xmldsig/sign.go, verify.go, structs.go (incl. the relevant part of "
           "encoding/xml.Unmarshal's field matching); tied by differential execution",
           "hash and signature scheme are parameters: symbolic (Dolev-Yao) instantiation in the driver, real values masked by the harness"]
ASSUMPTIONS = ["XSIG theorems are about the in-memory element tree handed from Sign to Verify; the etree write -> read round trip "
               "in between is covered by C19's reser/meta ops, not by the model",
               "xml_sign_then_verify assumes a correct signature scheme, a KeyInfo without attributes (RSA KeyValue / X509Data) that the "
               "verifier maps back to the signer's key, and ancestors of the signed root that declare nothing visibly used in it "
               "(Verify copies the root away from its ancestors; Sign does not)"]

TAMPER = {"addtext", "rootattr", "deepattr", "deeptext", "digestvalue", "sigvalue", "sigvalue-b64", "forge", "forge-front", "extra-dv",
          "c14nalg", "movesig", "dupsig"}


def _kv(line):
    return dict(p.split("=", 1) for p in line.split(" ") if "=" in p)


def _kind(op):
    k = op.split(" ", 3)[1]
    return k.split("-", 1) if "-" in k else [k, ""]


def equiv(op, il, mres):
    return il == mres


def weight(op):
    return 1


def nontrivial(op, mres, tag):
    return mres.startswith("ok ")


def branch(op, mres, tag):
    return "xsig-" + op.split(" ", 3)[1] + ":" + _kv(mres).get("v", mres[:20])


# ---- tree tokens ----
def _parse(f, i):
    t = f[i]
    if t == "e":
        sp, tag, na = f[i + 1], f[i + 2], int(f[i + 3])
        i += 4
        attrs = tuple(tuple(f[i + 3 * j:i + 3 * j + 3]) for j in range(na))
        i += 3 * na
        nk = int(f[i])
        i += 1
        kids = []
        for _ in range(nk):
            k, i = _parse(f, i)
            kids.append(k)
        return ("e", sp, tag, attrs, tuple(kids)), i
    if t == "t":
        return ("t", f[i + 1], f[i + 2]), i + 3
    if t in ("c", "d"):
        return (t, f[i + 1]), i + 2
    if t == "p":
        return ("p", f[i + 1], f[i + 2]), i + 3
    raise ValueError("bad token")


def _tree(tok):
    n, _ = _parse(tok.split(","), 0)
    return n


SIG = "5369676e6174757265"


def _strip(n, path, keep_last):
    """remove the Signature-tagged element children of the element at `path`; with keep_last the last child is dropped instead"""
    if not path:
        kids = n[4]
        if keep_last:
            kids = kids[:-1]
        else:
            kids = tuple(k for k in kids if not (k[0] == "e" and k[2] == SIG))
        return n[:4] + (kids,)
    i = path[0]
    kids = list(n[4])
    kids[i] = _strip(kids[i], path[1:], keep_last)
    return n[:4] + (tuple(kids),)


def predicate(prop, op, il, mres, tag):
    f = op.split(" ")
    kind, sub = _kind(op)
    if il.startswith("crash") or il.startswith("not-run"):
        return ("Relic.Props.%s (xmldsig)" % prop, mres, "implementation process died")
    if il.startswith("panic"):
        return ("Relic.Props.%s (xmldsig)" % prop, "ok or err", "xmldsig code panicked: " + il[:200])
    if not il.startswith("ok "):
        if il.startswith("err sign"):
            return ("Relic.Props.C01.xml_sign_then_verify", "ok", "xmldsig.Sign refused a well-formed tree: " + il)
        return None
    kv, t = _kv(il), _kv(tag)
    v = kv.get("v", "")
    fine = t.get("neutral") == "1" and t.get("ki") == "1"
    if prop in ("C01", "C08") and fine and (kind == "resign" or sub == "plain") and v != "ok":
        return ("Relic.Props.C01.xml_sign_then_verify", "v=ok", "Verify rejects what Sign just produced: " + v)
    if prop == "C02" and kind == "sv" and sub in TAMPER and v == "ok":
        return ("Relic.Props.C02.xml_tamper_evident", "v=err", "Verify accepts the signed document after the edit '%s'" % f[6][:200])
    if prop in ("C03", "C01") and kind == "sv" and sub == "plain":
        try:
            path = [int(x) for x in f[5].split(".")[1:]]
            tok = f[7]
            nctx = int(tok.split(",", 1)[0])
            # skip the ancestor attribute lists
            g = tok.split(",")
            i = 1
            for _ in range(nctx):
                i += 1 + 3 * int(g[i])
            inp, _ = _parse(g, i)
            out = _tree(kv["out"])
            if _strip(inp, path, False) != _strip(out, path, True):
                return ("Relic.Props.C03.xml_payload_preserved", "input tree minus old Signature children = output tree minus the appended Signature",
                        "signing changed the document besides appending the Signature element")
            last = out
            for j in path:
                last = last[4][j]
            last = last[4][-1]
            if not (last[0] == "e" and last[2] == SIG):
                return ("Relic.Props.C03.xml_payload_preserved", "Signature appended as last child", "last child of the parent is not the Signature")
        except (ValueError, IndexError, KeyError):
            return ("Relic.Props.C03.xml_payload_preserved", "parsable output", "output tree token not parsable")
    if prop in ("C08", "C01") and kind == "resign":
        if kv.get("count") != "1":
            return ("Relic.Props.C08.xml_resign_replaces", "count=1", "after re-signing the parent has %s Signature children" % kv.get("count"))
        if sub in ("plain", "dup") and kv.get("ref") != kv.get("ref2"):
            return ("Relic.Props.C08.xml_resign_replaces", "ref2 = ref", "the old Signature was not removed before digesting: the second reference stream differs")
    return None


def matches_known(k, op, il, mres, tag):
    ident = k.get("identity", {})
    if ident.get("site") == "xmldsig.Verify:SignedInfo-first-hashed-last-parsed":
        kind, sub = _kind(op)
        return kind == "sv" and sub == "forge" and _kv(il).get("v") == "ok" and il == mres
    return False
